/-
Gen — JOB-level correctness of the translator model on the arbitrary-depth fragment (`Gen/Deep.lean`):
`deepEventRows_correct_post` / `deepElemRows_correct_post` iterated over a job (`Cpp.runJob`), as
Gen/NestedJobCorrect.lean does for the one-level fragment:
  * `dfragPre_classInit`       the initial class state satisfies the precondition;
  * `dfragEvent_correct_post`  both query shapes under one statement;
  * `deep_job_correct`         a job over ANY list of events writes the concatenation of what the query denotes on
                               each event;
  * `deep_job_split`, `deep_job_prefix_independent`, `deep_job_perm`.
-/
import FaxVerif.Gen.DeepElemRowsCorrect
import FaxVerif.Gen.NestedJobCorrect
namespace FaxVerif.Gen
open FaxVerif.Cpp FaxVerif.Linq
variable {D : Type}

/-- per-event side conditions of the single-event theorems, for either query shape -/
def DFragHyp (QC : QCtx D) : DQ → Prop
  | .eventRows cols => ∀ p ∈ cols, DColHyp QC p.2
  | .elemRows c cols => DElemHyp QC c cols

/-- what the class state must satisfy when the per-event method is entered -/
def DFragPre (cn : Nat → String) : DQ → Env D → Prop
  | .eventRows cols, σ => NColsPre cn cols.length 0 σ
  | .elemRows _ cols, σ => ∀ k, k < cols.length → (σ (cn k)).isSome = true

theorem banksOf_dcols_notToken (B : Backend) (ht : B.how ≠ "token") (nm cn : Nat → String) :
    ∀ (cols : List DCol) (idx n : Nat) (rest : List Stmt) (bs : List String),
      banksOf B ((compDCols B nm cn cols idx n).flatMap (·.stmts) ++ rest) bs = banksOf B rest bs
  | [], idx, n, rest, bs => by simp [compDCols]
  | c :: cs, idx, n, rest, bs => by
    simp only [compDCols, List.flatMap_cons, List.append_assoc]
    rw [compDCol_stmts, banksOf_chain_notToken B ht nm c.c n, banksOf_dcols_notToken B ht nm cn cs]

/-- every token name of the table is a generated local name (never a column variable) -/
theorem tokens_names_deepEventRows (N : Num D) (B : Backend) (nm cn : Nat → String) (hinj : ∀ i j, nm i = nm j → i = j)
    (cols : List (String × DCol)) : ∀ t ∈ (compileD B nm cn (.eventRows cols)).tokens, ∃ j, t.1 = nm j := by
  intro t hm
  have hb : cols.map (·.2.c.bank) = (cols.map (·.2)).map (·.c.bank) := by simp [List.map_map]
  by_cases ht : B.how = "token"
  · have h := banksOf_dcols B ht nm cn (cols.map (·.2)) 0 0 [] []
    simp only [List.append_nil] at h
    have htoks : (compileD B nm cn (.eventRows cols)).tokens = dcolsToks B nm cn (cols.map (·.2)) 0 0 := by
      simp only [compileD]; rw [hb, h]; simp [banksOf]
    rw [htoks] at hm
    obtain ⟨j, _, _, hj⟩ := dcolsToks_names N B nm cn hinj _ 0 0 t.1 (List.mem_map.2 ⟨t, hm, rfl⟩)
    exact ⟨j, hj⟩
  · have h := banksOf_dcols_notToken B ht nm cn (cols.map (·.2)) 0 0 [] (cols.map (·.2.c.bank))
    simp only [List.append_nil] at h
    have htoks : (compileD B nm cn (.eventRows cols)).tokens = [] := by
      simp only [compileD]; rw [h]; simp [banksOf]
    rw [htoks] at hm; simp at hm

theorem tokens_names_deepElemRows (B : Backend) (nm cn : Nat → String) (c : Chain) (cols : List (String × DE)) :
    ∀ t ∈ (compileD B nm cn (.elemRows c cols)).tokens, ∃ j, t.1 = nm j := by
  intro t hm
  by_cases ht : B.how = "token"
  · have h := banksOf_chain B ht nm c 0
      (fun cur ty => (rowKD B nm cn (cols.map (·.2)) cur ty (outerNext B nm c 0)).1) [] []
    simp only [List.append_nil] at h
    have htoks : (compileD B nm cn (.elemRows c cols)).tokens = chainToks B nm c 0 := by
      simp only [compileD, compChainN]; rw [h]; simp [banksOf]
    rw [htoks] at hm
    simp only [chainToks, List.mem_singleton] at hm
    exact ⟨0 + 2, by rw [hm]⟩
  · have h := banksOf_chain_notToken B ht nm c 0
      (fun cur ty => (rowKD B nm cn (cols.map (·.2)) cur ty (outerNext B nm c 0)).1) [] [c.bank]
    simp only [List.append_nil] at h
    have htoks : (compileD B nm cn (.elemRows c cols)).tokens = [] := by
      simp only [compileD, compChainN]; rw [h]; simp [banksOf]
    rw [htoks] at hm; simp at hm

theorem compDCols_classVars_vec (B : Backend) (nm cn : Nat → String) : ∀ (cols : List DCol) (idx n : Nat),
    ∀ p ∈ (compDCols B nm cn cols idx n).map (·.classVar), isVecType p.1 = true
  | [], _, _, p, hp => by simp [compDCols] at hp
  | c :: cs, idx, n, p, hp => by
    simp only [compDCols, List.map_cons, List.mem_cons] at hp
    rcases hp with rfl | hp
    · simp only [compDCol]; exact isVecType_vecTy _
    · exact compDCols_classVars_vec B nm cn cs _ _ p hp

/-- **the initial class state satisfies the precondition** of the single-event theorems -/
theorem dfragPre_classInit (B : Backend) (nm cn : Nat → String) (hinj : ∀ i j, nm i = nm j → i = j)
    (hdisj : ∀ j k, nm j ≠ cn k) (N : Num D) (dq : DQ) :
    DFragPre cn dq (classInit (compileD B nm cn dq).classVars : Env D) := by
  cases dq with
  | eventRows cols =>
    have htn := tokens_names_deepEventRows N B nm cn hinj cols
    intro k _ hk
    have hskip : cn k ∉ ((compileD B nm cn (.eventRows cols)).tokens.map
        (fun t => ("edm::EDGetTokenT<" ++ t.2.1 ++ ">", t.1))).map (·.2) := by
      intro hm
      simp only [List.map_map, List.mem_map, Function.comp] at hm
      obtain ⟨t, ht, he⟩ := hm
      obtain ⟨j, hj⟩ := htn t ht
      exact hdisj j k (by rw [← hj]; exact he)
    have hcv : (compileD B nm cn (.eventRows cols)).classVars =
        (compileD B nm cn (.eventRows cols)).tokens.map (fun t => ("edm::EDGetTokenT<" ++ t.2.1 ++ ">", t.1)) ++
          (compDCols B nm cn (cols.map (·.2)) 0 0).map (·.classVar) := rfl
    rw [hcv, classInit_skip _ _ (cn k) hskip]
    apply classInit_vec _ _ (compDCols_classVars_vec B nm cn _ 0 0)
    rw [List.map_map]
    have := compDCols_vars B nm cn (cols.map (·.2)) 0 0
    rw [show ((fun x : String × String => x.2) ∘ fun x : ColFrag => x.classVar) = (fun x : ColFrag => x.classVar.2) from rfl, this]
    exact mem_colNames cn _ 0 k (Nat.zero_le _) (by simpa using hk)
  | elemRows c cols =>
    intro k hk
    apply classInit_isSome
    have h1 : cn k ∈ (colVarsD cn (cols.map (·.2)) 0).map (·.2) := by
      rw [colVarsD_names]; exact mem_colNames cn _ 0 k (Nat.zero_le _) (by simpa using hk)
    simp only [compileD, List.map_append, List.mem_append]
    exact Or.inr h1

/-- **one event, with the state it leaves** — for every query of the deep fragment -/
theorem dfragEvent_correct_post (B : Backend) (hB : BackendBase B) (nm cn : Nat → String)
    (hinj : ∀ i j, nm i = nm j → i = j) (hcinj : ∀ i j, cn i = cn j → i = j)
    (hres : ∀ j, nm j ≠ "result") (hcres : ∀ k, cn k ≠ "result") (hdisj : ∀ j k, nm j ≠ cn k)
    (QC : QCtx D) (hcollT : ∀ name, B.collType name = QC.collType name)
    (dq : DQ) (hhyp : DFragHyp QC dq) (σc : Env D) (hσ : DFragPre cn dq σc)
    (rows : List (List (Val D))) (hden : denoteRows QC dq.toQuery = .ok rows) :
    ∃ σ', runEvent (compileD B nm cn dq) QC.N σc QC.ev = .ok (rows, σ') ∧ DFragPre cn dq σ' := by
  cases dq with
  | eventRows cols =>
    exact deepEventRows_correct_post B hB nm cn hinj hcinj hres hcres hdisj QC hcollT cols hhyp σc hσ rows hden
  | elemRows c cols =>
    exact deepElemRows_correct_post B hB nm cn hinj hcinj hres hcres hdisj QC hcollT c cols hhyp σc hσ rows hden

theorem deep_jobFrom_correct (B : Backend) (hB : BackendBase B) (nm cn : Nat → String)
    (hinj : ∀ i j, nm i = nm j → i = j) (hcinj : ∀ i j, cn i = cn j → i = j)
    (hres : ∀ j, nm j ≠ "result") (hcres : ∀ k, cn k ≠ "result") (hdisj : ∀ j k, nm j ≠ cn k)
    (QC : QCtx D) (hcollT : ∀ name, B.collType name = QC.collType name)
    (dq : DQ) (evs : List (Event D)) (hhyp : ∀ ev ∈ evs, DFragHyp (QC.withEvent ev) dq)
    (σc : Env D) (hσ : DFragPre cn dq σc)
    (rows : List (List (Val D))) (hden : denoteJob QC dq.toQuery evs = .ok rows) :
    runJobFrom (compileD B nm cn dq) QC.N σc evs = .ok rows := by
  obtain ⟨hall, rfl⟩ := denoteJob_ok QC dq.toQuery evs rows hden
  apply runJobFrom_inv (compileD B nm cn dq) QC.N (DFragPre cn dq) (rowsOf QC dq.toQuery) evs σc hσ
  intro ev hm σ hσ'
  exact dfragEvent_correct_post B hB nm cn hinj hcinj hres hcres hdisj (QC.withEvent ev) hcollT dq (hhyp ev hm) σ hσ'
    _ (hall ev hm)

/-- **job correctness (arbitrary-depth fragment)** -/
theorem deep_job_correct (B : Backend) (hB : BackendBase B) (nm cn : Nat → String)
    (hinj : ∀ i j, nm i = nm j → i = j) (hcinj : ∀ i j, cn i = cn j → i = j)
    (hres : ∀ j, nm j ≠ "result") (hcres : ∀ k, cn k ≠ "result") (hdisj : ∀ j k, nm j ≠ cn k)
    (QC : QCtx D) (hcollT : ∀ name, B.collType name = QC.collType name)
    (dq : DQ) (evs : List (Event D)) (hhyp : ∀ ev ∈ evs, DFragHyp (QC.withEvent ev) dq)
    (rows : List (List (Val D))) (hden : denoteJob QC dq.toQuery evs = .ok rows) :
    runJob (compileD B nm cn dq) QC.N evs = .ok rows :=
  deep_jobFrom_correct B hB nm cn hinj hcinj hres hcres hdisj QC hcollT dq evs hhyp _
    (dfragPre_classInit B nm cn hinj hdisj QC.N dq) rows hden

theorem deep_job_split (B : Backend) (hB : BackendBase B) (nm cn : Nat → String)
    (hinj : ∀ i j, nm i = nm j → i = j) (hcinj : ∀ i j, cn i = cn j → i = j)
    (hres : ∀ j, nm j ≠ "result") (hcres : ∀ k, cn k ≠ "result") (hdisj : ∀ j k, nm j ≠ cn k)
    (QC : QCtx D) (hcollT : ∀ name, B.collType name = QC.collType name)
    (dq : DQ) (xs ys : List (Event D)) (hhyp : ∀ ev ∈ xs ++ ys, DFragHyp (QC.withEvent ev) dq)
    (r₁ r₂ : List (List (Val D)))
    (h₁ : denoteJob QC dq.toQuery xs = .ok r₁) (h₂ : denoteJob QC dq.toQuery ys = .ok r₂) :
    runJob (compileD B nm cn dq) QC.N xs = .ok r₁ ∧ runJob (compileD B nm cn dq) QC.N ys = .ok r₂ ∧
    runJob (compileD B nm cn dq) QC.N (xs ++ ys) = .ok (r₁ ++ r₂) :=
  ⟨deep_job_correct B hB nm cn hinj hcinj hres hcres hdisj QC hcollT dq xs (fun ev hm => hhyp ev (by simp [hm])) r₁ h₁,
   deep_job_correct B hB nm cn hinj hcinj hres hcres hdisj QC hcollT dq ys (fun ev hm => hhyp ev (by simp [hm])) r₂ h₂,
   deep_job_correct B hB nm cn hinj hcinj hres hcres hdisj QC hcollT dq (xs ++ ys) hhyp _ (denoteJob_append QC _ xs ys r₁ r₂ h₁ h₂)⟩

theorem deep_job_prefix_independent (B : Backend) (hB : BackendBase B) (nm cn : Nat → String)
    (hinj : ∀ i j, nm i = nm j → i = j) (hcinj : ∀ i j, cn i = cn j → i = j)
    (hres : ∀ j, nm j ≠ "result") (hcres : ∀ k, cn k ≠ "result") (hdisj : ∀ j k, nm j ≠ cn k)
    (QC : QCtx D) (hcollT : ∀ name, B.collType name = QC.collType name)
    (dq : DQ) (pre : List (Event D)) (ev : Event D) (post : List (Event D))
    (hhyp : ∀ e ∈ pre ++ ev :: post, DFragHyp (QC.withEvent e) dq)
    (r : List (List (Val D))) (hden : denoteJob QC dq.toQuery (pre ++ ev :: post) = .ok r) :
    ∃ rp re rq σ',
      runJob (compileD B nm cn dq) QC.N pre = .ok rp ∧
      runEvent (compileD B nm cn dq) QC.N (classInit (compileD B nm cn dq).classVars) ev = .ok (re, σ') ∧
      denoteRows (QC.withEvent ev) dq.toQuery = .ok re ∧
      runJob (compileD B nm cn dq) QC.N post = .ok rq ∧
      runJob (compileD B nm cn dq) QC.N (pre ++ ev :: post) = .ok (rp ++ re ++ rq) := by
  obtain ⟨hall, hr⟩ := denoteJob_ok QC dq.toQuery _ r hden
  have hpre := denoteJob_of_all QC dq.toQuery pre (fun e hm => hall e (by simp [hm]))
  have hpost := denoteJob_of_all QC dq.toQuery post (fun e hm => hall e (by simp [hm]))
  have hev := hall ev (by simp)
  obtain ⟨σ', hrun, _⟩ := dfragEvent_correct_post B hB nm cn hinj hcinj hres hcres hdisj (QC.withEvent ev) hcollT dq
    (hhyp ev (by simp)) _ (dfragPre_classInit B nm cn hinj hdisj QC.N dq) _ hev
  refine ⟨_, _, _, σ', deep_job_correct B hB nm cn hinj hcinj hres hcres hdisj QC hcollT dq pre
      (fun e hm => hhyp e (by simp [hm])) _ hpre, hrun, hev,
    deep_job_correct B hB nm cn hinj hcinj hres hcres hdisj QC hcollT dq post (fun e hm => hhyp e (by simp [hm])) _ hpost, ?_⟩
  have := deep_job_correct B hB nm cn hinj hcinj hres hcres hdisj QC hcollT dq _ hhyp r hden
  rw [this, hr]
  simp

theorem deep_job_perm (B : Backend) (hB : BackendBase B) (nm cn : Nat → String)
    (hinj : ∀ i j, nm i = nm j → i = j) (hcinj : ∀ i j, cn i = cn j → i = j)
    (hres : ∀ j, nm j ≠ "result") (hcres : ∀ k, cn k ≠ "result") (hdisj : ∀ j k, nm j ≠ cn k)
    (QC : QCtx D) (hcollT : ∀ name, B.collType name = QC.collType name)
    (dq : DQ) (evs evs' : List (Event D)) (hp : evs.Perm evs')
    (hhyp : ∀ ev ∈ evs, DFragHyp (QC.withEvent ev) dq)
    (r : List (List (Val D))) (hden : denoteJob QC dq.toQuery evs = .ok r) :
    ∃ r', runJob (compileD B nm cn dq) QC.N evs = .ok r ∧ runJob (compileD B nm cn dq) QC.N evs' = .ok r' ∧
      denoteJob QC dq.toQuery evs' = .ok r' ∧ r.Perm r' := by
  obtain ⟨hall, hr⟩ := denoteJob_ok QC dq.toQuery evs r hden
  have hden' := denoteJob_of_all QC dq.toQuery evs' (fun e hm => hall e (hp.symm.subset hm))
  refine ⟨_, deep_job_correct B hB nm cn hinj hcinj hres hcres hdisj QC hcollT dq evs hhyp r hden,
    deep_job_correct B hB nm cn hinj hcinj hres hcres hdisj QC hcollT dq evs' (fun e hm => hhyp e (hp.symm.subset hm)) _ hden',
    hden', ?_⟩
  rw [hr]
  exact (hp.map _).flatten

end FaxVerif.Gen
