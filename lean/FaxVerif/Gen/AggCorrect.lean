/-
Gen — correctness of ONE general aggregate (`compAgg`): the emitted retrieval + loop, with the
accumulator declared outside the loop and initialised by the seed, computes the left fold of the
lambda body over the values the chain keeps, from the seed.
Also: the declarations hoisted to the top of the block when initialisers may be FLOATING literals
(`double acc (0.5);` — the F0-lite machinery of Gen/DeclsCorrect.lean knows int / bool literals only).
-/
import FaxVerif.Gen.AggBodyCorrect
import FaxVerif.Gen.DeclsCorrect
namespace FaxVerif.Gen
open FaxVerif.Cpp FaxVerif.Linq
variable {D : Type}

/-! ## declarations with int / bool / floating literal initialisers -/

def litOfA (N : Num D) : CExpr → Option (Val D)
  | .int k => some (.int k)
  | .bool b => some (.bool b)
  | .dbl _ m e => some (.dbl (N.ofDec m e))
  | .un op (.int k) => if op = "-" then some (.int (-k)) else none
  | .un op (.dbl _ m e) => if op = "-" then some (.dbl (N.neg (N.ofDec m e))) else none
  | _ => none

/-- the value a declaration `ty x (lit);` leaves in `x`: the literal converted to the declared type -/
def initValA (N : Num D) (ty : String) (e : CExpr) : Val D :=
  match litOfA N e with
  | some v => (match castTo N ty v with
    | .ok v' => v'
    | .error _ => v)
  | none => .int 0

def DeclOKA (N : Num D) (σ : Env D) : Stmt → Prop
  | .decl _ x none => (σ x).isSome = true
  | .decl ty x (some e) => σ x = some (.val (initValA N ty e))
  | _ => False

def DeclsDoneA (N : Num D) (decls : List Stmt) (σ : Env D) : Prop := ∀ d ∈ decls, DeclOKA N σ d

def SimpleDeclA (N : Num D) : Stmt → Prop
  | .decl ty _ none => isVecType ty = false
  | .decl ty _ (some e) => ∃ v v', litOfA N e = some v ∧ castTo N ty v = .ok v'
  | _ => False

theorem evalE_litA (N : Num D) (σ : Env D) (e : CExpr) (v : Val D) (h : litOfA N e = some v) : evalE N σ e = .ok v := by
  cases e with
  | un op a =>
    cases a <;> simp [litOfA] at h <;> (obtain ⟨rfl, rfl⟩ := h; simp [evalE, unop])
  | int k => simp [litOfA] at h; subst h; simp [evalE]
  | bool b => simp [litOfA] at h; subst h; simp [evalE]
  | dbl t m e => simp [litOfA] at h; subst h; simp [evalE]
  | _ => simp [litOfA] at h

theorem exec_declsA (C : Ctx D) : ∀ (ds : List Stmt) (s : St D),
    (∀ d ∈ ds, SimpleDeclA C.N d) → (ds.map declName).Nodup →
    ∃ s', execs C ds s = .ok s' ∧ s'.rows = s.rows ∧ DeclsDoneA C.N ds s'.env ∧
      (∀ y, y ∉ ds.map declName → s'.env y = s.env y)
  | [], s, _, _ => ⟨s, rfl, rfl, fun _ h => by simp at h, fun _ _ => rfl⟩
  | d :: ds, s, hsimple, hnd => by
    simp only [List.map_cons, List.nodup_cons] at hnd
    have hd := hsimple d (by simp)
    have hhead : ∃ s1, exec C d s = .ok s1 ∧ s1.rows = s.rows ∧ DeclOKA C.N s1.env d ∧
        (∀ y, y ≠ declName d → s1.env y = s.env y) := by
      cases d with
      | decl ty x init =>
        cases init with
        | none =>
          simp only [SimpleDeclA] at hd
          exact ⟨{ s with env := s.env.declare x }, by simp [exec, hd], rfl, by simp [DeclOKA, Env.declare],
            fun y hy => by simp [Env.declare, declName] at hy ⊢; simp [hy]⟩
        | some e =>
          simp only [SimpleDeclA] at hd
          obtain ⟨v, v', hl, hc⟩ := hd
          refine ⟨{ s with env := s.env.set x v' }, by simp [exec, evalE_litA C.N s.env e v hl, hc], rfl, ?_,
            fun y hy => by simp [Env.set, declName] at hy ⊢; simp [hy]⟩
          simp [DeclOKA, Env.set, initValA, hl, hc]
      | _ => simp [SimpleDeclA] at hd
    obtain ⟨s1, hex1, hr1, hok1, hfr1⟩ := hhead
    obtain ⟨s', hex, hr, hdone, hfr⟩ := exec_declsA C ds s1 (fun d' hd' => hsimple d' (by simp [hd'])) hnd.2
    refine ⟨s', by simp only [execs, hex1]; exact hex, by rw [hr, hr1], ?_, ?_⟩
    · intro d' hd'
      rcases List.mem_cons.1 hd' with rfl | hd'
      · have hx : s'.env (declName d') = s1.env (declName d') := hfr _ hnd.1
        cases d' with
        | decl ty x init =>
          have hx' : s'.env x = s1.env x := hx
          cases init <;> simp only [DeclOKA] at hok1 ⊢ <;> rw [hx'] <;> exact hok1
        | _ => simp [SimpleDeclA] at hd
      · exact hdone d' hd'
    · intro y hy
      simp only [List.map_cons, List.mem_cons, not_or] at hy
      rw [hfr y hy.2, hfr1 y hy.1]

theorem DeclsDoneA.transport {N : Num D} {nm : Nat → String} {lo hi : Nat} {ds : List Stmt} {σ σ' : Env D}
    (h : DeclsDoneA N ds σ) (hin : DeclsIn nm lo hi ds) (hag : ∀ y, InRange nm lo hi y → σ' y = σ y) :
    DeclsDoneA N ds σ' := by
  intro d hd
  obtain ⟨ty, x, init, rfl, hr⟩ := hin d hd
  have := h _ hd
  cases init <;> simpa [DeclOKA, hag x hr] using this

/-! ## one aggregate -/

theorem compAgg_next (B : Backend) (nm : Nat → String) (g : Agg) (n : Nat) : n + 4 ≤ (compAgg B nm g n).next := by
  have := compChain_next B nm g.c (n + 1) (fun cur cty => [aggUpdate B.elemPtr g (nm n) cur cty])
  simp only [compAgg]; omega

/-- the seed as the declaration initialises the accumulator with it, when no widening takes place -/
theorem initValA_seed (N : Num D) (sd : Seed) : initValA N sd.ty.cpp sd.cexpr = sd.val N := by
  cases sd <;> simp [initValA, litOfA, Seed.cexpr, Seed.ty, Seed.val, Ty.cpp, castTo, asD]

theorem seed_hasTy (N : Num D) (sd : Seed) : HasTy (sd.val N) sd.ty := by
  cases sd <;> simp [Seed.val, Seed.ty, HasTy]

theorem seed_denote (QC : QCtx D) (ρ : LEnv D) (sd : Seed) : denote QC ρ sd.query = .ok (sd.val QC.N) := by
  cases sd <;> simp [Seed.query, Seed.val, denote, unop]

/-- what the aggregate denotes: the fold of the body over the chain's values, from the seed -/
theorem aggQ_denote (QC : QCtx D) (g : Agg) (v : Val D)
    (hden : denote QC [("e", evtVal)] (aggQ "e" g) = .ok v) :
    ∃ ws, denote QC [("e", evtVal)] (chainQ "e" g.c) = .ok (.vec ws) ∧
      foldG (aggStep QC g) ws (g.seed.val QC.N) = .ok v := by
  simp only [aggQ, denote] at hden
  cases hc : denote QC [("e", evtVal)] (chainQ "e" g.c) with
  | error e => rw [hc] at hden; simp at hden
  | ok cv =>
    rw [hc] at hden
    cases cv with
    | vec ws =>
      simp only [seed_denote] at hden
      rw [foldE_eq_foldG] at hden
      exact ⟨ws, rfl, hden⟩
    | _ => simp at hden

/-- **the emitted loop of one aggregate is the fold** — for any start value `a0` found in the
accumulator variable and any invariant `I` of accumulator values under which one execution of the
emitted update statement performs one step of the user-level fold. -/
theorem agg_loop (C : Ctx D) (QC : QCtx D) (hN : QC.N = C.N) (hev : QC.ev = C.ev)
    (B : Backend) (hB : BackendBase B) (nm : Nat → String)
    (hinj : ∀ i j, nm i = nm j → i = j) (hres : ∀ j, nm j ≠ "result")
    (hcollT : ∀ name, B.collType name = QC.collType name)
    (g : Agg) (n : Nat) (htok : TokChain B nm C g.c (n + 1)) (s : St D) (ws : List (Val D)) (a0 v : Val D)
    (hx : (s.env (nm (n + 1))).isSome = true)
    (hacc : s.env (nm n) = some (.val a0))
    (hwtS : wtSteps none g.c.steps = true) (hmt : AggTyped QC g)
    (hchain : denote QC [("e", evtVal)] (chainQ "e" g.c) = .ok (.vec ws))
    (I : Val D → Prop) (hI0 : I a0)
    (hstep : ∀ (σ : Env D) (a a' w v0 : Val D), I a → σ (nm n) = some (.val a) → aggStep QC g a w = .ok a' →
        evalE C.N σ (stepConds B.elemPtr (.var (nm (n + 1 + 1))) none g.c.steps).2.1 = .ok w →
        (∀ t, chainTy none g.c.steps = some t → HasTy w t) →
        (chainTy none g.c.steps = none → w = v0 ∧ MethTyped v0 (methsAE g.body)) →
        (∃ e, aggUpdate B.elemPtr g (nm n) (stepConds B.elemPtr (.var (nm (n + 1 + 1))) none g.c.steps).2.1
                (stepConds B.elemPtr (.var (nm (n + 1 + 1))) none g.c.steps).2.2 = .set (nm n) e ∧
              evalE C.N σ e = .ok a') ∧ I a')
    (hfold : foldG (aggStep QC g) ws a0 = .ok v) :
    ∃ s', execs C (compAgg B nm g n).stmts s = .ok s' ∧ s'.rows = s.rows ∧
      evalE C.N s'.env (compAgg B nm g n).val = .ok v ∧ I v ∧
      (∀ y, ¬ Touch nm n (compAgg B nm g n).next y → s'.env y = s.env y) := by
  obtain ⟨cty, l, hct, hfind, hel⟩ := chainQ_ok QC _ "e" g.c ws hchain
  let K : CExpr → Option Ty → List Stmt := fun cur ty => [aggUpdate B.elemPtr g (nm n) cur ty]
  have hnext := compChain_next B nm g.c (n + 1) K
  let Pinv : St D → Val D → Prop := fun u a => u.env (nm n) = some (.val a) ∧ I a ∧ u.rows = s.rows ∧
    ∀ y, ¬ Touch nm n (compChain B nm g.c (n + 1) K).next y → u.env y = s.env y
  have haccT : ¬ Touch nm (n + 1) (compChain B nm g.c (n + 1) K).next (nm n) := by
    rintro (⟨j, h1, _, h3⟩ | h)
    · have := hinj _ _ h3; omega
    · exact hres n h
  obtain ⟨s', hex, hP'⟩ := compChain_correct_tok (β := Val D) C QC hN B hB nm hinj hres g.c (n + 1) htok K cty l ws
    (by rw [hcollT]; exact hct) (by rw [← hev]; exact hfind) hwtS (fun v hv => (hmt cty l hfind v hv).1) Pinv
    (aggStep QC g) (fun v => MethTyped v (methsAE g.body)) (fun v hv => (hmt cty l hfind v hv).2)
    (by
      intro u u' b hPu hr hfr
      refine ⟨by rw [hfr _ haccT]; exact hPu.1, hPu.2.1, by rw [hr]; exact hPu.2.2.1, fun y hy => ?_⟩
      rw [hfr y (not_touch_sub hy (by omega) (Nat.le_refl _))]; exact hPu.2.2.2 y hy)
    (by
      intro u a a' w v0 hPu hg hevw htyw hobj
      obtain ⟨⟨e, he, hee⟩, hIa'⟩ := hstep u.env a a' w v0 hPu.2.1 hPu.1 hg hevw
        (fun t ht => htyw t (by rw [stepConds_ty]; exact ht)) (fun hn => hobj (by rw [stepConds_ty]; exact hn))
      refine ⟨{ u with env := u.env.set (nm n) a' }, ?_, ?_, hIa', hPu.2.2.1, ?_⟩
      · simp only [K, he, execs, exec, hPu.1, hee]
      · simp [Env.set]
      · intro y hy
        have : y ≠ nm n := fun e => hy (Or.inl ⟨n, Nat.le_refl n, by omega, e⟩)
        simp only [Env.set, this, if_false]; exact hPu.2.2.2 y hy)
    s a0 v hx hel hfold ⟨hacc, hI0, rfl, fun _ _ => rfl⟩
  refine ⟨s', by simpa [compAgg] using hex, hP'.2.2.1, ?_, hP'.2.1, ?_⟩
  · simp [compAgg, evalE, hP'.1]
  · simpa [compAgg] using hP'.2.2.2

/-- the update statement performs one step of the fold when the accumulator holds a value of the
seed's type and the body's type is held by the accumulator without conversion of kind -/
theorem aggUpdate_step (C : Ctx D) (QC : QCtx D) (hN : QC.N = C.N) (ptr : Bool) (g : Agg) (accV : String)
    (hwtB : wtAE g.seed.ty (chainTy none g.c.steps) g.body = true) (hex : aggExact g.seed.ty g.bodyTy = true)
    (σ : Env D) (cur : CExpr) (cty : Option Ty) (hcty : cty = chainTy none g.c.steps)
    (a a' w v0 : Val D) (ha : HasTy a g.seed.ty) (hσ : σ accV = some (.val a))
    (hg : aggStep QC g a w = .ok a') (hevw : evalE C.N σ cur = .ok w)
    (htyw : ∀ t, chainTy none g.c.steps = some t → HasTy w t)
    (hobj : chainTy none g.c.steps = none → w = v0 ∧ MethTyped v0 (methsAE g.body)) :
    (∃ e, aggUpdate ptr g accV cur cty = .set accV e ∧ evalE C.N σ e = .ok a') ∧ HasTy a' g.seed.ty := by
  subst hcty
  have hmw : MethTyped w (methsAE g.body) := by
    cases hc : chainTy none g.c.steps with
    | none => obtain ⟨rfl, h⟩ := hobj hc; exact h
    | some t => exact methTyped_of_hasTy (htyw t hc) _
  have hcorr := ae_correct QC σ (.var accV) cur g.seed.ty (chainTy none g.c.steps) (ptr && (chainTy none g.c.steps).isNone)
    a w accName elemName (by decide) [("e", evtVal)] (by rw [hN]; simp [evalE, hσ]) ha (by rw [hN]; exact hevw) htyw g.body hwtB hmw
  have hg' : denote QC [(elemName, w), (accName, a), ("e", evtVal)] (aeQ accName elemName g.body) = .ok a' := hg
  have hbty : HasTy a' g.bodyTy := hcorr.2 a' hg'
  have hval : evalE C.N σ (compAE (ptr && (chainTy none g.c.steps).isNone) (.var accV) cur g.seed.ty
      ((chainTy none g.c.steps).getD .double) g.body) = .ok a' := by
    rw [← hN]; rw [← hg']; exact hcorr.1
  refine ⟨?_, hasTy_exact hex hbty⟩
  simp only [aggUpdate]
  have hj : g.seed.ty.join (tyAE g.seed.ty ((chainTy none g.c.steps).getD .double) g.body) = g.seed.ty :=
    tyAE_join_seed _ _ hex
  by_cases hsb : g.seed.ty = tyAE g.seed.ty ((chainTy none g.c.steps).getD .double) g.body
  · refine ⟨_, by rw [hj, if_pos hsb], hval⟩
  · refine ⟨_, by rw [hj, if_neg hsb], ?_⟩
    -- a float seed with a `float` body: the cast to double is the identity on floating values
    have hbt : g.bodyTy = tyAE g.seed.ty ((chainTy none g.c.steps).getD .double) g.body := rfl
    rw [← hbt] at hsb
    have hd : g.seed.ty = .double ∧ g.bodyTy = .float := by
      revert hex hsb
      cases g.seed.ty <;> cases g.bodyTy <;> simp [aggExact, Ty.isFloating]
    have hcpp : g.seed.ty.cpp = "double" := by rw [hd.1]; rfl
    rw [hd.2] at hbty
    cases a' <;> simp [HasTy] at hbty
    simp only [evalE, hval, hcpp]
    simp [castTo, asD]

/-- `foldG` is `List.foldlM` in the `Except Fault` monad: the left fold that stops at the first fault -/
theorem foldG_eq_foldlM {β : Type} (g : β → Val D → Except Fault β) : ∀ (ws : List (Val D)) (b : β),
    foldG g ws b = ws.foldlM g b
  | [], b => rfl
  | w :: ws, b => by
    simp only [foldG, List.foldlM_cons]
    cases h : g b w with
    | error e => rfl
    | ok b' => exact foldG_eq_foldlM g ws b'

/-- **one aggregate, exact typing: the loop is the fold** -/
theorem agg_fold_correct (C : Ctx D) (QC : QCtx D) (hN : QC.N = C.N) (hev : QC.ev = C.ev)
    (B : Backend) (hB : BackendBase B) (nm : Nat → String)
    (hinj : ∀ i j, nm i = nm j → i = j) (hres : ∀ j, nm j ≠ "result")
    (hcollT : ∀ name, B.collType name = QC.collType name)
    (g : Agg) (n : Nat) (htok : TokChain B nm C g.c (n + 1)) (s : St D) (ws : List (Val D)) (v : Val D)
    (hdone : DeclsDoneA C.N (compAgg B nm g n).decls s.env)
    (hwt : wtAgg g = true) (hmt : AggTyped QC g)
    (hchain : denote QC [("e", evtVal)] (chainQ "e" g.c) = .ok (.vec ws))
    (hfold : foldG (aggStep QC g) ws (g.seed.val QC.N) = .ok v) :
    ∃ s', execs C (compAgg B nm g n).stmts s = .ok s' ∧ s'.rows = s.rows ∧
      evalE C.N s'.env (compAgg B nm g n).val = .ok v ∧ HasTy v g.accTy ∧
      (∀ y, ¬ Touch nm n (compAgg B nm g n).next y → s'.env y = s.env y) := by
  simp only [wtAgg, wtAggBase, Bool.and_eq_true] at hwt
  obtain ⟨⟨⟨hwtS, hwtB⟩, _⟩, hex⟩ := hwt
  have haT : g.accTy = g.seed.ty := tyAE_join_seed _ _ hex
  have hacc : s.env (nm n) = some (.val (g.seed.val QC.N)) := by
    have := hdone (.decl g.accTy.cpp (nm n) (some g.seed.cexpr)) (by simp [compAgg])
    rw [haT] at this
    simpa [DeclOKA, initValA_seed, hN] using this
  have hx : (s.env (nm (n + 1))).isSome = true := by
    have := hdone (.decl (B.handleTy ((B.collType g.c.coll).getD "?")) (nm (n + 1)) none) (by simp [compAgg, compChain])
    simpa [DeclOKA] using this
  obtain ⟨s', h1, h2, h3, h4, h5⟩ := agg_loop C QC hN hev B hB nm hinj hres hcollT g n htok s ws (g.seed.val QC.N) v hx hacc hwtS hmt hchain
    (fun a => HasTy a g.seed.ty) (seed_hasTy QC.N g.seed)
    (fun σ a a' w v0 hIa hσ hg hevw htyw hobj =>
      aggUpdate_step C QC hN B.elemPtr g (nm n) hwtB hex σ _ _ (stepConds_ty _ _ _ _) a a' w v0 hIa hσ hg hevw htyw hobj)
    hfold
  exact ⟨s', h1, h2, h3, by rw [haT]; exact h4, h5⟩

/-- **one aggregate, exact typing** -/
theorem agg_correct (C : Ctx D) (QC : QCtx D) (hN : QC.N = C.N) (hev : QC.ev = C.ev)
    (B : Backend) (hB : BackendBase B) (nm : Nat → String)
    (hinj : ∀ i j, nm i = nm j → i = j) (hres : ∀ j, nm j ≠ "result")
    (hcollT : ∀ name, B.collType name = QC.collType name)
    (g : Agg) (n : Nat) (htok : TokChain B nm C g.c (n + 1)) (s : St D) (v : Val D)
    (hdone : DeclsDoneA C.N (compAgg B nm g n).decls s.env)
    (hwt : wtAgg g = true) (hmt : AggTyped QC g)
    (hden : denote QC [("e", evtVal)] (aggQ "e" g) = .ok v) :
    ∃ s', execs C (compAgg B nm g n).stmts s = .ok s' ∧ s'.rows = s.rows ∧
      evalE C.N s'.env (compAgg B nm g n).val = .ok v ∧ HasTy v g.accTy ∧
      (∀ y, ¬ Touch nm n (compAgg B nm g n).next y → s'.env y = s.env y) := by
  obtain ⟨ws, hchain, hfold⟩ := aggQ_denote QC g v hden
  exact agg_fold_correct C QC hN hev B hB nm hinj hres hcollT g n htok s ws v hdone hwt hmt hchain hfold

end FaxVerif.Gen
