/-
Gen — side conditions of the correctness theorems about the general `Aggregate` (`Gen/Agg.lean`):
static well-typedness (decidable) and the exact typing side condition under which the emitted
accumulator holds, at every iteration, the very value Python's fold holds.
-/
import FaxVerif.Gen.Agg
import FaxVerif.Gen.EventSpec
namespace FaxVerif.Gen
open FaxVerif.Cpp FaxVerif.Linq
variable {D : Type}

/-- static well-typedness of an accumulation body: `cur = none` means the element is an object;
operands of arithmetic are numbers -/
def wtAE (accT : Ty) (cur : Option Ty) : AE → Bool
  | .int _ => true
  | .dbl _ _ => true
  | .acc => true
  | .it => cur.isSome
  | .meth _ _ => cur.isNone
  | .bin _ a b => wtAE accT cur a && wtAE accT cur b && (tyAE accT (curT cur) a).isNum && (tyAE accT (curT cur) b).isNum
  | .neg a => wtAE accT cur a && (tyAE accT (curT cur) a).isNum

def methsAE : AE → List (String × Ty)
  | .meth n t => [(n, t)]
  | .bin _ a b => methsAE a ++ methsAE b
  | .neg a => methsAE a
  | _ => []

/-- **the exact typing side condition**: the accumulator's declared type is the seed's type and
holds the body's value without conversion of kind — an int seed with an int body, or a float seed
with a floating body. (Otherwise the translator widens the accumulator: an int seed with a floating
body is declared `double acc (seed)` — Python's accumulator is the INTEGER seed until the first
element; a float seed with an int body is updated through `static_cast<double>` — Python's
accumulator becomes an int. Both are numerically equal to Python's value, but are different values
of the model; see `AggWiden` / `aggregate_widened_is_fold` and the counterexamples in
C01/TheoremsAgg.lean.) -/
def aggExact (sT bT : Ty) : Bool :=
  (sT == .int && bT == .int) || (sT == .double && bT.isFloating)

/-- well-typedness of one aggregate (without the exactness condition) -/
def wtAggBase (g : Agg) : Bool :=
  wtSteps none g.c.steps && wtAE g.seed.ty (chainTy none g.c.steps) g.body && g.bodyTy.isNum

def wtAgg (g : Agg) : Bool := wtAggBase g && aggExact g.seed.ty g.bodyTy

def isAcc : AE → Bool
  | .acc => true
  | _ => false

/-- every occurrence of `acc` is an operand of `/`, or of `+ - *` whose other operand is of
floating type: exactly the positions where Python converts the integer accumulator to a float -/
def accOK (cur : Ty) : AE → Bool
  | .acc => false
  | .bin op p q =>
    (if isAcc p then (op == .div || (tyAE .int cur q).isFloating) else accOK cur p) &&
    (if isAcc q then (op == .div || (tyAE .int cur p).isFloating) else accOK cur q)
  | .neg p => accOK cur p
  | _ => true

/-- the static side condition of the widened case: int seed, floating body, `acc` only in
positions where Python converts it -/
def aggWiden (g : Agg) : Bool :=
  g.seed.isNatLit && g.bodyTy.isFloating && accOK (curT (chainTy none g.c.steps)) g.body

/-- static well-typedness of one aggregate for the theorems: exact typing, or the widened case -/
def wtAggW (g : Agg) : Bool := wtAggBase g && (aggExact g.seed.ty g.bodyTy || aggWiden g)

def wtGE : GE → Bool
  | .int _ => true
  | .dbl _ _ => true
  | .bool _ => true
  | .agg g => wtAggW g
  | .bin _ a b => wtGE a && wtGE b && (tyGE a).isNum && (tyGE b).isNum
  | .cmp _ a b => wtGE a && wtGE b && (tyGE a).isNum && (tyGE b).isNum
  | .neg a => wtGE a && (tyGE a).isNum
  | .not a => wtGE a && (tyGE a == .bool)

def aggsGE : GE → List Agg
  | .agg g => [g]
  | .bin _ a b => aggsGE a ++ aggsGE b
  | .cmp _ a b => aggsGE a ++ aggsGE b
  | .neg a => aggsGE a
  | .not a => aggsGE a
  | _ => []

/-- every object of the bank the aggregate ranges over returns values of the declared kinds, for
the accessors of the chain's steps and of the accumulation body -/
def AggTyped (QC : QCtx D) (g : Agg) : Prop :=
  ∀ cty l, QC.ev.find g.c.bank = some (cty, .vec l) →
    ∀ v ∈ l, MethTyped v (methsSteps g.c.steps) ∧ MethTyped v (methsAE g.body)

/-- A WIDENED aggregate (int seed, floating body — e.g. `Sum()` of floats) ranges over at least one
kept element on this event. (Over an empty sequence the query denotes the INTEGER seed and the
emitted code writes the floating seed: numerically equal, different values of the model — left to
the numeric comparison of the correspondence stream, like `SumNonEmpty`.) Vacuous under `aggExact`. -/
def AggNonEmpty (QC : QCtx D) (g : Agg) : Prop :=
  aggExact g.seed.ty g.bodyTy = false →
    ∀ cty l ws, QC.ev.find g.c.bank = some (cty, .vec l) → elemsSem QC g.c.steps l = .ok ws → ws ≠ []

/-- what the theorems assume of the event for one aggregate -/
def AggHyp (QC : QCtx D) (g : Agg) : Prop := AggTyped QC g ∧ AggNonEmpty QC g

/-- the value of a seed -/
def Seed.val (N : Num D) : Seed → Val D
  | .int n => .int n
  | .dbl m e => .dbl (N.ofDec m e)
  | .nint n => .int (-(n : Int))
  | .ndbl m e => .dbl (N.neg (N.ofDec m e))

/-- one step of the user-level fold: the body with `acc` and the element bound -/
def aggStep (QC : QCtx D) (g : Agg) (a w : Val D) : Except Fault (Val D) :=
  denote QC [(elemName, w), (accName, a), ("e", .obj "__event__" [])] (aeQ accName elemName g.body)

end FaxVerif.Gen
