/-
Gen — correctness of the loop body emitted for a chain `coll.{Select|Where}*`:
  * `andLower_correct`: the lowering of a (fused) conjunction of `Where` conditions to
    `bool r; r = a; if (r) { r = b; }` computes the conjunction and is as lazy as the query;
  * `elem_correct`: for one element, the conditions/values threaded by `stepConds` agree with what
    the element becomes in the query (`elemSem`);
  * `chainList_elems`: the query's list-at-a-time semantics, when it succeeds, is the
    element-at-a-time one.
-/
import FaxVerif.Gen.PureCorrect
import FaxVerif.Cpp.Frame
namespace FaxVerif.Gen
open FaxVerif.Cpp FaxVerif.Linq
variable {D : Type}

/-! ## helpers on execution -/

theorem execs_append (C : Ctx D) : ∀ (a b : List Stmt) (s : St D),
    execs C (a ++ b) s = (match execs C a s with
      | .ok s' => execs C b s'
      | .error f => .error f)
  | [], b, s => by simp [execs]
  | st :: a, b, s => by
    simp only [List.cons_append, execs]
    cases exec C st s with
    | error f => rfl
    | ok s' => simp only []; exact execs_append C a b s'

theorem vars_compPE (ptr : Bool) (cur : CExpr) (t : Ty) :
    ∀ pe : PE, ∀ x ∈ vars (compPE ptr cur t pe), x ∈ vars cur
  | .int _, x, h => by simp [compPE, vars] at h
  | .dbl _ _, x, h => by simp [compPE, vars] at h
  | .bool _, x, h => by simp [compPE, vars] at h
  | .it, x, h => by simpa [compPE] using h
  | .meth _ _, x, h => by simpa [compPE, vars, varsL] using h
  | .bin op a b, x, h => by
    simp only [compPE] at h
    split at h
    · simp only [vars, List.mem_append] at h
      rcases h with h | h
      · exact vars_compPE ptr cur t a x h
      · exact vars_compPE ptr cur t b x h
    · simp only [vars, List.mem_append] at h
      rcases h with h | h
      · exact vars_compPE ptr cur t a x h
      · exact vars_compPE ptr cur t b x h
  | .cmp _ a b, x, h => by
    simp only [compPE, vars, List.mem_append] at h
    rcases h with h | h
    · exact vars_compPE ptr cur t a x h
    · exact vars_compPE ptr cur t b x h
  | .neg a, x, h => by simp only [compPE, vars] at h; exact vars_compPE ptr cur t a x h
  | .not a, x, h => by simp only [compPE, vars] at h; exact vars_compPE ptr cur t a x h

/-! ## conditions -/

/-- evaluate a condition expression to a truth value, as `if (c)` does -/
def evalB (N : Num D) (σ : Env D) (c : CExpr) : Except Fault Bool :=
  match evalE N σ c with
  | .error f => .error f
  | .ok v => match asBool N v with
    | some b => .ok b
    | none => .error (.typeErr "condition")

/-- lazy conjunction of conditions given in REVERSE order (last condition first) -/
def condsR (N : Num D) (σ : Env D) : List CExpr → Except Fault Bool
  | [] => .ok true
  | c :: rest => match condsR N σ rest with
    | .error f => .error f
    | .ok false => .ok false
    | .ok true => evalB N σ c

theorem evalB_ok (N : Num D) (σ : Env D) (c : CExpr) (r : Bool) (h : evalB N σ c = .ok r) :
    ∃ v, evalE N σ c = .ok v ∧ asBool N v = some r := by
  unfold evalB at h
  cases he : evalE N σ c with
  | error f => rw [he] at h; simp at h
  | ok v =>
    rw [he] at h
    simp only [] at h
    cases hb : asBool N v with
    | none => rw [hb] at h; simp at h
    | some b => rw [hb] at h; simp only [Except.ok.injEq] at h; subst h; exact ⟨v, rfl, hb⟩

theorem evalB_of (N : Num D) (σ : Env D) (c : CExpr) (v : Val D) (r : Bool)
    (h1 : evalE N σ c = .ok v) (h2 : asBool N v = some r) : evalB N σ c = .ok r := by
  simp only [evalB, h1, h2]

theorem condsR_cons (N : Num D) (σ : Env D) (c : CExpr) (rest : List CExpr) :
    condsR N σ (c :: rest) = (match condsR N σ rest with
      | .error f => .error f
      | .ok false => .ok false
      | .ok true => evalB N σ c) := rfl

theorem evalB_congr (N : Num D) (σ σ' : Env D) (c : CExpr) (h : ∀ x ∈ vars c, σ x = σ' x) :
    evalB N σ c = evalB N σ' c := by
  simp only [evalB, evalE_congr N σ σ' c h]

theorem condsR_congr (N : Num D) (σ σ' : Env D) : ∀ (cs : List CExpr), (∀ c ∈ cs, ∀ x ∈ vars c, σ x = σ' x) →
    condsR N σ cs = condsR N σ' cs
  | [], _ => rfl
  | c :: rest, h => by
    simp only [condsR, condsR_congr N σ σ' rest (fun c' hc' => h c' (by simp [hc'])),
      evalB_congr N σ σ' c (h c (by simp))]

/-- names `nm j` with `lo ≤ j < hi` -/
def InRange (nm : Nat → String) (lo hi : Nat) (y : String) : Prop := ∃ j, lo ≤ j ∧ j < hi ∧ y = nm j

theorem andLower_next_ge (nm : Nat → String) : ∀ (rc : List CExpr) (n : Nat), n ≤ (andLower nm rc n).next
  | [], n => by simp [andLower]
  | [_], n => by simp [andLower]
  | _ :: c2 :: rest, n => by
    have := andLower_next_ge nm (c2 :: rest) (n + 1)
    simp only [andLower]; omega

/-- **and-lowering** — running the declarations and statements of the lowered conjunction leaves
a state in which its value expression evaluates to the lazy conjunction; nothing but the fresh
result variables is touched; a condition is evaluated only if all earlier ones were true. -/
theorem andLower_correct (C : Ctx D) (nm : Nat → String) (hinj : ∀ i j, nm i = nm j → i = j) :
    ∀ (rc : List CExpr) (n : Nat) (σ : Env D) (rows : List (List (Val D))) (r : Bool),
      (∀ c ∈ rc, ∀ x ∈ vars c, ∀ j, n ≤ j → x ≠ nm j) →
      condsR C.N σ rc = .ok r →
      ∃ σ', execs C ((andLower nm rc n).decls ++ (andLower nm rc n).stmts) ⟨σ, rows⟩ = .ok ⟨σ', rows⟩ ∧
        evalB C.N σ' (andLower nm rc n).val = .ok r ∧
        (∀ y, ¬ InRange nm n (andLower nm rc n).next y → σ' y = σ y)
  | [], n, σ, rows, r, _, h => by
    simp only [condsR, Except.ok.injEq] at h; subst h
    exact ⟨σ, by simp [andLower, execs], by simp [andLower, evalB, evalE, asBool], fun _ _ => rfl⟩
  | [c], n, σ, rows, r, _, h => by
    simp only [condsR] at h
    exact ⟨σ, by simp [andLower, execs], by simpa [andLower] using h, fun _ _ => rfl⟩
  | c :: c2 :: rest, n, σ, rows, r, hfresh, h => by
    rw [condsR_cons] at h
    -- the earlier conditions
    cases hr1 : condsR C.N σ (c2 :: rest) with
    | error f => rw [hr1] at h; simp at h
    | ok r1 =>
      have hfresh' : ∀ c' ∈ c2 :: rest, ∀ x ∈ vars c', ∀ j, n + 1 ≤ j → x ≠ nm j :=
        fun c' hc' x hx j hj => hfresh c' (by simp at hc' ⊢; exact Or.inr hc') x hx j (by omega)
      have hcong : condsR C.N (σ.declare (nm n)) (c2 :: rest) = .ok r1 := by
        rw [← hr1]
        apply condsR_congr
        intro c' hc' x hx
        have : x ≠ nm n := hfresh c' (by simp at hc' ⊢; exact Or.inr hc') x hx n (Nat.le_refl n)
        simp [Env.declare, this]
      obtain ⟨σ1, hex1, hval1, hfr1⟩ :=
        andLower_correct C nm hinj (c2 :: rest) (n + 1) (σ.declare (nm n)) rows r1 hfresh' hcong
      have hge := andLower_next_ge nm (c2 :: rest) (n + 1)
      -- the value of the inner conjunction
      obtain ⟨v1, hv1, hb1⟩ := evalB_ok C.N σ1 _ r1 hval1
      have hbdecl : σ1 (nm n) = some .uninit := by
        rw [hfr1 (nm n) (by rintro ⟨j, hj1, _, hj3⟩; have := hinj _ _ hj3; omega)]
        simp [Env.declare]
      -- c is evaluated in a state that agrees with σ on its variables
      have hc_same : ∀ σ2 : Env D, (∀ y, ¬ InRange nm n (andLower nm (c2 :: rest) (n + 1)).next y → σ2 y = σ y) →
          evalB C.N σ2 c = evalB C.N σ c := by
        intro σ2 h2
        apply evalB_congr
        intro x hx
        apply h2
        rintro ⟨j, hj1, _, hj3⟩
        exact hfresh c (by simp) x hx j hj1 hj3
      let b := nm n
      let σ2 : Env D := σ1.set b v1
      have hσ2 : ∀ y, ¬ InRange nm n (andLower nm (c2 :: rest) (n + 1)).next y → σ2 y = σ y := by
        intro y hy
        have hyb : y ≠ b := fun e => hy ⟨n, Nat.le_refl n, by omega, e⟩
        simp only [σ2, Env.set, hyb, if_false]
        rw [hfr1 y (fun ⟨j, hj1, hj2, hj3⟩ => hy ⟨j, by omega, hj2, hj3⟩)]
        have hyb' : y ≠ nm n := hyb
        simp [Env.declare, hyb']
      -- assemble the execution
      have hshape : (andLower nm (c :: c2 :: rest) n).decls ++ (andLower nm (c :: c2 :: rest) n).stmts =
          .decl "bool" b none :: (((andLower nm (c2 :: rest) (n + 1)).decls ++ (andLower nm (c2 :: rest) (n + 1)).stmts) ++
            [.set b (andLower nm (c2 :: rest) (n + 1)).val, .ite (.var b) [.set b c] []]) := by
        simp [andLower, b, List.append_assoc]
      have hpre : execs C ((andLower nm (c :: c2 :: rest) n).decls ++ (andLower nm (c :: c2 :: rest) n).stmts) ⟨σ, rows⟩ =
          execs C [.ite (.var b) [.set b c] []] ⟨σ2, rows⟩ := by
        rw [hshape]
        have : isVecType "bool" = false := by decide
        simp only [execs, exec, this, Bool.false_eq_true, if_false]
        rw [execs_append, hex1]
        have hbd : σ1 b = some .uninit := hbdecl
        simp only [execs, exec, hbd, hv1]
        rfl
      have hvarb : evalE C.N σ2 (.var b) = .ok v1 := by simp [evalE, σ2, Env.set]
      cases r1 with
      | false =>
        rw [hr1] at h; simp only [Except.ok.injEq] at h; subst h
        refine ⟨σ2, ?_, ?_, ?_⟩
        · rw [hpre]; simp only [execs, exec, hvarb, hb1]
        · exact evalB_of _ _ _ _ _ (by simpa [andLower] using hvarb) hb1
        · intro y hy; exact hσ2 y (by simpa [andLower] using hy)
      | true =>
        rw [hr1] at h
        simp only [] at h
        have hc2 := hc_same σ2 hσ2
        rw [← hc2] at h
        obtain ⟨vc, hvc, hbc⟩ := evalB_ok C.N σ2 c r h
        refine ⟨σ2.set b vc, ?_, ?_, ?_⟩
        · rw [hpre]
          have : σ2 b = some (.val v1) := by simp [σ2, Env.set]
          simp only [execs, exec, hvarb, hb1, this, hvc]
        · have : evalE C.N (σ2.set b vc) (.var b) = .ok vc := by simp [evalE, Env.set]
          exact evalB_of _ _ _ _ _ (by simpa [andLower] using this) hbc
        · intro y hy
          have hy' : ¬ InRange nm n (andLower nm (c2 :: rest) (n + 1)).next y := by simpa [andLower] using hy
          have hyb : y ≠ b := fun e => hy' ⟨n, Nat.le_refl n, by omega, e⟩
          simp only [Env.set, hyb, if_false]
          have := hσ2 y hy'
          simpa [σ2, Env.set, hyb] using this

end FaxVerif.Gen

namespace FaxVerif.Gen
open FaxVerif.Cpp FaxVerif.Linq
variable {D : Type}

/-! ## one element through the steps -/

theorem peQ_indep (C : QCtx D) (v : Val D) (x y : String) (ρ ρ' : LEnv D) :
    ∀ pe : PE, denote C ((x, v) :: ρ) (peQ x pe) = denote C ((y, v) :: ρ') (peQ y pe)
  | .int _ => by simp [peQ, denote]
  | .dbl _ _ => by simp [peQ, denote]
  | .bool _ => by simp [peQ, denote]
  | .it => by simp [peQ, denote, LEnv.get]
  | .meth _ _ => by simp [peQ, denote, LEnv.get]
  | .bin _ a b => by simp only [peQ, denote, peQ_indep C v x y ρ ρ' a, peQ_indep C v x y ρ ρ' b]
  | .cmp _ a b => by simp only [peQ, denote, peQ_indep C v x y ρ ρ' a, peQ_indep C v x y ρ ρ' b]
  | .neg a => by simp only [peQ, denote, peQ_indep C v x y ρ ρ' a]
  | .not a => by simp only [peQ, denote, peQ_indep C v x y ρ ρ' a]

/-- lazy conjunction, conditions in order -/
def condsF (N : Num D) (σ : Env D) : List CExpr → Except Fault Bool
  | [] => .ok true
  | c :: cs => match evalB N σ c with
    | .error f => .error f
    | .ok false => .ok false
    | .ok true => condsF N σ cs

theorem condsR_snoc (N : Num D) (σ : Env D) (c : CExpr) : ∀ l : List CExpr,
    condsR N σ (l ++ [c]) = (match evalB N σ c with
      | .error f => .error f
      | .ok false => .ok false
      | .ok true => condsR N σ l)
  | [] => by
    simp only [List.nil_append, condsR]
    cases evalB N σ c with
    | error f => rfl
    | ok b => cases b <;> rfl
  | d :: l => by
    simp only [List.cons_append, condsR, condsR_snoc N σ c l]
    cases evalB N σ c with
    | error f => rfl
    | ok b => cases b <;> rfl

theorem condsF_eq_condsR (N : Num D) (σ : Env D) : ∀ cs : List CExpr, condsF N σ cs = condsR N σ cs.reverse
  | [] => rfl
  | c :: cs => by
    simp only [List.reverse_cons, condsR_snoc, condsF, condsF_eq_condsR N σ cs]

theorem methTyped_of_hasTy {w : Val D} {t : Ty} (h : HasTy w t) (ms : List (String × Ty)) : MethTyped w ms := by
  intro p _ u hu
  cases w <;> cases t <;> simp [HasTy, member] at h hu

theorem stepConds_vars (ptr : Bool) : ∀ (steps : List Step) (cur : CExpr) (curTy : Option Ty),
    (∀ c ∈ (stepConds ptr cur curTy steps).1, ∀ x ∈ vars c, x ∈ vars cur) ∧
    (∀ x ∈ vars (stepConds ptr cur curTy steps).2.1, x ∈ vars cur)
  | [], cur, curTy => by simp [stepConds]
  | .sel f :: rest, cur, curTy => by
    have ih := stepConds_vars ptr rest (compPE (ptr && curTy.isNone) cur (curTy.getD .double) f) (some (tyPE (curTy.getD .double) f))
    simp only [stepConds]
    exact ⟨fun c hc x hx => vars_compPE _ _ _ f x (ih.1 c hc x hx), fun x hx => vars_compPE _ _ _ f x (ih.2 x hx)⟩
  | .whr c :: rest, cur, curTy => by
    have ih := stepConds_vars ptr rest cur curTy
    simp only [stepConds]
    refine ⟨?_, ih.2⟩
    intro c' hc' x hx
    rcases List.mem_cons.1 hc' with rfl | hc'
    · exact vars_compPE _ _ _ c x hx
    · exact ih.1 c' hc' x hx

/-- **one element** — if the query sends element `v` through the steps successfully, the emitted
conditions evaluate (lazily, in order) to "kept / dropped" accordingly, and for a kept element
the final value expression evaluates to the query's value, with its static type. -/
theorem elem_correct (C : QCtx D) (σ : Env D) (ptr : Bool) :
    ∀ (steps : List Step) (cur : CExpr) (curTy : Option Ty) (v : Val D) (o : Option (Val D)),
      evalE C.N σ cur = .ok v → (∀ t, curTy = some t → HasTy v t) →
      wtSteps curTy steps = true → MethTyped v (methsSteps steps) →
      elemSem C steps v = .ok o →
      (o = none → condsF C.N σ (stepConds ptr cur curTy steps).1 = .ok false) ∧
      (∀ w, o = some w → condsF C.N σ (stepConds ptr cur curTy steps).1 = .ok true ∧
          evalE C.N σ (stepConds ptr cur curTy steps).2.1 = .ok w ∧
          (∀ t, (stepConds ptr cur curTy steps).2.2 = some t → HasTy w t) ∧
          ((stepConds ptr cur curTy steps).2.2 = none → w = v ∧ curTy = none))
  | [], cur, curTy, v, o, hcur, hty, _, _, hs => by
    simp only [elemSem, Except.ok.injEq] at hs; subst hs
    simp only [stepConds, condsF, hcur, reduceCtorEq, false_implies, true_and, Option.some.injEq]
    intro w hw; subst hw
    exact ⟨rfl, hty, fun h => ⟨rfl, h⟩⟩
  | .sel f :: rest, cur, curTy, v, o, hcur, hty, hwt, hm, hs => by
    simp only [wtSteps, Bool.and_eq_true] at hwt
    simp only [elemSem, peSem] at hs
    have hpe := pe_correct C σ cur curTy (ptr && curTy.isNone) v "x" [] hcur hty f hwt.1
      (fun p hp => hm p (by simp [methsSteps, hp]))
    cases hd : denote C [("x", v)] (peQ "x" f) with
    | error e => rw [hd] at hs; simp at hs
    | ok w' =>
      rw [hd] at hs
      simp only [] at hs
      have hw'ty := hpe.2 w' hd
      have := elem_correct C σ ptr rest (compPE (ptr && curTy.isNone) cur (curT curTy) f) (some (tyPE (curT curTy) f)) w' o
        (by rw [hpe.1]; exact hd) (fun t ht => by simp only [Option.some.injEq] at ht; subst ht; exact hw'ty)
        hwt.2 (methTyped_of_hasTy hw'ty _) hs
      simp only [stepConds]
      refine ⟨this.1, fun w hw => ?_⟩
      obtain ⟨h1, h2, h3, h4⟩ := this.2 w hw
      refine ⟨h1, h2, h3, fun hn => ?_⟩
      have := (h4 hn).2
      simp at this
  | .whr c :: rest, cur, curTy, v, o, hcur, hty, hwt, hm, hs => by
    simp only [wtSteps, Bool.and_eq_true, beq_iff_eq] at hwt
    simp only [elemSem, peSem] at hs
    have hpe := pe_correct C σ cur curTy (ptr && curTy.isNone) v "x" [] hcur hty c hwt.1.1
      (fun p hp => hm p (by simp [methsSteps, hp]))
    cases hd : denote C [("x", v)] (peQ "x" c) with
    | error e => rw [hd] at hs; simp at hs
    | ok r =>
      rw [hd] at hs
      simp only [] at hs
      have hev : evalE C.N σ (compPE (ptr && curTy.isNone) cur (curT curTy) c) = .ok r := by rw [hpe.1]; exact hd
      cases hb : asBool C.N r with
      | none => rw [hb] at hs; simp at hs
      | some b =>
        rw [hb] at hs
        have hB : evalB C.N σ (compPE (ptr && curTy.isNone) cur (curT curTy) c) = .ok b := evalB_of _ _ _ _ _ hev hb
        cases b with
        | false =>
          simp only [Except.ok.injEq] at hs; subst hs
          simp only [stepConds, condsF]
          rw [show curTy.getD .double = curT curTy from rfl, hB]
          simp
        | true =>
          simp only [] at hs
          have := elem_correct C σ ptr rest cur curTy v o hcur hty hwt.2
            (fun p hp => hm p (by simp [methsSteps, hp])) hs
          simp only [stepConds, condsF]
          rw [show curTy.getD .double = curT curTy from rfl, hB]
          simpa using this

/-! ## list-at-a-time = element-at-a-time (when the former succeeds) -/

/-- the query's own (list-at-a-time) meaning of the steps -/
def chainList (C : QCtx D) : List Step → List (Val D) → Except Fault (List (Val D))
  | [], l => .ok l
  | .sel f :: rest, l => match mapE (fun v => peSem C v f) l with
    | .error e => .error e
    | .ok r => chainList C rest r
  | .whr c :: rest, l => match filterE C.N (fun v => peSem C v c) l with
    | .error e => .error e
    | .ok r => chainList C rest r

theorem elemsSem_sel (C : QCtx D) (f : PE) (rest : List Step) :
    ∀ (l l1 r : List (Val D)), mapE (fun v => peSem C v f) l = .ok l1 → elemsSem C rest l1 = .ok r →
      elemsSem C (.sel f :: rest) l = .ok r
  | [], l1, r, hm, he => by
    simp only [mapE, Except.ok.injEq] at hm; subst hm
    simpa [elemsSem] using he
  | v :: vs, l1, r, hm, he => by
    simp only [mapE] at hm
    cases hv : peSem C v f with
    | error e => rw [hv] at hm; simp at hm
    | ok w =>
      rw [hv] at hm
      simp only [] at hm
      cases hvs : mapE (fun v => peSem C v f) vs with
      | error e => rw [hvs] at hm; simp at hm
      | ok ws =>
        rw [hvs] at hm
        simp only [Except.ok.injEq] at hm; subst hm
        simp only [elemsSem] at he
        cases hw : elemSem C rest w with
        | error e => rw [hw] at he; simp at he
        | ok o =>
          rw [hw] at he
          simp only [] at he
          cases hr : elemsSem C rest ws with
          | error e => rw [hr] at he; simp at he
          | ok rs =>
            rw [hr] at he
            simp only [Except.ok.injEq] at he; subst he
            have ih := elemsSem_sel C f rest vs ws rs hvs hr
            simp [elemsSem, elemSem, hv, hw, ih]

theorem elemsSem_whr (C : QCtx D) (c : PE) (rest : List Step) :
    ∀ (l l1 r : List (Val D)), filterE C.N (fun v => peSem C v c) l = .ok l1 → elemsSem C rest l1 = .ok r →
      elemsSem C (.whr c :: rest) l = .ok r
  | [], l1, r, hm, he => by
    simp only [filterE, Except.ok.injEq] at hm; subst hm
    simpa [elemsSem] using he
  | v :: vs, l1, r, hm, he => by
    simp only [filterE] at hm
    cases hv : peSem C v c with
    | error e => rw [hv] at hm; simp at hm
    | ok w =>
      rw [hv] at hm
      simp only [] at hm
      cases hb : asBool C.N w with
      | none => rw [hb] at hm; simp at hm
      | some b =>
        rw [hb] at hm
        simp only [] at hm
        cases hvs : filterE C.N (fun v => peSem C v c) vs with
        | error e => rw [hvs] at hm; simp at hm
        | ok ws =>
          rw [hvs] at hm
          simp only [Except.ok.injEq] at hm
          cases b with
          | false =>
            simp only [Bool.false_eq_true, if_false] at hm; subst hm
            have ih := elemsSem_whr C c rest vs ws r hvs he
            simp [elemsSem, elemSem, hv, hb, ih]
          | true =>
            simp only [if_true] at hm; subst hm
            simp only [elemsSem] at he
            cases hw : elemSem C rest v with
            | error e => rw [hw] at he; simp at he
            | ok o =>
              rw [hw] at he
              simp only [] at he
              cases hr : elemsSem C rest ws with
              | error e => rw [hr] at he; simp at he
              | ok rs =>
                rw [hr] at he
                simp only [Except.ok.injEq] at he; subst he
                have ih := elemsSem_whr C c rest vs ws rs hvs hr
                simp [elemsSem, elemSem, hv, hb, hw, ih]

theorem elemsSem_nil_steps (C : QCtx D) : ∀ l : List (Val D), elemsSem C [] l = .ok l
  | [] => rfl
  | v :: vs => by simp [elemsSem, elemSem, elemsSem_nil_steps C vs]

theorem chainList_elems (C : QCtx D) : ∀ (steps : List Step) (l r : List (Val D)),
    chainList C steps l = .ok r → elemsSem C steps l = .ok r
  | [], l, r, h => by
    simp only [chainList, Except.ok.injEq] at h; subst h; exact elemsSem_nil_steps C l
  | .sel f :: rest, l, r, h => by
    simp only [chainList] at h
    cases hm : mapE (fun v => peSem C v f) l with
    | error e => rw [hm] at h; simp at h
    | ok l1 => rw [hm] at h; exact elemsSem_sel C f rest l l1 r hm (chainList_elems C rest l1 r h)
  | .whr c :: rest, l, r, h => by
    simp only [chainList] at h
    cases hm : filterE C.N (fun v => peSem C v c) l with
    | error e => rw [hm] at h; simp at h
    | ok l1 => rw [hm] at h; exact elemsSem_whr C c rest l l1 r hm (chainList_elems C rest l1 r h)

end FaxVerif.Gen
