/-
Gen — SHAPE of the fragments `compDE` / `compCondsD` / `compSelD` emit, at every depth (mutual structural
induction over `DE` / `DChain` / `DConds` / `DOpt`): the fresh-name supply only grows; the value expression
mentions the current-element expression's variables and the fragment's own names only; every declaration
declares a name of the fragment's own range, is simple (uninitialised `bool`, or an accumulator initialised by
a literal), and the declared names are pairwise distinct.
-/
import FaxVerif.Gen.DeepSem
namespace FaxVerif.Gen
open FaxVerif.Cpp FaxVerif.Linq
variable {D : Type}

structure FragShape (N : Num D) (nm : Nat → String) (cur : CExpr) (n : Nat) (f : EFrag) : Prop where
  ge : n ≤ f.next
  valVars : ∀ x ∈ vars f.val, x ∈ vars cur ∨ InRange nm n f.next x
  declsIn : DeclsIn nm n f.next f.decls
  simple : ∀ d ∈ f.decls, SimpleDecl N d
  nodup : (f.decls.map declName).Nodup

/-- two fragments over consecutive name ranges, declarations and statements concatenated -/
theorem FragShape.seq {N : Num D} {nm : Nat → String} (hinj : ∀ i j, nm i = nm j → i = j) {cur : CExpr} {n : Nat}
    {fa fb : EFrag} (ha : FragShape N nm cur n fa) (hb : FragShape N nm cur fa.next fb) (v : CExpr)
    (hv : ∀ x ∈ vars v, x ∈ vars fa.val ∨ x ∈ vars fb.val) :
    FragShape N nm cur n ⟨fa.decls ++ fb.decls, fa.stmts ++ fb.stmts, v, fb.next⟩ where
  ge := Nat.le_trans ha.ge hb.ge
  valVars := by
    intro x hx
    rcases hv x hx with h | h
    · exact (ha.valVars x h).imp id (fun r => r.mono (Nat.le_refl _) hb.ge)
    · exact (hb.valVars x h).imp id (fun r => r.mono ha.ge (Nat.le_refl _))
  declsIn := (ha.declsIn.mono (Nat.le_refl _) hb.ge).append (hb.declsIn.mono ha.ge (Nat.le_refl _))
  simple := by
    intro d hd
    rcases List.mem_append.1 hd with h | h
    · exact ha.simple d h
    · exact hb.simple d h
  nodup := by
    rw [List.map_append]
    exact nodup_append_ranges hinj ha.nodup hb.nodup (declsIn_names ha.declsIn) (declsIn_names hb.declsIn)

/-- the same fragment with another value expression over the same variables -/
theorem FragShape.reval {N : Num D} {nm : Nat → String} {cur : CExpr} {n : Nat} {f : EFrag}
    (h : FragShape N nm cur n f) (v : CExpr) (hv : ∀ x ∈ vars v, x ∈ vars f.val) :
    FragShape N nm cur n ⟨f.decls, f.stmts, v, f.next⟩ :=
  ⟨h.ge, fun x hx => h.valVars x (hv x hx), h.declsIn, h.simple, h.nodup⟩

/-- an accumulator `T acc (0);` named `nm n`, its loop drawing the names `n + 1 … m - 1` -/
theorem FragShape.acc (N : Num D) (nm : Nat → String) (cur : CExpr) (n m : Nat) (hm : n + 1 ≤ m) (t : Ty) (stmts : List Stmt) :
    FragShape N nm cur n ⟨[.decl t.cpp (nm n) (some (.int 0))], stmts, .var (nm n), m⟩ where
  ge := by simp only; omega
  valVars := by
    intro x hx
    simp only [vars, List.mem_singleton] at hx
    exact Or.inr ⟨n, Nat.le_refl n, by simp only; omega, hx⟩
  declsIn := by
    intro d hd
    simp only [List.mem_singleton] at hd
    exact ⟨_, _, _, hd, n, Nat.le_refl n, by simp only; omega, rfl⟩
  simple := by
    intro d hd
    simp only [List.mem_singleton] at hd; subst hd
    obtain ⟨v', hv'⟩ := castTo_cpp_int0 N t
    exact ⟨.int 0, v', rfl, hv'⟩
  nodup := by simp

theorem compLoopD_snd (nm : Nat → String) (ptr : Bool) (cur : CExpr) (c : DChain) (n : Nat) (K K' : CExpr → List Stmt) :
    (compLoopD nm ptr cur c n K).2 = (compLoopD nm ptr cur c n K').2 := by
  cases c; simp [compLoopD]

/-- controlled unfolding of the lowered conjunction at two or more conditions -/
theorem compCondsD_snoc2 (nm : Nat → String) (elem : Option Ty) (it : CExpr) (i0 : DConds) (c0 c : DE) (n : Nat) :
    compCondsD nm elem it (.snoc (.snoc i0 c0) c) n =
      ⟨.decl "bool" (nm n) none :: (compCondsD nm elem it (.snoc i0 c0) (n + 1)).decls,
       (compCondsD nm elem it (.snoc i0 c0) (n + 1)).stmts ++ [.set (nm n) (compCondsD nm elem it (.snoc i0 c0) (n + 1)).val,
          .ite (.var (nm n)) ((compDE nm false elem it c (compCondsD nm elem it (.snoc i0 c0) (n + 1)).next).decls ++
            (compDE nm false elem it c (compCondsD nm elem it (.snoc i0 c0) (n + 1)).next).stmts ++
            [.set (nm n) (compDE nm false elem it c (compCondsD nm elem it (.snoc i0 c0) (n + 1)).next).val]) []],
       .var (nm n), (compDE nm false elem it c (compCondsD nm elem it (.snoc i0 c0) (n + 1)).next).next⟩ := by
  rw [compCondsD]

theorem compCondsD_snoc1 (nm : Nat → String) (elem : Option Ty) (it : CExpr) (c : DE) (n : Nat) :
    compCondsD nm elem it (.snoc .nil c) n = compDE nm false elem it c n := by
  rw [compCondsD]

mutual
  theorem compDE_shape (N : Num D) (nm : Nat → String) (hinj : ∀ i j, nm i = nm j → i = j) :
      ∀ (e : DE) (ptr : Bool) (k : Option Ty) (cur : CExpr) (n : Nat), FragShape N nm cur n (compDE nm ptr k cur e n)
    | .pure p, ptr, k, cur, n => by
      simp only [compDE]
      exact ⟨Nat.le_refl n, fun x hx => Or.inl (vars_compPE _ cur _ p x hx), fun d hd => by simp at hd,
        fun d hd => by simp at hd, by simp⟩
    | .count c, ptr, k, cur, n => by
      have := compLoopD_ge N nm hinj c ptr cur (n + 1) (countKD (nm n))
      simp only [compDE]
      exact FragShape.acc N nm cur n _ (by omega) .int _
    | .sum c, ptr, k, cur, n => by
      have := compLoopD_ge N nm hinj c ptr cur (n + 1) (sumKD (nm n))
      simp only [compDE]
      exact FragShape.acc N nm cur n _ (by omega) _ _
    | .bin op a b, ptr, k, cur, n => by
      simp only [compDE]
      refine FragShape.seq hinj (compDE_shape N nm hinj a ptr k cur n) (compDE_shape N nm hinj b ptr k cur _) _ ?_
      intro x hx
      split at hx <;> simpa [vars] using hx
    | .cmp op a b, ptr, k, cur, n => by
      simp only [compDE]
      refine FragShape.seq hinj (compDE_shape N nm hinj a ptr k cur n) (compDE_shape N nm hinj b ptr k cur _) _ ?_
      intro x hx
      simpa [vars] using hx
    | .neg a, ptr, k, cur, n => by
      simp only [compDE]
      exact (compDE_shape N nm hinj a ptr k cur n).reval _ (fun x hx => by simpa [vars] using hx)
    | .not a, ptr, k, cur, n => by
      simp only [compDE]
      exact (compDE_shape N nm hinj a ptr k cur n).reval _ (fun x hx => by simpa [vars] using hx)
  theorem compLoopD_ge (N : Num D) (nm : Nat → String) (hinj : ∀ i j, nm i = nm j → i = j) :
      ∀ (c : DChain) (ptr : Bool) (cur : CExpr) (n : Nat) (K : CExpr → List Stmt), n + 1 ≤ (compLoopD nm ptr cur c n K).2
    | .mk m elem whrs sel, ptr, cur, n, K => by
      have h1 := (compCondsD_shape N nm hinj whrs elem (.var (nm n)) (n + 1)).ge
      have h2 := (compSelD_shape N nm hinj sel elem (.var (nm n)) (compCondsD nm elem (.var (nm n)) whrs (n + 1)).next).ge
      simp only [compLoopD]; omega
  theorem compCondsD_shape (N : Num D) (nm : Nat → String) (hinj : ∀ i j, nm i = nm j → i = j) :
      ∀ (whrs : DConds) (elem : Option Ty) (it : CExpr) (n : Nat), FragShape N nm it n (compCondsD nm elem it whrs n)
    | .nil, elem, it, n => by
      simp only [compCondsD]
      exact ⟨Nat.le_refl n, fun x hx => by simp [vars] at hx, fun d hd => by simp at hd, fun d hd => by simp at hd, by simp⟩
    | .snoc .nil c, elem, it, n => by
      rw [compCondsD_snoc1]
      exact compDE_shape N nm hinj c false elem it n
    | .snoc (.snoc i0 c0) c, elem, it, n => by
      have hi := compCondsD_shape N nm hinj (.snoc i0 c0) elem it (n + 1)
      have hc := compDE_shape N nm hinj c false elem it (compCondsD nm elem it (.snoc i0 c0) (n + 1)).next
      rw [compCondsD_snoc2]
      refine ⟨by have := hi.ge; have := hc.ge; simp only; omega, ?_, ?_, ?_, ?_⟩
      · intro x hx
        simp only [vars, List.mem_singleton] at hx
        exact Or.inr ⟨n, Nat.le_refl n, by have := hi.ge; have := hc.ge; simp only; omega, hx⟩
      · intro d hd
        simp only [List.mem_cons] at hd
        rcases hd with rfl | hd
        · exact ⟨_, _, _, rfl, n, Nat.le_refl n, by have := hi.ge; have := hc.ge; simp only; omega, rfl⟩
        · exact (hi.declsIn.mono (Nat.le_succ n) hc.ge) d hd
      · intro d hd
        simp only [List.mem_cons] at hd
        rcases hd with rfl | hd
        · simp [SimpleDecl, isVecType]; decide
        · exact hi.simple d hd
      · simp only [List.map_cons, declName, List.nodup_cons]
        refine ⟨?_, hi.nodup⟩
        intro hmem
        obtain ⟨j, hj1, _, hj3⟩ := declsIn_names hi.declsIn _ hmem
        have := hinj _ _ hj3; omega
  theorem compSelD_shape (N : Num D) (nm : Nat → String) (hinj : ∀ i j, nm i = nm j → i = j) :
      ∀ (sel : DOpt) (elem : Option Ty) (it : CExpr) (n : Nat), FragShape N nm it n (compSelD nm elem it sel n)
    | .none, elem, it, n => by
      simp only [compSelD]
      exact ⟨Nat.le_refl n, fun x hx => Or.inl hx, fun d hd => by simp at hd, fun d hd => by simp at hd, by simp⟩
    | .some f, elem, it, n => by
      simp only [compSelD]
      exact compDE_shape N nm hinj f false elem it n
end

theorem compDEs_shape (N : Num D) (nm : Nat → String) (hinj : ∀ i j, nm i = nm j → i = j) (ptr : Bool) (cur : CExpr) :
    ∀ (es : List DE) (n : Nat), n ≤ (compDEs nm ptr cur es n).next ∧
      DeclsIn nm n (compDEs nm ptr cur es n).next (compDEs nm ptr cur es n).decls ∧
      (∀ d ∈ (compDEs nm ptr cur es n).decls, SimpleDecl N d) ∧ ((compDEs nm ptr cur es n).decls.map declName).Nodup ∧
      (∀ e ∈ (compDEs nm ptr cur es n).vals, ∀ x ∈ vars e, x ∈ vars cur ∨ InRange nm n (compDEs nm ptr cur es n).next x) ∧
      (compDEs nm ptr cur es n).vals.length = es.length
  | [], n => by simp [compDEs, DeclsIn]
  | e :: rest, n => by
    have ha := compDE_shape N nm hinj e ptr none cur n
    obtain ⟨h1, h2, h3, h4, h5, h6⟩ := compDEs_shape N nm hinj ptr cur rest (compDE nm ptr none cur e n).next
    simp only [compDEs]
    refine ⟨Nat.le_trans ha.ge h1, (ha.declsIn.mono (Nat.le_refl _) h1).append (h2.mono ha.ge (Nat.le_refl _)), ?_, ?_, ?_, by simp [h6]⟩
    · intro d hd
      rcases List.mem_append.1 hd with h | h
      · exact ha.simple d h
      · exact h3 d h
    · rw [List.map_append]
      exact nodup_append_ranges hinj ha.nodup h4 (declsIn_names ha.declsIn) (declsIn_names h2)
    · intro e' he' x hx
      simp only [List.mem_cons] at he'
      rcases he' with rfl | he'
      · exact (ha.valVars x hx).imp id (fun r => r.mono (Nat.le_refl _) h1)
      · exact (h5 e' he' x hx).imp id (fun r => r.mono ha.ge (Nat.le_refl _))

end FaxVerif.Gen
