/-
Gen — the C++ side of chains with lazy `Where` conditions and of rows with lazy columns:
`andLowerL_correct` (fused `Where`s), `elem_correctL` / `bodyL_correct` (one element through the
loop body), `colsL_correct` / `rowK_correct` (the columns of one row).
-/
import FaxVerif.Gen.LazyChainCorrect
namespace FaxVerif.Gen
open FaxVerif.Cpp FaxVerif.Linq
variable {D : Type}

/-! ## one guarded operand -/

section guard
variable (C : Ctx D) (nm : Nat → String) (EF : Fault → Prop)

/-- the guard is false: the operand's block is not executed at all -/
theorem guard_skip (lo hi : Nat) (op : LOp) (r : String) (body : List Stmt) (σ : Env D) (rows : List (List (Val D)))
    (acc : Bool) (hrv : σ r = some (.val (.bool acc))) (hruns : op.runs acc = false) :
    AgreesR C nm EF lo hi r [.ite (op.check r) body []] σ rows (.ok (.bool acc)) := by
  have hstep := check_step C op r body σ rows acc hrv
  rw [hruns] at hstep
  simp only [Bool.false_eq_true, if_false] at hstep
  exact Or.inr ⟨σ, .bool acc, rfl, by rw [execs_single]; exact hstep, hrv, FrameR.refl nm lo hi r σ, Mono.refl σ⟩

/-- the guard is true: the block computes the operand and stores its truth value in `r` -/
theorem guard_run (Pre : Env D → Prop) (k n0 : Nat) (hst : Stable nm n0 Pre) (hn0 : n0 < k) (op : LOp) (F : CondFrag)
    (e : CExpr) (g : Val D → Except Fault (Val D)) (res : Except Fault (Val D))
    (hdecl : ∀ d ∈ F.decls, LDecl d ∧ InRange nm k F.next (dname d))
    (hS : Sound C nm EF Pre k F res)
    (hee : ∀ σ' f, evalE C.N σ' F.val = .error f → evalE C.N σ' e = .error f)
    (he : ∀ σ' w, res = .ok w → evalE C.N σ' F.val = .ok w → evalE C.N σ' e = g w)
    (hg : ∀ w, res = .ok w → ∃ w', g w = .ok w')
    (σ : Env D) (rows : List (List (Val D))) (acc : Bool) (hp : Pre σ)
    (hrv : σ (nm n0) = some (.val (.bool acc))) (hruns : op.runs acc = true) :
    AgreesR C nm EF k F.next (nm n0) [.ite (op.check (nm n0)) (F.decls ++ F.stmts ++ [.set (nm n0) e]) []] σ rows
      (strict1 res g) := by
  have hstep := check_step C op (nm n0) (F.decls ++ F.stmts ++ [.set (nm n0) e]) σ rows acc hrv
  rw [hruns] at hstep
  simp only [if_true] at hstep
  have hr : (σ (nm n0)).isSome = true := by rw [hrv]; rfl
  have harm := run_arm C nm EF Pre k (hst.mono (by omega)) F (nm n0) e g res hdecl hS hee he hg σ rows hp hr
  rcases harm with ⟨herr, f, hex, hef⟩ | ⟨σ', w, hw, hex, hrv', hfr, hmo⟩
  · exact Or.inl ⟨herr, f, by rw [execs_single, hstep]; exact hex, hef⟩
  · exact Or.inr ⟨σ', w, hw, by rw [execs_single, hstep]; exact hex, hrv', hfr, hmo⟩

end guard

/-! ## fused `Where` conditions -/

/-- a condition is "OK" with outcome `r`: compiled at any supply position it is sound for `r`, and `r` is typed -/
def CondOK (C : Ctx D) (nm : Nat → String) (EF : Fault → Prop) (Pre : Env D → Prop) (n0 : Nat)
    (c : CondL) (r : Except Fault (Val D)) : Prop :=
  (∀ k, n0 ≤ k → Sound C nm EF Pre k (compCond nm c k) r) ∧ (∀ w, r = .ok w → HasTy w c.resTy)

/-- lazy conjunction of conditions given in REVERSE order (last condition first): a condition is
evaluated only if all earlier ones were true -/
inductive CondsEvalR (OK : CondL → Except Fault (Val D) → Prop) (N : Num D) : List CondL → Bool → Prop
  | nil : CondsEvalR OK N [] true
  | skip (c : CondL) (rest : List CondL) : CondsEvalR OK N rest false → CondsEvalR OK N (c :: rest) false
  | eval (c : CondL) (rest : List CondL) (w : Val D) (b : Bool) :
      CondsEvalR OK N rest true → OK c (.ok w) → asBool N w = some b → CondsEvalR OK N (c :: rest) b

theorem condsEvalR_snoc_false {OK : CondL → Except Fault (Val D) → Prop} {N : Num D} (c0 : CondL) (w : Val D)
    (hok : OK c0 (.ok w)) (hb : asBool N w = some false) : ∀ l : List CondL, CondsEvalR OK N (l ++ [c0]) false
  | [] => CondsEvalR.eval c0 [] w false CondsEvalR.nil hok hb
  | c :: l => CondsEvalR.skip c (l ++ [c0]) (condsEvalR_snoc_false c0 w hok hb l)

theorem condsEvalR_snoc_true {OK : CondL → Except Fault (Val D) → Prop} {N : Num D} (c0 : CondL) (w : Val D)
    (hok : OK c0 (.ok w)) (hb : asBool N w = some true) : ∀ (l : List CondL) (b : Bool),
    CondsEvalR OK N l b → CondsEvalR OK N (l ++ [c0]) b
  | [], b, h => by
    cases h
    exact CondsEvalR.eval c0 [] w true CondsEvalR.nil hok hb
  | c :: l, b, h => by
    cases h with
    | skip _ _ h' => exact CondsEvalR.skip c (l ++ [c0]) (condsEvalR_snoc_true c0 w hok hb l false h')
    | eval _ _ w' _ h' hok' hb' =>
      exact CondsEvalR.eval c (l ++ [c0]) w' b (condsEvalR_snoc_true c0 w hok hb l true h') hok' hb'

theorem compCond_next_ge (nm : Nat → String) (c : CondL) (n : Nat) : n ≤ (compCond nm c n).next :=
  compLE_next_ge nm c.ptr c.cur c.ty c.c n

theorem andLowerL_next_ge (nm : Nat → String) : ∀ (rc : List CondL) (n : Nat), n ≤ (andLowerL nm rc n).1.next
  | [], n => by simp [andLowerL]
  | [c], n => by simpa [andLowerL] using compCond_next_ge nm c n
  | c :: c2 :: rest, n => by
    have h1 := andLowerL_next_ge nm (c2 :: rest) (n + 1)
    have h2 := compCond_next_ge nm c (andLowerL nm (c2 :: rest) (n + 1)).1.next
    simp only [andLowerL]; omega

theorem andLowerL_decls (nm : Nat → String) : ∀ (rc : List CondL) (n : Nat),
    ∀ d ∈ (andLowerL nm rc n).1.decls, LDecl d ∧ InRange nm n (andLowerL nm rc n).1.next (dname d)
  | [], n, d, h => by simp [andLowerL] at h
  | [c], n, d, h => by
    simp only [andLowerL, compCond] at h ⊢
    exact ⟨compLE_ldecls nm _ _ _ _ _ d h, compLE_decls_in nm _ _ _ _ _ d h⟩
  | c :: c2 :: rest, n, d, h => by
    have h1 := andLowerL_next_ge nm (c2 :: rest) (n + 1)
    have h2 := compCond_next_ge nm c (andLowerL nm (c2 :: rest) (n + 1)).1.next
    simp only [andLowerL, List.mem_cons] at h ⊢
    rcases h with h | h
    · subst h
      exact ⟨⟨"bool", nm n, rfl, by decide⟩, n, Nat.le_refl n, by omega, rfl⟩
    · obtain ⟨hl, j, hj1, hj2, hj3⟩ := andLowerL_decls nm (c2 :: rest) (n + 1) d h
      exact ⟨hl, j, by omega, by omega, hj3⟩

/-- **fused `Where`s** — the lowered conjunction is sound for (a value whose truth value is) the lazy
conjunction of the conditions; a later condition's statements run only if all earlier ones were true. -/
theorem andLowerL_correct (C : Ctx D) (nm : Nat → String) (EF : Fault → Prop) (Pre : Env D → Prop) (n0 : Nat)
    (hst : Stable nm n0 Pre) :
    ∀ (rc : List CondL) (n : Nat) (b : Bool), n0 ≤ n → CondsEvalR (CondOK C nm EF Pre n0) C.N rc b →
      ∃ w, asBool C.N w = some b ∧ HasTy w (andLowerL nm rc n).2 ∧ Sound C nm EF Pre n (andLowerL nm rc n).1 (.ok w)
  | [], n, b, _, h => by
    cases h
    refine ⟨.bool true, by simp [asBool], by simp [andLowerL, HasTy], ?_⟩
    exact sound_pure C nm EF Pre n _ _ rfl (fun σ _ => by simp [andLowerL, evalE, Match])
  | [c], n, b, hn, h => by
    cases h with
    | skip _ _ h' => cases h'
    | eval _ _ w _ h' hok hb =>
      exact ⟨w, hb, by simpa [andLowerL] using hok.2 w rfl, by simpa [andLowerL] using hok.1 n hn⟩
  | c :: c2 :: rest, n, b, hn, h => by
    have hk1 := andLowerL_next_ge nm (c2 :: rest) (n + 1)
    have hk2 := compCond_next_ge nm c (andLowerL nm (c2 :: rest) (n + 1)).1.next
    -- the earlier conditions
    have inner : ∀ b1, CondsEvalR (CondOK C nm EF Pre n0) C.N (c2 :: rest) b1 →
        ∃ w1, asBool C.N w1 = some b1 ∧ HasTy w1 (andLowerL nm (c2 :: rest) (n + 1)).2 ∧
          Sound C nm EF Pre (n + 1) (andLowerL nm (c2 :: rest) (n + 1)).1 (.ok w1) :=
      fun b1 h1 => andLowerL_correct C nm EF Pre n0 hst (c2 :: rest) (n + 1) b1 (by omega) h1
    -- common shape of the two cases: `restRes` is what the guarded step leaves in the result variable
    have build : ∀ (w1 : Val D) (b1 : Bool) (restRes : Except Fault (Val D)),
        asBool C.N w1 = some b1 → HasTy w1 (andLowerL nm (c2 :: rest) (n + 1)).2 →
        Sound C nm EF Pre (n + 1) (andLowerL nm (c2 :: rest) (n + 1)).1 (.ok w1) →
        (∀ σ rows, Pre σ → σ (nm n) = some (.val (.bool b1)) →
          AgreesR C nm EF (andLowerL nm (c2 :: rest) (n + 1)).1.next (compCond nm c (andLowerL nm (c2 :: rest) (n + 1)).1.next).next (nm n)
            [.ite (.var (nm n)) ((compCond nm c (andLowerL nm (c2 :: rest) (n + 1)).1.next).decls ++
              (compCond nm c (andLowerL nm (c2 :: rest) (n + 1)).1.next).stmts ++
              [.set (nm n) (castIf (c.resTy != .bool) "bool" (compCond nm c (andLowerL nm (c2 :: rest) (n + 1)).1.next).val)]) []]
            σ rows restRes) →
        Sound C nm EF Pre n (andLowerL nm (c :: c2 :: rest) n).1 restRes := by
      intro w1 b1 restRes hb1 hty1 hS1 hstep
      simp only [andLowerL]
      refine sound_bop C nm EF Pre n (hst.mono hn) _ _ _ _ (toBoolG C.N .and) (.ok w1) (fun _ => restRes) restRes
        hk1 hk2 hS1 ?_ ?_ ?_ ?_ ?_ ?_
      · intro σ' f hf; exact castIf_err C.N σ' _ _ _ f hf
      · intro σ' w hw hv
        simp only [Except.ok.injEq] at hw; subst hw
        exact castB_ok C.N .and _ w1 hty1 σ' _ hv
      · intro w hw
        simp only [Except.ok.injEq] at hw; subst hw
        exact toBoolG_total C.N .and hty1
      · intro σ rows acc hacc hp hrv
        have : acc = b1 := by simpa [strict1, toBoolG, hb1] using hacc.symm
        subst this
        exact hstep σ rows hp hrv
      · intro e he
        simp [strict1, toBoolG, hb1] at he
      · intro _ _; rfl
    cases h with
    | skip _ _ h' =>
      obtain ⟨w1, hb1, hty1, hS1⟩ := inner false h'
      refine ⟨.bool false, by simp [asBool], by simp [andLowerL, HasTy], ?_⟩
      exact build w1 false _ hb1 hty1 hS1 (fun σ rows _ hrv =>
        guard_skip C nm EF _ _ .and (nm n) _ σ rows false hrv rfl)
    | eval _ _ w _ h' hok hb =>
      obtain ⟨w1, hb1, hty1, hS1⟩ := inner true h'
      refine ⟨.bool b, by simp [asBool], by simp [andLowerL, HasTy], ?_⟩
      have hres : strict1 (.ok w) (toBoolG C.N .and) = .ok (.bool b) := by simp [strict1, toBoolG, hb]
      rw [← hres]
      exact build w1 true _ hb1 hty1 hS1 (fun σ rows hp hrv =>
        guard_run C nm EF Pre _ n (hst.mono hn) (by omega) .and (compCond nm c _) _ (toBoolG C.N .and) (.ok w)
          (fun d hd => ⟨compLE_ldecls nm _ _ _ _ _ d hd, compLE_decls_in nm _ _ _ _ _ d hd⟩)
          (hok.1 _ (by omega))
          (fun σ' f hf => castIf_err C.N σ' _ _ _ f hf)
          (fun σ' w' hw' hv => by
            simp only [Except.ok.injEq] at hw'; subst hw'
            exact castB_ok C.N .and _ w (hok.2 w rfl) σ' _ hv)
          (fun w' hw' => by
            simp only [Except.ok.injEq] at hw'; subst hw'
            obtain ⟨a', ha'⟩ := toBoolG_total C.N .and (hok.2 w rfl); exact ⟨_, ha'⟩)
          σ rows true hp hrv rfl)


/-! ## one element through the steps -/

/-- in every state in which the loop variable `i` holds the element `v0`, `cur` evaluates to `v` -/
def CurAt (C : Ctx D) (i : String) (v0 : Val D) (cur : CExpr) (v : Val D) : Prop :=
  ∀ σ : Env D, σ i = some (.val v0) → evalE C.N σ cur = .ok v

/-- the loop variable holds the element -/
def LoopVar (i : String) (v0 : Val D) : Env D → Prop := fun σ => σ i = some (.val v0)

theorem stable_loopVar (nm : Nat → String) (i : String) (v0 : Val D) (n : Nat) (hi : ∀ j, n ≤ j → i ≠ nm j) :
    Stable nm n (LoopVar (D := D) i v0) := by
  intro σ σ' hp h
  unfold LoopVar at *
  rw [h i hi]; exact hp

/-- **one element** — if the query sends element `v` through the steps successfully, the emitted
conditions (in reverse order) evaluate lazily to "kept / dropped" accordingly, and for a kept element
the final value expression evaluates to the query's value, with its static type. -/
theorem elem_correctL (C : Ctx D) (QC : QCtx D) (hN : QC.N = C.N) (nm : Nat → String) (hinj : ∀ i j, nm i = nm j → i = j)
    (ptr : Bool) (i : String) (v0 : Val D) (n0 : Nat) (hi : ∀ j, n0 ≤ j → i ≠ nm j) :
    ∀ (steps : List StepL) (cur : CExpr) (curTy : Option Ty) (v : Val D) (o : Option (Val D)),
      (∀ y ∈ vars cur, y = i) → CurAt C i v0 cur v → (∀ t, curTy = some t → HasTy v t) →
      wtStepsL curTy steps = true → MethTyped v (methsStepsL steps) → elemSemL QC steps v = .ok o →
      CondsEvalR (CondOK C nm (fun _ => True) (LoopVar i v0) n0) C.N (stepCondsL ptr cur curTy steps).1.reverse o.isSome ∧
      (∀ w, o = some w → CurAt C i v0 (stepCondsL ptr cur curTy steps).2.1 w ∧
          (∀ y ∈ vars (stepCondsL ptr cur curTy steps).2.1, y = i) ∧
          (∀ t, (stepCondsL ptr cur curTy steps).2.2 = some t → HasTy w t) ∧
          ((stepCondsL ptr cur curTy steps).2.2 = none → w = v ∧ curTy = none))
  | [], cur, curTy, v, o, hv, hcur, hty, _, _, hs => by
    simp only [elemSemL, Except.ok.injEq] at hs; subst hs
    simp only [stepCondsL, List.reverse_nil, Option.isSome_some]
    refine ⟨CondsEvalR.nil, fun w hw => ?_⟩
    simp only [Option.some.injEq] at hw; subst hw
    exact ⟨hcur, hv, hty, fun h => ⟨rfl, h⟩⟩
  | .sel f :: rest, cur, curTy, v, o, hv, hcur, hty, hwt, hm, hs => by
    simp only [wtStepsL, Bool.and_eq_true] at hwt
    simp only [elemSemL, peSem] at hs
    cases hd : denote QC [("x", v)] (peQ "x" f) with
    | error e => rw [hd] at hs; simp at hs
    | ok w' =>
      rw [hd] at hs
      simp only [] at hs
      have hpe : ∀ σ : Env D, σ i = some (.val v0) →
          evalE C.N σ (compPE (ptr && curTy.isNone) cur (curT curTy) f) = .ok w' ∧ HasTy w' (tyPE (curT curTy) f) := by
        intro σ hσ
        have := pe_correct QC σ cur curTy (ptr && curTy.isNone) v "x" [] (by rw [hN]; exact hcur σ hσ) hty f hwt.1
          (fun p hp => hm p (by simp [methsStepsL, hp]))
        exact ⟨by rw [← hN, this.1]; exact hd, this.2 w' hd⟩
      have hw'ty : HasTy w' (tyPE (curT curTy) f) := by
        have := pe_correct QC (fun y => if y = i then some (.val v0) else none) cur curTy (ptr && curTy.isNone) v "x" []
          (by rw [hN]; exact hcur _ (by simp)) hty f hwt.1 (fun p hp => hm p (by simp [methsStepsL, hp]))
        exact this.2 w' hd
      have ih := elem_correctL C QC hN nm hinj ptr i v0 n0 hi rest (compPE (ptr && curTy.isNone) cur (curT curTy) f)
        (some (tyPE (curT curTy) f)) w' o
        (fun y hy => hv y (vars_compPE _ _ _ f y hy))
        (fun σ hσ => (hpe σ hσ).1)
        (fun t ht => by simp only [Option.some.injEq] at ht; subst ht; exact hw'ty)
        hwt.2 (methTyped_of_hasTy hw'ty _) hs
      simp only [stepCondsL]
      refine ⟨ih.1, fun w hw => ?_⟩
      obtain ⟨h1, h2, h3, h4⟩ := ih.2 w hw
      refine ⟨h1, h2, h3, fun hn => ?_⟩
      have := (h4 hn).2
      simp at this
  | .whr c :: rest, cur, curTy, v, o, hv, hcur, hty, hwt, hm, hs => by
    simp only [wtStepsL, Bool.and_eq_true] at hwt
    simp only [elemSemL, leSem] at hs
    cases hd : denote QC [("x", v)] (leQ "x" c) with
    | error e => rw [hd] at hs; simp at hs
    | ok r0 =>
      rw [hd] at hs
      simp only [] at hs
      -- the condition is OK with outcome `r0`, compiled at any position
      have hok : CondOK C nm (fun _ => True) (LoopVar i v0) n0 ⟨ptr && curTy.isNone, cur, curTy.getD .double, c⟩ (.ok r0) := by
        constructor
        · intro k hk
          have hfr : ∀ y ∈ vars cur, ∀ j, k ≤ j → y ≠ nm j := fun y hy j hj => by rw [hv y hy]; exact hi j (by omega)
          have := (le_sound C QC hN nm hinj (ptr && curTy.isNone) cur curTy v "x" [] hty c k hwt.1
            (fun p hp => hm p (by simp [methsStepsL, hp])) hfr).1
          rw [hd] at this
          exact sound_weaken C nm _ this (fun σ hσ => hcur σ hσ) (fun _ _ => trivial)
        · intro w hw
          have hfr : ∀ y ∈ vars cur, ∀ j, n0 ≤ j → y ≠ nm j := fun y hy j hj => by rw [hv y hy]; exact hi j hj
          have := (le_sound C QC hN nm hinj (ptr && curTy.isNone) cur curTy v "x" [] hty c n0 hwt.1
            (fun p hp => hm p (by simp [methsStepsL, hp])) hfr).2
          simp only [Except.ok.injEq] at hw; subst hw
          exact this r0 hd
      simp only [stepCondsL, List.reverse_cons]
      cases hb : asBool QC.N r0 with
      | none => rw [hb] at hs; simp at hs
      | some b =>
        rw [hb] at hs
        have hb' : asBool C.N r0 = some b := by rw [← hN]; exact hb
        cases b with
        | false =>
          simp only [Except.ok.injEq] at hs; subst hs
          exact ⟨condsEvalR_snoc_false _ r0 hok hb' _, by simp⟩
        | true =>
          simp only [] at hs
          have ih := elem_correctL C QC hN nm hinj ptr i v0 n0 hi rest cur curTy v o hv hcur hty hwt.2
            (fun p hp => hm p (by simp [methsStepsL, hp])) hs
          exact ⟨condsEvalR_snoc_true _ r0 hok hb' _ _ ih.1, ih.2⟩

/-- the supply position the continuation of a chain's loop body starts from -/
def condsNext (nm : Nat → String) (ptr : Bool) (it : CExpr) (steps : List StepL) (n : Nat) : Nat :=
  (andLowerL nm (stepCondsL ptr it none steps).1.reverse n).1.next

theorem condsNext_ge (nm : Nat → String) (ptr : Bool) (it : CExpr) (steps : List StepL) (n : Nat) :
    n ≤ condsNext nm ptr it steps n := andLowerL_next_ge nm _ n

theorem bodyL_next (nm : Nat → String) (ptr : Bool) (it : CExpr) (steps : List StepL) (n : Nat)
    (K : CExpr → Option Ty → Nat → List Stmt × Nat) :
    (bodyL nm ptr it steps n K).2 =
      (K (stepCondsL ptr it none steps).2.1 (stepCondsL ptr it none steps).2.2 (condsNext nm ptr it steps n)).2 := by
  cases h : (stepCondsL ptr it none steps).1 with
  | nil => simp only [bodyL, condsNext, h, andLowerL, List.reverse_nil]
  | cons c cs => simp only [bodyL, condsNext, h]

/-- **loop body for one element** -/
theorem bodyL_correct (C : Ctx D) (QC : QCtx D) (hN : QC.N = C.N) (nm : Nat → String)
    (hinj : ∀ i j, nm i = nm j → i = j) (ptr : Bool) (i : String) (steps : List StepL) (n : Nat)
    (hi : ∀ j, n ≤ j → i ≠ nm j) (K : CExpr → Option Ty → Nat → List Stmt × Nat)
    (s : St D) (v : Val D) (o : Option (Val D))
    (hiv : s.env i = some (.val v)) (hwt : wtStepsL none steps = true)
    (hm : MethTyped v (methsStepsL steps)) (hs : elemSemL QC steps v = .ok o) :
    ∃ s1 : St D, s1.rows = s.rows ∧ Frame nm n (condsNext nm ptr (.var i) steps n) s.env s1.env ∧ Mono s.env s1.env ∧
      (o = none → execs C (bodyL nm ptr (.var i) steps n K).1 s = .ok s1) ∧
      (∀ w, o = some w →
          execs C (bodyL nm ptr (.var i) steps n K).1 s =
            execs C (K (stepCondsL ptr (.var i) none steps).2.1 (stepCondsL ptr (.var i) none steps).2.2
              (condsNext nm ptr (.var i) steps n)).1 s1 ∧
          evalE C.N s1.env (stepCondsL ptr (.var i) none steps).2.1 = .ok w ∧
          (∀ y ∈ vars (stepCondsL ptr (.var i) none steps).2.1, y = i) ∧
          (∀ t, (stepCondsL ptr (.var i) none steps).2.2 = some t → HasTy w t) ∧
          ((stepCondsL ptr (.var i) none steps).2.2 = none → w = v)) := by
  have hel := elem_correctL C QC hN nm hinj ptr i v n hi steps (.var i) none v o
    (by intro y hy; simpa [vars] using hy) (by intro σ hσ; simp [evalE, hσ]) (by simp) hwt hm hs
  have hst := stable_loopVar (D := D) nm i v n hi
  cases hc : (stepCondsL ptr (.var i) none steps).1 with
  | nil =>
    have hbody : bodyL nm ptr (.var i) steps n K =
        K (stepCondsL ptr (.var i) none steps).2.1 (stepCondsL ptr (.var i) none steps).2.2 n := by
      simp only [bodyL]; rw [hc]
    have hn1 : condsNext nm ptr (.var i) steps n = n := by simp [condsNext, hc, andLowerL]
    rw [hbody, hn1]
    refine ⟨s, rfl, Frame.refl nm n n s.env, Mono.refl s.env, ?_, ?_⟩
    · intro ho
      have h1 := hel.1
      rw [hc, ho] at h1
      cases h1
    · intro w hw
      obtain ⟨h1, h2, h3, h4⟩ := hel.2 w hw
      exact ⟨rfl, h1 s.env hiv, h2, h3, fun h => (h4 h).1⟩
  | cons c0 cs =>
    have hbody : (bodyL nm ptr (.var i) steps n K).1 =
        (andLowerL nm (c0 :: cs).reverse n).1.decls ++ (andLowerL nm (c0 :: cs).reverse n).1.stmts ++
          [.ite (andLowerL nm (c0 :: cs).reverse n).1.val
            (K (stepCondsL ptr (.var i) none steps).2.1 (stepCondsL ptr (.var i) none steps).2.2
              (andLowerL nm (c0 :: cs).reverse n).1.next).1 []] := by
      simp only [bodyL]; rw [hc]
    have hn1 : condsNext nm ptr (.var i) steps n = (andLowerL nm (c0 :: cs).reverse n).1.next := by
      simp only [condsNext]; rw [hc]
    rw [hbody, hn1]
    have hev := hel.1
    rw [hc] at hev
    obtain ⟨wc, hbc, _, hS⟩ := andLowerL_correct C nm (fun _ => True) (LoopVar i v) n hst (c0 :: cs).reverse n o.isSome
      (Nat.le_refl n) hev
    -- declarations, then the statements of the lowered condition
    obtain ⟨σd, hexd, hfrd, hmod, hdd⟩ := run_decls C nm n (andLowerL nm (c0 :: cs).reverse n).1.next
      (andLowerL nm (c0 :: cs).reverse n).1.decls s.env s.rows (andLowerL_decls nm _ n)
    have hpd : LoopVar i v σd := hst.frame (Nat.le_refl n) hiv hfrd
    obtain ⟨σ', hex, hfr, hmo, hval⟩ := agrees_ok C nm _ (hS σd s.rows hpd hdd)
    have hfr' : Frame nm n (andLowerL nm (c0 :: cs).reverse n).1.next s.env σ' :=
      hfrd.trans hfr (Nat.le_refl _) (Nat.le_refl _) (Nat.le_refl _) (Nat.le_refl _)
    have hpre : execs C ((andLowerL nm (c0 :: cs).reverse n).1.decls ++ (andLowerL nm (c0 :: cs).reverse n).1.stmts) s =
        .ok ⟨σ', s.rows⟩ := by
      rw [execs_append]
      rw [show s = ⟨s.env, s.rows⟩ from rfl, hexd]
      exact hex
    have hi' : σ' i = some (.val v) := hst.frame (Nat.le_refl n) hiv hfr'
    refine ⟨⟨σ', s.rows⟩, rfl, hfr', hmod.trans hmo, ?_, ?_⟩
    · intro ho
      rw [ho] at hbc
      rw [execs_append, hpre]
      simp only []
      rw [execs_single, exec_ite_of' C ⟨σ', s.rows⟩ _ _ _ wc false hval hbc]
      rfl
    · intro w hw
      rw [hw] at hbc
      obtain ⟨h1, h2, h3, h4⟩ := hel.2 w hw
      refine ⟨?_, h1 σ' hi', h2, h3, fun h => (h4 h).1⟩
      rw [execs_append, hpre]
      simp only []
      rw [execs_single, exec_ite_of' C ⟨σ', s.rows⟩ _ _ _ wc true hval hbc]
      rfl


/-! ## the columns of one row -/

theorem compColsL_next_ge (nm : Nat → String) (ptr : Bool) (cur : CExpr) (t : Ty) :
    ∀ (les : List LE) (n : Nat), n ≤ (compColsL nm ptr cur t les n).next
  | [], n => by simp [compColsL]
  | le :: rest, n => by
    have h1 := compLE_next_ge nm ptr cur t le n
    have h2 := compColsL_next_ge nm ptr cur t rest (compLE nm ptr cur t le n).next
    simp only [compColsL]; omega

theorem compColsL_decls (nm : Nat → String) (ptr : Bool) (cur : CExpr) (t : Ty) :
    ∀ (les : List LE) (n : Nat), ∀ d ∈ (compColsL nm ptr cur t les n).decls,
      LDecl d ∧ InRange nm n (compColsL nm ptr cur t les n).next (dname d)
  | [], n, d, h => by simp [compColsL] at h
  | le :: rest, n, d, h => by
    have h1 := compLE_next_ge nm ptr cur t le n
    have h2 := compColsL_next_ge nm ptr cur t rest (compLE nm ptr cur t le n).next
    simp only [compColsL, List.mem_append] at h ⊢
    rcases h with h | h
    · obtain ⟨j, hj1, hj2, hj3⟩ := compLE_decls_in nm ptr cur t le n d h
      exact ⟨compLE_ldecls nm ptr cur t le n d h, j, hj1, by omega, hj3⟩
    · obtain ⟨hl, j, hj1, hj2, hj3⟩ := compColsL_decls nm ptr cur t rest _ d h
      exact ⟨hl, j, by omega, hj2, hj3⟩

theorem compColsL_vals_vars (nm : Nat → String) (ptr : Bool) (cur : CExpr) (t : Ty) :
    ∀ (les : List LE) (n : Nat), ∀ e ∈ (compColsL nm ptr cur t les n).vals, ∀ y ∈ vars e, y ∈ vars cur ∨ ∃ j, y = nm j
  | [], n, e, h => by simp [compColsL] at h
  | le :: rest, n, e, h => by
    simp only [compColsL, List.mem_cons] at h
    intro y hy
    rcases h with h | h
    · subst h
      rcases compLE_val_vars nm ptr cur t le n y hy with h' | ⟨j, _, _, hj⟩
      · exact Or.inl h'
      · exact Or.inr ⟨j, hj⟩
    · exact compColsL_vals_vars nm ptr cur t rest _ e h y hy

theorem compColsL_vals_length (nm : Nat → String) (ptr : Bool) (cur : CExpr) (t : Ty) :
    ∀ (les : List LE) (n : Nat), (compColsL nm ptr cur t les n).vals.length = les.length
  | [], n => by simp [compColsL]
  | le :: rest, n => by simp [compColsL, compColsL_vals_length nm ptr cur t rest]

/-- the expressions evaluate, in order, to the values -/
def evalsTo (N : Num D) (σ : Env D) : List CExpr → List (Val D) → Prop
  | [], [] => True
  | e :: es, v :: vs => evalE N σ e = .ok v ∧ evalsTo N σ es vs
  | _, _ => False

theorem evalsTo_congr (N : Num D) (σ σ' : Env D) : ∀ (es : List CExpr) (vs : List (Val D)),
    (∀ e ∈ es, evalE N σ' e = evalE N σ e) → evalsTo N σ es vs → evalsTo N σ' es vs
  | [], [], _, _ => trivial
  | [], _ :: _, _, h => h
  | _ :: _, [], _, h => h
  | e :: es, v :: vs, hc, h => by
    simp only [evalsTo] at h ⊢
    exact ⟨by rw [hc e (by simp)]; exact h.1, evalsTo_congr N σ σ' es vs (fun e' he' => hc e' (by simp [he'])) h.2⟩

/-- **the columns of a row** — every column's statements in order; afterwards every column's value
expression evaluates to the value the query's column expression denotes -/
theorem colsL_correct (C : Ctx D) (QC : QCtx D) (hN : QC.N = C.N) (nm : Nat → String) (hinj : ∀ i j, nm i = nm j → i = j)
    (ptr : Bool) (cur : CExpr) (curTy : Option Ty) (w : Val D) (hty : ∀ t, curTy = some t → HasTy w t) :
    ∀ (les : List LE) (n : Nat) (row : List (Val D)),
      (∀ le ∈ les, wtLE curTy le = true) → (∀ le ∈ les, MethTyped w (methsLE le)) →
      (∀ y ∈ vars cur, ∀ j, n ≤ j → y ≠ nm j) → lesSem QC w les = .ok row →
      ∀ (σ : Env D) (rows : List (List (Val D))), CurIs C cur w σ →
        Declared σ (compColsL nm ptr cur (curT curTy) les n).decls →
        ∃ σ', execs C (compColsL nm ptr cur (curT curTy) les n).stmts ⟨σ, rows⟩ = .ok ⟨σ', rows⟩ ∧
          Frame nm n (compColsL nm ptr cur (curT curTy) les n).next σ σ' ∧ Mono σ σ' ∧
          evalsTo C.N σ' (compColsL nm ptr cur (curT curTy) les n).vals row
  | [], n, row, _, _, _, hrow, σ, rows, _, _ => by
    simp only [lesSem, Except.ok.injEq] at hrow; subst hrow
    exact ⟨σ, by simp [compColsL, execs], Frame.refl nm _ _ σ, Mono.refl σ, by simp [compColsL, evalsTo]⟩
  | le :: rest, n, row, hwt, hmt, hfr, hrow, σ, rows, hp, hd => by
    simp only [lesSem, leSem] at hrow
    cases h1 : denote QC [("x", w)] (leQ "x" le) with
    | error e => rw [h1] at hrow; simp at hrow
    | ok v0 =>
      rw [h1] at hrow; simp only [] at hrow
      cases h2 : lesSem QC w rest with
      | error e => rw [h2] at hrow; simp at hrow
      | ok vs =>
        rw [h2] at hrow; simp only [Except.ok.injEq] at hrow; subst hrow
        have hk := compLE_next_ge nm ptr cur (curT curTy) le n
        have hk2 := compColsL_next_ge nm ptr cur (curT curTy) rest (compLE nm ptr cur (curT curTy) le n).next
        simp only [compColsL] at hd ⊢
        have hS := (le_sound C QC hN nm hinj ptr cur curTy w "x" [] hty le n (hwt le (by simp)) (hmt le (by simp)) hfr).1
        rw [h1] at hS
        obtain ⟨σa, hexa, hfra, hmoa, hva⟩ := agrees_ok C nm _ (hS σ rows hp (fun d h => hd d (List.mem_append_left _ h)))
        have hst := stable_curIs C nm cur w n hfr
        have hpa : CurIs C cur w σa := hst.frame (Nat.le_refl n) hp hfra
        obtain ⟨σ', hex, hfr', hmo, hvs⟩ := colsL_correct C QC hN nm hinj ptr cur curTy w hty rest _ vs
          (fun l hl => hwt l (by simp [hl])) (fun l hl => hmt l (by simp [hl])) (fun y hy j hj => hfr y hy j (by omega)) h2
          σa rows hpa (Declared.mono (fun d h => hd d (List.mem_append_right _ h)) hmoa)
        refine ⟨σ', ?_, hfra.trans hfr' (Nat.le_refl _) (by omega) hk (Nat.le_refl _), hmoa.trans hmo, ?_, hvs⟩
        · rw [execs_append, hexa]; exact hex
        · rw [evalE_frame C.N nm _ hfr' (compLE_val_fresh nm hinj ptr cur (curT curTy) le n hfr)]
          exact hva

/-- the assignments of the branch variables, then reading them back in order -/
theorem setsOf_correct (C : Ctx D) (cn : Nat → String) (hcinj : ∀ i j, cn i = cn j → i = j) :
    ∀ (vals : List CExpr) (row : List (Val D)) (idx : Nat) (σ : Env D) (rows : List (List (Val D))),
      evalsTo C.N σ vals row → (∀ e ∈ vals, ∀ y ∈ vars e, ∀ k, y ≠ cn k) →
      (∀ k, idx ≤ k → k < idx + vals.length → (σ (cn k)).isSome = true) →
      ∃ σ', execs C (setsOf cn vals idx) ⟨σ, rows⟩ = .ok ⟨σ', rows⟩ ∧
        readCols σ' (colNames cn vals.length idx) = .ok row ∧
        (∀ y, (∀ k, idx ≤ k → y ≠ cn k) → σ' y = σ y) ∧ Mono σ σ'
  | [], [], idx, σ, rows, _, _, _ => ⟨σ, by simp [setsOf, execs], by simp [colNames, readCols], fun _ _ => rfl, Mono.refl σ⟩
  | [], _ :: _, _, _, _, h, _, _ => by simp [evalsTo] at h
  | _ :: _, [], _, _, _, h, _, _ => by simp [evalsTo] at h
  | e :: es, v :: vs, idx, σ, rows, h, hv, hd => by
    simp only [evalsTo] at h
    have hd0 := hd idx (Nat.le_refl _) (by simp)
    have hcong : ∀ e' ∈ es, evalE C.N (σ.set (cn idx) v) e' = evalE C.N σ e' := by
      intro e' he'
      apply evalE_congr
      intro y hy
      simp [Env.set, hv e' (by simp [he']) y hy idx]
    obtain ⟨σ', hex, hread, hfr, hmo⟩ := setsOf_correct C cn hcinj es vs (idx + 1) (σ.set (cn idx) v) rows
      (evalsTo_congr C.N σ _ es vs hcong h.2) (fun e' he' => hv e' (by simp [he']))
      (fun k hk1 hk2 => by
        have hne : cn k ≠ cn idx := fun e => by have := hcinj _ _ e; omega
        simp only [Env.set, hne, if_false]
        exact hd k (by omega) (by simp only [List.length_cons]; omega))
    refine ⟨σ', ?_, ?_, ?_, (Mono.set σ (cn idx) v).trans hmo⟩
    · simp only [setsOf, execs]
      rw [exec_set_ok' C ⟨σ, rows⟩ (cn idx) e v hd0 h.1]
      exact hex
    · simp only [List.length_cons, colNames, readCols]
      have : σ' (cn idx) = some (.val v) := by
        rw [hfr (cn idx) (fun k hk e => by have := hcinj _ _ e; omega)]
        simp [Env.set]
      rw [this, hread]
    · intro y hy
      rw [hfr y (fun k hk => hy k (by omega))]
      simp [Env.set, hy idx (Nat.le_refl _)]

/-- **one row** — declarations, the columns' statements, the assignments, the fill -/
theorem rowK_correct (C : Ctx D) (QC : QCtx D) (hN : QC.N = C.N) (B : Backend) (nm cn : Nat → String)
    (hinj : ∀ i j, nm i = nm j → i = j) (hcinj : ∀ i j, cn i = cn j → i = j) (hdisj : ∀ j k, nm j ≠ cn k)
    (les : List LE) (cur : CExpr) (ty : Option Ty) (w : Val D) (n : Nat)
    (hcols : C.cols = colNames cn les.length 0)
    (hcv : ∀ y ∈ vars cur, (∀ j, n ≤ j → y ≠ nm j) ∧ ∀ k, y ≠ cn k)
    (hty : ∀ t, ty = some t → HasTy w t)
    (hwt : ∀ le ∈ les, wtLE ty le = true) (hmt : ∀ le ∈ les, MethTyped w (methsLE le))
    (row : List (Val D)) (hrow : lesSem QC w les = .ok row)
    (s : St D) (hcur : evalE C.N s.env cur = .ok w)
    (hdecl : ∀ k, k < les.length → (s.env (cn k)).isSome = true) :
    ∃ s', execs C (rowK B nm cn les cur ty n).1 s = .ok s' ∧ s'.rows = s.rows ++ [row] ∧ Mono s.env s'.env := by
  let cf := compColsL nm (B.elemPtr && ty.isNone) cur (ty.getD .double) les n
  have hfr0 : ∀ y ∈ vars cur, ∀ j, n ≤ j → y ≠ nm j := fun y hy => (hcv y hy).1
  obtain ⟨σd, hexd, hfrd, hmod, hdd⟩ := run_decls C nm n cf.next cf.decls s.env s.rows
    (compColsL_decls nm _ cur _ les n)
  have hst := stable_curIs C nm cur w n hfr0
  have hpd : CurIs C cur w σd := hst.frame (Nat.le_refl n) hcur hfrd
  obtain ⟨σ1, hex1, hfr1, hmo1, hvals⟩ := colsL_correct C QC hN nm hinj (B.elemPtr && ty.isNone) cur ty w hty les n row
    hwt hmt hfr0 hrow σd s.rows hpd hdd
  have hlen : cf.vals.length = les.length := compColsL_vals_length nm _ cur _ les n
  obtain ⟨σ2, hex2, hread, _, hmo2⟩ := setsOf_correct C cn hcinj cf.vals row 0 σ1 s.rows hvals
    (by
      intro e he y hy k
      rcases compColsL_vals_vars nm _ cur _ les n e he y hy with h | ⟨j, hj⟩
      · exact (hcv y h).2 k
      · rw [hj]; exact hdisj j k)
    (by
      intro k _ hk
      exact hmo1 _ (hmod _ (hdecl k (by rw [hlen] at hk; omega))))
  refine ⟨⟨σ2, s.rows ++ [row]⟩, ?_, rfl, (hmod.trans hmo1).trans hmo2⟩
  show execs C (cf.decls ++ cf.stmts ++ setsOf cn cf.vals 0 ++ [.fill (B.fillTree B.treeName)]) s = _
  rw [execs_append, execs_append, execs_append]
  rw [show s = ⟨s.env, s.rows⟩ from rfl, hexd]
  simp only []
  rw [show (curT ty) = ty.getD .double from rfl] at hex1
  rw [hex1]
  simp only []
  rw [hex2]
  simp only [execs, exec, hcols]
  rw [← hlen, hread]

end FaxVerif.Gen
