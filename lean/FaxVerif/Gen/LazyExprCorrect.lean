/-
Gen — `le_sound`: the mutual induction over `LE` (and over the operand lists of n-ary and / or)
that instantiates the combinators of Gen/LazyCorrect.lean; `le_correct` / `le_faults` are its two
directions in plain form.
-/
import FaxVerif.Gen.LazyCorrect
namespace FaxVerif.Gen
open FaxVerif.Cpp FaxVerif.Linq
variable {D : Type}

/-! ## values -/

def LOp.msg : LOp → String
  | .and => "operand of and"
  | .or => "operand of or"

/-- does the next operand run, given the truth value so far? -/
def LOp.runs : LOp → Bool → Bool
  | .and, acc => acc
  | .or, acc => !acc

/-- the boolean an operand of and / or contributes (the query's `asBool`, the code's `static_cast<bool>`) -/
def toBoolG (N : Num D) (op : LOp) (w : Val D) : Except Fault (Val D) :=
  match asBool N w with
  | some b => .ok (.bool b)
  | none => .error (.typeErr op.msg)

theorem hasTy_asBool (N : Num D) {w : Val D} {t : Ty} (h : HasTy w t) : ∃ b, asBool N w = some b := by
  cases w <;> cases t <;> simp [HasTy, asBool] at h ⊢

theorem toBoolG_total (N : Num D) (op : LOp) {w : Val D} {t : Ty} (h : HasTy w t) : ∃ acc, toBoolG N op w = .ok (.bool acc) := by
  obtain ⟨b, hb⟩ := hasTy_asBool N h
  exact ⟨b, by simp [toBoolG, hb]⟩

theorem castIf_err (N : Num D) (σ : Env D) (need : Bool) (ty : String) (e : CExpr) (f : Fault)
    (h : evalE N σ e = .error f) : evalE N σ (castIf need ty e) = .error f := by
  cases need <;> simp [castIf, evalE, h]

theorem castB_ok (N : Num D) (op : LOp) (t : Ty) (w : Val D) (hw : HasTy w t) (σ : Env D) (e : CExpr)
    (h : evalE N σ e = .ok w) : evalE N σ (castIf (t != .bool) "bool" e) = toBoolG N op w := by
  obtain ⟨b, hb⟩ := hasTy_asBool N hw
  by_cases ht : t = .bool
  · subst ht
    obtain ⟨b', rfl⟩ := hasTy_bool hw
    simp [castIf, h, toBoolG, asBool]
  · have : (t != .bool) = true := by simp [ht]
    simp [this, castIf, evalE, h, castTo, toBoolG, hb]

theorem castD_ok (N : Num D) (t : Ty) (w : Val D) (hw : HasTy w t) (hfl : t.isFl = true) (σ : Env D) (e : CExpr)
    (h : evalE N σ e = .ok w) : evalE N σ (castIf (t != .double) "double" e) = .ok w := by
  cases t <;> simp [Ty.isFl] at hfl
  · cases w <;> simp [HasTy] at hw
    simp [castIf, evalE, h, castTo, asD]
  · simp [castIf, h]

theorem check_step (C : Ctx D) (op : LOp) (r : String) (body : List Stmt) (σ : Env D) (rows : List (List (Val D)))
    (acc : Bool) (hr : σ r = some (.val (.bool acc))) :
    exec C (.ite (op.check r) body []) ⟨σ, rows⟩ =
      (if op.runs acc then execs C body ⟨σ, rows⟩ else .ok ⟨σ, rows⟩) := by
  cases op <;> cases acc <;> simp [LOp.check, LOp.runs, exec, evalE, hr, asBool, unop, execs]

/-! ## the query side -/

theorem denote_bin (QC : QCtx D) (ρ : LEnv D) (op : String) (a b : Query) :
    denote QC ρ (.bin op a b) = strict2 (denote QC ρ a) (denote QC ρ b) (pyArith QC.N op) := by
  simp only [denote, strict2]
  cases denote QC ρ a with
  | error e => rfl
  | ok va => cases denote QC ρ b <;> rfl

theorem denote_cmp (QC : QCtx D) (ρ : LEnv D) (op : String) (a b : Query) :
    denote QC ρ (.cmp op a b) = strict2 (denote QC ρ a) (denote QC ρ b) (arith QC.N op) := by
  simp only [denote, strict2]
  cases denote QC ρ a with
  | error e => rfl
  | ok va => cases denote QC ρ b <;> rfl

theorem denote_neg (QC : QCtx D) (ρ : LEnv D) (a : Query) :
    denote QC ρ (.neg a) = strict1 (denote QC ρ a) (unop QC.N "-") := by
  simp only [denote, strict1]
  cases denote QC ρ a <;> rfl

theorem denote_not (QC : QCtx D) (ρ : LEnv D) (a : Query) :
    denote QC ρ (.not a) = strict1 (denote QC ρ a) (unop QC.N "!") := by
  simp only [denote, strict1]
  cases denote QC ρ a <;> rfl

theorem denote_ite (QC : QCtx D) (ρ : LEnv D) (c a b : Query) :
    denote QC ρ (.ite c a b) = iteRes QC.N (denote QC ρ c) (denote QC ρ a) (denote QC ρ b) := by
  simp only [denote, iteRes]
  cases denote QC ρ c with
  | error e => rfl
  | ok vc =>
    simp only []
    cases asBool QC.N vc with
    | none => rfl
    | some b => cases b <;> rfl

/-- one more operand of an and / or chain, the chain so far having the truth value `acc` -/
theorem denote_opq (QC : QCtx D) (ρ : LEnv D) (op : LOp) (accQ bQ : Query) (va : Val D) (acc : Bool)
    (h : denote QC ρ accQ = .ok va) (hb : asBool QC.N va = some acc) :
    denote QC ρ (op.q accQ bQ) =
      (if op.runs acc then strict1 (denote QC ρ bQ) (toBoolG QC.N op) else .ok (.bool acc)) := by
  cases op <;> cases acc <;> simp only [LOp.q, denote, h, hb, LOp.runs, strict1, toBoolG, LOp.msg] <;>
    simp <;> (cases denote QC ρ bQ with
      | error e => rfl
      | ok vb => simp only []; cases asBool QC.N vb <;> rfl)

theorem denote_opq_error (QC : QCtx D) (ρ : LEnv D) (op : LOp) (accQ bQ : Query) (e : Fault)
    (h : denote QC ρ accQ = .error e) : denote QC ρ (op.q accQ bQ) = .error e := by
  cases op <;> simp [LOp.q, denote, h]

theorem bopQ_error (QC : QCtx D) (ρ : LEnv D) (x : String) (op : LOp) (e : Fault) :
    ∀ (rest : List LE) (accQ : Query), denote QC ρ accQ = .error e → denote QC ρ (bopQ x op accQ rest) = .error e
  | [], accQ, h => by simpa [bopQ] using h
  | b :: bs, accQ, h => by
    simp only [bopQ]
    exact bopQ_error QC ρ x op e bs _ (denote_opq_error QC ρ op accQ _ e h)

theorem denote_opq_bool (QC : QCtx D) (ρ : LEnv D) (op : LOp) (accQ bQ : Query) (w : Val D)
    (h : denote QC ρ (op.q accQ bQ) = .ok w) : ∃ b, w = .bool b := by
  cases op <;> simp only [LOp.q, denote] at h <;>
  (cases ha : denote QC ρ accQ with
    | error e => rw [ha] at h; simp at h
    | ok va =>
      rw [ha] at h; simp only [] at h
      cases hb : asBool QC.N va with
      | none => rw [hb] at h; simp at h
      | some acc =>
        rw [hb] at h
        cases acc <;> simp only [] at h
        all_goals first
          | (simp only [Except.ok.injEq] at h; exact ⟨_, h.symm⟩)
          | (cases hd : denote QC ρ bQ with
              | error e => rw [hd] at h; simp at h
              | ok vb =>
                rw [hd] at h; simp only [] at h
                cases hvb : asBool QC.N vb with
                | none => rw [hvb] at h; simp at h
                | some r => rw [hvb] at h; simp only [Except.ok.injEq] at h; exact ⟨_, h.symm⟩))

/-- an and / or chain denotes a boolean -/
theorem bopQ_bool (QC : QCtx D) (ρ : LEnv D) (x : String) (op : LOp) :
    ∀ (rest : List LE) (accQ : Query) (w : Val D), (rest = [] → ∀ va, denote QC ρ accQ = .ok va → ∃ b, va = .bool b) →
      denote QC ρ (bopQ x op accQ rest) = .ok w → ∃ b, w = .bool b
  | [], accQ, w, h0, h => by
    simp only [bopQ] at h
    exact h0 rfl w h
  | b :: bs, accQ, w, _, h => by
    simp only [bopQ] at h
    exact bopQ_bool QC ρ x op bs _ w (fun _ va hva => denote_opq_bool QC ρ op accQ _ va hva) h

theorem denote_opq_congr (QC : QCtx D) (ρ : LEnv D) (op : LOp) (q1 q2 bQ : Query)
    (h : denote QC ρ q1 = denote QC ρ q2) : denote QC ρ (op.q q1 bQ) = denote QC ρ (op.q q2 bQ) := by
  cases op <;> simp only [LOp.q, denote, h]

theorem bopQ_congr' (QC : QCtx D) (ρ : LEnv D) (x : String) (op : LOp) :
    ∀ (rest : List LE) (q1 q2 : Query), denote QC ρ q1 = denote QC ρ q2 →
      denote QC ρ (bopQ x op q1 rest) = denote QC ρ (bopQ x op q2 rest)
  | [], q1, q2, h => by simpa [bopQ] using h
  | b :: bs, q1, q2, h => by
    simp only [bopQ]
    exact bopQ_congr' QC ρ x op bs _ _ (denote_opq_congr QC ρ op q1 q2 _ h)

/-- the chain depends on the first operand only through its truth value (when there is a second operand) -/
theorem bopQ_congr (QC : QCtx D) (ρ : LEnv D) (x : String) (op : LOp) (rest : List LE) (q1 q2 : Query)
    (v1 v2 : Val D) (acc : Bool) (h1 : denote QC ρ q1 = .ok v1) (h2 : denote QC ρ q2 = .ok v2)
    (hb1 : asBool QC.N v1 = some acc) (hb2 : asBool QC.N v2 = some acc) (hnil : rest = [] → v1 = v2) :
    denote QC ρ (bopQ x op q1 rest) = denote QC ρ (bopQ x op q2 rest) := by
  cases rest with
  | nil => simp only [bopQ, h1, h2, hnil rfl]
  | cons b bs =>
    simp only [bopQ]
    apply bopQ_congr'
    rw [denote_opq QC ρ op q1 _ v1 acc h1 hb1, denote_opq QC ρ op q2 _ v2 acc h2 hb2]

/-! ## arithmetic on typed values is total -/

theorem pyArith_total (N : Num D) (op : AOp) (va vb : Val D) (ta tb : Ty)
    (ha : HasTy va ta) (hb : HasTy vb tb) (hna : ta.isNum = true) (hnb : tb.isNum = true) :
    ∃ w, pyArith N op.str va vb = .ok w := by
  rcases hasTy_num ha hna with ⟨x, rfl, _⟩ | ⟨x, rfl, _⟩ <;>
  rcases hasTy_num hb hnb with ⟨y, rfl, _⟩ | ⟨y, rfl, _⟩ <;>
  cases op <;> simp [pyArith, arith, asInt, asD, AOp.str]

theorem cmp_total (N : Num D) (op : COp) (va vb : Val D) (ta tb : Ty)
    (ha : HasTy va ta) (hb : HasTy vb tb) (hna : ta.isNum = true) (hnb : tb.isNum = true) :
    ∃ w, arith N op.str va vb = .ok w := by
  rcases hasTy_num ha hna with ⟨x, rfl, _⟩ | ⟨x, rfl, _⟩ <;>
  rcases hasTy_num hb hnb with ⟨y, rfl, _⟩ | ⟨y, rfl, _⟩ <;>
  cases op <;> simp [arith, asInt, asD, COp.str]

theorem neg_total (N : Num D) (w : Val D) (t : Ty) (h : HasTy w t) (hn : t.isNum = true) :
    ∃ w', unop N "-" w = .ok w' ∧ HasTy w' t := by
  rcases hasTy_num h hn with ⟨x, rfl, rfl⟩ | ⟨x, rfl, ht⟩
  · exact ⟨.int (-x), by simp [unop], by simp [HasTy]⟩
  · exact ⟨.dbl (N.neg x), by simp [unop], by rcases ht with rfl | rfl <;> simp [HasTy]⟩

theorem not_total (N : Num D) (w : Val D) (h : HasTy w .bool) : ∃ w', unop N "!" w = .ok w' ∧ HasTy w' .bool := by
  obtain ⟨b, rfl⟩ := hasTy_bool h
  exact ⟨.bool (!b), by simp [unop, asBool], by simp [HasTy]⟩

/-! ## the value expression of a binary arithmetic operator (with the int/int division cast) -/

def binV (op : AOp) (ta tb : Ty) (a b : CExpr) : CExpr :=
  if op = .div ∧ ta.join tb = .int then .bin "/" (.cast "double" a) b else .bin op.str a b

theorem binV_err_a (N : Num D) (σ : Env D) (op : AOp) (ta tb : Ty) (a b : CExpr) (f : Fault)
    (h : evalE N σ a = .error f) : evalE N σ (binV op ta tb a b) = .error f := by
  unfold binV
  split
  · rw [evalE_bin_arith _ _ _ (by simp) (by simp)]; simp [evalE, h]
  · rw [evalE_bin_arith _ _ _ (aop_not_logic op).1 (aop_not_logic op).2]; simp [h]

theorem binV_err_b (N : Num D) (σ : Env D) (op : AOp) (ta tb : Ty) (a b : CExpr) (wa : Val D) (f : Fault)
    (hwa : HasTy wa ta) (hna : ta.isNum = true)
    (ha : evalE N σ a = .ok wa) (hb : evalE N σ b = .error f) : evalE N σ (binV op ta tb a b) = .error f := by
  unfold binV
  split
  · rw [evalE_bin_arith _ _ _ (by simp) (by simp)]
    rcases hasTy_num hwa hna with ⟨x, rfl, _⟩ | ⟨x, rfl, _⟩ <;> simp [evalE, ha, hb, castTo, asD]
  · rw [evalE_bin_arith _ _ _ (aop_not_logic op).1 (aop_not_logic op).2]; simp [ha, hb]

theorem binV_ok (N : Num D) (σ : Env D) (op : AOp) (ta tb : Ty) (a b : CExpr) (wa wb : Val D)
    (hwa : HasTy wa ta) (hwb : HasTy wb tb) (hna : ta.isNum = true) (hnb : tb.isNum = true)
    (ha : evalE N σ a = .ok wa) (hb : evalE N σ b = .ok wb) :
    evalE N σ (binV op ta tb a b) = pyArith N op.str wa wb := by
  unfold binV
  by_cases hdiv : op = .div
  · subst hdiv
    have hd := (div_num N wa wb ta tb hwa hwb hna hnb).1
    by_cases hj : ta.join tb = .int
    · simp only [hj, and_self, if_true] at hd ⊢
      rw [evalE_bin_arith _ _ _ (by simp) (by simp)]
      simp only [evalE, ha, hb]
      simp only [AOp.str]
      rw [← hd]
      cases castTo N "double" wa <;> rfl
    · simp only [hj, and_false, if_false] at hd ⊢
      rw [evalE_bin_arith _ _ _ (by simp [AOp.str]) (by simp [AOp.str])]
      simp only [ha, hb, AOp.str]
      exact hd
  · have hne : ¬ (op = .div ∧ ta.join tb = .int) := fun h => hdiv h.1
    simp only [hne, if_false]
    rw [evalE_bin_arith _ _ _ (aop_not_logic op).1 (aop_not_logic op).2]
    simp only [ha, hb]
    exact (arith_num N op hdiv wa wb ta tb hwa hwb hna hnb).1

theorem bin_typed (N : Num D) (cur : Ty) (op : AOp) (a b : LE) (wa wb w : Val D)
    (hwa : HasTy wa (tyLE cur a)) (hwb : HasTy wb (tyLE cur b))
    (hna : (tyLE cur a).isNum = true) (hnb : (tyLE cur b).isNum = true)
    (h : pyArith N op.str wa wb = .ok w) : HasTy w (tyLE cur (.bin op a b)) := by
  by_cases hdiv : op = .div
  · subst hdiv
    simp only [tyLE]
    exact (div_num N wa wb _ _ hwa hwb hna hnb).2 w h
  · have hty' : tyLE cur (.bin op a b) = (tyLE cur a).join (tyLE cur b) := by
      cases op <;> simp [tyLE] at hdiv ⊢
    rw [hty']
    have := arith_num N op hdiv wa wb _ _ hwa hwb hna hnb
    exact this.2 w (by rw [this.1]; exact h)


/-! ## the induction -/

/-- the faults an element-level expression can raise: a member call on the element failed -/
def ElemFault (v : Val D) (f : Fault) : Prop := ∃ name, member v name [] = .error f

/-- the current-value expression evaluates to `v` -/
def CurIs (C : Ctx D) (cur : CExpr) (v : Val D) : Env D → Prop := fun σ => evalE C.N σ cur = .ok v

theorem stable_curIs (C : Ctx D) (nm : Nat → String) (cur : CExpr) (v : Val D) (k : Nat)
    (hfr : ∀ y ∈ vars cur, ∀ j, k ≤ j → y ≠ nm j) : Stable nm k (CurIs C cur v) := by
  intro σ σ' hp h
  unfold CurIs at *
  rw [← hp]
  apply evalE_congr
  intro y hy
  exact h y (hfr y hy)

theorem match_refl (EF : Fault → Prop) (r : Except Fault (Val D)) (h : ∀ f, r = .error f → EF f) : Match EF r r := by
  cases r with
  | ok w => rfl
  | error f => exact ⟨f, rfl, h f rfl⟩

theorem methTyped_left {v : Val D} {a b : List (String × Ty)} (h : MethTyped v (a ++ b)) : MethTyped v a :=
  fun p hp => h p (List.mem_append_left _ hp)

theorem methTyped_right {v : Val D} {a b : List (String × Ty)} (h : MethTyped v (a ++ b)) : MethTyped v b :=
  fun p hp => h p (List.mem_append_right _ hp)

theorem strict2_ok {ra rb : Except Fault (Val D)} {g : Val D → Val D → Except Fault (Val D)} {w : Val D}
    (h : strict2 ra rb g = .ok w) : ∃ wa wb, ra = .ok wa ∧ rb = .ok wb ∧ g wa wb = .ok w := by
  cases ra with
  | error e => simp [strict2] at h
  | ok wa => cases rb with
    | error e => simp [strict2] at h
    | ok wb => exact ⟨wa, wb, rfl, rfl, h⟩

theorem strict1_ok {ra : Except Fault (Val D)} {g : Val D → Except Fault (Val D)} {w : Val D}
    (h : strict1 ra g = .ok w) : ∃ wa, ra = .ok wa ∧ g wa = .ok w := by
  cases ra with
  | error e => simp [strict1] at h
  | ok wa => exact ⟨wa, rfl, h⟩

theorem agreesR_weaken (C : Ctx D) (nm : Nat → String) (EF : Fault → Prop) {lo hi lo' hi' : Nat} {r : String}
    {ss : List Stmt} {σ : Env D} {rows : List (List (Val D))} {res : Except Fault (Val D)}
    (h : AgreesR C nm EF lo hi r ss σ rows res) (h1 : lo' ≤ lo) (h2 : hi ≤ hi') :
    AgreesR C nm EF lo' hi' r ss σ rows res := by
  rcases h with h | ⟨σ', w, hw, hex, hrv, hfr, hmo⟩
  · exact Or.inl h
  · exact Or.inr ⟨σ', w, hw, hex, hrv, fun y hy1 hy2 => hfr y hy1 (fun ⟨j, hj1, hj2, hj3⟩ => hy2 ⟨j, by omega, by omega, hj3⟩), hmo⟩

mutual
  /-- **lazy expressions** — both directions, frame and typing; see the file header. -/
  theorem le_sound (C : Ctx D) (QC : QCtx D) (hN : QC.N = C.N) (nm : Nat → String) (hinj : ∀ i j, nm i = nm j → i = j)
      (ptr : Bool) (cur : CExpr) (curTy : Option Ty) (v : Val D) (x : String) (ρ : LEnv D)
      (hty : ∀ t, curTy = some t → HasTy v t) :
      ∀ (le : LE) (k : Nat), wtLE curTy le = true → MethTyped v (methsLE le) →
        (∀ y ∈ vars cur, ∀ j, k ≤ j → y ≠ nm j) →
        Sound C nm (ElemFault v) (CurIs C cur v) k (compLE nm ptr cur (curT curTy) le k)
          (denote QC ((x, v) :: ρ) (leQ x le)) ∧
        (∀ w, denote QC ((x, v) :: ρ) (leQ x le) = .ok w → HasTy w (tyLE (curT curTy) le))
    | .int n, k, _, _, _ => by
      refine ⟨sound_pure C nm _ _ k _ _ rfl (fun σ _ => ?_), ?_⟩
      · simp [compLE, leQ, denote, evalE, Match]
      · simp [leQ, denote, tyLE, HasTy]
    | .dbl m e, k, _, _, _ => by
      refine ⟨sound_pure C nm _ _ k _ _ rfl (fun σ _ => ?_), ?_⟩
      · simp [compLE, leQ, denote, evalE, Match, hN]
      · simp [leQ, denote, tyLE, HasTy]
    | .bool b, k, _, _, _ => by
      refine ⟨sound_pure C nm _ _ k _ _ rfl (fun σ _ => ?_), ?_⟩
      · simp [compLE, leQ, denote, evalE, Match]
      · simp [leQ, denote, tyLE, HasTy]
    | .it, k, hwt, _, _ => by
      simp only [wtLE, Option.isSome_iff_exists] at hwt
      obtain ⟨t, ht⟩ := hwt
      refine ⟨sound_pure C nm _ _ k _ _ rfl (fun σ hp => ?_), ?_⟩
      · have : evalE C.N σ cur = .ok v := hp
        simp [compLE, leQ, denote, LEnv.get, Match, this]
      · intro w hw
        simp only [leQ, denote, LEnv.get, if_true, Except.ok.injEq] at hw
        subst hw
        simpa [tyLE, curT, ht] using hty t ht
    | .meth name ty, k, _, hmt, _ => by
      refine ⟨sound_pure C nm _ _ k _ _ rfl (fun σ hp => ?_), ?_⟩
      · have hc : evalE C.N σ cur = .ok v := hp
        have : evalE C.N σ (compLE nm ptr cur (curT curTy) (.meth name ty) k).val = member v name [] := by
          simp [compLE, evalE, hc, evalEs]
        rw [this]
        simp only [leQ, denote, LEnv.get, if_true]
        exact match_refl _ _ (fun f hf => ⟨name, hf⟩)
      · intro w hw
        simp only [leQ, denote, LEnv.get, if_true] at hw
        exact hmt (name, ty) (by simp [methsLE]) w hw
    | .bin op a b, k, hwt, hmt, hfr => by
      simp only [wtLE, Bool.and_eq_true] at hwt
      obtain ⟨⟨⟨hwa, hwb⟩, hna⟩, hnb⟩ := hwt
      simp only [methsLE] at hmt
      have hka := compLE_next_ge nm ptr cur (curT curTy) a k
      have hkb := compLE_next_ge nm ptr cur (curT curTy) b (compLE nm ptr cur (curT curTy) a k).next
      have iha := le_sound C QC hN nm hinj ptr cur curTy v x ρ hty a k hwa (methTyped_left hmt) hfr
      have ihb := le_sound C QC hN nm hinj ptr cur curTy v x ρ hty b (compLE nm ptr cur (curT curTy) a k).next hwb (methTyped_right hmt)
        (fun y hy j hj => hfr y hy j (by omega))
      have hst := stable_curIs C nm cur v k hfr
      have hvf := compLE_val_fresh nm hinj ptr cur (curT curTy) a k hfr
      simp only [compLE, leQ]
      rw [denote_bin]
      refine ⟨sound_bin C nm _ _ k hst _ _ _ _ _ _ hka hkb iha.1 ihb.1 hvf ?_ ?_ ?_ ?_, ?_⟩
      · intro σ f h; exact binV_err_a C.N σ op _ _ _ _ f h
      · intro σ wa f hra h1 h2; exact binV_err_b C.N σ op _ _ _ _ wa f (iha.2 wa hra) hna h1 h2
      · intro σ wa wb hra hrb h1 h2
        rw [hN]
        exact binV_ok C.N σ op _ _ _ _ wa wb (iha.2 wa hra) (ihb.2 wb hrb) hna hnb h1 h2
      · intro wa wb hra hrb
        exact pyArith_total QC.N op wa wb _ _ (iha.2 wa hra) (ihb.2 wb hrb) hna hnb
      · intro w hw
        obtain ⟨wa, wb, hra, hrb, hg⟩ := strict2_ok hw
        exact bin_typed QC.N _ op a b wa wb w (iha.2 wa hra) (ihb.2 wb hrb) hna hnb hg
    | .cmp op a b, k, hwt, hmt, hfr => by
      simp only [wtLE, Bool.and_eq_true] at hwt
      obtain ⟨⟨⟨hwa, hwb⟩, hna⟩, hnb⟩ := hwt
      simp only [methsLE] at hmt
      have hka := compLE_next_ge nm ptr cur (curT curTy) a k
      have hkb := compLE_next_ge nm ptr cur (curT curTy) b (compLE nm ptr cur (curT curTy) a k).next
      have iha := le_sound C QC hN nm hinj ptr cur curTy v x ρ hty a k hwa (methTyped_left hmt) hfr
      have ihb := le_sound C QC hN nm hinj ptr cur curTy v x ρ hty b (compLE nm ptr cur (curT curTy) a k).next hwb (methTyped_right hmt)
        (fun y hy j hj => hfr y hy j (by omega))
      have hst := stable_curIs C nm cur v k hfr
      have hvf := compLE_val_fresh nm hinj ptr cur (curT curTy) a k hfr
      simp only [compLE, leQ]
      rw [denote_cmp]
      refine ⟨sound_bin C nm _ _ k hst _ _ _ _ _ _ hka hkb iha.1 ihb.1 hvf ?_ ?_ ?_ ?_, ?_⟩
      · intro σ f h
        rw [evalE_bin_arith _ _ _ (cop_not_logic op).1 (cop_not_logic op).2]; simp [h]
      · intro σ wa f _ h1 h2
        rw [evalE_bin_arith _ _ _ (cop_not_logic op).1 (cop_not_logic op).2]; simp [h1, h2]
      · intro σ wa wb _ _ h1 h2
        rw [evalE_bin_arith _ _ _ (cop_not_logic op).1 (cop_not_logic op).2]; simp [h1, h2, hN]
      · intro wa wb hra hrb
        exact cmp_total QC.N op wa wb _ _ (iha.2 wa hra) (ihb.2 wb hrb) hna hnb
      · intro w hw
        obtain ⟨wa, wb, hra, hrb, hg⟩ := strict2_ok hw
        exact cmp_num QC.N op wa wb _ _ (iha.2 wa hra) (ihb.2 wb hrb) hna hnb w hg
    | .neg a, k, hwt, hmt, hfr => by
      simp only [wtLE, Bool.and_eq_true] at hwt
      simp only [methsLE] at hmt
      have iha := le_sound C QC hN nm hinj ptr cur curTy v x ρ hty a k hwt.1 hmt hfr
      simp only [compLE, leQ]
      rw [denote_neg]
      refine ⟨sound_un C nm _ _ k _ _ _ _ iha.1 ?_ ?_ ?_, ?_⟩
      · intro σ f h; simp [evalE, h]
      · intro σ wa _ h; simp [evalE, h, hN]
      · intro wa hra
        obtain ⟨w', hw', _⟩ := neg_total QC.N wa _ (iha.2 wa hra) hwt.2
        exact ⟨w', hw'⟩
      · intro w hw
        obtain ⟨wa, hra, hg⟩ := strict1_ok hw
        obtain ⟨w', hw', hty'⟩ := neg_total QC.N wa _ (iha.2 wa hra) hwt.2
        rw [hw'] at hg
        simp only [Except.ok.injEq] at hg
        subst hg
        simpa [tyLE] using hty'
    | .not a, k, hwt, hmt, hfr => by
      simp only [wtLE, Bool.and_eq_true, beq_iff_eq] at hwt
      simp only [methsLE] at hmt
      have iha := le_sound C QC hN nm hinj ptr cur curTy v x ρ hty a k hwt.1 hmt hfr
      simp only [compLE, leQ]
      rw [denote_not]
      refine ⟨sound_un C nm _ _ k _ _ _ _ iha.1 ?_ ?_ ?_, ?_⟩
      · intro σ f h; simp [evalE, h]
      · intro σ wa _ h; simp [evalE, h, hN]
      · intro wa hra
        obtain ⟨w', hw', _⟩ := not_total QC.N wa (hwt.2 ▸ iha.2 wa hra)
        exact ⟨w', hw'⟩
      · intro w hw
        obtain ⟨wa, hra, hg⟩ := strict1_ok hw
        obtain ⟨w', hw', hty'⟩ := not_total QC.N wa (hwt.2 ▸ iha.2 wa hra)
        rw [hw'] at hg
        simp only [Except.ok.injEq] at hg
        subst hg
        simpa [tyLE, hwt.2] using hty'
    | .bop op a rest, k, hwt, hmt, hfr => by
      simp only [wtLE, Bool.and_eq_true, Bool.or_eq_true, Bool.not_eq_true', beq_iff_eq] at hwt
      obtain ⟨⟨hwa, hwr⟩, hne⟩ := hwt
      simp only [methsLE] at hmt
      have hka := compLE_next_ge nm ptr cur (curT curTy) a (k + 1)
      have hkr := compRest_next_ge nm ptr cur (curT curTy) (nm k) op rest (compLE nm ptr cur (curT curTy) a (k + 1)).next
      have iha := le_sound C QC hN nm hinj ptr cur curTy v x ρ hty a (k + 1) hwa (methTyped_left hmt)
        (fun y hy j hj => hfr y hy j (by omega))
      have ihr := rest_sound C QC hN nm hinj ptr cur curTy v x ρ hty rest (compLE nm ptr cur (curT curTy) a (k + 1)).next k op
        hwr (methTyped_right hmt) hfr (by omega)
      have hst := stable_curIs C nm cur v k hfr
      simp only [compLE, leQ]
      refine ⟨sound_bop C nm _ _ k hst _ _ _ _ (toBoolG QC.N op) _
          (fun acc => denote QC ((x, v) :: ρ) (bopQ x op (.bool acc) rest)) _ hka hkr iha.1 ?_ ?_ ?_ ?_ ?_ ?_, ?_⟩
      · intro σ' f h; exact castIf_err C.N σ' _ _ _ f h
      · intro σ' w hra h
        rw [hN]
        exact castB_ok C.N op _ w (iha.2 w hra) σ' _ h
      · intro w hra; exact toBoolG_total QC.N op (iha.2 w hra)
      · intro σ rows acc _ hp hrv
        exact ihr (.bool acc) (.bool acc) acc σ rows (by simp [denote]) (by simp [asBool]) (fun _ => rfl) hp hrv
      · intro e he
        obtain ⟨e', he'⟩ : IsErr (denote QC ((x, v) :: ρ) (leQ x a)) := by
          cases hra : denote QC ((x, v) :: ρ) (leQ x a) with
          | error e' => exact ⟨e', rfl⟩
          | ok wa =>
            obtain ⟨acc, hacc⟩ := toBoolG_total QC.N op (iha.2 wa hra)
            rw [hra] at he
            simp [strict1, hacc] at he
        exact ⟨e', bopQ_error QC _ x op e' rest _ he'⟩
      · intro acc hacc
        obtain ⟨wa, hra, hg⟩ := strict1_ok hacc
        obtain ⟨b0, hb0⟩ := hasTy_asBool QC.N (iha.2 wa hra)
        have hb0' : b0 = acc := by simpa [toBoolG, hb0] using hg
        subst hb0'
        -- the chain continues from the truth value of the first operand
        exact bopQ_congr QC ((x, v) :: ρ) x op rest (leQ x a) (.bool b0) wa (.bool b0) b0 hra (by simp [denote]) hb0 (by simp [asBool])
          (fun hnil => by
            rcases hne with h | h
            · simp [hnil] at h
            · have := iha.2 wa hra
              rw [h] at this
              obtain ⟨b', rfl⟩ := hasTy_bool this
              simp [asBool] at hb0
              subst hb0; rfl)
      · intro w hw
        have : ∃ b, w = .bool b := bopQ_bool QC _ x op rest _ w (fun hnil va hva => by
          rcases hne with h | h
          · simp [hnil] at h
          · have := iha.2 va hva
            rw [h] at this
            exact hasTy_bool this) hw
        obtain ⟨b, rfl⟩ := this
        simp [tyLE, HasTy]
    | .ite c a b, k, hwt, hmt, hfr => by
      simp only [wtLE, Bool.and_eq_true] at hwt
      obtain ⟨⟨⟨⟨hwc, hwa⟩, hwb⟩, hfa⟩, hfb⟩ := hwt
      simp only [methsLE] at hmt
      have hkc := compLE_next_ge nm ptr cur (curT curTy) c (k + 1)
      have hka := compLE_next_ge nm ptr cur (curT curTy) a (compLE nm ptr cur (curT curTy) c (k + 1)).next
      have hkb := compLE_next_ge nm ptr cur (curT curTy) b (compLE nm ptr cur (curT curTy) a (compLE nm ptr cur (curT curTy) c (k + 1)).next).next
      have ihc := le_sound C QC hN nm hinj ptr cur curTy v x ρ hty c (k + 1) hwc (methTyped_left hmt)
        (fun y hy j hj => hfr y hy j (by omega))
      have iha := le_sound C QC hN nm hinj ptr cur curTy v x ρ hty a (compLE nm ptr cur (curT curTy) c (k + 1)).next hwa
        (methTyped_left (methTyped_right hmt)) (fun y hy j hj => hfr y hy j (by omega))
      have ihb := le_sound C QC hN nm hinj ptr cur curTy v x ρ hty b
        (compLE nm ptr cur (curT curTy) a (compLE nm ptr cur (curT curTy) c (k + 1)).next).next hwb
        (methTyped_right (methTyped_right hmt)) (fun y hy j hj => hfr y hy j (by omega))
      have hst := stable_curIs C nm cur v k hfr
      simp only [compLE, leQ]
      rw [denote_ite, hN]
      have hres : ∀ (r : Except Fault (Val D)), strict1 r (fun w => .ok w) = r := strict1_pure
      rw [← hres (denote QC ((x, v) :: ρ) (leQ x a)), ← hres (denote QC ((x, v) :: ρ) (leQ x b))]
      refine ⟨sound_ite C nm _ _ k hst hinj "double" _ _ _ _ _ _ _ _ _ _ hkc hka hkb ihc.1 iha.1 ihb.1
          (fun d hd => ⟨compLE_ldecls nm ptr cur _ a _ d hd, compLE_decls_in nm ptr cur _ a _ d hd⟩)
          (fun d hd => ⟨compLE_ldecls nm ptr cur _ b _ d hd, compLE_decls_in nm ptr cur _ b _ d hd⟩)
          ?_ ?_ ?_ ?_ ?_ ?_ ?_, ?_⟩
      · intro vc hvc
        rw [← hN]
        exact hasTy_asBool QC.N (ihc.2 vc hvc)
      · intro σ' f h; exact castIf_err C.N σ' _ _ _ f h
      · intro σ' w hra h; exact castD_ok C.N _ w (iha.2 w hra) hfa σ' _ h
      · intro w _; exact ⟨w, rfl⟩
      · intro σ' f h; exact castIf_err C.N σ' _ _ _ f h
      · intro σ' w hrb h; exact castD_ok C.N _ w (ihb.2 w hrb) hfb σ' _ h
      · intro w _; exact ⟨w, rfl⟩
      · intro w hw
        rw [hres, hres] at hw
        -- the value is the value of the taken arm, which is floating
        have harm : ∀ (t : Ty) (w : Val D), HasTy w t → t.isFl = true → HasTy w .double := by
          intro t w h1 h2
          cases t <;> simp [Ty.isFl] at h2 <;> cases w <;> simp [HasTy] at h1 ⊢
        simp only [iteRes] at hw
        cases hrc : denote QC ((x, v) :: ρ) (leQ x c) with
        | error e => rw [hrc] at hw; simp at hw
        | ok vc =>
          rw [hrc] at hw; simp only [] at hw
          cases hbc : asBool C.N vc with
          | none => rw [hbc] at hw; simp at hw
          | some bb =>
            rw [hbc] at hw
            cases bb with
            | true => simp only [] at hw; simpa [tyLE] using harm _ w (iha.2 w hw) hfa
            | false => simp only [] at hw; simpa [tyLE] using harm _ w (ihb.2 w hw) hfb
  /-- the guarded steps of the operands after the first, from a state in which the result
  variable `nm n0` holds the truth value `acc` of the chain so far -/
  theorem rest_sound (C : Ctx D) (QC : QCtx D) (hN : QC.N = C.N) (nm : Nat → String) (hinj : ∀ i j, nm i = nm j → i = j)
      (ptr : Bool) (cur : CExpr) (curTy : Option Ty) (v : Val D) (x : String) (ρ : LEnv D)
      (hty : ∀ t, curTy = some t → HasTy v t) :
      ∀ (rest : List LE) (k n0 : Nat) (op : LOp), wtLEs curTy rest = true → MethTyped v (methsLEs rest) →
        (∀ y ∈ vars cur, ∀ j, n0 ≤ j → y ≠ nm j) → n0 < k →
        ∀ (accQ : Query) (va : Val D) (acc : Bool) (σ : Env D) (rows : List (List (Val D))),
          denote QC ((x, v) :: ρ) accQ = .ok va → asBool QC.N va = some acc → (rest = [] → va = .bool acc) →
          CurIs C cur v σ → σ (nm n0) = some (.val (.bool acc)) →
          AgreesR C nm (ElemFault v) k (compRest nm ptr cur (curT curTy) (nm n0) op rest k).2 (nm n0)
            (compRest nm ptr cur (curT curTy) (nm n0) op rest k).1 σ rows
            (denote QC ((x, v) :: ρ) (bopQ x op accQ rest))
    | [], k, n0, op, _, _, _, _, accQ, va, acc, σ, rows, hacc, _, hnil, _, hrv => by
      simp only [compRest, bopQ, execs]
      exact Or.inr ⟨σ, va, hacc, rfl, by rw [hnil rfl]; exact hrv, FrameR.refl nm _ _ _ σ, Mono.refl σ⟩
    | b :: bs, k, n0, op, hwt, hmt, hfr, hn0, accQ, va, acc, σ, rows, hacc, hb, _, hp, hrv => by
      simp only [wtLEs, Bool.and_eq_true] at hwt
      simp only [methsLEs] at hmt
      have hkb := compLE_next_ge nm ptr cur (curT curTy) b k
      have hkr := compRest_next_ge nm ptr cur (curT curTy) (nm n0) op bs (compLE nm ptr cur (curT curTy) b k).next
      have ihb := le_sound C QC hN nm hinj ptr cur curTy v x ρ hty b k hwt.1 (methTyped_left hmt)
        (fun y hy j hj => hfr y hy j (by omega))
      have ihr := rest_sound C QC hN nm hinj ptr cur curTy v x ρ hty bs (compLE nm ptr cur (curT curTy) b k).next n0 op
        hwt.2 (methTyped_right hmt) hfr (by omega)
      have hst0 := stable_curIs C nm cur v n0 hfr
      have hstep := check_step C op (nm n0) ((compLE nm ptr cur (curT curTy) b k).decls ++ (compLE nm ptr cur (curT curTy) b k).stmts ++
        [.set (nm n0) (castIf (tyLE (curT curTy) b != .bool) "bool" (compLE nm ptr cur (curT curTy) b k).val)]) σ rows acc hrv
      have hq := denote_opq QC ((x, v) :: ρ) op accQ (leQ x b) va acc hacc hb
      simp only [compRest, bopQ]
      cases hruns : op.runs acc with
      | false =>
        rw [hruns] at hstep hq
        simp only [Bool.false_eq_true, if_false] at hstep hq
        have := ihr (op.q accQ (leQ x b)) (.bool acc) acc σ rows hq (by simp [asBool]) (fun _ => rfl) hp hrv
        exact agreesR_cons C nm _ k _ k k _ _ (nm n0) _ _ σ σ rows _ hstep (FrameR.refl nm _ _ _ σ) (Mono.refl σ)
          (Nat.le_refl _) (by omega) hkb (Nat.le_refl _) this
      | true =>
        rw [hruns] at hstep hq
        simp only [if_true] at hstep hq
        have hr : (σ (nm n0)).isSome = true := by rw [hrv]; rfl
        have harm := run_arm C nm (ElemFault v) (CurIs C cur v) k (hst0.mono (by omega)) (compLE nm ptr cur (curT curTy) b k) (nm n0)
          (castIf (tyLE (curT curTy) b != .bool) "bool" (compLE nm ptr cur (curT curTy) b k).val) (toBoolG QC.N op)
          (denote QC ((x, v) :: ρ) (leQ x b))
          (fun d hd => ⟨compLE_ldecls nm ptr cur _ b _ d hd, compLE_decls_in nm ptr cur _ b _ d hd⟩)
          ihb.1
          (fun σ' f h => castIf_err C.N σ' _ _ _ f h)
          (fun σ' w hrb h => by rw [hN]; exact castB_ok C.N op _ w (ihb.2 w hrb) σ' _ h)
          (fun w hrb => by obtain ⟨a', ha'⟩ := toBoolG_total QC.N op (ihb.2 w hrb); exact ⟨_, ha'⟩)
          σ rows hp hr
        rcases harm with ⟨⟨e, he⟩, f, hex, hef⟩ | ⟨σ', w, hw, hex, hrv', hfr', hmo'⟩
        · refine Or.inl ⟨⟨e, bopQ_error QC _ x op e bs _ (by rw [hq]; exact he)⟩, f, ?_, hef⟩
          simp only [execs, hstep, hex]
        · -- the stored value is a boolean
          obtain ⟨wb, hrb, hg⟩ := strict1_ok hw
          obtain ⟨acc', hacc'⟩ := toBoolG_total QC.N op (ihb.2 wb hrb)
          rw [hacc'] at hg
          simp only [Except.ok.injEq] at hg
          subst hg
          have hp' : CurIs C cur v σ' := hst0.frameR (by omega) (Nat.le_refl n0) hp hfr'
          have := ihr (op.q accQ (leQ x b)) (.bool acc') acc' σ' rows (by rw [hq]; exact hw) (by simp [asBool]) (fun _ => rfl) hp' hrv'
          exact agreesR_cons C nm _ k _ k _ _ _ (nm n0) _ _ σ σ' rows _ (by rw [hstep]; exact hex) hfr' hmo'
            (Nat.le_refl _) hkr hkb (Nat.le_refl _) this
end


/-! ## typing and faults of the query expression alone -/

/-- a name supply for instantiating `le_sound` where only its query-side conclusions are used -/
def nmAux (k : Nat) : String := String.ofList (List.replicate k 'v')

theorem nmAux_inj : ∀ i j, nmAux i = nmAux j → i = j := by
  intro i j h
  have := congrArg List.length (String.ofList_injective h)
  simpa using this

/-- the value of a well-typed lazy expression has the statically computed type -/
theorem leQ_typed (QC : QCtx D) (curTy : Option Ty) (v : Val D) (x : String) (ρ : LEnv D)
    (hty : ∀ t, curTy = some t → HasTy v t) (le : LE) (hwt : wtLE curTy le = true) (hmt : MethTyped v (methsLE le))
    (w : Val D) (h : denote QC ((x, v) :: ρ) (leQ x le) = .ok w) : HasTy w (tyLE (curT curTy) le) :=
  (le_sound (D := D) { N := QC.N, ev := QC.ev, cols := [], tokens := [] } QC rfl nmAux nmAux_inj false (.int 0) curTy v x ρ hty
    le 0 hwt hmt (by intro y hy; simp [vars] at hy)).2 w h

mutual
  /-- a well-typed lazy expression can only fault with a member fault of the element -/
  theorem leQ_fault (QC : QCtx D) (curTy : Option Ty) (v : Val D) (x : String) (ρ : LEnv D)
      (hty : ∀ t, curTy = some t → HasTy v t) :
      ∀ (le : LE), wtLE curTy le = true → MethTyped v (methsLE le) →
        ∀ f, denote QC ((x, v) :: ρ) (leQ x le) = .error f → ElemFault v f
    | .int _, _, _, f, h => by simp [leQ, denote] at h
    | .dbl _ _, _, _, f, h => by simp [leQ, denote] at h
    | .bool _, _, _, f, h => by simp [leQ, denote] at h
    | .it, _, _, f, h => by simp [leQ, denote, LEnv.get] at h
    | .meth name _, _, _, f, h => by
      simp only [leQ, denote, LEnv.get, if_true] at h
      exact ⟨name, h⟩
    | .bin op a b, hwt, hmt, f, h => by
      simp only [wtLE, Bool.and_eq_true] at hwt
      obtain ⟨⟨⟨hwa, hwb⟩, hna⟩, hnb⟩ := hwt
      simp only [methsLE] at hmt
      simp only [leQ] at h
      rw [denote_bin] at h
      cases hra : denote QC ((x, v) :: ρ) (leQ x a) with
      | error e =>
        rw [hra] at h; simp only [strict2, Except.error.injEq] at h; subst h
        exact leQ_fault QC curTy v x ρ hty a hwa (methTyped_left hmt) e hra
      | ok wa =>
        cases hrb : denote QC ((x, v) :: ρ) (leQ x b) with
        | error e =>
          rw [hra, hrb] at h; simp only [strict2, Except.error.injEq] at h; subst h
          exact leQ_fault QC curTy v x ρ hty b hwb (methTyped_right hmt) e hrb
        | ok wb =>
          rw [hra, hrb] at h; simp only [strict2] at h
          obtain ⟨w, hw⟩ := pyArith_total QC.N op wa wb _ _
            (leQ_typed QC curTy v x ρ hty a hwa (methTyped_left hmt) wa hra)
            (leQ_typed QC curTy v x ρ hty b hwb (methTyped_right hmt) wb hrb) hna hnb
          rw [hw] at h; simp at h
    | .cmp op a b, hwt, hmt, f, h => by
      simp only [wtLE, Bool.and_eq_true] at hwt
      obtain ⟨⟨⟨hwa, hwb⟩, hna⟩, hnb⟩ := hwt
      simp only [methsLE] at hmt
      simp only [leQ] at h
      rw [denote_cmp] at h
      cases hra : denote QC ((x, v) :: ρ) (leQ x a) with
      | error e =>
        rw [hra] at h; simp only [strict2, Except.error.injEq] at h; subst h
        exact leQ_fault QC curTy v x ρ hty a hwa (methTyped_left hmt) e hra
      | ok wa =>
        cases hrb : denote QC ((x, v) :: ρ) (leQ x b) with
        | error e =>
          rw [hra, hrb] at h; simp only [strict2, Except.error.injEq] at h; subst h
          exact leQ_fault QC curTy v x ρ hty b hwb (methTyped_right hmt) e hrb
        | ok wb =>
          rw [hra, hrb] at h; simp only [strict2] at h
          obtain ⟨w, hw⟩ := cmp_total QC.N op wa wb _ _
            (leQ_typed QC curTy v x ρ hty a hwa (methTyped_left hmt) wa hra)
            (leQ_typed QC curTy v x ρ hty b hwb (methTyped_right hmt) wb hrb) hna hnb
          rw [hw] at h; simp at h
    | .neg a, hwt, hmt, f, h => by
      simp only [wtLE, Bool.and_eq_true] at hwt
      simp only [methsLE] at hmt
      simp only [leQ] at h
      rw [denote_neg] at h
      cases hra : denote QC ((x, v) :: ρ) (leQ x a) with
      | error e =>
        rw [hra] at h; simp only [strict1, Except.error.injEq] at h; subst h
        exact leQ_fault QC curTy v x ρ hty a hwt.1 hmt e hra
      | ok wa =>
        rw [hra] at h; simp only [strict1] at h
        obtain ⟨w, hw, _⟩ := neg_total QC.N wa _ (leQ_typed QC curTy v x ρ hty a hwt.1 hmt wa hra) hwt.2
        rw [hw] at h; simp at h
    | .not a, hwt, hmt, f, h => by
      simp only [wtLE, Bool.and_eq_true, beq_iff_eq] at hwt
      simp only [methsLE] at hmt
      simp only [leQ] at h
      rw [denote_not] at h
      cases hra : denote QC ((x, v) :: ρ) (leQ x a) with
      | error e =>
        rw [hra] at h; simp only [strict1, Except.error.injEq] at h; subst h
        exact leQ_fault QC curTy v x ρ hty a hwt.1 hmt e hra
      | ok wa =>
        rw [hra] at h; simp only [strict1] at h
        obtain ⟨w, hw, _⟩ := not_total QC.N wa (hwt.2 ▸ leQ_typed QC curTy v x ρ hty a hwt.1 hmt wa hra)
        rw [hw] at h; simp at h
    | .bop op a rest, hwt, hmt, f, h => by
      simp only [wtLE, Bool.and_eq_true] at hwt
      obtain ⟨⟨hwa, hwr⟩, _⟩ := hwt
      simp only [methsLE] at hmt
      simp only [leQ] at h
      exact bopQ_fault QC curTy v x ρ hty op rest hwr (methTyped_right hmt) (leQ x a)
        (fun f' hf' => leQ_fault QC curTy v x ρ hty a hwa (methTyped_left hmt) f' hf')
        (fun va hva => hasTy_asBool QC.N (leQ_typed QC curTy v x ρ hty a hwa (methTyped_left hmt) va hva)) f h
    | .ite c a b, hwt, hmt, f, h => by
      simp only [wtLE, Bool.and_eq_true] at hwt
      obtain ⟨⟨⟨⟨hwc, hwa⟩, hwb⟩, _⟩, _⟩ := hwt
      simp only [methsLE] at hmt
      simp only [leQ] at h
      rw [denote_ite] at h
      cases hrc : denote QC ((x, v) :: ρ) (leQ x c) with
      | error e =>
        rw [hrc] at h; simp only [iteRes, Except.error.injEq] at h; subst h
        exact leQ_fault QC curTy v x ρ hty c hwc (methTyped_left hmt) e hrc
      | ok vc =>
        obtain ⟨bb, hbb⟩ := hasTy_asBool QC.N (leQ_typed QC curTy v x ρ hty c hwc (methTyped_left hmt) vc hrc)
        rw [hrc] at h
        simp only [iteRes, hbb] at h
        cases bb with
        | true => exact leQ_fault QC curTy v x ρ hty a hwa (methTyped_left (methTyped_right hmt)) f h
        | false => exact leQ_fault QC curTy v x ρ hty b hwb (methTyped_right (methTyped_right hmt)) f h
  theorem bopQ_fault (QC : QCtx D) (curTy : Option Ty) (v : Val D) (x : String) (ρ : LEnv D)
      (hty : ∀ t, curTy = some t → HasTy v t) (op : LOp) :
      ∀ (rest : List LE), wtLEs curTy rest = true → MethTyped v (methsLEs rest) →
        ∀ (accQ : Query), (∀ f, denote QC ((x, v) :: ρ) accQ = .error f → ElemFault v f) →
          (∀ va, denote QC ((x, v) :: ρ) accQ = .ok va → ∃ b, asBool QC.N va = some b) →
          ∀ f, denote QC ((x, v) :: ρ) (bopQ x op accQ rest) = .error f → ElemFault v f
    | [], _, _, accQ, hf, _, f, h => by
      simp only [bopQ] at h
      exact hf f h
    | b :: bs, hwt, hmt, accQ, hf, hv, f, h => by
      simp only [wtLEs, Bool.and_eq_true] at hwt
      simp only [methsLEs] at hmt
      simp only [bopQ] at h
      refine bopQ_fault QC curTy v x ρ hty op bs hwt.2 (methTyped_right hmt) (op.q accQ (leQ x b)) ?_ ?_ f h
      · intro f' hf'
        cases hacc : denote QC ((x, v) :: ρ) accQ with
        | error e =>
          rw [denote_opq_error QC _ op accQ _ e hacc] at hf'
          simp only [Except.error.injEq] at hf'; subst hf'
          exact hf e hacc
        | ok va =>
          obtain ⟨acc, hb⟩ := hv va hacc
          rw [denote_opq QC _ op accQ _ va acc hacc hb] at hf'
          cases hruns : op.runs acc with
          | false => rw [hruns] at hf'; simp at hf'
          | true =>
            rw [hruns] at hf'
            simp only [if_true] at hf'
            cases hrb : denote QC ((x, v) :: ρ) (leQ x b) with
            | error e =>
              rw [hrb] at hf'; simp only [strict1, Except.error.injEq] at hf'; subst hf'
              exact leQ_fault QC curTy v x ρ hty b hwt.1 (methTyped_left hmt) e hrb
            | ok vb =>
              rw [hrb] at hf'; simp only [strict1] at hf'
              obtain ⟨a', ha'⟩ := toBoolG_total QC.N op (leQ_typed QC curTy v x ρ hty b hwt.1 (methTyped_left hmt) vb hrb)
              rw [ha'] at hf'; simp at hf'
      · intro va hva
        obtain ⟨b', rfl⟩ := denote_opq_bool QC _ op accQ _ va hva
        exact ⟨b', by simp [asBool]⟩
end

/-! ## `le_sound` in plain form -/

/-- what the emitted code does from `s`: its statements, then its value expression -/
def runFrag (C : Ctx D) (F : CondFrag) (s : St D) : Except Fault (Val D) :=
  match execs C F.stmts s with
  | .error f => .error f
  | .ok s' => evalE C.N s'.env F.val

section plain
variable (C : Ctx D) (QC : QCtx D) (hN : QC.N = C.N) (nm : Nat → String) (hinj : ∀ i j, nm i = nm j → i = j)
  (ptr : Bool) (cur : CExpr) (curTy : Option Ty) (v : Val D) (x : String) (ρ : LEnv D)
  (hty : ∀ t, curTy = some t → HasTy v t)
  (le : LE) (k : Nat) (hwt : wtLE curTy le = true) (hmt : MethTyped v (methsLE le))
  (hfr : ∀ y ∈ vars cur, ∀ j, k ≤ j → y ≠ nm j)
include hN hinj hty hwt hmt hfr

/-- **success direction**: the query expression is defined -> the statements terminate, the value
expression holds the query's value, only the fragment's fresh names are touched, the value is typed -/
theorem le_correct (σ : Env D) (rows : List (List (Val D))) (hcur : evalE C.N σ cur = .ok v)
    (hdecl : Declared σ (compLE nm ptr cur (curT curTy) le k).decls)
    (w : Val D) (hden : denote QC ((x, v) :: ρ) (leQ x le) = .ok w) :
    ∃ σ', execs C (compLE nm ptr cur (curT curTy) le k).stmts ⟨σ, rows⟩ = .ok ⟨σ', rows⟩ ∧
      evalE C.N σ' (compLE nm ptr cur (curT curTy) le k).val = .ok w ∧
      (∀ y, ¬ InRange nm k (compLE nm ptr cur (curT curTy) le k).next y → σ' y = σ y) ∧
      HasTy w (tyLE (curT curTy) le) := by
  have h := le_sound C QC hN nm hinj ptr cur curTy v x ρ hty le k hwt hmt hfr
  have ha := h.1 σ rows hcur hdecl
  rw [hden] at ha
  obtain ⟨σ', hex, hfr', _, hv⟩ := agrees_ok C nm _ ha
  exact ⟨σ', hex, hv, hfr', h.2 w hden⟩

/-- **fault direction**: the query expression faults -> the emitted code raises a fault, and that
fault is a member fault of the element (as the query's is) -/
theorem le_faults (σ : Env D) (rows : List (List (Val D))) (hcur : evalE C.N σ cur = .ok v)
    (hdecl : Declared σ (compLE nm ptr cur (curT curTy) le k).decls)
    (f : Fault) (hden : denote QC ((x, v) :: ρ) (leQ x le) = .error f) :
    ElemFault v f ∧ ∃ f', runFrag C (compLE nm ptr cur (curT curTy) le k) ⟨σ, rows⟩ = .error f' ∧ ElemFault v f' := by
  have h := le_sound C QC hN nm hinj ptr cur curTy v x ρ hty le k hwt hmt hfr
  refine ⟨leQ_fault QC curTy v x ρ hty le hwt hmt f hden, ?_⟩
  have ha := h.1 σ rows hcur hdecl
  rw [hden] at ha
  rcases ha with ⟨_, f', hex, hef⟩ | ⟨σ', hex, _, _, f', hv, hef⟩
  · exact ⟨f', by simp [runFrag, hex], hef⟩
  · exact ⟨f', by simp [runFrag, hex, hv], hef⟩

/-- **never spurious**: a fault of the emitted code is a fault of the query expression -/
theorem le_no_spurious (σ : Env D) (rows : List (List (Val D))) (hcur : evalE C.N σ cur = .ok v)
    (hdecl : Declared σ (compLE nm ptr cur (curT curTy) le k).decls)
    (f' : Fault) (hrun : runFrag C (compLE nm ptr cur (curT curTy) le k) ⟨σ, rows⟩ = .error f') :
    ∃ f, denote QC ((x, v) :: ρ) (leQ x le) = .error f := by
  cases hden : denote QC ((x, v) :: ρ) (leQ x le) with
  | error f => exact ⟨f, rfl⟩
  | ok w =>
    obtain ⟨σ', hex, hv, _, _⟩ := le_correct C QC hN nm hinj ptr cur curTy v x ρ hty le k hwt hmt hfr σ rows hcur hdecl w hden
    simp [runFrag, hex, hv] at hrun

/-- the whole block level: declarations first (hoisted), then the statements — from ANY state in
which the current value is available -/
theorem le_block_correct (σ : Env D) (rows : List (List (Val D))) (hcur : evalE C.N σ cur = .ok v)
    (w : Val D) (hden : denote QC ((x, v) :: ρ) (leQ x le) = .ok w) :
    ∃ σ', execs C ((compLE nm ptr cur (curT curTy) le k).decls ++ (compLE nm ptr cur (curT curTy) le k).stmts) ⟨σ, rows⟩ =
        .ok ⟨σ', rows⟩ ∧
      evalE C.N σ' (compLE nm ptr cur (curT curTy) le k).val = .ok w ∧
      (∀ y, ¬ InRange nm k (compLE nm ptr cur (curT curTy) le k).next y → σ' y = σ y) := by
  obtain ⟨σd, hexd, hfrd, _, hdd⟩ := run_decls C nm k (compLE nm ptr cur (curT curTy) le k).next
    (compLE nm ptr cur (curT curTy) le k).decls σ rows
    (fun d hd => ⟨compLE_ldecls nm ptr cur _ le k d hd, compLE_decls_in nm ptr cur _ le k d hd⟩)
  have hpd : evalE C.N σd cur = .ok v := (stable_curIs C nm cur v k hfr).frame (Nat.le_refl k) hcur hfrd
  obtain ⟨σ', hex, hv, hfr', _⟩ := le_correct C QC hN nm hinj ptr cur curTy v x ρ hty le k hwt hmt hfr σd rows hpd hdd w hden
  refine ⟨σ', by rw [execs_append, hexd]; exact hex, hv, fun y hy => by rw [hfr' y hy, hfrd y hy]⟩

end plain


/-! ## laziness on the query side: a decided chain ignores its remaining operands -/

/-- once an and / or chain is decided (`and`: false, `or`: true) it denotes that truth value whatever
the remaining operands denote — values or faults -/
theorem bopQ_decided (QC : QCtx D) (ρ : LEnv D) (x : String) (op : LOp) (acc : Bool) (hruns : op.runs acc = false) :
    ∀ (rest : List LE) (accQ : Query) (va : Val D), denote QC ρ accQ = .ok va → asBool QC.N va = some acc →
      (rest = [] → va = .bool acc) → denote QC ρ (bopQ x op accQ rest) = .ok (.bool acc)
  | [], accQ, va, h, _, hnil => by simp only [bopQ, h, hnil rfl]
  | b :: bs, accQ, va, h, hb, _ => by
    simp only [bopQ]
    refine bopQ_decided QC ρ x op acc hruns bs _ (.bool acc) ?_ (by simp [asBool]) (fun _ => rfl)
    rw [denote_opq QC ρ op accQ _ va acc h hb, hruns]
    simp

theorem bop_decided (QC : QCtx D) (ρ : LEnv D) (x : String) (op : LOp) (a b : LE) (rest : List LE) (va : Val D) (acc : Bool)
    (ha : denote QC ρ (leQ x a) = .ok va) (hb : asBool QC.N va = some acc) (hruns : op.runs acc = false) :
    denote QC ρ (leQ x (.bop op a (b :: rest))) = .ok (.bool acc) := by
  simp only [leQ]
  exact bopQ_decided QC ρ x op acc hruns (b :: rest) _ va ha hb (fun h => by simp at h)

end FaxVerif.Gen
