/-
Gen — the WIDENED accumulator: an int seed with a floating body (`Sum()` of floats is the instance
`Aggregate(0, acc + x)`). The translator declares `double acc (seed)` (or `float`), so the C++
accumulator starts as the floating number `seed.0` while Python's starts as the integer `seed`;
the body was translated with `acc` typed int.

Two facts make the emitted loop compute the value the query denotes all the same:
  * `ae_correct_wide` — the body's C++ text, translated for an int `acc`, evaluates correctly when
    the accumulator variable holds a FLOATING value (the int/int division cast is harmless);
  * `accStep_insensitive` — if every occurrence of `acc` in the body is an operand of `/` or of an
    operator whose other operand is of floating type (`accOK`), one step of the fold gives the same
    value from the integer `k` and from the floating `k.0` (abstract `Num`: `int k` is converted by
    `ofInt` in exactly these positions).
From the second iteration on both accumulators hold the same floating value. Over an EMPTY
sequence the query denotes the integer seed and the code writes the floating seed: numerically
equal, different values of the model — hence the hypothesis `ws ≠ []`.
-/
import FaxVerif.Gen.AggCorrect
namespace FaxVerif.Gen
open FaxVerif.Cpp FaxVerif.Linq
variable {D : Type}

/-- typing up to widening: a value statically typed int may in fact be floating -/
def HasTyW (w : Val D) (t : Ty) : Prop := HasTy w t ∨ (t = .int ∧ ∃ y, w = .dbl y)

theorem hasTyW_num {v : Val D} {t : Ty} (h : HasTyW v t) (hn : t.isNum = true) :
    (∃ n, v = .int n ∧ t = .int) ∨ (∃ y, v = .dbl y) := by
  rcases h with h | ⟨_, y, rfl⟩
  · rcases hasTy_num h hn with ⟨n, rfl, rfl⟩ | ⟨y, rfl, _⟩
    · exact Or.inl ⟨n, rfl, rfl⟩
    · exact Or.inr ⟨y, rfl⟩
  · exact Or.inr ⟨y, rfl⟩

theorem hasTyW_dbl (y : D) {t : Ty} (hn : t.isNum = true) : HasTyW (.dbl y : Val D) t := by
  cases t <;> simp [HasTyW, HasTy, Ty.isNum] at hn ⊢

theorem hasTyW_fl {v : Val D} {t : Ty} (h : HasTyW v t) (hf : t.isFloating = true) : ∃ y, v = .dbl y := by
  rcases h with h | ⟨rfl, _⟩
  · cases v <;> cases t <;> simp [HasTy, Ty.isFloating] at h hf ⊢
  · simp [Ty.isFloating] at hf

theorem hasTy_fl {v : Val D} {t : Ty} (h : HasTy v t) (hf : t.isFloating = true) : ∃ y, v = .dbl y :=
  hasTyW_fl (Or.inl h) hf

theorem arith_numW (N : Num D) (op : AOp) (hop : op ≠ .div) (va vb : Val D) (ta tb : Ty)
    (ha : HasTyW va ta) (hb : HasTyW vb tb) (hna : ta.isNum = true) (hnb : tb.isNum = true) :
    arith N op.str va vb = pyArith N op.str va vb ∧ ∀ w, arith N op.str va vb = .ok w → HasTyW w (ta.join tb) := by
  have hpy : pyArith N op.str va vb = arith N op.str va vb := by
    cases op <;> simp [pyArith, AOp.str] at hop ⊢
  refine ⟨hpy.symm, ?_⟩
  intro w hw
  have hj := join_num ta tb hna hnb
  rcases hasTyW_num ha hna with ⟨x, rfl, rfl⟩ | ⟨x, rfl⟩ <;>
  rcases hasTyW_num hb hnb with ⟨y, rfl, rfl⟩ | ⟨y, rfl⟩
  · cases op <;> simp [arith, asInt, AOp.str] at hop hw <;> (subst hw; simp [HasTyW, HasTy, Ty.join])
  all_goals (cases op <;> simp [arith, asInt, asD, AOp.str] at hop hw <;> (subst hw; exact hasTyW_dbl _ hj))

theorem div_numW (N : Num D) (va vb : Val D) (ta tb : Ty)
    (ha : HasTyW va ta) (hb : HasTyW vb tb) (hna : ta.isNum = true) (hnb : tb.isNum = true) :
    (if ta.join tb = .int then
        (match castTo N "double" va with
         | .ok c => arith N "/" c vb
         | .error f => .error f)
     else arith N "/" va vb) = pyArith N "/" va vb ∧
    ∀ w, pyArith N "/" va vb = .ok w → HasTy w .double := by
  rcases hasTyW_num ha hna with ⟨x, rfl, rfl⟩ | ⟨x, rfl⟩ <;>
  rcases hasTyW_num hb hnb with ⟨y, rfl, rfl⟩ | ⟨y, rfl⟩
  · simp [Ty.join, castTo, asD, arith, asInt, pyArith, HasTy]
  all_goals (refine ⟨?_, by simp [pyArith, asD, HasTy]⟩; split <;> simp [castTo, asD, arith, asInt, pyArith])

/-- **accumulation bodies translated for an int `acc`, run with a floating accumulator** -/
theorem ae_correct_wide (C : QCtx D) (σ : Env D) (accE cur : CExpr) (curTy : Option Ty) (ptr : Bool)
    (xa : D) (v : Val D) (a x : String) (hax : x ≠ a) (ρ : LEnv D)
    (hacc : evalE C.N σ accE = .ok (.dbl xa))
    (hcur : evalE C.N σ cur = .ok v) (hty : ∀ t, curTy = some t → HasTy v t) :
    ∀ f : AE, wtAE .int curTy f = true → MethTyped v (methsAE f) →
      evalE C.N σ (compAE ptr accE cur .int (curT curTy) f) = denote C ((x, v) :: (a, .dbl xa) :: ρ) (aeQ a x f) ∧
      ∀ w, denote C ((x, v) :: (a, .dbl xa) :: ρ) (aeQ a x f) = .ok w → HasTyW w (tyAE .int (curT curTy) f)
  | .int n, _, _ => by simp [compAE, aeQ, evalE, denote, tyAE, HasTy, HasTyW]
  | .dbl m e, _, _ => by simp [compAE, aeQ, evalE, denote, tyAE, HasTy, HasTyW]
  | .acc, _, _ => by
    simp only [compAE, aeQ, denote, LEnv.get, hax, if_false, if_true, hacc, tyAE, true_and]
    intro w hw'
    simp only [Except.ok.injEq] at hw'; subst hw'
    exact Or.inr ⟨rfl, xa, rfl⟩
  | .it, hw, _ => by
    simp only [wtAE, Option.isSome_iff_exists] at hw
    obtain ⟨t, ht⟩ := hw
    simp only [compAE, aeQ, denote, LEnv.get, if_true, hcur, tyAE, true_and]
    intro w hw'
    simp only [Except.ok.injEq] at hw'; subst hw'
    exact Or.inl (by simpa [curT, ht] using hty t ht)
  | .meth name ty, _, hm => by
    simp only [compAE, aeQ, evalE, hcur, denote, LEnv.get, if_true, evalEs, tyAE, true_and]
    intro w hw'
    exact Or.inl (hm (name, ty) (by simp [methsAE]) w hw')
  | .bin op p q, hw, hm => by
    simp only [wtAE, Bool.and_eq_true] at hw
    obtain ⟨⟨⟨hwa, hwb⟩, hna⟩, hnb⟩ := hw
    have iha := ae_correct_wide C σ accE cur curTy ptr xa v a x hax ρ hacc hcur hty p hwa (fun r hr => hm r (by simp [methsAE, hr]))
    have ihb := ae_correct_wide C σ accE cur curTy ptr xa v a x hax ρ hacc hcur hty q hwb (fun r hr => hm r (by simp [methsAE, hr]))
    by_cases hdiv : op = .div
    · subst hdiv
      simp only [compAE, aeQ, denote, AOp.str, tyAE, true_and]
      rw [← iha.1, ← ihb.1]
      cases hea : evalE C.N σ (compAE ptr accE cur .int (curT curTy) p) with
      | error f => by_cases hj : (tyAE .int (curT curTy) p).join (tyAE .int (curT curTy) q) = .int <;> simp [hj, evalE, hea]
      | ok vp =>
        have hta := iha.2 vp (by rw [← iha.1]; exact hea)
        cases heb : evalE C.N σ (compAE ptr accE cur .int (curT curTy) q) with
        | error f =>
          by_cases hj : (tyAE .int (curT curTy) p).join (tyAE .int (curT curTy) q) = .int
          · rcases hasTyW_num hta hna with ⟨n, rfl, _⟩ | ⟨y, rfl⟩ <;> simp [hj, evalE, hea, heb, castTo, asD]
          · simp [hj, evalE, hea, heb]
        | ok vq =>
          have htb := ihb.2 vq (by rw [← ihb.1]; exact heb)
          have hd := div_numW C.N vp vq _ _ hta htb hna hnb
          simp only []
          refine ⟨?_, fun w hw => Or.inl (hd.2 w hw)⟩
          rw [← hd.1]
          by_cases hj : (tyAE .int (curT curTy) p).join (tyAE .int (curT curTy) q) = .int
          · simp only [hj, and_self, if_true]
            rw [evalE_bin_arith _ _ _ (by simp) (by simp)]
            simp only [evalE, hea, heb]
            cases castTo C.N "double" vp <;> rfl
          · simp only [hj, and_false, if_false]
            rw [evalE_bin_arith _ _ _ (by simp [AOp.str]) (by simp [AOp.str])]
            simp [hea, heb, AOp.str]
    · have hne : ¬ (op = .div ∧ (tyAE .int (curT curTy) p).join (tyAE .int (curT curTy) q) = .int) := fun h => hdiv h.1
      have hty' : tyAE .int (curT curTy) (.bin op p q) = (tyAE .int (curT curTy) p).join (tyAE .int (curT curTy) q) := by
        cases op <;> simp [tyAE] at hdiv ⊢
      simp only [compAE, hne, if_false, aeQ, denote, hty']
      rw [evalE_bin_arith _ _ _ (aop_not_logic op).1 (aop_not_logic op).2, ← iha.1, ← ihb.1]
      cases hea : evalE C.N σ (compAE ptr accE cur .int (curT curTy) p) with
      | error f => simp
      | ok vp =>
        cases heb : evalE C.N σ (compAE ptr accE cur .int (curT curTy) q) with
        | error f => simp
        | ok vq =>
          have hta := iha.2 vp (by rw [← iha.1]; exact hea)
          have htb := ihb.2 vq (by rw [← ihb.1]; exact heb)
          have := arith_numW C.N op hdiv vp vq _ _ hta htb hna hnb
          simp only []
          exact ⟨this.1, fun w hw => this.2 w (by rw [this.1]; exact hw)⟩
  | .neg p, hw, hm => by
    simp only [wtAE, Bool.and_eq_true] at hw
    have iha := ae_correct_wide C σ accE cur curTy ptr xa v a x hax ρ hacc hcur hty p hw.1 (fun r hr => hm r (by simpa [methsAE] using hr))
    simp only [compAE, aeQ, denote, evalE, tyAE, ← iha.1]
    cases hea : evalE C.N σ (compAE ptr accE cur .int (curT curTy) p) with
    | error f => simp
    | ok vp =>
      have hta := iha.2 vp (by rw [← iha.1]; exact hea)
      simp only [true_and]
      intro w hw'
      rcases hasTyW_num hta hw.2 with ⟨n, rfl, ht⟩ | ⟨y, rfl⟩
      · simp [unop] at hw'; subst hw'; simp [ht, HasTy, HasTyW]
      · simp [unop] at hw'; subst hw'; exact hasTyW_dbl _ hw.2

/-! ## one step from the integer seed and from the floating seed -/

theorem isAcc_iff (p : AE) : isAcc p = true ↔ p = .acc := by cases p <;> simp [isAcc]

theorem pyArith_acc_left (N : Num D) (op : AOp) (k : Int) (vb : Val D) (h : op = .div ∨ ∃ y, vb = .dbl y) :
    pyArith N op.str (.int k) vb = pyArith N op.str (.dbl (N.ofInt k)) vb := by
  rcases h with rfl | ⟨y, rfl⟩
  · cases vb <;> simp [pyArith, AOp.str, asD]
  · cases op <;> simp [pyArith, arith, asInt, asD, AOp.str]

theorem pyArith_acc_right (N : Num D) (op : AOp) (k : Int) (va : Val D) (h : op = .div ∨ ∃ y, va = .dbl y) :
    pyArith N op.str va (.int k) = pyArith N op.str va (.dbl (N.ofInt k)) := by
  rcases h with rfl | ⟨y, rfl⟩
  · cases va <;> simp [pyArith, AOp.str, asD]
  · cases op <;> simp [pyArith, arith, asInt, asD, AOp.str]

/-- typing of the body's value with an integer accumulator (user level) -/
theorem ae_typed_int (C : QCtx D) (curTy : Option Ty) (k : Int) (v : Val D) (a x : String) (hax : x ≠ a) (ρ : LEnv D)
    (hty : ∀ t, curTy = some t → HasTy v t) (f : AE) (hw : wtAE .int curTy f = true) (hm : MethTyped v (methsAE f))
    (w : Val D) (h : denote C ((x, v) :: (a, .int k) :: ρ) (aeQ a x f) = .ok w) : HasTy w (tyAE .int (curT curTy) f) :=
  (ae_correct C (fun _ => some (.val v)) (.int k) (.var "z") .int curTy false (.int k) v a x hax ρ
    (by simp [evalE]) (by simp [HasTy]) (by simp [evalE]) hty f hw hm).2 w h

/-- **the first step does not see the difference** between the integer seed and the floating one -/
theorem accStep_insensitive (C : QCtx D) (curTy : Option Ty) (k : Int) (v : Val D) (a x : String) (hax : x ≠ a) (ρ : LEnv D)
    (hty : ∀ t, curTy = some t → HasTy v t) :
    ∀ f : AE, wtAE .int curTy f = true → accOK (curT curTy) f = true → MethTyped v (methsAE f) →
      denote C ((x, v) :: (a, .int k) :: ρ) (aeQ a x f) = denote C ((x, v) :: (a, .dbl (C.N.ofInt k)) :: ρ) (aeQ a x f)
  | .int n, _, _, _ => by simp [aeQ, denote]
  | .dbl m e, _, _, _ => by simp [aeQ, denote]
  | .acc, _, hok, _ => by simp [accOK] at hok
  | .it, _, _, _ => by simp [aeQ, denote, LEnv.get]
  | .meth name ty, _, _, _ => by simp [aeQ, denote, LEnv.get]
  | .neg p, hw, hok, hm => by
    simp only [wtAE, Bool.and_eq_true] at hw
    simp only [accOK] at hok
    simp only [aeQ, denote]
    rw [accStep_insensitive C curTy k v a x hax ρ hty p hw.1 hok (fun r hr => hm r (by simpa [methsAE] using hr))]
  | .bin op p q, hw, hok, hm => by
    simp only [wtAE, Bool.and_eq_true] at hw
    obtain ⟨⟨⟨hwa, hwb⟩, _⟩, _⟩ := hw
    simp only [accOK, Bool.and_eq_true] at hok
    obtain ⟨hp, hq⟩ := hok
    have hmp : MethTyped v (methsAE p) := fun r hr => hm r (by simp [methsAE, hr])
    have hmq : MethTyped v (methsAE q) := fun r hr => hm r (by simp [methsAE, hr])
    have ihp := accStep_insensitive C curTy k v a x hax ρ hty p hwa
    have ihq := accStep_insensitive C curTy k v a x hax ρ hty q hwb
    have typ := ae_typed_int C curTy k v a x hax ρ hty p hwa hmp
    have tyq := ae_typed_int C curTy k v a x hax ρ hty q hwb hmq
    by_cases ip : isAcc p = true
    · rw [if_pos ip] at hp
      by_cases iq : isAcc q = true
      · rw [if_pos iq] at hq
        obtain rfl := (isAcc_iff p).1 ip
        obtain rfl := (isAcc_iff q).1 iq
        have hd : op = .div := by simpa [tyAE, Ty.isFloating] using hp
        subst hd
        simp [aeQ, denote, LEnv.get, hax, pyArith, AOp.str, asD]
      · rw [if_neg iq] at hq
        obtain rfl := (isAcc_iff p).1 ip
        have ihq' := ihq hq hmq
        simp only [aeQ, denote, LEnv.get, hax, if_false, if_true]
        rw [← ihq']
        cases hdq : denote C ((x, v) :: (a, .int k) :: ρ) (aeQ a x q) with
        | error e => rfl
        | ok vb =>
          simp only []
          apply pyArith_acc_left
          simp only [Bool.or_eq_true, beq_iff_eq] at hp
          rcases hp with h | h
          · exact Or.inl h
          · exact Or.inr (hasTy_fl (tyq vb hdq) h)
    · rw [if_neg ip] at hp
      have ihp' := ihp hp hmp
      by_cases iq : isAcc q = true
      · rw [if_pos iq] at hq
        obtain rfl := (isAcc_iff q).1 iq
        simp only [aeQ, denote, LEnv.get, hax, if_false, if_true]
        rw [← ihp']
        cases hdp : denote C ((x, v) :: (a, .int k) :: ρ) (aeQ a x p) with
        | error e => rfl
        | ok va =>
          simp only []
          apply pyArith_acc_right
          simp only [Bool.or_eq_true, beq_iff_eq] at hq
          rcases hq with h | h
          · exact Or.inl h
          · exact Or.inr (hasTy_fl (typ va hdp) h)
      · rw [if_neg iq] at hq
        simp only [aeQ, denote]
        rw [← ihp', ← ihq hq hmq]

end FaxVerif.Gen
