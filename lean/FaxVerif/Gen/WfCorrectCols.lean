/-
Gen/WfCorrectCols — the definite-assignment checker on the loop code of event-level scalars (`compEE`),
columns (`compCol`) and column lists (`compCols`): from an analysis state in which the hoisted declarations
`DS` are declared, the initialised ones initialised, every guard of a fact is a `First()` flag of `DS`, and
the pending `First()` columns still have their fact, the statements are accepted, the declared set is
unchanged, and every `First()` column variable is initialised afterwards.
No Mathlib.
-/
import FaxVerif.Gen.WfCorrectChain
namespace FaxVerif.Gen.Wf
open FaxVerif.Cpp FaxVerif.Gen

theorem eq_of_nodup_map {α β : Type} (f : α → β) : ∀ (l : List α), (l.map f).Nodup →
    ∀ a ∈ l, ∀ b ∈ l, f a = f b → a = b
  | [], _, a, ha, _, _, _ => by simp at ha
  | x :: l, h, a, ha, b, hb, e => by
    simp only [List.map_cons, List.nodup_cons] at h
    rcases List.mem_cons.1 ha with ea | ha <;> rcases List.mem_cons.1 hb with eb | hb
    · rw [ea, eb]
    · exact absurd (List.mem_map.2 ⟨b, hb, by rw [← e, ea]⟩) h.1
    · exact absurd (List.mem_map.2 ⟨a, ha, by rw [e, eb]⟩) h.1
    · exact eq_of_nodup_map f l h.2 a ha b hb e

/-- what is fixed during the statement phase: the hoisted declarations `DS` have pairwise distinct generated
names, all declared in `Dst` (the declared set, constant at top level), and `result` is not declared -/
structure Glob (nm : Nat → String) (DS : List Stmt) (Dst : List String) : Prop where
  nodup : (DS.map declName).Nodup
  inD : ∀ d ∈ DS, declName d ∈ Dst
  isNm : ∀ d ∈ DS, ∃ k, declName d = nm k
  nores : "result" ∉ Dst

/-- the invariant of the analysis state at top level of the statement phase -/
structure SInv (DS : List Stmt) (Dst : List String) (s : DA) : Prop where
  hD : s.D = Dst
  sub : AsubD s
  init : ∀ ty x e, Stmt.decl ty x (some e) ∈ DS → x ∈ s.A
  guards : ∀ f, (f ∈ s.T ∨ ∃ y, (f, y) ∈ s.G) → Stmt.decl "bool" f (some (.bool true)) ∈ DS

theorem Glob.guard_ne {nm : Nat → String} {DS : List Stmt} {Dst : List String} (hg : Glob nm DS Dst)
    {f x ty : String} {e : CExpr} (h1 : Stmt.decl "bool" f (some (.bool true)) ∈ DS)
    (h2 : Stmt.decl ty x (some e) ∈ DS) (he : e ≠ .bool true) : f ≠ x := by
  intro hfx
  have := eq_of_nodup_map declName DS hg.nodup _ h1 _ h2 (by simp [declName, hfx])
  simp only [Stmt.decl.injEq, Option.some.injEq] at this
  exact he this.2.2.symm

theorem Glob.guard_ne_cn {nm cn : Nat → String} {DS : List Stmt} {Dst : List String} (hg : Glob nm DS Dst)
    (hdisj : ∀ j k, nm j ≠ cn k) {f : String} (h1 : Stmt.decl "bool" f (some (.bool true)) ∈ DS) (k : Nat) : f ≠ cn k := by
  obtain ⟨j, e⟩ := hg.isNm _ h1
  simp only [declName] at e
  rw [e]; exact hdisj j k

theorem fresh_of {nm : Nat → String} (hinj : ∀ i j, nm i = nm j → i = j) (Dst : List String) (L : List Nat) (k : Nat)
    (hk : k ∉ L) (h : nm k ∈ Dst → nm k ∈ L.map nm) : nm k ∉ Dst := by
  intro hm
  obtain ⟨j, hj, e⟩ := List.mem_map.1 (h hm)
  exact hk (hinj _ _ e ▸ hj)

theorem okE_bin {s : DA} {op : String} {a b : CExpr} (ha : okE s a = true) (hb : okE s b = true) :
    okE s (.bin op a b) = true := by
  simp only [okE, Bool.and_eq_true, subset_iff, clean, vars, List.mem_append] at ha hb ⊢
  exact ⟨⟨ha.1, hb.1⟩, fun x hx => hx.elim (ha.2 x) (hb.2 x)⟩

/-! ## names of a fragment: declared names and token names, all in the fragment's range -/

def eeNames (B : Backend) (nm : Nat → String) (e : EE) (n : Nat) : List String :=
  (compEE B nm e n).decls.map declName ++ (eeToks B nm e n).map (·.1)

theorem eeNames_range (B : Backend) (nm : Nat → String) (e : EE) (n : Nat) :
    ∀ y ∈ eeNames B nm e n, InRange nm n (compEE B nm e n).next y := by
  intro y hy
  rcases List.mem_append.1 hy with h | h
  · exact declsIn_names (compEE_decls B nm e n) y h
  · exact eeToks_names B nm e n y h

/-- split a freshness hypothesis over two consecutive ranges -/
theorem fresh_left {nm : Nat → String} (hinj : ∀ i j, nm i = nm j → i = j) {Dst L1 L2 : List String} {n na nb : Nat}
    (r2 : ∀ y ∈ L2, InRange nm na nb y)
    (h : ∀ k, n ≤ k → k < nb → nm k ∈ Dst → nm k ∈ L1 ∨ nm k ∈ L2) (hab : na ≤ nb) :
    ∀ k, n ≤ k → k < na → nm k ∈ Dst → nm k ∈ L1 := by
  intro k h1 h2 hm
  rcases h k h1 (by omega) hm with a | a
  · exact a
  · obtain ⟨j, j1, _, e⟩ := r2 _ a
    have := hinj _ _ e; omega

theorem fresh_right {nm : Nat → String} (hinj : ∀ i j, nm i = nm j → i = j) {Dst L1 L2 : List String} {n na nb : Nat}
    (r1 : ∀ y ∈ L1, InRange nm n na y)
    (h : ∀ k, n ≤ k → k < nb → nm k ∈ Dst → nm k ∈ L1 ∨ nm k ∈ L2) (hab : n ≤ na) :
    ∀ k, na ≤ k → k < nb → nm k ∈ Dst → nm k ∈ L2 := by
  intro k h1 h2 hm
  rcases h k (by omega) h2 hm with a | a
  · obtain ⟨j, _, j2, e⟩ := r1 _ a
    have := hinj _ _ e; omega
  · exact a

/-! ## event-level scalars -/

section
variable (C : DACtx) (B : Backend) (hB : BackendBase B) (nm : Nat → String)
  (hinj : ∀ i j, nm i = nm j → i = j) (DS : List Stmt) (Dst : List String) (hg : Glob nm DS Dst)
include hB hinj hg

/-- Count / Sum: the accumulator loop -/
theorem agg_da (c : Chain) (n : Nat) (ty : String) (K : CExpr → Option Ty → List Stmt)
    (hKdef : ∀ cur t, K cur t = [.set (nm n) (.bin "+" (.var (nm n)) cur)] ∨ K cur t = [.set (nm n) (.bin "+" (.var (nm n)) (.int 1))])
    (s : DA) (hs : SInv DS Dst s)
    (hacc : Stmt.decl ty (nm n) (some (.int 0)) ∈ DS)
    (hh : Stmt.decl (B.handleTy ((B.collType c.coll).getD "?")) (nm (n + 1)) none ∈ DS)
    (hfresh : ∀ k, n ≤ k → k < (compChain B nm c (n + 1) K).next → nm k ∈ Dst → nm k ∈ [n + 1, n, n + 3].map nm)
    (htok : B.how = "token" → nm (n + 3) ∈ C.tokens) :
    ∃ t, das C (compChain B nm c (n + 1) K).stmts s = some t ∧ SInv DS Dst t ∧ (∀ y ∈ s.A, y ∈ t.A) := by
  have hnext := compChain_next B nm c (n + 1) K
  have haccD : nm n ∈ s.D := by rw [hs.hD]; exact hg.inD _ hacc
  have haccA : nm n ∈ s.A := hs.init _ _ _ hacc
  obtain ⟨t, et, hDt, hst, hAt, _, hTt, hGt⟩ := chain_plain C B hB nm hinj c (n + 1) K s hs.sub
    (by rw [hs.hD]; exact hg.inD _ hh) (by rw [hs.hD]; exact hg.nores)
    (by rw [hs.hD]; exact fresh_of hinj Dst [n + 1, n, n + 3] (n + 2) (by simp) (hfresh (n + 2) (by omega) (by omega)))
    (by
      intro k h1 h2
      rw [hs.hD]
      exact fresh_of hinj Dst [n + 1, n, n + 3] k (by simp; omega) (hfresh k (by omega) h2))
    htok
    (by
      intro sp _ hDp hAp hip
      have hset : ∀ e, okE sp e = true → ∃ tk, das C [.set (nm n) (.bin "+" (.var (nm n)) e)] sp = some tk := by
        intro e he
        have hb := okE_bin (op := "+") (okE_of (s := sp) (e := .var (nm n)) rfl (by simpa [vars] using hAp _ haccA)) he
        exact ⟨_, by rw [das_single]; exact da_set (hDp _ haccD) hb⟩
      rcases hKdef (cbVal B.elemPtr (.var (nm (n + 1 + 1))) c.steps) (cbTy B.elemPtr (.var (nm (n + 1 + 1))) c.steps) with e | e
      · rw [e]
        exact hset _ (cbVal_ok _ _ _ sp rfl (by
          intro x hx; simp only [vars, List.mem_singleton] at hx; subst hx; exact hip))
      · rw [e]; exact hset _ (by simp [okE, clean, vars, subset]))
    (by rcases hKdef (cbVal B.elemPtr (.var (nm (n + 1 + 1))) c.steps) (cbTy B.elemPtr (.var (nm (n + 1 + 1))) c.steps) with e | e <;> rw [e] <;> rfl)
    (by
      intro f hf hm
      have hfa : f = nm n := by
        rcases hKdef (cbVal B.elemPtr (.var (nm (n + 1 + 1))) c.steps) (cbTy B.elemPtr (.var (nm (n + 1 + 1))) c.steps) with e | e <;>
          (rw [e] at hm; simpa [asgL, asg] using hm)
      exact hg.guard_ne (hs.guards f hf) hacc (by simp) hfa)
  refine ⟨t, et, ⟨hDt.trans hs.hD, hst, fun ty x e h => hAt x (hs.init ty x e h), ?_⟩, hAt⟩
  intro f hf
  rcases hf with hf | ⟨y, hy⟩
  · rw [hTt] at hf; simp at hf
  · rcases hGt _ hy with h | h
    · exact hs.guards f (Or.inr ⟨y, h⟩)
    · exact hs.guards f (Or.inl h)

theorem ee_da : ∀ (e : EE) (n : Nat) (s : DA), SInv DS Dst s →
    (∀ d ∈ (compEE B nm e n).decls, d ∈ DS) →
    (∀ k, n ≤ k → k < (compEE B nm e n).next → nm k ∈ Dst → nm k ∈ eeNames B nm e n) →
    (B.how = "token" → ∀ t ∈ eeToks B nm e n, t.1 ∈ C.tokens) →
    ∃ t, das C (compEE B nm e n).stmts s = some t ∧ SInv DS Dst t ∧ (∀ y ∈ s.A, y ∈ t.A)
  | .int _, n, s, hs, _, _, _ => ⟨s, by simp [compEE, das], hs, fun _ h => h⟩
  | .dbl _ _, n, s, hs, _, _, _ => ⟨s, by simp [compEE, das], hs, fun _ h => h⟩
  | .bool _, n, s, hs, _, _, _ => ⟨s, by simp [compEE, das], hs, fun _ h => h⟩
  | .count c, n, s, hs, hsub, hfresh, htok => by
    simp only [compEE] at hsub hfresh ⊢
    exact agg_da C B hB nm hinj DS Dst hg c n "int" _ (fun _ _ => Or.inr rfl) s hs
      (hsub _ (by simp)) (hsub _ (by simp [compChain]))
      (fun k h1 h2 hm => by simpa [eeNames, compEE, compChain, declName, eeToks, chainToks, or_assoc] using hfresh k h1 h2 hm)
      (fun ht => htok ht (nm (n + 1 + 2), (B.collType c.coll).getD "?", c.bank) (by simp [eeToks, chainToks]))
  | .sum c, n, s, hs, hsub, hfresh, htok => by
    simp only [compEE] at hsub hfresh ⊢
    exact agg_da C B hB nm hinj DS Dst hg c n (Ty.join .int ((chainTy none c.steps).getD .double)).cpp _ (fun _ _ => Or.inl rfl) s hs
      (hsub _ (by simp)) (hsub _ (by simp [compChain]))
      (fun k h1 h2 hm => by simpa [eeNames, compEE, compChain, declName, eeToks, chainToks, or_assoc] using hfresh k h1 h2 hm)
      (fun ht => htok ht (nm (n + 1 + 2), (B.collType c.coll).getD "?", c.bank) (by simp [eeToks, chainToks]))
  | .bin op a b, n, s, hs, hsub, hfresh, htok => by
    have h1 := compEE_next_ge B nm a n
    have h2 := compEE_next_ge B nm b (compEE B nm a n).next
    have hfr : ∀ k, n ≤ k → k < (compEE B nm b (compEE B nm a n).next).next → nm k ∈ Dst →
        nm k ∈ eeNames B nm a n ∨ nm k ∈ eeNames B nm b (compEE B nm a n).next := by
      intro k k1 k2 hm
      have := hfresh k k1 (by simpa [compEE] using k2) hm
      simp only [eeNames, compEE, eeToks, List.map_append, List.mem_append] at this ⊢
      rcases this with (h | h) | (h | h)
      · exact Or.inl (Or.inl h)
      · exact Or.inr (Or.inl h)
      · exact Or.inl (Or.inr h)
      · exact Or.inr (Or.inr h)
    obtain ⟨t1, e1, hs1, hA1⟩ := ee_da a n s hs (fun d hd => hsub d (by simp [compEE, hd]))
      (fresh_left hinj (eeNames_range B nm b _) hfr h2)
      (fun ht t hm => htok ht t (by simp [eeToks, hm]))
    obtain ⟨t2, e2, hs2, hA2⟩ := ee_da b _ t1 hs1 (fun d hd => hsub d (by simp [compEE, hd]))
      (fresh_right hinj (eeNames_range B nm a n) hfr h1)
      (fun ht t hm => htok ht t (by simp [eeToks, hm]))
    exact ⟨t2, by simp only [compEE]; exact das_append_some C e1 e2, hs2, fun y hy => hA2 y (hA1 y hy)⟩
  | .cmp op a b, n, s, hs, hsub, hfresh, htok => by
    have h1 := compEE_next_ge B nm a n
    have h2 := compEE_next_ge B nm b (compEE B nm a n).next
    have hfr : ∀ k, n ≤ k → k < (compEE B nm b (compEE B nm a n).next).next → nm k ∈ Dst →
        nm k ∈ eeNames B nm a n ∨ nm k ∈ eeNames B nm b (compEE B nm a n).next := by
      intro k k1 k2 hm
      have := hfresh k k1 (by simpa [compEE] using k2) hm
      simp only [eeNames, compEE, eeToks, List.map_append, List.mem_append] at this ⊢
      rcases this with (h | h) | (h | h)
      · exact Or.inl (Or.inl h)
      · exact Or.inr (Or.inl h)
      · exact Or.inl (Or.inr h)
      · exact Or.inr (Or.inr h)
    obtain ⟨t1, e1, hs1, hA1⟩ := ee_da a n s hs (fun d hd => hsub d (by simp [compEE, hd]))
      (fresh_left hinj (eeNames_range B nm b _) hfr h2)
      (fun ht t hm => htok ht t (by simp [eeToks, hm]))
    obtain ⟨t2, e2, hs2, hA2⟩ := ee_da b _ t1 hs1 (fun d hd => hsub d (by simp [compEE, hd]))
      (fresh_right hinj (eeNames_range B nm a n) hfr h1)
      (fun ht t hm => htok ht t (by simp [eeToks, hm]))
    exact ⟨t2, by simp only [compEE]; exact das_append_some C e1 e2, hs2, fun y hy => hA2 y (hA1 y hy)⟩
  | .neg a, n, s, hs, hsub, hfresh, htok => by
    simpa [compEE] using ee_da a n s hs (by simpa [compEE] using hsub)
      (by simpa [eeNames, compEE, eeToks] using hfresh) (by simpa [eeToks] using htok)
  | .not a, n, s, hs, hsub, hfresh, htok => by
    simpa [compEE] using ee_da a n s hs (by simpa [compEE] using hsub)
      (by simpa [eeNames, compEE, eeToks] using hfresh) (by simpa [eeToks] using htok)

end

/-! ## what the fragments assign -/

theorem compChain_asg (B : Backend) (nm : Nat → String) (c : Chain) (n : Nat) (K : CExpr → Option Ty → List Stmt) :
    ∀ y ∈ asgL (compChain B nm c n K).stmts,
      y = "result" ∨ y = nm n ∨ InRange nm (n + 3) (compChain B nm c n K).next y ∨
        y ∈ asgL (K (cbVal B.elemPtr (.var (nm (n + 1))) c.steps) (cbTy B.elemPtr (.var (nm (n + 1))) c.steps)) := by
  intro y hy
  have h : asgL (compChain B nm c n K).stmts = ["result", nm n] ++
      (asgL (cbPre nm B.elemPtr (.var (nm (n + 1))) c.steps (n + 3)) ++
        asgL (K (cbVal B.elemPtr (.var (nm (n + 1))) c.steps) (cbTy B.elemPtr (.var (nm (n + 1))) c.steps))) := by
    simp [compChain_stmts, asgL, asg, retrBlock, chainBody_fst, asgL_append, cbTail_asg]
  rw [h] at hy
  simp only [List.mem_append, List.mem_cons, List.not_mem_nil, or_false] at hy
  rcases hy with (hy | hy) | hy | hy
  · exact Or.inl hy
  · exact Or.inr (Or.inl hy)
  · rw [compChain_next_eq]; exact Or.inr (Or.inr (Or.inl (cbPre_asg nm _ _ _ _ y hy)))
  · exact Or.inr (Or.inr (Or.inr hy))

theorem compEE_asg (B : Backend) (nm : Nat → String) : ∀ (e : EE) (n : Nat),
    ∀ y ∈ asgL (compEE B nm e n).stmts, Touch nm n (compEE B nm e n).next y
  | .int _, n, y, h => by simp [compEE, asgL] at h
  | .dbl _ _, n, y, h => by simp [compEE, asgL] at h
  | .bool _, n, y, h => by simp [compEE, asgL] at h
  | .count c, n, y, h => by
    simp only [compEE] at h ⊢
    have hn := compChain_next B nm c (n + 1) (fun _ _ => [.set (nm n) (.bin "+" (.var (nm n)) (.int 1))])
    rcases compChain_asg B nm c (n + 1) _ y h with h | h | ⟨j, a, b, e⟩ | h
    · exact Or.inr h
    · exact Or.inl ⟨n + 1, by omega, by omega, h⟩
    · exact Or.inl ⟨j, by omega, b, e⟩
    · exact Or.inl ⟨n, Nat.le_refl _, by omega, by simpa [asgL, asg] using h⟩
  | .sum c, n, y, h => by
    simp only [compEE] at h ⊢
    have hn := compChain_next B nm c (n + 1) (fun cur _ => [.set (nm n) (.bin "+" (.var (nm n)) cur)])
    rcases compChain_asg B nm c (n + 1) _ y h with h | h | ⟨j, a, b, e⟩ | h
    · exact Or.inr h
    · exact Or.inl ⟨n + 1, by omega, by omega, h⟩
    · exact Or.inl ⟨j, by omega, b, e⟩
    · exact Or.inl ⟨n, Nat.le_refl _, by omega, by simpa [asgL, asg] using h⟩
  | .bin _ a b, n, y, h => by
    have h1 := compEE_next_ge B nm a n
    have h2 := compEE_next_ge B nm b (compEE B nm a n).next
    simp only [compEE, asgL_append, List.mem_append] at h ⊢
    rcases h with h | h
    · rcases compEE_asg B nm a n y h with r | r
      · exact Or.inl (r.mono (Nat.le_refl _) h2)
      · exact Or.inr r
    · rcases compEE_asg B nm b _ y h with r | r
      · exact Or.inl (r.mono h1 (Nat.le_refl _))
      · exact Or.inr r
  | .cmp _ a b, n, y, h => by
    have h1 := compEE_next_ge B nm a n
    have h2 := compEE_next_ge B nm b (compEE B nm a n).next
    simp only [compEE, asgL_append, List.mem_append] at h ⊢
    rcases h with h | h
    · rcases compEE_asg B nm a n y h with r | r
      · exact Or.inl (r.mono (Nat.le_refl _) h2)
      · exact Or.inr r
    · rcases compEE_asg B nm b _ y h with r | r
      · exact Or.inl (r.mono h1 (Nat.le_refl _))
      · exact Or.inr r
  | .neg a, n, y, h => by simp only [compEE] at h ⊢; exact compEE_asg B nm a n y h
  | .not a, n, y, h => by simp only [compEE] at h ⊢; exact compEE_asg B nm a n y h

theorem compCol_stmts_first (B : Backend) (nm cn : Nat → String) (idx : Nat) (c : Chain) (n : Nat) :
    (compCol B nm cn idx (.first c) n).stmts =
      (compChain B nm c (n + 1) (fun cur _ => [firstK (nm n) (cn idx) cur])).stmts ++
        [.ite (.var (nm n)) [.throw "First() called on an empty sequence"] []] := rfl

theorem compCol_asg (B : Backend) (nm cn : Nat → String) (idx : Nat) (col : Col) (n : Nat) :
    ∀ y ∈ asgL (compCol B nm cn idx col n).stmts, Touch nm n (compCol B nm cn idx col n).next y ∨ y = cn idx := by
  intro y hy
  cases col with
  | scalar e =>
    have h1 : (compCol B nm cn idx (.scalar e) n).stmts = (compEE B nm e n).stmts := rfl
    have h2 : (compCol B nm cn idx (.scalar e) n).next = (compEE B nm e n).next := rfl
    rw [h1] at hy; rw [h2]
    exact Or.inl (compEE_asg B nm e n y hy)
  | seq c =>
    have h1 : (compCol B nm cn idx (.seq c) n).stmts = (compChain B nm c n (fun cur _ => [.push (cn idx) cur])).stmts := rfl
    have h2 : (compCol B nm cn idx (.seq c) n).next = (compChain B nm c n (fun cur _ => [.push (cn idx) cur])).next := rfl
    have hn := compChain_next B nm c n (fun cur _ => [.push (cn idx) cur])
    rw [h1] at hy; rw [h2]
    rcases compChain_asg B nm c n _ y hy with h | h | ⟨j, a, b, e⟩ | h
    · exact Or.inl (Or.inr h)
    · exact Or.inl (Or.inl ⟨n, Nat.le_refl _, by omega, h⟩)
    · exact Or.inl (Or.inl ⟨j, by omega, b, e⟩)
    · exact Or.inr (by simpa [asgL, asg] using h)
  | first c =>
    have h2 : (compCol B nm cn idx (.first c) n).next =
        (compChain B nm c (n + 1) (fun cur _ => [firstK (nm n) (cn idx) cur])).next := rfl
    have hn := compChain_next B nm c (n + 1) (fun cur _ => [firstK (nm n) (cn idx) cur])
    rw [compCol_stmts_first, asgL_append, List.mem_append] at hy; rw [h2]
    rcases hy with hy | hy
    · rcases compChain_asg B nm c (n + 1) _ y hy with h | h | ⟨j, a, b, e⟩ | h
      · exact Or.inl (Or.inr h)
      · exact Or.inl (Or.inl ⟨n + 1, by omega, by omega, h⟩)
      · exact Or.inl (Or.inl ⟨j, by omega, b, e⟩)
      · have h' : y = nm n ∨ y = cn idx := by simpa [asgL, asg, firstK] using h
        rcases h' with h' | h'
        · exact Or.inl (Or.inl ⟨n, Nat.le_refl _, by omega, h'⟩)
        · exact Or.inr h'
    · simp [asgL, asg] at hy

/-! ## one column -/

def colFragNames (B : Backend) (nm cn : Nat → String) (idx : Nat) (col : Col) (n : Nat) : List String :=
  (compCol B nm cn idx col n).decls.map declName ++ (colToks B nm col n).map (·.1)

theorem colFragNames_range (B : Backend) (nm cn : Nat → String) (idx : Nat) (col : Col) (n : Nat) :
    ∀ y ∈ colFragNames B nm cn idx col n, InRange nm n (compCol B nm cn idx col n).next y := by
  intro y hy
  rcases List.mem_append.1 hy with h | h
  · exact declsIn_names (compCol_decls B nm cn idx col n) y h
  · exact colToks_names B nm cn idx col n y h

section
variable (C : DACtx) (B : Backend) (hB : BackendBase B) (nm cn : Nat → String)
  (hinj : ∀ i j, nm i = nm j → i = j) (hdisj : ∀ j k, nm j ≠ cn k) (hnres : ∀ j, nm j ≠ "result")
  (DS : List Stmt) (Dst : List String) (hg : Glob nm DS Dst)
include hB hinj hdisj hnres hg

theorem col_da (col : Col) (idx n : Nat) (s : DA) (hs : SInv DS Dst s)
    (hsub : ∀ d ∈ (compCol B nm cn idx col n).decls, d ∈ DS)
    (hfresh : ∀ k, n ≤ k → k < (compCol B nm cn idx col n).next → nm k ∈ Dst → nm k ∈ colFragNames B nm cn idx col n)
    (htok : B.how = "token" → ∀ t ∈ colToks B nm col n, t.1 ∈ C.tokens)
    (hv : cn idx ∈ Dst)
    (hseq : ∀ c, col = .seq c → cn idx ∈ s.A)
    (hfirst : ∀ c, col = .first c → Pend s (nm n, cn idx)) :
    ∃ t, das C (compCol B nm cn idx col n).stmts s = some t ∧ SInv DS Dst t ∧ (∀ y ∈ s.A, y ∈ t.A) ∧
      (∀ c, col = .first c → cn idx ∈ t.A) := by
  cases col with
  | scalar e =>
    have h1 : (compCol B nm cn idx (.scalar e) n).stmts = (compEE B nm e n).stmts := rfl
    rw [h1]
    obtain ⟨t, et, hst, hAt⟩ := ee_da C B hB nm hinj DS Dst hg e n s hs hsub hfresh htok
    exact ⟨t, et, hst, hAt, fun c hc => by cases hc⟩
  | seq c =>
    have h1 : (compCol B nm cn idx (.seq c) n).stmts = (compChain B nm c n (fun cur _ => [.push (cn idx) cur])).stmts := rfl
    have h2 : (compCol B nm cn idx (.seq c) n).next = (compChain B nm c n (fun cur _ => [.push (cn idx) cur])).next := rfl
    have hd : Stmt.decl (B.handleTy ((B.collType c.coll).getD "?")) (nm n) none ∈ DS := hsub _ (by simp [compCol, compChain])
    have hfr : ∀ k, n ≤ k → k < (compChain B nm c n (fun cur _ => [.push (cn idx) cur])).next → nm k ∈ Dst →
        nm k ∈ [n, n + 2].map nm := fun k k1 k2 hm => by
      simpa [colFragNames, compCol, compChain, declName, colToks, chainToks] using hfresh k k1 (h2 ▸ k2) hm
    have hnext := compChain_next B nm c n (fun cur _ => [.push (cn idx) cur])
    have hvA : cn idx ∈ s.A := hseq c rfl
    rw [h1]
    obtain ⟨t, et, hDt, hst, hAt, _, hTt, hGt⟩ := chain_plain C B hB nm hinj c n _ s hs.sub
      (by rw [hs.hD]; exact hg.inD _ hd) (by rw [hs.hD]; exact hg.nores)
      (by rw [hs.hD]; exact fresh_of hinj Dst [n, n + 2] (n + 1) (by simp) (hfr (n + 1) (by omega) (by omega)))
      (by
        intro k k1 k2
        rw [hs.hD]
        exact fresh_of hinj Dst [n, n + 2] k (by simp; omega) (hfr k (by omega) k2))
      (fun ht => htok ht (nm (n + 2), (B.collType c.coll).getD "?", c.bank) (by simp [colToks, chainToks]))
      (by
        intro sp _ _ hAp hip
        exact ⟨_, by rw [das_single]; exact da_push (hAp _ hvA) (cbVal_ok _ _ _ sp rfl (by
          intro x hx; simp only [vars, List.mem_singleton] at hx; subst hx; exact hip))⟩)
      rfl
      (by
        intro f hf hm
        have hfa : f = cn idx := by simpa [asgL, asg] using hm
        exact hg.guard_ne_cn hdisj (hs.guards f hf) idx hfa)
    refine ⟨t, et, ⟨hDt.trans hs.hD, hst, fun ty x e h => hAt x (hs.init ty x e h), ?_⟩, hAt, fun c' hc' => by cases hc'⟩
    intro f hf
    rcases hf with hf | ⟨y, hy⟩
    · rw [hTt] at hf; simp at hf
    · rcases hGt _ hy with h | h
      · exact hs.guards f (Or.inr ⟨y, h⟩)
      · exact hs.guards f (Or.inl h)
  | first c =>
    have h2 : (compCol B nm cn idx (.first c) n).next =
        (compChain B nm c (n + 1) (fun cur _ => [firstK (nm n) (cn idx) cur])).next := rfl
    have hd : Stmt.decl (B.handleTy ((B.collType c.coll).getD "?")) (nm (n + 1)) none ∈ DS :=
      hsub _ (by simp [compCol, compChain])
    have hfl : Stmt.decl "bool" (nm n) (some (.bool true)) ∈ DS := hsub _ (by simp [compCol])
    have hfr : ∀ k, n ≤ k → k < (compChain B nm c (n + 1) (fun cur _ => [firstK (nm n) (cn idx) cur])).next → nm k ∈ Dst →
        nm k ∈ [n + 1, n, n + 3].map nm := fun k k1 k2 hm => by
      simpa [colFragNames, compCol, compChain, declName, colToks, chainToks, or_assoc] using hfresh k k1 (h2 ▸ k2) hm
    have hnext := compChain_next B nm c (n + 1) (fun cur _ => [firstK (nm n) (cn idx) cur])
    rw [compCol_stmts_first]
    obtain ⟨t, et, hDt, hst, hAt, _, hTt, hGt, hfv⟩ := chain_first C B hB nm hinj c (n + 1) (nm n) (cn idx) s hs.sub
      (by rw [hs.hD]; exact hg.inD _ hd) (by rw [hs.hD]; exact hg.nores)
      (by rw [hs.hD]; exact fresh_of hinj Dst [n + 1, n, n + 3] (n + 2) (by simp) (hfr (n + 2) (by omega) (by omega)))
      (by
        intro k k1 k2
        rw [hs.hD]
        exact fresh_of hinj Dst [n + 1, n, n + 3] k (by simp; omega) (hfr k (by omega) k2))
      (fun ht => htok ht (nm (n + 1 + 2), (B.collType c.coll).getD "?", c.bank) (by simp [colToks, chainToks]))
      (hs.init _ _ _ hfl) (by rw [hs.hD]; exact hv) (fun e => by have := hinj _ _ e; omega) (hnres n)
      (hfirst c rfl) (fun f hf => hg.guard_ne_cn hdisj (hs.guards f hf) idx)
    -- the emptiness check
    have hflA : nm n ∈ t.A := hAt _ (hs.init _ _ _ hfl)
    have hvD : cn idx ∈ t.D := by rw [hDt, hs.hD]; exact hv
    have e2 : da C (.ite (.var (nm n)) [.throw "First() called on an empty sequence"] []) t =
        some ((t.knowFalse (.var (nm n))).restrict t.D) :=
      da_ite_throw (okE_of rfl (by simpa [vars] using hflA)) rfl
    obtain ⟨hs2, hA2, _⟩ := da_mono C _ t _ e2 hst
    refine ⟨(t.knowFalse (.var (nm n))).restrict t.D, das_append_some C et (by rw [das_single]; exact e2),
      ⟨hDt.trans hs.hD, hs2, fun ty x e h => hA2 x (hAt x (hs.init ty x e h)), ?_⟩,
      fun y hy => hA2 y (hAt y hy), fun _ _ => ?_⟩
    · intro f hf
      have hf' : f ∈ t.T ∨ ∃ y, (f, y) ∈ t.G := by
        rcases hf with hf | ⟨y, hy⟩
        · exact Or.inl (by have := ((mem_restrict_T _ _ _).1 hf).1; rwa [knowFalse_T] at this)
        · exact Or.inr ⟨y, by have := ((mem_restrict_G _ _ _).1 hy).1; rwa [knowFalse_G] at this⟩
      rcases hf' with hf' | ⟨y, hy⟩
      · rw [hTt] at hf'; simp at hf'
      · rcases hGt _ hy with h | h
        · exact hs.guards f (Or.inr ⟨y, h⟩)
        · exact hs.guards f (Or.inl h)
    · refine (mem_restrict_A _ _ _).2 ⟨?_, hvD⟩
      simp only [DA.knowFalse, List.mem_append, List.mem_filter, List.mem_map, decide_eq_true_eq]
      exact Or.inl ⟨⟨(nm n, cn idx), ⟨hfv, by simp⟩, rfl⟩, hvD⟩

end

/-! ## column lists -/

/-- the `First()` columns of the list (compiled from column index `idx`, supply position `n`) still have
their flag and column variable declared, and the fact "flag false ⇒ column variable set" pending -/
def PendAll (B : Backend) (nm cn : Nat → String) : List Col → Nat → Nat → DA → Prop
  | [], _, _, _ => True
  | c :: cs, idx, n, s =>
    (∀ ch, c = .first ch → nm n ∈ s.D ∧ cn idx ∈ s.D ∧ Pend s (nm n, cn idx)) ∧
    PendAll B nm cn cs (idx + 1) (compCol B nm cn idx c n).next s

/-- the column variables of the selected columns are initialised -/
def ColsA (cn : Nat → String) (sel : Col → Prop) : List Col → Nat → DA → Prop
  | [], _, _ => True
  | c :: cs, idx, s => (sel c → cn idx ∈ s.A) ∧ ColsA cn sel cs (idx + 1) s

def IsSeq (c : Col) : Prop := ∃ ch, c = .seq ch
def IsFirst (c : Col) : Prop := ∃ ch, c = .first ch
def IsScalar (c : Col) : Prop := ∃ e, c = .scalar e

theorem ColsA.mono {cn : Nat → String} {sel : Col → Prop} {s t : DA} (hA : ∀ y ∈ s.A, y ∈ t.A) :
    ∀ (cols : List Col) (idx : Nat), ColsA cn sel cols idx s → ColsA cn sel cols idx t
  | [], _, _ => trivial
  | _ :: cs, idx, h => ⟨fun hc => hA _ (h.1 hc), ColsA.mono hA cs (idx + 1) h.2⟩

theorem PendAll.mono {B : Backend} {nm cn : Nat → String} {s t : DA} (hD : ∀ y ∈ s.D, y ∈ t.D) :
    ∀ (cols : List Col) (idx n : Nat),
      (∀ k j, n ≤ k → nm k ∈ s.D → cn j ∈ s.D → Pend s (nm k, cn j) → Pend t (nm k, cn j)) →
      PendAll B nm cn cols idx n s → PendAll B nm cn cols idx n t
  | [], _, _, _, _ => trivial
  | c :: cs, idx, n, hp, h => by
    refine ⟨fun ch hc => ?_, PendAll.mono hD cs (idx + 1) _ (fun k j hk => hp k j ?_) h.2⟩
    · obtain ⟨h1, h2, h3⟩ := h.1 ch hc
      exact ⟨hD _ h1, hD _ h2, hp n idx (Nat.le_refl _) h1 h2 h3⟩
    · have := compCol_next_ge B nm cn idx c n; omega

def colsFragNames (B : Backend) (nm cn : Nat → String) (cols : List Col) (idx n : Nat) : List String :=
  ((compCols B nm cn cols idx n).flatMap (·.decls)).map declName ++ (colsToks B nm cn cols idx n).map (·.1)

theorem colsFragNames_range (B : Backend) (nm cn : Nat → String) (cols : List Col) (idx n : Nat) :
    ∀ y ∈ colsFragNames B nm cn cols idx n, InRange nm n (colsNext B nm cn cols idx n) y := by
  intro y hy
  rcases List.mem_append.1 hy with h | h
  · exact declsIn_names (compCols_declsIn B nm cn cols idx n) y h
  · exact colsToks_names B nm cn cols idx n y h

section
variable (C : DACtx) (B : Backend) (hB : BackendBase B) (nm cn : Nat → String)
  (hinj : ∀ i j, nm i = nm j → i = j) (hdisj : ∀ j k, nm j ≠ cn k) (hnres : ∀ j, nm j ≠ "result")
  (DS : List Stmt) (Dst : List String) (hg : Glob nm DS Dst)
include hB hinj hdisj hnres hg

/-- **the loop code of all columns is accepted**; afterwards every `First()` column variable is initialised -/
theorem cols_da : ∀ (cols : List Col) (idx n : Nat) (s : DA), SInv DS Dst s →
    (∀ d ∈ (compCols B nm cn cols idx n).flatMap (·.decls), d ∈ DS) →
    (∀ k, n ≤ k → k < colsNext B nm cn cols idx n → nm k ∈ Dst → nm k ∈ colsFragNames B nm cn cols idx n) →
    (B.how = "token" → ∀ t ∈ colsToks B nm cn cols idx n, t.1 ∈ C.tokens) →
    (∀ j, idx ≤ j → j < idx + cols.length → cn j ∈ Dst) →
    ColsA cn IsSeq cols idx s → PendAll B nm cn cols idx n s →
    ∃ t, das C ((compCols B nm cn cols idx n).flatMap (·.stmts)) s = some t ∧ SInv DS Dst t ∧
      (∀ y ∈ s.A, y ∈ t.A) ∧ ColsA cn IsFirst cols idx t
  | [], idx, n, s, hs, _, _, _, _, _, _ => ⟨s, by simp [compCols, das], hs, fun _ h => h, trivial⟩
  | c :: cs, idx, n, s, hs, hsub, hfresh, htok, hv, hseq, hpend => by
    have h1 := compCol_next_ge B nm cn idx c n
    have h2 := colsNext_ge B nm cn cs (idx + 1) (compCol B nm cn idx c n).next
    have hfr : ∀ k, n ≤ k → k < colsNext B nm cn cs (idx + 1) (compCol B nm cn idx c n).next → nm k ∈ Dst →
        nm k ∈ colFragNames B nm cn idx c n ∨ nm k ∈ colsFragNames B nm cn cs (idx + 1) (compCol B nm cn idx c n).next := by
      intro k k1 k2 hm
      have := hfresh k k1 (by simpa [colsNext] using k2) hm
      simp only [colsFragNames, colFragNames, compCols, colsToks, List.flatMap_cons, List.map_append, List.mem_append] at this ⊢
      rcases this with (h | h) | (h | h)
      · exact Or.inl (Or.inl h)
      · exact Or.inr (Or.inl h)
      · exact Or.inl (Or.inr h)
      · exact Or.inr (Or.inr h)
    obtain ⟨t1, e1, hs1, hA1, hF1⟩ := col_da C B hB nm cn hinj hdisj hnres DS Dst hg c idx n s hs
      (fun d hd => hsub d (by simp [compCols, hd]))
      (fresh_left hinj (colsFragNames_range B nm cn cs _ _) hfr h2)
      (fun ht t hm => htok ht t (by simp [colsToks, hm]))
      (hv idx (Nat.le_refl _) (by simp))
      (fun ch hc => hseq.1 ⟨ch, hc⟩) (fun ch hc => (hpend.1 ch hc).2.2)
    have hD1 : t1.D = s.D := hs1.hD.trans hs.hD.symm
    have hpend1 : PendAll B nm cn cs (idx + 1) (compCol B nm cn idx c n).next t1 := by
      refine PendAll.mono (fun y hy => hD1 ▸ hy) cs (idx + 1) _ ?_ hpend.2
      intro k j hk hkD hjD hp
      refine (das_frame C _ s t1 e1 (nm k, cn j) hkD hjD ?_).2 hp
      intro hm
      rcases compCol_asg B nm cn idx c n _ hm with (⟨i, _, i2, e⟩ | h) | h
      · have := hinj _ _ e; omega
      · exact hnres k h
      · exact hdisj k idx h
    obtain ⟨t2, e2, hs2, hA2, hF2⟩ := cols_da cs (idx + 1) _ t1 hs1
      (fun d hd => hsub d (by simp [compCols, hd]))
      (fresh_right hinj (colFragNames_range B nm cn idx c n) hfr h1)
      (fun ht t hm => htok ht t (by simp [colsToks, hm]))
      (fun j j1 j2 => hv j (by omega) (by simp only [List.length_cons]; omega))
      (ColsA.mono hA1 cs (idx + 1) hseq.2) hpend1
    refine ⟨t2, by simp only [compCols, List.flatMap_cons]; exact das_append_some C e1 e2, hs2,
      fun y hy => hA2 y (hA1 y hy), fun ⟨ch, hc⟩ => hA2 _ (hF1 ch hc), hF2⟩

end

end FaxVerif.Gen.Wf
