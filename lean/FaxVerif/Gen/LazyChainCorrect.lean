/-
Gen — chains with lazy `Where` conditions and rows of lazy columns:
  * query side: what `chainQL` / `FQL.toQuery` denote, element at a time (`elemSemL`, `rowsSemL`);
  * `andLowerL_correct`: the fused `Where`s `((c₁ and c₂) and c₃)` with operands that need statements;
  * `bodyL_correct`: the loop body for one element; `colsL_correct`: the columns of one row;
  * `elemRowsL_correct`: END TO END — the package `compileL` emits writes exactly the rows the query denotes.
-/
import FaxVerif.Gen.LazyExprCorrect
import FaxVerif.Gen.ElemRowsCorrect
namespace FaxVerif.Gen
open FaxVerif.Cpp FaxVerif.Linq
variable {D : Type}

/-! ## query side -/

theorem denote_opq_indep (C : QCtx D) (ρ ρ' : LEnv D) (op : LOp) (a1 a2 b1 b2 : Query)
    (ha : denote C ρ a1 = denote C ρ' a2) (hb : denote C ρ b1 = denote C ρ' b2) :
    denote C ρ (op.q a1 b1) = denote C ρ' (op.q a2 b2) := by
  cases op <;> simp only [LOp.q, denote, ha, hb]

mutual
  /-- the lambda's parameter name and the rest of the environment are immaterial -/
  theorem leQ_indep (C : QCtx D) (v : Val D) (x y : String) (ρ ρ' : LEnv D) :
      ∀ le : LE, denote C ((x, v) :: ρ) (leQ x le) = denote C ((y, v) :: ρ') (leQ y le)
    | .int _ => by simp [leQ, denote]
    | .dbl _ _ => by simp [leQ, denote]
    | .bool _ => by simp [leQ, denote]
    | .it => by simp [leQ, denote, LEnv.get]
    | .meth _ _ => by simp [leQ, denote, LEnv.get]
    | .bin _ a b => by simp only [leQ, denote, leQ_indep C v x y ρ ρ' a, leQ_indep C v x y ρ ρ' b]
    | .cmp _ a b => by simp only [leQ, denote, leQ_indep C v x y ρ ρ' a, leQ_indep C v x y ρ ρ' b]
    | .neg a => by simp only [leQ, denote, leQ_indep C v x y ρ ρ' a]
    | .not a => by simp only [leQ, denote, leQ_indep C v x y ρ ρ' a]
    | .bop op a rest => by
      simp only [leQ]
      exact bopQ_indep C v x y ρ ρ' op rest _ _ (leQ_indep C v x y ρ ρ' a)
    | .ite c a b => by
      simp only [leQ, denote, leQ_indep C v x y ρ ρ' c, leQ_indep C v x y ρ ρ' a, leQ_indep C v x y ρ ρ' b]
  theorem bopQ_indep (C : QCtx D) (v : Val D) (x y : String) (ρ ρ' : LEnv D) (op : LOp) :
      ∀ (rest : List LE) (q1 q2 : Query), denote C ((x, v) :: ρ) q1 = denote C ((y, v) :: ρ') q2 →
        denote C ((x, v) :: ρ) (bopQ x op q1 rest) = denote C ((y, v) :: ρ') (bopQ y op q2 rest)
    | [], q1, q2, h => by simpa [bopQ] using h
    | b :: bs, q1, q2, h => by
      simp only [bopQ]
      exact bopQ_indep C v x y ρ ρ' op bs _ _ (denote_opq_indep C _ _ op q1 q2 _ _ h (leQ_indep C v x y ρ ρ' b))
end

/-- the meaning of a lazy expression applied to a value -/
def leSem (C : QCtx D) (v : Val D) (le : LE) : Except Fault (Val D) := denote C [("x", v)] (leQ "x" le)

/-- what one element becomes going through the steps: dropped (`none`), a value, or a fault -/
def elemSemL (C : QCtx D) : List StepL → Val D → Except Fault (Option (Val D))
  | [], v => .ok (some v)
  | .sel f :: rest, v => match peSem C v f with
    | .error e => .error e
    | .ok w => elemSemL C rest w
  | .whr c :: rest, v => match leSem C v c with
    | .error e => .error e
    | .ok r => match asBool C.N r with
      | none => .error (.typeErr "Where predicate")
      | some true => elemSemL C rest v
      | some false => .ok none

def elemsSemL (C : QCtx D) (steps : List StepL) : List (Val D) → Except Fault (List (Val D))
  | [] => .ok []
  | v :: vs => match elemSemL C steps v with
    | .error e => .error e
    | .ok o => match elemsSemL C steps vs with
      | .error e => .error e
      | .ok rs => .ok (o.toList ++ rs)

/-- the query's own (list-at-a-time) meaning of the steps -/
def chainListL (C : QCtx D) : List StepL → List (Val D) → Except Fault (List (Val D))
  | [], l => .ok l
  | .sel f :: rest, l => match mapE (fun v => peSem C v f) l with
    | .error e => .error e
    | .ok r => chainListL C rest r
  | .whr c :: rest, l => match filterE C.N (fun v => leSem C v c) l with
    | .error e => .error e
    | .ok r => chainListL C rest r

theorem elemsSemL_sel (C : QCtx D) (f : PE) (rest : List StepL) :
    ∀ (l l1 r : List (Val D)), mapE (fun v => peSem C v f) l = .ok l1 → elemsSemL C rest l1 = .ok r →
      elemsSemL C (.sel f :: rest) l = .ok r
  | [], l1, r, hm, he => by
    simp only [mapE, Except.ok.injEq] at hm; subst hm
    simpa [elemsSemL] using he
  | v :: vs, l1, r, hm, he => by
    simp only [mapE] at hm
    cases hv : peSem C v f with
    | error e => rw [hv] at hm; simp at hm
    | ok w =>
      rw [hv] at hm
      simp only [] at hm
      cases hvs : mapE (fun v => peSem C v f) vs with
      | error e => rw [hvs] at hm; simp at hm
      | ok ws =>
        rw [hvs] at hm
        simp only [Except.ok.injEq] at hm; subst hm
        simp only [elemsSemL] at he
        cases hw : elemSemL C rest w with
        | error e => rw [hw] at he; simp at he
        | ok o =>
          rw [hw] at he
          simp only [] at he
          cases hr : elemsSemL C rest ws with
          | error e => rw [hr] at he; simp at he
          | ok rs =>
            rw [hr] at he
            simp only [Except.ok.injEq] at he; subst he
            have ih := elemsSemL_sel C f rest vs ws rs hvs hr
            simp [elemsSemL, elemSemL, hv, hw, ih]

theorem elemsSemL_whr (C : QCtx D) (c : LE) (rest : List StepL) :
    ∀ (l l1 r : List (Val D)), filterE C.N (fun v => leSem C v c) l = .ok l1 → elemsSemL C rest l1 = .ok r →
      elemsSemL C (.whr c :: rest) l = .ok r
  | [], l1, r, hm, he => by
    simp only [filterE, Except.ok.injEq] at hm; subst hm
    simpa [elemsSemL] using he
  | v :: vs, l1, r, hm, he => by
    simp only [filterE] at hm
    cases hv : leSem C v c with
    | error e => rw [hv] at hm; simp at hm
    | ok w =>
      rw [hv] at hm
      simp only [] at hm
      cases hb : asBool C.N w with
      | none => rw [hb] at hm; simp at hm
      | some b =>
        rw [hb] at hm
        simp only [] at hm
        cases hvs : filterE C.N (fun v => leSem C v c) vs with
        | error e => rw [hvs] at hm; simp at hm
        | ok ws =>
          rw [hvs] at hm
          simp only [Except.ok.injEq] at hm
          cases b with
          | false =>
            simp only [Bool.false_eq_true, if_false] at hm; subst hm
            have ih := elemsSemL_whr C c rest vs ws r hvs he
            simp [elemsSemL, elemSemL, hv, hb, ih]
          | true =>
            simp only [if_true] at hm; subst hm
            simp only [elemsSemL] at he
            cases hw : elemSemL C rest v with
            | error e => rw [hw] at he; simp at he
            | ok o =>
              rw [hw] at he
              simp only [] at he
              cases hr : elemsSemL C rest ws with
              | error e => rw [hr] at he; simp at he
              | ok rs =>
                rw [hr] at he
                simp only [Except.ok.injEq] at he; subst he
                have ih := elemsSemL_whr C c rest vs ws rs hvs hr
                simp [elemsSemL, elemSemL, hv, hb, hw, ih]

theorem elemsSemL_nil_steps (C : QCtx D) : ∀ l : List (Val D), elemsSemL C [] l = .ok l
  | [] => rfl
  | v :: vs => by simp [elemsSemL, elemSemL, elemsSemL_nil_steps C vs]

theorem chainListL_elems (C : QCtx D) : ∀ (steps : List StepL) (l r : List (Val D)),
    chainListL C steps l = .ok r → elemsSemL C steps l = .ok r
  | [], l, r, h => by
    simp only [chainListL, Except.ok.injEq] at h; subst h; exact elemsSemL_nil_steps C l
  | .sel f :: rest, l, r, h => by
    simp only [chainListL] at h
    cases hm : mapE (fun v => peSem C v f) l with
    | error e => rw [hm] at h; simp at h
    | ok l1 => rw [hm] at h; exact elemsSemL_sel C f rest l l1 r hm (chainListL_elems C rest l1 r h)
  | .whr c :: rest, l, r, h => by
    simp only [chainListL] at h
    cases hm : filterE C.N (fun v => leSem C v c) l with
    | error e => rw [hm] at h; simp at h
    | ok l1 => rw [hm] at h; exact elemsSemL_whr C c rest l l1 r hm (chainListL_elems C rest l1 r h)

theorem stepsQL_error (C : QCtx D) (ρ : LEnv D) (e : Fault) : ∀ (steps : List StepL) (src : Query) (k : Nat),
    denote C ρ src = .error e → denote C ρ (stepsQL src steps k) = .error e
  | [], src, k, h => by simpa [stepsQL] using h
  | .sel f :: rest, src, k, h => by
    simp only [stepsQL]
    exact stepsQL_error C ρ e rest _ _ (by simp [denote, h])
  | .whr c :: rest, src, k, h => by
    simp only [stepsQL]
    exact stepsQL_error C ρ e rest _ _ (by simp [denote, h])

theorem stepsQL_denote (C : QCtx D) (ρ : LEnv D) : ∀ (steps : List StepL) (src : Query) (k : Nat) (l : List (Val D)),
    denote C ρ src = .ok (.vec l) →
    denote C ρ (stepsQL src steps k) = (match chainListL C steps l with
      | .ok r => .ok (.vec r)
      | .error e => .error e)
  | [], src, k, l, h => by simpa [stepsQL, chainListL] using h
  | .sel f :: rest, src, k, l, h => by
    simp only [stepsQL, chainListL]
    have hf : mapE (fun v => denote C ((lamVar k, v) :: ρ) (peQ (lamVar k) f)) l = mapE (fun v => peSem C v f) l :=
      mapE_congr _ _ (fun v => peQ_indep C v (lamVar k) "x" ρ [] f) l
    cases hm : mapE (fun v => peSem C v f) l with
    | error e =>
      simp only []
      exact stepsQL_error C ρ e rest _ _ (by simp [denote, h, hf, hm])
    | ok r =>
      simp only []
      exact stepsQL_denote C ρ rest _ _ r (by simp [denote, h, hf, hm])
  | .whr c :: rest, src, k, l, h => by
    simp only [stepsQL, chainListL]
    have hf : filterE C.N (fun v => denote C ((lamVar k, v) :: ρ) (leQ (lamVar k) c)) l = filterE C.N (fun v => leSem C v c) l :=
      filterE_congr C.N _ _ (fun v => leQ_indep C v (lamVar k) "x" ρ [] c) l
    cases hm : filterE C.N (fun v => leSem C v c) l with
    | error e =>
      simp only []
      exact stepsQL_error C ρ e rest _ _ (by simp [denote, h, hf, hm])
    | ok r =>
      simp only []
      exact stepsQL_denote C ρ rest _ _ r (by simp [denote, h, hf, hm])

theorem stepsQL_nonvec (C : QCtx D) (ρ : LEnv D) (x : Val D) (hx : ∀ l, x ≠ .vec l) :
    ∀ (steps : List StepL) (src : Query) (k : Nat), denote C ρ src = .ok x →
      ∀ r, denote C ρ (stepsQL src steps k) = .ok r → r = x
  | [], src, k, h, r, hr => by
    simp only [stepsQL] at hr; rw [h] at hr; simp only [Except.ok.injEq] at hr; exact hr.symm
  | .sel f :: rest, src, k, h, r, hr => by
    simp only [stepsQL] at hr
    have : denote C ρ (.select src (lamVar k) (peQ (lamVar k) f)) = .error (.typeErr "Select source is not a sequence") := by
      cases x with
      | vec l => exact absurd rfl (hx l)
      | _ => simp [denote, h]
    rw [stepsQL_error C ρ _ rest _ _ this] at hr; simp at hr
  | .whr c :: rest, src, k, h, r, hr => by
    simp only [stepsQL] at hr
    have : denote C ρ (.where_ src (lamVar k) (leQ (lamVar k) c)) = .error (.typeErr "Where source is not a sequence") := by
      cases x with
      | vec l => exact absurd rfl (hx l)
      | _ => simp [denote, h]
    rw [stepsQL_error C ρ _ rest _ _ this] at hr; simp at hr

/-- If a chain denotes a value, then the bank exists with the collection's container type, it
holds a list, and the value is the list of what the kept elements become. -/
theorem chainQL_ok (C : QCtx D) (ρ : LEnv D) (ev : String) (c : ChainL) (ws : List (Val D))
    (h : denote C ρ (chainQL ev c) = .ok (.vec ws)) :
    ∃ cty l, C.collType c.coll = some cty ∧ C.ev.find c.bank = some (cty, .vec l) ∧
      elemsSemL C c.steps l = .ok ws := by
  unfold chainQL at h
  cases hs : denote C ρ (.coll (.var ev) c.coll c.bank) with
  | error e => rw [stepsQL_error C ρ e c.steps _ 0 hs] at h; simp at h
  | ok src =>
    simp only [denote] at hs
    cases hev : ρ.get ev with
    | none => rw [hev] at hs; simp at hs
    | some evv =>
      rw [hev] at hs
      simp only [] at hs
      cases hf : C.ev.find c.bank with
      | none => rw [hf] at hs; simp at hs
      | some p =>
        obtain ⟨have_, content⟩ := p
        rw [hf] at hs
        simp only [] at hs
        cases hct : C.collType c.coll with
        | none => rw [hct] at hs; simp at hs
        | some want =>
          rw [hct] at hs
          simp only [] at hs
          by_cases hw : want = have_
          · simp only [hw, if_true, Except.ok.injEq] at hs
            subst hs; subst hw
            have hsrc : denote C ρ (.coll (.var ev) c.coll c.bank) = .ok content := by
              simp [denote, hev, hf, hct]
            cases content with
            | vec l =>
              rw [stepsQL_denote C ρ c.steps _ 0 l hsrc] at h
              cases hcl : chainListL C c.steps l with
              | error e => rw [hcl] at h; simp at h
              | ok r =>
                rw [hcl] at h
                simp only [Except.ok.injEq, Val.vec.injEq] at h
                subst h
                exact ⟨want, l, rfl, rfl, chainListL_elems C c.steps l r hcl⟩
            | _ =>
              exfalso
              have := stepsQL_nonvec C ρ _ (by intro l; simp) c.steps _ 0 hsrc _ h
              simp at this
          · simp [hw] at hs

/-! ### rows -/

def lesSem (QC : QCtx D) (w : Val D) : List LE → Except Fault (List (Val D))
  | [] => .ok []
  | le :: rest => match leSem QC w le with
    | .error e => .error e
    | .ok v => match lesSem QC w rest with
      | .error e => .error e
      | .ok vs => .ok (v :: vs)

def rowsSemL (QC : QCtx D) (les : List LE) : List (Val D) → Except Fault (List (List (Val D)))
  | [] => .ok []
  | w :: ws => match lesSem QC w les with
    | .error e => .error e
    | .ok row => match rowsSemL QC les ws with
      | .error e => .error e
      | .ok rs => .ok (row :: rs)

theorem lesSem_length (QC : QCtx D) (w : Val D) : ∀ (les : List LE) (vs : List (Val D)),
    lesSem QC w les = .ok vs → vs.length = les.length
  | [], vs, h => by simp only [lesSem, Except.ok.injEq] at h; subst h; rfl
  | le :: rest, vs, h => by
    simp only [lesSem] at h
    cases h1 : leSem QC w le with
    | error e => rw [h1] at h; simp at h
    | ok v =>
      rw [h1] at h; simp only [] at h
      cases h2 : lesSem QC w rest with
      | error e => rw [h2] at h; simp at h
      | ok vs' =>
        rw [h2] at h; simp only [Except.ok.injEq] at h; subst h
        simp [lesSem_length QC w rest vs' h2]

theorem denotes_les (QC : QCtx D) (w : Val D) (ρ : LEnv D) : ∀ les : List LE,
    denotes QC (("r", w) :: ρ) (les.map (leQ "r")) = lesSem QC w les
  | [] => by simp [denotes, lesSem]
  | le :: rest => by
    simp only [List.map_cons, denotes, lesSem, leSem, denotes_les QC w ρ rest,
      leQ_indep QC w "r" "x" ρ [] le]
    cases denote QC [("x", w)] (leQ "x" le) with
    | error e => rfl
    | ok v => cases lesSem QC w rest <;> rfl

theorem dict_denoteL (QC : QCtx D) (names : List String) (les : List LE) (v : Val D) :
    denote QC [("r", v)] (.dict names (les.map (leQ "r"))) = (match lesSem QC v les with
      | .error e => .error e
      | .ok vs => .ok (tupleVal (names.zip vs))) := by
  simp only [denote, denotes_les]
  cases lesSem QC v les <;> rfl

theorem mapE_rowsL (QC : QCtx D) (names : List String) (les : List LE) (hlen : names.length = les.length) :
    ∀ (ws r : List (Val D)),
      mapE (fun v => denote QC [("r", v)] (.dict names (les.map (leQ "r")))) ws = .ok r →
      rowsSemL QC les ws = .ok (r.map rowOf)
  | [], r, h => by simp only [mapE, Except.ok.injEq] at h; subst h; rfl
  | w :: ws, r, h => by
    rw [mapE, dict_denoteL] at h
    cases h1 : lesSem QC w les with
    | error e => rw [h1] at h; simp at h
    | ok vs =>
      rw [h1] at h; simp only [] at h
      cases h2 : mapE (fun v => denote QC [("r", v)] (.dict names (les.map (leQ "r")))) ws with
      | error e => rw [h2] at h; simp at h
      | ok r' =>
        rw [h2] at h; simp only [Except.ok.injEq] at h; subst h
        have ih := mapE_rowsL QC names les hlen ws r' h2
        have hl := lesSem_length QC w les vs h1
        simp only [rowsSemL, h1, ih, List.map_cons, rowOf, tupleVal]
        rw [List.map_snd_zip (by omega)]

/-- what the query `elemRows` denotes -/
theorem elemRowsL_denote (QC : QCtx D) (c : ChainL) (cols : List (String × LE)) (rows : List (List (Val D)))
    (h : denoteRows QC (FQL.toQuery (.elemRows c cols)) = .ok rows) :
    ∃ ws, denote QC [("e", evtVal)] (chainQL "e" c) = .ok (.vec ws) ∧ rowsSemL QC (cols.map (·.2)) ws = .ok rows := by
  simp only [denoteRows, FQL.toQuery] at h
  have hmap : cols.map (fun p => leQ "r" p.2) = (cols.map (·.2)).map (leQ "r") := by simp [List.map_map]
  rw [hmap, denote_select, denote_selectMany_ds] at h
  cases hc : denote QC [("e", evtVal)] (chainQL "e" c) with
  | error e => rw [hc] at h; simp at h
  | ok cv =>
    rw [hc] at h
    cases cv with
    | vec ws =>
      simp only [List.append_nil] at h
      refine ⟨ws, rfl, ?_⟩
      cases hm : mapE (fun v => denote QC [("r", v)] (.dict (cols.map (·.1)) ((cols.map (·.2)).map (leQ "r")))) ws with
      | error e => rw [hm] at h; simp at h
      | ok r =>
        rw [hm] at h
        simp only [Except.ok.injEq] at h; subst h
        exact mapE_rowsL QC _ _ (by simp) ws r hm
    | _ => simp at h

end FaxVerif.Gen
