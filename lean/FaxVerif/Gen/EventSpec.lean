/-
Gen — side conditions for event-level expressions and rows.
-/
import FaxVerif.Gen.LiteSpec
namespace FaxVerif.Gen
open FaxVerif.Cpp FaxVerif.Linq
variable {D : Type}

def Ty.isFloating : Ty → Bool
  | .float => true
  | .double => true
  | _ => false

/-- element type of a chain that ends in numbers -/
def chainNumTy (c : Chain) : Option Ty :=
  match chainTy none c.steps with
  | some t => if t.isNum then some t else none
  | none => none

def wtEE : EE → Bool
  | .int _ => true
  | .dbl _ _ => true
  | .bool _ => true
  | .count c => wtSteps none c.steps
  | .sum c => wtSteps none c.steps && (chainNumTy c).isSome
  | .bin _ a b => wtEE a && wtEE b && (tyEE a).isNum && (tyEE b).isNum
  | .cmp _ a b => wtEE a && wtEE b && (tyEE a).isNum && (tyEE b).isNum
  | .neg a => wtEE a && (tyEE a).isNum
  | .not a => wtEE a && (tyEE a == .bool)

def chainsEE : EE → List Chain
  | .count c => [c]
  | .sum c => [c]
  | .bin _ a b => chainsEE a ++ chainsEE b
  | .cmp _ a b => chainsEE a ++ chainsEE b
  | .neg a => chainsEE a
  | .not a => chainsEE a
  | _ => []

def sumChainsEE : EE → List Chain
  | .sum c => [c]
  | .bin _ a b => sumChainsEE a ++ sumChainsEE b
  | .cmp _ a b => sumChainsEE a ++ sumChainsEE b
  | .neg a => sumChainsEE a
  | .not a => sumChainsEE a
  | _ => []

/-- every object of the bank a chain ranges over returns values of the declared kinds -/
def ChainTyped (QC : QCtx D) (c : Chain) : Prop :=
  ∀ cty l, QC.ev.find c.bank = some (cty, .vec l) → ∀ v ∈ l, MethTyped v (methsSteps c.steps)

/-- A floating-point `Sum` ranges over at least one kept element on this event. (For an empty
one the emitted accumulator holds 0.0 where Python's `sum([])` is the integer 0; the two are
numerically equal but are different values of the model — this case is left to the numeric
comparison of the correspondence stream.) -/
def SumNonEmpty (QC : QCtx D) (c : Chain) : Prop :=
  ∀ t, chainTy none c.steps = some t → t.isFloating = true →
    ∀ cty l ws, QC.ev.find c.bank = some (cty, .vec l) → elemsSem QC c.steps l = .ok ws → ws ≠ []

def litOf : CExpr → Option (Val D)
  | .int k => some (.int k)
  | .bool b => some (.bool b)
  | _ => none

/-- the value a declaration `ty x (lit);` leaves in `x`: the literal converted to the declared type -/
def initValOf (N : Num D) (ty : String) (e : CExpr) : Val D :=
  match litOf (D := D) e with
  | some v => (match castTo N ty v with
    | .ok v' => v'
    | .error _ => v)
  | none => .int 0

/-- the value a declaration `ty x (0);` leaves in `x` -/
def initVal (N : Num D) (ty : String) : Val D := initValOf N ty (.int 0)

def DeclOK (N : Num D) (σ : Env D) : Stmt → Prop
  | .decl _ x none => (σ x).isSome = true
  | .decl ty x (some e) => σ x = some (.val (initValOf N ty e))
  | _ => False

def DeclsDone (N : Num D) (decls : List Stmt) (σ : Env D) : Prop := ∀ d ∈ decls, DeclOK N σ d

end FaxVerif.Gen
