/-
Gen — the statement shape emitted for `First()` of a chain (is_first flag outside the loop,
guarded capture inside, throw-if-still-first after the loop).
-/
import FaxVerif.Gen.EECorrect
namespace FaxVerif.Gen
open FaxVerif.Cpp FaxVerif.Linq
variable {D : Type}

theorem exec_set_ok (C : Ctx D) (s : St D) (x : String) (e : CExpr) (v : Val D)
    (hx : (s.env x).isSome = true) (he : evalE C.N s.env e = .ok v) :
    exec C (.set x e) s = .ok { s with env := s.env.set x v } := by
  simp only [exec, he]
  cases h : s.env x with
  | none => rw [h] at hx; simp at hx
  | some _ => rfl

theorem exec_ite_of (C : Ctx D) (s : St D) (c : CExpr) (t e : List Stmt) (v : Val D) (b : Bool)
    (hc : evalE C.N s.env c = .ok v) (hb : asBool C.N v = some b) :
    exec C (.ite c t e) s = execs C (if b then t else e) s := by
  simp only [exec, hc, hb]
  cases b <;> rfl

theorem foldG_first : ∀ (ws : List (Val D)) (b : Option (Val D)),
    foldG (fun (b : Option (Val D)) w => (.ok (match b with | none => some w | some w0 => some w0) : Except Fault _)) ws b =
      .ok (match b with | none => ws.head? | some w0 => some w0)
  | [], b => by cases b <;> simp [foldG]
  | w :: ws, b => by
    simp only [foldG]
    rw [foldG_first ws]
    cases b <;> simp

/-- **first idiom** — the code emitted for `First()` of a chain
(`bool is_first (true);` outside the loop, `if (is_first) { is_first = false; col = value; }` inside,
`if (is_first) throw …;` after the loop):
  * if the query keeps at least one element, the column variable ends up holding the FIRST kept
    element's value — never a later or a stale one — and nothing is thrown;
  * if the sequence is empty after its filters, the code fails loudly (`Fault.loud`), it never
    continues with a default or previous value. -/
theorem first_idiom_tok (C : Ctx D) (QC : QCtx D) (hN : QC.N = C.N)
    (B : Backend) (hB : BackendBase B) (nm : Nat → String)
    (hinj : ∀ i j, nm i = nm j → i = j) (hres : ∀ j, nm j ≠ "result")
    (c : Chain) (n : Nat) (htok : TokChain B nm C c (n + 1)) (col : String) (hcol : ∀ j, col ≠ nm j) (hcolr : col ≠ "result") (msg : String)
    (cty : String) (l ws : List (Val D))
    (hcoll : B.collType c.coll = some cty) (hfind : C.ev.find c.bank = some (cty, .vec l))
    (hwt : wtSteps none c.steps = true) (hmt : ∀ v ∈ l, MethTyped v (methsSteps c.steps))
    (hel : elemsSem QC c.steps l = .ok ws)
    (s : St D) (hx : (s.env (nm (n + 1))).isSome = true)
    (hfl : s.env (nm n) = some (.val (.bool true))) (hcd : (s.env col).isSome = true) :
    let K : CExpr → Option Ty → List Stmt := fun cur _ => [.ite (.var (nm n)) [.set (nm n) (.bool false), .set col cur] []]
    let prog := (compChain B nm c (n + 1) K).stmts ++ [.ite (.var (nm n)) [.throw msg] []]
    (ws = [] → execs C prog s = .error (.loud msg)) ∧
    (∀ w rest, ws = w :: rest → ∃ s', execs C prog s = .ok s' ∧ s'.env col = some (.val w) ∧ s'.rows = s.rows ∧
        (∀ y, y ≠ col → ¬ Touch nm n (compChain B nm c (n + 1) K).next y → s'.env y = s.env y)) := by
  intro K prog
  have hnext := compChain_next B nm c (n + 1) K
  let Pinv : St D → Option (Val D) → Prop := fun t b =>
    (b = none → t.env (nm n) = some (.val (.bool true))) ∧
    (∀ w, b = some w → t.env (nm n) = some (.val (.bool false)) ∧ t.env col = some (.val w)) ∧
    (t.env col).isSome = true ∧ t.rows = s.rows ∧
    (∀ y, y ≠ col → ¬ Touch nm n (compChain B nm c (n + 1) K).next y → t.env y = s.env y)
  have hflT : ¬ Touch nm (n + 1) (compChain B nm c (n + 1) K).next (nm n) := by
    rintro (⟨j, h1, _, h3⟩ | h)
    · have := hinj _ _ h3; omega
    · exact hres n h
  have hcolT : ¬ Touch nm (n + 1) (compChain B nm c (n + 1) K).next col := by
    rintro (⟨j, _, _, h3⟩ | h)
    · exact hcol j h3
    · exact hcolr h
  have hcurvars : ∀ x ∈ vars (stepConds B.elemPtr (.var (nm (n + 1 + 1))) none c.steps).2.1, x = nm (n + 1 + 1) := by
    intro x hx'
    have := (stepConds_vars B.elemPtr c.steps (.var (nm (n + 1 + 1))) none).2 x hx'
    simpa [vars] using this
  obtain ⟨s', hex, hP'⟩ := compChain_correct_tok (β := Option (Val D)) C QC hN B hB nm hinj hres c (n + 1) htok K cty l ws
    hcoll hfind hwt hmt Pinv
    (fun b w => .ok (match b with | none => some w | some w0 => some w0)) (fun _ => True) (fun _ _ => trivial)
    (by
      intro t t' b hPt hr hfr
      refine ⟨fun hb => by rw [hfr _ hflT]; exact hPt.1 hb, fun w hw => ?_, by rw [hfr _ hcolT]; exact hPt.2.2.1,
        by rw [hr]; exact hPt.2.2.2.1, fun y hy1 hy2 => ?_⟩
      · rw [hfr _ hflT, hfr _ hcolT]; exact hPt.2.1 w hw
      · rw [hfr y (not_touch_sub hy2 (by omega) (Nat.le_refl _))]; exact hPt.2.2.2.2 y hy1 hy2)
    (by
      intro t b b' w v0 hPt hg hevw _ _
      simp only [Except.ok.injEq] at hg
      cases b with
      | none =>
        simp only [] at hg; subst hg
        have hflv := hPt.1 rfl
        have hne : col ≠ nm n := hcol n
        -- is_first is true: reset it and capture the value
        let t1 : St D := { t with env := t.env.set (nm n) (.bool false) }
        have hcur1 : evalE C.N t1.env (stepConds B.elemPtr (.var (nm (n + 1 + 1))) none c.steps).2.1 = .ok w := by
          rw [← hevw]
          apply evalE_congr
          intro x hx'
          have := hcurvars x hx'
          have hne' : x ≠ nm n := by rw [this]; intro e; have := hinj _ _ e; omega
          simp [t1, Env.set, hne']
        refine ⟨{ t1 with env := t1.env.set col w }, ?_, ?_⟩
        · have hc1 : (t1.env col).isSome = true := by simpa [t1, Env.set, hne] using hPt.2.2.1
          have hite := exec_ite_of C t (.var (nm n)) [.set (nm n) (.bool false), .set col (stepConds B.elemPtr (.var (nm (n + 1 + 1))) none c.steps).2.1] []
            (.bool true) true (by simp [evalE, hflv]) (by simp [asBool])
          have hs1 := exec_set_ok C t (nm n) (.bool false) (.bool false) (by simp [hflv]) (by simp [evalE])
          have hs2 := exec_set_ok C t1 col _ w hc1 hcur1
          simp only [K, execs]
          rw [hite]
          simp only [if_true, execs, hs1]
          rw [show ({ t with env := t.env.set (nm n) (.bool false) } : St D) = t1 from rfl, hs2]
        · refine ⟨by simp, fun w' hw' => ?_, by simp [Env.set], hPt.2.2.2.1, fun y hy1 hy2 => ?_⟩
          · simp only [Option.some.injEq] at hw'; subst hw'
            have : nm n ≠ col := fun e => hne e.symm
            simp [t1, Env.set, this]
          · have hyn : y ≠ nm n := fun e => hy2 (Or.inl ⟨n, Nat.le_refl n, by omega, e⟩)
            simp only [t1, Env.set, hy1, hyn, if_false]; exact hPt.2.2.2.2 y hy1 hy2
      | some w0 =>
        simp only [] at hg; subst hg
        obtain ⟨hflv, hcv⟩ := hPt.2.1 w0 rfl
        refine ⟨t, ?_, hPt⟩
        have hite := exec_ite_of C t (.var (nm n)) [.set (nm n) (.bool false), .set col (stepConds B.elemPtr (.var (nm (n + 1 + 1))) none c.steps).2.1] []
          (.bool false) false (by simp [evalE, hflv]) (by simp [asBool])
        simp only [K, execs]
        rw [hite]
        simp [execs])
    s none (ws.head?) hx hel (by simpa using foldG_first ws none)
    ⟨fun _ => hfl, fun w hw => by simp at hw, hcd, rfl, fun _ _ _ => rfl⟩
  constructor
  · intro hws
    subst hws
    have hflv := hP'.1 rfl
    simp only [prog]
    rw [execs_append, hex]
    have hite := exec_ite_of C s' (.var (nm n)) [.throw msg] [] (.bool true) true (by simp [evalE, hflv]) (by simp [asBool])
    simp only [execs]
    rw [hite]
    simp [execs, exec]
  · intro w rest hws
    subst hws
    obtain ⟨hflv, hcv⟩ := hP'.2.1 w rfl
    refine ⟨s', ?_, hcv, hP'.2.2.2.1, hP'.2.2.2.2⟩
    simp only [prog]
    rw [execs_append, hex]
    have hite := exec_ite_of C s' (.var (nm n)) [.throw msg] [] (.bool false) false (by simp [evalE, hflv]) (by simp [asBool])
    simp only [execs]
    rw [hite]
    simp [execs]

/-- **first idiom** on a backend that retrieves by bank name (the statement `C04.first_idiom` wraps). -/
theorem first_idiom (C : Ctx D) (QC : QCtx D) (hN : QC.N = C.N)
    (B : Backend) (hB : BackendOK B) (nm : Nat → String)
    (hinj : ∀ i j, nm i = nm j → i = j) (hres : ∀ j, nm j ≠ "result")
    (c : Chain) (n : Nat) (col : String) (hcol : ∀ j, col ≠ nm j) (hcolr : col ≠ "result") (msg : String)
    (cty : String) (l ws : List (Val D))
    (hcoll : B.collType c.coll = some cty) (hfind : C.ev.find c.bank = some (cty, .vec l))
    (hwt : wtSteps none c.steps = true) (hmt : ∀ v ∈ l, MethTyped v (methsSteps c.steps))
    (hel : elemsSem QC c.steps l = .ok ws)
    (s : St D) (hx : (s.env (nm (n + 1))).isSome = true)
    (hfl : s.env (nm n) = some (.val (.bool true))) (hcd : (s.env col).isSome = true) :
    let K : CExpr → Option Ty → List Stmt := fun cur _ => [.ite (.var (nm n)) [.set (nm n) (.bool false), .set col cur] []]
    let prog := (compChain B nm c (n + 1) K).stmts ++ [.ite (.var (nm n)) [.throw msg] []]
    (ws = [] → execs C prog s = .error (.loud msg)) ∧
    (∀ w rest, ws = w :: rest → ∃ s', execs C prog s = .ok s' ∧ s'.env col = some (.val w) ∧ s'.rows = s.rows ∧
        (∀ y, y ≠ col → ¬ Touch nm n (compChain B nm c (n + 1) K).next y → s'.env y = s.env y)) :=
  first_idiom_tok C QC hN B hB.base nm hinj hres c n (tokChain_of_notToken hB.notToken nm C c _) col hcol hcolr msg cty l ws
    hcoll hfind hwt hmt hel s hx hfl hcd

end FaxVerif.Gen
