/-
Gen — correctness of expressions over the outer element with aggregates of CAPTURED inner chains (`compXE`):
  * `ccount_correct` / `csum_correct`: handle variable and accumulator declared (the accumulator with its initialiser)
    at the top of the block that contains the inner loop, then the retrieval block and the inner loop, compute
    `e.Coll(bank).{Select|Where with the outer variable}*.Count()` / `.Sum()` for THIS outer element;
  * `compXE_correct`: all expressions — pure parts of the outer element, aggregates, arithmetic and comparisons;
  * `compXE_block_correct`: the same at block level — the declarations are EXECUTED first (they are hoisted to the top
    of the outer loop's body), so every accumulator restarts whatever the previous outer element left in it.
-/
import FaxVerif.Gen.CaptureLoopCorrect
import FaxVerif.Gen.NestedExprCorrect
namespace FaxVerif.Gen
open FaxVerif.Cpp FaxVerif.Linq
variable {D : Type}

/-! ## shape of the fragments -/

theorem compXE_next_ge (B : Backend) (nm : Nat → String) (optr : Bool) (ocur : CExpr) :
    ∀ (e : XE) (n : Nat), n ≤ (compXE B nm optr ocur e n).next
  | .pure _, n => by simp [compXE]
  | .ccount c, n => by
    have := ccompChain_next B nm optr ocur c (n + 1) (countK (nm n))
    simp only [compXE]; omega
  | .csum c, n => by
    have := ccompChain_next B nm optr ocur c (n + 1) (sumK (nm n))
    simp only [compXE]; omega
  | .bin _ a b, n => by
    have h1 := compXE_next_ge B nm optr ocur a n
    have h2 := compXE_next_ge B nm optr ocur b (compXE B nm optr ocur a n).next
    simp only [compXE]; omega
  | .cmp _ a b, n => by
    have h1 := compXE_next_ge B nm optr ocur a n
    have h2 := compXE_next_ge B nm optr ocur b (compXE B nm optr ocur a n).next
    simp only [compXE]; omega
  | .neg a, n => by simpa [compXE] using compXE_next_ge B nm optr ocur a n
  | .not a, n => by simpa [compXE] using compXE_next_ge B nm optr ocur a n

/-- the value expression mentions the outer element expression's variables and the fragment's own names only -/
theorem compXE_val_vars (B : Backend) (nm : Nat → String) (optr : Bool) (ocur : CExpr) : ∀ (e : XE) (n : Nat),
    ∀ x ∈ vars (compXE B nm optr ocur e n).val, x ∈ vars ocur ∨ InRange nm n (compXE B nm optr ocur e n).next x
  | .pure p, n, x, h => Or.inl (vars_compPE optr ocur .double p x (by simpa [compXE] using h))
  | .ccount c, n, x, h => by
    have := ccompChain_next B nm optr ocur c (n + 1) (countK (nm n))
    simp only [compXE, vars, List.mem_singleton] at h ⊢
    exact Or.inr ⟨n, Nat.le_refl n, by omega, h⟩
  | .csum c, n, x, h => by
    have := ccompChain_next B nm optr ocur c (n + 1) (sumK (nm n))
    simp only [compXE, vars, List.mem_singleton] at h ⊢
    exact Or.inr ⟨n, Nat.le_refl n, by omega, h⟩
  | .bin op a b, n, x, h => by
    have ha := compXE_val_vars B nm optr ocur a n
    have hb := compXE_val_vars B nm optr ocur b (compXE B nm optr ocur a n).next
    have h1 := compXE_next_ge B nm optr ocur a n
    have h2 := compXE_next_ge B nm optr ocur b (compXE B nm optr ocur a n).next
    simp only [compXE] at h ⊢
    split at h <;> simp only [vars, List.mem_append] at h <;> rcases h with h | h
    all_goals first
      | exact (ha x h).imp id (fun r => r.mono (Nat.le_refl _) h2)
      | exact (hb x h).imp id (fun r => r.mono h1 (Nat.le_refl _))
  | .cmp op a b, n, x, h => by
    have ha := compXE_val_vars B nm optr ocur a n
    have hb := compXE_val_vars B nm optr ocur b (compXE B nm optr ocur a n).next
    have h1 := compXE_next_ge B nm optr ocur a n
    have h2 := compXE_next_ge B nm optr ocur b (compXE B nm optr ocur a n).next
    simp only [compXE, vars, List.mem_append] at h ⊢
    rcases h with h | h
    · exact (ha x h).imp id (fun r => r.mono (Nat.le_refl _) h2)
    · exact (hb x h).imp id (fun r => r.mono h1 (Nat.le_refl _))
  | .neg a, n, x, h => by simp only [compXE, vars] at h ⊢; exact compXE_val_vars B nm optr ocur a n x h
  | .not a, n, x, h => by simp only [compXE, vars] at h ⊢; exact compXE_val_vars B nm optr ocur a n x h

theorem ccompChain_decls (B : Backend) (nm : Nat → String) (optr : Bool) (ocur : CExpr) (c : CChain) (n : Nat)
    (K : CExpr → Option Ty → List Stmt) :
    DeclsIn nm n (ccompChain B nm optr ocur c n K).next (ccompChain B nm optr ocur c n K).decls := by
  intro d hd
  have := ccompChain_next B nm optr ocur c n K
  simp only [ccompChain, List.mem_singleton] at hd
  exact ⟨_, _, _, hd, n, Nat.le_refl n, by omega, rfl⟩

theorem compXE_decls (B : Backend) (nm : Nat → String) (optr : Bool) (ocur : CExpr) : ∀ (e : XE) (n : Nat),
    DeclsIn nm n (compXE B nm optr ocur e n).next (compXE B nm optr ocur e n).decls
  | .pure _, n => by intro d hd; simp [compXE] at hd
  | .ccount c, n => by
    have hn := ccompChain_next B nm optr ocur c (n + 1) (countK (nm n))
    simp only [compXE]
    apply DeclsIn.append
    · exact (ccompChain_decls B nm optr ocur c (n + 1) _).mono (by omega) (Nat.le_refl _)
    · intro d hd
      simp only [List.mem_singleton] at hd
      exact ⟨_, _, _, hd, n, Nat.le_refl n, by omega, rfl⟩
  | .csum c, n => by
    have hn := ccompChain_next B nm optr ocur c (n + 1) (sumK (nm n))
    simp only [compXE]
    apply DeclsIn.append
    · exact (ccompChain_decls B nm optr ocur c (n + 1) _).mono (by omega) (Nat.le_refl _)
    · intro d hd
      simp only [List.mem_singleton] at hd
      exact ⟨_, _, _, hd, n, Nat.le_refl n, by omega, rfl⟩
  | .bin _ a b, n => by
    have h1 := compXE_next_ge B nm optr ocur a n
    have h2 := compXE_next_ge B nm optr ocur b (compXE B nm optr ocur a n).next
    simp only [compXE]
    exact ((compXE_decls B nm optr ocur a n).mono (Nat.le_refl _) h2).append ((compXE_decls B nm optr ocur b _).mono h1 (Nat.le_refl _))
  | .cmp _ a b, n => by
    have h1 := compXE_next_ge B nm optr ocur a n
    have h2 := compXE_next_ge B nm optr ocur b (compXE B nm optr ocur a n).next
    simp only [compXE]
    exact ((compXE_decls B nm optr ocur a n).mono (Nat.le_refl _) h2).append ((compXE_decls B nm optr ocur b _).mono h1 (Nat.le_refl _))
  | .neg a, n => by simpa [compXE] using compXE_decls B nm optr ocur a n
  | .not a, n => by simpa [compXE] using compXE_decls B nm optr ocur a n

/-- a handle variable is declared without initialiser and is not a vector; an accumulator is initialised by a literal -/
theorem compXE_declsOK (N : Num D) (B : Backend) (hB : BackendBase B) (nm : Nat → String) (hinj : ∀ i j, nm i = nm j → i = j)
    (optr : Bool) (ocur : CExpr) : ∀ (e : XE) (n : Nat),
    (∀ d ∈ (compXE B nm optr ocur e n).decls, SimpleDecl N d) ∧ ((compXE B nm optr ocur e n).decls.map declName).Nodup
  | .pure _, n => by simp [compXE]
  | .ccount c, n => by
    simp only [compXE, ccompChain]
    refine ⟨fun d hd => ?_, ?_⟩
    · simp only [List.cons_append, List.nil_append, List.mem_cons, List.not_mem_nil, or_false] at hd
      rcases hd with rfl | rfl
      · simp [SimpleDecl, hB.handleNotVec]
      · exact ⟨.int 0, .int 0, rfl, by simp [castTo]⟩
    · simp only [List.cons_append, List.nil_append, List.map_cons, List.map_nil, declName, List.nodup_cons,
        List.mem_singleton, List.not_mem_nil, not_false_eq_true, List.nodup_nil, and_true]
      intro e; have := hinj _ _ e; omega
  | .csum c, n => by
    simp only [compXE, ccompChain]
    refine ⟨fun d hd => ?_, ?_⟩
    · simp only [List.cons_append, List.nil_append, List.mem_cons, List.not_mem_nil, or_false] at hd
      rcases hd with rfl | rfl
      · simp [SimpleDecl, hB.handleNotVec]
      · obtain ⟨v', hv'⟩ := castTo_cpp_int0 N (Ty.join .int ((cchainTy none c.steps).getD .double))
        exact ⟨.int 0, v', rfl, hv'⟩
    · simp only [List.cons_append, List.nil_append, List.map_cons, List.map_nil, declName, List.nodup_cons,
        List.mem_singleton, List.not_mem_nil, not_false_eq_true, List.nodup_nil, and_true]
      intro e; have := hinj _ _ e; omega
  | .bin _ a b, n => by
    have ha := compXE_declsOK N B hB nm hinj optr ocur a n
    have hb := compXE_declsOK N B hB nm hinj optr ocur b (compXE B nm optr ocur a n).next
    simp only [compXE]
    refine ⟨fun d hd => ?_, ?_⟩
    · rcases List.mem_append.1 hd with h | h
      · exact ha.1 d h
      · exact hb.1 d h
    · rw [List.map_append]
      exact nodup_append_ranges hinj ha.2 hb.2 (declsIn_names (compXE_decls B nm optr ocur a n)) (declsIn_names (compXE_decls B nm optr ocur b _))
  | .cmp _ a b, n => by
    have ha := compXE_declsOK N B hB nm hinj optr ocur a n
    have hb := compXE_declsOK N B hB nm hinj optr ocur b (compXE B nm optr ocur a n).next
    simp only [compXE]
    refine ⟨fun d hd => ?_, ?_⟩
    · rcases List.mem_append.1 hd with h | h
      · exact ha.1 d h
      · exact hb.1 d h
    · rw [List.map_append]
      exact nodup_append_ranges hinj ha.2 hb.2 (declsIn_names (compXE_decls B nm optr ocur a n)) (declsIn_names (compXE_decls B nm optr ocur b _))
  | .neg a, n => by simpa [compXE] using compXE_declsOK N B hB nm hinj optr ocur a n
  | .not a, n => by simpa [compXE] using compXE_declsOK N B hB nm hinj optr ocur a n

/-! ## token retrieval -/

/-- every captured chain of the expression finds its token bound to its own container type and bank in the run's
token table (vacuous unless the backend retrieves by token) -/
def TokXE (B : Backend) (nm : Nat → String) (C : Ctx D) (optr : Bool) (ocur : CExpr) : XE → Nat → Prop
  | .ccount c, n => TokCChain B nm C c (n + 1)
  | .csum c, n => TokCChain B nm C c (n + 1)
  | .bin _ a b, n => TokXE B nm C optr ocur a n ∧ TokXE B nm C optr ocur b (compXE B nm optr ocur a n).next
  | .cmp _ a b, n => TokXE B nm C optr ocur a n ∧ TokXE B nm C optr ocur b (compXE B nm optr ocur a n).next
  | .neg a, n => TokXE B nm C optr ocur a n
  | .not a, n => TokXE B nm C optr ocur a n
  | .pure _, _ => True

theorem tokXE_of_notToken {B : Backend} (h : B.how ≠ "token") (nm : Nat → String) (C : Ctx D) (optr : Bool) (ocur : CExpr) :
    ∀ (e : XE) (n : Nat), TokXE B nm C optr ocur e n
  | .ccount c, n => fun e => absurd e h
  | .csum c, n => fun e => absurd e h
  | .bin _ a b, n => ⟨tokXE_of_notToken h nm C optr ocur a n, tokXE_of_notToken h nm C optr ocur b _⟩
  | .cmp _ a b, n => ⟨tokXE_of_notToken h nm C optr ocur a n, tokXE_of_notToken h nm C optr ocur b _⟩
  | .neg a, n => tokXE_of_notToken h nm C optr ocur a n
  | .not a, n => tokXE_of_notToken h nm C optr ocur a n
  | .pure _, _ => trivial

/-! ## typing of what a captured chain keeps -/

theorem celemSem_typed (QC : QCtx D) (vo : Val D) (steps : List CStep) (v w : Val D) (t : Ty)
    (hwt : wtCSteps none steps = true) (hm : MethTyped v (imethsCSteps steps)) (hmo : MethTyped vo (omethsCSteps steps))
    (hs : celemSem QC vo steps v = .ok (some w)) (ht : cchainTy none steps = some t) : HasTy w t := by
  let σ : Env D := fun x => if x = "o" then some (.val vo) else some (.val v)
  have := (celem_correct QC σ false false (.var "o") vo (by simp [evalE, σ]) steps (.var "z") none v (some w)
    (by simp [evalE, σ]) (by simp) hwt hm hmo hs).2 w rfl
  exact this.2.2.1 t (by rw [cstepConds_ty]; exact ht)

theorem celemsSem_typed (QC : QCtx D) (vo : Val D) (steps : List CStep) (t : Ty) (hwt : wtCSteps none steps = true)
    (hmo : MethTyped vo (omethsCSteps steps)) (ht : cchainTy none steps = some t) : ∀ (l ws : List (Val D)),
    (∀ v ∈ l, MethTyped v (imethsCSteps steps)) → celemsSem QC vo steps l = .ok ws → ∀ w ∈ ws, HasTy w t
  | [], ws, _, h, w, hw => by simp only [celemsSem, Except.ok.injEq] at h; subst h; simp at hw
  | v :: vs, ws, hm, h, w, hw => by
    simp only [celemsSem] at h
    cases ho : celemSem QC vo steps v with
    | error e => rw [ho] at h; simp at h
    | ok o =>
      rw [ho] at h; simp only [] at h
      cases hr : celemsSem QC vo steps vs with
      | error e => rw [hr] at h; simp at h
      | ok rs =>
        rw [hr] at h; simp only [Except.ok.injEq] at h; subst h
        rcases List.mem_append.1 hw with h1 | h1
        · cases o with
          | none => simp at h1
          | some w' =>
            simp only [Option.toList, List.mem_singleton] at h1; subst h1
            exact celemSem_typed QC vo steps v w t hwt (hm v (by simp)) hmo ho ht
        · exact celemsSem_typed QC vo steps t hwt hmo ht vs rs (fun u hu => hm u (by simp [hu])) hr w h1

/-! ## Count and Sum of a captured chain -/

/-- the outer element expression is not touched by a fragment compiled at `n` -/
theorem evalE_ocur_frame (N : Num D) (nm : Nat → String) (ocur : CExpr) (n lo hi : Nat) (σ σ' : Env D)
    (hofr : ∀ y ∈ vars ocur, (∀ j, n ≤ j → y ≠ nm j) ∧ y ≠ "result") (hlo : n ≤ lo)
    (hag : ∀ y, ¬ Touch nm lo hi y → σ' y = σ y) : evalE N σ' ocur = evalE N σ ocur := by
  apply evalE_congr
  intro y hy
  apply hag
  rintro (⟨j, hj1, _, hj3⟩ | h)
  · exact (hofr y hy).1 j (by omega) hj3
  · exact (hofr y hy).2 h

theorem wtCChain_steps {ic : CChain} (h : wtCChain ic = true) : wtCSteps none ic.steps = true := by
  simp only [wtCChain, Bool.and_eq_true] at h; exact h.1

/-- **captured Count** — `e.Coll(bank).{steps mentioning the outer element}.Count()` for the outer element `vo`. -/
theorem ccount_correct (C : Ctx D) (QC : QCtx D) (hN : QC.N = C.N) (hev : QC.ev = C.ev)
    (B : Backend) (hB : BackendBase B) (nm : Nat → String)
    (hinj : ∀ i j, nm i = nm j → i = j) (hres : ∀ j, nm j ≠ "result")
    (hcollT : ∀ name, B.collType name = QC.collType name)
    (optr : Bool) (ocur : CExpr) (vo : Val D) (ρ : LEnv D)
    (c : CChain) (n : Nat) (htok : TokCChain B nm C c (n + 1)) (s : St D) (v : Val D)
    (hofr : ∀ y ∈ vars ocur, (∀ j, n ≤ j → y ≠ nm j) ∧ y ≠ "result") (hocur : evalE C.N s.env ocur = .ok vo)
    (hdone : DeclsDone C.N (compXE B nm optr ocur (.ccount c) n).decls s.env)
    (hwt : wtCSteps none c.steps = true) (hmt : CChainTyped QC c) (hmo : MethTyped vo (omethsCSteps c.steps))
    (hden : denote QC (("y", vo) :: ρ) (xeQ "e" "y" (.ccount c)) = .ok v) :
    ∃ s', execs C (compXE B nm optr ocur (.ccount c) n).stmts s = .ok s' ∧ s'.rows = s.rows ∧
      evalE C.N s'.env (compXE B nm optr ocur (.ccount c) n).val = .ok v ∧ HasTy v .int ∧
      (∀ y, ¬ Touch nm n (compXE B nm optr ocur (.ccount c) n).next y → s'.env y = s.env y) := by
  simp only [xeQ, denote] at hden
  cases hc : denote QC (("y", vo) :: ρ) (cchainQ "e" "y" c) with
  | error e => rw [hc] at hden; simp at hden
  | ok cv =>
    rw [hc] at hden
    cases cv with
    | vec ws =>
      simp only [Except.ok.injEq] at hden; subst hden
      obtain ⟨cty, l, hct, hfind, hel⟩ := cchainQ_ok QC _ "e" vo (by simp [LEnv.get]) c ws hc
      let K := countK (nm n)
      have hnext := ccompChain_next B nm optr ocur c (n + 1) K
      have hacc : s.env (nm n) = some (.val (.int 0)) := by
        have := hdone (.decl "int" (nm n) (some (.int 0))) (by simp [compXE])
        have h0 := initVal_int C.N
        simp only [initVal] at h0
        simpa [DeclOK, h0] using this
      have hx : (s.env (nm (n + 1))).isSome = true := by
        have := hdone (.decl (B.handleTy ((B.collType c.coll).getD "?")) (nm (n + 1)) none) (by simp [compXE, ccompChain])
        simpa [DeclOK] using this
      let Pinv : St D → Int → Prop := fun t b => t.env (nm n) = some (.val (.int b)) ∧ t.rows = s.rows ∧
        ∀ y, ¬ Touch nm n (ccompChain B nm optr ocur c (n + 1) K).next y → t.env y = s.env y
      have haccT : ¬ Touch nm (n + 1) (ccompChain B nm optr ocur c (n + 1) K).next (nm n) := by
        rintro (⟨j, h1, _, h3⟩ | h)
        · have := hinj _ _ h3; omega
        · exact hres n h
      obtain ⟨s', hex, hP'⟩ := ccompChain_correct (β := Int) C QC hN B hB nm hinj hres optr ocur vo (n + 1)
        (fun y hy => ⟨fun j hj => (hofr y hy).1 j (by omega), (hofr y hy).2⟩) c htok K cty l ws
        (by rw [hcollT]; exact hct) (by rw [← hev]; exact hfind) hwt (hmt cty l hfind) hmo Pinv
        (fun a _ => .ok (a + 1)) (fun _ => True) (fun _ _ => trivial)
        (by
          intro t b hPt
          rw [evalE_ocur_frame C.N nm ocur n n _ s.env t.env hofr (Nat.le_refl _) hPt.2.2]; exact hocur)
        (by
          intro t t' b hPt hr hfr
          refine ⟨by rw [hfr _ haccT]; exact hPt.1, by rw [hr]; exact hPt.2.1, fun y hy => ?_⟩
          rw [hfr y (not_touch_sub hy (by omega) (Nat.le_refl _))]; exact hPt.2.2 y hy)
        (by
          intro t b b' w v0 hPt hg _ _ _
          simp only [Except.ok.injEq] at hg; subst hg
          refine ⟨{ t with env := t.env.set (nm n) (.int (b + 1)) }, ?_, ?_, hPt.2.1, ?_⟩
          · simp only [K, countK, execs, exec, hPt.1]
            rw [evalE_bin_arith _ _ _ (by simp) (by simp)]
            simp [evalE, hPt.1, arith, asInt]
          · simp [Env.set]
          · intro y hy
            have : y ≠ nm n := fun e => hy (Or.inl ⟨n, Nat.le_refl n, by omega, e⟩)
            simp only [Env.set, this, if_false]; exact hPt.2.2 y hy)
        s 0 (0 + ws.length) hx hel (foldG_count ws 0) ⟨hacc, rfl, fun _ _ => rfl⟩
      refine ⟨s', by simpa [compXE] using hex, hP'.2.1, ?_, by simp [HasTy], ?_⟩
      · simp [compXE, evalE, hP'.1]
      · simpa [compXE] using hP'.2.2
    | _ => simp at hden

/-- **captured Sum** over a chain that ends in numbers. -/
theorem csum_correct (C : Ctx D) (QC : QCtx D) (hN : QC.N = C.N) (hev : QC.ev = C.ev)
    (B : Backend) (hB : BackendBase B) (nm : Nat → String)
    (hinj : ∀ i j, nm i = nm j → i = j) (hres : ∀ j, nm j ≠ "result")
    (hcollT : ∀ name, B.collType name = QC.collType name)
    (optr : Bool) (ocur : CExpr) (vo : Val D) (ρ : LEnv D)
    (c : CChain) (n : Nat) (htok : TokCChain B nm C c (n + 1)) (s : St D) (v : Val D)
    (hofr : ∀ y ∈ vars ocur, (∀ j, n ≤ j → y ≠ nm j) ∧ y ≠ "result") (hocur : evalE C.N s.env ocur = .ok vo)
    (hdone : DeclsDone C.N (compXE B nm optr ocur (.csum c) n).decls s.env)
    (hwt : wtCSteps none c.steps = true) (t : Ty) (hct' : cchainTy none c.steps = some t) (htn : t.isNum = true)
    (hmt : CChainTyped QC c) (hmo : MethTyped vo (omethsCSteps c.steps)) (hsne : CSumNonEmpty QC vo c)
    (hden : denote QC (("y", vo) :: ρ) (xeQ "e" "y" (.csum c)) = .ok v) :
    ∃ s', execs C (compXE B nm optr ocur (.csum c) n).stmts s = .ok s' ∧ s'.rows = s.rows ∧
      evalE C.N s'.env (compXE B nm optr ocur (.csum c) n).val = .ok v ∧ HasTy v (Ty.join .int t) ∧
      (∀ y, ¬ Touch nm n (compXE B nm optr ocur (.csum c) n).next y → s'.env y = s.env y) := by
  simp only [xeQ, denote] at hden
  cases hc : denote QC (("y", vo) :: ρ) (cchainQ "e" "y" c) with
  | error e => rw [hc] at hden; simp at hden
  | ok cv =>
    rw [hc] at hden
    cases cv with
    | vec ws =>
      simp only [] at hden
      rw [foldE_eq_foldG, hN] at hden
      obtain ⟨cty, l, hct, hfind, hel⟩ := cchainQ_ok QC _ "e" vo (by simp [LEnv.get]) c ws hc
      have hwsty := celemsSem_typed QC vo c.steps t hwt hmo hct' l ws (hmt cty l hfind) hel
      have hfold := sum_fold_agree C.N t htn ws v hwsty (fun hf => hsne t hct' hf cty l ws hfind hel) hden
      let K := sumK (nm n)
      have hnext := ccompChain_next B nm optr ocur c (n + 1) K
      have hty : (Ty.join .int ((cchainTy none c.steps).getD .double)) = Ty.join .int t := by rw [hct']; rfl
      have hacc : s.env (nm n) = some (.val (initVal C.N (Ty.join .int t).cpp)) := by
        have := hdone (.decl (Ty.join .int ((cchainTy none c.steps).getD .double)).cpp (nm n) (some (.int 0))) (by simp [compXE])
        simpa [DeclOK, hty, initVal] using this
      have hx : (s.env (nm (n + 1))).isSome = true := by
        have := hdone (.decl (B.handleTy ((B.collType c.coll).getD "?")) (nm (n + 1)) none) (by simp [compXE, ccompChain])
        simpa [DeclOK] using this
      let Pinv : St D → Val D → Prop := fun u a => u.env (nm n) = some (.val a) ∧ u.rows = s.rows ∧
        ∀ y, ¬ Touch nm n (ccompChain B nm optr ocur c (n + 1) K).next y → u.env y = s.env y
      have haccT : ¬ Touch nm (n + 1) (ccompChain B nm optr ocur c (n + 1) K).next (nm n) := by
        rintro (⟨j, h1, _, h3⟩ | h)
        · have := hinj _ _ h3; omega
        · exact hres n h
      obtain ⟨s', hex, hP'⟩ := ccompChain_correct (β := Val D) C QC hN B hB nm hinj hres optr ocur vo (n + 1)
        (fun y hy => ⟨fun j hj => (hofr y hy).1 j (by omega), (hofr y hy).2⟩) c htok K cty l ws
        (by rw [hcollT]; exact hct) (by rw [← hev]; exact hfind) hwt (hmt cty l hfind) hmo Pinv
        (fun a w => arith C.N "+" a w) (fun _ => True) (fun _ _ => trivial)
        (by
          intro u b hPu
          rw [evalE_ocur_frame C.N nm ocur n n _ s.env u.env hofr (Nat.le_refl _) hPu.2.2]; exact hocur)
        (by
          intro u u' b hPu hr hfr
          refine ⟨by rw [hfr _ haccT]; exact hPu.1, by rw [hr]; exact hPu.2.1, fun y hy => ?_⟩
          rw [hfr y (not_touch_sub hy (by omega) (Nat.le_refl _))]; exact hPu.2.2 y hy)
        (by
          intro u a a' w v0 hPu hg hevw _ _
          refine ⟨{ u with env := u.env.set (nm n) a' }, ?_, ?_, hPu.2.1, ?_⟩
          · simp only [K, sumK, execs, exec, hPu.1]
            rw [evalE_bin_arith _ _ _ (by simp) (by simp)]
            simp [evalE, hPu.1, hevw, hg]
          · simp [Env.set]
          · intro y hy
            have : y ≠ nm n := fun e => hy (Or.inl ⟨n, Nat.le_refl n, by omega, e⟩)
            simp only [Env.set, this, if_false]; exact hPu.2.2 y hy)
        s _ v hx hel hfold ⟨hacc, rfl, fun _ _ => rfl⟩
      refine ⟨s', by simpa [compXE] using hex, hP'.2.1, ?_, ?_, ?_⟩
      · simp [compXE, evalE, hP'.1]
      · refine foldG_sum_typed C.N t htn ws (.int 0) v hwsty (Or.inl (by simp [HasTy])) ?_ hden
        by_cases hf : t.isFloating = true
        · exact Or.inl (hsne t hct' hf cty l ws hfind hel)
        · right; cases t <;> simp [Ty.isFloating, Ty.isNum, Ty.join, HasTy] at hf htn ⊢
      · simpa [compXE] using hP'.2.2
    | _ => simp at hden

end FaxVerif.Gen
