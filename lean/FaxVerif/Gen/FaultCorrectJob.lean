/-
Gen — the FAULT direction of the translator model, part 5: both query shapes under one statement,
"defined iff defined", and the job level.

  * `fragEvent_fault`        undefined query ⇒ the per-event method fails (either shape);
  * `fragEvent_defined_iff`  the per-event method returns rows iff the query is defined on the event;
  * `fragEvent_rows_iff`     … and then exactly the query's rows (no spurious, stale or dropped row);
  * `runJobPartial`          a job together with the rows written before it ended;
  * `jobFrom_stops`, `job_stops`   events `pre` defined, next event undefined: the job ends with that
                             event's fault, having written exactly the rows of `pre`; nothing of the
                             failing event or of the events after it is written.
-/
import FaxVerif.Gen.FaultCorrectRows
namespace FaxVerif.Cpp
variable {D : Type}

/-- A job, with what it had written when it ended: the rows of the events that completed, and the
fault that ended it (`none`: all events completed). `runJobFrom` forgets the rows in the fault case
(`runJobFrom_eq_partial`). -/
def runJobPartial (P : Package) (N : Num D) : Env D → List (Event D) → List (List (Val D)) × Option Fault
  | _, [] => ([], none)
  | σc, ev :: evs => match runEvent P N σc ev with
    | .error f => ([], some f)
    | .ok (rows, σc') => (rows ++ (runJobPartial P N σc' evs).1, (runJobPartial P N σc' evs).2)

theorem runJobFrom_eq_partial (P : Package) (N : Num D) : ∀ (evs : List (Event D)) (σc : Env D),
    runJobFrom P N σc evs = (match (runJobPartial P N σc evs).2 with
      | none => .ok (runJobPartial P N σc evs).1
      | some f => .error f)
  | [], _ => rfl
  | ev :: evs, σc => by
    simp only [runJobFrom, runJobPartial]
    cases h : runEvent P N σc ev with
    | error f => rfl
    | ok r =>
      obtain ⟨rows, σc'⟩ := r
      simp only [runJobFrom_eq_partial P N evs σc']
      cases (runJobPartial P N σc' evs).2 <;> rfl

end FaxVerif.Cpp

namespace FaxVerif.Gen
open FaxVerif.Cpp FaxVerif.Linq
variable {D : Type}

/-- side conditions of the fault direction, for either query shape (beyond `FragHyp`):
banks, if present, are typed; every chain is `strictSteps` for its consumer. -/
def FragFaultHyp (QC : QCtx D) : FQ → Prop
  | .eventRows cols => ∀ p ∈ cols, ColFaultHyp QC p.2
  | .elemRows c cols => BankTyped QC c ∧ strictSteps (cols.any (fun p => usesIt p.2)) c.steps = true

/-- how the query's fault and the code's fault are related, for either query shape -/
def FragFaultRel (QC : QCtx D) : FQ → Fault → Fault → Prop
  | .eventRows cols, f, f' => ∃ p ∈ cols, ColFaultRel QC p.2 f f'
  | .elemRows c cols, f, f' => ChainFaultRelM QC c (methsSteps c.steps ++ methsCols cols) f f'

/-- **one event, fault direction, either shape** -/
theorem fragEvent_fault (B : Backend) (hB : BackendBase B) (nm cn : Nat → String)
    (hinj : ∀ i j, nm i = nm j → i = j) (hcinj : ∀ i j, cn i = cn j → i = j)
    (hres : ∀ j, nm j ≠ "result") (hcres : ∀ k, cn k ≠ "result") (hdisj : ∀ j k, nm j ≠ cn k)
    (QC : QCtx D) (hcollT : ∀ name, B.collType name = QC.collType name)
    (fq : FQ) (hhyp : FragHyp QC fq) (hfh : FragFaultHyp QC fq) (σc : Env D) (hσ : FragPre cn fq σc)
    (f : Fault) (hden : denoteRows QC fq.toQuery = .error f) :
    ∃ f', runEvent (compile B nm cn fq) QC.N σc QC.ev = .error f' ∧ FragFaultRel QC fq f f' := by
  cases fq with
  | eventRows cols =>
    exact eventRows_fault_mem B hB nm cn hinj hcinj hres hcres hdisj QC hcollT cols hhyp hfh σc hσ f hden
  | elemRows c cols =>
    obtain ⟨h1, h2, h3⟩ := hhyp
    obtain ⟨h4, h5⟩ := hfh
    exact elemRows_fault B hB nm cn hinj hcinj hres hcres hdisj QC hcollT c cols h1 h2 h3 h4 h5 σc hσ f hden

/-- **defined iff defined** — the per-event method returns (rows and a class state) exactly on the
events on which the query is defined. -/
theorem fragEvent_defined_iff (B : Backend) (hB : BackendBase B) (nm cn : Nat → String)
    (hinj : ∀ i j, nm i = nm j → i = j) (hcinj : ∀ i j, cn i = cn j → i = j)
    (hres : ∀ j, nm j ≠ "result") (hcres : ∀ k, cn k ≠ "result") (hdisj : ∀ j k, nm j ≠ cn k)
    (QC : QCtx D) (hcollT : ∀ name, B.collType name = QC.collType name)
    (fq : FQ) (hhyp : FragHyp QC fq) (hfh : FragFaultHyp QC fq) (σc : Env D) (hσ : FragPre cn fq σc) :
    (∃ rows σ', runEvent (compile B nm cn fq) QC.N σc QC.ev = .ok (rows, σ')) ↔
      (∃ rows, denoteRows QC fq.toQuery = .ok rows) := by
  constructor
  · rintro ⟨rows, σ', hrun⟩
    cases hden : denoteRows QC fq.toQuery with
    | ok r => exact ⟨r, rfl⟩
    | error f =>
      obtain ⟨f', hf, _⟩ := fragEvent_fault B hB nm cn hinj hcinj hres hcres hdisj QC hcollT fq hhyp hfh σc hσ f hden
      rw [hf] at hrun; simp at hrun
  · rintro ⟨rows, hden⟩
    obtain ⟨σ', h, _⟩ := fragEvent_correct_post B hB nm cn hinj hcinj hres hcres hdisj QC hcollT fq hhyp σc hσ rows hden
    exact ⟨rows, σ', h⟩

/-- **the rows, both directions** — the per-event method returns `rows` iff the query denotes `rows`:
what is written is never a default, a stale value or a subset of the query's rows. -/
theorem fragEvent_rows_iff (B : Backend) (hB : BackendBase B) (nm cn : Nat → String)
    (hinj : ∀ i j, nm i = nm j → i = j) (hcinj : ∀ i j, cn i = cn j → i = j)
    (hres : ∀ j, nm j ≠ "result") (hcres : ∀ k, cn k ≠ "result") (hdisj : ∀ j k, nm j ≠ cn k)
    (QC : QCtx D) (hcollT : ∀ name, B.collType name = QC.collType name)
    (fq : FQ) (hhyp : FragHyp QC fq) (hfh : FragFaultHyp QC fq) (σc : Env D) (hσ : FragPre cn fq σc)
    (rows : List (List (Val D))) :
    (∃ σ', runEvent (compile B nm cn fq) QC.N σc QC.ev = .ok (rows, σ')) ↔ denoteRows QC fq.toQuery = .ok rows := by
  constructor
  · rintro ⟨σ', hrun⟩
    obtain ⟨r, hden⟩ := (fragEvent_defined_iff B hB nm cn hinj hcinj hres hcres hdisj QC hcollT fq hhyp hfh σc hσ).1 ⟨rows, σ', hrun⟩
    obtain ⟨σ'', h, _⟩ := fragEvent_correct_post B hB nm cn hinj hcinj hres hcres hdisj QC hcollT fq hhyp σc hσ r hden
    rw [hrun] at h
    simp only [Except.ok.injEq, Prod.mk.injEq] at h
    rw [h.1]; exact hden
  · intro hden
    obtain ⟨σ', h, _⟩ := fragEvent_correct_post B hB nm cn hinj hcinj hres hcres hdisj QC hcollT fq hhyp σc hσ rows hden
    exact ⟨σ', h⟩

/-! ## the job -/

/-- **the job stops at the first undefined event** (from any admissible class state) — events `pre`
on which the query is defined, then an event on which it is undefined, then anything: the job ends
with a fault of that event's class, and what it had written is exactly the concatenation of the rows
the query denotes on the events of `pre`. -/
theorem jobFrom_stops (B : Backend) (hB : BackendBase B) (nm cn : Nat → String)
    (hinj : ∀ i j, nm i = nm j → i = j) (hcinj : ∀ i j, cn i = cn j → i = j)
    (hres : ∀ j, nm j ≠ "result") (hcres : ∀ k, cn k ≠ "result") (hdisj : ∀ j k, nm j ≠ cn k)
    (QC : QCtx D) (hcollT : ∀ name, B.collType name = QC.collType name)
    (fq : FQ) (ev : Event D) (post : List (Event D))
    (hhypE : FragHyp (QC.withEvent ev) fq) (hfhE : FragFaultHyp (QC.withEvent ev) fq)
    (f : Fault) (hundef : denoteRows (QC.withEvent ev) fq.toQuery = .error f) :
    ∀ (pre : List (Event D)) (σc : Env D), FragPre cn fq σc →
      (∀ e ∈ pre, FragHyp (QC.withEvent e) fq) →
      (∀ e ∈ pre, ∃ rows, denoteRows (QC.withEvent e) fq.toQuery = .ok rows) →
      ∃ f', runJobPartial (compile B nm cn fq) QC.N σc (pre ++ ev :: post) =
          ((pre.map (rowsOf QC fq.toQuery)).flatten, some f') ∧
        FragFaultRel (QC.withEvent ev) fq f f'
  | [], σc, hσ, _, _ => by
    obtain ⟨f', hrun, hrel⟩ := fragEvent_fault B hB nm cn hinj hcinj hres hcres hdisj (QC.withEvent ev) hcollT fq hhypE hfhE σc hσ f hundef
    refine ⟨f', ?_, hrel⟩
    have hrun' : runEvent (compile B nm cn fq) QC.N σc ev = .error f' := hrun
    simp only [List.nil_append, runJobPartial, hrun', List.map_nil, List.flatten_nil]
  | e :: pre, σc, hσ, hhyp, hdef => by
    obtain ⟨rows, hden⟩ := hdef e (by simp)
    obtain ⟨σ', hrun, hσ'⟩ := fragEvent_correct_post B hB nm cn hinj hcinj hres hcres hdisj (QC.withEvent e) hcollT fq
      (hhyp e (by simp)) σc hσ rows hden
    have hrun' : runEvent (compile B nm cn fq) QC.N σc e = .ok (rows, σ') := hrun
    obtain ⟨f', ih, hrel⟩ := jobFrom_stops B hB nm cn hinj hcinj hres hcres hdisj QC hcollT fq ev post hhypE hfhE f hundef
      pre σ' hσ' (fun x hx => hhyp x (by simp [hx])) (fun x hx => hdef x (by simp [hx]))
    refine ⟨f', ?_, hrel⟩
    have hr : rowsOf QC fq.toQuery e = rows := by simp [rowsOf, hden]
    simp only [List.cons_append, runJobPartial, hrun', ih, List.map_cons, List.flatten_cons, hr]

/-- **the job stops at the first undefined event** (from the initial class state): `runJob` is an
error, and the partial run shows that exactly the rows of the earlier events had been written. -/
theorem job_stops (B : Backend) (hB : BackendBase B) (nm cn : Nat → String)
    (hinj : ∀ i j, nm i = nm j → i = j) (hcinj : ∀ i j, cn i = cn j → i = j)
    (hres : ∀ j, nm j ≠ "result") (hcres : ∀ k, cn k ≠ "result") (hdisj : ∀ j k, nm j ≠ cn k)
    (QC : QCtx D) (hcollT : ∀ name, B.collType name = QC.collType name)
    (fq : FQ) (pre : List (Event D)) (ev : Event D) (post : List (Event D))
    (hhyp : ∀ e ∈ pre, FragHyp (QC.withEvent e) fq)
    (hdef : ∀ e ∈ pre, ∃ rows, denoteRows (QC.withEvent e) fq.toQuery = .ok rows)
    (hhypE : FragHyp (QC.withEvent ev) fq) (hfhE : FragFaultHyp (QC.withEvent ev) fq)
    (f : Fault) (hundef : denoteRows (QC.withEvent ev) fq.toQuery = .error f) :
    ∃ f', runJob (compile B nm cn fq) QC.N (pre ++ ev :: post) = .error f' ∧
      runJobPartial (compile B nm cn fq) QC.N (classInit (compile B nm cn fq).classVars) (pre ++ ev :: post) =
        ((pre.map (rowsOf QC fq.toQuery)).flatten, some f') ∧
      FragFaultRel (QC.withEvent ev) fq f f' := by
  obtain ⟨f', hp, hrel⟩ := jobFrom_stops B hB nm cn hinj hcinj hres hcres hdisj QC hcollT fq ev post hhypE hfhE f hundef
    pre _ (fragPre_classInit B nm cn hcinj hdisj fq) hhyp hdef
  refine ⟨f', ?_, hp, hrel⟩
  simp only [runJob]
  rw [runJobFrom_eq_partial, hp]


/-! ## `First()` over an empty sequence, all backends -/

/-- `eventRows_first_empty_loud` for every backend satisfying `BackendBase` (CMS miniAOD included):
the token hypothesis is discharged by the table `compile` emits (`tokCols_eventRows`). -/
theorem eventRows_first_empty_loud_tok (B : Backend) (hB : BackendBase B) (nm cn : Nat → String)
    (hinj : ∀ i j, nm i = nm j → i = j) (hcinj : ∀ i j, cn i = cn j → i = j)
    (hres : ∀ j, nm j ≠ "result") (hcres : ∀ k, cn k ≠ "result") (hdisj : ∀ j k, nm j ≠ cn k)
    (QC : QCtx D) (hcollT : ∀ name, B.collType name = QC.collType name)
    (pre : List (String × Col)) (name : String) (c : Chain) (post : List (String × Col))
    (hhyp : ∀ p ∈ pre, ColHyp QC p.2) (hc : ColHyp QC (.first c))
    (σc : Env D) (hσ : ColsPre cn ((pre ++ (name, .first c) :: post).map (·.2)) 0 σc)
    (vs : List (Val D))
    (hpre : denotes QC [("e", evtVal)] ((pre.map (·.2)).map (colQ "e")) = .ok vs)
    (hempty : denote QC [("e", evtVal)] (chainQ "e" c) = .ok (.vec [])) :
    runEvent (compile B nm cn (.eventRows (pre ++ (name, .first c) :: post))) QC.N σc QC.ev = .error (.loud firstMsg) ∧
    ∃ m, denote QC [("e", evtVal)] (colQ "e" (.first c)) = .error (.loud m) := by
  constructor
  · let cols := pre ++ (name, .first c) :: post
    let cs := cols.map (·.2)
    have hcs : cs = pre.map (·.2) ++ .first c :: post.map (·.2) := by simp [cs, cols]
    let fs := compCols B nm cn cs 0 0
    let P := compile B nm cn (.eventRows cols)
    let C := P.ctx QC.N QC.ev
    obtain ⟨hsimple, hnodup⟩ := compCols_declsOK_base C B hB nm cn hinj cs 0 0
    obtain ⟨sD, hexD, _, hdone, hfrD⟩ := exec_decls C (fs.flatMap (·.decls)) ⟨σc, []⟩ hsimple hnodup
    have hcnD : ∀ k, sD.env (cn k) = σc (cn k) := by
      intro k
      apply hfrD
      intro hm
      obtain ⟨j, _, _, hj⟩ := declsIn_names (compCols_declsIn B nm cn cs 0 0) _ hm
      exact hdisj j k hj.symm
    have htk : TokCols B nm cn C cs 0 0 := tokCols_eventRows B nm cn hinj cols QC.N QC.ev
    have hfault := compCols_fault_tok C QC rfl rfl B hB nm cn hinj hcinj hres hcres hdisj hcollT (.first c) (post.map (·.2))
      (.loud firstMsg)
      (fun idx n s htk1 hdone1 hpre1 =>
        compCol_first_fault_tok C QC rfl rfl B hB nm cn hinj hres hcres hdisj hcollT c idx n htk1 s hdone1 hpre1 hc hempty)
      (pre.map (·.2)) 0 0 sD vs (by rw [← hcs]; exact htk) (by rw [← hcs]; exact hdone)
      (by rw [← hcs]; exact colsPre_stable cn cs 0 σc sD.env (fun k _ => hcnD k) hσ)
      (fun col hcm => by
        obtain ⟨p, hp, rfl⟩ := List.mem_map.1 hcm
        exact hhyp p hp) hpre
    rw [← hcs] at hfault
    have hbody : P.body = .block (fs.flatMap (·.decls) ++ fs.flatMap (·.stmts) ++ fs.flatMap (·.sets) ++
        [.fill (B.fillTree B.treeName)] ++ fs.flatMap (·.clears)) := rfl
    show runEvent P QC.N σc QC.ev = _
    simp only [runEvent]
    rw [hbody]
    have : exec (P.ctx QC.N QC.ev) (.block (fs.flatMap (·.decls) ++ fs.flatMap (·.stmts) ++ fs.flatMap (·.sets) ++
        [.fill (B.fillTree B.treeName)] ++ fs.flatMap (·.clears))) ⟨σc, []⟩ = .error (.loud firstMsg) := by
      simp only [exec]
      rw [execs_append, execs_append, execs_append, execs_append, hexD]
      simp only []
      rw [hfault]
    rw [this]
  · simp only [colQ, denote, hempty]
    exact ⟨_, rfl⟩

end FaxVerif.Gen
