/-
Gen — the GENERAL `Aggregate` (extension of the fragment F0-lite of `Gen/Lite.lean`):

    seq.Aggregate(seed, lambda acc, x: body)

with `seq` a chain `coll(bank).{Select|Where}*`, `seed` an int / float LITERAL and `body` a pure
two-variable expression (constants, `acc`, the element `x` or its accessors, `+ - * /`, unary
minus). The aggregate is an event-level scalar; scalars are combined by arithmetic, comparisons,
`-`, `not` (type `GE`, the analogue of `EE`) and written one per column:

    ds.Select(e -> {name: xe, …})                      (`AQ`, compiled by `compileA`)

`Count()` / `Sum()` are the instances `Aggregate(0, acc + 1)` / `Aggregate(0, acc + x)` (func_adl's
`aggregate_shortcuts` rewrites them so before the translator sees them).

What the real translator does (ast_to_cpp_translator.py `visit_call_Aggregate_initial`,
statement.py `set_var.emit`), reproduced here:
  * the body is translated with `acc` typed as the SEED (int for an int literal, double for a float);
  * the accumulator is declared, hoisted next to the collection handle, as `T acc (seed);` with
    T = the seed's type if the body has that type, else `most_accurate_type([seed, body])`;
  * the update is `acc = body;`, wrapped in `static_cast<T>(…)` iff the body's type is not T
    (only possible for a double seed and an int / float body).
No Mathlib; computable.
-/
import FaxVerif.Gen.Lite
namespace FaxVerif.Gen
open FaxVerif.Cpp FaxVerif.Linq

/-- the body of the accumulation lambda: pure, over the accumulator `acc` and the element `it` -/
inductive AE where
  | int (n : Nat)
  | dbl (m : Nat) (e : Int)
  | acc
  | it
  | meth (name : String) (ty : Ty)      -- it.name(), with the declared return type
  | bin (op : AOp) (a b : AE)
  | neg (a : AE)
deriving Repr, Inhabited

/-- a literal seed; `nint n` / `ndbl m e` are the negative literals `-n` / `-m·10^e` (Python parses
them as unary minus on a constant; the translator emits `int acc ((-(3)));`) -/
inductive Seed where
  | int (n : Nat)
  | dbl (m : Nat) (e : Int)
  | nint (n : Nat)
  | ndbl (m : Nat) (e : Int)
deriving Repr, Inhabited

def Seed.ty : Seed → Ty
  | .int _ => .int
  | .dbl _ _ => .double
  | .nint _ => .int
  | .ndbl _ _ => .double

def Seed.cexpr : Seed → CExpr
  | .int n => .int n
  | .dbl m e => .dbl (decText m e) m e
  | .nint n => .un "-" (.int n)
  | .ndbl m e => .un "-" (.dbl (decText m e) m e)

def Seed.query : Seed → Query
  | .int n => .int n
  | .dbl m e => .dbl m e
  | .nint n => .neg (.int n)
  | .ndbl m e => .neg (.dbl m e)

/-- a non-negative int literal (the seeds of the widened case of the theorems) -/
def Seed.isNatLit : Seed → Bool
  | .int _ => true
  | _ => false

structure Agg where
  c : Chain
  seed : Seed
  body : AE
deriving Repr, Inhabited

/-- event-level scalar expressions over general aggregates -/
inductive GE where
  | int (n : Nat)
  | dbl (m : Nat) (e : Int)
  | bool (b : Bool)
  | agg (g : Agg)
  | bin (op : AOp) (a b : GE)
  | cmp (op : COp) (a b : GE)
  | neg (a : GE)
  | not (a : GE)
deriving Repr, Inhabited

/-- `ds.Select(e -> {name: xe, …})` -/
abbrev AQ := List (String × GE)

/-! ## typing -/

/-- the type the translator computes for the body, `acc` typed `accT`, the element typed `cur` -/
def tyAE (accT cur : Ty) : AE → Ty
  | .int _ => .int
  | .dbl _ _ => .double
  | .acc => accT
  | .it => cur
  | .meth _ ty => ty
  | .bin .div _ _ => .double
  | .bin _ a b => (tyAE accT cur a).join (tyAE accT cur b)
  | .neg a => tyAE accT cur a

/-- the type of the body as the translator sees it: `acc` has the seed's type -/
def Agg.bodyTy (g : Agg) : Ty := tyAE g.seed.ty ((chainTy none g.c.steps).getD .double) g.body

/-- the declared C++ type of the accumulator -/
def Agg.accTy (g : Agg) : Ty := g.seed.ty.join g.bodyTy

def tyGE : GE → Ty
  | .int _ => .int
  | .dbl _ _ => .double
  | .bool _ => .bool
  | .agg g => g.accTy
  | .bin .div _ _ => .double
  | .bin _ a b => (tyGE a).join (tyGE b)
  | .cmp _ _ _ => .bool
  | .neg a => tyGE a
  | .not _ => .bool

/-! ## embedding into user-level queries -/

def accName : String := "acc"
def elemName : String := "v"

def aeQ (a x : String) : AE → Query
  | .int n => .int n
  | .dbl m e => .dbl m e
  | .acc => .var a
  | .it => .var x
  | .meth name _ => .meth (.var x) name
  | .bin op p q => .bin op.str (aeQ a x p) (aeQ a x q)
  | .neg p => .neg (aeQ a x p)

def aggQ (ev : String) (g : Agg) : Query :=
  .aggregate (chainQ ev g.c) g.seed.query accName elemName (aeQ accName elemName g.body)

def geQ (ev : String) : GE → Query
  | .int n => .int n
  | .dbl m e => .dbl m e
  | .bool b => .bool b
  | .agg g => aggQ ev g
  | .bin op a b => .bin op.str (geQ ev a) (geQ ev b)
  | .cmp op a b => .cmp op.str (geQ ev a) (geQ ev b)
  | .neg a => .neg (geQ ev a)
  | .not a => .not (geQ ev a)

def AQ.toQuery (cols : AQ) : Query :=
  .select .ds "e" (.dict (cols.map (·.1)) (cols.map fun p => geQ "e" p.2))

/-! ## compilation -/

def compAE (ptr : Bool) (acc cur : CExpr) (accT curTy : Ty) : AE → CExpr
  | .int n => .int n
  | .dbl m e => .dbl (decText m e) m e
  | .acc => acc
  | .it => cur
  | .meth name _ => .mem cur ptr name []
  | .bin op a b =>
    let a' := compAE ptr acc cur accT curTy a
    let b' := compAE ptr acc cur accT curTy b
    if op = .div ∧ (tyAE accT curTy a).join (tyAE accT curTy b) = .int then .bin "/" (.cast "double" a') b'
    else .bin op.str a' b'
  | .neg a => .un "-" (compAE ptr acc cur accT curTy a)

/-- the update statement inside the loop, given the chain's final value and its type -/
def aggUpdate (ptr : Bool) (g : Agg) (accV : String) (cur : CExpr) (cty : Option Ty) : Stmt :=
  let body := compAE (ptr && cty.isNone) (.var accV) cur g.seed.ty (cty.getD .double) g.body
  let bT := tyAE g.seed.ty (cty.getD .double) g.body
  let aT := g.seed.ty.join bT
  .set accV (if aT = bT then body else .cast aT.cpp body)

def compAgg (B : Backend) (nm : Nat → String) (g : Agg) (n : Nat) : EFrag :=
  let acc := nm n
  let f := compChain B nm g.c (n + 1) (fun cur cty => [aggUpdate B.elemPtr g acc cur cty])
  ⟨f.decls ++ [.decl g.accTy.cpp acc (some g.seed.cexpr)], f.stmts, .var acc, f.next⟩

def compGE (B : Backend) (nm : Nat → String) : GE → Nat → EFrag
  | .int v, n => ⟨[], [], .int v, n⟩
  | .dbl m e, n => ⟨[], [], .dbl (decText m e) m e, n⟩
  | .bool b, n => ⟨[], [], .bool b, n⟩
  | .agg g, n => compAgg B nm g n
  | .bin op a b, n =>
    let fa := compGE B nm a n
    let fb := compGE B nm b fa.next
    let v := if op = .div ∧ (tyGE a).join (tyGE b) = .int then CExpr.bin "/" (.cast "double" fa.val) fb.val
             else .bin op.str fa.val fb.val
    ⟨fa.decls ++ fb.decls, fa.stmts ++ fb.stmts, v, fb.next⟩
  | .cmp op a b, n =>
    let fa := compGE B nm a n
    let fb := compGE B nm b fa.next
    ⟨fa.decls ++ fb.decls, fa.stmts ++ fb.stmts, .bin op.str fa.val fb.val, fb.next⟩
  | .neg a, n => let fa := compGE B nm a n; ⟨fa.decls, fa.stmts, .un "-" fa.val, fa.next⟩
  | .not a, n => let fa := compGE B nm a n; ⟨fa.decls, fa.stmts, .un "!" fa.val, fa.next⟩

/-- the columns' fragments, the name supply threaded through -/
def compGEs (B : Backend) (nm : Nat → String) : List GE → Nat → List EFrag
  | [], _ => []
  | e :: es, n =>
    let f := compGE B nm e n
    f :: compGEs B nm es f.next

/-- the scalar assignments after all loops: column `idx + k` takes the value of fragment `k` -/
def setsA (cn : Nat → String) : List EFrag → Nat → List Stmt
  | [], _ => []
  | f :: fs, idx => .set (cn idx) f.val :: setsA cn fs (idx + 1)

def classVarsA (cn : Nat → String) : List GE → Nat → List (String × String)
  | [], _ => []
  | e :: es, idx => ((tyGE e).cpp, cn idx) :: classVarsA cn es (idx + 1)

def geBanks : GE → List String
  | .agg g => [g.c.bank]
  | .bin _ a b => geBanks a ++ geBanks b
  | .cmp _ a b => geBanks a ++ geBanks b
  | .neg a => geBanks a
  | .not a => geBanks a
  | _ => []

def compileA (B : Backend) (nm cn : Nat → String) (cols : AQ) : Package :=
  let es := cols.map (·.2)
  let fs := compGEs B nm es 0
  let stmts := fs.flatMap (·.stmts)
  let toks := banksOf B stmts (es.flatMap geBanks)
  let cvs := classVarsA cn es 0
  { body := .block (fs.flatMap (·.decls) ++ stmts ++ setsA cn fs 0 ++ [.fill (B.fillTree B.treeName)]),
    classVars := toks.map (fun t => ("edm::EDGetTokenT<" ++ t.2.1 ++ ">", t.1)) ++ cvs,
    branches := (cols.map (·.1)).zip (cvs.map (·.2)),
    tree := B.treeName,
    tokens := toks }

end FaxVerif.Gen
