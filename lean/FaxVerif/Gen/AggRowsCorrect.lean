/-
Gen — end-to-end correctness of event-level rows over general aggregates:
    ds.Select(e -> {name: xe, …})          xe = scalar built from Aggregate / arithmetic / comparisons
(`compileA`): declarations hoisted to the top of the block, one retrieval + loop per aggregate, the
scalar assignments, the Fill.
-/
import FaxVerif.Gen.AggTok
import FaxVerif.Gen.EventRowsCorrect
namespace FaxVerif.Gen
open FaxVerif.Cpp FaxVerif.Linq
variable {D : Type}

def gesNext (B : Backend) (nm : Nat → String) : List GE → Nat → Nat
  | [], n => n
  | e :: es, n => gesNext B nm es (compGE B nm e n).next

theorem gesNext_ge (B : Backend) (nm : Nat → String) : ∀ (es : List GE) (n : Nat), n ≤ gesNext B nm es n
  | [], n => Nat.le_refl n
  | e :: es, n => by
    have h1 := compGE_next_ge B nm e n
    have h2 := gesNext_ge B nm es (compGE B nm e n).next
    simp only [gesNext]; omega

theorem compGEs_declsIn (B : Backend) (nm : Nat → String) : ∀ (es : List GE) (n : Nat),
    DeclsIn nm n (gesNext B nm es n) ((compGEs B nm es n).flatMap (·.decls))
  | [], n => by intro d hd; simp [compGEs] at hd
  | e :: es, n => by
    simp only [compGEs, List.flatMap_cons, gesNext]
    have h1 := compGE_next_ge B nm e n
    have h2 := gesNext_ge B nm es (compGE B nm e n).next
    exact ((compGE_decls B nm e n).mono (Nat.le_refl _) h2).append
      ((compGEs_declsIn B nm es _).mono h1 (Nat.le_refl _))

theorem compGEs_declsOK (C : Ctx D) (B : Backend) (hB : BackendBase B) (nm : Nat → String)
    (hinj : ∀ i j, nm i = nm j → i = j) : ∀ (es : List GE) (n : Nat),
    (∀ d ∈ (compGEs B nm es n).flatMap (·.decls), SimpleDeclA C.N d) ∧
    (((compGEs B nm es n).flatMap (·.decls)).map declName).Nodup
  | [], _ => by simp [compGEs]
  | e :: es, n => by
    have hc := compGE_declsOK C B hB nm hinj e n
    have ih := compGEs_declsOK C B hB nm hinj es (compGE B nm e n).next
    simp only [compGEs, List.flatMap_cons]
    refine ⟨fun d hd => ?_, ?_⟩
    · rcases List.mem_append.1 hd with h | h
      · exact hc.1 d h
      · exact ih.1 d h
    · rw [List.map_append]
      exact nodup_append_ranges hinj hc.2 ih.2 (declsIn_names (compGE_decls B nm e n))
        (declsIn_names (compGEs_declsIn B nm es _))

/-- after all loops: every column's value expression evaluates to the column's value -/
def ValsReady (N : Num D) : List EFrag → List (Val D) → Env D → Prop
  | [], [], _ => True
  | f :: fs, v :: vs, σ => evalE N σ f.val = .ok v ∧ ValsReady N fs vs σ
  | _, _, _ => False

theorem valsReady_stable (C : Ctx D) (B : Backend) (nm : Nat → String) : ∀ (es : List GE) (n : Nat)
    (vs : List (Val D)) (σ σ' : Env D),
    (∀ y, InRange nm n (gesNext B nm es n) y → σ' y = σ y) →
    ValsReady C.N (compGEs B nm es n) vs σ → ValsReady C.N (compGEs B nm es n) vs σ'
  | [], _, vs, _, _, _, h => by cases vs <;> simpa [compGEs, ValsReady] using h
  | e :: es, n, vs, σ, σ', hag, h => by
    cases vs with
    | nil => simp [compGEs, ValsReady] at h
    | cons v vs =>
      simp only [compGEs, ValsReady] at h ⊢
      have h1 := compGE_next_ge B nm e n
      have h2 := gesNext_ge B nm es (compGE B nm e n).next
      refine ⟨?_, valsReady_stable C B nm es _ vs σ σ' (fun y hy => hag y ?_) h.2⟩
      · rw [← h.1]
        apply evalE_congr
        intro x hx
        exact hag x (by simp only [gesNext]; exact (compGE_val_vars B nm e n x hx).mono (Nat.le_refl _) h2)
      · simp only [gesNext]; exact hy.mono h1 (Nat.le_refl _)

/-- running the loops of all columns, in order -/
theorem compGEs_correct (C : Ctx D) (QC : QCtx D) (hN : QC.N = C.N) (hev : QC.ev = C.ev)
    (B : Backend) (hB : BackendBase B) (nm : Nat → String)
    (hinj : ∀ i j, nm i = nm j → i = j) (hres : ∀ j, nm j ≠ "result")
    (hcollT : ∀ name, B.collType name = QC.collType name) :
    ∀ (es : List GE) (n : Nat) (s : St D) (vs : List (Val D)), TokGEs B nm C es n →
      DeclsDoneA C.N ((compGEs B nm es n).flatMap (·.decls)) s.env →
      (∀ e ∈ es, wtGE e = true ∧ ∀ g ∈ aggsGE e, AggHyp QC g) →
      denotes QC [("e", evtVal)] (es.map (geQ "e")) = .ok vs →
      ∃ s', execs C ((compGEs B nm es n).flatMap (·.stmts)) s = .ok s' ∧ s'.rows = s.rows ∧
        ValsReady C.N (compGEs B nm es n) vs s'.env ∧
        (∀ y, ¬ Touch nm n (gesNext B nm es n) y → s'.env y = s.env y)
  | [], n, s, vs, _, _, _, hden => by
    simp only [List.map_nil, denotes, Except.ok.injEq] at hden; subst hden
    exact ⟨s, by simp [compGEs, execs], rfl, by simp [compGEs, ValsReady], fun _ _ => rfl⟩
  | e :: es, n, s, vs, htk, hdone, hhyp, hden => by
    simp only [List.map_cons, denotes] at hden
    cases hd1 : denote QC [("e", evtVal)] (geQ "e" e) with
    | error f => rw [hd1] at hden; simp at hden
    | ok v =>
      rw [hd1] at hden; simp only [] at hden
      cases hd2 : denotes QC [("e", evtVal)] (es.map (geQ "e")) with
      | error f => rw [hd2] at hden; simp at hden
      | ok vs' =>
        rw [hd2] at hden; simp only [Except.ok.injEq] at hden; subst hden
        simp only [compGEs, List.flatMap_cons] at hdone ⊢
        have h1 := compGE_next_ge B nm e n
        have h2 := gesNext_ge B nm es (compGE B nm e n).next
        obtain ⟨hwe, hte⟩ := hhyp e (by simp)
        obtain ⟨s1, hex1, hr1, hv1, _, hfr1⟩ := compGE_correct_tok C QC hN hev B hB nm hinj hres hcollT e n s v htk.1
          (fun d hd => hdone d (by simp [hd])) hwe hte hd1
        have hrest_names : ∀ y, InRange nm (compGE B nm e n).next (gesNext B nm es (compGE B nm e n).next) y →
            s1.env y = s.env y := by
          intro y hy
          apply hfr1 y
          rintro (h | h)
          · exact inRange_disjoint hinj hy h
          · obtain ⟨j, _, _, hj⟩ := hy; exact hres j (hj ▸ h)
        have hdone2 : DeclsDoneA C.N ((compGEs B nm es (compGE B nm e n).next).flatMap (·.decls)) s1.env :=
          DeclsDoneA.transport (fun d hd => hdone d (by simp [hd])) (compGEs_declsIn B nm es _) hrest_names
        obtain ⟨s', hex2, hr2, hready2, hfr2⟩ := compGEs_correct C QC hN hev B hB nm hinj hres hcollT
          es _ s1 vs' htk.2 hdone2 (fun e' he' => hhyp e' (by simp [he'])) hd2
        refine ⟨s', by rw [execs_append, hex1]; exact hex2, by rw [hr2, hr1], ⟨?_, hready2⟩, ?_⟩
        · rw [← hv1]
          apply evalE_congr
          intro x hx
          have hxr := compGE_val_vars B nm e n x hx
          apply hfr2
          rintro (h | h)
          · exact inRange_disjoint hinj h hxr
          · obtain ⟨j, _, _, hj⟩ := hxr; exact hres j (hj ▸ h)
        · intro y hy
          simp only [gesNext] at hy
          rw [hfr2 y (not_touch_sub hy h1 (Nat.le_refl _)), hfr1 y (not_touch_sub hy (Nat.le_refl _) h2)]

/-- the scalar assignments after all loops -/
theorem setsA_correct (C : Ctx D) (B : Backend) (nm cn : Nat → String)
    (hcinj : ∀ i j, cn i = cn j → i = j) (hdisj : ∀ j k, nm j ≠ cn k) :
    ∀ (es : List GE) (idx n : Nat) (s : St D) (vs : List (Val D)),
      ValsReady C.N (compGEs B nm es n) vs s.env →
      (∀ k, idx ≤ k → k < idx + es.length → (s.env (cn k)).isSome = true) →
      ∃ s', execs C (setsA cn (compGEs B nm es n) idx) s = .ok s' ∧ s'.rows = s.rows ∧
        VarsHold cn idx vs s'.env ∧ (∀ y, (∀ k, idx ≤ k → y ≠ cn k) → s'.env y = s.env y)
  | [], idx, n, s, vs, h, _ => by
    cases vs with
    | nil => exact ⟨s, by simp [compGEs, setsA, execs], rfl, trivial, fun _ _ => rfl⟩
    | cons v vs => simp [compGEs, ValsReady] at h
  | e :: es, idx, n, s, vs, h, hdecl => by
    cases vs with
    | nil => simp [compGEs, ValsReady] at h
    | cons v vs =>
      simp only [compGEs, ValsReady] at h
      simp only [compGEs, setsA]
      let s1 : St D := { s with env := s.env.set (cn idx) v }
      have hrest : ValsReady C.N (compGEs B nm es (compGE B nm e n).next) vs s1.env := by
        apply valsReady_stable C B nm es _ vs s.env s1.env _ h.2
        intro y hy
        have hne : y ≠ cn idx := by
          obtain ⟨j, _, _, hj⟩ := hy
          rw [hj]; exact hdisj j idx
        simp [s1, Env.set, hne]
      have hdecl1 : ∀ k, idx + 1 ≤ k → k < idx + 1 + es.length → (s1.env (cn k)).isSome = true := by
        intro k hk1 hk2
        have : cn k ≠ cn idx := fun e' => by have := hcinj _ _ e'; omega
        simp only [s1, Env.set, this, if_false]
        exact hdecl k (by omega) (by simp only [List.length_cons]; omega)
      obtain ⟨s', hex, hrows, hvars, hfr⟩ := setsA_correct C B nm cn hcinj hdisj es (idx + 1) _ s1 vs hrest hdecl1
      refine ⟨s', ?_, by rw [hrows], ⟨?_, hvars⟩, ?_⟩
      · simp only [execs]
        rw [exec_set_ok C s (cn idx) _ v (hdecl idx (Nat.le_refl _) (by simp only [List.length_cons]; omega)) h.1]
        exact hex
      · rw [hfr (cn idx) (fun k hk e' => by have := hcinj _ _ e'; omega)]; simp [s1, Env.set]
      · intro y hy
        rw [hfr y (fun k hk => hy k (by omega))]
        simp [s1, Env.set, hy idx (Nat.le_refl _)]

theorem classVarsA_names (cn : Nat → String) : ∀ (es : List GE) (idx : Nat),
    (classVarsA cn es idx).map (·.2) = colNames cn es.length idx
  | [], _ => rfl
  | e :: es, idx => by simp [classVarsA, colNames, classVarsA_names cn es (idx + 1)]

/-- what the query denotes: one row, the values of the columns -/
theorem aggRows_denote (QC : QCtx D) (cols : AQ) (rows : List (List (Val D)))
    (h : denoteRows QC (AQ.toQuery cols) = .ok rows) :
    ∃ vs, denotes QC [("e", evtVal)] ((cols.map (·.2)).map (geQ "e")) = .ok vs ∧ rows = [vs] := by
  simp only [denoteRows, AQ.toQuery] at h
  rw [denote_select] at h
  simp only [denote, mapE] at h
  have hmap : cols.map (fun p => geQ "e" p.2) = (cols.map (·.2)).map (geQ "e") := by simp [List.map_map]
  rw [hmap] at h
  cases hd : denotes QC [("e", Val.obj "__event__" [])] ((cols.map (·.2)).map (geQ "e")) with
  | error e => rw [hd] at h; simp at h
  | ok vs =>
    rw [hd] at h
    simp only [Except.ok.injEq] at h
    refine ⟨vs, by simpa [evtVal] using hd, ?_⟩
    have hl := denotes_length QC _ _ vs hd
    rw [← h]
    simp only [List.map_cons, List.map_nil, rowOf, tupleVal]
    rw [List.map_snd_zip (by simp at hl ⊢; omega)]

theorem exec_blockA4 (C : Ctx D) (Ds Ss Ts : List Stmt) (t : String) (s0 sD sS sT : St D) (vs : List (Val D))
    (h1 : execs C Ds s0 = .ok sD) (h2 : execs C Ss sD = .ok sS) (h3 : execs C Ts sS = .ok sT)
    (h4 : readCols sT.env C.cols = .ok vs) :
    exec C (.block (Ds ++ Ss ++ Ts ++ [.fill t])) s0 = .ok ⟨sT.env, sT.rows ++ [vs]⟩ := by
  simp only [exec]
  rw [execs_append, execs_append, execs_append, h1]
  simp only []
  rw [h2]
  simp only []
  rw [h3]
  simp only [execs, exec, h4]

/-- **C01 (event-level rows over general aggregates)** — for every list of scalar columns built
from `Aggregate(seed, lambda acc, x: body)` over chains, arithmetic and comparisons, every event and
every class state in which the column variables are declared: if the query denotes `rows`
(necessarily one row) on the event, the package the translator model emits writes exactly `rows`.
All three backends: on the token idiom the table `compileA` emits binds every aggregate's token
(`tokGEs_compileA`). -/
theorem aggRows_correct (B : Backend) (hB : BackendBase B) (nm cn : Nat → String)
    (hinj : ∀ i j, nm i = nm j → i = j) (hcinj : ∀ i j, cn i = cn j → i = j)
    (hres : ∀ j, nm j ≠ "result") (hcres : ∀ k, cn k ≠ "result") (hdisj : ∀ j k, nm j ≠ cn k)
    (QC : QCtx D) (hcollT : ∀ name, B.collType name = QC.collType name)
    (cols : AQ) (hhyp : ∀ p ∈ cols, wtGE p.2 = true ∧ ∀ g ∈ aggsGE p.2, AggHyp QC g)
    (σc : Env D) (hσ : ∀ k, k < cols.length → (σc (cn k)).isSome = true)
    (rows : List (List (Val D)))
    (hden : denoteRows QC (AQ.toQuery cols) = .ok rows) :
    ∃ σ', runEvent (compileA B nm cn cols) QC.N σc QC.ev = .ok (rows, σ') := by
  obtain ⟨vs, hvs, rfl⟩ := aggRows_denote QC cols rows hden
  let es := cols.map (·.2)
  let fs := compGEs B nm es 0
  let P := compileA B nm cn cols
  let C := P.ctx QC.N QC.ev
  have hCcols : C.cols = colNames cn es.length 0 := by
    simp only [C, Package.ctx, P, compileA]
    rw [zip_map_snd _ _ (by simp [classVarsA_names, colNames_length]), classVarsA_names]
  have hvlen : vs.length = es.length := by
    have := denotes_length QC _ _ vs hvs; simpa [es] using this
  -- 1. declarations
  obtain ⟨hsimple, hnodup⟩ := compGEs_declsOK C B hB nm hinj es 0
  obtain ⟨sD, hexD, hrD, hdone, hfrD⟩ := exec_declsA C (fs.flatMap (·.decls)) ⟨σc, []⟩ hsimple hnodup
  have hcnD : ∀ k, sD.env (cn k) = σc (cn k) := by
    intro k
    apply hfrD
    intro hm
    obtain ⟨j, _, _, hj⟩ := declsIn_names (compGEs_declsIn B nm es 0) _ hm
    exact hdisj j k hj.symm
  -- 2. the loops of all columns
  obtain ⟨sS, hexS, hrS, hready, hfrS⟩ := compGEs_correct C QC rfl rfl B hB nm hinj hres hcollT es 0 sD vs (tokGEs_compileA B nm cn hinj cols QC.N QC.ev) hdone
    (fun e he => by
      obtain ⟨p, hp, rfl⟩ := List.mem_map.1 he
      exact hhyp p hp) hvs
  have hcnS : ∀ k, sS.env (cn k) = σc (cn k) := by
    intro k
    rw [hfrS (cn k) ?_, hcnD]
    rintro (⟨j, _, _, hj⟩ | h)
    · exact hdisj j k hj.symm
    · exact hcres k h
  -- 3. assignments
  obtain ⟨sT, hexT, hrT, hvars, _⟩ := setsA_correct C B nm cn hcinj hdisj es 0 0 sS vs hready
    (fun k _ hk => by rw [hcnS]; exact hσ k (by simpa [es] using hk))
  -- 4. fill
  have hread : readCols sT.env C.cols = .ok vs := by
    rw [hCcols, ← hvlen]; exact readCols_of_varsHold cn vs 0 sT.env hvars
  have hblock := exec_blockA4 C (fs.flatMap (·.decls)) (fs.flatMap (·.stmts)) (setsA cn fs 0)
    (B.fillTree B.treeName) ⟨σc, []⟩ sD sS sT vs hexD hexS hexT hread
  have hbody : P.body = .block (fs.flatMap (·.decls) ++ fs.flatMap (·.stmts) ++ setsA cn fs 0 ++
      [.fill (B.fillTree B.treeName)]) := rfl
  have hrun : runEvent P QC.N σc QC.ev = .ok (sT.rows ++ [vs], keepClass P.classVars sT.env) := by
    simp only [runEvent]
    rw [hbody]
    have : exec (P.ctx QC.N QC.ev) (.block (fs.flatMap (·.decls) ++ fs.flatMap (·.stmts) ++ setsA cn fs 0 ++
      [.fill (B.fillTree B.treeName)])) ⟨σc, []⟩ = .ok ⟨sT.env, sT.rows ++ [vs]⟩ := hblock
    rw [this]
  refine ⟨keepClass P.classVars sT.env, ?_⟩
  rw [show compileA B nm cn cols = P from rfl, hrun]
  have : sT.rows = [] := by rw [hrT, hrS, hrD]
  rw [this]; rfl

end FaxVerif.Gen
