/-
Driver of the arbitrary-depth nesting fragment (`Gen/Deep.lean`): JSON lines.
  {"op":"compileD","backend":b,"colls":[{"name","type","elem"}],"dq":DQ,"events":[..]}
    -> the model's package as text (`Gen.compileD`), the model's own exec / denote(toQuery) on the events,
       "wt": the query is inside the proved fragment, "depth": nesting depth of the deepest column
  DQ     = {"k":"eventRows","cols":[{"name","c":CHAIN,"e":DE}]} | {"k":"elemRows","c":CHAIN,"cols":[{"name","e":DE}]}
  DE     = {"k":"pure","p":PE} | {"k":"count"|"sum","c":DCHAIN} | {"k":"bin"|"cmp","op","a":DE,"b":DE} | {"k":"neg"|"not","a":DE}
  DCHAIN = {"meth","elem": "obj" | "int"|"float"|"double", "whrs":[DE, …] (in query order), "sel": DE | null}
Run: lake env lean --run FaxVerif/Gen/DeepDriver.lean
-/
import FaxVerif.Cpp.Json
import FaxVerif.Cpp.Check
import FaxVerif.Gen.Render
import FaxVerif.Gen.Deep
open Lean FaxVerif.Cpp FaxVerif.Linq FaxVerif.Gen

mutual
  partial def decDE (j : Json) : Except String DE := do
    let k ← jstr j "k"
    match k with
    | "pure" => pure (.pure (← decPE (← j.getObjVal? "p")))
    | "count" => pure (.count (← decDChain (← j.getObjVal? "c")))
    | "sum" => pure (.sum (← decDChain (← j.getObjVal? "c")))
    | "bin" => pure (.bin (← decAOp (← jstr j "op")) (← decDE (← j.getObjVal? "a")) (← decDE (← j.getObjVal? "b")))
    | "cmp" => pure (.cmp (← decCOp (← jstr j "op")) (← decDE (← j.getObjVal? "a")) (← decDE (← j.getObjVal? "b")))
    | "neg" => pure (.neg (← decDE (← j.getObjVal? "a")))
    | "not" => pure (.not (← decDE (← j.getObjVal? "a")))
    | o => throw s!"DE {o}"
  partial def decDChain (j : Json) : Except String DChain := do
    let elem ← match j.getObjVal? "elem" with
      | .ok (.str s) => pure (if s = "obj" then none else some (decTy s))
      | _ => pure none
    let ws ← (← jarr j "whrs").mapM decDE
    let sel ← match j.getObjVal? "sel" with
      | .ok .null => pure DOpt.none
      | .ok s => do pure (DOpt.some (← decDE s))
      | .error _ => pure DOpt.none
    pure (.mk (← jstr j "meth") elem (ws.foldl (fun acc c => DConds.snoc acc c) DConds.nil) sel)
end

def decDQ (j : Json) : Except String DQ := do
  let k ← jstr j "k"
  if k = "eventRows" then
    let cols ← (← jarr j "cols").mapM fun c => do
      pure ((← jstr c "name"), ({ c := (← decChain (← c.getObjVal? "c")), e := (← decDE (← c.getObjVal? "e")) } : DCol))
    pure (.eventRows cols)
  else
    let cols ← (← jarr j "cols").mapM fun c => do pure ((← jstr c "name"), (← decDE (← c.getObjVal? "e")))
    pure (.elemRows (← decChain (← j.getObjVal? "c")) cols)

def rowsJsonD (rows : List (List (Val Float))) : Json :=
  Json.mkObj [
    ("rows", Json.arr (rows.map fun r => Json.arr (r.map fun v => Json.str (showVal true v)).toArray).toArray),
    ("num", Json.arr (rows.map fun r => Json.arr (r.map fun v => Json.str (showVal false v)).toArray).toArray)]

def resJsonD : Except Fault (List (List (Val Float))) → Json
  | .ok rows => rowsJsonD rows
  | .error f => Json.mkObj [("fault", Json.str (faultClass f))]

def handleCompileD (j : Json) : Except String Json := do
  let colls ← (← jarr j "colls").mapM fun c => do pure ((← jstr c "name"), (← jstr c "type"), (← jstr c "elem"))
  let B := mkBackend (← jstr j "backend") colls
  let dq ← decDQ (← j.getObjVal? "dq")
  let P := compileD B nmLocal nmCol dq
  let evs ← (← jarr j "events").mapM decEvent
  let cts := colls.map fun c => (c.1, c.2.1)
  let jl (l : List String) := Json.arr (l.map Json.str).toArray
  let execs := evs.map fun ev => resJsonD ((runEvent P floatNum (classInit P.classVars) ev).map (·.1))
  let job := resJsonD (runJob P floatNum evs)
  let dens := evs.map fun ev => resJsonD (denoteRows { N := floatNum, ev := ev, collTypes := cts } dq.toQuery)
  let wt := match dq with
    | .eventRows cols => cols.all fun p => wtDCol p.2
    | .elemRows c cols => wtOuter c && cols.all fun p => wtDE none p.2
  let depth : Nat := match dq with
    | .eventRows cols => cols.foldl (fun m p => max m (depthDE p.2.e)) 0
    | .elemRows _ cols => cols.foldl (fun m p => max m (depthDE p.2)) 0
  pure (Json.mkObj [
    ("body", jl (renderS P.body)),
    ("class_decl", jl (P.classVars.map fun p => s!"{p.1} {p.2};")),
    ("branches", Json.arr (P.branches.map fun p => Json.mkObj [("name", p.1), ("var", p.2)]).toArray),
    ("tokens", Json.arr (P.tokens.map fun t => Json.mkObj [("token", t.1), ("type", t.2.1), ("bank", t.2.2)]).toArray),
    ("tree", P.tree),
    ("exec", Json.arr execs.toArray), ("denote", Json.arr dens.toArray), ("job", job),
    ("wt", Json.bool wt), ("depth", Json.num (JsonNumber.fromNat depth)),
    ("wf", Json.bool (WellFormed P)), ("eventlocal", Json.bool (EventLocal P))])

def handleD (line : String) : String :=
  match Json.parse line with
  | .error e => (Json.mkObj [("bad", e)]).compress
  | .ok j =>
    let r : Except String Json := do
      let op ← jstr j "op"
      if op == "compileD" then handleCompileD j else throw s!"unknown op {op}"
    match r with
    | .ok j => j.compress
    | .error e => (Json.mkObj [("bad", e)]).compress

partial def loopIOD (h : IO.FS.Stream) (out : IO.FS.Stream) : IO Unit := do
  let line ← h.getLine
  if line.isEmpty then return ()
  let t := line.trimAscii.toString
  if !t.isEmpty then out.putStrLn (handleD t)
  loopIOD h out

def main : IO Unit := do
  let out ← IO.getStdout
  loopIOD (← IO.getStdin) out
  out.flush
