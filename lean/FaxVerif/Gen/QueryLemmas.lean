/-
Gen — what the embedded queries (`toQuery`) denote, in terms of the element-at-a-time semantics
`elemsSem` used on the C++ side.
-/
import FaxVerif.Gen.ChainCorrect
namespace FaxVerif.Gen
open FaxVerif.Cpp FaxVerif.Linq
variable {D : Type}

theorem stepsQ_error (C : QCtx D) (ρ : LEnv D) (e : Fault) : ∀ (steps : List Step) (src : Query) (k : Nat),
    denote C ρ src = .error e → denote C ρ (stepsQ src steps k) = .error e
  | [], src, k, h => by simpa [stepsQ] using h
  | .sel f :: rest, src, k, h => by
    simp only [stepsQ]
    exact stepsQ_error C ρ e rest _ _ (by simp [denote, h])
  | .whr c :: rest, src, k, h => by
    simp only [stepsQ]
    exact stepsQ_error C ρ e rest _ _ (by simp [denote, h])

theorem mapE_congr (f g : Val D → Except Fault (Val D)) (h : ∀ v, f v = g v) : ∀ l, mapE f l = mapE g l
  | [] => rfl
  | v :: vs => by simp only [mapE, h v, mapE_congr f g h vs]

theorem filterE_congr (N : Num D) (f g : Val D → Except Fault (Val D)) (h : ∀ v, f v = g v) : ∀ l, filterE N f l = filterE N g l
  | [] => rfl
  | v :: vs => by simp only [filterE, h v, filterE_congr N f g h vs]

/-- the chain's steps applied to a source that denotes the list `l` -/
theorem stepsQ_denote (C : QCtx D) (ρ : LEnv D) : ∀ (steps : List Step) (src : Query) (k : Nat) (l : List (Val D)),
    denote C ρ src = .ok (.vec l) →
    denote C ρ (stepsQ src steps k) = (match chainList C steps l with
      | .ok r => .ok (.vec r)
      | .error e => .error e)
  | [], src, k, l, h => by simpa [stepsQ, chainList] using h
  | .sel f :: rest, src, k, l, h => by
    simp only [stepsQ, chainList]
    have hf : mapE (fun v => denote C ((lamVar k, v) :: ρ) (peQ (lamVar k) f)) l = mapE (fun v => peSem C v f) l :=
      mapE_congr _ _ (fun v => peQ_indep C v (lamVar k) "x" ρ [] f) l
    cases hm : mapE (fun v => peSem C v f) l with
    | error e =>
      simp only []
      exact stepsQ_error C ρ e rest _ _ (by simp [denote, h, hf, hm])
    | ok r =>
      simp only []
      exact stepsQ_denote C ρ rest _ _ r (by simp [denote, h, hf, hm])
  | .whr c :: rest, src, k, l, h => by
    simp only [stepsQ, chainList]
    have hf : filterE C.N (fun v => denote C ((lamVar k, v) :: ρ) (peQ (lamVar k) c)) l = filterE C.N (fun v => peSem C v c) l :=
      filterE_congr C.N _ _ (fun v => peQ_indep C v (lamVar k) "x" ρ [] c) l
    cases hm : filterE C.N (fun v => peSem C v c) l with
    | error e =>
      simp only []
      exact stepsQ_error C ρ e rest _ _ (by simp [denote, h, hf, hm])
    | ok r =>
      simp only []
      exact stepsQ_denote C ρ rest _ _ r (by simp [denote, h, hf, hm])

theorem stepsQ_nonvec (C : QCtx D) (ρ : LEnv D) (x : Val D) (hx : ∀ l, x ≠ .vec l) :
    ∀ (steps : List Step) (src : Query) (k : Nat), denote C ρ src = .ok x →
      ∀ r, denote C ρ (stepsQ src steps k) = .ok r → r = x
  | [], src, k, h, r, hr => by
    simp only [stepsQ] at hr; rw [h] at hr; simp only [Except.ok.injEq] at hr; exact hr.symm
  | .sel f :: rest, src, k, h, r, hr => by
    simp only [stepsQ] at hr
    have : denote C ρ (.select src (lamVar k) (peQ (lamVar k) f)) = .error (.typeErr "Select source is not a sequence") := by
      cases x with
      | vec l => exact absurd rfl (hx l)
      | _ => simp [denote, h]
    rw [stepsQ_error C ρ _ rest _ _ this] at hr; simp at hr
  | .whr c :: rest, src, k, h, r, hr => by
    simp only [stepsQ] at hr
    have : denote C ρ (.where_ src (lamVar k) (peQ (lamVar k) c)) = .error (.typeErr "Where source is not a sequence") := by
      cases x with
      | vec l => exact absurd rfl (hx l)
      | _ => simp [denote, h]
    rw [stepsQ_error C ρ _ rest _ _ this] at hr; simp at hr

/-- If a chain denotes a value, then the bank exists with the collection's container type, it
holds a list, and the value is the list of what the kept elements become. -/
theorem chainQ_ok (C : QCtx D) (ρ : LEnv D) (ev : String) (c : Chain) (ws : List (Val D))
    (h : denote C ρ (chainQ ev c) = .ok (.vec ws)) :
    ∃ cty l, C.collType c.coll = some cty ∧ C.ev.find c.bank = some (cty, .vec l) ∧
      elemsSem C c.steps l = .ok ws := by
  unfold chainQ at h
  cases hs : denote C ρ (.coll (.var ev) c.coll c.bank) with
  | error e => rw [stepsQ_error C ρ e c.steps _ 0 hs] at h; simp at h
  | ok src =>
    -- unfold the collection access
    simp only [denote] at hs
    cases hev : ρ.get ev with
    | none => rw [hev] at hs; simp at hs
    | some evv =>
      rw [hev] at hs
      simp only [] at hs
      cases hf : C.ev.find c.bank with
      | none => rw [hf] at hs; simp at hs
      | some p =>
        obtain ⟨have_, content⟩ := p
        rw [hf] at hs
        simp only [] at hs
        cases hct : C.collType c.coll with
        | none => rw [hct] at hs; simp at hs
        | some want =>
          rw [hct] at hs
          simp only [] at hs
          by_cases hw : want = have_
          · simp only [hw, if_true, Except.ok.injEq] at hs
            subst hs; subst hw
            -- the source must be a list, otherwise the first step (or the consumer) faults; we
            -- need it only when there is something to conclude: case on the content
            have hsrc : denote C ρ (.coll (.var ev) c.coll c.bank) = .ok content := by
              simp [denote, hev, hf, hct]
            cases content with
            | vec l =>
              rw [stepsQ_denote C ρ c.steps _ 0 l hsrc] at h
              cases hcl : chainList C c.steps l with
              | error e => rw [hcl] at h; simp at h
              | ok r =>
                rw [hcl] at h
                simp only [Except.ok.injEq, Val.vec.injEq] at h
                subst h
                exact ⟨want, l, rfl, rfl, chainList_elems C c.steps l r hcl⟩
            | _ =>
              exfalso
              have := stepsQ_nonvec C ρ _ (by intro l; simp) c.steps _ 0 hsrc _ h
              simp at this
          · simp [hw] at hs

end FaxVerif.Gen
