/-
Driver of the nested-iteration fragment (`Gen/Nested.lean`): JSON lines.
  {"op":"compileN","backend":b,"colls":[{"name","type","elem"}],"nq":NQ,"events":[..]}
    -> the model's package as text (`Gen.compileN`), the model's own exec / denote(toQuery) on the events,
       "wt": the query is inside the proved fragment
  NQ     = {"k":"eventRows","cols":[{"name","k":"agg","c":CHAIN,"e":NE} | {"name","k":"twoD","c":CHAIN,"ic":ICHAIN}]}
         | {"k":"elemRows","c":CHAIN,"cols":[{"name","e":NE}]}
  NE     = {"k":"pure","p":PE} | {"k":"icount","c":ICHAIN} | {"k":"isum","c":ICHAIN}
         | {"k":"bin"|"cmp","op","a":NE,"b":NE} | {"k":"neg"|"not","a":NE}
  ICHAIN = {"meth","elem": "obj" | "int"|"float"|"double", "steps":[{"k":"sel"|"whr","e":PE}]}
Run: lake env lean --run FaxVerif/Gen/NestedDriver.lean
-/
import FaxVerif.Cpp.Json
import FaxVerif.Cpp.Check
import FaxVerif.Gen.Render
import FaxVerif.Gen.Nested
open Lean FaxVerif.Cpp FaxVerif.Linq FaxVerif.Gen

def decSteps (j : Json) : Except String (List Step) := do
  (← jarr j "steps").mapM fun s => do
    let k ← jstr s "k"
    let e ← decPE (← s.getObjVal? "e")
    if k = "sel" then pure (Step.sel e) else pure (Step.whr e)

def decIChain (j : Json) : Except String IChain := do
  let elem ← match j.getObjVal? "elem" with
    | .ok (.str s) => pure (if s = "obj" then none else some (decTy s))
    | _ => pure none
  pure { meth := (← jstr j "meth"), elem := elem, steps := (← decSteps j) }

partial def decNE (j : Json) : Except String NE := do
  let k ← jstr j "k"
  match k with
  | "pure" => pure (.pure (← decPE (← j.getObjVal? "p")))
  | "icount" => pure (.icount (← decIChain (← j.getObjVal? "c")))
  | "isum" => pure (.isum (← decIChain (← j.getObjVal? "c")))
  | "bin" => pure (.bin (← decAOp (← jstr j "op")) (← decNE (← j.getObjVal? "a")) (← decNE (← j.getObjVal? "b")))
  | "cmp" => pure (.cmp (← decCOp (← jstr j "op")) (← decNE (← j.getObjVal? "a")) (← decNE (← j.getObjVal? "b")))
  | "neg" => pure (.neg (← decNE (← j.getObjVal? "a")))
  | "not" => pure (.not (← decNE (← j.getObjVal? "a")))
  | o => throw s!"NE {o}"

def decNQ (j : Json) : Except String NQ := do
  let k ← jstr j "k"
  if k = "eventRows" then
    let cols ← (← jarr j "cols").mapM fun c => do
      let name ← jstr c "name"
      let ck ← jstr c "k"
      let ch ← decChain (← c.getObjVal? "c")
      if ck = "agg" then pure (name, NCol.agg ch (← decNE (← c.getObjVal? "e")))
      else pure (name, NCol.twoD ch (← decIChain (← c.getObjVal? "ic")))
    pure (.eventRows cols)
  else
    let cols ← (← jarr j "cols").mapM fun c => do pure ((← jstr c "name"), (← decNE (← c.getObjVal? "e")))
    pure (.elemRows (← decChain (← j.getObjVal? "c")) cols)

def rowsJsonN (rows : List (List (Val Float))) : Json :=
  Json.mkObj [
    ("rows", Json.arr (rows.map fun r => Json.arr (r.map fun v => Json.str (showVal true v)).toArray).toArray),
    ("num", Json.arr (rows.map fun r => Json.arr (r.map fun v => Json.str (showVal false v)).toArray).toArray)]

def resJsonN : Except Fault (List (List (Val Float))) → Json
  | .ok rows => rowsJsonN rows
  | .error f => Json.mkObj [("fault", Json.str (faultClass f))]

def handleCompileN (j : Json) : Except String Json := do
  let colls ← (← jarr j "colls").mapM fun c => do pure ((← jstr c "name"), (← jstr c "type"), (← jstr c "elem"))
  let B := mkBackend (← jstr j "backend") colls
  let nq ← decNQ (← j.getObjVal? "nq")
  let P := compileN B nmLocal nmCol nq
  let evs ← (← jarr j "events").mapM decEvent
  let cts := colls.map fun c => (c.1, c.2.1)
  let jl (l : List String) := Json.arr (l.map Json.str).toArray
  let execs := evs.map fun ev => resJsonN ((runEvent P floatNum (classInit P.classVars) ev).map (·.1))
  let job := resJsonN (runJob P floatNum evs)
  let dens := evs.map fun ev => resJsonN (denoteRows { N := floatNum, ev := ev, collTypes := cts } nq.toQuery)
  let wt := match nq with
    | .eventRows cols => cols.all fun p => wtNCol p.2
    | .elemRows c cols => wtOuter c && cols.all fun p => wtNE p.2
  pure (Json.mkObj [
    ("body", jl (renderS P.body)),
    ("class_decl", jl (P.classVars.map fun p => s!"{p.1} {p.2};")),
    ("branches", Json.arr (P.branches.map fun p => Json.mkObj [("name", p.1), ("var", p.2)]).toArray),
    ("tokens", Json.arr (P.tokens.map fun t => Json.mkObj [("token", t.1), ("type", t.2.1), ("bank", t.2.2)]).toArray),
    ("tree", P.tree),
    ("exec", Json.arr execs.toArray), ("denote", Json.arr dens.toArray), ("job", job),
    ("wt", Json.bool wt),
    ("wf", Json.bool (WellFormed P)), ("eventlocal", Json.bool (EventLocal P))])

def handleN (line : String) : String :=
  match Json.parse line with
  | .error e => (Json.mkObj [("bad", e)]).compress
  | .ok j =>
    let r : Except String Json := do
      let op ← jstr j "op"
      if op == "compileN" then handleCompileN j else throw s!"unknown op {op}"
    match r with
    | .ok j => j.compress
    | .error e => (Json.mkObj [("bad", e)]).compress

partial def loopION (h : IO.FS.Stream) (out : IO.FS.Stream) : IO Unit := do
  let line ← h.getLine
  if line.isEmpty then return ()
  let t := line.trimAscii.toString
  if !t.isEmpty then out.putStrLn (handleN t)
  loopION h out

def main : IO Unit := do
  let out ← IO.getStdout
  loopION (← IO.getStdin) out
  out.flush
