/-
Gen — the translator model for nesting of ARBITRARY DEPTH: a lambda over an object element whose body
aggregates a collection returned by a method of the element, where the lambdas of the inner chain are again
such expressions — over the INNER element — and so on without bound:

    a.kids().Where(k → k.vs().Sum() > 1).Select(k → k.kids().Where(g → g.kids().Count() > 0).Count() * 2).Sum()

  * `DE`      element-level expressions over an element of kind `k` (`none`: an object, `some t`: a number):
              pure accessors / constants / arithmetic (`PE` of Gen/Lite.lean), `count c` / `sum c` of an inner chain,
              arithmetic, comparisons, `-`, `not` over them;
  * `DChain`  `it.m()` (element kind `elem`), then `Where` steps (`DConds`, a snoc-list: the LAST condition is the
              head constructor — func_adl fuses consecutive `Where`s into one left-nested `and`, the translator
              lowers it from the outside in), then at most one `Select` (`DOpt`); all the lambdas are `DE` over
              the inner element. No reference to an outer variable inside an inner lambda.
The recursion is mutual and structural (four mutually inductive types, no nesting through `List`/`Option`).

What the translator emits (found by running it at depth 2, 3, 4 on the three backends; tied on every run by
tools/gentie_deep.py: text modulo bijective renaming):
  * one loop per chain `for (auto &&i : cur.m())`, one fresh loop variable per level; the elements of a
    method-returned collection are values (`.` access) on every backend;
  * an aggregate's accumulator `T aggResultN (0);` is declared in the block that CONTAINS its loop — the loop
    body / `if` body of the enclosing level — so it restarts for every enclosing element, at every level;
  * block-level declarations are hoisted to the top of their block (`EFrag.decls` before `EFrag.stmts`);
  * conditions with statements: `bool r; [c1's loops] r = c1; if (r) { [c2's declarations and loops] r = c2; }`
    — the right operand's code lives in the `if` block; then `if (r) { [Select's declarations and loops] K }`;
  * the body of a `Select` is compiled even under `Count` (its value is not used).
`toQuery` embeds the fragment into `Linq.Query`; `compileD` produces the `Package`. No Mathlib; computable.
-/
import FaxVerif.Gen.Nested
namespace FaxVerif.Gen
open FaxVerif.Cpp FaxVerif.Linq

mutual
  /-- element-level expressions with aggregates of inner chains, to any depth -/
  inductive DE where
    | pure (p : PE)
    | count (c : DChain)
    | sum (c : DChain)
    | bin (op : AOp) (a b : DE)
    | cmp (op : COp) (a b : DE)
    | neg (a : DE)
    | not (a : DE)
  /-- `it.meth()` (elements of kind `elem`: `none` objects, `some t` numbers), `Where`s, an optional `Select` -/
  inductive DChain where
    | mk (meth : String) (elem : Option Ty) (whrs : DConds) (sel : DOpt)
  /-- the `Where` conditions; `snoc init c`: the conditions `init` (earlier `Where`s), then `c` (the last one) -/
  inductive DConds where
    | nil
    | snoc (init : DConds) (c : DE)
  inductive DOpt where
    | none
    | some (f : DE)
end

instance : Inhabited DE := ⟨.pure (.int 0)⟩
instance : Inhabited DChain := ⟨.mk "" Option.none .nil .none⟩

def DChain.meth : DChain → String | .mk m _ _ _ => m
def DChain.elem : DChain → Option Ty | .mk _ e _ _ => e
def DChain.whrs : DChain → DConds | .mk _ _ w _ => w
def DChain.sel : DChain → DOpt | .mk _ _ _ s => s

def DConds.isNil : DConds → Bool
  | .nil => true
  | .snoc _ _ => false

/-! ## typing -/

mutual
  def tyDE (k : Option Ty) : DE → Ty
    | .pure p => tyPE (k.getD .double) p
    | .count _ => .int
    | .sum c => Ty.join .int (tyChainD c)
    | .bin op a b => if op = .div then .double else (tyDE k a).join (tyDE k b)
    | .cmp _ _ _ => .bool
    | .neg a => tyDE k a
    | .not _ => .bool
  /-- the type of the values an inner chain ends in (meaningful when they are numbers) -/
  def tyChainD : DChain → Ty
    | .mk _ elem _ sel => tySelD elem sel
  def tySelD (elem : Option Ty) : DOpt → Ty
    | .none => elem.getD .double
    | .some f => tyDE elem f
end

/-- the chain ends in numbers: a `Select`, or a collection of numbers -/
def DChain.endsNum : DChain → Bool
  | .mk _ elem _ .none => elem.isSome
  | .mk _ _ _ (.some _) => true

mutual
  /-- static well-typedness over an element of kind `k`; aggregates need an object -/
  def wtDE (k : Option Ty) : DE → Bool
    | .pure p => wtPE k p
    | .count c => k.isNone && wtChainD c
    | .sum c => k.isNone && wtChainD c && c.endsNum && (tyChainD c).isNum
    | .bin _ a b => wtDE k a && wtDE k b && (tyDE k a).isNum && (tyDE k b).isNum
    | .cmp _ a b => wtDE k a && wtDE k b && (tyDE k a).isNum && (tyDE k b).isNum
    | .neg a => wtDE k a && (tyDE k a).isNum
    | .not a => wtDE k a && (tyDE k a == .bool)
  def wtChainD : DChain → Bool
    | .mk _ elem whrs sel =>
      (match elem with | some t => t.isNum | Option.none => true) && wtCondsD elem whrs && wtSelD elem sel
  def wtCondsD (elem : Option Ty) : DConds → Bool
    | .nil => true
    | .snoc init c => wtCondsD elem init && wtDE elem c && (tyDE elem c == .bool)
  def wtSelD (elem : Option Ty) : DOpt → Bool
    | .none => true
    | .some f => wtDE elem f && (tyDE elem f).isNum
end

mutual
  /-- nesting depth: the number of loops inside one another -/
  def depthDE : DE → Nat
    | .pure _ => 0
    | .count c => depthChainD c + 1
    | .sum c => depthChainD c + 1
    | .bin _ a b => max (depthDE a) (depthDE b)
    | .cmp _ a b => max (depthDE a) (depthDE b)
    | .neg a => depthDE a
    | .not a => depthDE a
  def depthChainD : DChain → Nat
    | .mk _ _ whrs sel => max (depthCondsD whrs) (depthSelD sel)
  def depthCondsD : DConds → Nat
    | .nil => 0
    | .snoc init c => max (depthCondsD init) (depthDE c)
  def depthSelD : DOpt → Nat
    | .none => 0
    | .some f => depthDE f
end

/-! ## embedding into user-level queries -/

/-- the parameter of the lambdas of a chain at nesting level `d` -/
def deepVar (d : Nat) : String := "z" ++ toString d

mutual
  def deQ (d : Nat) (x : String) : DE → Query
    | .pure p => peQ x p
    | .count c => .count (dchainQ d x c)
    | .sum c => .sum (dchainQ d x c)
    | .bin op a b => .bin op.str (deQ d x a) (deQ d x b)
    | .cmp op a b => .cmp op.str (deQ d x a) (deQ d x b)
    | .neg a => .neg (deQ d x a)
    | .not a => .not (deQ d x a)
  def dchainQ (d : Nat) (x : String) : DChain → Query
    | .mk m _ whrs sel => dselQ d (dcondsQ d (.meth (.var x) m) whrs) sel
  def dcondsQ (d : Nat) (src : Query) : DConds → Query
    | .nil => src
    | .snoc init c => .where_ (dcondsQ d src init) (deepVar d) (deQ (d + 1) (deepVar d) c)
  def dselQ (d : Nat) (src : Query) : DOpt → Query
    | .none => src
    | .some f => .select src (deepVar d) (deQ (d + 1) (deepVar d) f)
end

/-! ## compilation -/

def countKD (acc : String) : CExpr → List Stmt := fun _ => [.set acc (.bin "+" (.var acc) (.int 1))]
def sumKD (acc : String) : CExpr → List Stmt := fun w => [.set acc (.bin "+" (.var acc) w)]

/-- the body of a loop: without conditions the kept-element code directly, otherwise the lowered conjunction and
one `if` around it -/
def loopBodyD (noConds : Bool) (cf : EFrag) (inner : List Stmt) : List Stmt :=
  if noConds then inner else cf.decls ++ cf.stmts ++ [.ite cf.val inner []]

mutual
  /-- declarations (of the block that contains the loops), statements, value, next fresh index -/
  def compDE (nm : Nat → String) (ptr : Bool) (k : Option Ty) (cur : CExpr) : DE → Nat → EFrag
    | .pure p, n => ⟨[], [], compPE (ptr && k.isNone) cur (k.getD .double) p, n⟩
    | .count c, n =>
      let l := compLoopD nm ptr cur c (n + 1) (countKD (nm n))
      ⟨[.decl "int" (nm n) (some (.int 0))], l.1, .var (nm n), l.2⟩
    | .sum c, n =>
      let l := compLoopD nm ptr cur c (n + 1) (sumKD (nm n))
      ⟨[.decl (Ty.join .int (tyChainD c)).cpp (nm n) (some (.int 0))], l.1, .var (nm n), l.2⟩
    | .bin op a b, n =>
      let fa := compDE nm ptr k cur a n
      let fb := compDE nm ptr k cur b fa.next
      let v := if op = .div ∧ (tyDE k a).join (tyDE k b) = .int then CExpr.bin "/" (.cast "double" fa.val) fb.val
               else .bin op.str fa.val fb.val
      ⟨fa.decls ++ fb.decls, fa.stmts ++ fb.stmts, v, fb.next⟩
    | .cmp op a b, n =>
      let fa := compDE nm ptr k cur a n
      let fb := compDE nm ptr k cur b fa.next
      ⟨fa.decls ++ fb.decls, fa.stmts ++ fb.stmts, .bin op.str fa.val fb.val, fb.next⟩
    | .neg a, n => let fa := compDE nm ptr k cur a n; ⟨fa.decls, fa.stmts, .un "-" fa.val, fa.next⟩
    | .not a, n => let fa := compDE nm ptr k cur a n; ⟨fa.decls, fa.stmts, .un "!" fa.val, fa.next⟩
  /-- one loop over `cur.m()`: loop variable `nm n`, then the conditions' names, then the `Select`'s; `K` is what
  is done with the value of a kept element -/
  def compLoopD (nm : Nat → String) (ptr : Bool) (cur : CExpr) : DChain → Nat → (CExpr → List Stmt) → List Stmt × Nat
    | .mk m elem whrs sel, n, K =>
      let cf := compCondsD nm elem (.var (nm n)) whrs (n + 1)
      let fs := compSelD nm elem (.var (nm n)) sel cf.next
      ([.loop (nm n) (.mem cur ptr m []) (loopBodyD whrs.isNil cf (fs.decls ++ fs.stmts ++ K fs.val))], fs.next)
  /-- the lowered conjunction of the `Where` conditions (each may bring loops of its own) -/
  def compCondsD (nm : Nat → String) (elem : Option Ty) (it : CExpr) : DConds → Nat → EFrag
    | .nil, n => ⟨[], [], .bool true, n⟩
    | .snoc init c, n =>
      match init with
      | .nil => compDE nm false elem it c n
      | .snoc _ _ =>
        let inner := compCondsD nm elem it init (n + 1)
        let fc := compDE nm false elem it c inner.next
        ⟨.decl "bool" (nm n) none :: inner.decls,
         inner.stmts ++ [.set (nm n) inner.val, .ite (.var (nm n)) (fc.decls ++ fc.stmts ++ [.set (nm n) fc.val]) []],
         .var (nm n), fc.next⟩
  def compSelD (nm : Nat → String) (elem : Option Ty) (it : CExpr) : DOpt → Nat → EFrag
    | .none, n => ⟨[], [], it, n⟩
    | .some f, n => compDE nm false elem it f n
end

/-! ## columns, rows, the package -/

/-- event-level vector column  e.Coll(bank).Where*.Select(y → DE)  (the outer chain of `Gen/Nested.lean`) -/
structure DCol where
  c : Chain
  e : DE

inductive DQ where
  | eventRows (cols : List (String × DCol))               -- ds.Select(e → {name: col, …})
  | elemRows (c : Chain) (cols : List (String × DE))       -- ds.SelectMany(e → chain).Select(r → {name: de, …})

instance : Inhabited DQ := ⟨.eventRows []⟩

def wtDCol (col : DCol) : Bool := wtOuter col.c && wtDE none col.e

def dcolQ (ev : String) (col : DCol) : Query := .select (chainQ ev col.c) outerVar (deQ 0 outerVar col.e)

def DQ.toQuery : DQ → Query
  | .eventRows cols => .select .ds "e" (.dict (cols.map (·.1)) (cols.map fun p => dcolQ "e" p.2))
  | .elemRows c cols => .select (.selectMany .ds "e" (chainQ "e" c)) "r"
      (.dict (cols.map (·.1)) (cols.map fun p => deQ 0 "r" p.2))

def compDEs (nm : Nat → String) (ptr : Bool) (cur : CExpr) : List DE → Nat → ColsFrag
  | [], n => ⟨[], [], [], n⟩
  | e :: rest, n =>
    let f := compDE nm ptr none cur e n
    let r := compDEs nm ptr cur rest f.next
    ⟨f.decls ++ r.decls, f.stmts ++ r.stmts, f.val :: r.vals, r.next⟩

/-- the accumulators' declarations, the loops, then `col.push_back(value)` -/
def aggKD (B : Backend) (nm : Nat → String) (v : String) (e : DE) : KN := fun cur ty m =>
  let f := compDE nm (B.elemPtr && ty.isNone) none cur e m
  (f.decls ++ f.stmts ++ [.push v f.val], f.next)

def compDCol (B : Backend) (nm cn : Nat → String) (idx : Nat) (col : DCol) (n : Nat) : ColFrag :=
  let v := cn idx
  let f := compChainN B nm col.c n (aggKD B nm v col.e)
  ⟨f.decls, f.stmts, [], [.clear v], (vecTy (tyDE none col.e).cpp, v), f.next⟩

def compDCols (B : Backend) (nm cn : Nat → String) : List DCol → Nat → Nat → List ColFrag
  | [], _, _ => []
  | c :: cs, idx, n =>
    let f := compDCol B nm cn idx c n
    f :: compDCols B nm cn cs (idx + 1) f.next

def colVarsD (cn : Nat → String) : List DE → Nat → List (String × String)
  | [], _ => []
  | e :: rest, idx => ((tyDE none e).cpp, cn idx) :: colVarsD cn rest (idx + 1)

def rowKD (B : Backend) (nm cn : Nat → String) (es : List DE) : KN := fun cur ty m =>
  let cf := compDEs nm (B.elemPtr && ty.isNone) cur es m
  (cf.decls ++ cf.stmts ++ setsOf cn cf.vals 0 ++ [.fill (B.fillTree B.treeName)], cf.next)

def compileD (B : Backend) (nm cn : Nat → String) : DQ → Package
  | .eventRows cols =>
    let fs := compDCols B nm cn (cols.map (·.2)) 0 0
    let stmts := fs.flatMap (·.stmts)
    let toks := banksOf B stmts (cols.map (·.2.c.bank))
    { body := .block (fs.flatMap (·.decls) ++ stmts ++ [.fill (B.fillTree B.treeName)] ++ fs.flatMap (·.clears)),
      classVars := toks.map (fun t => ("edm::EDGetTokenT<" ++ t.2.1 ++ ">", t.1)) ++ fs.map (·.classVar),
      branches := (cols.map (·.1)).zip (fs.map (·.classVar.2)),
      tree := B.treeName,
      tokens := toks }
  | .elemRows c cols =>
    let es := cols.map (·.2)
    let f := compChainN B nm c 0 (rowKD B nm cn es)
    let toks := banksOf B f.stmts [c.bank]
    let cvs := colVarsD cn es 0
    { body := .block (f.decls ++ f.stmts),
      classVars := toks.map (fun t => ("edm::EDGetTokenT<" ++ t.2.1 ++ ">", t.1)) ++ cvs,
      branches := (cols.map (·.1)).zip (cvs.map (·.2)),
      tree := B.treeName,
      tokens := toks }

end FaxVerif.Gen
