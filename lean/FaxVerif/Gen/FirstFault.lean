/-
Gen — the FAULT direction for event-level rows: if a `First()` column ranges over a sequence
that is empty after its filters (and the columns before it are defined), the emitted package
fails loudly on that event — it never writes a row with a default or stale value — and that is
exactly when (and how) the query itself is undefined.
-/
import FaxVerif.Gen.EventRowsCorrect
namespace FaxVerif.Gen
open FaxVerif.Cpp FaxVerif.Linq
variable {D : Type}

def firstMsg : String := "First() called on an empty sequence"

/-- one `First()` column over an empty sequence: its statements throw -/
theorem compCol_first_fault (C : Ctx D) (QC : QCtx D) (hN : QC.N = C.N) (hev : QC.ev = C.ev)
    (B : Backend) (hB : BackendOK B) (nm cn : Nat → String)
    (hinj : ∀ i j, nm i = nm j → i = j) (hres : ∀ j, nm j ≠ "result")
    (hcres : ∀ k, cn k ≠ "result") (hdisj : ∀ j k, nm j ≠ cn k)
    (hcollT : ∀ name, B.collType name = QC.collType name)
    (c : Chain) (idx n : Nat) (s : St D)
    (hdone : DeclsDone C.N (compCol B nm cn idx (.first c) n).decls s.env)
    (hpre : ColPre (.first c) (cn idx) s.env) (hhyp : ColHyp QC (.first c))
    (hden : denote QC [("e", evtVal)] (chainQ "e" c) = .ok (.vec [])) :
    execs C (compCol B nm cn idx (.first c) n).stmts s = .error (.loud firstMsg) := by
  obtain ⟨hwt, hct, _⟩ := hhyp
  obtain ⟨cty, l, hcty, hfind, hel⟩ := chainQ_ok QC _ "e" c [] hden
  have hx : (s.env (nm (n + 1))).isSome = true := by
    have := hdone (.decl (B.handleTy ((B.collType c.coll).getD "?")) (nm (n + 1)) none) (by simp [compCol, compChain])
    simpa [DeclOK] using this
  have hfl : s.env (nm n) = some (.val (.bool true)) := by
    have := hdone (.decl "bool" (nm n) (some (.bool true))) (by simp [compCol])
    simpa [DeclOK, initValOf, litOf, castTo, asBool] using this
  obtain ⟨hfail, _⟩ := first_idiom C QC hN B hB nm hinj hres c n (cn idx) (fun j h => hdisj j idx h.symm) (hcres idx)
    firstMsg cty l []
    (by rw [hcollT]; exact hcty) (by rw [← hev]; exact hfind) hwt (hct cty l hfind) hel s hx hfl hpre
  simpa [compCol, firstMsg] using hfail rfl

/-- the columns `pre` are defined, the next one is a `First()` over an empty sequence: the loops of the
row run through `pre` and then throw — the columns after it are not reached -/
theorem compCols_first_fault (C : Ctx D) (QC : QCtx D) (hN : QC.N = C.N) (hev : QC.ev = C.ev)
    (B : Backend) (hB : BackendOK B) (nm cn : Nat → String)
    (hinj : ∀ i j, nm i = nm j → i = j) (hcinj : ∀ i j, cn i = cn j → i = j) (hres : ∀ j, nm j ≠ "result")
    (hcres : ∀ k, cn k ≠ "result") (hdisj : ∀ j k, nm j ≠ cn k)
    (hcollT : ∀ name, B.collType name = QC.collType name) (c : Chain) (post : List Col)
    (hc : ColHyp QC (.first c))
    (hempty : denote QC [("e", evtVal)] (chainQ "e" c) = .ok (.vec [])) :
    ∀ (pre : List Col) (idx n : Nat) (s : St D) (vs : List (Val D)),
      DeclsDone C.N ((compCols B nm cn (pre ++ .first c :: post) idx n).flatMap (·.decls)) s.env →
      ColsPre cn (pre ++ .first c :: post) idx s.env → (∀ col ∈ pre, ColHyp QC col) →
      denotes QC [("e", evtVal)] (pre.map (colQ "e")) = .ok vs →
      execs C ((compCols B nm cn (pre ++ .first c :: post) idx n).flatMap (·.stmts)) s = .error (.loud firstMsg)
  | [], idx, n, s, _, hdone, hpre, _, _ => by
    simp only [List.nil_append, compCols, List.flatMap_cons] at hdone ⊢
    simp only [List.nil_append, ColsPre] at hpre
    rw [execs_append, compCol_first_fault C QC hN hev B hB nm cn hinj hres hcres hdisj hcollT c idx n s
      (fun d hd => hdone d (by simp [hd])) hpre.1 hc hempty]
  | p :: pre, idx, n, s, vs, hdone, hpre, hhyp, hden => by
    simp only [List.map_cons, denotes] at hden
    cases hd1 : denote QC [("e", evtVal)] (colQ "e" p) with
    | error e => rw [hd1] at hden; simp at hden
    | ok v =>
      rw [hd1] at hden; simp only [] at hden
      cases hd2 : denotes QC [("e", evtVal)] (pre.map (colQ "e")) with
      | error e => rw [hd2] at hden; simp at hden
      | ok vs' =>
        simp only [List.cons_append, compCols, List.flatMap_cons] at hdone ⊢
        simp only [List.cons_append, ColsPre] at hpre
        obtain ⟨s1, hex1, _, _, hfr1⟩ := compCol_correct C QC hN hev B hB nm cn hinj hres hcres hdisj hcollT p idx n s v
          (fun d hd => hdone d (by simp [hd])) hpre.1 (hhyp p (by simp)) hd1
        have hrest_names : ∀ y, InRange nm (compCol B nm cn idx p n).next
            (colsNext B nm cn (pre ++ .first c :: post) (idx + 1) (compCol B nm cn idx p n).next) y →
            s1.env y = s.env y := by
          intro y hy
          apply hfr1 y
          · obtain ⟨j, _, _, hj⟩ := hy; rw [hj]; exact hdisj j idx
          · rintro (h | h)
            · exact inRange_disjoint hinj hy h
            · obtain ⟨j, _, _, hj⟩ := hy; exact hres j (hj ▸ h)
        have hcn_rest : ∀ k, idx + 1 ≤ k → s1.env (cn k) = s.env (cn k) := by
          intro k hk
          apply hfr1
          · intro e; have := hcinj _ _ e; omega
          · rintro (⟨j, _, _, hj⟩ | h)
            · exact hdisj j k hj.symm
            · exact hcres k h
        have hdone2 : DeclsDone C.N ((compCols B nm cn (pre ++ .first c :: post) (idx + 1) (compCol B nm cn idx p n).next).flatMap (·.decls)) s1.env :=
          DeclsDone.transport (fun d hd => hdone d (by simp [hd])) (compCols_declsIn B nm cn _ (idx + 1) _) hrest_names
        have ih := compCols_first_fault C QC hN hev B hB nm cn hinj hcinj hres hcres hdisj hcollT c post hc hempty
          pre (idx + 1) _ s1 vs' hdone2 (colsPre_stable cn _ (idx + 1) s.env s1.env hcn_rest hpre.2)
          (fun col hcm => hhyp col (by simp [hcm])) hd2
        rw [execs_append, hex1]
        exact ih

theorem denotes_append_error (QC : QCtx D) (ρ : LEnv D) : ∀ (pre : List Query) (q : Query) (post : List Query)
    (vs : List (Val D)) (f : Fault), denotes QC ρ pre = .ok vs → denote QC ρ q = .error f →
    denotes QC ρ (pre ++ q :: post) = .error f
  | [], q, post, _, f, _, hq => by simp only [List.nil_append, denotes, hq]
  | p :: pre, q, post, vs, f, hpre, hq => by
    simp only [denotes] at hpre
    cases h1 : denote QC ρ p with
    | error e => rw [h1] at hpre; simp at hpre
    | ok v =>
      rw [h1] at hpre; simp only [] at hpre
      cases h2 : denotes QC ρ pre with
      | error e => rw [h2] at hpre; simp at hpre
      | ok vs' =>
        simp only [List.cons_append, denotes, h1, denotes_append_error QC ρ pre q post vs' f h2 hq]

/-- **C04 (event-level rows, fault direction)** — a row `{…pre…, name: chain.First(), …post…}` on an
event where the columns `pre` are defined and `chain` keeps no element:
  * the query is undefined there: it denotes the loud fault "First() of an empty sequence";
  * the package the translator model emits fails LOUDLY on that event — from any class state in
    which the column variables are declared and the vector columns empty — so no row with a default
    or stale value is written, and nothing after the failing column is executed. -/
theorem eventRows_first_empty_loud (B : Backend) (hB : BackendOK B) (nm cn : Nat → String)
    (hinj : ∀ i j, nm i = nm j → i = j) (hcinj : ∀ i j, cn i = cn j → i = j)
    (hres : ∀ j, nm j ≠ "result") (hcres : ∀ k, cn k ≠ "result") (hdisj : ∀ j k, nm j ≠ cn k)
    (QC : QCtx D) (hcollT : ∀ name, B.collType name = QC.collType name)
    (pre : List (String × Col)) (name : String) (c : Chain) (post : List (String × Col))
    (hhyp : ∀ p ∈ pre, ColHyp QC p.2) (hc : ColHyp QC (.first c))
    (σc : Env D) (hσ : ColsPre cn ((pre ++ (name, .first c) :: post).map (·.2)) 0 σc)
    (vs : List (Val D))
    (hpre : denotes QC [("e", evtVal)] ((pre.map (·.2)).map (colQ "e")) = .ok vs)
    (hempty : denote QC [("e", evtVal)] (chainQ "e" c) = .ok (.vec [])) :
    runEvent (compile B nm cn (.eventRows (pre ++ (name, .first c) :: post))) QC.N σc QC.ev = .error (.loud firstMsg) ∧
    ∃ m, denote QC [("e", evtVal)] (colQ "e" (.first c)) = .error (.loud m) := by
  constructor
  · let cols := pre ++ (name, .first c) :: post
    let cs := cols.map (·.2)
    have hcs : cs = pre.map (·.2) ++ .first c :: post.map (·.2) := by simp [cs, cols]
    let fs := compCols B nm cn cs 0 0
    let P := compile B nm cn (.eventRows cols)
    let C := P.ctx QC.N QC.ev
    obtain ⟨hsimple, hnodup⟩ := compCols_declsOK C B hB nm cn hinj cs 0 0
    obtain ⟨sD, hexD, _, hdone, hfrD⟩ := exec_decls C (fs.flatMap (·.decls)) ⟨σc, []⟩ hsimple hnodup
    have hcnD : ∀ k, sD.env (cn k) = σc (cn k) := by
      intro k
      apply hfrD
      intro hm
      obtain ⟨j, _, _, hj⟩ := declsIn_names (compCols_declsIn B nm cn cs 0 0) _ hm
      exact hdisj j k hj.symm
    have hfault := compCols_first_fault C QC rfl rfl B hB nm cn hinj hcinj hres hcres hdisj hcollT c (post.map (·.2)) hc hempty
      (pre.map (·.2)) 0 0 sD vs (by rw [← hcs]; exact hdone)
      (by rw [← hcs]; exact colsPre_stable cn cs 0 σc sD.env (fun k _ => hcnD k) hσ)
      (fun col hcm => by
        obtain ⟨p, hp, rfl⟩ := List.mem_map.1 hcm
        exact hhyp p hp) hpre
    rw [← hcs] at hfault
    have hbody : P.body = .block (fs.flatMap (·.decls) ++ fs.flatMap (·.stmts) ++ fs.flatMap (·.sets) ++
        [.fill (B.fillTree B.treeName)] ++ fs.flatMap (·.clears)) := rfl
    show runEvent P QC.N σc QC.ev = _
    simp only [runEvent]
    rw [hbody]
    have : exec (P.ctx QC.N QC.ev) (.block (fs.flatMap (·.decls) ++ fs.flatMap (·.stmts) ++ fs.flatMap (·.sets) ++
        [.fill (B.fillTree B.treeName)] ++ fs.flatMap (·.clears))) ⟨σc, []⟩ = .error (.loud firstMsg) := by
      simp only [exec]
      rw [execs_append, execs_append, execs_append, execs_append, hexD]
      simp only []
      rw [hfault]
    rw [this]
  · simp only [colQ, denote, hempty]
    exact ⟨_, rfl⟩

end FaxVerif.Gen
