/-
Gen — JOB-level correctness of the translator model on the whole fragment F0-lite.

`eventRows_correct_post` / `elemRows_correct_post` say what ONE call of the per-event method does:
from a class state satisfying the precondition `FragPre` it writes the rows the query denotes on
that event and leaves a class state satisfying `FragPre` again. Here this is iterated over a job
(`Cpp.runJob`: events in order, class state threaded through, starting from `classInit`):

  * `fragPre_classInit`      the initial class state satisfies the precondition;
  * `fragEvent_correct_post` both query shapes under one statement;
  * `job_correct`            a job over ANY list of events writes the concatenation of what the
                             query denotes on each event;
  * `job_split`, `job_prefix_independent`, `job_perm`   the consequences C05 talks about.

All of them: every fragment query (both shapes), every backend satisfying `BackendBase` (ATLAS, CMS AOD,
CMS miniAOD), every number model, every list of events. Success direction: every event of the job
is one on which the query is defined (`denoteRows = ok`), with the per-event side conditions
`FragHyp` of the single-event theorems.
-/
import FaxVerif.Gen.EventRowsCorrect
namespace FaxVerif.Linq
open FaxVerif.Cpp
variable {D : Type}

/-- the same query context (number model, collection table) looking at another event -/
def QCtx.withEvent (QC : QCtx D) (ev : Event D) : QCtx D := { QC with ev := ev }

/-- what a query denotes over a job: its rows on each event, in order; undefined as soon as it is
undefined on one event -/
def denoteJob (QC : QCtx D) (q : Query) : List (Event D) → Except Fault (List (List (Val D)))
  | [] => .ok []
  | ev :: evs => match denoteRows (QC.withEvent ev) q with
    | .error f => .error f
    | .ok rows => match denoteJob QC q evs with
      | .ok more => .ok (rows ++ more)
      | .error f => .error f

/-- the rows of one event (`[]` where the query is undefined) -/
def rowsOf (QC : QCtx D) (q : Query) (ev : Event D) : List (List (Val D)) :=
  match denoteRows (QC.withEvent ev) q with
  | .ok rows => rows
  | .error _ => []

end FaxVerif.Linq

namespace FaxVerif.Gen
open FaxVerif.Cpp FaxVerif.Linq
variable {D : Type}

/-! ## the query side of a job -/

theorem denoteJob_ok (QC : QCtx D) (q : Query) : ∀ (evs : List (Event D)) (r : List (List (Val D))),
    denoteJob QC q evs = .ok r →
      (∀ ev ∈ evs, denoteRows (QC.withEvent ev) q = .ok (rowsOf QC q ev)) ∧ r = (evs.map (rowsOf QC q)).flatten
  | [], r, h => by simp only [denoteJob, Except.ok.injEq] at h; subst h; simp
  | ev :: evs, r, h => by
    simp only [denoteJob] at h
    cases h1 : denoteRows (QC.withEvent ev) q with
    | error f => rw [h1] at h; simp at h
    | ok rows =>
      rw [h1] at h; simp only [] at h
      cases h2 : denoteJob QC q evs with
      | error f => rw [h2] at h; simp at h
      | ok more =>
        rw [h2] at h; simp only [Except.ok.injEq] at h; subst h
        obtain ⟨ih1, ih2⟩ := denoteJob_ok QC q evs more h2
        have hr : rowsOf QC q ev = rows := by simp [rowsOf, h1]
        refine ⟨?_, by simp [hr, ih2]⟩
        intro e hm
        rcases List.mem_cons.1 hm with rfl | hm
        · rw [hr]; exact h1
        · exact ih1 e hm

theorem denoteJob_of_all (QC : QCtx D) (q : Query) : ∀ (evs : List (Event D)),
    (∀ ev ∈ evs, denoteRows (QC.withEvent ev) q = .ok (rowsOf QC q ev)) →
      denoteJob QC q evs = .ok (evs.map (rowsOf QC q)).flatten
  | [], _ => by simp [denoteJob]
  | ev :: evs, h => by
    have ih := denoteJob_of_all QC q evs (fun e hm => h e (by simp [hm]))
    simp only [denoteJob, h ev (by simp), ih, List.map_cons, List.flatten_cons]

/-- `rs` lists, event by event, the rows the query denotes: `rsᵢ = denoteRows q evᵢ` -/
def DenoteBlocks (QC : QCtx D) (q : Query) : List (Event D) → List (List (List (Val D))) → Prop
  | [], [] => True
  | ev :: evs, r :: rs => denoteRows (QC.withEvent ev) q = .ok r ∧ DenoteBlocks QC q evs rs
  | _, _ => False

/-- the denotation of a job is the concatenation of the per-event row blocks `rs` -/
theorem denoteJob_blocks (QC : QCtx D) (q : Query) : ∀ (evs : List (Event D)) (rs : List (List (List (Val D)))),
    DenoteBlocks QC q evs rs → denoteJob QC q evs = .ok rs.flatten
  | [], [], _ => by simp [denoteJob]
  | [], _ :: _, h => by simp [DenoteBlocks] at h
  | _ :: _, [], h => by simp [DenoteBlocks] at h
  | ev :: evs, r :: rs, h => by
    simp only [DenoteBlocks] at h
    simp only [denoteJob, h.1, denoteJob_blocks QC q evs rs h.2, List.flatten_cons]

/-! ## the C++ side of a job: an invariant of the class state -/

/-- if every event of the list, run from any class state satisfying `Inv`, writes `rowsOf ev` and
re-establishes `Inv`, the job from such a state writes the concatenation -/
theorem runJobFrom_inv (P : Package) (N : Num D) (Inv : Env D → Prop) (rowsOf : Event D → List (List (Val D))) :
    ∀ (evs : List (Event D)) (σ : Env D), Inv σ →
      (∀ ev ∈ evs, ∀ σ, Inv σ → ∃ σ', runEvent P N σ ev = .ok (rowsOf ev, σ') ∧ Inv σ') →
      runJobFrom P N σ evs = .ok (evs.map rowsOf).flatten
  | [], _, _, _ => by simp [runJobFrom]
  | ev :: evs, σ, hσ, h => by
    obtain ⟨σ', hrun, hσ'⟩ := h ev (by simp) σ hσ
    have ih := runJobFrom_inv P N Inv rowsOf evs σ' hσ' (fun e hm => h e (by simp [hm]))
    simp only [runJobFrom, hrun, ih, List.map_cons, List.flatten_cons]

/-! ## the class state at event start -/

/-- per-event side conditions of the single-event theorems, for either query shape:
event-level rows — `ColHyp` for every column (static well-typedness, accessors return the declared
kinds, banks hold collections, a floating `Sum` ranges over ≥ 1 element);
element-level rows — the chain and the column expressions are well typed and the bank's objects
return the declared kinds. -/
def FragHyp (QC : QCtx D) : FQ → Prop
  | .eventRows cols => ∀ p ∈ cols, ColHyp QC p.2
  | .elemRows c cols => wtSteps none c.steps = true ∧ (∀ p ∈ cols, wtPE (chainTy none c.steps) p.2 = true) ∧
      (∀ cty l, QC.ev.find c.bank = some (cty, .vec l) →
        ∀ v ∈ l, MethTyped v (methsSteps c.steps) ∧ ∀ p ∈ cols, MethTyped v (methsPE p.2))

/-- what the class state must satisfy when the per-event method is entered:
event-level rows — `ColsPre`: vector columns empty, the other column variables declared;
element-level rows — the column variables declared. -/
def FragPre (cn : Nat → String) : FQ → Env D → Prop
  | .eventRows cols, σ => ColsPre cn (cols.map (·.2)) 0 σ
  | .elemRows _ cols, σ => ∀ k, k < cols.length → (σ (cn k)).isSome = true

theorem classInit_isSome : ∀ (vars : List (String × String)) (x : String), x ∈ vars.map (·.2) →
    ((classInit vars : Env D) x).isSome = true
  | [], x, h => by simp at h
  | (ty, n) :: rest, x, h => by
    simp only [classInit]
    by_cases hx : x = n
    · subst hx; split <;> simp [Env.set, Env.declare]
    · have : x ∈ rest.map (·.2) := by simpa [hx] using h
      have ih := classInit_isSome rest x this
      split <;> simpa [Env.set, Env.declare, hx] using ih

theorem classInit_skip : ∀ (a b : List (String × String)) (x : String), x ∉ a.map (·.2) →
    (classInit (a ++ b) : Env D) x = (classInit b : Env D) x
  | [], _, _, _ => rfl
  | (ty, n) :: rest, b, x, h => by
    simp only [List.map_cons, List.mem_cons, not_or] at h
    have ih := classInit_skip rest b x h.2
    simp only [List.cons_append, classInit]
    split <;> simpa [Env.set, Env.declare, h.1] using ih

theorem isVecType_vector (t : String) : isVecType ("std::vector<" ++ t ++ ">") = true := by
  simp [isVecType, String.toList_append, List.append_assoc]

/-- the class-level column variables of event-level rows, freshly initialised, satisfy `ColsPre` -/
theorem colsPre_classInit (B : Backend) (nm cn : Nat → String) (hcinj : ∀ i j, cn i = cn j → i = j) :
    ∀ (cols : List Col) (idx n : Nat),
      ColsPre cn cols idx (classInit ((compCols B nm cn cols idx n).map (·.classVar)) : Env D)
  | [], _, _ => trivial
  | c :: cs, idx, n => by
    have ih := colsPre_classInit B nm cn hcinj cs (idx + 1) (compCol B nm cn idx c n).next
    have hne : ∀ k, idx + 1 ≤ k → cn k ≠ cn idx := fun k hk e => by have := hcinj _ _ e; omega
    simp only [compCols, List.map_cons, ColsPre]
    cases c with
    | seq ch =>
      have hv : isVecType (compCol B nm cn idx (.seq ch) n).classVar.1 = true := by
        simp only [compCol]; exact isVecType_vector _
      have hn : (compCol B nm cn idx (.seq ch) n).classVar.2 = cn idx := rfl
      have hcv : (compCol B nm cn idx (.seq ch) n).classVar =
          ((compCol B nm cn idx (.seq ch) n).classVar.1, cn idx) := by rw [← hn]
      rw [hcv]
      simp only [classInit, hv, if_true]
      refine ⟨by simp [ColPre, Env.set], ?_⟩
      exact colsPre_stable cn cs (idx + 1) _ _ (fun k hk => by simp [Env.set, hne k hk]) ih
    | scalar e =>
      have hcv : (compCol B nm cn idx (.scalar e) n).classVar = ((tyEE e).cpp, cn idx) := rfl
      rw [hcv]
      simp only [classInit]
      refine ⟨by simp only [ColPre]; split <;> simp [Env.set, Env.declare], ?_⟩
      split
      · exact colsPre_stable cn cs (idx + 1) _ _ (fun k hk => by simp [Env.set, hne k hk]) ih
      · exact colsPre_stable cn cs (idx + 1) _ _ (fun k hk => by simp [Env.declare, hne k hk]) ih
    | first ch =>
      have hcv : (compCol B nm cn idx (.first ch) n).classVar =
          (((chainTy none ch.steps).getD .double).cpp, cn idx) := rfl
      rw [hcv]
      simp only [classInit]
      refine ⟨by simp only [ColPre]; split <;> simp [Env.set, Env.declare], ?_⟩
      split
      · exact colsPre_stable cn cs (idx + 1) _ _ (fun k hk => by simp [Env.set, hne k hk]) ih
      · exact colsPre_stable cn cs (idx + 1) _ _ (fun k hk => by simp [Env.declare, hne k hk]) ih

/-- **the initial class state satisfies the precondition** of the single-event theorems (the
miniAOD token members, declared before the column variables, do not interfere: their names are
generated local names). -/
theorem fragPre_classInit (B : Backend) (nm cn : Nat → String)
    (hcinj : ∀ i j, cn i = cn j → i = j) (hdisj : ∀ j k, nm j ≠ cn k) (fq : FQ) :
    FragPre cn fq (classInit (compile B nm cn fq).classVars : Env D) := by
  cases fq with
  | eventRows cols =>
    have htn := tokens_names_eventRows B nm cn cols
    have hskip : ∀ k, cn k ∉ ((compile B nm cn (.eventRows cols)).tokens.map
        (fun t => ("edm::EDGetTokenT<" ++ t.2.1 ++ ">", t.1))).map (·.2) := by
      intro k hm
      simp only [List.map_map, List.mem_map, Function.comp] at hm
      obtain ⟨t, ht, he⟩ := hm
      obtain ⟨j, hj⟩ := htn t ht
      exact hdisj j k (by rw [← hj]; exact he)
    have h0 := colsPre_classInit (D := D) B nm cn hcinj (cols.map (·.2)) 0 0
    simp only [FragPre]
    refine colsPre_stable cn _ 0 _ _ (fun k _ => ?_) h0
    exact classInit_skip _ _ (cn k) (hskip k)
  | elemRows c cols =>
    intro k hk
    apply classInit_isSome
    have h1 : cn k ∈ (colVars cn (chainTy none c.steps) (cols.map (·.2)) 0).map (·.2) := by
      rw [colVars_names]; exact mem_colNames cn _ 0 k (Nat.zero_le _) (by simpa using hk)
    simp only [compile, List.map_append, List.mem_append]
    exact Or.inr h1

/-! ## one event, either shape -/

/-- **one event, with the state it leaves** — for every fragment query: from a class state
satisfying `FragPre`, on an event where the query denotes `rows`, the emitted package writes
exactly `rows` and leaves a class state satisfying `FragPre` again. -/
theorem fragEvent_correct_post (B : Backend) (hB : BackendBase B) (nm cn : Nat → String)
    (hinj : ∀ i j, nm i = nm j → i = j) (hcinj : ∀ i j, cn i = cn j → i = j)
    (hres : ∀ j, nm j ≠ "result") (hcres : ∀ k, cn k ≠ "result") (hdisj : ∀ j k, nm j ≠ cn k)
    (QC : QCtx D) (hcollT : ∀ name, B.collType name = QC.collType name)
    (fq : FQ) (hhyp : FragHyp QC fq) (σc : Env D) (hσ : FragPre cn fq σc)
    (rows : List (List (Val D))) (hden : denoteRows QC fq.toQuery = .ok rows) :
    ∃ σ', runEvent (compile B nm cn fq) QC.N σc QC.ev = .ok (rows, σ') ∧ FragPre cn fq σ' := by
  cases fq with
  | eventRows cols =>
    exact eventRows_correct_post B hB nm cn hinj hcinj hres hcres hdisj QC hcollT cols hhyp σc hσ rows hden
  | elemRows c cols =>
    obtain ⟨h1, h2, h3⟩ := hhyp
    exact elemRows_correct_post B hB nm cn hinj hcinj hres hcres hdisj QC hcollT c cols h1 h2 h3 σc hσ rows hden

/-! ## the job -/

/-- the job from any admissible class state -/
theorem jobFrom_correct (B : Backend) (hB : BackendBase B) (nm cn : Nat → String)
    (hinj : ∀ i j, nm i = nm j → i = j) (hcinj : ∀ i j, cn i = cn j → i = j)
    (hres : ∀ j, nm j ≠ "result") (hcres : ∀ k, cn k ≠ "result") (hdisj : ∀ j k, nm j ≠ cn k)
    (QC : QCtx D) (hcollT : ∀ name, B.collType name = QC.collType name)
    (fq : FQ) (evs : List (Event D)) (hhyp : ∀ ev ∈ evs, FragHyp (QC.withEvent ev) fq)
    (σc : Env D) (hσ : FragPre cn fq σc)
    (rows : List (List (Val D))) (hden : denoteJob QC fq.toQuery evs = .ok rows) :
    runJobFrom (compile B nm cn fq) QC.N σc evs = .ok rows := by
  obtain ⟨hall, rfl⟩ := denoteJob_ok QC fq.toQuery evs rows hden
  apply runJobFrom_inv (compile B nm cn fq) QC.N (FragPre cn fq) (rowsOf QC fq.toQuery) evs σc hσ
  intro ev hm σ hσ'
  exact fragEvent_correct_post B hB nm cn hinj hcinj hres hcres hdisj (QC.withEvent ev) hcollT fq (hhyp ev hm) σ hσ'
    _ (hall ev hm)

/-- **job correctness** — for every fragment query (both shapes), every backend satisfying
`BackendBase`, every number model and EVERY list of events: if the query is defined on each event of
the job (with the per-event side conditions), the emitted package, run as one job from the
initial class state, writes exactly the rows the query denotes on the first event, then those of
the second, … — nothing is lost, duplicated, reordered or carried over between events. -/
theorem job_correct (B : Backend) (hB : BackendBase B) (nm cn : Nat → String)
    (hinj : ∀ i j, nm i = nm j → i = j) (hcinj : ∀ i j, cn i = cn j → i = j)
    (hres : ∀ j, nm j ≠ "result") (hcres : ∀ k, cn k ≠ "result") (hdisj : ∀ j k, nm j ≠ cn k)
    (QC : QCtx D) (hcollT : ∀ name, B.collType name = QC.collType name)
    (fq : FQ) (evs : List (Event D)) (hhyp : ∀ ev ∈ evs, FragHyp (QC.withEvent ev) fq)
    (rows : List (List (Val D))) (hden : denoteJob QC fq.toQuery evs = .ok rows) :
    runJob (compile B nm cn fq) QC.N evs = .ok rows :=
  jobFrom_correct B hB nm cn hinj hcinj hres hcres hdisj QC hcollT fq evs hhyp _
    (fragPre_classInit B nm cn hcinj hdisj fq) rows hden

/-- `job_correct` with the per-event row blocks explicit: `runJob = ok (rows₁ ++ rows₂ ++ …)` -/
theorem job_correct_blocks (B : Backend) (hB : BackendBase B) (nm cn : Nat → String)
    (hinj : ∀ i j, nm i = nm j → i = j) (hcinj : ∀ i j, cn i = cn j → i = j)
    (hres : ∀ j, nm j ≠ "result") (hcres : ∀ k, cn k ≠ "result") (hdisj : ∀ j k, nm j ≠ cn k)
    (QC : QCtx D) (hcollT : ∀ name, B.collType name = QC.collType name)
    (fq : FQ) (evs : List (Event D)) (hhyp : ∀ ev ∈ evs, FragHyp (QC.withEvent ev) fq)
    (rs : List (List (List (Val D))))
    (hden : DenoteBlocks QC fq.toQuery evs rs) :
    runJob (compile B nm cn fq) QC.N evs = .ok rs.flatten :=
  job_correct B hB nm cn hinj hcinj hres hcres hdisj QC hcollT fq evs hhyp _ (denoteJob_blocks QC _ evs rs hden)

theorem denoteJob_append (QC : QCtx D) (q : Query) (xs ys : List (Event D)) (r₁ r₂ : List (List (Val D)))
    (h₁ : denoteJob QC q xs = .ok r₁) (h₂ : denoteJob QC q ys = .ok r₂) :
    denoteJob QC q (xs ++ ys) = .ok (r₁ ++ r₂) := by
  obtain ⟨a1, e1⟩ := denoteJob_ok QC q xs r₁ h₁
  obtain ⟨a2, e2⟩ := denoteJob_ok QC q ys r₂ h₂
  rw [denoteJob_of_all QC q (xs ++ ys) (fun ev hm => by
    rcases List.mem_append.1 hm with hm | hm
    · exact a1 ev hm
    · exact a2 ev hm)]
  simp [e1, e2]

/-- **split** — one job over `xs ++ ys` writes what a job over `xs` followed by a SEPARATE job
over `ys` (fresh class state) write. -/
theorem job_split (B : Backend) (hB : BackendBase B) (nm cn : Nat → String)
    (hinj : ∀ i j, nm i = nm j → i = j) (hcinj : ∀ i j, cn i = cn j → i = j)
    (hres : ∀ j, nm j ≠ "result") (hcres : ∀ k, cn k ≠ "result") (hdisj : ∀ j k, nm j ≠ cn k)
    (QC : QCtx D) (hcollT : ∀ name, B.collType name = QC.collType name)
    (fq : FQ) (xs ys : List (Event D)) (hhyp : ∀ ev ∈ xs ++ ys, FragHyp (QC.withEvent ev) fq)
    (r₁ r₂ : List (List (Val D)))
    (h₁ : denoteJob QC fq.toQuery xs = .ok r₁) (h₂ : denoteJob QC fq.toQuery ys = .ok r₂) :
    runJob (compile B nm cn fq) QC.N xs = .ok r₁ ∧ runJob (compile B nm cn fq) QC.N ys = .ok r₂ ∧
    runJob (compile B nm cn fq) QC.N (xs ++ ys) = .ok (r₁ ++ r₂) :=
  ⟨job_correct B hB nm cn hinj hcinj hres hcres hdisj QC hcollT fq xs (fun ev hm => hhyp ev (by simp [hm])) r₁ h₁,
   job_correct B hB nm cn hinj hcinj hres hcres hdisj QC hcollT fq ys (fun ev hm => hhyp ev (by simp [hm])) r₂ h₂,
   job_correct B hB nm cn hinj hcinj hres hcres hdisj QC hcollT fq (xs ++ ys) hhyp _ (denoteJob_append QC _ xs ys r₁ r₂ h₁ h₂)⟩

/-- **prefix independence** — in a job `pre ++ ev :: post` the rows written for `ev` are exactly
those of running `ev` ALONE from the initial class state (= what the query denotes on `ev`),
whatever events preceded it; the job's output is `rows(pre) ++ rows(ev) ++ rows(post)`. -/
theorem job_prefix_independent (B : Backend) (hB : BackendBase B) (nm cn : Nat → String)
    (hinj : ∀ i j, nm i = nm j → i = j) (hcinj : ∀ i j, cn i = cn j → i = j)
    (hres : ∀ j, nm j ≠ "result") (hcres : ∀ k, cn k ≠ "result") (hdisj : ∀ j k, nm j ≠ cn k)
    (QC : QCtx D) (hcollT : ∀ name, B.collType name = QC.collType name)
    (fq : FQ) (pre : List (Event D)) (ev : Event D) (post : List (Event D))
    (hhyp : ∀ e ∈ pre ++ ev :: post, FragHyp (QC.withEvent e) fq)
    (r : List (List (Val D))) (hden : denoteJob QC fq.toQuery (pre ++ ev :: post) = .ok r) :
    ∃ rp re rq σ',
      runJob (compile B nm cn fq) QC.N pre = .ok rp ∧
      runEvent (compile B nm cn fq) QC.N (classInit (compile B nm cn fq).classVars) ev = .ok (re, σ') ∧
      denoteRows (QC.withEvent ev) fq.toQuery = .ok re ∧
      runJob (compile B nm cn fq) QC.N post = .ok rq ∧
      runJob (compile B nm cn fq) QC.N (pre ++ ev :: post) = .ok (rp ++ re ++ rq) := by
  obtain ⟨hall, hr⟩ := denoteJob_ok QC fq.toQuery _ r hden
  have hpre := denoteJob_of_all QC fq.toQuery pre (fun e hm => hall e (by simp [hm]))
  have hpost := denoteJob_of_all QC fq.toQuery post (fun e hm => hall e (by simp [hm]))
  have hev := hall ev (by simp)
  obtain ⟨σ', hrun, _⟩ := fragEvent_correct_post B hB nm cn hinj hcinj hres hcres hdisj (QC.withEvent ev) hcollT fq
    (hhyp ev (by simp)) _ (fragPre_classInit B nm cn hcinj hdisj fq) _ hev
  refine ⟨_, _, _, σ', job_correct B hB nm cn hinj hcinj hres hcres hdisj QC hcollT fq pre
      (fun e hm => hhyp e (by simp [hm])) _ hpre, hrun, hev,
    job_correct B hB nm cn hinj hcinj hres hcres hdisj QC hcollT fq post (fun e hm => hhyp e (by simp [hm])) _ hpost, ?_⟩
  have := job_correct B hB nm cn hinj hcinj hres hcres hdisj QC hcollT fq _ hhyp r hden
  rw [this, hr]
  simp

/-- **order independence** — processing the events in any other order gives the same per-event
row blocks in that order: the two outputs are permutations of each other (and the permuted job
completes too). -/
theorem job_perm (B : Backend) (hB : BackendBase B) (nm cn : Nat → String)
    (hinj : ∀ i j, nm i = nm j → i = j) (hcinj : ∀ i j, cn i = cn j → i = j)
    (hres : ∀ j, nm j ≠ "result") (hcres : ∀ k, cn k ≠ "result") (hdisj : ∀ j k, nm j ≠ cn k)
    (QC : QCtx D) (hcollT : ∀ name, B.collType name = QC.collType name)
    (fq : FQ) (evs evs' : List (Event D)) (hp : evs.Perm evs')
    (hhyp : ∀ ev ∈ evs, FragHyp (QC.withEvent ev) fq)
    (r : List (List (Val D))) (hden : denoteJob QC fq.toQuery evs = .ok r) :
    ∃ r', runJob (compile B nm cn fq) QC.N evs = .ok r ∧ runJob (compile B nm cn fq) QC.N evs' = .ok r' ∧
      denoteJob QC fq.toQuery evs' = .ok r' ∧ r.Perm r' := by
  obtain ⟨hall, hr⟩ := denoteJob_ok QC fq.toQuery evs r hden
  have hden' := denoteJob_of_all QC fq.toQuery evs' (fun e hm => hall e (hp.symm.subset hm))
  refine ⟨_, job_correct B hB nm cn hinj hcinj hres hcres hdisj QC hcollT fq evs hhyp r hden,
    job_correct B hB nm cn hinj hcinj hres hcres hdisj QC hcollT fq evs' (fun e hm => hhyp e (hp.symm.subset hm)) _ hden',
    hden', ?_⟩
  rw [hr]
  exact (hp.map _).flatten

end FaxVerif.Gen
