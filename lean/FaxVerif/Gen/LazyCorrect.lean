/-
Gen — correctness of the lowering of element-level expressions with LAZY operators (`compLE`,
Gen/Lazy.lean) to statements:

  `le_sound`: for every `LE` (unbounded nesting of n-ary and / or, conditionals, arithmetic), in every
  state in which the fragment's declarations are done and the current-value expression evaluates to
  `v`: running the emitted statements and then evaluating the value expression
    * yields exactly the value `denote (leQ x le)` when the query expression is defined — in particular
      NO fault of a skipped operand / untaken arm is raised (laziness);
    * raises a fault (one of the element's member faults) when the query expression faults;
  only the fragment's own fresh names are touched; the value has the statically computed type.

Static facts about `compLE` first, then the combinators (one per construct), then the mutual
induction.
-/
import FaxVerif.Gen.Lazy
import FaxVerif.Gen.ChainCorrect
namespace FaxVerif.Gen
open FaxVerif.Cpp FaxVerif.Linq
variable {D : Type}

/-! ## static facts about the emitted fragment -/

mutual
  theorem compLE_next_ge (nm : Nat → String) (ptr : Bool) (cur : CExpr) (t : Ty) :
      ∀ (le : LE) (k : Nat), k ≤ (compLE nm ptr cur t le k).next
    | .int _, k => by simp [compLE]
    | .dbl _ _, k => by simp [compLE]
    | .bool _, k => by simp [compLE]
    | .it, k => by simp [compLE]
    | .meth _ _, k => by simp [compLE]
    | .bin _ a b, k => by
      have h1 := compLE_next_ge nm ptr cur t a k
      have h2 := compLE_next_ge nm ptr cur t b (compLE nm ptr cur t a k).next
      simp only [compLE]; omega
    | .cmp _ a b, k => by
      have h1 := compLE_next_ge nm ptr cur t a k
      have h2 := compLE_next_ge nm ptr cur t b (compLE nm ptr cur t a k).next
      simp only [compLE]; omega
    | .neg a, k => by simpa [compLE] using compLE_next_ge nm ptr cur t a k
    | .not a, k => by simpa [compLE] using compLE_next_ge nm ptr cur t a k
    | .bop op a rest, k => by
      have h1 := compLE_next_ge nm ptr cur t a (k + 1)
      have h2 := compRest_next_ge nm ptr cur t (nm k) op rest (compLE nm ptr cur t a (k + 1)).next
      simp only [compLE]; omega
    | .ite c x y, k => by
      have h1 := compLE_next_ge nm ptr cur t c (k + 1)
      have h2 := compLE_next_ge nm ptr cur t x (compLE nm ptr cur t c (k + 1)).next
      have h3 := compLE_next_ge nm ptr cur t y (compLE nm ptr cur t x (compLE nm ptr cur t c (k + 1)).next).next
      simp only [compLE]; omega
  theorem compRest_next_ge (nm : Nat → String) (ptr : Bool) (cur : CExpr) (t : Ty) (r : String) (op : LOp) :
      ∀ (rest : List LE) (k : Nat), k ≤ (compRest nm ptr cur t r op rest k).2
    | [], k => by simp [compRest]
    | b :: bs, k => by
      have h1 := compLE_next_ge nm ptr cur t b k
      have h2 := compRest_next_ge nm ptr cur t r op bs (compLE nm ptr cur t b k).next
      simp only [compRest]; omega
end

/-- a lazy operator's result variable is the only kind of name a value expression adds to `cur`'s -/
theorem compLE_val_vars (nm : Nat → String) (ptr : Bool) (cur : CExpr) (t : Ty) :
    ∀ (le : LE) (k : Nat), ∀ y ∈ vars (compLE nm ptr cur t le k).val,
      y ∈ vars cur ∨ InRange nm k (compLE nm ptr cur t le k).next y
  | .int _, k, y, h => by simp [compLE, vars] at h
  | .dbl _ _, k, y, h => by simp [compLE, vars] at h
  | .bool _, k, y, h => by simp [compLE, vars] at h
  | .it, k, y, h => by simp only [compLE] at h; exact Or.inl h
  | .meth _ _, k, y, h => by simp only [compLE, vars, varsL, List.append_nil] at h; exact Or.inl h
  | .bin op a b, k, y, h => by
    have ha := compLE_val_vars nm ptr cur t a k y
    have hb := compLE_val_vars nm ptr cur t b (compLE nm ptr cur t a k).next y
    have h1 := compLE_next_ge nm ptr cur t a k
    have h2 := compLE_next_ge nm ptr cur t b (compLE nm ptr cur t a k).next
    simp only [compLE] at h ⊢
    have h' : y ∈ vars (compLE nm ptr cur t a k).val ∨ y ∈ vars (compLE nm ptr cur t b (compLE nm ptr cur t a k).next).val := by
      split at h <;> simpa [vars] using h
    rcases h' with h' | h'
    · rcases ha h' with h'' | ⟨j, hj1, hj2, hj3⟩
      · exact Or.inl h''
      · exact Or.inr ⟨j, hj1, by omega, hj3⟩
    · rcases hb h' with h'' | ⟨j, hj1, hj2, hj3⟩
      · exact Or.inl h''
      · exact Or.inr ⟨j, by omega, hj2, hj3⟩
  | .cmp op a b, k, y, h => by
    have ha := compLE_val_vars nm ptr cur t a k y
    have hb := compLE_val_vars nm ptr cur t b (compLE nm ptr cur t a k).next y
    have h1 := compLE_next_ge nm ptr cur t a k
    have h2 := compLE_next_ge nm ptr cur t b (compLE nm ptr cur t a k).next
    simp only [compLE, vars, List.mem_append] at h ⊢
    rcases h with h' | h'
    · rcases ha h' with h'' | ⟨j, hj1, hj2, hj3⟩
      · exact Or.inl h''
      · exact Or.inr ⟨j, hj1, by omega, hj3⟩
    · rcases hb h' with h'' | ⟨j, hj1, hj2, hj3⟩
      · exact Or.inl h''
      · exact Or.inr ⟨j, by omega, hj2, hj3⟩
  | .neg a, k, y, h => by simp only [compLE, vars] at h ⊢; exact compLE_val_vars nm ptr cur t a k y h
  | .not a, k, y, h => by simp only [compLE, vars] at h ⊢; exact compLE_val_vars nm ptr cur t a k y h
  | .bop op a rest, k, y, h => by
    have h1 := compLE_next_ge nm ptr cur t a (k + 1)
    have h2 := compRest_next_ge nm ptr cur t (nm k) op rest (compLE nm ptr cur t a (k + 1)).next
    simp only [compLE, vars, List.mem_singleton] at h ⊢
    exact Or.inr ⟨k, Nat.le_refl k, by omega, h⟩
  | .ite c x z, k, y, h => by
    have h1 := compLE_next_ge nm ptr cur t c (k + 1)
    have h2 := compLE_next_ge nm ptr cur t x (compLE nm ptr cur t c (k + 1)).next
    have h3 := compLE_next_ge nm ptr cur t z (compLE nm ptr cur t x (compLE nm ptr cur t c (k + 1)).next).next
    simp only [compLE, vars, List.mem_singleton] at h ⊢
    exact Or.inr ⟨k, Nat.le_refl k, by omega, h⟩

/-- the value expression mentions no name the supply hands out later -/
theorem compLE_val_fresh (nm : Nat → String) (hinj : ∀ i j, nm i = nm j → i = j) (ptr : Bool) (cur : CExpr) (t : Ty)
    (le : LE) (k : Nat) (hcur : ∀ y ∈ vars cur, ∀ j, k ≤ j → y ≠ nm j) :
    ∀ y ∈ vars (compLE nm ptr cur t le k).val, ∀ j, (compLE nm ptr cur t le k).next ≤ j → y ≠ nm j := by
  intro y hy j hj
  have hge := compLE_next_ge nm ptr cur t le k
  rcases compLE_val_vars nm ptr cur t le k y hy with h | ⟨i, _, hi2, hi3⟩
  · exact hcur y h j (by omega)
  · intro e
    have := hinj _ _ (hi3.symm.trans e)
    omega

/-- a declaration the lowering emits: uninitialised `bool` / `double` -/
def LDecl (d : Stmt) : Prop := ∃ ty x, d = .decl ty x none ∧ isVecType ty = false

def dname : Stmt → String
  | .decl _ x _ => x
  | _ => ""

theorem compLE_ldecls (nm : Nat → String) (ptr : Bool) (cur : CExpr) (t : Ty) :
    ∀ (le : LE) (k : Nat), ∀ d ∈ (compLE nm ptr cur t le k).decls, LDecl d
  | .int _, k, d, h => by simp [compLE] at h
  | .dbl _ _, k, d, h => by simp [compLE] at h
  | .bool _, k, d, h => by simp [compLE] at h
  | .it, k, d, h => by simp [compLE] at h
  | .meth _ _, k, d, h => by simp [compLE] at h
  | .bin _ a b, k, d, h => by
    simp only [compLE, List.mem_append] at h
    rcases h with h | h
    · exact compLE_ldecls nm ptr cur t a k d h
    · exact compLE_ldecls nm ptr cur t b _ d h
  | .cmp _ a b, k, d, h => by
    simp only [compLE, List.mem_append] at h
    rcases h with h | h
    · exact compLE_ldecls nm ptr cur t a k d h
    · exact compLE_ldecls nm ptr cur t b _ d h
  | .neg a, k, d, h => by simp only [compLE] at h; exact compLE_ldecls nm ptr cur t a k d h
  | .not a, k, d, h => by simp only [compLE] at h; exact compLE_ldecls nm ptr cur t a k d h
  | .bop _ a rest, k, d, h => by
    simp only [compLE, List.mem_cons] at h
    rcases h with h | h
    · exact ⟨"bool", nm k, h, by decide⟩
    · exact compLE_ldecls nm ptr cur t a _ d h
  | .ite c x y, k, d, h => by
    simp only [compLE, List.mem_cons] at h
    rcases h with h | h
    · exact ⟨"double", nm k, h, by decide⟩
    · exact compLE_ldecls nm ptr cur t c _ d h


theorem compLE_decls_in (nm : Nat → String) (ptr : Bool) (cur : CExpr) (t : Ty) :
    ∀ (le : LE) (k : Nat), ∀ d ∈ (compLE nm ptr cur t le k).decls, InRange nm k (compLE nm ptr cur t le k).next (dname d)
  | .int _, k, d, h => by simp [compLE] at h
  | .dbl _ _, k, d, h => by simp [compLE] at h
  | .bool _, k, d, h => by simp [compLE] at h
  | .it, k, d, h => by simp [compLE] at h
  | .meth _ _, k, d, h => by simp [compLE] at h
  | .bin _ a b, k, d, h => by
    have h1 := compLE_next_ge nm ptr cur t a k
    have h2 := compLE_next_ge nm ptr cur t b (compLE nm ptr cur t a k).next
    simp only [compLE, List.mem_append] at h ⊢
    rcases h with h | h
    · obtain ⟨j, hj1, hj2, hj3⟩ := compLE_decls_in nm ptr cur t a k d h
      exact ⟨j, hj1, by omega, hj3⟩
    · obtain ⟨j, hj1, hj2, hj3⟩ := compLE_decls_in nm ptr cur t b _ d h
      exact ⟨j, by omega, hj2, hj3⟩
  | .cmp _ a b, k, d, h => by
    have h1 := compLE_next_ge nm ptr cur t a k
    have h2 := compLE_next_ge nm ptr cur t b (compLE nm ptr cur t a k).next
    simp only [compLE, List.mem_append] at h ⊢
    rcases h with h | h
    · obtain ⟨j, hj1, hj2, hj3⟩ := compLE_decls_in nm ptr cur t a k d h
      exact ⟨j, hj1, by omega, hj3⟩
    · obtain ⟨j, hj1, hj2, hj3⟩ := compLE_decls_in nm ptr cur t b _ d h
      exact ⟨j, by omega, hj2, hj3⟩
  | .neg a, k, d, h => by simp only [compLE] at h ⊢; exact compLE_decls_in nm ptr cur t a k d h
  | .not a, k, d, h => by simp only [compLE] at h ⊢; exact compLE_decls_in nm ptr cur t a k d h
  | .bop op a rest, k, d, h => by
    have h1 := compLE_next_ge nm ptr cur t a (k + 1)
    have h2 := compRest_next_ge nm ptr cur t (nm k) op rest (compLE nm ptr cur t a (k + 1)).next
    simp only [compLE, List.mem_cons] at h ⊢
    rcases h with h | h
    · subst h; exact ⟨k, Nat.le_refl k, by omega, rfl⟩
    · obtain ⟨j, hj1, hj2, hj3⟩ := compLE_decls_in nm ptr cur t a _ d h
      exact ⟨j, by omega, by omega, hj3⟩
  | .ite c x y, k, d, h => by
    have h1 := compLE_next_ge nm ptr cur t c (k + 1)
    have h2 := compLE_next_ge nm ptr cur t x (compLE nm ptr cur t c (k + 1)).next
    have h3 := compLE_next_ge nm ptr cur t y (compLE nm ptr cur t x (compLE nm ptr cur t c (k + 1)).next).next
    simp only [compLE, List.mem_cons] at h ⊢
    rcases h with h | h
    · subst h; exact ⟨k, Nat.le_refl k, by omega, rfl⟩
    · obtain ⟨j, hj1, hj2, hj3⟩ := compLE_decls_in nm ptr cur t c _ d h
      exact ⟨j, by omega, by omega, hj3⟩

/-! ## what "the emitted code agrees with the query expression" means -/

/-- nothing outside the names `nm lo … nm (hi-1)` is touched -/
def Frame (nm : Nat → String) (lo hi : Nat) (σ σ' : Env D) : Prop := ∀ y, ¬ InRange nm lo hi y → σ' y = σ y

/-- … and besides the result variable `r` -/
def FrameR (nm : Nat → String) (lo hi : Nat) (r : String) (σ σ' : Env D) : Prop :=
  ∀ y, y ≠ r → ¬ InRange nm lo hi y → σ' y = σ y

/-- declared names stay declared -/
def Mono (σ σ' : Env D) : Prop := ∀ y, (σ y).isSome = true → (σ' y).isSome = true

def Declared (σ : Env D) (ds : List Stmt) : Prop := ∀ d ∈ ds, (σ (dname d)).isSome = true

def IsErr {α : Type} (res : Except Fault α) : Prop := ∃ e, res = .error e

/-- the code's outcome `r` against the query's outcome `res`: the same value, or a fault of the
allowed kind where the query faults -/
def Match (EF : Fault → Prop) (r res : Except Fault (Val D)) : Prop :=
  match res with
  | .ok w => r = .ok w
  | .error _ => ∃ f, r = .error f ∧ EF f

/-- Running the fragment's statements from `σ` and then evaluating its value expression agrees with
`res`: either the query faults and a statement raises a fault, or the statements terminate, touching
only the fragment's names, and the value expression `Match`es. -/
def Agrees (C : Ctx D) (nm : Nat → String) (EF : Fault → Prop) (n : Nat) (F : CondFrag) (σ : Env D)
    (rows : List (List (Val D))) (res : Except Fault (Val D)) : Prop :=
  (IsErr res ∧ ∃ f, execs C F.stmts ⟨σ, rows⟩ = .error f ∧ EF f) ∨
  (∃ σ', execs C F.stmts ⟨σ, rows⟩ = .ok ⟨σ', rows⟩ ∧ Frame nm n F.next σ σ' ∧ Mono σ σ' ∧
      Match EF (evalE C.N σ' F.val) res)

/-- the same for a statement list that leaves its result in the variable `r` -/
def AgreesR (C : Ctx D) (nm : Nat → String) (EF : Fault → Prop) (lo hi : Nat) (r : String) (ss : List Stmt) (σ : Env D)
    (rows : List (List (Val D))) (res : Except Fault (Val D)) : Prop :=
  (IsErr res ∧ ∃ f, execs C ss ⟨σ, rows⟩ = .error f ∧ EF f) ∨
  (∃ σ' w, res = .ok w ∧ execs C ss ⟨σ, rows⟩ = .ok ⟨σ', rows⟩ ∧ σ' r = some (.val w) ∧
      FrameR nm lo hi r σ σ' ∧ Mono σ σ')

/-- in every state satisfying `Pre` in which the fragment's declarations are done -/
def Sound (C : Ctx D) (nm : Nat → String) (EF : Fault → Prop) (Pre : Env D → Prop) (n : Nat) (F : CondFrag)
    (res : Except Fault (Val D)) : Prop :=
  ∀ σ rows, Pre σ → Declared σ F.decls → Agrees C nm EF n F σ rows res

/-- `Pre` does not depend on the names the supply hands out from `n` on -/
def Stable (nm : Nat → String) (n : Nat) (Pre : Env D → Prop) : Prop :=
  ∀ σ σ', Pre σ → (∀ y, (∀ j, n ≤ j → y ≠ nm j) → σ' y = σ y) → Pre σ'

theorem Stable.mono {nm : Nat → String} {n m : Nat} {Pre : Env D → Prop} (h : Stable nm n Pre) (hnm : n ≤ m) :
    Stable nm m Pre :=
  fun σ σ' hp hfr => h σ σ' hp (fun y hy => hfr y (fun j hj => hy j (by omega)))

theorem Stable.frame {nm : Nat → String} {n lo hi : Nat} {Pre : Env D → Prop} (h : Stable nm n Pre) (hlo : n ≤ lo)
    {σ σ' : Env D} (hp : Pre σ) (hfr : Frame nm lo hi σ σ') : Pre σ' :=
  h σ σ' hp (fun y hy => hfr y (fun ⟨j, hj1, _, hj3⟩ => hy j (by omega) hj3))

theorem Stable.frameR {nm : Nat → String} {n lo hi k : Nat} {Pre : Env D → Prop} (h : Stable nm n Pre) (hlo : n ≤ lo)
    (hk : n ≤ k) {σ σ' : Env D} (hp : Pre σ) (hfr : FrameR nm lo hi (nm k) σ σ') : Pre σ' :=
  h σ σ' hp (fun y hy => hfr y (hy k hk) (fun ⟨j, hj1, _, hj3⟩ => hy j (by omega) hj3))

theorem Frame.trans {nm : Nat → String} {a b c d lo hi : Nat} {σ σ1 σ2 : Env D}
    (h1 : Frame nm a b σ σ1) (h2 : Frame nm c d σ1 σ2) (ha : lo ≤ a) (hb : b ≤ hi) (hc : lo ≤ c) (hd : d ≤ hi) :
    Frame nm lo hi σ σ2 := by
  intro y hy
  rw [h2 y (fun ⟨j, hj1, hj2, hj3⟩ => hy ⟨j, by omega, by omega, hj3⟩),
    h1 y (fun ⟨j, hj1, hj2, hj3⟩ => hy ⟨j, by omega, by omega, hj3⟩)]

theorem Frame.refl (nm : Nat → String) (lo hi : Nat) (σ : Env D) : Frame nm lo hi σ σ := fun _ _ => rfl
theorem Mono.refl (σ : Env D) : Mono σ σ := fun _ h => h
theorem Mono.trans {σ σ1 σ2 : Env D} (h1 : Mono σ σ1) (h2 : Mono σ1 σ2) : Mono σ σ2 := fun y h => h2 y (h1 y h)

theorem Mono.set (σ : Env D) (x : String) (v : Val D) : Mono σ (σ.set x v) := by
  intro y h
  by_cases e : y = x <;> simp [Env.set, e, h]

theorem Declared.mono {σ σ' : Env D} {ds : List Stmt} (h : Declared σ ds) (hm : Mono σ σ') : Declared σ' ds :=
  fun d hd => hm _ (h d hd)

/-- evaluation of an expression that mentions none of the names `nm lo …` is not affected by a frame there -/
theorem evalE_frame (N : Num D) (nm : Nat → String) {lo hi : Nat} {σ σ' : Env D} (e : CExpr)
    (hfr : Frame nm lo hi σ σ') (he : ∀ y ∈ vars e, ∀ j, lo ≤ j → y ≠ nm j) : evalE N σ' e = evalE N σ e := by
  apply evalE_congr
  intro y hy
  exact hfr y (fun ⟨j, hj1, _, hj3⟩ => he y hy j hj1 hj3)

/-! ## execution helpers -/

theorem exec_set_ok' (C : Ctx D) (s : St D) (x : String) (e : CExpr) (v : Val D)
    (hx : (s.env x).isSome = true) (he : evalE C.N s.env e = .ok v) :
    exec C (.set x e) s = .ok { s with env := s.env.set x v } := by
  simp only [exec, he]
  cases h : s.env x with
  | none => rw [h] at hx; simp at hx
  | some _ => rfl

theorem exec_set_err (C : Ctx D) (s : St D) (x : String) (e : CExpr) (f : Fault)
    (hx : (s.env x).isSome = true) (he : evalE C.N s.env e = .error f) :
    exec C (.set x e) s = .error f := by
  simp only [exec, he]
  cases h : s.env x with
  | none => rw [h] at hx; simp at hx
  | some _ => rfl

theorem exec_ite_of' (C : Ctx D) (s : St D) (c : CExpr) (t e : List Stmt) (v : Val D) (b : Bool)
    (hc : evalE C.N s.env c = .ok v) (hb : asBool C.N v = some b) :
    exec C (.ite c t e) s = execs C (if b then t else e) s := by
  simp only [exec, hc, hb]
  cases b <;> rfl

theorem exec_ite_err (C : Ctx D) (s : St D) (c : CExpr) (t e : List Stmt) (f : Fault)
    (hc : evalE C.N s.env c = .error f) : exec C (.ite c t e) s = .error f := by
  simp only [exec, hc]

theorem execs_single (C : Ctx D) (st : Stmt) (s : St D) : execs C [st] s = exec C st s := by
  simp only [execs]
  cases exec C st s <;> rfl

/-- executing the lowering's declarations: every name becomes declared, nothing else changes -/
theorem run_decls (C : Ctx D) (nm : Nat → String) (lo hi : Nat) : ∀ (ds : List Stmt) (σ : Env D) (rows : List (List (Val D))),
    (∀ d ∈ ds, LDecl d ∧ InRange nm lo hi (dname d)) →
    ∃ σd, execs C ds ⟨σ, rows⟩ = .ok ⟨σd, rows⟩ ∧ Frame nm lo hi σ σd ∧ Mono σ σd ∧ Declared σd ds
  | [], σ, rows, _ => ⟨σ, rfl, Frame.refl nm lo hi σ, Mono.refl σ, fun _ h => by simp at h⟩
  | d :: ds, σ, rows, h => by
    obtain ⟨⟨ty, x, rfl, hv⟩, hin⟩ := h _ (List.mem_cons_self)
    simp only [dname] at hin
    obtain ⟨σd, hex, hfr, hmo, hde⟩ := run_decls C nm lo hi ds (σ.declare x) rows (fun d' hd' => h d' (List.mem_cons_of_mem _ hd'))
    have hm1 : Mono σ (σ.declare x) := by
      intro y hy
      by_cases e : y = x <;> simp [Env.declare, e, hy]
    refine ⟨σd, ?_, ?_, hm1.trans hmo, ?_⟩
    · simp only [execs, exec, hv, Bool.false_eq_true, if_false]
      exact hex
    · intro y hy
      rw [hfr y hy]
      have : y ≠ x := fun e => hy (e ▸ hin)
      simp [Env.declare, this]
    · intro d' hd'
      rcases List.mem_cons.1 hd' with rfl | hd'
      · simp only [dname]
        exact hmo x (by simp [Env.declare])
      · exact hde d' hd'


/-! ## combinators: one per construct of the lowering -/

def strict1 (ra : Except Fault (Val D)) (g : Val D → Except Fault (Val D)) : Except Fault (Val D) :=
  match ra with
  | .error f => .error f
  | .ok wa => g wa

def strict2 (ra rb : Except Fault (Val D)) (g : Val D → Val D → Except Fault (Val D)) : Except Fault (Val D) :=
  match ra with
  | .error f => .error f
  | .ok wa => match rb with
    | .error f => .error f
    | .ok wb => g wa wb

theorem strict1_pure (ra : Except Fault (Val D)) : strict1 ra (fun w => .ok w) = ra := by
  cases ra <;> rfl

theorem match_self_ok (EF : Fault → Prop) (w : Val D) : Match EF (.ok w) (.ok w) := rfl

section combinators
variable (C : Ctx D) (nm : Nat → String) (EF : Fault → Prop)

/-- a fragment without statements whose value expression evaluates as the query expression does -/
theorem sound_pure (Pre : Env D → Prop) (n : Nat) (F : CondFrag) (res : Except Fault (Val D))
    (hs : F.stmts = []) (h : ∀ σ, Pre σ → Match EF (evalE C.N σ F.val) res) :
    Sound C nm EF Pre n F res := by
  intro σ rows hp _
  exact Or.inr ⟨σ, by rw [hs]; rfl, Frame.refl nm n F.next σ, Mono.refl σ, h σ hp⟩

/-- strict unary operator -/
theorem sound_un (Pre : Env D → Prop) (n : Nat) (Fa : CondFrag) (V : CExpr) (resa : Except Fault (Val D))
    (g : Val D → Except Fault (Val D))
    (ha : Sound C nm EF Pre n Fa resa)
    (hVe : ∀ σ f, evalE C.N σ Fa.val = .error f → evalE C.N σ V = .error f)
    (hV : ∀ σ wa, resa = .ok wa → evalE C.N σ Fa.val = .ok wa → evalE C.N σ V = g wa)
    (hg : ∀ wa, resa = .ok wa → ∃ w, g wa = .ok w) :
    Sound C nm EF Pre n ⟨Fa.decls, Fa.stmts, V, Fa.next⟩ (strict1 resa g) := by
  intro σ rows hp hd
  rcases ha σ rows hp hd with ⟨⟨e, he⟩, f, hex, hef⟩ | ⟨σa, hexa, hfra, hmoa, hma⟩
  · exact Or.inl ⟨⟨e, by rw [he]; rfl⟩, f, hex, hef⟩
  · refine Or.inr ⟨σa, hexa, hfra, hmoa, ?_⟩
    cases hra : resa with
    | error e =>
      rw [hra] at hma
      obtain ⟨f, hf, hef⟩ := hma
      exact ⟨f, hVe σa f hf, hef⟩
    | ok wa =>
      rw [hra] at hma
      obtain ⟨w, hw⟩ := hg wa hra
      simp only [strict1, hw]
      show evalE C.N σa V = .ok w
      rw [hV σa wa hra hma, hw]

/-- strict binary operator: the statements of `a`, then those of `b`, then ONE expression -/
theorem sound_bin (Pre : Env D → Prop) (n : Nat) (hst : Stable nm n Pre) (Fa Fb : CondFrag) (V : CExpr)
    (resa resb : Except Fault (Val D)) (g : Val D → Val D → Except Fault (Val D))
    (hna : n ≤ Fa.next) (hnb : Fa.next ≤ Fb.next)
    (ha : Sound C nm EF Pre n Fa resa) (hb : Sound C nm EF Pre Fa.next Fb resb)
    (hva : ∀ y ∈ vars Fa.val, ∀ j, Fa.next ≤ j → y ≠ nm j)
    (hVa : ∀ σ f, evalE C.N σ Fa.val = .error f → evalE C.N σ V = .error f)
    (hVb : ∀ σ wa f, resa = .ok wa → evalE C.N σ Fa.val = .ok wa → evalE C.N σ Fb.val = .error f → evalE C.N σ V = .error f)
    (hV : ∀ σ wa wb, resa = .ok wa → resb = .ok wb → evalE C.N σ Fa.val = .ok wa → evalE C.N σ Fb.val = .ok wb →
        evalE C.N σ V = g wa wb)
    (hg : ∀ wa wb, resa = .ok wa → resb = .ok wb → ∃ w, g wa wb = .ok w) :
    Sound C nm EF Pre n ⟨Fa.decls ++ Fb.decls, Fa.stmts ++ Fb.stmts, V, Fb.next⟩ (strict2 resa resb g) := by
  intro σ rows hp hd
  have hda : Declared σ Fa.decls := fun d h => hd d (List.mem_append_left _ h)
  have hdb : Declared σ Fb.decls := fun d h => hd d (List.mem_append_right _ h)
  rcases ha σ rows hp hda with ⟨⟨e, he⟩, f, hex, hef⟩ | ⟨σa, hexa, hfra, hmoa, hma⟩
  · refine Or.inl ⟨⟨e, by rw [he]; rfl⟩, f, ?_, hef⟩
    show execs C (Fa.stmts ++ Fb.stmts) ⟨σ, rows⟩ = .error f
    rw [execs_append, hex]
  · have hpa : Pre σa := hst.frame (Nat.le_refl n) hp hfra
    rcases hb σa rows hpa (hdb.mono hmoa) with ⟨⟨e, he⟩, f, hex, hef⟩ | ⟨σb, hexb, hfrb, hmob, hmb⟩
    · refine Or.inl ⟨?_, f, ?_, hef⟩
      · cases resa with
        | error e' => exact ⟨e', rfl⟩
        | ok wa => exact ⟨e, by rw [he]; rfl⟩
      · show execs C (Fa.stmts ++ Fb.stmts) ⟨σ, rows⟩ = .error f
        rw [execs_append, hexa]; exact hex
    · refine Or.inr ⟨σb, ?_, hfra.trans hfrb (Nat.le_refl _) (by omega) hna (Nat.le_refl _), hmoa.trans hmob, ?_⟩
      · show execs C (Fa.stmts ++ Fb.stmts) ⟨σ, rows⟩ = .ok ⟨σb, rows⟩
        rw [execs_append, hexa]; exact hexb
      · have hsame : evalE C.N σb Fa.val = evalE C.N σa Fa.val := evalE_frame C.N nm Fa.val hfrb hva
        show Match EF (evalE C.N σb V) (strict2 resa resb g)
        cases hra : resa with
        | error e =>
          rw [hra] at hma
          obtain ⟨f, hf, hef⟩ := hma
          exact ⟨f, hVa σb f (by rw [hsame]; exact hf), hef⟩
        | ok wa =>
          rw [hra] at hma
          have hma' : evalE C.N σb Fa.val = .ok wa := by rw [hsame]; exact hma
          cases hrb : resb with
          | error e =>
            rw [hrb] at hmb
            obtain ⟨f, hf, hef⟩ := hmb
            exact ⟨f, hVb σb wa f hra hma' hf, hef⟩
          | ok wb =>
            rw [hrb] at hmb
            obtain ⟨w, hw⟩ := hg wa wb hra hrb
            simp only [strict2, hw]
            show evalE C.N σb V = .ok w
            rw [hV σb wa wb hra hrb hma' hmb, hw]

/-- the fragment's statements followed by the assignment of its (possibly cast) value to `r` -/
theorem run_set (n : Nat) (F : CondFrag) (r : String) (e : CExpr) (g : Val D → Except Fault (Val D))
    (res : Except Fault (Val D)) (σ : Env D) (rows : List (List (Val D)))
    (hF : Agrees C nm EF n F σ rows res) (hr : (σ r).isSome = true)
    (hee : ∀ σ' f, evalE C.N σ' F.val = .error f → evalE C.N σ' e = .error f)
    (he : ∀ σ' w, res = .ok w → evalE C.N σ' F.val = .ok w → evalE C.N σ' e = g w)
    (hg : ∀ w, res = .ok w → ∃ w', g w = .ok w') :
    AgreesR C nm EF n F.next r (F.stmts ++ [.set r e]) σ rows (strict1 res g) := by
  rcases hF with ⟨⟨e', he'⟩, f, hex, hef⟩ | ⟨σ', hex, hfr, hmo, hm⟩
  · refine Or.inl ⟨⟨e', by rw [he']; rfl⟩, f, ?_, hef⟩
    rw [execs_append, hex]
  · have hr' : (σ' r).isSome = true := hmo r hr
    cases hres : res with
    | error e' =>
      rw [hres] at hm
      obtain ⟨f, hf, hef⟩ := hm
      refine Or.inl ⟨⟨e', rfl⟩, f, ?_, hef⟩
      rw [execs_append, hex]
      simp only []
      rw [execs_single]
      exact exec_set_err C ⟨σ', rows⟩ r e f hr' (hee σ' f hf)
    | ok w =>
      rw [hres] at hm
      obtain ⟨w', hw'⟩ := hg w hres
      refine Or.inr ⟨σ'.set r w', w', by simp only [strict1, hw'], ?_, by simp [Env.set], ?_, hmo.trans (Mono.set σ' r w')⟩
      · rw [execs_append, hex]
        simp only []
        rw [execs_single]
        exact exec_set_ok' C ⟨σ', rows⟩ r e w' hr' (by rw [he σ' w hres hm, hw'])
      · intro y hy1 hy2
        simp only [Env.set, hy1, if_false]
        exact hfr y hy2

/-- a guarded operand / an arm: its declarations, its statements, the assignment to `r` -/
theorem run_arm (Pre : Env D → Prop) (n : Nat) (hst : Stable nm n Pre) (F : CondFrag) (r : String) (e : CExpr)
    (g : Val D → Except Fault (Val D)) (res : Except Fault (Val D))
    (hdecl : ∀ d ∈ F.decls, LDecl d ∧ InRange nm n F.next (dname d))
    (hS : Sound C nm EF Pre n F res)
    (hee : ∀ σ' f, evalE C.N σ' F.val = .error f → evalE C.N σ' e = .error f)
    (he : ∀ σ' w, res = .ok w → evalE C.N σ' F.val = .ok w → evalE C.N σ' e = g w)
    (hg : ∀ w, res = .ok w → ∃ w', g w = .ok w')
    (σ : Env D) (rows : List (List (Val D))) (hp : Pre σ) (hr : (σ r).isSome = true) :
    AgreesR C nm EF n F.next r (F.decls ++ F.stmts ++ [.set r e]) σ rows (strict1 res g) := by
  obtain ⟨σd, hexd, hfrd, hmod, hdd⟩ := run_decls C nm n F.next F.decls σ rows hdecl
  have hpd : Pre σd := hst.frame (Nat.le_refl n) hp hfrd
  have := run_set C nm EF n F r e g res σd rows (hS σd rows hpd hdd) (hmod r hr) hee he hg
  rcases this with ⟨herr, f, hex, hef⟩ | ⟨σ', w, hres, hex, hrv, hfr, hmo⟩
  · refine Or.inl ⟨herr, f, ?_, hef⟩
    rw [List.append_assoc, execs_append, hexd]; exact hex
  · refine Or.inr ⟨σ', w, hres, ?_, hrv, ?_, hmod.trans hmo⟩
    · rw [List.append_assoc, execs_append, hexd]; exact hex
    · intro y hy1 hy2
      rw [hfr y hy1 hy2, hfrd y hy2]

/-- what Python's conditional expression does with the outcomes of its parts -/
def iteRes (N : Num D) (rc rx ry : Except Fault (Val D)) : Except Fault (Val D) :=
  match rc with
  | .error e => .error e
  | .ok vc => match asBool N vc with
    | none => .error (.typeErr "condition")
    | some true => rx
    | some false => ry

/-- **conditional**: `T r;` (declared by the enclosing block) `stmts(c); if (c) { x…; r = x; } else { y…; r = y; }` -/
theorem sound_ite (Pre : Env D → Prop) (n : Nat) (hst : Stable nm n Pre) (hinj : ∀ i j, nm i = nm j → i = j)
    (ty : String) (Fc Fx Fy : CondFrag) (ex ey : CExpr)
    (gx gy : Val D → Except Fault (Val D)) (rc rx ry : Except Fault (Val D))
    (h1 : n + 1 ≤ Fc.next) (h2 : Fc.next ≤ Fx.next) (h3 : Fx.next ≤ Fy.next)
    (hc : Sound C nm EF Pre (n + 1) Fc rc) (hx : Sound C nm EF Pre Fc.next Fx rx) (hy : Sound C nm EF Pre Fx.next Fy ry)
    (hdx : ∀ d ∈ Fx.decls, LDecl d ∧ InRange nm Fc.next Fx.next (dname d))
    (hdy : ∀ d ∈ Fy.decls, LDecl d ∧ InRange nm Fx.next Fy.next (dname d))
    (hcb : ∀ vc, rc = .ok vc → ∃ b, asBool C.N vc = some b)
    (hexe : ∀ σ' f, evalE C.N σ' Fx.val = .error f → evalE C.N σ' ex = .error f)
    (hex : ∀ σ' w, rx = .ok w → evalE C.N σ' Fx.val = .ok w → evalE C.N σ' ex = gx w)
    (hgx : ∀ w, rx = .ok w → ∃ w', gx w = .ok w')
    (heye : ∀ σ' f, evalE C.N σ' Fy.val = .error f → evalE C.N σ' ey = .error f)
    (hey : ∀ σ' w, ry = .ok w → evalE C.N σ' Fy.val = .ok w → evalE C.N σ' ey = gy w)
    (hgy : ∀ w, ry = .ok w → ∃ w', gy w = .ok w') :
    Sound C nm EF Pre n
      ⟨.decl ty (nm n) none :: Fc.decls,
       Fc.stmts ++ [.ite Fc.val (Fx.decls ++ Fx.stmts ++ [.set (nm n) ex]) (Fy.decls ++ Fy.stmts ++ [.set (nm n) ey])],
       .var (nm n), Fy.next⟩
      (iteRes C.N rc (strict1 rx gx) (strict1 ry gy)) := by
  intro σ rows hp hd
  have hr : (σ (nm n)).isSome = true := hd _ (List.mem_cons_self)
  have hdc : Declared σ Fc.decls := fun d h => hd d (List.mem_cons_of_mem _ h)
  -- the result of an arm that has run, as the result of the whole
  have finish : ∀ (σc σ' : Env D) (w : Val D) (lo hi : Nat), n + 1 ≤ lo → hi ≤ Fy.next →
      Frame nm (n + 1) Fc.next σ σc → Mono σ σc → FrameR nm lo hi (nm n) σc σ' → Mono σc σ' → σ' (nm n) = some (.val w) →
      Frame nm n Fy.next σ σ' ∧ Mono σ σ' ∧ Match EF (evalE C.N σ' (.var (nm n))) (.ok w) := by
    intro σc σ' w lo hi hlo hhi hfrc hmoc hfr hmo hrv
    refine ⟨?_, hmoc.trans hmo, by simp [Match, evalE, hrv]⟩
    intro y hy
    have hyr : y ≠ nm n := fun e => hy ⟨n, Nat.le_refl n, by omega, e⟩
    rw [hfr y hyr (fun ⟨j, hj1, hj2, hj3⟩ => hy ⟨j, by omega, by omega, hj3⟩),
      hfrc y (fun ⟨j, hj1, hj2, hj3⟩ => hy ⟨j, by omega, by omega, hj3⟩)]
  rcases hc σ rows hp hdc with ⟨⟨e, he⟩, f, hexc, hef⟩ | ⟨σc, hexc, hfrc, hmoc, hmc⟩
  · refine Or.inl ⟨⟨e, by rw [he]; rfl⟩, f, ?_, hef⟩
    show execs C (Fc.stmts ++ _) ⟨σ, rows⟩ = .error f
    rw [execs_append, hexc]
  · have hpc : Pre σc := hst.frame (by omega) hp hfrc
    have hrc' : (σc (nm n)).isSome = true := hmoc _ hr
    cases hrc : rc with
    | error e =>
      rw [hrc] at hmc
      obtain ⟨f, hf, hef⟩ := hmc
      refine Or.inl ⟨⟨e, rfl⟩, f, ?_, hef⟩
      show execs C (Fc.stmts ++ _) ⟨σ, rows⟩ = .error f
      rw [execs_append, hexc]
      simp only []
      rw [execs_single]
      exact exec_ite_err C ⟨σc, rows⟩ _ _ _ f hf
    | ok vc =>
      rw [hrc] at hmc
      obtain ⟨b, hb⟩ := hcb vc hrc
      have hwhole : execs C (Fc.stmts ++ [.ite Fc.val (Fx.decls ++ Fx.stmts ++ [.set (nm n) ex]) (Fy.decls ++ Fy.stmts ++ [.set (nm n) ey])]) ⟨σ, rows⟩ =
          execs C (if b then (Fx.decls ++ Fx.stmts ++ [.set (nm n) ex]) else (Fy.decls ++ Fy.stmts ++ [.set (nm n) ey])) ⟨σc, rows⟩ := by
        rw [execs_append, hexc]
        simp only []
        rw [execs_single]
        exact exec_ite_of' C ⟨σc, rows⟩ _ _ _ vc b hmc hb
      cases b with
      | true =>
        have harm := run_arm C nm EF Pre Fc.next (hst.mono (by omega)) Fx (nm n) ex gx rx hdx hx hexe hex hgx σc rows hpc hrc'
        simp only [if_true] at hwhole
        have hres : iteRes C.N (.ok vc) (strict1 rx gx) (strict1 ry gy) = strict1 rx gx := by simp [iteRes, hb]
        rw [hres]
        rcases harm with ⟨herr, f, hexa, hef⟩ | ⟨σ', w, hw, hexa, hrv, hfr, hmo⟩
        · exact Or.inl ⟨herr, f, by show execs C (Fc.stmts ++ _) ⟨σ, rows⟩ = .error f; rw [hwhole]; exact hexa, hef⟩
        · rw [hw]
          exact Or.inr ⟨σ', by show execs C (Fc.stmts ++ _) ⟨σ, rows⟩ = _; rw [hwhole]; exact hexa,
            finish σc σ' w Fc.next Fx.next h1 h3 hfrc hmoc hfr hmo hrv⟩
      | false =>
        have hpc' : Pre σc := hpc
        have harm := run_arm C nm EF Pre Fx.next (hst.mono (by omega)) Fy (nm n) ey gy ry hdy hy heye hey hgy σc rows hpc hrc'
        simp only [Bool.false_eq_true, if_false] at hwhole
        have hres : iteRes C.N (.ok vc) (strict1 rx gx) (strict1 ry gy) = strict1 ry gy := by simp [iteRes, hb]
        rw [hres]
        rcases harm with ⟨herr, f, hexa, hef⟩ | ⟨σ', w, hw, hexa, hrv, hfr, hmo⟩
        · exact Or.inl ⟨herr, f, by show execs C (Fc.stmts ++ _) ⟨σ, rows⟩ = .error f; rw [hwhole]; exact hexa, hef⟩
        · rw [hw]
          exact Or.inr ⟨σ', by show execs C (Fc.stmts ++ _) ⟨σ, rows⟩ = _; rw [hwhole]; exact hexa,
            finish σc σ' w Fx.next Fy.next (by omega) (Nat.le_refl _) hfrc hmoc hfr hmo hrv⟩


/-- sequencing for statement lists that keep their result in `r` -/
theorem agreesR_cons (lo hi lo1 hi1 lo2 hi2 : Nat) (r : String) (st : Stmt) (rs : List Stmt) (σ σ1 : Env D)
    (rows : List (List (Val D))) (res : Except Fault (Val D))
    (hst : exec C st ⟨σ, rows⟩ = .ok ⟨σ1, rows⟩) (hfr : FrameR nm lo1 hi1 r σ σ1) (hmo : Mono σ σ1)
    (hl1 : lo ≤ lo1) (hh1 : hi1 ≤ hi) (hl2 : lo ≤ lo2) (hh2 : hi2 ≤ hi)
    (h : AgreesR C nm EF lo2 hi2 r rs σ1 rows res) :
    AgreesR C nm EF lo hi r (st :: rs) σ rows res := by
  rcases h with ⟨herr, f, hex, hef⟩ | ⟨σ', w, hw, hex, hrv, hfr', hmo'⟩
  · exact Or.inl ⟨herr, f, by simp only [execs, hst]; exact hex, hef⟩
  · refine Or.inr ⟨σ', w, hw, by simp only [execs, hst]; exact hex, hrv, ?_, hmo.trans hmo'⟩
    intro y hy1 hy2
    rw [hfr' y hy1 (fun ⟨j, hj1, hj2, hj3⟩ => hy2 ⟨j, by omega, by omega, hj3⟩),
      hfr y hy1 (fun ⟨j, hj1, hj2, hj3⟩ => hy2 ⟨j, by omega, by omega, hj3⟩)]

theorem FrameR.refl (lo hi : Nat) (r : String) (σ : Env D) : FrameR nm lo hi r σ σ := fun _ _ _ => rfl

/-- **and / or**: `bool r;` (declared by the enclosing block) `stmts(a); r = a;` then the guarded steps of the
other operands, characterised by `hrest` -/
theorem sound_bop (Pre : Env D → Prop) (n : Nat) (hst : Stable nm n Pre) (Fa : CondFrag) (ea : CExpr) (rs : List Stmt)
    (next : Nat) (g : Val D → Except Fault (Val D)) (resa : Except Fault (Val D))
    (restRes : Bool → Except Fault (Val D)) (res : Except Fault (Val D))
    (h1 : n + 1 ≤ Fa.next) (h2 : Fa.next ≤ next)
    (ha : Sound C nm EF Pre (n + 1) Fa resa)
    (hee : ∀ σ' f, evalE C.N σ' Fa.val = .error f → evalE C.N σ' ea = .error f)
    (he : ∀ σ' w, resa = .ok w → evalE C.N σ' Fa.val = .ok w → evalE C.N σ' ea = g w)
    (hg : ∀ w, resa = .ok w → ∃ acc, g w = .ok (.bool acc))
    (hrest : ∀ σ rows acc, strict1 resa g = .ok (.bool acc) → Pre σ → σ (nm n) = some (.val (.bool acc)) →
        AgreesR C nm EF Fa.next next (nm n) rs σ rows (restRes acc))
    (hres_e : ∀ e, strict1 resa g = .error e → IsErr res)
    (hres_ok : ∀ acc, strict1 resa g = .ok (.bool acc) → res = restRes acc) :
    Sound C nm EF Pre n ⟨.decl "bool" (nm n) none :: Fa.decls, Fa.stmts ++ (.set (nm n) ea :: rs), .var (nm n), next⟩ res := by
  intro σ rows hp hd
  have hr : (σ (nm n)).isSome = true := hd _ (List.mem_cons_self)
  have hda : Declared σ Fa.decls := fun d h => hd d (List.mem_cons_of_mem _ h)
  have hsplit : Fa.stmts ++ (.set (nm n) ea :: rs) = (Fa.stmts ++ [.set (nm n) ea]) ++ rs := by simp
  have hfirst := run_set C nm EF (n + 1) Fa (nm n) ea g resa σ rows (ha σ rows hp hda) hr hee he
    (fun w hw => by obtain ⟨acc, h⟩ := hg w hw; exact ⟨_, h⟩)
  rcases hfirst with ⟨⟨e, he'⟩, f, hex, hef⟩ | ⟨σ1, w, hw, hex, hrv, hfr, hmo⟩
  · refine Or.inl ⟨hres_e e he', f, ?_, hef⟩
    show execs C (Fa.stmts ++ (.set (nm n) ea :: rs)) ⟨σ, rows⟩ = .error f
    rw [hsplit, execs_append, hex]
  · -- the value stored is a bool
    have hwb : ∃ acc, w = .bool acc := by
      cases hra : resa with
      | error e => rw [hra] at hw; simp [strict1] at hw
      | ok wa =>
        obtain ⟨acc, hacc⟩ := hg wa hra
        rw [hra] at hw
        simp only [strict1, hacc, Except.ok.injEq] at hw
        exact ⟨acc, hw.symm⟩
    obtain ⟨acc, rfl⟩ := hwb
    have hp1 : Pre σ1 := hst.frameR (by omega) (Nat.le_refl n) hp hfr
    rw [hres_ok acc hw]
    rcases hrest σ1 rows acc hw hp1 hrv with ⟨herr, f, hex2, hef⟩ | ⟨σ', w', hw', hex2, hrv', hfr', hmo'⟩
    · refine Or.inl ⟨herr, f, ?_, hef⟩
      show execs C (Fa.stmts ++ (.set (nm n) ea :: rs)) ⟨σ, rows⟩ = .error f
      rw [hsplit, execs_append, hex]; exact hex2
    · refine Or.inr ⟨σ', ?_, ?_, hmo.trans hmo', ?_⟩
      · show execs C (Fa.stmts ++ (.set (nm n) ea :: rs)) ⟨σ, rows⟩ = .ok ⟨σ', rows⟩
        rw [hsplit, execs_append, hex]; exact hex2
      · show Frame nm n next σ σ'
        intro y hy
        have hyr : y ≠ nm n := fun e => hy ⟨n, Nat.le_refl n, by omega, e⟩
        rw [hfr' y hyr (fun ⟨j, hj1, hj2, hj3⟩ => hy ⟨j, by omega, by omega, hj3⟩),
          hfr y hyr (fun ⟨j, hj1, hj2, hj3⟩ => hy ⟨j, by omega, by omega, hj3⟩)]
      · rw [hw']
        simp [Match, evalE, hrv']

theorem sound_weaken {Pre Pre' : Env D → Prop} {EF' : Fault → Prop} {n : Nat} {F : CondFrag} {res : Except Fault (Val D)}
    (h : Sound C nm EF Pre n F res) (hp : ∀ σ, Pre' σ → Pre σ) (hf : ∀ f, EF f → EF' f) :
    Sound C nm EF' Pre' n F res := by
  intro σ rows hp' hd
  rcases h σ rows (hp σ hp') hd with ⟨herr, f, hex, hef⟩ | ⟨σ', hex, hfr, hmo, hm⟩
  · exact Or.inl ⟨herr, f, hex, hf f hef⟩
  · refine Or.inr ⟨σ', hex, hfr, hmo, ?_⟩
    cases res with
    | ok w => exact hm
    | error e => obtain ⟨f, h1, h2⟩ := hm; exact ⟨f, h1, hf f h2⟩

/-- the success direction in plain form -/
theorem agrees_ok {n : Nat} {F : CondFrag} {σ : Env D} {rows : List (List (Val D))} {w : Val D}
    (h : Agrees C nm EF n F σ rows (.ok w)) :
    ∃ σ', execs C F.stmts ⟨σ, rows⟩ = .ok ⟨σ', rows⟩ ∧ Frame nm n F.next σ σ' ∧ Mono σ σ' ∧ evalE C.N σ' F.val = .ok w := by
  rcases h with ⟨⟨e, he⟩, _⟩ | ⟨σ', hex, hfr, hmo, hm⟩
  · cases he
  · exact ⟨σ', hex, hfr, hmo, hm⟩

theorem agreesR_ok {lo hi : Nat} {r : String} {ss : List Stmt} {σ : Env D} {rows : List (List (Val D))} {w : Val D}
    (h : AgreesR C nm EF lo hi r ss σ rows (.ok w)) :
    ∃ σ', execs C ss ⟨σ, rows⟩ = .ok ⟨σ', rows⟩ ∧ σ' r = some (.val w) ∧ FrameR nm lo hi r σ σ' ∧ Mono σ σ' := by
  rcases h with ⟨⟨e, he⟩, _⟩ | ⟨σ', w', hw, hex, hrv, hfr, hmo⟩
  · cases he
  · simp only [Except.ok.injEq] at hw; subst hw
    exact ⟨σ', hex, hrv, hfr, hmo⟩

end combinators

end FaxVerif.Gen
