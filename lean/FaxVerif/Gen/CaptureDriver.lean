/-
Driver of the captured-variable fragment (`Gen/Capture.lean`): JSON lines.
  {"op":"compileC","backend":b,"colls":[{"name","type","elem"}],"cq":CQ,"events":[..]}
    -> the model's package as text (`Gen.compileC`), the model's own exec / denote(toQuery) on the events,
       the package run as ONE job, "wt": the query is inside the proved fragment
  CQ     = {"k":"eventRows","cols":[{"name","k":"agg","c":CHAIN,"e":XE} | {"name","k":"twoD","c":CHAIN,"ic":CCHAIN}]}
  XE     = {"k":"pure","p":PE} | {"k":"ccount","c":CCHAIN} | {"k":"csum","c":CCHAIN}
         | {"k":"bin"|"cmp","op","a":XE,"b":XE} | {"k":"neg"|"not","a":XE}
  CCHAIN = {"coll","bank","steps":[{"k":"sel"|"whr","e":CE}]}
  CE     = {"k":"inner","p":PE} | {"k":"outer","p":PE} | {"k":"bin"|"cmp","op","a":CE,"b":CE} | {"k":"neg"|"not","a":CE}
Run: lake env lean --run FaxVerif/Gen/CaptureDriver.lean
-/
import FaxVerif.Cpp.Json
import FaxVerif.Cpp.Check
import FaxVerif.Gen.Render
import FaxVerif.Gen.Capture
open Lean FaxVerif.Cpp FaxVerif.Linq FaxVerif.Gen

partial def decCE (j : Json) : Except String CE := do
  let k ← jstr j "k"
  match k with
  | "inner" => pure (.inner (← decPE (← j.getObjVal? "p")))
  | "outer" => pure (.outer (← decPE (← j.getObjVal? "p")))
  | "bin" => pure (.bin (← decAOp (← jstr j "op")) (← decCE (← j.getObjVal? "a")) (← decCE (← j.getObjVal? "b")))
  | "cmp" => pure (.cmp (← decCOp (← jstr j "op")) (← decCE (← j.getObjVal? "a")) (← decCE (← j.getObjVal? "b")))
  | "neg" => pure (.neg (← decCE (← j.getObjVal? "a")))
  | "not" => pure (.not (← decCE (← j.getObjVal? "a")))
  | o => throw s!"CE {o}"

def decCChain (j : Json) : Except String CChain := do
  let steps ← (← jarr j "steps").mapM fun s => do
    let k ← jstr s "k"
    let e ← decCE (← s.getObjVal? "e")
    if k = "sel" then pure (CStep.sel e) else pure (CStep.whr e)
  pure { coll := (← jstr j "coll"), bank := (← jstr j "bank"), steps := steps }

partial def decXE (j : Json) : Except String XE := do
  let k ← jstr j "k"
  match k with
  | "pure" => pure (.pure (← decPE (← j.getObjVal? "p")))
  | "ccount" => pure (.ccount (← decCChain (← j.getObjVal? "c")))
  | "csum" => pure (.csum (← decCChain (← j.getObjVal? "c")))
  | "bin" => pure (.bin (← decAOp (← jstr j "op")) (← decXE (← j.getObjVal? "a")) (← decXE (← j.getObjVal? "b")))
  | "cmp" => pure (.cmp (← decCOp (← jstr j "op")) (← decXE (← j.getObjVal? "a")) (← decXE (← j.getObjVal? "b")))
  | "neg" => pure (.neg (← decXE (← j.getObjVal? "a")))
  | "not" => pure (.not (← decXE (← j.getObjVal? "a")))
  | o => throw s!"XE {o}"

def decCQ (j : Json) : Except String CQ := do
  let cols ← (← jarr j "cols").mapM fun c => do
    let name ← jstr c "name"
    let ck ← jstr c "k"
    let ch ← decChain (← c.getObjVal? "c")
    if ck = "agg" then pure (name, CCol.agg ch (← decXE (← c.getObjVal? "e")))
    else pure (name, CCol.twoD ch (← decCChain (← c.getObjVal? "ic")))
  pure (.eventRows cols)

def rowsJsonC (rows : List (List (Val Float))) : Json :=
  Json.mkObj [
    ("rows", Json.arr (rows.map fun r => Json.arr (r.map fun v => Json.str (showVal true v)).toArray).toArray),
    ("num", Json.arr (rows.map fun r => Json.arr (r.map fun v => Json.str (showVal false v)).toArray).toArray)]

def resJsonC : Except Fault (List (List (Val Float))) → Json
  | .ok rows => rowsJsonC rows
  | .error f => Json.mkObj [("fault", Json.str (faultClass f))]

def handleCompileC (j : Json) : Except String Json := do
  let colls ← (← jarr j "colls").mapM fun c => do pure ((← jstr c "name"), (← jstr c "type"), (← jstr c "elem"))
  let B := mkBackend (← jstr j "backend") colls
  let cq ← decCQ (← j.getObjVal? "cq")
  let P := compileC B nmLocal nmCol cq
  let evs ← (← jarr j "events").mapM decEvent
  let cts := colls.map fun c => (c.1, c.2.1)
  let jl (l : List String) := Json.arr (l.map Json.str).toArray
  let execs := evs.map fun ev => resJsonC ((runEvent P floatNum (classInit P.classVars) ev).map (·.1))
  let job := resJsonC (runJob P floatNum evs)
  let dens := evs.map fun ev => resJsonC (denoteRows { N := floatNum, ev := ev, collTypes := cts } cq.toQuery)
  pure (Json.mkObj [
    ("body", jl (renderS P.body)),
    ("class_decl", jl (P.classVars.map fun p => s!"{p.1} {p.2};")),
    ("branches", Json.arr (P.branches.map fun p => Json.mkObj [("name", p.1), ("var", p.2)]).toArray),
    ("tokens", Json.arr (P.tokens.map fun t => Json.mkObj [("token", t.1), ("type", t.2.1), ("bank", t.2.2)]).toArray),
    ("tree", P.tree),
    ("exec", Json.arr execs.toArray), ("denote", Json.arr dens.toArray), ("job", job),
    ("wt", Json.bool cq.wt),
    ("wf", Json.bool (WellFormed P)), ("eventlocal", Json.bool (EventLocal P))])

def handleC (line : String) : String :=
  match Json.parse line with
  | .error e => (Json.mkObj [("bad", e)]).compress
  | .ok j =>
    let r : Except String Json := do
      let op ← jstr j "op"
      if op == "compileC" then handleCompileC j else throw s!"unknown op {op}"
    match r with
    | .ok j => j.compress
    | .error e => (Json.mkObj [("bad", e)]).compress

partial def loopIOC (h : IO.FS.Stream) (out : IO.FS.Stream) : IO Unit := do
  let line ← h.getLine
  if line.isEmpty then return ()
  let t := line.trimAscii.toString
  if !t.isEmpty then out.putStrLn (handleC t)
  loopIOC h out

def main : IO Unit := do
  let out ← IO.getStdout
  loopIOC (← IO.getStdin) out
  out.flush
