/-
Gen — the INNER loop of the captured-variable fragment: retrieval of the inner event collection inside the outer loop's
body, then `for (auto &&i : *coll) { …conditions mentioning the outer variable… K(value) }`.
  * `cchainBody_correct` / `cloop_correct`: `chainBody_correct` / `loop_correct` of Gen/LoopCorrect.lean with the outer
    element expression `ocur` in scope: it evaluates to the same outer element `vo` in every state of the invariant
    (the OUTER VARIABLE IS STILL BOUND inside the inner loop), the steps' meaning is `celemSem … vo`;
  * `ccompChain_correct`: retrieval block + loop perform the fold of the continuation's step function over the inner
    elements the captured chain keeps for THIS outer element.
-/
import FaxVerif.Gen.CaptureChainCorrect
import FaxVerif.Gen.DeclsCorrect
namespace FaxVerif.Gen
open FaxVerif.Cpp FaxVerif.Linq
variable {D : Type}

/-- what a retrieval by token needs of the run's token table, for the captured chain compiled at `n` -/
def TokCChain (B : Backend) (nm : Nat → String) (C : Ctx D) (c : CChain) (n : Nat) : Prop :=
  B.how = "token" → C.tokenBank (nm (n + 2)) = some ((B.collType c.coll).getD "?", c.bank)

theorem cchainBody_next_ge (nm : Nat → String) (ptr optr : Bool) (ocur : CExpr) (it : CExpr) (steps : List CStep) (n : Nat)
    (K : CExpr → Option Ty → List Stmt) : n ≤ (cchainBody nm ptr optr ocur it steps n K).2 := by
  unfold cchainBody
  cases h : (cstepConds ptr optr ocur it none steps).1 with
  | nil => simp [h]
  | cons c cs => simp only [h]; exact andLower_next_ge nm _ n

/-- **loop body for one element** -/
theorem cchainBody_correct (C : Ctx D) (QC : QCtx D) (hN : QC.N = C.N) (nm : Nat → String)
    (hinj : ∀ i j, nm i = nm j → i = j) (ptr optr : Bool) (ocur : CExpr) (vo : Val D) (i : String) (steps : List CStep) (n : Nat)
    (hi : ∀ j, n ≤ j → i ≠ nm j) (hofr : ∀ y ∈ vars ocur, ∀ j, n ≤ j → y ≠ nm j) (K : CExpr → Option Ty → List Stmt)
    (s : St D) (v : Val D) (o : Option (Val D))
    (hiv : s.env i = some (.val v)) (hocur : evalE C.N s.env ocur = .ok vo) (hwt : wtCSteps none steps = true)
    (hm : MethTyped v (imethsCSteps steps)) (hmo : MethTyped vo (omethsCSteps steps)) (hs : celemSem QC vo steps v = .ok o) :
    let r := cstepConds ptr optr ocur (.var i) none steps
    ∃ s1 : St D, s1.rows = s.rows ∧
      (∀ y, ¬ InRange nm n (cchainBody nm ptr optr ocur (.var i) steps n K).2 y → s1.env y = s.env y) ∧
      (o = none → execs C (cchainBody nm ptr optr ocur (.var i) steps n K).1 s = .ok s1) ∧
      (∀ w, o = some w → execs C (cchainBody nm ptr optr ocur (.var i) steps n K).1 s = execs C (K r.2.1 r.2.2) s1 ∧
          evalE C.N s1.env r.2.1 = .ok w ∧ (∀ t, r.2.2 = some t → HasTy w t) ∧ (r.2.2 = none → w = v)) := by
  intro r
  have hcur : evalE QC.N s.env (.var i) = .ok v := by simp [evalE, hiv]
  have hel := celem_correct QC s.env ptr optr ocur vo (by rw [hN]; exact hocur) steps (.var i) none v o hcur (by simp) hwt hm hmo hs
  have hvars := cstepConds_vars ptr optr ocur steps (.var i) none
  -- anything that agrees with s.env on `i` evaluates conditions and the final value alike
  have hsame : ∀ σ' : Env D, σ' i = s.env i → (∀ y ∈ vars ocur, σ' y = s.env y) → evalE C.N σ' r.2.1 = evalE C.N s.env r.2.1 := by
    intro σ' h ho
    apply evalE_congr
    intro x hx
    rcases hvars.2 x hx with this | this
    · simp only [vars, List.mem_singleton] at this
      rw [this, h]
    · exact ho x this
  cases hc : r.1 with
  | nil =>
    have hbody : cchainBody nm ptr optr ocur (.var i) steps n K = (K r.2.1 r.2.2, n) := by
      simp only [cchainBody]; rw [show (cstepConds ptr optr ocur (.var i) none steps).1 = [] from hc]
    rw [hbody]
    refine ⟨s, rfl, fun _ _ => rfl, ?_, ?_⟩
    · intro ho
      have := hel.1 ho
      rw [show (cstepConds ptr optr ocur (.var i) none steps).1 = [] from hc] at this
      simp [condsF] at this
    · intro w hw
      obtain ⟨_, h2, h3, h4⟩ := hel.2 w hw
      exact ⟨rfl, by rw [← hN]; exact h2, h3, fun h => (h4 h).1⟩
  | cons c0 cs =>
    have hne : r.1 = c0 :: cs := hc
    have hbody : cchainBody nm ptr optr ocur (.var i) steps n K =
        ((andLower nm (c0 :: cs).reverse n).decls ++ (andLower nm (c0 :: cs).reverse n).stmts ++
          [.ite (andLower nm (c0 :: cs).reverse n).val (K r.2.1 r.2.2) []], (andLower nm (c0 :: cs).reverse n).next) := by
      simp only [cchainBody]; rw [show (cstepConds ptr optr ocur (.var i) none steps).1 = c0 :: cs from hc]
    rw [hbody]
    have hfresh : ∀ c ∈ (c0 :: cs).reverse, ∀ x ∈ vars c, ∀ j, n ≤ j → x ≠ nm j := by
      intro c hcm x hx j hj
      have hcm' : c ∈ r.1 := by rw [hne]; simpa [or_comm] using hcm
      rcases hvars.1 c hcm' x hx with this | this
      · simp only [vars, List.mem_singleton] at this
        rw [this]; exact hi j hj
      · exact hofr x this j hj
    -- the truth value of the conjunction
    have hcond : ∀ b, condsF QC.N s.env r.1 = .ok b → ∃ s1 : St D, s1.rows = s.rows ∧
        (∀ y, ¬ InRange nm n (andLower nm (c0 :: cs).reverse n).next y → s1.env y = s.env y) ∧
        execs C ((andLower nm (c0 :: cs).reverse n).decls ++ (andLower nm (c0 :: cs).reverse n).stmts) s = .ok s1 ∧
        evalB C.N s1.env (andLower nm (c0 :: cs).reverse n).val = .ok b := by
      intro b hb
      rw [hN, condsF_eq_condsR, hne] at hb
      obtain ⟨σ', hex, hval, hfr⟩ := andLower_correct C nm hinj (c0 :: cs).reverse n s.env s.rows b hfresh hb
      exact ⟨⟨σ', s.rows⟩, rfl, hfr, hex, hval⟩
    cases o with
    | none =>
      obtain ⟨s1, hr1, hfr1, hex1, hval1⟩ := hcond false (hel.1 rfl)
      obtain ⟨vb, hvb, hbb⟩ := evalB_ok _ _ _ _ hval1
      refine ⟨s1, hr1, hfr1, ?_, by simp⟩
      intro _
      rw [execs_append, hex1]
      simp only [execs, exec, hvb, hbb]
    | some w =>
      obtain ⟨h1, h2, h3, h4⟩ := hel.2 w rfl
      obtain ⟨s1, hr1, hfr1, hex1, hval1⟩ := hcond true h1
      obtain ⟨vb, hvb, hbb⟩ := evalB_ok _ _ _ _ hval1
      refine ⟨s1, hr1, hfr1, by simp, ?_⟩
      intro w' hw'
      simp only [Option.some.injEq] at hw'; subst hw'
      refine ⟨?_, ?_, h3, fun h => (h4 h).1⟩
      · rw [execs_append, hex1]
        simp only [execs, exec, hvb, hbb]
        cases execs C (K r.2.1 r.2.2) s1 <;> rfl
      · rw [hsame s1.env (hfr1 i (by rintro ⟨j, hj1, _, hj3⟩; exact hi j hj1 hj3))
          (fun y hy => hfr1 y (by rintro ⟨j, hj1, _, hj3⟩; exact hofr y hy j hj1 hj3)), ← hN]
        exact h2

/-- **the loop** — iterating the emitted body over the collection's elements performs the fold
of the continuation's step function over the elements the query keeps, in order. -/
theorem cloop_correct {β : Type} (C : Ctx D) (QC : QCtx D) (hN : QC.N = C.N) (nm : Nat → String)
    (hinj : ∀ i j, nm i = nm j → i = j) (ptr optr : Bool) (ocur : CExpr) (vo : Val D) (i : String) (steps : List CStep) (n : Nat)
    (hi : ∀ j, n ≤ j → i ≠ nm j) (hofr : ∀ y ∈ vars ocur, ∀ j, n ≤ j → y ≠ nm j) (K : CExpr → Option Ty → List Stmt)
    (hwt : wtCSteps none steps = true) (hmo : MethTyped vo (omethsCSteps steps))
    (P : St D → β → Prop) (g : β → Val D → Except Fault β) (Q : Val D → Prop)
    (hPo : ∀ (s : St D) b, P s b → evalE C.N s.env ocur = .ok vo)
    (hstable : ∀ (s s' : St D) b, P s b → s'.rows = s.rows →
        (∀ y, y ≠ i → ¬ InRange nm n (cchainBody nm ptr optr ocur (.var i) steps n K).2 y → s'.env y = s.env y) → P s' b)
    (hK : ∀ (s : St D) b b' w (v : Val D), P s b → g b w = .ok b' →
        evalE C.N s.env (cstepConds ptr optr ocur (.var i) none steps).2.1 = .ok w →
        (∀ t, (cstepConds ptr optr ocur (.var i) none steps).2.2 = some t → HasTy w t) →
        ((cstepConds ptr optr ocur (.var i) none steps).2.2 = none → w = v ∧ Q v) →
        ∃ s', execs C (K (cstepConds ptr optr ocur (.var i) none steps).2.1 (cstepConds ptr optr ocur (.var i) none steps).2.2) s = .ok s' ∧ P s' b') :
    ∀ (l ws : List (Val D)) (s : St D) (b b' : β),
      (∀ v ∈ l, MethTyped v (imethsCSteps steps)) → (∀ v ∈ l, Q v) →
      celemsSem QC vo steps l = .ok ws → foldG g ws b = .ok b' → P s b →
      ∃ s', iter (fun s v => execs C (cchainBody nm ptr optr ocur (.var i) steps n K).1 { s with env := s.env.set i v }) l s = .ok s' ∧ P s' b'
  | [], ws, s, b, b', _, _, he, hf, hP => by
    simp only [celemsSem, Except.ok.injEq] at he; subst he
    simp only [foldG, Except.ok.injEq] at hf; subst hf
    exact ⟨s, rfl, hP⟩
  | v :: vs, ws, s, b, b', hmt, hQ, he, hf, hP => by
    simp only [celemsSem] at he
    cases ho : celemSem QC vo steps v with
    | error e => rw [ho] at he; simp at he
    | ok o =>
      rw [ho] at he
      simp only [] at he
      cases hr : celemsSem QC vo steps vs with
      | error e => rw [hr] at he; simp at he
      | ok rs =>
        rw [hr] at he
        simp only [Except.ok.injEq] at he; subst he
        let s0 : St D := { s with env := s.env.set i v }
        have hP0 : P s0 b := hstable s s0 b hP rfl (fun y hy _ => by simp [s0, Env.set, hy])
        obtain ⟨s1, hr1, hfr1, hnone, hsome⟩ := cchainBody_correct C QC hN nm hinj ptr optr ocur vo i steps n hi hofr K s0 v o
          (by simp [s0, Env.set]) (hPo s0 b hP0) hwt (hmt v (by simp)) hmo ho
        have hP1 : P s1 b := hstable s0 s1 b hP0 hr1 (fun y _ hy => hfr1 y hy)
        rw [foldG_append] at hf
        cases o with
        | none =>
          simp only [Option.toList, foldG] at hf
          obtain ⟨s', hit, hP'⟩ := cloop_correct C QC hN nm hinj ptr optr ocur vo i steps n hi hofr K hwt hmo P g Q hPo hstable hK vs rs s1 b b'
            (fun u hu => hmt u (by simp [hu])) (fun u hu => hQ u (by simp [hu])) hr hf hP1
          refine ⟨s', ?_, hP'⟩
          simp only [iter]
          rw [show ({ s with env := s.env.set i v } : St D) = s0 from rfl, hnone rfl]
          exact hit
        | some w =>
          simp only [Option.toList, foldG] at hf
          cases hg : g b w with
          | error e => rw [hg] at hf; simp at hf
          | ok b1 =>
            rw [hg] at hf
            simp only [foldG] at hf
            obtain ⟨hex, hev, hty, hobj⟩ := hsome w rfl
            obtain ⟨s2, hK2, hP2⟩ := hK s1 b b1 w v hP1 hg hev hty (fun h => ⟨hobj h, hQ v (by simp)⟩)
            obtain ⟨s', hit, hP'⟩ := cloop_correct C QC hN nm hinj ptr optr ocur vo i steps n hi hofr K hwt hmo P g Q hPo hstable hK vs rs s2 b1 b'
              (fun u hu => hmt u (by simp [hu])) (fun u hu => hQ u (by simp [hu])) hr hf hP2
            refine ⟨s', ?_, hP'⟩
            simp only [iter]
            rw [show ({ s with env := s.env.set i v } : St D) = s0 from rfl, hex, hK2]
            exact hit

theorem ccompChain_next (B : Backend) (nm : Nat → String) (optr : Bool) (ocur : CExpr) (c : CChain) (n : Nat) (K : CExpr → Option Ty → List Stmt) :
    n + 3 ≤ (ccompChain B nm optr ocur c n K).next := by
  simp only [ccompChain]
  exact cchainBody_next_ge nm B.elemPtr optr ocur _ c.steps (n + 3) K

/-- **retrieval + loop** for one chain, with an abstract continuation. -/
theorem ccompChain_correct {β : Type} (C : Ctx D) (QC : QCtx D) (hN : QC.N = C.N)
    (B : Backend) (hB : BackendBase B) (nm : Nat → String)
    (hinj : ∀ i j, nm i = nm j → i = j) (hres : ∀ j, nm j ≠ "result")
    (optr : Bool) (ocur : CExpr) (vo : Val D) (n : Nat) (hofr : ∀ y ∈ vars ocur, (∀ j, n ≤ j → y ≠ nm j) ∧ y ≠ "result")
    (c : CChain) (htok : TokCChain B nm C c n) (K : CExpr → Option Ty → List Stmt)
    (cty : String) (l ws : List (Val D))
    (hcoll : B.collType c.coll = some cty) (hfind : C.ev.find c.bank = some (cty, .vec l))
    (hwt : wtCSteps none c.steps = true) (hmt : ∀ v ∈ l, MethTyped v (imethsCSteps c.steps)) (hmo : MethTyped vo (omethsCSteps c.steps))
    (P : St D → β → Prop) (g : β → Val D → Except Fault β) (Q : Val D → Prop) (hQ : ∀ v ∈ l, Q v)
    (hPo : ∀ (s : St D) b, P s b → evalE C.N s.env ocur = .ok vo)
    (hstable : ∀ (s s' : St D) b, P s b → s'.rows = s.rows →
        (∀ y, ¬ Touch nm n (ccompChain B nm optr ocur c n K).next y → s'.env y = s.env y) → P s' b)
    (hK : ∀ (s : St D) b b' w (v : Val D), P s b → g b w = .ok b' →
        evalE C.N s.env (cstepConds B.elemPtr optr ocur (.var (nm (n + 1))) none c.steps).2.1 = .ok w →
        (∀ t, (cstepConds B.elemPtr optr ocur (.var (nm (n + 1))) none c.steps).2.2 = some t → HasTy w t) →
        ((cstepConds B.elemPtr optr ocur (.var (nm (n + 1))) none c.steps).2.2 = none → w = v ∧ Q v) →
        ∃ s', execs C (K (cstepConds B.elemPtr optr ocur (.var (nm (n + 1))) none c.steps).2.1
                          (cstepConds B.elemPtr optr ocur (.var (nm (n + 1))) none c.steps).2.2) s = .ok s' ∧ P s' b')
    (s : St D) (b b' : β) (hx : (s.env (nm n)).isSome = true)
    (hel : celemsSem QC vo c.steps l = .ok ws) (hfold : foldG g ws b = .ok b') (hP : P s b) :
    ∃ s', execs C (ccompChain B nm optr ocur c n K).stmts s = .ok s' ∧ P s' b' := by
  have hnext := ccompChain_next B nm optr ocur c n K
  have hnext' : (ccompChain B nm optr ocur c n K).next = (cchainBody nm B.elemPtr optr ocur (.var (nm (n + 1))) c.steps (n + 3) K).2 := rfl
  -- after the retrieval block
  let σ2 : Env D := ((match B.resultInit with
      | none => s.env.declare "result"
      | some _ => s.env.set "result" (.int 0)).set "result" (.vec l)).set (nm n) (.vec l)
  have hblock : exec C (.block [.decl (B.handleTy cty) "result" B.resultInit,
        .retrieve B.how cty "result" (if B.how = "token" then .opaque "" else .str c.bank) (if B.how = "token" then nm (n + 2) else ""),
        .set (nm n) (.var "result")]) s = .ok ⟨σ2, s.rows⟩ := by
    have hreq : ∀ σ : Env D, retrReq C σ B.how cty (if B.how = "token" then .opaque "" else .str c.bank)
        (if B.how = "token" then nm (n + 2) else "") = .ok (.vec l) := by
      intro σ
      by_cases ht : B.how = "token"
      · have := htok ht
        rw [hcoll] at this
        simp [retrReq, ht, this, hfind]
      · simp [retrReq, ht, evalE, hfind]
    have hxr : nm n ≠ "result" := hres n
    rcases hB.resultInit with hi | hi
    · simp only [exec, execs, hi, hB.handleNotVec, σ2]
      simp [Env.declare, Env.set, hreq, evalE, hxr, hx]
      cases hsx : s.env (nm n) with
      | none => rw [hsx] at hx; simp at hx
      | some _ => simp
    · simp only [exec, execs, hi, σ2, evalE, castTo_plain C.N _ _ (hB.handlePlain cty)]
      simp [Env.set, hreq, evalE, hxr, hx]
      cases hsx : s.env (nm n) with
      | none => rw [hsx] at hx; simp at hx
      | some _ => simp
  have hσ2 : ∀ y, ¬ Touch nm n (ccompChain B nm optr ocur c n K).next y → σ2 y = s.env y := by
    intro y hy
    have h1 : y ≠ "result" := fun e => hy (Or.inr e)
    have h2 : y ≠ nm n := fun e => hy (Or.inl ⟨n, Nat.le_refl n, by omega, e⟩)
    simp only [σ2, Env.set, h2, if_false, h1]
    cases B.resultInit <;> simp [Env.declare, Env.set, h1]
  have hP2 : P ⟨σ2, s.rows⟩ b := hstable s ⟨σ2, s.rows⟩ b hP rfl hσ2
  have hcoll' : evalE C.N σ2 (.deref (.var (nm n))) = .ok (.vec l) := by
    simp [evalE, σ2, Env.set]
  -- the loop
  have hi : ∀ j, n + 3 ≤ j → nm (n + 1) ≠ nm j := fun j hj e => by have := hinj _ _ e; omega
  obtain ⟨s', hit, hP'⟩ := cloop_correct C QC hN nm hinj B.elemPtr optr ocur vo (nm (n + 1)) c.steps (n + 3) hi
    (fun y hy j hj => (hofr y hy).1 j (by omega)) K hwt hmo P g Q hPo
    (fun t t' b0 hPt hr hfr => hstable t t' b0 hPt hr (fun y hy => by
      apply hfr y
      · intro e; exact hy (Or.inl ⟨n + 1, by omega, by omega, e⟩)
      · rintro ⟨j, hj1, hj2, hj3⟩; exact hy (Or.inl ⟨j, by omega, by rw [hnext']; exact hj2, hj3⟩)))
    hK l ws ⟨σ2, s.rows⟩ b b' hmt hQ hel hfold hP2
  refine ⟨s', ?_, hP'⟩
  simp only [ccompChain, hcoll, Option.getD_some, execs]
  rw [hblock]
  simp only [exec, hcoll']
  rw [hit]


end FaxVerif.Gen
