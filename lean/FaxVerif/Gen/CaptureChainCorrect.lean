/-
Gen — correctness of 2-variable pure expressions and of the steps of a captured chain:
  * `ce_correct`: `compCE` evaluates, in any state where the inner current-value expression evaluates to `v` and the
    outer element expression to `vo`, to exactly what the query expression denotes with the inner parameter bound to `v`
    and the outer parameter to `vo` — values and faults alike — with the statically computed type;
  * `celem_correct`: for one inner element, the conditions / value threaded by `cstepConds` agree with what the element
    becomes in the query (`celemSem`), the outer element being fixed;
  * `cchainList_elems`, `cchainQ_ok`: the query's list-at-a-time meaning is the element-at-a-time one.
-/
import FaxVerif.Gen.CaptureSpec
import FaxVerif.Gen.QueryLemmas
namespace FaxVerif.Gen
open FaxVerif.Cpp FaxVerif.Linq
variable {D : Type}

/-- a one-variable expression reads its own parameter only -/
theorem peQ_get (C : QCtx D) (y : String) (ρ ρ' : LEnv D) (h : ρ.get y = ρ'.get y) :
    ∀ pe : PE, denote C ρ (peQ y pe) = denote C ρ' (peQ y pe)
  | .int _ => by simp [peQ, denote]
  | .dbl _ _ => by simp [peQ, denote]
  | .bool _ => by simp [peQ, denote]
  | .it => by simp [peQ, denote, h]
  | .meth _ _ => by simp [peQ, denote, h]
  | .bin _ a b => by simp only [peQ, denote, peQ_get C y ρ ρ' h a, peQ_get C y ρ ρ' h b]
  | .cmp _ a b => by simp only [peQ, denote, peQ_get C y ρ ρ' h a, peQ_get C y ρ ρ' h b]
  | .neg a => by simp only [peQ, denote, peQ_get C y ρ ρ' h a]
  | .not a => by simp only [peQ, denote, peQ_get C y ρ ρ' h a]

/-- a 2-variable expression reads the two parameters only -/
theorem ceQ_get (C : QCtx D) (x y : String) (ρ ρ' : LEnv D) (hx : ρ.get x = ρ'.get x) (hy : ρ.get y = ρ'.get y) :
    ∀ e : CE, denote C ρ (ceQ x y e) = denote C ρ' (ceQ x y e)
  | .inner p => by simp only [ceQ]; exact peQ_get C x ρ ρ' hx p
  | .outer p => by simp only [ceQ]; exact peQ_get C y ρ ρ' hy p
  | .bin _ a b => by simp only [ceQ, denote, ceQ_get C x y ρ ρ' hx hy a, ceQ_get C x y ρ ρ' hx hy b]
  | .cmp _ a b => by simp only [ceQ, denote, ceQ_get C x y ρ ρ' hx hy a, ceQ_get C x y ρ ρ' hx hy b]
  | .neg a => by simp only [ceQ, denote, ceQ_get C x y ρ ρ' hx hy a]
  | .not a => by simp only [ceQ, denote, ceQ_get C x y ρ ρ' hx hy a]

/-- in any environment whose outer parameter `y` holds `vo`, with the inner parameter bound to `v` on top -/
theorem ceQ_env (C : QCtx D) (v vo : Val D) (ρ : LEnv D) (hy : ρ.get "y" = some vo) (e : CE) :
    denote C (("t", v) :: ρ) (ceQ "t" "y" e) = cpeSem C vo v e := by
  unfold cpeSem
  apply ceQ_get
  · simp [LEnv.get]
  · have : ¬ ("t" : String) = "y" := by decide
    simp [LEnv.get, this, hy]

theorem vars_compCE (ptr : Bool) (cur : CExpr) (t : Ty) (optr : Bool) (ocur : CExpr) :
    ∀ e : CE, ∀ x ∈ vars (compCE ptr cur t optr ocur e), x ∈ vars cur ∨ x ∈ vars ocur
  | .inner p, x, h => Or.inl (vars_compPE ptr cur t p x (by simpa [compCE] using h))
  | .outer p, x, h => Or.inr (vars_compPE optr ocur .double p x (by simpa [compCE] using h))
  | .bin op a b, x, h => by
    simp only [compCE] at h
    split at h
    · simp only [vars, List.mem_append] at h
      rcases h with h | h
      · exact vars_compCE ptr cur t optr ocur a x h
      · exact vars_compCE ptr cur t optr ocur b x h
    · simp only [vars, List.mem_append] at h
      rcases h with h | h
      · exact vars_compCE ptr cur t optr ocur a x h
      · exact vars_compCE ptr cur t optr ocur b x h
  | .cmp _ a b, x, h => by
    simp only [compCE, vars, List.mem_append] at h
    rcases h with h | h
    · exact vars_compCE ptr cur t optr ocur a x h
    · exact vars_compCE ptr cur t optr ocur b x h
  | .neg a, x, h => by simp only [compCE, vars] at h; exact vars_compCE ptr cur t optr ocur a x h
  | .not a, x, h => by simp only [compCE, vars] at h; exact vars_compCE ptr cur t optr ocur a x h

/-- **2-variable pure expressions** — values, faults and types. -/
theorem ce_correct (C : QCtx D) (σ : Env D) (cur ocur : CExpr) (curTy : Option Ty) (ptr optr : Bool)
    (v vo : Val D)
    (hcur : evalE C.N σ cur = .ok v) (hocur : evalE C.N σ ocur = .ok vo) (hty : ∀ t, curTy = some t → HasTy v t) :
    ∀ e : CE, wtCE curTy e = true → MethTyped v (imethsCE e) → MethTyped vo (omethsCE e) →
      evalE C.N σ (compCE ptr cur (curT curTy) optr ocur e) = denote C [("t", v), ("y", vo)] (ceQ "t" "y" e) ∧
      ∀ w, denote C [("t", v), ("y", vo)] (ceQ "t" "y" e) = .ok w → HasTy w (tyCE (curT curTy) e)
  | .inner p, hw, hm, _ => by
    simp only [wtCE] at hw
    simpa [compCE, ceQ, tyCE, imethsCE] using pe_correct C σ cur curTy ptr v "t" [("y", vo)] hcur hty p hw (by simpa [imethsCE] using hm)
  | .outer p, hw, _, hmo => by
    simp only [wtCE] at hw
    have h := pe_correct C σ ocur none optr vo "y" [] hocur (by simp) p hw (by simpa [omethsCE] using hmo)
    have hg : denote C [("t", v), ("y", vo)] (peQ "y" p) = denote C [("y", vo)] (peQ "y" p) := by
      apply peQ_get
      have : ¬ ("t" : String) = "y" := by decide
      simp [LEnv.get, this]
    simp only [compCE, ceQ, tyCE, hg]
    exact h
  | .bin op a b, hw, hm, hmo => by
    simp only [wtCE, Bool.and_eq_true] at hw
    obtain ⟨⟨⟨hwa, hwb⟩, hna⟩, hnb⟩ := hw
    have iha := ce_correct C σ cur ocur curTy ptr optr v vo hcur hocur hty a hwa (fun p hp => hm p (by simp [imethsCE, hp])) (fun p hp => hmo p (by simp [omethsCE, hp]))
    have ihb := ce_correct C σ cur ocur curTy ptr optr v vo hcur hocur hty b hwb (fun p hp => hm p (by simp [imethsCE, hp])) (fun p hp => hmo p (by simp [omethsCE, hp]))
    by_cases hdiv : op = .div
    · subst hdiv
      simp only [compCE, ceQ, denote, AOp.str, tyCE, true_and]
      rw [← iha.1, ← ihb.1]
      cases hea : evalE C.N σ (compCE ptr cur (curT curTy) optr ocur a) with
      | error f => by_cases hj : (tyCE (curT curTy) a).join (tyCE (curT curTy) b) = .int <;> simp [hj, evalE, hea]
      | ok va =>
        have hta := iha.2 va (by rw [← iha.1]; exact hea)
        cases heb : evalE C.N σ (compCE ptr cur (curT curTy) optr ocur b) with
        | error f =>
          by_cases hj : (tyCE (curT curTy) a).join (tyCE (curT curTy) b) = .int
          · rcases hasTy_num hta hna with ⟨n, rfl, _⟩ | ⟨y, rfl, _⟩ <;> simp [hj, evalE, hea, heb, castTo, asD]
          · simp [hj, evalE, hea, heb]
        | ok vb =>
          have htb := ihb.2 vb (by rw [← ihb.1]; exact heb)
          have hd := div_num C.N va vb _ _ hta htb hna hnb
          simp only []
          refine ⟨?_, hd.2⟩
          rw [← hd.1]
          by_cases hj : (tyCE (curT curTy) a).join (tyCE (curT curTy) b) = .int
          · simp only [hj, and_self, if_true]
            rw [evalE_bin_arith _ _ _ (by simp) (by simp)]
            simp only [evalE, hea, heb]
            cases castTo C.N "double" va <;> rfl
          · simp only [hj, and_false, if_false]
            rw [evalE_bin_arith _ _ _ (by simp [AOp.str]) (by simp [AOp.str])]
            simp [hea, heb, AOp.str]
    · have hne : ¬ (op = .div ∧ (tyCE (curT curTy) a).join (tyCE (curT curTy) b) = .int) := fun h => hdiv h.1
      have hty' : tyCE (curT curTy) (.bin op a b) = (tyCE (curT curTy) a).join (tyCE (curT curTy) b) := by
        cases op <;> simp [tyCE] at hdiv ⊢
      simp only [compCE, hne, if_false, ceQ, denote, hty']
      rw [evalE_bin_arith _ _ _ (aop_not_logic op).1 (aop_not_logic op).2, ← iha.1, ← ihb.1]
      cases hea : evalE C.N σ (compCE ptr cur (curT curTy) optr ocur a) with
      | error f => simp
      | ok va =>
        cases heb : evalE C.N σ (compCE ptr cur (curT curTy) optr ocur b) with
        | error f => simp
        | ok vb =>
          have hta := iha.2 va (by rw [← iha.1]; exact hea)
          have htb := ihb.2 vb (by rw [← ihb.1]; exact heb)
          have := arith_num C.N op hdiv va vb _ _ hta htb hna hnb
          simp only []
          exact ⟨this.1, fun w hw => this.2 w (by rw [this.1]; exact hw)⟩
  | .cmp op a b, hw, hm, hmo => by
    simp only [wtCE, Bool.and_eq_true] at hw
    obtain ⟨⟨⟨hwa, hwb⟩, hna⟩, hnb⟩ := hw
    have iha := ce_correct C σ cur ocur curTy ptr optr v vo hcur hocur hty a hwa (fun p hp => hm p (by simp [imethsCE, hp])) (fun p hp => hmo p (by simp [omethsCE, hp]))
    have ihb := ce_correct C σ cur ocur curTy ptr optr v vo hcur hocur hty b hwb (fun p hp => hm p (by simp [imethsCE, hp])) (fun p hp => hmo p (by simp [omethsCE, hp]))
    simp only [compCE, ceQ, denote, tyCE]
    rw [evalE_bin_arith _ _ _ (cop_not_logic op).1 (cop_not_logic op).2, ← iha.1, ← ihb.1]
    cases hea : evalE C.N σ (compCE ptr cur (curT curTy) optr ocur a) with
    | error f => simp
    | ok va =>
      cases heb : evalE C.N σ (compCE ptr cur (curT curTy) optr ocur b) with
      | error f => simp
      | ok vb =>
        have hta := iha.2 va (by rw [← iha.1]; exact hea)
        have htb := ihb.2 vb (by rw [← ihb.1]; exact heb)
        simp only [true_and]
        exact cmp_num C.N op va vb _ _ hta htb hna hnb
  | .neg a, hw, hm, hmo => by
    simp only [wtCE, Bool.and_eq_true] at hw
    have iha := ce_correct C σ cur ocur curTy ptr optr v vo hcur hocur hty a hw.1 (fun p hp => hm p (by simpa [imethsCE] using hp)) (fun p hp => hmo p (by simpa [omethsCE] using hp))
    simp only [compCE, ceQ, denote, evalE, tyCE, ← iha.1]
    cases hea : evalE C.N σ (compCE ptr cur (curT curTy) optr ocur a) with
    | error f => simp
    | ok va =>
      have hta := iha.2 va (by rw [← iha.1]; exact hea)
      simp only [true_and]
      intro w hw'
      rcases hasTy_num hta hw.2 with ⟨n, rfl, ht⟩ | ⟨y, rfl, ht⟩
      · simp [unop] at hw'; subst hw'; simp [ht, HasTy]
      · simp [unop] at hw'; subst hw'; rcases ht with h | h <;> simp [h, HasTy]
  | .not a, hw, hm, hmo => by
    simp only [wtCE, Bool.and_eq_true, beq_iff_eq] at hw
    have iha := ce_correct C σ cur ocur curTy ptr optr v vo hcur hocur hty a hw.1 (fun p hp => hm p (by simpa [imethsCE] using hp)) (fun p hp => hmo p (by simpa [omethsCE] using hp))
    simp only [compCE, ceQ, denote, evalE, tyCE, ← iha.1]
    cases hea : evalE C.N σ (compCE ptr cur (curT curTy) optr ocur a) with
    | error f => simp
    | ok va =>
      have hta := iha.2 va (by rw [← iha.1]; exact hea)
      rw [hw.2] at hta
      obtain ⟨b, rfl⟩ := hasTy_bool hta
      simp [unop, asBool, HasTy]


theorem cstepConds_vars (ptr optr : Bool) (ocur : CExpr) : ∀ (steps : List CStep) (cur : CExpr) (curTy : Option Ty),
    (∀ c ∈ (cstepConds ptr optr ocur cur curTy steps).1, ∀ x ∈ vars c, x ∈ vars cur ∨ x ∈ vars ocur) ∧
    (∀ x ∈ vars (cstepConds ptr optr ocur cur curTy steps).2.1, x ∈ vars cur ∨ x ∈ vars ocur)
  | [], cur, curTy => by simp only [cstepConds]; exact ⟨fun c hc => by simp at hc, fun x hx => Or.inl hx⟩
  | .sel f :: rest, cur, curTy => by
    have ih := cstepConds_vars ptr optr ocur rest (compCE (ptr && curTy.isNone) cur (curTy.getD .double) optr ocur f) (some (tyCE (curTy.getD .double) f))
    have hv := vars_compCE (ptr && curTy.isNone) cur (curTy.getD .double) optr ocur f
    simp only [cstepConds]
    refine ⟨fun c hc x hx => ?_, fun x hx => ?_⟩
    · rcases ih.1 c hc x hx with h | h
      · exact hv x h
      · exact Or.inr h
    · rcases ih.2 x hx with h | h
      · exact hv x h
      · exact Or.inr h
  | .whr c :: rest, cur, curTy => by
    have ih := cstepConds_vars ptr optr ocur rest cur curTy
    simp only [cstepConds]
    refine ⟨?_, ih.2⟩
    intro c' hc' x hx
    rcases List.mem_cons.1 hc' with rfl | hc'
    · exact vars_compCE _ _ _ _ _ c x hx
    · exact ih.1 c' hc' x hx

theorem cstepConds_ty (ptr optr : Bool) (ocur : CExpr) : ∀ (steps : List CStep) (cur : CExpr) (curTy : Option Ty),
    (cstepConds ptr optr ocur cur curTy steps).2.2 = cchainTy curTy steps
  | [], _, _ => rfl
  | .sel f :: rest, cur, curTy => by simp only [cstepConds, cchainTy]; exact cstepConds_ty ptr optr ocur rest _ _
  | .whr c :: rest, cur, curTy => by simp only [cstepConds, cchainTy]; exact cstepConds_ty ptr optr ocur rest _ _

/-- **one inner element** — if the query sends the inner element `v` through the captured steps successfully (the outer
element being `vo`), the emitted conditions evaluate (lazily, in order) to "kept / dropped" accordingly, and for a kept
element the final value expression evaluates to the query's value, with its static type. -/
theorem celem_correct (C : QCtx D) (σ : Env D) (ptr optr : Bool) (ocur : CExpr) (vo : Val D)
    (hocur : evalE C.N σ ocur = .ok vo) :
    ∀ (steps : List CStep) (cur : CExpr) (curTy : Option Ty) (v : Val D) (o : Option (Val D)),
      evalE C.N σ cur = .ok v → (∀ t, curTy = some t → HasTy v t) →
      wtCSteps curTy steps = true → MethTyped v (imethsCSteps steps) → MethTyped vo (omethsCSteps steps) →
      celemSem C vo steps v = .ok o →
      (o = none → condsF C.N σ (cstepConds ptr optr ocur cur curTy steps).1 = .ok false) ∧
      (∀ w, o = some w → condsF C.N σ (cstepConds ptr optr ocur cur curTy steps).1 = .ok true ∧
          evalE C.N σ (cstepConds ptr optr ocur cur curTy steps).2.1 = .ok w ∧
          (∀ t, (cstepConds ptr optr ocur cur curTy steps).2.2 = some t → HasTy w t) ∧
          ((cstepConds ptr optr ocur cur curTy steps).2.2 = none → w = v ∧ curTy = none))
  | [], cur, curTy, v, o, hcur, hty, _, _, _, hs => by
    simp only [celemSem, Except.ok.injEq] at hs; subst hs
    simp only [cstepConds, condsF, hcur, reduceCtorEq, false_implies, true_and, Option.some.injEq]
    intro w hw; subst hw
    exact ⟨rfl, hty, fun h => ⟨rfl, h⟩⟩
  | .sel f :: rest, cur, curTy, v, o, hcur, hty, hwt, hm, hmo, hs => by
    simp only [wtCSteps, Bool.and_eq_true] at hwt
    simp only [celemSem, cpeSem] at hs
    have hpe := ce_correct C σ cur ocur curTy (ptr && curTy.isNone) optr v vo hcur hocur hty f hwt.1
      (fun p hp => hm p (by simp [imethsCSteps, hp])) (fun p hp => hmo p (by simp [omethsCSteps, hp]))
    cases hd : denote C [("t", v), ("y", vo)] (ceQ "t" "y" f) with
    | error e => rw [hd] at hs; simp at hs
    | ok w' =>
      rw [hd] at hs
      simp only [] at hs
      have hw'ty := hpe.2 w' hd
      have := celem_correct C σ ptr optr ocur vo hocur rest (compCE (ptr && curTy.isNone) cur (curT curTy) optr ocur f) (some (tyCE (curT curTy) f)) w' o
        (by rw [hpe.1]; exact hd) (fun t ht => by simp only [Option.some.injEq] at ht; subst ht; exact hw'ty)
        hwt.2 (methTyped_of_hasTy hw'ty _) (fun p hp => hmo p (by simp [omethsCSteps, hp])) hs
      simp only [cstepConds]
      refine ⟨this.1, fun w hw => ?_⟩
      obtain ⟨h1, h2, h3, h4⟩ := this.2 w hw
      refine ⟨h1, h2, h3, fun hn => ?_⟩
      have := (h4 hn).2
      simp at this
  | .whr c :: rest, cur, curTy, v, o, hcur, hty, hwt, hm, hmo, hs => by
    simp only [wtCSteps, Bool.and_eq_true, beq_iff_eq] at hwt
    simp only [celemSem, cpeSem] at hs
    have hpe := ce_correct C σ cur ocur curTy (ptr && curTy.isNone) optr v vo hcur hocur hty c hwt.1.1
      (fun p hp => hm p (by simp [imethsCSteps, hp])) (fun p hp => hmo p (by simp [omethsCSteps, hp]))
    cases hd : denote C [("t", v), ("y", vo)] (ceQ "t" "y" c) with
    | error e => rw [hd] at hs; simp at hs
    | ok r =>
      rw [hd] at hs
      simp only [] at hs
      have hev : evalE C.N σ (compCE (ptr && curTy.isNone) cur (curT curTy) optr ocur c) = .ok r := by rw [hpe.1]; exact hd
      cases hb : asBool C.N r with
      | none => rw [hb] at hs; simp at hs
      | some b =>
        rw [hb] at hs
        have hB : evalB C.N σ (compCE (ptr && curTy.isNone) cur (curT curTy) optr ocur c) = .ok b := evalB_of _ _ _ _ _ hev hb
        cases b with
        | false =>
          simp only [Except.ok.injEq] at hs; subst hs
          simp only [cstepConds, condsF]
          rw [show curTy.getD .double = curT curTy from rfl, hB]
          simp
        | true =>
          simp only [] at hs
          have := celem_correct C σ ptr optr ocur vo hocur rest cur curTy v o hcur hty hwt.2
            (fun p hp => hm p (by simp [imethsCSteps, hp])) (fun p hp => hmo p (by simp [omethsCSteps, hp])) hs
          simp only [cstepConds, condsF]
          rw [show curTy.getD .double = curT curTy from rfl, hB]
          simpa using this

/-! ## list-at-a-time = element-at-a-time (when the former succeeds) -/

/-- the query's own (list-at-a-time) meaning of the steps -/
def cchainList (C : QCtx D) (vo : Val D) : List CStep → List (Val D) → Except Fault (List (Val D))
  | [], l => .ok l
  | .sel f :: rest, l => match mapE (fun v => cpeSem C vo v f) l with
    | .error e => .error e
    | .ok r => cchainList C vo rest r
  | .whr c :: rest, l => match filterE C.N (fun v => cpeSem C vo v c) l with
    | .error e => .error e
    | .ok r => cchainList C vo rest r

theorem celemsSem_sel (C : QCtx D) (vo : Val D) (f : CE) (rest : List CStep) :
    ∀ (l l1 r : List (Val D)), mapE (fun v => cpeSem C vo v f) l = .ok l1 → celemsSem C vo rest l1 = .ok r →
      celemsSem C vo (.sel f :: rest) l = .ok r
  | [], l1, r, hm, he => by
    simp only [mapE, Except.ok.injEq] at hm; subst hm
    simpa [celemsSem] using he
  | v :: vs, l1, r, hm, he => by
    simp only [mapE] at hm
    cases hv : cpeSem C vo v f with
    | error e => rw [hv] at hm; simp at hm
    | ok w =>
      rw [hv] at hm
      simp only [] at hm
      cases hvs : mapE (fun v => cpeSem C vo v f) vs with
      | error e => rw [hvs] at hm; simp at hm
      | ok ws =>
        rw [hvs] at hm
        simp only [Except.ok.injEq] at hm; subst hm
        simp only [celemsSem] at he
        cases hw : celemSem C vo rest w with
        | error e => rw [hw] at he; simp at he
        | ok o =>
          rw [hw] at he
          simp only [] at he
          cases hr : celemsSem C vo rest ws with
          | error e => rw [hr] at he; simp at he
          | ok rs =>
            rw [hr] at he
            simp only [Except.ok.injEq] at he; subst he
            have ih := celemsSem_sel C vo f rest vs ws rs hvs hr
            simp [celemsSem, celemSem, hv, hw, ih]

theorem celemsSem_whr (C : QCtx D) (vo : Val D) (c : CE) (rest : List CStep) :
    ∀ (l l1 r : List (Val D)), filterE C.N (fun v => cpeSem C vo v c) l = .ok l1 → celemsSem C vo rest l1 = .ok r →
      celemsSem C vo (.whr c :: rest) l = .ok r
  | [], l1, r, hm, he => by
    simp only [filterE, Except.ok.injEq] at hm; subst hm
    simpa [celemsSem] using he
  | v :: vs, l1, r, hm, he => by
    simp only [filterE] at hm
    cases hv : cpeSem C vo v c with
    | error e => rw [hv] at hm; simp at hm
    | ok w =>
      rw [hv] at hm
      simp only [] at hm
      cases hb : asBool C.N w with
      | none => rw [hb] at hm; simp at hm
      | some b =>
        rw [hb] at hm
        simp only [] at hm
        cases hvs : filterE C.N (fun v => cpeSem C vo v c) vs with
        | error e => rw [hvs] at hm; simp at hm
        | ok ws =>
          rw [hvs] at hm
          simp only [Except.ok.injEq] at hm
          cases b with
          | false =>
            simp only [Bool.false_eq_true, if_false] at hm; subst hm
            have ih := celemsSem_whr C vo c rest vs ws r hvs he
            simp [celemsSem, celemSem, hv, hb, ih]
          | true =>
            simp only [if_true] at hm; subst hm
            simp only [celemsSem] at he
            cases hw : celemSem C vo rest v with
            | error e => rw [hw] at he; simp at he
            | ok o =>
              rw [hw] at he
              simp only [] at he
              cases hr : celemsSem C vo rest ws with
              | error e => rw [hr] at he; simp at he
              | ok rs =>
                rw [hr] at he
                simp only [Except.ok.injEq] at he; subst he
                have ih := celemsSem_whr C vo c rest vs ws rs hvs hr
                simp [celemsSem, celemSem, hv, hb, hw, ih]

theorem celemsSem_nil_steps (C : QCtx D) (vo : Val D) : ∀ l : List (Val D), celemsSem C vo [] l = .ok l
  | [] => rfl
  | v :: vs => by simp [celemsSem, celemSem, celemsSem_nil_steps C vo vs]

theorem cchainList_elems (C : QCtx D) (vo : Val D) : ∀ (steps : List CStep) (l r : List (Val D)),
    cchainList C vo steps l = .ok r → celemsSem C vo steps l = .ok r
  | [], l, r, h => by
    simp only [cchainList, Except.ok.injEq] at h; subst h; exact celemsSem_nil_steps C vo l
  | .sel f :: rest, l, r, h => by
    simp only [cchainList] at h
    cases hm : mapE (fun v => cpeSem C vo v f) l with
    | error e => rw [hm] at h; simp at h
    | ok l1 => rw [hm] at h; exact celemsSem_sel C vo f rest l l1 r hm (cchainList_elems C vo rest l1 r h)
  | .whr c :: rest, l, r, h => by
    simp only [cchainList] at h
    cases hm : filterE C.N (fun v => cpeSem C vo v c) l with
    | error e => rw [hm] at h; simp at h
    | ok l1 => rw [hm] at h; exact celemsSem_whr C vo c rest l l1 r hm (cchainList_elems C vo rest l1 r h)


/-! ## the query side of a captured chain -/

theorem cstepsQ_error (C : QCtx D) (ρ : LEnv D) (y : String) (e : Fault) : ∀ (steps : List CStep) (src : Query),
    denote C ρ src = .error e → denote C ρ (cstepsQ y src steps) = .error e
  | [], src, h => by simpa [cstepsQ] using h
  | .sel f :: rest, src, h => by
    simp only [cstepsQ]
    exact cstepsQ_error C ρ y e rest _ (by simp [denote, h])
  | .whr c :: rest, src, h => by
    simp only [cstepsQ]
    exact cstepsQ_error C ρ y e rest _ (by simp [denote, h])

/-- the chain's steps applied to a source that denotes the list `l` -/
theorem cstepsQ_denote (C : QCtx D) (ρ : LEnv D) (vo : Val D) (hy : ρ.get "y" = some vo) : ∀ (steps : List CStep) (src : Query) (l : List (Val D)),
    denote C ρ src = .ok (.vec l) →
    denote C ρ (cstepsQ "y" src steps) = (match cchainList C vo steps l with
      | .ok r => .ok (.vec r)
      | .error e => .error e)
  | [], src, l, h => by simpa [cstepsQ, cchainList] using h
  | .sel f :: rest, src, l, h => by
    simp only [cstepsQ, cchainList, capVar]
    have hf : mapE (fun v => denote C (("t", v) :: ρ) (ceQ "t" "y" f)) l = mapE (fun v => cpeSem C vo v f) l :=
      mapE_congr _ _ (fun v => ceQ_env C v vo ρ hy f) l
    cases hm : mapE (fun v => cpeSem C vo v f) l with
    | error e =>
      simp only []
      exact cstepsQ_error C ρ "y" e rest _ (by simp [denote, h, hf, hm])
    | ok r =>
      simp only []
      exact cstepsQ_denote C ρ vo hy rest _ r (by simp [denote, h, hf, hm])
  | .whr c :: rest, src, l, h => by
    simp only [cstepsQ, cchainList, capVar]
    have hf : filterE C.N (fun v => denote C (("t", v) :: ρ) (ceQ "t" "y" c)) l = filterE C.N (fun v => cpeSem C vo v c) l :=
      filterE_congr C.N _ _ (fun v => ceQ_env C v vo ρ hy c) l
    cases hm : filterE C.N (fun v => cpeSem C vo v c) l with
    | error e =>
      simp only []
      exact cstepsQ_error C ρ "y" e rest _ (by simp [denote, h, hf, hm])
    | ok r =>
      simp only []
      exact cstepsQ_denote C ρ vo hy rest _ r (by simp [denote, h, hf, hm])

theorem cstepsQ_nonvec (C : QCtx D) (ρ : LEnv D) (y : String) (x : Val D) (hx : ∀ l, x ≠ .vec l) :
    ∀ (steps : List CStep) (src : Query), denote C ρ src = .ok x →
      ∀ r, denote C ρ (cstepsQ y src steps) = .ok r → r = x
  | [], src, h, r, hr => by
    simp only [cstepsQ] at hr; rw [h] at hr; simp only [Except.ok.injEq] at hr; exact hr.symm
  | .sel f :: rest, src, h, r, hr => by
    simp only [cstepsQ] at hr
    have : denote C ρ (.select src capVar (ceQ capVar y f)) = .error (.typeErr "Select source is not a sequence") := by
      cases x with
      | vec l => exact absurd rfl (hx l)
      | _ => simp [denote, h]
    rw [cstepsQ_error C ρ y _ rest _ this] at hr; simp at hr
  | .whr c :: rest, src, h, r, hr => by
    simp only [cstepsQ] at hr
    have : denote C ρ (.where_ src capVar (ceQ capVar y c)) = .error (.typeErr "Where source is not a sequence") := by
      cases x with
      | vec l => exact absurd rfl (hx l)
      | _ => simp [denote, h]
    rw [cstepsQ_error C ρ y _ rest _ this] at hr; simp at hr

/-- If a captured chain denotes a value (the outer parameter holding `vo`), then the bank exists with the collection's container type, it
holds a list, and the value is the list of what the kept elements become. -/
theorem cchainQ_ok (C : QCtx D) (ρ : LEnv D) (ev : String) (vo : Val D) (hy : ρ.get "y" = some vo) (c : CChain) (ws : List (Val D))
    (h : denote C ρ (cchainQ ev "y" c) = .ok (.vec ws)) :
    ∃ cty l, C.collType c.coll = some cty ∧ C.ev.find c.bank = some (cty, .vec l) ∧
      celemsSem C vo c.steps l = .ok ws := by
  unfold cchainQ at h
  cases hs : denote C ρ (.coll (.var ev) c.coll c.bank) with
  | error e => rw [cstepsQ_error C ρ "y" e c.steps _ hs] at h; simp at h
  | ok src =>
    -- unfold the collection access
    simp only [denote] at hs
    cases hev : ρ.get ev with
    | none => rw [hev] at hs; simp at hs
    | some evv =>
      rw [hev] at hs
      simp only [] at hs
      cases hf : C.ev.find c.bank with
      | none => rw [hf] at hs; simp at hs
      | some p =>
        obtain ⟨have_, content⟩ := p
        rw [hf] at hs
        simp only [] at hs
        cases hct : C.collType c.coll with
        | none => rw [hct] at hs; simp at hs
        | some want =>
          rw [hct] at hs
          simp only [] at hs
          by_cases hw : want = have_
          · simp only [hw, if_true, Except.ok.injEq] at hs
            subst hs; subst hw
            -- the source must be a list, otherwise the first step (or the consumer) faults; we
            -- need it only when there is something to conclude: case on the content
            have hsrc : denote C ρ (.coll (.var ev) c.coll c.bank) = .ok content := by
              simp [denote, hev, hf, hct]
            cases content with
            | vec l =>
              rw [cstepsQ_denote C ρ vo hy c.steps _ l hsrc] at h
              cases hcl : cchainList C vo c.steps l with
              | error e => rw [hcl] at h; simp at h
              | ok r =>
                rw [hcl] at h
                simp only [Except.ok.injEq, Val.vec.injEq] at h
                subst h
                exact ⟨want, l, rfl, rfl, cchainList_elems C vo c.steps l r hcl⟩
            | _ =>
              exfalso
              have := cstepsQ_nonvec C ρ "y" _ (by intro l; simp) c.steps _ hsrc _ h
              simp at this
          · simp [hw] at hs


end FaxVerif.Gen
