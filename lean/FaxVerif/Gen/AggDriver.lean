/-
Driver of the general-Aggregate fragment (`Gen/Agg.lean`): JSON lines.
  {"op":"compileA","backend":b,"colls":[{"name","type","elem"}],"aq":{"cols":[{"name","e":GE}]},"events":[..]}
    -> the model's package as text (`Gen.compileA`), the model's own exec / denote(toQuery) on the events,
       "wtw": every column is inside the proved fragment (`wtGE`); "wt": moreover every aggregate exactly typed
  AE   = {"k":"int","v":n} | {"k":"dbl","v":"0.5"} | {"k":"acc"} | {"k":"it"} | {"k":"meth","n","ty"}
       | {"k":"bin","op","a":AE,"b":AE} | {"k":"neg","a":AE}
  SEED = {"k":"int","v":n} | {"k":"dbl","v":"0.0"}      (n / the literal may be negative: `-3`, `-0.5`)
  GE   = int / dbl / bool literal | {"k":"agg","c":CHAIN,"seed":SEED,"f":AE} | bin | cmp | neg | not
Run: lake env lean --run FaxVerif/Gen/AggDriver.lean
-/
import FaxVerif.Cpp.Json
import FaxVerif.Cpp.Check
import FaxVerif.Gen.Render
import FaxVerif.Gen.AggSpec
open Lean FaxVerif.Cpp FaxVerif.Linq FaxVerif.Gen

partial def decAE (j : Json) : Except String AE := do
  let k ← jstr j "k"
  match k with
  | "int" => pure (.int (← jint j "v").toNat)
  | "dbl" => let (m, e) ← decDbl j; pure (.dbl m e)
  | "acc" => pure .acc
  | "it" => pure .it
  | "meth" => pure (.meth (← jstr j "n") (decTy (← jstr j "ty")))
  | "bin" => pure (.bin (← decAOp (← jstr j "op")) (← decAE (← j.getObjVal? "a")) (← decAE (← j.getObjVal? "b")))
  | "neg" => pure (.neg (← decAE (← j.getObjVal? "a")))
  | o => throw s!"AE {o}"

def decSeed (j : Json) : Except String Seed := do
  let k ← jstr j "k"
  if k = "int" then
    let v ← jint j "v"
    pure (if v < 0 then .nint (-v).toNat else .int v.toNat)
  else if k = "dbl" then
    match parseDec (← jstr j "v") with
    | some (m, e) => pure (if m < 0 then .ndbl (-m).toNat e else .dbl m.toNat e)
    | none => throw "bad double"
  else throw s!"seed {k}"

partial def decGE (j : Json) : Except String GE := do
  let k ← jstr j "k"
  match k with
  | "int" => pure (.int (← jint j "v").toNat)
  | "dbl" => let (m, e) ← decDbl j; pure (.dbl m e)
  | "bool" => pure (.bool (← (← j.getObjVal? "v").getBool?))
  | "agg" => pure (.agg { c := (← decChain (← j.getObjVal? "c")), seed := (← decSeed (← j.getObjVal? "seed")),
                          body := (← decAE (← j.getObjVal? "f")) })
  | "bin" => pure (.bin (← decAOp (← jstr j "op")) (← decGE (← j.getObjVal? "a")) (← decGE (← j.getObjVal? "b")))
  | "cmp" => pure (.cmp (← decCOp (← jstr j "op")) (← decGE (← j.getObjVal? "a")) (← decGE (← j.getObjVal? "b")))
  | "neg" => pure (.neg (← decGE (← j.getObjVal? "a")))
  | "not" => pure (.not (← decGE (← j.getObjVal? "a")))
  | o => throw s!"GE {o}"

def decAQ (j : Json) : Except String AQ := do
  (← jarr j "cols").mapM fun c => do pure ((← jstr c "name"), (← decGE (← c.getObjVal? "e")))

def rowsJsonA (rows : List (List (Val Float))) : Json :=
  Json.mkObj [
    ("rows", Json.arr (rows.map fun r => Json.arr (r.map fun v => Json.str (showVal true v)).toArray).toArray),
    ("num", Json.arr (rows.map fun r => Json.arr (r.map fun v => Json.str (showVal false v)).toArray).toArray)]

def resJsonA : Except Fault (List (List (Val Float))) → Json
  | .ok rows => rowsJsonA rows
  | .error f => Json.mkObj [("fault", Json.str (faultClass f))]

def handleCompileA (j : Json) : Except String Json := do
  let colls ← (← jarr j "colls").mapM fun c => do pure ((← jstr c "name"), (← jstr c "type"), (← jstr c "elem"))
  let B := mkBackend (← jstr j "backend") colls
  let aq ← decAQ (← j.getObjVal? "aq")
  let P := compileA B nmLocal nmCol aq
  let evs ← (← jarr j "events").mapM decEvent
  let cts := colls.map fun c => (c.1, c.2.1)
  let jl (l : List String) := Json.arr (l.map Json.str).toArray
  let execs := evs.map fun ev => resJsonA ((runEvent P floatNum (classInit P.classVars) ev).map (·.1))
  let dens := evs.map fun ev => resJsonA (denoteRows { N := floatNum, ev := ev, collTypes := cts } (AQ.toQuery aq))
  let aggs := aq.flatMap fun p => aggsGE p.2
  -- "wtw": inside the theorems (`wtGE`: exact typing or the widened case, the latter over >= 1 kept element);
  -- "wt": all aggregates exactly typed (typed equality of rows on EVERY event)
  let wtw := aq.all fun p => wtGE p.2
  let wt := wtw && aggs.all fun g => aggExact g.seed.ty g.bodyTy
  pure (Json.mkObj [
    ("body", jl (renderS P.body)),
    ("class_decl", jl (P.classVars.map fun p => s!"{p.1} {p.2};")),
    ("branches", Json.arr (P.branches.map fun p => Json.mkObj [("name", p.1), ("var", p.2)]).toArray),
    ("tokens", Json.arr (P.tokens.map fun t => Json.mkObj [("token", t.1), ("type", t.2.1), ("bank", t.2.2)]).toArray),
    ("tree", P.tree),
    ("exec", Json.arr execs.toArray), ("denote", Json.arr dens.toArray),
    ("wt", Json.bool wt), ("wtw", Json.bool wtw),
    ("aggs", Json.arr (aggs.map fun g => Json.mkObj [
        ("seed", g.seed.ty.cpp), ("body", g.bodyTy.cpp), ("acc", g.accTy.cpp),
        ("base", Json.bool (wtAggBase g)), ("exact", Json.bool (aggExact g.seed.ty g.bodyTy)),
        ("widen", Json.bool (aggWiden g))]).toArray),
    ("wf", Json.bool (WellFormed P)), ("eventlocal", Json.bool (EventLocal P))])

def handleA (line : String) : String :=
  match Json.parse line with
  | .error e => (Json.mkObj [("bad", e)]).compress
  | .ok j =>
    let r : Except String Json := do
      let op ← jstr j "op"
      if op == "compileA" then handleCompileA j else throw s!"unknown op {op}"
    match r with
    | .ok j => j.compress
    | .error e => (Json.mkObj [("bad", e)]).compress

partial def loopIOA (h : IO.FS.Stream) (out : IO.FS.Stream) : IO Unit := do
  let line ← h.getLine
  if line.isEmpty then return ()
  let t := line.trimAscii.toString
  if !t.isEmpty then out.putStrLn (handleA t)
  loopIOA h out

def main : IO Unit := do
  let out ← IO.getStdout
  loopIOA (← IO.getStdin) out
  out.flush
