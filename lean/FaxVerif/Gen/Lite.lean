/-
Gen — a compositional model of the translator (DESIGN §3.3) for the fragment "F0-lite":

  * element-level *pure* expressions over the current sequence value (`PE`);
  * chains `coll(bank).{Select(f) | Where(c)}*` over an event collection (one loop, nested ifs);
  * event-level scalars built from constants, Count / Sum over chains and arithmetic (`EE`);
  * event-level rows:   ds.Select(e -> (col, …))      col = scalar `EE` or a chain (vector column);
  * element-level rows: ds.SelectMany(e -> chain).Select(x -> (pe, …)).

Chain length, expression size, number of columns and events are unbounded; loops are not nested.
`toQuery` embeds the fragment into the user-level `Linq.Query`; `compile` produces the `Package`
the real translator emits for it (tied to the implementation by text equality modulo renaming on
every run). Names come from a supply `nm : Nat → String` (locals) / `cn` (class-level columns).
No Mathlib; computable.
-/
import FaxVerif.Linq.Query
namespace FaxVerif.Gen
open FaxVerif.Cpp FaxVerif.Linq

inductive Ty where
  | int | float | double | bool
deriving Repr, DecidableEq, Inhabited

def Ty.cpp : Ty → String
  | .int => "int" | .float => "float" | .double => "double" | .bool => "bool"

/-- `most_accurate_type` on the priority table int < float < double (bool is refused by the code). -/
def Ty.join : Ty → Ty → Ty
  | .double, _ => .double
  | _, .double => .double
  | .float, _ => .float
  | _, .float => .float
  | a, _ => a

inductive AOp where | add | sub | mul | div
deriving Repr, DecidableEq, Inhabited
def AOp.str : AOp → String | .add => "+" | .sub => "-" | .mul => "*" | .div => "/"

inductive COp where | lt | le | gt | ge | eq | ne
deriving Repr, DecidableEq, Inhabited
def COp.str : COp → String | .lt => "<" | .le => "<=" | .gt => ">" | .ge => ">=" | .eq => "==" | .ne => "!="

/-- pure expressions over the current element `it` -/
inductive PE where
  | int (n : Nat)
  | dbl (m : Nat) (e : Int)
  | bool (b : Bool)
  | it
  | meth (name : String) (ty : Ty)      -- it.name(), with the declared return type
  | bin (op : AOp) (a b : PE)
  | cmp (op : COp) (a b : PE)
  | neg (a : PE)
  | not (a : PE)
deriving Repr, Inhabited

inductive Step where
  | sel (f : PE)
  | whr (c : PE)
deriving Repr, Inhabited

structure Chain where
  coll : String          -- collection name (e.Coll("bank"))
  bank : String
  steps : List Step
deriving Repr, Inhabited

/-- event-level scalar expressions -/
inductive EE where
  | int (n : Nat)
  | dbl (m : Nat) (e : Int)
  | bool (b : Bool)
  | count (c : Chain)
  | sum (c : Chain)
  | bin (op : AOp) (a b : EE)
  | cmp (op : COp) (a b : EE)
  | neg (a : EE)
  | not (a : EE)
deriving Repr, Inhabited

inductive Col where
  | scalar (e : EE)
  | seq (c : Chain)
  | first (c : Chain)      -- First() of a chain that ends in numbers, as a column
deriving Repr, Inhabited

inductive FQ where
  | eventRows (cols : List (String × Col))                 -- ds.Select(e -> {name: col, …})
  | elemRows (c : Chain) (cols : List (String × PE))       -- ds.SelectMany(e -> chain).Select(x -> {name: pe, …})
deriving Repr, Inhabited

/-! ## typing (what the translator computes for declared types and the int/int division cast) -/

def tyPE (cur : Ty) : PE → Ty
  | .int _ => .int
  | .dbl _ _ => .double
  | .bool _ => .bool
  | .it => cur
  | .meth _ ty => ty
  | .bin .div _ _ => .double
  | .bin _ a b => (tyPE cur a).join (tyPE cur b)
  | .cmp _ _ _ => .bool
  | .neg a => tyPE cur a
  | .not _ => .bool                 -- `not x` is a bool whatever the type of x (visit_UnaryOp, fix ea7911a)

/-- element type of a chain's value after its steps; objects are tracked as `none` -/
def chainTy : Option Ty → List Step → Option Ty
  | t, [] => t
  | t, .sel f :: rest => chainTy (some (tyPE (t.getD .double) f)) rest
  | t, .whr _ :: rest => chainTy t rest

def tyEE : EE → Ty
  | .int _ => .int
  | .dbl _ _ => .double
  | .bool _ => .bool
  | .count _ => .int
  | .sum c => Ty.join .int ((chainTy none c.steps).getD .double)
  | .bin .div _ _ => .double
  | .bin _ a b => (tyEE a).join (tyEE b)
  | .cmp _ _ _ => .bool
  | .neg a => tyEE a
  | .not _ => .bool

/-! ## embedding into user-level queries -/

def lamVar (k : Nat) : String := "x" ++ toString k

def peQ (x : String) : PE → Query
  | .int n => .int n
  | .dbl m e => .dbl m e
  | .bool b => .bool b
  | .it => .var x
  | .meth name _ => .meth (.var x) name
  | .bin op a b => .bin op.str (peQ x a) (peQ x b)
  | .cmp op a b => .cmp op.str (peQ x a) (peQ x b)
  | .neg a => .neg (peQ x a)
  | .not a => .not (peQ x a)

def stepsQ (src : Query) : List Step → Nat → Query
  | [], _ => src
  | .sel f :: rest, k => stepsQ (.select src (lamVar k) (peQ (lamVar k) f)) rest (k + 1)
  | .whr c :: rest, k => stepsQ (.where_ src (lamVar k) (peQ (lamVar k) c)) rest (k + 1)

def chainQ (ev : String) (c : Chain) : Query :=
  stepsQ (.coll (.var ev) c.coll c.bank) c.steps 0

def eeQ (ev : String) : EE → Query
  | .int n => .int n
  | .dbl m e => .dbl m e
  | .bool b => .bool b
  | .count c => .count (chainQ ev c)
  | .sum c => .sum (chainQ ev c)
  | .bin op a b => .bin op.str (eeQ ev a) (eeQ ev b)
  | .cmp op a b => .cmp op.str (eeQ ev a) (eeQ ev b)
  | .neg a => .neg (eeQ ev a)
  | .not a => .not (eeQ ev a)

def colQ (ev : String) : Col → Query
  | .scalar e => eeQ ev e
  | .seq c => chainQ ev c
  | .first c => .first (chainQ ev c)

def FQ.toQuery : FQ → Query
  | .eventRows cols => .select .ds "e" (.dict (cols.map (·.1)) (cols.map fun p => colQ "e" p.2))
  | .elemRows c cols => .select (.selectMany .ds "e" (chainQ "e" c)) "r"
      (.dict (cols.map (·.1)) (cols.map fun p => peQ "r" p.2))

/-! ## backends -/

structure Backend where
  name : String
  elemPtr : Bool                         -- elements of an event collection are pointers (ATLAS)
  handleTy : String → String             -- container type ↦ type of the variable holding it
  how : String                           -- retrieval idiom tag of `Stmt.retrieve`
  resultInit : Option CExpr              -- `T result = 0;` (ATLAS) / `Handle<T> result;`
  fillTree : String → String             -- tree name ↦ argument of the fill statement
  treeName : String
  collType : String → Option String      -- collection name ↦ container type
  elemType : String → Option String

/-! ## compilation -/

def decText (m : Nat) (e : Int) : String := toString m ++ "e" ++ toString e

def compPE (ptr : Bool) (cur : CExpr) (curTy : Ty) : PE → CExpr
  | .int n => .int n
  | .dbl m e => .dbl (decText m e) m e
  | .bool b => .bool b
  | .it => cur
  | .meth name _ => .mem cur ptr name []
  | .bin op a b =>
    let a' := compPE ptr cur curTy a
    let b' := compPE ptr cur curTy b
    if op = .div ∧ (tyPE curTy a).join (tyPE curTy b) = .int then .bin "/" (.cast "double" a') b'
    else .bin op.str a' b'
  | .cmp op a b => .bin op.str (compPE ptr cur curTy a) (compPE ptr cur curTy b)
  | .neg a => .un "-" (compPE ptr cur curTy a)
  | .not a => .un "!" (compPE ptr cur curTy a)

/-- Thread the current value through the steps: the conditions of the `Where`s (each compiled
against the value current at its position) in order, the final value and its type. -/
def stepConds (ptr : Bool) (cur : CExpr) (curTy : Option Ty) : List Step → List CExpr × CExpr × Option Ty
  | [] => ([], cur, curTy)
  | .sel f :: rest =>
    let t := curTy.getD .double
    stepConds ptr (compPE (ptr && curTy.isNone) cur t f) (some (tyPE t f)) rest
  | .whr c :: rest =>
    let t := curTy.getD .double
    let r := stepConds ptr cur curTy rest
    (compPE (ptr && curTy.isNone) cur t c :: r.1, r.2)

structure Frag where
  decls : List Stmt
  stmts : List Stmt
  next : Nat
deriving Inhabited

structure CondFrag where
  decls : List Stmt
  stmts : List Stmt
  val : CExpr
  next : Nat
deriving Inhabited

/-- func_adl fuses consecutive `Where`s into one `and`; the translator lowers `a and b` to
`bool r; r = a; if (r) { r = b; }` (nested for longer conjunctions, the outer result declared
first). `rc` is the list of conditions in REVERSE order (last condition first); it is non-empty. -/
def andLower (nm : Nat → String) : List CExpr → Nat → CondFrag
  | [], n => ⟨[], [], .bool true, n⟩
  | [c], n => ⟨[], [], c, n⟩
  | c :: rest, n =>
    let b := nm n
    let inner := andLower nm rest (n + 1)
    ⟨.decl "bool" b none :: inner.decls,
     inner.stmts ++ [.set b inner.val, .ite (.var b) [.set b c] []],
     .var b, inner.next⟩

/-- the loop body for a chain: the lowered conjunction of its conditions, then the continuation
applied to the final value inside one `if` -/
def chainBody (nm : Nat → String) (ptr : Bool) (it : CExpr) (steps : List Step) (n : Nat)
    (k : CExpr → Option Ty → List Stmt) : List Stmt × Nat :=
  let r := stepConds ptr it none steps
  match r.1 with
  | [] => (k r.2.1 r.2.2, n)
  | conds =>
    let cf := andLower nm conds.reverse n
    (cf.decls ++ cf.stmts ++ [.ite cf.val (k r.2.1 r.2.2) []], cf.next)

/-- retrieval of an event collection into `x`, then one loop over it -/
def compChain (B : Backend) (nm : Nat → String) (c : Chain) (n : Nat)
    (k : CExpr → Option Ty → List Stmt) : Frag :=
  let cty := (B.collType c.coll).getD "?"
  let x := nm n
  let i := nm (n + 1)
  let hty := B.handleTy cty
  let body := chainBody nm B.elemPtr (.var i) c.steps (n + 3) k
  { decls := [.decl hty x none],
    stmts := [
      .block [.decl hty "result" B.resultInit,
              .retrieve B.how cty "result" (if B.how = "token" then .opaque "" else .str c.bank) (if B.how = "token" then nm (n + 2) else ""),
              .set x (.var "result")],
      .loop i (.deref (.var x)) body.1],
    next := body.2 }

structure EFrag where
  decls : List Stmt
  stmts : List Stmt
  val : CExpr
  next : Nat
deriving Inhabited

def compEE (B : Backend) (nm : Nat → String) : EE → Nat → EFrag
  | .int v, n => ⟨[], [], .int v, n⟩
  | .dbl m e, n => ⟨[], [], .dbl (decText m e) m e, n⟩
  | .bool b, n => ⟨[], [], .bool b, n⟩
  | .count c, n =>
    let acc := nm n
    let f := compChain B nm c (n + 1) (fun _ _ => [.set acc (.bin "+" (.var acc) (.int 1))])
    ⟨f.decls ++ [.decl "int" acc (some (.int 0))], f.stmts, .var acc, f.next⟩
  | .sum c, n =>
    let acc := nm n
    let ty := Ty.join .int ((chainTy none c.steps).getD .double)
    let f := compChain B nm c (n + 1) (fun cur _ => [.set acc (.bin "+" (.var acc) cur)])
    ⟨f.decls ++ [.decl ty.cpp acc (some (.int 0))], f.stmts, .var acc, f.next⟩
  | .bin op a b, n =>
    let fa := compEE B nm a n
    let fb := compEE B nm b fa.next
    let v := if op = .div ∧ (tyEE a).join (tyEE b) = .int then CExpr.bin "/" (.cast "double" fa.val) fb.val
             else .bin op.str fa.val fb.val
    ⟨fa.decls ++ fb.decls, fa.stmts ++ fb.stmts, v, fb.next⟩
  | .cmp op a b, n =>
    let fa := compEE B nm a n
    let fb := compEE B nm b fa.next
    ⟨fa.decls ++ fb.decls, fa.stmts ++ fb.stmts, .bin op.str fa.val fb.val, fb.next⟩
  | .neg a, n => let fa := compEE B nm a n; ⟨fa.decls, fa.stmts, .un "-" fa.val, fa.next⟩
  | .not a, n => let fa := compEE B nm a n; ⟨fa.decls, fa.stmts, .un "!" fa.val, fa.next⟩

/-- per column: declarations, loop code, the statement executed after all loops (scalar set), the
clear, and the class-level declaration -/
structure ColFrag where
  decls : List Stmt
  stmts : List Stmt
  sets : List Stmt
  clears : List Stmt
  classVar : String × String
  next : Nat
deriving Inhabited

def compCol (B : Backend) (nm cn : Nat → String) (idx : Nat) (col : Col) (n : Nat) : ColFrag :=
  let v := cn idx
  match col with
  | .scalar e =>
    let f := compEE B nm e n
    ⟨f.decls, f.stmts, [.set v f.val], [], ((tyEE e).cpp, v), f.next⟩
  | .seq c =>
    let f := compChain B nm c n (fun cur _ => [.push v cur])
    let ety := ((chainTy none c.steps).getD .double).cpp
    ⟨f.decls, f.stmts, [], [.clear v], ("std::vector<" ++ ety ++ ">", v), f.next⟩
  | .first c =>
    -- `bool is_first (true);` outside the loop, the capture guarded inside, throw-if-still-first after
    let fl := nm n
    let f := compChain B nm c (n + 1) (fun cur _ => [.ite (.var fl) [.set fl (.bool false), .set v cur] []])
    let ety := ((chainTy none c.steps).getD .double).cpp
    ⟨f.decls ++ [.decl "bool" fl (some (.bool true))],
     f.stmts ++ [.ite (.var fl) [.throw "First() called on an empty sequence"] []],
     [], [], (ety, v), f.next⟩

def compCols (B : Backend) (nm cn : Nat → String) : List Col → Nat → Nat → List ColFrag
  | [], _, _ => []
  | c :: cs, idx, n =>
    let f := compCol B nm cn idx c n
    f :: compCols B nm cn cs (idx + 1) f.next

def tokensOf : List Stmt → List (String × String × String)
  | [] => []
  | .block [_, .retrieve "token" ty _ _ tok, _] :: rest => (tok, ty, "") :: tokensOf rest
  | _ :: rest => tokensOf rest

def setCols (cn : Nat → String) (ptr : Bool) (cur : CExpr) (curTy : Option Ty) : List PE → Nat → List Stmt
  | [], _ => []
  | pe :: rest, idx =>
    .set (cn idx) (compPE (ptr && curTy.isNone) cur (curTy.getD .double) pe) :: setCols cn ptr cur curTy rest (idx + 1)

def colVars (cn : Nat → String) (curTy : Option Ty) : List PE → Nat → List (String × String)
  | [], _ => []
  | pe :: rest, idx => ((tyPE (curTy.getD .double) pe).cpp, cn idx) :: colVars cn curTy rest (idx + 1)

def banksOf (B : Backend) : List Stmt → List String → List (String × String × String)
  | .block [_, .retrieve "token" ty _ _ tok, _] :: rest, b :: bs => (tok, ty, b) :: banksOf B rest bs
  | _ :: rest, bs => banksOf B rest bs
  | [], _ => []

def colBanks : List Col → List String
  | [] => []
  | .seq c :: rest => c.bank :: colBanks rest
  | .first c :: rest => c.bank :: colBanks rest
  | .scalar e :: rest => eeBanks e ++ colBanks rest
where eeBanks : EE → List String
  | .count c => [c.bank]
  | .sum c => [c.bank]
  | .bin _ a b => eeBanks a ++ eeBanks b
  | .cmp _ a b => eeBanks a ++ eeBanks b
  | .neg a => eeBanks a
  | .not a => eeBanks a
  | _ => []

def compile (B : Backend) (nm cn : Nat → String) : FQ → Package
  | .eventRows cols =>
    let fs := compCols B nm cn (cols.map (·.2)) 0 0
    let stmts := fs.flatMap (·.stmts)
    let toks := banksOf B stmts (colBanks (cols.map (·.2)))
    { body := .block (fs.flatMap (·.decls) ++ stmts ++ fs.flatMap (·.sets) ++
                      [.fill (B.fillTree B.treeName)] ++ fs.flatMap (·.clears)),
      classVars := toks.map (fun t => ("edm::EDGetTokenT<" ++ t.2.1 ++ ">", t.1)) ++ fs.map (·.classVar),
      branches := (cols.map (·.1)).zip (fs.map (·.classVar.2)),
      tree := B.treeName,
      tokens := toks }
  | .elemRows c cols =>
    let pes := cols.map (·.2)
    let f := compChain B nm c 0 (fun cur ty => setCols cn B.elemPtr cur ty pes 0 ++ [.fill (B.fillTree B.treeName)])
    let toks := banksOf B f.stmts [c.bank]
    let cvs := colVars cn (chainTy none c.steps) pes 0
    { body := .block (f.decls ++ f.stmts),
      classVars := toks.map (fun t => ("edm::EDGetTokenT<" ++ t.2.1 ++ ">", t.1)) ++ cvs,
      branches := (cols.map (·.1)).zip (cvs.map (·.2)),
      tree := B.treeName,
      tokens := toks }

end FaxVerif.Gen
