/-
Gen — the FAULT direction of the translator model, part 4: the column list of event-level rows and
the two end-to-end statements

  * `eventRows_fault`  `denoteRows (eventRows cols) = error f  →  runEvent (compile …) = error f'`
  * `elemRows_fault`   `denoteRows (elemRows c cols) = error f →  runEvent (compile …) = error f'`

with `f` and `f'` of the same class, on all three backends (`BackendBase`; the token hypothesis is
discharged by `tokCols_eventRows` / `tokChain_elemRows`), and the JOB-level consequence
(`jobFrom_stops`): a job whose events `pre` are defined and whose next event is undefined ends with
that event's fault, having written exactly the rows of `pre`.
-/
import FaxVerif.Gen.FaultCorrectCols
import FaxVerif.Gen.JobCorrect
namespace FaxVerif.Gen
open FaxVerif.Cpp FaxVerif.Linq
variable {D : Type}

/-! ## one column -/

def chainsCol : Col → List Chain
  | .scalar e => chainsEE e
  | .seq c => [c]
  | .first c => [c]

/-- what the fault direction assumes of a column beyond `ColHyp`: every bank, if present, is typed
(`BankTyped`), and every chain is `strictSteps` for its consumer — `Sum` / a vector column evaluate
the value of every kept element (`true`); `Count` never does and `First` only for the first kept
element (`false`: the body of the first `Select` must be forced by a later `Where`). -/
def ColFaultHyp (QC : QCtx D) : Col → Prop
  | .scalar e => eeStrict e = true ∧ ∀ c ∈ chainsEE e, BankTyped QC c
  | .seq c => strictSteps true c.steps = true ∧ BankTyped QC c
  | .first c => strictSteps false c.steps = true ∧ BankTyped QC c

/-- the query's fault `f` and the code's fault `f'` on a column: both come from the same chain of the
column (`ChainFaultRel`: `retrieveFailed` of its missing bank, or member faults of its bank's
elements), or the column is a `First()` over a sequence that is empty after its filters and both
are the loud "First of an empty sequence" (each side with its own message text). -/
def ColFaultRel (QC : QCtx D) (col : Col) (f f' : Fault) : Prop :=
  (∃ c ∈ chainsCol col, ChainFaultRel QC c f f') ∨
  (∃ c, col = .first c ∧ f = .loud "First of an empty sequence" ∧ f' = .loud firstMsg)

theorem compCol_fault_tok (C : Ctx D) (QC : QCtx D) (hN : QC.N = C.N) (hev : QC.ev = C.ev)
    (B : Backend) (hB : BackendBase B) (nm cn : Nat → String)
    (hinj : ∀ i j, nm i = nm j → i = j) (hres : ∀ j, nm j ≠ "result")
    (hcres : ∀ k, cn k ≠ "result") (hdisj : ∀ j k, nm j ≠ cn k)
    (hcollT : ∀ name, B.collType name = QC.collType name)
    (col : Col) (idx n : Nat) (htok : TokCol B nm C col n) (s : St D) (f : Fault)
    (hdone : DeclsDone C.N (compCol B nm cn idx col n).decls s.env)
    (hpre : ColPre col (cn idx) s.env) (hhyp : ColHyp QC col) (hfh : ColFaultHyp QC col)
    (hden : denote QC [("e", evtVal)] (colQ "e" col) = .error f) :
    ∃ f', execs C (compCol B nm cn idx col n).stmts s = .error f' ∧ ColFaultRel QC col f f' := by
  cases col with
  | scalar e =>
    obtain ⟨hwt, hct, hsn⟩ := hhyp
    obtain ⟨hst, hbt⟩ := hfh
    obtain ⟨f', h1, c, hc, h2⟩ := compEE_fault_tok C QC hN hev B hB nm hinj hres hcollT e n s f htok
      (by simpa [compCol] using hdone) hwt hct hsn hbt hst (by simpa [colQ] using hden)
    exact ⟨f', by simpa [compCol] using h1, Or.inl ⟨c, by simpa [chainsCol] using hc, h2⟩⟩
  | seq c =>
    obtain ⟨hwt, hct, _⟩ := hhyp
    obtain ⟨hst, hbt⟩ := hfh
    obtain ⟨f', h1, h2⟩ := seq_fault_tok C QC hN hev B hB nm cn hinj hres hcres hdisj hcollT c idx n htok s f hdone hpre
      hwt hst hct hbt (by simpa [colQ] using hden)
    exact ⟨f', h1, Or.inl ⟨c, by simp [chainsCol], h2⟩⟩
  | first c =>
    obtain ⟨hwt, hct, hbv⟩ := hhyp
    obtain ⟨hst, hbt⟩ := hfh
    simp only [colQ, denote] at hden
    cases hc : denote QC [("e", evtVal)] (chainQ "e" c) with
    | error e =>
      rw [hc] at hden; simp only [Except.error.injEq] at hden; subst hden
      obtain ⟨f', h1, h2⟩ := first_chain_fault_tok C QC hN hev B hB nm cn hinj hres hcres hdisj hcollT c idx n htok s e hdone hpre
        hwt hst hct hbt hc
      exact ⟨f', h1, Or.inl ⟨c, by simp [chainsCol], h2⟩⟩
    | ok cv =>
      obtain ⟨ws, rfl⟩ := chainQ_ok_vec QC c hbt cv hc
      rw [hc] at hden
      cases ws with
      | cons w rest => simp at hden
      | nil =>
        simp only [Except.error.injEq] at hden
        exact ⟨_, compCol_first_fault_tok C QC hN hev B hB nm cn hinj hres hcres hdisj hcollT c idx n htok s hdone hpre
          ⟨hwt, hct, hbv⟩ hc, Or.inr ⟨c, rfl, hden.symm, rfl⟩⟩

/-! ## the column list -/

/-- the columns `pre` are defined, the next one is undefined: the loops of the row run through `pre`
and the failing column's statements fault — the columns after it are not reached -/
theorem compCols_fault_tok (C : Ctx D) (QC : QCtx D) (hN : QC.N = C.N) (hev : QC.ev = C.ev)
    (B : Backend) (hB : BackendBase B) (nm cn : Nat → String)
    (hinj : ∀ i j, nm i = nm j → i = j) (hcinj : ∀ i j, cn i = cn j → i = j) (hres : ∀ j, nm j ≠ "result")
    (hcres : ∀ k, cn k ≠ "result") (hdisj : ∀ j k, nm j ≠ cn k)
    (hcollT : ∀ name, B.collType name = QC.collType name) (col : Col) (post : List Col) (f' : Fault)
    (hcol : ∀ (idx n : Nat) (s : St D), TokCol B nm C col n →
      DeclsDone C.N (compCol B nm cn idx col n).decls s.env → ColPre col (cn idx) s.env →
      execs C (compCol B nm cn idx col n).stmts s = .error f') :
    ∀ (pre : List Col) (idx n : Nat) (s : St D) (vs : List (Val D)),
      TokCols B nm cn C (pre ++ col :: post) idx n →
      DeclsDone C.N ((compCols B nm cn (pre ++ col :: post) idx n).flatMap (·.decls)) s.env →
      ColsPre cn (pre ++ col :: post) idx s.env → (∀ p ∈ pre, ColHyp QC p) →
      denotes QC [("e", evtVal)] (pre.map (colQ "e")) = .ok vs →
      execs C ((compCols B nm cn (pre ++ col :: post) idx n).flatMap (·.stmts)) s = .error f'
  | [], idx, n, s, _, htk, hdone, hpre, _, _ => by
    simp only [List.nil_append, compCols, List.flatMap_cons] at hdone ⊢
    simp only [List.nil_append, ColsPre] at hpre
    simp only [List.nil_append, TokCols] at htk
    rw [execs_append, hcol idx n s htk.1 (fun d hd => hdone d (by simp [hd])) hpre.1]
  | p :: pre, idx, n, s, vs, htk, hdone, hpre, hhyp, hden => by
    simp only [List.map_cons, denotes] at hden
    cases hd1 : denote QC [("e", evtVal)] (colQ "e" p) with
    | error e => rw [hd1] at hden; simp at hden
    | ok v =>
      rw [hd1] at hden; simp only [] at hden
      cases hd2 : denotes QC [("e", evtVal)] (pre.map (colQ "e")) with
      | error e => rw [hd2] at hden; simp at hden
      | ok vs' =>
        simp only [List.cons_append, compCols, List.flatMap_cons] at hdone ⊢
        simp only [List.cons_append, ColsPre] at hpre
        simp only [List.cons_append, TokCols] at htk
        obtain ⟨s1, hex1, _, _, hfr1⟩ := compCol_correct_tok C QC hN hev B hB nm cn hinj hres hcres hdisj hcollT p idx n htk.1 s v
          (fun d hd => hdone d (by simp [hd])) hpre.1 (hhyp p (by simp)) hd1
        have hrest_names : ∀ y, InRange nm (compCol B nm cn idx p n).next
            (colsNext B nm cn (pre ++ col :: post) (idx + 1) (compCol B nm cn idx p n).next) y →
            s1.env y = s.env y := by
          intro y hy
          apply hfr1 y
          · obtain ⟨j, _, _, hj⟩ := hy; rw [hj]; exact hdisj j idx
          · rintro (h | h)
            · exact inRange_disjoint hinj hy h
            · obtain ⟨j, _, _, hj⟩ := hy; exact hres j (hj ▸ h)
        have hcn_rest : ∀ k, idx + 1 ≤ k → s1.env (cn k) = s.env (cn k) := by
          intro k hk
          apply hfr1
          · intro e; have := hcinj _ _ e; omega
          · rintro (⟨j, _, _, hj⟩ | h)
            · exact hdisj j k hj.symm
            · exact hcres k h
        have hdone2 : DeclsDone C.N ((compCols B nm cn (pre ++ col :: post) (idx + 1) (compCol B nm cn idx p n).next).flatMap (·.decls)) s1.env :=
          DeclsDone.transport (fun d hd => hdone d (by simp [hd])) (compCols_declsIn B nm cn _ (idx + 1) _) hrest_names
        have ih := compCols_fault_tok C QC hN hev B hB nm cn hinj hcinj hres hcres hdisj hcollT col post f' hcol
          pre (idx + 1) _ s1 vs' htk.2 hdone2 (colsPre_stable cn _ (idx + 1) s.env s1.env hcn_rest hpre.2)
          (fun q hq => hhyp q (by simp [hq])) hd2
        rw [execs_append, hex1]
        exact ih

theorem denotes_map_error_split (QC : QCtx D) (ρ : LEnv D) (q : Col → Query) : ∀ (cs : List Col) (f : Fault),
    denotes QC ρ (cs.map q) = .error f →
    ∃ pre col post vs, cs = pre ++ col :: post ∧ denotes QC ρ (pre.map q) = .ok vs ∧ denote QC ρ (q col) = .error f
  | [], f, h => by simp [denotes] at h
  | c :: cs, f, h => by
    simp only [List.map_cons, denotes] at h
    cases h1 : denote QC ρ (q c) with
    | error e =>
      rw [h1] at h; simp only [Except.error.injEq] at h; subst h
      exact ⟨[], c, cs, [], rfl, rfl, h1⟩
    | ok v =>
      rw [h1] at h; simp only [] at h
      cases h2 : denotes QC ρ (cs.map q) with
      | ok vs => rw [h2] at h; simp at h
      | error e =>
        rw [h2] at h; simp only [Except.error.injEq] at h; subst h
        obtain ⟨pre, col, post, vs, hcs, hp, hc⟩ := denotes_map_error_split QC ρ q cs e h2
        exact ⟨c :: pre, col, post, v :: vs, by rw [hcs]; rfl, by simp [denotes, h1, hp], hc⟩

/-- an undefined event-level row: one of its columns is undefined -/
theorem eventRows_denote_error (QC : QCtx D) (cols : List (String × Col)) (f : Fault)
    (h : denoteRows QC (FQ.toQuery (.eventRows cols)) = .error f) :
    denotes QC [("e", evtVal)] ((cols.map (·.2)).map (colQ "e")) = .error f := by
  simp only [denoteRows, FQ.toQuery] at h
  rw [denote_select] at h
  simp only [denote, mapE] at h
  have hmap : cols.map (fun p => colQ "e" p.2) = (cols.map (·.2)).map (colQ "e") := by simp [List.map_map]
  rw [hmap] at h
  cases hd : denotes QC [("e", Val.obj "__event__" [])] ((cols.map (·.2)).map (colQ "e")) with
  | ok vs => rw [hd] at h; simp at h
  | error e =>
    rw [hd] at h
    simp only [Except.error.injEq] at h
    subst h
    simpa [evtVal] using hd

/-- **event-level rows, fault direction** — if the query is undefined on the event with fault `f`,
the emitted package fails on it with a fault `f'` of the same class (`ColFaultRel`, for the first
undefined column: on BOTH sides the columns are evaluated in order and arithmetic on numbers cannot
fault, so it is the same column and the same chain; within that chain the query meets member faults
step by step over the whole list, the loop element by element, so which member fault is reported
may differ). No row is written. -/
theorem eventRows_fault (B : Backend) (hB : BackendBase B) (nm cn : Nat → String)
    (hinj : ∀ i j, nm i = nm j → i = j) (hcinj : ∀ i j, cn i = cn j → i = j)
    (hres : ∀ j, nm j ≠ "result") (hcres : ∀ k, cn k ≠ "result") (hdisj : ∀ j k, nm j ≠ cn k)
    (QC : QCtx D) (hcollT : ∀ name, B.collType name = QC.collType name)
    (cols : List (String × Col)) (hhyp : ∀ p ∈ cols, ColHyp QC p.2) (hfh : ∀ p ∈ cols, ColFaultHyp QC p.2)
    (σc : Env D) (hσ : ColsPre cn (cols.map (·.2)) 0 σc) (f : Fault)
    (hden : denoteRows QC (FQ.toQuery (.eventRows cols)) = .error f) :
    ∃ f', runEvent (compile B nm cn (.eventRows cols)) QC.N σc QC.ev = .error f' ∧
      ∃ pre col post vs, cols.map (·.2) = pre ++ col :: post ∧
        denotes QC [("e", evtVal)] (pre.map (colQ "e")) = .ok vs ∧
        denote QC [("e", evtVal)] (colQ "e" col) = .error f ∧ ColFaultRel QC col f f' := by
  have hds := eventRows_denote_error QC cols f hden
  obtain ⟨pre, col, post, vs, hcs, hpre, hcolden⟩ := denotes_map_error_split QC _ (colQ "e") (cols.map (·.2)) f hds
  have hmem : col ∈ cols.map (·.2) := by rw [hcs]; simp
  obtain ⟨p0, hp0, hp0e⟩ := List.mem_map.1 hmem
  have hpremem : ∀ q ∈ pre, q ∈ cols.map (·.2) := fun q hq => by rw [hcs]; simp [hq]
  let fs := compCols B nm cn (cols.map (·.2)) 0 0
  let P := compile B nm cn (.eventRows cols)
  let C := P.ctx QC.N QC.ev
  obtain ⟨hsimple, hnodup⟩ := compCols_declsOK_base C B hB nm cn hinj (cols.map (·.2)) 0 0
  obtain ⟨sD, hexD, _, hdone, hfrD⟩ := exec_decls C (fs.flatMap (·.decls)) ⟨σc, []⟩ hsimple hnodup
  have hcnD : ∀ k, sD.env (cn k) = σc (cn k) := by
    intro k
    apply hfrD
    intro hm
    obtain ⟨j, _, _, hj⟩ := declsIn_names (compCols_declsIn B nm cn (cols.map (·.2)) 0 0) _ hm
    exact hdisj j k hj.symm
  have htk : TokCols B nm cn C (cols.map (·.2)) 0 0 := tokCols_eventRows B nm cn hinj cols QC.N QC.ev
  have hpreD : ColsPre cn (cols.map (·.2)) 0 sD.env := colsPre_stable cn _ 0 σc sD.env (fun k _ => hcnD k) hσ
  have hcolhyp : ColHyp QC col := by rw [← hp0e]; exact hhyp p0 hp0
  have hcolfh : ColFaultHyp QC col := by rw [← hp0e]; exact hfh p0 hp0
  -- the fault of the failing column does not depend on where it is compiled: fix it by one instance
  -- (all instances are of the same class; we take the one the run meets)
  have hdone' : DeclsDone C.N ((compCols B nm cn (pre ++ col :: post) 0 0).flatMap (·.decls)) sD.env := by
    rw [← hcs]; exact hdone
  have hpre' : ColsPre cn (pre ++ col :: post) 0 sD.env := by rw [← hcs]; exact hpreD
  have htk' : TokCols B nm cn C (pre ++ col :: post) 0 0 := by rw [← hcs]; exact htk
  have hprehyp : ∀ q ∈ pre, ColHyp QC q := by
    intro q hq
    obtain ⟨p, hp, hpe⟩ := List.mem_map.1 (hpremem q hq)
    rw [← hpe]; exact hhyp p hp
  -- run the prefix, reach the failing column with some state; its fault
  have hmain : ∃ f', execs C ((compCols B nm cn (pre ++ col :: post) 0 0).flatMap (·.stmts)) sD = .error f' ∧
      ColFaultRel QC col f f' := by
    -- generalise over the prefix
    have key : ∀ (pre' : List Col) (idx n : Nat) (s : St D) (vs' : List (Val D)),
        TokCols B nm cn C (pre' ++ col :: post) idx n →
        DeclsDone C.N ((compCols B nm cn (pre' ++ col :: post) idx n).flatMap (·.decls)) s.env →
        ColsPre cn (pre' ++ col :: post) idx s.env → (∀ q ∈ pre', ColHyp QC q) →
        denotes QC [("e", evtVal)] (pre'.map (colQ "e")) = .ok vs' →
        ∃ f', execs C ((compCols B nm cn (pre' ++ col :: post) idx n).flatMap (·.stmts)) s = .error f' ∧
          ColFaultRel QC col f f' := by
      intro pre'
      induction pre' with
      | nil =>
        intro idx n s _ htk hdone hpre _ _
        simp only [List.nil_append, compCols, List.flatMap_cons] at hdone ⊢
        simp only [List.nil_append, ColsPre] at hpre
        simp only [List.nil_append, TokCols] at htk
        obtain ⟨f', h1, h2⟩ := compCol_fault_tok C QC rfl rfl B hB nm cn hinj hres hcres hdisj hcollT col idx n htk.1 s f
          (fun d hd => hdone d (by simp [hd])) hpre.1 hcolhyp hcolfh hcolden
        exact ⟨f', by rw [execs_append, h1], h2⟩
      | cons q pre' ih =>
        intro idx n s vs' htk hdone hpre hhyp' hden'
        obtain ⟨v, vs'', hd1, hd2⟩ : ∃ v vs'', denote QC [("e", evtVal)] (colQ "e" q) = .ok v ∧
            denotes QC [("e", evtVal)] (pre'.map (colQ "e")) = .ok vs'' := by
          simp only [List.map_cons, denotes] at hden'
          cases hd1 : denote QC [("e", evtVal)] (colQ "e" q) with
          | error e => rw [hd1] at hden'; simp at hden'
          | ok v =>
            rw [hd1] at hden'; simp only [] at hden'
            cases hd2 : denotes QC [("e", evtVal)] (pre'.map (colQ "e")) with
            | error e => rw [hd2] at hden'; simp at hden'
            | ok vs'' => exact ⟨v, vs'', rfl, rfl⟩
        simp only [List.cons_append, compCols, List.flatMap_cons] at hdone ⊢
        simp only [List.cons_append, ColsPre] at hpre
        simp only [List.cons_append, TokCols] at htk
        obtain ⟨s1, hex1, _, _, hfr1⟩ := compCol_correct_tok C QC rfl rfl B hB nm cn hinj hres hcres hdisj hcollT q idx n htk.1 s v
          (fun d hd => hdone d (by simp [hd])) hpre.1 (hhyp' q (by simp)) hd1
        have hrest_names : ∀ y, InRange nm (compCol B nm cn idx q n).next
            (colsNext B nm cn (pre' ++ col :: post) (idx + 1) (compCol B nm cn idx q n).next) y →
            s1.env y = s.env y := by
          intro y hy
          apply hfr1 y
          · obtain ⟨j, _, _, hj⟩ := hy; rw [hj]; exact hdisj j idx
          · rintro (h | h)
            · exact inRange_disjoint hinj hy h
            · obtain ⟨j, _, _, hj⟩ := hy; exact hres j (hj ▸ h)
        have hcn_rest : ∀ k, idx + 1 ≤ k → s1.env (cn k) = s.env (cn k) := by
          intro k hk
          apply hfr1
          · intro e; have := hcinj _ _ e; omega
          · rintro (⟨j, _, _, hj⟩ | h)
            · exact hdisj j k hj.symm
            · exact hcres k h
        have hdone2 : DeclsDone C.N ((compCols B nm cn (pre' ++ col :: post) (idx + 1) (compCol B nm cn idx q n).next).flatMap (·.decls)) s1.env :=
          DeclsDone.transport (fun d hd => hdone d (by simp [hd])) (compCols_declsIn B nm cn _ (idx + 1) _) hrest_names
        obtain ⟨f', h1, h2⟩ := ih (idx + 1) _ s1 vs'' htk.2 hdone2
          (colsPre_stable cn _ (idx + 1) s.env s1.env hcn_rest hpre.2) (fun r hr => hhyp' r (by simp [hr])) hd2
        exact ⟨f', by rw [execs_append, hex1]; exact h1, h2⟩
    exact key pre 0 0 sD vs htk' hdone' hpre' hprehyp hpre
  obtain ⟨f', hfault, hrel⟩ := hmain
  rw [← hcs] at hfault
  refine ⟨f', ?_, pre, col, post, vs, hcs, hpre, hcolden, hrel⟩
  have hbody : P.body = .block (fs.flatMap (·.decls) ++ fs.flatMap (·.stmts) ++ fs.flatMap (·.sets) ++
      [.fill (B.fillTree B.treeName)] ++ fs.flatMap (·.clears)) := rfl
  show runEvent P QC.N σc QC.ev = _
  simp only [runEvent]
  rw [hbody]
  have : exec (P.ctx QC.N QC.ev) (.block (fs.flatMap (·.decls) ++ fs.flatMap (·.stmts) ++ fs.flatMap (·.sets) ++
      [.fill (B.fillTree B.treeName)] ++ fs.flatMap (·.clears))) ⟨σc, []⟩ = .error f' := by
    simp only [exec]
    rw [execs_append, execs_append, execs_append, execs_append, hexD]
    simp only []
    rw [hfault]
  rw [this]


/-- `eventRows_fault`, remembering only that the failing column is one of the row's columns -/
theorem eventRows_fault_mem (B : Backend) (hB : BackendBase B) (nm cn : Nat → String)
    (hinj : ∀ i j, nm i = nm j → i = j) (hcinj : ∀ i j, cn i = cn j → i = j)
    (hres : ∀ j, nm j ≠ "result") (hcres : ∀ k, cn k ≠ "result") (hdisj : ∀ j k, nm j ≠ cn k)
    (QC : QCtx D) (hcollT : ∀ name, B.collType name = QC.collType name)
    (cols : List (String × Col)) (hhyp : ∀ p ∈ cols, ColHyp QC p.2) (hfh : ∀ p ∈ cols, ColFaultHyp QC p.2)
    (σc : Env D) (hσ : ColsPre cn (cols.map (·.2)) 0 σc) (f : Fault)
    (hden : denoteRows QC (FQ.toQuery (.eventRows cols)) = .error f) :
    ∃ f', runEvent (compile B nm cn (.eventRows cols)) QC.N σc QC.ev = .error f' ∧
      ∃ p ∈ cols, ColFaultRel QC p.2 f f' := by
  obtain ⟨f', hrun, pre, col, post, vs, hcs, _, _, hrel⟩ :=
    eventRows_fault B hB nm cn hinj hcinj hres hcres hdisj QC hcollT cols hhyp hfh σc hσ f hden
  have hmem : col ∈ cols.map (·.2) := by rw [hcs]; simp
  obtain ⟨p0, hp0, hp0e⟩ := List.mem_map.1 hmem
  exact ⟨f', hrun, p0, hp0, by rw [hp0e]; exact hrel⟩

/-! ## element-level rows -/

theorem pesSem_error (QC : QCtx D) (w : Val D) : ∀ (pes : List PE) (e : Fault),
    pesSem QC w pes = .error e → ∃ pe ∈ pes, peSem QC w pe = .error e
  | [], e, h => by simp [pesSem] at h
  | pe :: rest, e, h => by
    simp only [pesSem] at h
    cases h1 : peSem QC w pe with
    | error e' => rw [h1] at h; simp only [Except.error.injEq] at h; subst h; exact ⟨pe, by simp, h1⟩
    | ok v =>
      rw [h1] at h; simp only [] at h
      cases h2 : pesSem QC w rest with
      | ok vs => rw [h2] at h; simp at h
      | error e' =>
        rw [h2] at h; simp only [Except.error.injEq] at h; subst h
        obtain ⟨q, hq, hf⟩ := pesSem_error QC w rest e' h2
        exact ⟨q, by simp [hq], hf⟩

theorem pesSem_total (QC : QCtx D) (t : Ty) (w : Val D) (hw : HasTy w t) : ∀ (pes : List PE),
    (∀ pe ∈ pes, wtPE (some t) pe = true) → ∃ vs, pesSem QC w pes = .ok vs
  | [], _ => ⟨[], rfl⟩
  | pe :: rest, h => by
    obtain ⟨v, hv⟩ := peQ_total QC t w "x" [] hw pe (h pe (by simp))
    obtain ⟨vs, hvs⟩ := pesSem_total QC t w hw rest (fun q hq => h q (by simp [hq]))
    exact ⟨v :: vs, by simp [pesSem, peSem, hv, hvs]⟩

/-- a column expression faults on the (kept) element: the assignments before it are executed, then
its own assignment raises exactly that fault; the `Fill` is not reached -/
theorem setCols_fault (C : Ctx D) (QC : QCtx D) (hN : QC.N = C.N) (cn : Nat → String)
    (hcinj : ∀ i j, cn i = cn j → i = j) (ptr : Bool) (cur : CExpr) (ty : Option Ty) (w : Val D)
    (hcv : ∀ x ∈ vars cur, ∀ k, x ≠ cn k) (hty : ∀ t, ty = some t → HasTy w t) (tail : List Stmt) :
    ∀ (pes : List PE) (idx : Nat) (s : St D) (e : Fault),
      evalE C.N s.env cur = .ok w →
      (∀ pe ∈ pes, wtPE ty pe = true) → (∀ pe ∈ pes, MethTyped w (methsPE pe)) →
      (∀ k, idx ≤ k → k < idx + pes.length → (s.env (cn k)).isSome = true) →
      pesSem QC w pes = .error e →
      execs C (setCols cn ptr cur ty pes idx ++ tail) s = .error e
  | [], _, _, e, _, _, _, _, hr => by simp [pesSem] at hr
  | pe :: rest, idx, s, e, hcur, hwt, hmt, hdecl, hr => by
    simp only [pesSem] at hr
    have hpe := pe_correct QC s.env cur ty (ptr && ty.isNone) w "x" [] (by rw [hN]; exact hcur) hty pe
      (hwt pe (by simp)) (hmt pe (by simp))
    have hd := hdecl idx (Nat.le_refl _) (by simp)
    cases h1 : peSem QC w pe with
    | error e' =>
      rw [h1] at hr; simp only [Except.error.injEq] at hr; subst hr
      have hev : evalE C.N s.env (compPE (ptr && ty.isNone) cur (ty.getD .double) pe) = .error e' := by
        rw [← hN]; rw [show ty.getD .double = curT ty from rfl, hpe.1]; exact h1
      simp only [setCols, List.cons_append, execs, exec]
      cases hs : s.env (cn idx) with
      | none => rw [hs] at hd; simp at hd
      | some sl => simp only [hev]
    | ok v =>
      rw [h1] at hr; simp only [] at hr
      cases h2 : pesSem QC w rest with
      | ok vs => rw [h2] at hr; simp at hr
      | error e' =>
        rw [h2] at hr; simp only [Except.error.injEq] at hr; subst hr
        have hev : evalE C.N s.env (compPE (ptr && ty.isNone) cur (ty.getD .double) pe) = .ok v := by
          rw [← hN]; rw [show ty.getD .double = curT ty from rfl, hpe.1]; exact h1
        let s1 : St D := { s with env := s.env.set (cn idx) v }
        have hcur1 : evalE C.N s1.env cur = .ok w := by
          rw [← hcur]
          apply evalE_congr
          intro x hx
          simp [s1, Env.set, hcv x hx idx]
        have ih := setCols_fault C QC hN cn hcinj ptr cur ty w hcv hty tail rest (idx + 1) s1 e' hcur1
          (fun p hp => hwt p (by simp [hp])) (fun p hp => hmt p (by simp [hp]))
          (fun k hk1 hk2 => by
            have hne : cn k ≠ cn idx := fun e => by have := hcinj _ _ e; omega
            simp only [s1, Env.set, hne, if_false]
            exact hdecl k (by omega) (by simp only [List.length_cons]; omega))
          h2
        simp only [setCols, List.cons_append, execs, exec]
        cases hs : s.env (cn idx) with
        | none => rw [hs] at hd; simp at hd
        | some sl => simp only [hev]; exact ih

/-- the (inlined) value expression faults and some column mentions the value: the closed columns
before it are assigned, the first column that mentions it raises the fault -/
theorem setCols_forced (C : Ctx D) (QC : QCtx D) (hN : QC.N = C.N) (cn : Nat → String)
    (hcinj : ∀ i j, cn i = cn j → i = j) (ptr : Bool) (cur : CExpr) (t : Ty) (e : Fault)
    (hcv : ∀ x ∈ vars cur, ∀ k, x ≠ cn k) (tail : List Stmt) :
    ∀ (pes : List PE) (idx : Nat) (s : St D),
      evalE C.N s.env cur = .error e →
      (∀ pe ∈ pes, wtPE (some t) pe = true) →
      (∀ k, idx ≤ k → k < idx + pes.length → (s.env (cn k)).isSome = true) →
      (∃ pe ∈ pes, usesIt pe = true) →
      execs C (setCols cn ptr cur (some t) pes idx ++ tail) s = .error e
  | [], _, _, _, _, _, hex => by obtain ⟨_, h, _⟩ := hex; simp at h
  | pe :: rest, idx, s, hcur, hwt, hdecl, hex => by
    have hd := hdecl idx (Nat.le_refl _) (by simp)
    by_cases hu : usesIt pe = true
    · have hev := compPE_cur_error QC s.env (ptr && (some t).isNone) cur t e (by rw [hN]; exact hcur) pe (hwt pe (by simp)) hu
      rw [hN] at hev
      simp only [setCols, List.cons_append, execs, exec, Option.getD_some]
      cases hs : s.env (cn idx) with
      | none => rw [hs] at hd; simp at hd
      | some sl => simp only [hev]
    · have hu' : usesIt pe = false := by simpa using hu
      obtain ⟨v, hev, _⟩ := compPE_closed_ok QC s.env (ptr && (some t).isNone) cur t pe (hwt pe (by simp)) hu'
      rw [hN] at hev
      let s1 : St D := { s with env := s.env.set (cn idx) v }
      have hcur1 : evalE C.N s1.env cur = .error e := by
        rw [← hcur]
        apply evalE_congr
        intro x hx
        simp [s1, Env.set, hcv x hx idx]
      have hex' : ∃ q ∈ rest, usesIt q = true := by
        obtain ⟨q, hq, hqu⟩ := hex
        rcases List.mem_cons.1 hq with rfl | hq
        · rw [hu'] at hqu; simp at hqu
        · exact ⟨q, hq, hqu⟩
      have ih := setCols_forced C QC hN cn hcinj ptr cur t e hcv tail rest (idx + 1) s1 hcur1
        (fun p hp => hwt p (by simp [hp]))
        (fun k hk1 hk2 => by
          have hne : cn k ≠ cn idx := fun e => by have := hcinj _ _ e; omega
          simp only [s1, Env.set, hne, if_false]
          exact hdecl k (by omega) (by simp only [List.length_cons]; omega))
        hex'
      simp only [setCols, List.cons_append, execs, exec, Option.getD_some]
      cases hs : s.env (cn idx) with
      | none => rw [hs] at hd; simp at hd
      | some sl => simp only [hev]; exact ih

theorem chainTy_some (steps : List Step) : ∀ t : Ty, ∃ t', chainTy (some t) steps = some t' := by
  induction steps with
  | nil => intro t; exact ⟨t, rfl⟩
  | cons st rest ih =>
    intro t
    cases st with
    | sel g => simp only [chainTy]; exact ih _
    | whr c => simp only [chainTy]; exact ih _

/-- a chain without `Select` (its value is still the object) only filters -/
theorem chainList_noSel_sub (QC : QCtx D) : ∀ (steps : List Step) (l ws : List (Val D)),
    chainTy none steps = none → chainList QC steps l = .ok ws → ∀ w ∈ ws, w ∈ l
  | [], l, ws, _, h, w, hw => by simp only [chainList, Except.ok.injEq] at h; subst h; exact hw
  | .sel g :: rest, l, ws, ht, _, _, _ => by
    simp only [chainTy] at ht
    obtain ⟨t', h'⟩ := chainTy_some rest (tyPE ((none : Option Ty).getD .double) g)
    rw [h'] at ht; simp at ht
  | .whr c :: rest, l, ws, ht, h, w, hw => by
    simp only [chainTy] at ht
    simp only [chainList] at h
    cases hd : filterE QC.N (fun v => peSem QC v c) l with
    | error e => rw [hd] at h; simp at h
    | ok l1 =>
      rw [hd] at h
      exact filterE_ok_sub QC.N _ l l1 hd w (chainList_noSel_sub QC rest l1 ws ht h w hw)

/-- the consumer of element-level rows: one more row -/
def rowsG (QC : QCtx D) (pes : List PE) : List (List (Val D)) → Val D → Except Fault (List (List (Val D))) :=
  fun a w => match pesSem QC w pes with
    | .ok row => .ok (a ++ [row])
    | .error e => .error e

theorem foldG_rows_error (QC : QCtx D) (pes : List PE) : ∀ (ws : List (Val D)) (acc : List (List (Val D))) (f : Fault),
    foldG (rowsG QC pes) ws acc = .error f → ∃ w ∈ ws, pesSem QC w pes = .error f
  | [], acc, f, h => by simp [foldG] at h
  | w :: ws, acc, f, h => by
    simp only [foldG, rowsG] at h
    cases h1 : pesSem QC w pes with
    | error e => rw [h1] at h; simp only [Except.error.injEq] at h; subst h; exact ⟨w, by simp, h1⟩
    | ok row =>
      rw [h1] at h; simp only [] at h
      obtain ⟨u, hu, hf⟩ := foldG_rows_error QC pes ws _ f h
      exact ⟨u, by simp [hu], hf⟩

theorem mapE_rows_error (QC : QCtx D) (names : List String) (pes : List PE) : ∀ (ws : List (Val D)) (f : Fault),
    mapE (fun v => denote QC [("r", v)] (.dict names (pes.map (peQ "r")))) ws = .error f →
    ∀ acc, foldG (rowsG QC pes) ws acc = .error f
  | [], f, h, _ => by simp [mapE] at h
  | w :: ws, f, h, acc => by
    rw [mapE, dict_denote] at h
    simp only [foldG, rowsG]
    cases h1 : pesSem QC w pes with
    | error e => rw [h1] at h; simp only [Except.error.injEq] at h; subst h; rfl
    | ok vs =>
      rw [h1] at h; simp only [] at h ⊢
      cases h2 : mapE (fun v => denote QC [("r", v)] (.dict names (pes.map (peQ "r")))) ws with
      | ok r => rw [h2] at h; simp at h
      | error e =>
        rw [h2] at h; simp only [Except.error.injEq] at h; subst h
        exact mapE_rows_error QC names pes ws e h2 _

/-- an undefined element-level query: the chain is undefined, or a column is undefined on a kept element -/
theorem elemRows_denote_error (QC : QCtx D) (c : Chain) (cols : List (String × PE)) (hbt : BankTyped QC c) (f : Fault)
    (h : denoteRows QC (FQ.toQuery (.elemRows c cols)) = .error f) :
    denote QC [("e", evtVal)] (chainQ "e" c) = .error f ∨
    ∃ ws, denote QC [("e", evtVal)] (chainQ "e" c) = .ok (.vec ws) ∧
      foldG (rowsG QC (cols.map (·.2))) ws [] = .error f := by
  simp only [denoteRows, FQ.toQuery] at h
  have hmap : cols.map (fun p => peQ "r" p.2) = (cols.map (·.2)).map (peQ "r") := by simp [List.map_map]
  rw [hmap, denote_select, denote_selectMany_ds] at h
  cases hc : denote QC [("e", evtVal)] (chainQ "e" c) with
  | error e => rw [hc] at h; simp only [Except.error.injEq] at h; subst h; exact Or.inl rfl
  | ok cv =>
    obtain ⟨ws, rfl⟩ := chainQ_ok_vec QC c hbt cv hc
    rw [hc] at h
    simp only [List.append_nil] at h
    right
    refine ⟨ws, rfl, ?_⟩
    cases hm : mapE (fun v => denote QC [("r", v)] (.dict (cols.map (·.1)) ((cols.map (·.2)).map (peQ "r")))) ws with
    | ok r => rw [hm] at h; simp at h
    | error e =>
      rw [hm] at h; simp only [Except.error.injEq] at h; subst h
      exact mapE_rows_error QC _ _ ws e hm []

/-- the methods the column expressions of element-level rows call -/
def methsCols (cols : List (String × PE)) : List (String × Ty) := cols.flatMap (fun p => methsPE p.2)

/-- **element-level rows, fault direction** — if the query is undefined on the event with fault `f`
(missing bank; a member call faults on some element in a `Where` condition, a `Select` body or a
column), the emitted package fails on the event with a fault `f'` of the same class; the rows of
the elements before the faulting one are not returned. `hst`: the chain's first `Select` is forced
by what follows it — ultimately by a column that mentions the value. -/
theorem elemRows_fault (B : Backend) (hB : BackendBase B) (nm cn : Nat → String)
    (hinj : ∀ i j, nm i = nm j → i = j) (hcinj : ∀ i j, cn i = cn j → i = j)
    (hres : ∀ j, nm j ≠ "result") (hcres : ∀ k, cn k ≠ "result") (hdisj : ∀ j k, nm j ≠ cn k)
    (QC : QCtx D) (hcollT : ∀ name, B.collType name = QC.collType name)
    (c : Chain) (cols : List (String × PE))
    (hwt : wtSteps none c.steps = true)
    (hwtc : ∀ p ∈ cols, wtPE (chainTy none c.steps) p.2 = true)
    (hmt : ∀ cty l, QC.ev.find c.bank = some (cty, .vec l) →
        ∀ v ∈ l, MethTyped v (methsSteps c.steps) ∧ ∀ p ∈ cols, MethTyped v (methsPE p.2))
    (hbt : BankTyped QC c)
    (hst : strictSteps (cols.any (fun p => usesIt p.2)) c.steps = true)
    (σc : Env D) (hσ : ∀ k, k < cols.length → (σc (cn k)).isSome = true) (f : Fault)
    (hden : denoteRows QC (FQ.toQuery (.elemRows c cols)) = .error f) :
    ∃ f', runEvent (compile B nm cn (.elemRows c cols)) QC.N σc QC.ev = .error f' ∧
      ChainFaultRelM QC c (methsSteps c.steps ++ methsCols cols) f f' := by
  have hf := elemRows_denote_error QC c cols hbt f hden
  have hmsub : ∀ p ∈ cols, ∀ q ∈ methsPE p.2, q ∈ methsSteps c.steps ++ methsCols cols := by
    intro p hp q hq
    simp only [List.mem_append, methsCols, List.mem_flatMap]
    exact Or.inr ⟨p, hp, hq⟩
  let pes := cols.map (·.2)
  let m := cols.length
  let K : CExpr → Option Ty → List Stmt := fun cur ty => setCols cn B.elemPtr cur ty pes 0 ++ [.fill (B.fillTree B.treeName)]
  let P := compile B nm cn (.elemRows c cols)
  let C := P.ctx QC.N QC.ev
  have hCcols : C.cols = colNames cn m 0 := by
    simp only [C, Package.ctx, P, compile]
    rw [zip_map_snd _ _ (by simp [colVars_names, colNames_length])]
    rw [colVars_names]; simp [m]
  have hbody : P.body = .block ((compChain B nm c 0 K).decls ++ (compChain B nm c 0 K).stmts) := rfl
  let s1 : St D := ⟨σc.declare (nm 0), []⟩
  have hdecl : execs C (compChain B nm c 0 K).decls ⟨σc, []⟩ = .ok s1 := by
    simp [compChain, execs, exec, hB.handleNotVec, s1]
  let Pinv : St D → List (List (Val D)) → Prop := fun s _ => ∀ k, k < m → (s.env (cn k)).isSome = true
  have htok : TokChain B nm C c 0 := tokChain_elemRows B nm cn c cols QC.N QC.ev K rfl
  have htyeq := stepConds_ty B.elemPtr c.steps (.var (nm 1)) none
  have hcurv : ∀ x ∈ vars (stepConds B.elemPtr (.var (nm (0 + 1))) none c.steps).2.1, ∀ k, x ≠ cn k := by
    intro x hx k
    have := (stepConds_vars B.elemPtr c.steps (.var (nm (0 + 1))) none).2 x hx
    simp only [vars, List.mem_singleton] at this
    rw [this]; exact hdisj _ k
  have hwtpes : ∀ pe ∈ pes, wtPE (stepConds B.elemPtr (.var (nm (0 + 1))) none c.steps).2.2 pe = true := by
    intro pe hpe
    simp only [pes, List.mem_map] at hpe
    obtain ⟨p, hp, rfl⟩ := hpe
    rw [show (0 + 1) = 1 from rfl, htyeq]; exact hwtc p hp
  have hmtpes : ∀ (w v : Val D),
      (∀ t, (stepConds B.elemPtr (.var (nm (0 + 1))) none c.steps).2.2 = some t → HasTy w t) →
      ((stepConds B.elemPtr (.var (nm (0 + 1))) none c.steps).2.2 = none → w = v ∧ ∀ p ∈ cols, MethTyped v (methsPE p.2)) →
      ∀ pe ∈ pes, MethTyped w (methsPE pe) := by
    intro w v hty hobj pe hpe
    simp only [pes, List.mem_map] at hpe
    obtain ⟨p, hp, rfl⟩ := hpe
    cases hty' : (stepConds B.elemPtr (.var (nm (0 + 1))) none c.steps).2.2 with
    | some t => exact methTyped_of_hasTy (hty t hty') _
    | none => obtain ⟨rfl, hq⟩ := hobj hty'; exact hq p hp
  obtain ⟨f', hex, hrel⟩ := chain_fault_tok (β := List (List (Val D))) C QC rfl rfl B hB nm hinj hres hcollT c 0 htok K
    (cols.any (fun p => usesIt p.2)) hwt hst (fun cty l hf v hv => (hmt cty l hf v hv).1) hbt
    Pinv (rowsG QC pes) (fun v => ∀ p ∈ cols, MethTyped v (methsPE p.2)) (fun cty l hf v hv => (hmt cty l hf v hv).2)
    (by
      intro s t acc hPs _ hfr k hk
      rw [hfr (cn k) (by
        rintro (⟨j, _, _, hj⟩ | hj)
        · exact hdisj j k hj.symm
        · exact hcres k hj)]
      exact hPs k hk)
    (by
      intro s acc acc' w v hPs hg hev hty hobj
      simp only [rowsG] at hg
      cases hrow : pesSem QC w pes with
      | error e => rw [hrow] at hg; simp at hg
      | ok row =>
        rw [hrow] at hg; simp only [Except.ok.injEq] at hg; subst hg
        obtain ⟨s2, hex2, hrows2, hread2, _, hmono2⟩ := setCols_correct C QC rfl cn hcinj B.elemPtr
          (stepConds B.elemPtr (.var (nm (0 + 1))) none c.steps).2.1 (stepConds B.elemPtr (.var (nm (0 + 1))) none c.steps).2.2 w
          hcurv hty pes 0 s row hev hwtpes (hmtpes w v hty hobj)
          (by intro k _ hk; exact hPs k (by simpa [pes, m] using hk))
          hrow
        refine ⟨⟨s2.env, s2.rows ++ [row]⟩, ?_, ?_⟩
        · simp only [K]
          rw [execs_append, hex2]
          simp only [execs, exec, hCcols]
          have : readCols s2.env (colNames cn m 0) = .ok row := by simpa [pes, m] using hread2
          rw [this]
        · intro k hk; exact hmono2 _ (hPs k hk))
    (by
      intro s acc e w v hPs hg hev hty hobj
      simp only [rowsG] at hg
      cases hrow : pesSem QC w pes with
      | ok row => rw [hrow] at hg; simp at hg
      | error e' =>
        rw [hrow] at hg; simp only [Except.error.injEq] at hg; subst hg
        exact setCols_fault C QC rfl cn hcinj B.elemPtr _ _ w hcurv hty [.fill (B.fillTree B.treeName)] pes 0 s e' hev hwtpes
          (hmtpes w v hty hobj) (by intro k _ hk; exact hPs k (by simpa [pes, m] using hk)) hrow)
    (by
      intro hcons hne s acc e hPs hev
      cases hty' : (stepConds B.elemPtr (.var (nm (0 + 1))) none c.steps).2.2 with
      | none => exact absurd hty' hne
      | some t =>
        have hany : ∃ pe ∈ pes, usesIt pe = true := by
          simp only [List.any_eq_true] at hcons
          obtain ⟨p, hp, hu⟩ := hcons
          exact ⟨p.2, by simp only [pes, List.mem_map]; exact ⟨p, hp, rfl⟩, hu⟩
        have := setCols_forced C QC rfl cn hcinj B.elemPtr (stepConds B.elemPtr (.var (nm (0 + 1))) none c.steps).2.1 t e hcurv
          [.fill (B.fillTree B.treeName)] pes 0 s hev (by intro pe hpe; rw [← hty']; exact hwtpes pe hpe)
          (by intro k _ hk; exact hPs k (by simpa [pes, m] using hk)) hany
        simp only [K]
        exact this)
    (methsSteps c.steps ++ methsCols cols) (fun p hp => by simp [hp])
    (by
      intro v w b0 e hQv hmv hel hg
      simp only [rowsG] at hg
      cases hrow : pesSem QC w pes with
      | ok row => rw [hrow] at hg; simp at hg
      | error e' =>
        rw [hrow] at hg; simp only [Except.error.injEq] at hg; subst hg
        obtain ⟨pe, hpe, hpf⟩ := pesSem_error QC w pes e' hrow
        simp only [pes, List.mem_map] at hpe
        obtain ⟨p, hp, rfl⟩ := hpe
        cases hct : chainTy none c.steps with
        | some t =>
          have hw := elemSem_typed QC c.steps v w t hwt hmv hel hct
          obtain ⟨u, hu⟩ := peQ_total QC t w "x" [] hw p.2 (by rw [← hct]; exact hwtc p hp)
          unfold peSem at hpf; rw [hu] at hpf; simp at hpf
        | none =>
          have hwv : w = v := by
            let σ : Env D := fun _ => some (.val v)
            have := (elem_correct QC σ false c.steps (.var "z") none v (some w) (by simp [evalE, σ]) (by simp) hwt hmv hel).2 w rfl
            exact (this.2.2.2 (by rw [stepConds_ty]; exact hct)).1
          subst hwv
          exact ((peQ_fault QC none w "x" [] (by simp) p.2 (by rw [← hct]; exact hwtc p hp) (hQv p hp) e' hpf).1).mono (hmsub p hp))
    s1 [] f (by simp [s1, Env.declare])
    (by
      intro k hk
      have : cn k ≠ nm 0 := fun e => hdisj 0 k e.symm
      simp only [s1, Env.declare, this, if_false]; exact hσ k hk)
    (by
      intro cty l ws hfind hcl hfold
      obtain ⟨w, hw, hpf⟩ := foldG_rows_error QC pes ws [] f hfold
      obtain ⟨pe, hpe, hpf'⟩ := pesSem_error QC w pes f hpf
      simp only [pes, List.mem_map] at hpe
      obtain ⟨p, hp, rfl⟩ := hpe
      cases hct : chainTy none c.steps with
      | some t =>
        have hwt' := elemsSem_typed QC c.steps t hwt hct l ws (fun v hv => (hmt cty l hfind v hv).1)
          (chainList_elems QC c.steps l ws hcl) w hw
        obtain ⟨u, hu⟩ := peQ_total QC t w "x" [] hwt' p.2 (by rw [← hct]; exact hwtc p hp)
        unfold peSem at hpf'; rw [hu] at hpf'; simp at hpf'
      | none =>
        have hwl := chainList_noSel_sub QC c.steps l ws hct hcl w hw
        exact ⟨w, hwl, ((peQ_fault QC none w "x" [] (by simp) p.2 (by rw [← hct]; exact hwtc p hp)
          ((hmt cty l hfind w hwl).2 p hp) f hpf').1).mono (hmsub p hp)⟩)
    hf
  refine ⟨f', ?_, hrel⟩
  show runEvent P QC.N σc QC.ev = _
  simp only [runEvent]
  rw [hbody]
  simp only [exec]
  rw [execs_append, hdecl]
  simp only []
  rw [hex]

end FaxVerif.Gen
