/-
Gen — side conditions and element-at-a-time meaning of the captured-variable fragment (`Gen/Capture.lean`).
No Mathlib.
-/
import FaxVerif.Gen.Capture
namespace FaxVerif.Gen
open FaxVerif.Cpp FaxVerif.Linq
variable {D : Type}

/-- accessors of the INNER element an expression calls (while the inner current value is an object) -/
def imethsCE : CE → List (String × Ty)
  | .inner p => methsPE p
  | .outer _ => []
  | .bin _ a b => imethsCE a ++ imethsCE b
  | .cmp _ a b => imethsCE a ++ imethsCE b
  | .neg a => imethsCE a
  | .not a => imethsCE a

/-- accessors of the OUTER element an expression calls -/
def omethsCE : CE → List (String × Ty)
  | .inner _ => []
  | .outer p => methsPE p
  | .bin _ a b => omethsCE a ++ omethsCE b
  | .cmp _ a b => omethsCE a ++ omethsCE b
  | .neg a => omethsCE a
  | .not a => omethsCE a

def imethsCSteps : List CStep → List (String × Ty)
  | [] => []
  | .sel f :: rest => imethsCE f ++ imethsCSteps rest
  | .whr c :: rest => imethsCE c ++ imethsCSteps rest

def omethsCSteps : List CStep → List (String × Ty)
  | [] => []
  | .sel f :: rest => omethsCE f ++ omethsCSteps rest
  | .whr c :: rest => omethsCE c ++ omethsCSteps rest

/-- the meaning of a 2-variable expression: inner parameter bound to `v`, outer parameter to `vo` -/
def cpeSem (C : QCtx D) (vo v : Val D) (e : CE) : Except Fault (Val D) :=
  denote C [("t", v), ("y", vo)] (ceQ "t" "y" e)

/-- what one inner element becomes going through the captured steps, the outer element being `vo` -/
def celemSem (C : QCtx D) (vo : Val D) : List CStep → Val D → Except Fault (Option (Val D))
  | [], v => .ok (some v)
  | .sel f :: rest, v => match cpeSem C vo v f with
    | .error e => .error e
    | .ok w => celemSem C vo rest w
  | .whr c :: rest, v => match cpeSem C vo v c with
    | .error e => .error e
    | .ok r => match asBool C.N r with
      | none => .error (.typeErr "Where predicate")
      | some true => celemSem C vo rest v
      | some false => .ok none

/-- element-at-a-time meaning of a captured chain over the list of inner elements -/
def celemsSem (C : QCtx D) (vo : Val D) (steps : List CStep) : List (Val D) → Except Fault (List (Val D))
  | [] => .ok []
  | v :: vs => match celemSem C vo steps v with
    | .error e => .error e
    | .ok o => match celemsSem C vo steps vs with
      | .error e => .error e
      | .ok rs => .ok (o.toList ++ rs)

/-- every object of the bank a captured chain ranges over returns values of the declared kinds -/
def CChainTyped (QC : QCtx D) (c : CChain) : Prop :=
  ∀ cty l, QC.ev.find c.bank = some (cty, .vec l) → ∀ v ∈ l, MethTyped v (imethsCSteps c.steps)

/-- A floating-point captured `Sum` ranges over at least one kept inner element for this outer element (an empty one
is 0.0 in C++ and the integer 0 in Python: equal numbers, different values of the model). -/
def CSumNonEmpty (QC : QCtx D) (vo : Val D) (c : CChain) : Prop :=
  ∀ t, cchainTy none c.steps = some t → t.isFloating = true →
    ∀ cty l ws, QC.ev.find c.bank = some (cty, .vec l) → celemsSem QC vo c.steps l = .ok ws → ws ≠ []

/-- what is assumed of the outer element `vo` (and of the banks the inner chains range over) for the expression `e` -/
def XEHyp (QC : QCtx D) (vo : Val D) (e : XE) : Prop :=
  (∀ p ∈ puresXE e, MethTyped vo (methsPE p)) ∧
  (∀ ic ∈ cchainsXE e, CChainTyped QC ic ∧ MethTyped vo (omethsCSteps ic.steps)) ∧
  (∀ ic ∈ csumsXE e, CSumNonEmpty QC vo ic)

end FaxVerif.Gen
