/-
Gen — correctness of event-level scalar expressions (`compEE`): constants, Count / Sum over
chains, arithmetic and comparisons over them.
-/
import FaxVerif.Gen.EventSpec
import FaxVerif.Gen.ElemRowsCorrect
namespace FaxVerif.Gen
open FaxVerif.Cpp FaxVerif.Linq
variable {D : Type}

/-! ## shape of the fragments -/

theorem compEE_next_ge (B : Backend) (nm : Nat → String) : ∀ (e : EE) (n : Nat), n ≤ (compEE B nm e n).next
  | .int _, n => by simp [compEE]
  | .dbl _ _, n => by simp [compEE]
  | .bool _, n => by simp [compEE]
  | .count c, n => by
    have := compChain_next B nm c (n + 1) (fun _ _ => [.set (nm n) (.bin "+" (.var (nm n)) (.int 1))])
    simp only [compEE]; omega
  | .sum c, n => by
    have := compChain_next B nm c (n + 1) (fun cur _ => [.set (nm n) (.bin "+" (.var (nm n)) cur)])
    simp only [compEE]; omega
  | .bin _ a b, n => by
    have h1 := compEE_next_ge B nm a n
    have h2 := compEE_next_ge B nm b (compEE B nm a n).next
    simp only [compEE]; omega
  | .cmp _ a b, n => by
    have h1 := compEE_next_ge B nm a n
    have h2 := compEE_next_ge B nm b (compEE B nm a n).next
    simp only [compEE]; omega
  | .neg a, n => by simpa [compEE] using compEE_next_ge B nm a n
  | .not a, n => by simpa [compEE] using compEE_next_ge B nm a n

theorem InRange.mono {nm : Nat → String} {lo hi lo' hi' : Nat} {y : String} (h : InRange nm lo hi y)
    (h1 : lo' ≤ lo) (h2 : hi ≤ hi') : InRange nm lo' hi' y := by
  obtain ⟨j, a, b, c⟩ := h; exact ⟨j, by omega, by omega, c⟩

theorem compEE_val_vars (B : Backend) (nm : Nat → String) : ∀ (e : EE) (n : Nat),
    ∀ x ∈ vars (compEE B nm e n).val, InRange nm n (compEE B nm e n).next x
  | .int _, n, x, h => by simp [compEE, vars] at h
  | .dbl _ _, n, x, h => by simp [compEE, vars] at h
  | .bool _, n, x, h => by simp [compEE, vars] at h
  | .count c, n, x, h => by
    have := compChain_next B nm c (n + 1) (fun _ _ => [.set (nm n) (.bin "+" (.var (nm n)) (.int 1))])
    simp only [compEE, vars, List.mem_singleton] at h ⊢
    exact ⟨n, Nat.le_refl n, by omega, h⟩
  | .sum c, n, x, h => by
    have := compChain_next B nm c (n + 1) (fun cur _ => [.set (nm n) (.bin "+" (.var (nm n)) cur)])
    simp only [compEE, vars, List.mem_singleton] at h ⊢
    exact ⟨n, Nat.le_refl n, by omega, h⟩
  | .bin op a b, n, x, h => by
    have ha := compEE_val_vars B nm a n
    have hb := compEE_val_vars B nm b (compEE B nm a n).next
    have h1 := compEE_next_ge B nm a n
    have h2 := compEE_next_ge B nm b (compEE B nm a n).next
    simp only [compEE] at h ⊢
    split at h <;> simp only [vars, List.mem_append] at h <;> rcases h with h | h
    all_goals first | exact (ha x h).mono (Nat.le_refl _) h2 | exact (hb x h).mono h1 (Nat.le_refl _)
  | .cmp op a b, n, x, h => by
    have ha := compEE_val_vars B nm a n
    have hb := compEE_val_vars B nm b (compEE B nm a n).next
    have h1 := compEE_next_ge B nm a n
    have h2 := compEE_next_ge B nm b (compEE B nm a n).next
    simp only [compEE, vars, List.mem_append] at h ⊢
    rcases h with h | h
    · exact (ha x h).mono (Nat.le_refl _) h2
    · exact (hb x h).mono h1 (Nat.le_refl _)
  | .neg a, n, x, h => by simp only [compEE, vars] at h ⊢; exact compEE_val_vars B nm a n x h
  | .not a, n, x, h => by simp only [compEE, vars] at h ⊢; exact compEE_val_vars B nm a n x h

/-- every declaration of a fragment declares a name of the fragment's range -/
def DeclsIn (nm : Nat → String) (lo hi : Nat) (decls : List Stmt) : Prop :=
  ∀ d ∈ decls, ∃ ty x init, d = .decl ty x init ∧ InRange nm lo hi x

theorem compChain_decls (B : Backend) (nm : Nat → String) (c : Chain) (n : Nat) (K : CExpr → Option Ty → List Stmt) :
    DeclsIn nm n (compChain B nm c n K).next (compChain B nm c n K).decls := by
  intro d hd
  have := compChain_next B nm c n K
  simp only [compChain, List.mem_singleton] at hd
  exact ⟨_, _, _, hd, n, Nat.le_refl n, by omega, rfl⟩

theorem DeclsIn.mono {nm : Nat → String} {lo hi lo' hi' : Nat} {ds : List Stmt} (h : DeclsIn nm lo hi ds)
    (h1 : lo' ≤ lo) (h2 : hi ≤ hi') : DeclsIn nm lo' hi' ds := by
  intro d hd; obtain ⟨ty, x, i, e, r⟩ := h d hd; exact ⟨ty, x, i, e, r.mono h1 h2⟩

theorem DeclsIn.append {nm : Nat → String} {lo hi : Nat} {a b : List Stmt} (ha : DeclsIn nm lo hi a) (hb : DeclsIn nm lo hi b) :
    DeclsIn nm lo hi (a ++ b) := by
  intro d hd
  rcases List.mem_append.1 hd with h | h
  · exact ha d h
  · exact hb d h

theorem compEE_decls (B : Backend) (nm : Nat → String) : ∀ (e : EE) (n : Nat),
    DeclsIn nm n (compEE B nm e n).next (compEE B nm e n).decls
  | .int _, n => by intro d hd; simp [compEE] at hd
  | .dbl _ _, n => by intro d hd; simp [compEE] at hd
  | .bool _, n => by intro d hd; simp [compEE] at hd
  | .count c, n => by
    have hn := compChain_next B nm c (n + 1) (fun _ _ => [.set (nm n) (.bin "+" (.var (nm n)) (.int 1))])
    simp only [compEE]
    apply DeclsIn.append
    · exact (compChain_decls B nm c (n + 1) _).mono (by omega) (Nat.le_refl _)
    · intro d hd
      simp only [List.mem_singleton] at hd
      exact ⟨_, _, _, hd, n, Nat.le_refl n, by omega, rfl⟩
  | .sum c, n => by
    have hn := compChain_next B nm c (n + 1) (fun cur _ => [.set (nm n) (.bin "+" (.var (nm n)) cur)])
    simp only [compEE]
    apply DeclsIn.append
    · exact (compChain_decls B nm c (n + 1) _).mono (by omega) (Nat.le_refl _)
    · intro d hd
      simp only [List.mem_singleton] at hd
      exact ⟨_, _, _, hd, n, Nat.le_refl n, by omega, rfl⟩
  | .bin _ a b, n => by
    have h1 := compEE_next_ge B nm a n
    have h2 := compEE_next_ge B nm b (compEE B nm a n).next
    simp only [compEE]
    exact ((compEE_decls B nm a n).mono (Nat.le_refl _) h2).append ((compEE_decls B nm b _).mono h1 (Nat.le_refl _))
  | .cmp _ a b, n => by
    have h1 := compEE_next_ge B nm a n
    have h2 := compEE_next_ge B nm b (compEE B nm a n).next
    simp only [compEE]
    exact ((compEE_decls B nm a n).mono (Nat.le_refl _) h2).append ((compEE_decls B nm b _).mono h1 (Nat.le_refl _))
  | .neg a, n => by simpa [compEE] using compEE_decls B nm a n
  | .not a, n => by simpa [compEE] using compEE_decls B nm a n

theorem DeclsDone.transport {N : Num D} {nm : Nat → String} {lo hi : Nat} {ds : List Stmt} {σ σ' : Env D}
    (h : DeclsDone N ds σ) (hin : DeclsIn nm lo hi ds) (hag : ∀ y, InRange nm lo hi y → σ' y = σ y) :
    DeclsDone N ds σ' := by
  intro d hd
  obtain ⟨ty, x, init, rfl, hr⟩ := hin d hd
  have := h _ hd
  cases init <;> simpa [DeclOK, hag x hr] using this

/-! ## token retrieval -/

/-- every chain of the expression, compiled from supply position `n` on, finds its token bound to
its own container type and bank in the run's token table (vacuous unless the backend retrieves by
token) -/
def TokEE (B : Backend) (nm : Nat → String) (C : Ctx D) : EE → Nat → Prop
  | .count c, n => TokChain B nm C c (n + 1)
  | .sum c, n => TokChain B nm C c (n + 1)
  | .bin _ a b, n => TokEE B nm C a n ∧ TokEE B nm C b (compEE B nm a n).next
  | .cmp _ a b, n => TokEE B nm C a n ∧ TokEE B nm C b (compEE B nm a n).next
  | .neg a, n => TokEE B nm C a n
  | .not a, n => TokEE B nm C a n
  | .int _, _ => True
  | .dbl _ _, _ => True
  | .bool _, _ => True

theorem tokEE_of_notToken {B : Backend} (h : B.how ≠ "token") (nm : Nat → String) (C : Ctx D) :
    ∀ (e : EE) (n : Nat), TokEE B nm C e n
  | .count c, n => tokChain_of_notToken h nm C c _
  | .sum c, n => tokChain_of_notToken h nm C c _
  | .bin _ a b, n => ⟨tokEE_of_notToken h nm C a n, tokEE_of_notToken h nm C b _⟩
  | .cmp _ a b, n => ⟨tokEE_of_notToken h nm C a n, tokEE_of_notToken h nm C b _⟩
  | .neg a, n => tokEE_of_notToken h nm C a n
  | .not a, n => tokEE_of_notToken h nm C a n
  | .int _, _ => trivial
  | .dbl _ _, _ => trivial
  | .bool _, _ => trivial

/-! ## Count and Sum -/

theorem foldG_count : ∀ (ws : List (Val D)) (b : Int),
    foldG (fun (a : Int) (_ : Val D) => (.ok (a + 1) : Except Fault Int)) ws b = .ok (b + ws.length)
  | [], b => by simp [foldG]
  | w :: ws, b => by
    simp only [foldG, foldG_count ws (b + 1), List.length_cons]
    congr 1; omega

theorem foldE_eq_foldG (f : Val D → Val D → Except Fault (Val D)) : ∀ (l : List (Val D)) (a : Val D),
    foldE f l a = foldG f l a
  | [], a => rfl
  | v :: vs, a => by
    simp only [foldE, foldG]
    cases f a v with
    | error e => rfl
    | ok a' => exact foldE_eq_foldG f vs a'

theorem join_idem (t : Ty) : (Ty.join .int t).join t = Ty.join .int t := by cases t <;> rfl

theorem join_int_num (t : Ty) (h : t.isNum = true) : (Ty.join .int t).isNum = true := by
  cases t <;> simp [Ty.join, Ty.isNum] at h ⊢

/-- typing of a left fold of `+` -/
theorem foldG_sum_typed (N : Num D) (t : Ty) (ht : t.isNum = true) : ∀ (ws : List (Val D)) (a v : Val D),
    (∀ w ∈ ws, HasTy w t) → (HasTy a .int ∨ HasTy a (Ty.join .int t)) → (ws ≠ [] ∨ HasTy a (Ty.join .int t)) →
    foldG (fun a w => arith N "+" a w) ws a = .ok v → HasTy v (Ty.join .int t)
  | [], a, v, _, _, hne, h => by
    simp only [foldG, Except.ok.injEq] at h; subst h
    rcases hne with h | h
    · exact absurd rfl h
    · exact h
  | w :: ws, a, v, hws, ha, _, h => by
    simp only [foldG] at h
    cases h1 : arith N "+" a w with
    | error e => rw [h1] at h; simp at h
    | ok a' =>
      rw [h1] at h
      have ha' : HasTy a' (Ty.join .int t) := by
        rcases ha with ha | ha
        · exact (arith_num N .add (by simp) a w _ _ ha (hws w (by simp)) (by simp [Ty.isNum]) ht).2 a' (by simpa [AOp.str] using h1)
        · have := (arith_num N .add (by simp) a w _ _ ha (hws w (by simp)) (join_int_num t ht) ht).2 a' (by simpa [AOp.str] using h1)
          rwa [join_idem] at this
      exact foldG_sum_typed N t ht ws a' v (fun u hu => hws u (by simp [hu])) (Or.inr ha') (Or.inr ha') h

theorem initVal_int (N : Num D) : initVal N "int" = .int 0 := by simp [initVal, initValOf, litOf, castTo]
theorem initVal_fl (N : Num D) (t : Ty) (h : t.isFloating = true) : initVal N t.cpp = .dbl (N.ofInt 0) := by
  cases t <;> simp [Ty.isFloating] at h <;> simp [initVal, initValOf, litOf, castTo, Ty.cpp, asD]

/-- the emitted accumulator starts from `0` converted to its declared type; Python's sum starts
from the integer 0: the folds agree for integer sums and for non-empty floating sums -/
theorem sum_fold_agree (N : Num D) (t : Ty) (ht : t.isNum = true) (ws : List (Val D)) (v : Val D)
    (hws : ∀ w ∈ ws, HasTy w t) (hne : t.isFloating = true → ws ≠ [])
    (h : foldG (fun a w => arith N "+" a w) ws (.int 0) = .ok v) :
    foldG (fun a w => arith N "+" a w) ws (initVal N (Ty.join .int t).cpp) = .ok v := by
  by_cases hf : t.isFloating = true
  · have hj : Ty.join .int t = t := by cases t <;> simp [Ty.isFloating] at hf <;> rfl
    rw [hj, initVal_fl N t hf]
    cases ws with
    | nil => exact absurd rfl (hne hf)
    | cons w ws' =>
      simp only [foldG] at h ⊢
      have hw := hws w (by simp)
      have : arith N "+" (.dbl (N.ofInt 0)) w = arith N "+" (.int 0) w := by
        cases w <;> cases t <;> simp [HasTy, Ty.isFloating] at hw hf <;> simp [arith, asInt, asD]
      rw [this]; exact h
  · have hti : t = .int := by cases t <;> simp [Ty.isFloating, Ty.isNum] at hf ht ⊢
    subst hti
    simpa [Ty.join, Ty.cpp, initVal_int] using h

end FaxVerif.Gen

namespace FaxVerif.Gen
open FaxVerif.Cpp FaxVerif.Linq
variable {D : Type}

/-- typing of what an element becomes (extracted from `elem_correct` with a one-variable state) -/
theorem elemSem_typed (QC : QCtx D) (steps : List Step) (v w : Val D) (t : Ty)
    (hwt : wtSteps none steps = true) (hm : MethTyped v (methsSteps steps))
    (hs : elemSem QC steps v = .ok (some w)) (ht : chainTy none steps = some t) : HasTy w t := by
  let σ : Env D := fun _ => some (.val v)
  have := (elem_correct QC σ false steps (.var "z") none v (some w) (by simp [evalE, σ]) (by simp) hwt hm hs).2 w rfl
  exact this.2.2.1 t (by rw [stepConds_ty]; exact ht)

theorem elemsSem_typed (QC : QCtx D) (steps : List Step) (t : Ty) (hwt : wtSteps none steps = true)
    (ht : chainTy none steps = some t) : ∀ (l ws : List (Val D)),
    (∀ v ∈ l, MethTyped v (methsSteps steps)) → elemsSem QC steps l = .ok ws → ∀ w ∈ ws, HasTy w t
  | [], ws, _, h, w, hw => by simp only [elemsSem, Except.ok.injEq] at h; subst h; simp at hw
  | v :: vs, ws, hm, h, w, hw => by
    simp only [elemsSem] at h
    cases ho : elemSem QC steps v with
    | error e => rw [ho] at h; simp at h
    | ok o =>
      rw [ho] at h; simp only [] at h
      cases hr : elemsSem QC steps vs with
      | error e => rw [hr] at h; simp at h
      | ok rs =>
        rw [hr] at h; simp only [Except.ok.injEq] at h; subst h
        rcases List.mem_append.1 hw with h1 | h1
        · cases o with
          | none => simp at h1
          | some w' =>
            simp only [Option.toList, List.mem_singleton] at h1; subst h1
            exact elemSem_typed QC steps v w t hwt (hm v (by simp)) ho ht
        · exact elemsSem_typed QC steps t hwt ht vs rs (fun u hu => hm u (by simp [hu])) hr w h1

/-- names outside the fragment's range and different from `result` -/
theorem not_touch_sub {nm : Nat → String} {lo hi lo' hi' : Nat} {y : String}
    (h : ¬ Touch nm lo hi y) (h1 : lo ≤ lo') (h2 : hi' ≤ hi) : ¬ Touch nm lo' hi' y := by
  rintro (hr | hr)
  · exact h (Or.inl (hr.mono h1 h2))
  · exact h (Or.inr hr)

/-- **Count** over a chain. -/
theorem count_correct_tok (C : Ctx D) (QC : QCtx D) (hN : QC.N = C.N) (hev : QC.ev = C.ev)
    (B : Backend) (hB : BackendBase B) (nm : Nat → String)
    (hinj : ∀ i j, nm i = nm j → i = j) (hres : ∀ j, nm j ≠ "result")
    (hcollT : ∀ name, B.collType name = QC.collType name)
    (c : Chain) (n : Nat) (htok : TokChain B nm C c (n + 1)) (s : St D) (v : Val D)
    (hdone : DeclsDone C.N (compEE B nm (.count c) n).decls s.env)
    (hwt : wtSteps none c.steps = true) (hmt : ChainTyped QC c)
    (hden : denote QC [("e", evtVal)] (eeQ "e" (.count c)) = .ok v) :
    ∃ s', execs C (compEE B nm (.count c) n).stmts s = .ok s' ∧ s'.rows = s.rows ∧
      evalE C.N s'.env (compEE B nm (.count c) n).val = .ok v ∧ HasTy v .int ∧
      (∀ y, ¬ Touch nm n (compEE B nm (.count c) n).next y → s'.env y = s.env y) := by
  simp only [eeQ, denote] at hden
  cases hc : denote QC [("e", evtVal)] (chainQ "e" c) with
  | error e => rw [hc] at hden; simp at hden
  | ok cv =>
    rw [hc] at hden
    cases cv with
    | vec ws =>
      simp only [Except.ok.injEq] at hden; subst hden
      obtain ⟨cty, l, hct, hfind, hel⟩ := chainQ_ok QC _ "e" c ws hc
      let K : CExpr → Option Ty → List Stmt := fun _ _ => [.set (nm n) (.bin "+" (.var (nm n)) (.int 1))]
      have hnext := compChain_next B nm c (n + 1) K
      have hacc : s.env (nm n) = some (.val (.int 0)) := by
        have := hdone (.decl "int" (nm n) (some (.int 0))) (by simp [compEE])
        have h0 := initVal_int C.N
        simp only [initVal] at h0
        simpa [DeclOK, h0] using this
      have hx : (s.env (nm (n + 1))).isSome = true := by
        have := hdone (.decl (B.handleTy ((B.collType c.coll).getD "?")) (nm (n + 1)) none) (by simp [compEE, compChain])
        simpa [DeclOK] using this
      let Pinv : St D → Int → Prop := fun t b => t.env (nm n) = some (.val (.int b)) ∧ t.rows = s.rows ∧
        ∀ y, ¬ Touch nm n (compChain B nm c (n + 1) K).next y → t.env y = s.env y
      have haccT : ¬ Touch nm (n + 1) (compChain B nm c (n + 1) K).next (nm n) := by
        rintro (⟨j, h1, _, h3⟩ | h)
        · have := hinj _ _ h3; omega
        · exact hres n h
      obtain ⟨s', hex, hP'⟩ := compChain_correct_tok (β := Int) C QC hN B hB nm hinj hres c (n + 1) htok K cty l ws
        (by rw [hcollT]; exact hct) (by rw [← hev]; exact hfind) hwt (hmt cty l hfind) Pinv
        (fun a _ => .ok (a + 1)) (fun _ => True) (fun _ _ => trivial)
        (by
          intro t t' b hPt hr hfr
          refine ⟨by rw [hfr _ haccT]; exact hPt.1, by rw [hr]; exact hPt.2.1, fun y hy => ?_⟩
          rw [hfr y (not_touch_sub hy (by omega) (Nat.le_refl _))]; exact hPt.2.2 y hy)
        (by
          intro t b b' w v0 hPt hg _ _ _
          simp only [Except.ok.injEq] at hg; subst hg
          refine ⟨{ t with env := t.env.set (nm n) (.int (b + 1)) }, ?_, ?_, hPt.2.1, ?_⟩
          · simp only [K, execs, exec, hPt.1]
            rw [evalE_bin_arith _ _ _ (by simp) (by simp)]
            simp [evalE, hPt.1, arith, asInt]
          · simp [Env.set]
          · intro y hy
            have : y ≠ nm n := fun e => hy (Or.inl ⟨n, Nat.le_refl n, by omega, e⟩)
            simp only [Env.set, this, if_false]; exact hPt.2.2 y hy)
        s 0 (0 + ws.length) hx hel (foldG_count ws 0) ⟨hacc, rfl, fun _ _ => rfl⟩
      refine ⟨s', by simpa [compEE] using hex, hP'.2.1, ?_, by simp [HasTy], ?_⟩
      · simp [compEE, evalE, hP'.1]
      · simpa [compEE] using hP'.2.2
    | _ => simp at hden

/-- **Sum** over a chain that ends in numbers. -/
theorem sum_correct_tok (C : Ctx D) (QC : QCtx D) (hN : QC.N = C.N) (hev : QC.ev = C.ev)
    (B : Backend) (hB : BackendBase B) (nm : Nat → String)
    (hinj : ∀ i j, nm i = nm j → i = j) (hres : ∀ j, nm j ≠ "result")
    (hcollT : ∀ name, B.collType name = QC.collType name)
    (c : Chain) (n : Nat) (htok : TokChain B nm C c (n + 1)) (s : St D) (v : Val D)
    (hdone : DeclsDone C.N (compEE B nm (.sum c) n).decls s.env)
    (hwt : wtSteps none c.steps = true) (t : Ty) (hct' : chainTy none c.steps = some t) (htn : t.isNum = true)
    (hmt : ChainTyped QC c) (hsne : SumNonEmpty QC c)
    (hden : denote QC [("e", evtVal)] (eeQ "e" (.sum c)) = .ok v) :
    ∃ s', execs C (compEE B nm (.sum c) n).stmts s = .ok s' ∧ s'.rows = s.rows ∧
      evalE C.N s'.env (compEE B nm (.sum c) n).val = .ok v ∧ HasTy v (Ty.join .int t) ∧
      (∀ y, ¬ Touch nm n (compEE B nm (.sum c) n).next y → s'.env y = s.env y) := by
  simp only [eeQ, denote] at hden
  cases hc : denote QC [("e", evtVal)] (chainQ "e" c) with
  | error e => rw [hc] at hden; simp at hden
  | ok cv =>
    rw [hc] at hden
    cases cv with
    | vec ws =>
      simp only [] at hden
      rw [foldE_eq_foldG, hN] at hden
      obtain ⟨cty, l, hct, hfind, hel⟩ := chainQ_ok QC _ "e" c ws hc
      have hwsty := elemsSem_typed QC c.steps t hwt hct' l ws (hmt cty l hfind) hel
      have hfold := sum_fold_agree C.N t htn ws v hwsty (fun hf => hsne t hct' hf cty l ws hfind hel) hden
      let K : CExpr → Option Ty → List Stmt := fun cur _ => [.set (nm n) (.bin "+" (.var (nm n)) cur)]
      have hnext := compChain_next B nm c (n + 1) K
      have hty : (Ty.join .int ((chainTy none c.steps).getD .double)) = Ty.join .int t := by rw [hct']; rfl
      have hacc : s.env (nm n) = some (.val (initVal C.N (Ty.join .int t).cpp)) := by
        have := hdone (.decl (Ty.join .int ((chainTy none c.steps).getD .double)).cpp (nm n) (some (.int 0))) (by simp [compEE])
        simpa [DeclOK, hty, initVal] using this
      have hx : (s.env (nm (n + 1))).isSome = true := by
        have := hdone (.decl (B.handleTy ((B.collType c.coll).getD "?")) (nm (n + 1)) none) (by simp [compEE, compChain])
        simpa [DeclOK] using this
      let Pinv : St D → Val D → Prop := fun u a => u.env (nm n) = some (.val a) ∧ u.rows = s.rows ∧
        ∀ y, ¬ Touch nm n (compChain B nm c (n + 1) K).next y → u.env y = s.env y
      have haccT : ¬ Touch nm (n + 1) (compChain B nm c (n + 1) K).next (nm n) := by
        rintro (⟨j, h1, _, h3⟩ | h)
        · have := hinj _ _ h3; omega
        · exact hres n h
      have hcurvars : ∀ x ∈ vars (stepConds B.elemPtr (.var (nm (n + 1 + 1))) none c.steps).2.1, x = nm (n + 1 + 1) := by
        intro x hx'
        have := (stepConds_vars B.elemPtr c.steps (.var (nm (n + 1 + 1))) none).2 x hx'
        simpa [vars] using this
      obtain ⟨s', hex, hP'⟩ := compChain_correct_tok (β := Val D) C QC hN B hB nm hinj hres c (n + 1) htok K cty l ws
        (by rw [hcollT]; exact hct) (by rw [← hev]; exact hfind) hwt (hmt cty l hfind) Pinv
        (fun a w => arith C.N "+" a w) (fun _ => True) (fun _ _ => trivial)
        (by
          intro u u' b hPu hr hfr
          refine ⟨by rw [hfr _ haccT]; exact hPu.1, by rw [hr]; exact hPu.2.1, fun y hy => ?_⟩
          rw [hfr y (not_touch_sub hy (by omega) (Nat.le_refl _))]; exact hPu.2.2 y hy)
        (by
          intro u a a' w v0 hPu hg hevw _ _
          refine ⟨{ u with env := u.env.set (nm n) a' }, ?_, ?_, hPu.2.1, ?_⟩
          · simp only [K, execs, exec, hPu.1]
            rw [evalE_bin_arith _ _ _ (by simp) (by simp)]
            simp [evalE, hPu.1, hevw, hg]
          · simp [Env.set]
          · intro y hy
            have : y ≠ nm n := fun e => hy (Or.inl ⟨n, Nat.le_refl n, by omega, e⟩)
            simp only [Env.set, this, if_false]; exact hPu.2.2 y hy)
        s _ v hx hel hfold ⟨hacc, rfl, fun _ _ => rfl⟩
      refine ⟨s', by simpa [compEE] using hex, hP'.2.1, ?_, ?_, ?_⟩
      · simp [compEE, evalE, hP'.1]
      · refine foldG_sum_typed C.N t htn ws (.int 0) v hwsty (Or.inl (by simp [HasTy])) ?_ hden
        by_cases hf : t.isFloating = true
        · exact Or.inl (hsne t hct' hf cty l ws hfind hel)
        · right; cases t <;> simp [Ty.isFloating, Ty.isNum, Ty.join, HasTy] at hf htn ⊢
      · simpa [compEE] using hP'.2.2
    | _ => simp at hden

/-- **Count** over a chain (retrieval by bank name). -/
theorem count_correct (C : Ctx D) (QC : QCtx D) (hN : QC.N = C.N) (hev : QC.ev = C.ev)
    (B : Backend) (hB : BackendOK B) (nm : Nat → String)
    (hinj : ∀ i j, nm i = nm j → i = j) (hres : ∀ j, nm j ≠ "result")
    (hcollT : ∀ name, B.collType name = QC.collType name)
    (c : Chain) (n : Nat) (s : St D) (v : Val D)
    (hdone : DeclsDone C.N (compEE B nm (.count c) n).decls s.env)
    (hwt : wtSteps none c.steps = true) (hmt : ChainTyped QC c)
    (hden : denote QC [("e", evtVal)] (eeQ "e" (.count c)) = .ok v) :
    ∃ s', execs C (compEE B nm (.count c) n).stmts s = .ok s' ∧ s'.rows = s.rows ∧
      evalE C.N s'.env (compEE B nm (.count c) n).val = .ok v ∧ HasTy v .int ∧
      (∀ y, ¬ Touch nm n (compEE B nm (.count c) n).next y → s'.env y = s.env y) :=
  count_correct_tok C QC hN hev B hB.base nm hinj hres hcollT c n (tokChain_of_notToken hB.notToken nm C c _) s v hdone hwt hmt hden

/-- **Sum** over a chain that ends in numbers (retrieval by bank name). -/
theorem sum_correct (C : Ctx D) (QC : QCtx D) (hN : QC.N = C.N) (hev : QC.ev = C.ev)
    (B : Backend) (hB : BackendOK B) (nm : Nat → String)
    (hinj : ∀ i j, nm i = nm j → i = j) (hres : ∀ j, nm j ≠ "result")
    (hcollT : ∀ name, B.collType name = QC.collType name)
    (c : Chain) (n : Nat) (s : St D) (v : Val D)
    (hdone : DeclsDone C.N (compEE B nm (.sum c) n).decls s.env)
    (hwt : wtSteps none c.steps = true) (t : Ty) (hct' : chainTy none c.steps = some t) (htn : t.isNum = true)
    (hmt : ChainTyped QC c) (hsne : SumNonEmpty QC c)
    (hden : denote QC [("e", evtVal)] (eeQ "e" (.sum c)) = .ok v) :
    ∃ s', execs C (compEE B nm (.sum c) n).stmts s = .ok s' ∧ s'.rows = s.rows ∧
      evalE C.N s'.env (compEE B nm (.sum c) n).val = .ok v ∧ HasTy v (Ty.join .int t) ∧
      (∀ y, ¬ Touch nm n (compEE B nm (.sum c) n).next y → s'.env y = s.env y) :=
  sum_correct_tok C QC hN hev B hB.base nm hinj hres hcollT c n (tokChain_of_notToken hB.notToken nm C c _) s v hdone hwt t hct' htn hmt hsne hden

end FaxVerif.Gen

namespace FaxVerif.Gen
open FaxVerif.Cpp FaxVerif.Linq
variable {D : Type}

theorem inRange_disjoint {nm : Nat → String} (hinj : ∀ i j, nm i = nm j → i = j) {a b c : Nat} {y : String}
    (h1 : InRange nm b c y) : ¬ InRange nm a b y := by
  rintro ⟨j, _, hj2, hj3⟩
  obtain ⟨k, hk1, _, hk3⟩ := h1
  have := hinj _ _ (hj3.symm.trans hk3)
  omega

/-- running fragment `a` then fragment `b` (consecutive name ranges): both values are available
in the final state, nothing outside the two ranges is touched -/
theorem compEE_seq (C : Ctx D) (B : Backend) (nm : Nat → String)
    (hinj : ∀ i j, nm i = nm j → i = j) (hres : ∀ j, nm j ≠ "result")
    (a b : EE) (n : Nat) (s : St D) (va vb : Val D)
    (hdone : DeclsDone C.N ((compEE B nm a n).decls ++ (compEE B nm b (compEE B nm a n).next).decls) s.env)
    (speca : DeclsDone C.N (compEE B nm a n).decls s.env →
      ∃ s1, execs C (compEE B nm a n).stmts s = .ok s1 ∧ s1.rows = s.rows ∧
        evalE C.N s1.env (compEE B nm a n).val = .ok va ∧
        (∀ y, ¬ Touch nm n (compEE B nm a n).next y → s1.env y = s.env y))
    (specb : ∀ s1 : St D, DeclsDone C.N (compEE B nm b (compEE B nm a n).next).decls s1.env →
      ∃ s2, execs C (compEE B nm b (compEE B nm a n).next).stmts s1 = .ok s2 ∧ s2.rows = s1.rows ∧
        evalE C.N s2.env (compEE B nm b (compEE B nm a n).next).val = .ok vb ∧
        (∀ y, ¬ Touch nm (compEE B nm a n).next (compEE B nm b (compEE B nm a n).next).next y → s2.env y = s1.env y)) :
    ∃ s2, execs C ((compEE B nm a n).stmts ++ (compEE B nm b (compEE B nm a n).next).stmts) s = .ok s2 ∧
      s2.rows = s.rows ∧ evalE C.N s2.env (compEE B nm a n).val = .ok va ∧
      evalE C.N s2.env (compEE B nm b (compEE B nm a n).next).val = .ok vb ∧
      (∀ y, ¬ Touch nm n (compEE B nm b (compEE B nm a n).next).next y → s2.env y = s.env y) := by
  have h1 := compEE_next_ge B nm a n
  have h2 := compEE_next_ge B nm b (compEE B nm a n).next
  have hda : DeclsDone C.N (compEE B nm a n).decls s.env := fun d hd => hdone d (by simp [hd])
  have hdb : DeclsDone C.N (compEE B nm b (compEE B nm a n).next).decls s.env := fun d hd => hdone d (by simp [hd])
  obtain ⟨s1, hex1, hr1, hv1, hf1⟩ := speca hda
  have hdb1 : DeclsDone C.N (compEE B nm b (compEE B nm a n).next).decls s1.env :=
    hdb.transport (compEE_decls B nm b _) (fun y hy => hf1 y (by
      rintro (h | h)
      · exact inRange_disjoint hinj hy h
      · obtain ⟨j, _, _, hj⟩ := hy; exact hres j (hj ▸ h)))
  obtain ⟨s2, hex2, hr2, hv2, hf2⟩ := specb s1 hdb1
  refine ⟨s2, ?_, by rw [hr2, hr1], ?_, hv2, ?_⟩
  · rw [execs_append, hex1]; exact hex2
  · rw [← hv1]
    apply evalE_congr
    intro x hx
    have hxr := compEE_val_vars B nm a n x hx
    apply hf2
    rintro (h | h)
    · exact inRange_disjoint hinj h hxr
    · obtain ⟨j, _, _, hj⟩ := hxr; exact hres j (hj ▸ h)
  · intro y hy
    rw [hf2 y (not_touch_sub hy h1 (Nat.le_refl _)), hf1 y (not_touch_sub hy (Nat.le_refl _) h2)]

/-- **event-level scalar expressions** -/
theorem compEE_correct_tok (C : Ctx D) (QC : QCtx D) (hN : QC.N = C.N) (hev : QC.ev = C.ev)
    (B : Backend) (hB : BackendBase B) (nm : Nat → String)
    (hinj : ∀ i j, nm i = nm j → i = j) (hres : ∀ j, nm j ≠ "result")
    (hcollT : ∀ name, B.collType name = QC.collType name) :
    ∀ (e : EE) (n : Nat) (s : St D) (v : Val D), TokEE B nm C e n →
      DeclsDone C.N (compEE B nm e n).decls s.env →
      wtEE e = true → (∀ c ∈ chainsEE e, ChainTyped QC c) → (∀ c ∈ sumChainsEE e, SumNonEmpty QC c) →
      denote QC [("e", evtVal)] (eeQ "e" e) = .ok v →
      ∃ s', execs C (compEE B nm e n).stmts s = .ok s' ∧ s'.rows = s.rows ∧
        evalE C.N s'.env (compEE B nm e n).val = .ok v ∧ HasTy v (tyEE e) ∧
        (∀ y, ¬ Touch nm n (compEE B nm e n).next y → s'.env y = s.env y)
  | .int k, n, s, v, _, _, _, _, _, hden => by
    simp only [eeQ, denote, Except.ok.injEq] at hden; subst hden
    exact ⟨s, by simp [compEE, execs], rfl, by simp [compEE, evalE], by simp [tyEE, HasTy], fun _ _ => rfl⟩
  | .dbl m e, n, s, v, _, _, _, _, _, hden => by
    simp only [eeQ, denote, Except.ok.injEq] at hden; subst hden
    exact ⟨s, by simp [compEE, execs], rfl, by simp [compEE, evalE, hN], by simp [tyEE, HasTy], fun _ _ => rfl⟩
  | .bool b, n, s, v, _, _, _, _, _, hden => by
    simp only [eeQ, denote, Except.ok.injEq] at hden; subst hden
    exact ⟨s, by simp [compEE, execs], rfl, by simp [compEE, evalE], by simp [tyEE, HasTy], fun _ _ => rfl⟩
  | .count c, n, s, v, htk, hdone, hwt, hct, _, hden => by
    simp only [wtEE] at hwt
    exact count_correct_tok C QC hN hev B hB nm hinj hres hcollT c n htk s v hdone hwt (hct c (by simp [chainsEE])) hden
  | .sum c, n, s, v, htk, hdone, hwt, hct, hsn, hden => by
    simp only [wtEE, Bool.and_eq_true, chainNumTy] at hwt
    cases hty : chainTy none c.steps with
    | none => rw [hty] at hwt; simp at hwt
    | some t =>
      rw [hty] at hwt
      have htn : t.isNum = true := by
        by_cases h : t.isNum = true
        · exact h
        · simp [h] at hwt
      have := sum_correct_tok C QC hN hev B hB nm hinj hres hcollT c n htk s v hdone hwt.1 t hty htn
        (hct c (by simp [chainsEE])) (hsn c (by simp [sumChainsEE])) hden
      simpa [tyEE, hty] using this
  | .bin op a b, n, s, v, htk, hdone, hwt, hct, hsn, hden => by
    simp only [wtEE, Bool.and_eq_true] at hwt
    obtain ⟨⟨⟨hwa, hwb⟩, hna⟩, hnb⟩ := hwt
    simp only [eeQ, denote] at hden
    cases hda : denote QC [("e", evtVal)] (eeQ "e" a) with
    | error e => rw [hda] at hden; simp at hden
    | ok va =>
      rw [hda] at hden
      cases hdb : denote QC [("e", evtVal)] (eeQ "e" b) with
      | error e => rw [hdb] at hden; simp at hden
      | ok vb =>
        rw [hdb] at hden
        simp only [] at hden
        have hcta : ∀ c ∈ chainsEE a, ChainTyped QC c := fun c hc => hct c (by simp [chainsEE, hc])
        have hctb : ∀ c ∈ chainsEE b, ChainTyped QC c := fun c hc => hct c (by simp [chainsEE, hc])
        have hsna : ∀ c ∈ sumChainsEE a, SumNonEmpty QC c := fun c hc => hsn c (by simp [sumChainsEE, hc])
        have hsnb : ∀ c ∈ sumChainsEE b, SumNonEmpty QC c := fun c hc => hsn c (by simp [sumChainsEE, hc])
        -- typing of the two operand values (from the induction hypotheses)
        have hdone' : DeclsDone C.N ((compEE B nm a n).decls ++ (compEE B nm b (compEE B nm a n).next).decls) s.env := by
          simpa [compEE] using hdone
        have hta : HasTy va (tyEE a) := by
          obtain ⟨_, _, _, _, h, _⟩ := compEE_correct_tok C QC hN hev B hB nm hinj hres hcollT a n s va htk.1
            (fun d hd => hdone' d (by simp [hd])) hwa hcta hsna hda
          exact h
        have htb : HasTy vb (tyEE b) := by
          obtain ⟨_, _, _, _, h, _⟩ := compEE_correct_tok C QC hN hev B hB nm hinj hres hcollT b (compEE B nm a n).next s vb htk.2
            (fun d hd => hdone' d (by simp [hd])) hwb hctb hsnb hdb
          exact h
        obtain ⟨s2, hex, hrows, hva, hvb, hfr⟩ := compEE_seq C B nm hinj hres a b n s va vb hdone'
          (fun hd => by
            obtain ⟨s1, h1, h2, h3, _, h5⟩ := compEE_correct_tok C QC hN hev B hB nm hinj hres hcollT a n s va htk.1 hd hwa hcta hsna hda
            exact ⟨s1, h1, h2, h3, h5⟩)
          (fun s1 hd => by
            obtain ⟨s2, h1, h2, h3, _, h5⟩ := compEE_correct_tok C QC hN hev B hB nm hinj hres hcollT b _ s1 vb htk.2 hd hwb hctb hsnb hdb
            exact ⟨s2, h1, h2, h3, h5⟩)
        refine ⟨s2, by simpa [compEE] using hex, hrows, ?_, ?_, by simpa [compEE] using hfr⟩
        · -- the value
          by_cases hdiv : op = .div
          · subst hdiv
            have hd := div_num C.N va vb _ _ hta htb hna hnb
            rw [hN] at hden
            simp only [AOp.str] at hden
            rw [← hden, ← hd.1]
            simp only [compEE]
            by_cases hj : (tyEE a).join (tyEE b) = .int
            · simp only [hj, and_self, if_true]
              rw [evalE_bin_arith _ _ _ (by simp) (by simp)]
              simp only [evalE, hva, hvb]
              cases castTo C.N "double" va <;> rfl
            · simp only [hj, and_false, if_false]
              rw [evalE_bin_arith _ _ _ (by simp [AOp.str]) (by simp [AOp.str])]
              simp [hva, hvb, AOp.str]
          · have hne : ¬ (op = .div ∧ (tyEE a).join (tyEE b) = .int) := fun h => hdiv h.1
            have := arith_num C.N op hdiv va vb _ _ hta htb hna hnb
            rw [hN] at hden
            simp only [compEE, hne, if_false]
            rw [evalE_bin_arith _ _ _ (aop_not_logic op).1 (aop_not_logic op).2]
            simp only [hva, hvb]
            rw [this.1]; exact hden
        · by_cases hdiv : op = .div
          · subst hdiv
            rw [hN] at hden
            simpa [tyEE] using (div_num C.N va vb _ _ hta htb hna hnb).2 v (by simpa [AOp.str] using hden)
          · have hty' : tyEE (.bin op a b) = (tyEE a).join (tyEE b) := by cases op <;> simp [tyEE] at hdiv ⊢
            rw [hty']
            have := arith_num C.N op hdiv va vb _ _ hta htb hna hnb
            rw [hN] at hden
            exact this.2 v (by rw [this.1]; exact hden)
  | .cmp op a b, n, s, v, htk, hdone, hwt, hct, hsn, hden => by
    simp only [wtEE, Bool.and_eq_true] at hwt
    obtain ⟨⟨⟨hwa, hwb⟩, hna⟩, hnb⟩ := hwt
    simp only [eeQ, denote] at hden
    cases hda : denote QC [("e", evtVal)] (eeQ "e" a) with
    | error e => rw [hda] at hden; simp at hden
    | ok va =>
      rw [hda] at hden
      cases hdb : denote QC [("e", evtVal)] (eeQ "e" b) with
      | error e => rw [hdb] at hden; simp at hden
      | ok vb =>
        rw [hdb] at hden
        simp only [] at hden
        have hcta : ∀ c ∈ chainsEE a, ChainTyped QC c := fun c hc => hct c (by simp [chainsEE, hc])
        have hctb : ∀ c ∈ chainsEE b, ChainTyped QC c := fun c hc => hct c (by simp [chainsEE, hc])
        have hsna : ∀ c ∈ sumChainsEE a, SumNonEmpty QC c := fun c hc => hsn c (by simp [sumChainsEE, hc])
        have hsnb : ∀ c ∈ sumChainsEE b, SumNonEmpty QC c := fun c hc => hsn c (by simp [sumChainsEE, hc])
        have hdone' : DeclsDone C.N ((compEE B nm a n).decls ++ (compEE B nm b (compEE B nm a n).next).decls) s.env := by
          simpa [compEE] using hdone
        have hta : HasTy va (tyEE a) := by
          obtain ⟨_, _, _, _, h, _⟩ := compEE_correct_tok C QC hN hev B hB nm hinj hres hcollT a n s va htk.1
            (fun d hd => hdone' d (by simp [hd])) hwa hcta hsna hda
          exact h
        have htb : HasTy vb (tyEE b) := by
          obtain ⟨_, _, _, _, h, _⟩ := compEE_correct_tok C QC hN hev B hB nm hinj hres hcollT b (compEE B nm a n).next s vb htk.2
            (fun d hd => hdone' d (by simp [hd])) hwb hctb hsnb hdb
          exact h
        obtain ⟨s2, hex, hrows, hva, hvb, hfr⟩ := compEE_seq C B nm hinj hres a b n s va vb hdone'
          (fun hd => by
            obtain ⟨s1, h1, h2, h3, _, h5⟩ := compEE_correct_tok C QC hN hev B hB nm hinj hres hcollT a n s va htk.1 hd hwa hcta hsna hda
            exact ⟨s1, h1, h2, h3, h5⟩)
          (fun s1 hd => by
            obtain ⟨s2, h1, h2, h3, _, h5⟩ := compEE_correct_tok C QC hN hev B hB nm hinj hres hcollT b _ s1 vb htk.2 hd hwb hctb hsnb hdb
            exact ⟨s2, h1, h2, h3, h5⟩)
        rw [hN] at hden
        refine ⟨s2, by simpa [compEE] using hex, hrows, ?_, ?_, by simpa [compEE] using hfr⟩
        · simp only [compEE]
          rw [evalE_bin_arith _ _ _ (cop_not_logic op).1 (cop_not_logic op).2]
          simp only [hva, hvb]; exact hden
        · simpa [tyEE] using cmp_num C.N op va vb _ _ hta htb hna hnb v hden
  | .neg a, n, s, v, htk, hdone, hwt, hct, hsn, hden => by
    simp only [wtEE, Bool.and_eq_true] at hwt
    simp only [eeQ, denote] at hden
    cases hda : denote QC [("e", evtVal)] (eeQ "e" a) with
    | error e => rw [hda] at hden; simp at hden
    | ok va =>
      rw [hda, hN] at hden
      simp only [] at hden
      obtain ⟨s1, h1, h2, h3, h4, h5⟩ := compEE_correct_tok C QC hN hev B hB nm hinj hres hcollT a n s va htk
        (by simpa [compEE] using hdone) hwt.1 (fun c hc => hct c (by simpa [chainsEE] using hc))
        (fun c hc => hsn c (by simpa [sumChainsEE] using hc)) hda
      refine ⟨s1, by simpa [compEE] using h1, h2, by simp [compEE, evalE, h3, hden], ?_, by simpa [compEE] using h5⟩
      simp only [tyEE]
      rcases hasTy_num h4 hwt.2 with ⟨k, rfl, ht⟩ | ⟨y, rfl, ht⟩
      · simp [unop] at hden; subst hden; simp [ht, HasTy]
      · simp [unop] at hden; subst hden; rcases ht with h | h <;> simp [h, HasTy]
  | .not a, n, s, v, htk, hdone, hwt, hct, hsn, hden => by
    simp only [wtEE, Bool.and_eq_true, beq_iff_eq] at hwt
    simp only [eeQ, denote] at hden
    cases hda : denote QC [("e", evtVal)] (eeQ "e" a) with
    | error e => rw [hda] at hden; simp at hden
    | ok va =>
      rw [hda, hN] at hden
      simp only [] at hden
      obtain ⟨s1, h1, h2, h3, h4, h5⟩ := compEE_correct_tok C QC hN hev B hB nm hinj hres hcollT a n s va htk
        (by simpa [compEE] using hdone) hwt.1 (fun c hc => hct c (by simpa [chainsEE] using hc))
        (fun c hc => hsn c (by simpa [sumChainsEE] using hc)) hda
      refine ⟨s1, by simpa [compEE] using h1, h2, by simp [compEE, evalE, h3, hden], ?_, by simpa [compEE] using h5⟩
      simp only [tyEE]
      rw [hwt.2] at h4
      obtain ⟨b, rfl⟩ := hasTy_bool h4
      simp [unop, asBool] at hden; subst hden; simp [HasTy]

/-- **event-level scalar expressions** (retrieval by bank name) -/
theorem compEE_correct (C : Ctx D) (QC : QCtx D) (hN : QC.N = C.N) (hev : QC.ev = C.ev)
    (B : Backend) (hB : BackendOK B) (nm : Nat → String)
    (hinj : ∀ i j, nm i = nm j → i = j) (hres : ∀ j, nm j ≠ "result")
    (hcollT : ∀ name, B.collType name = QC.collType name)
    (e : EE) (n : Nat) (s : St D) (v : Val D)
    (hdone : DeclsDone C.N (compEE B nm e n).decls s.env)
    (hwt : wtEE e = true) (hct : ∀ c ∈ chainsEE e, ChainTyped QC c) (hsn : ∀ c ∈ sumChainsEE e, SumNonEmpty QC c)
    (hden : denote QC [("e", evtVal)] (eeQ "e" e) = .ok v) :
    ∃ s', execs C (compEE B nm e n).stmts s = .ok s' ∧ s'.rows = s.rows ∧
      evalE C.N s'.env (compEE B nm e n).val = .ok v ∧ HasTy v (tyEE e) ∧
      (∀ y, ¬ Touch nm n (compEE B nm e n).next y → s'.env y = s.env y) :=
  compEE_correct_tok C QC hN hev B hB.base nm hinj hres hcollT e n s v (tokEE_of_notToken hB.notToken nm C e n) hdone hwt hct hsn hden

end FaxVerif.Gen
