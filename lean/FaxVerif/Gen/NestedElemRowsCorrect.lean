/-
Gen — END TO END for element-level rows whose columns are inner aggregates (shape (c)):
    ds.SelectMany(e → coll(bank).Where*).Select(r → {name: NE, …})
`nestedElemRows_correct_post`: the package `compileN` emits (retrieval, the outer loop, the lowered outer
condition, and per kept outer element: the accumulators' declarations, the inner loops, the branch
assignments, the Fill) writes exactly the rows the query denotes, from the class state at event start, and
leaves the column variables declared — for every chain, every column list, every event, every number model,
all three backends (`BackendBase`; on the token idiom the table `compileN` emits binds the chain's token).
-/
import FaxVerif.Gen.NestedExprCorrect
import FaxVerif.Gen.EventRowsCorrect
namespace FaxVerif.Gen
open FaxVerif.Cpp FaxVerif.Linq
variable {D : Type}

/-! ## query side -/

/-- one row per element: the values of the column queries with the lambda parameter bound to the element -/
def rowsQ (QC : QCtx D) (x : String) (qs : List Query) : List (Val D) → Except Fault (List (List (Val D)))
  | [] => .ok []
  | w :: ws => match denotes QC [(x, w)] qs with
    | .error e => .error e
    | .ok row => match rowsQ QC x qs ws with
      | .error e => .error e
      | .ok rs => .ok (row :: rs)

theorem dictQ_denote (QC : QCtx D) (ρ : LEnv D) (names : List String) (qs : List Query) :
    denote QC ρ (.dict names qs) = (match denotes QC ρ qs with
      | .error e => .error e
      | .ok vs => .ok (tupleVal (names.zip vs))) := by
  simp only [denote]
  cases denotes QC ρ qs <;> rfl

theorem mapE_rowsQ (QC : QCtx D) (x : String) (names : List String) (qs : List Query) (hlen : names.length = qs.length) :
    ∀ (ws r : List (Val D)),
      mapE (fun v => denote QC [(x, v)] (.dict names qs)) ws = .ok r → rowsQ QC x qs ws = .ok (r.map rowOf)
  | [], r, h => by simp only [mapE, Except.ok.injEq] at h; subst h; rfl
  | w :: ws, r, h => by
    rw [mapE, dictQ_denote] at h
    cases h1 : denotes QC [(x, w)] qs with
    | error e => rw [h1] at h; simp at h
    | ok vs =>
      rw [h1] at h; simp only [] at h
      cases h2 : mapE (fun v => denote QC [(x, v)] (.dict names qs)) ws with
      | error e => rw [h2] at h; simp at h
      | ok r' =>
        rw [h2] at h; simp only [Except.ok.injEq] at h; subst h
        have ih := mapE_rowsQ QC x names qs hlen ws r' h2
        have hl := denotes_length QC _ qs vs h1
        simp only [rowsQ, h1, ih, List.map_cons, rowOf, tupleVal]
        rw [List.map_snd_zip (by omega)]

/-- what a query `ds.SelectMany(e → chain).Select(x → {names: qs})` denotes -/
theorem selectManyRows_denote (QC : QCtx D) (c : Chain) (x : String) (names : List String) (qs : List Query)
    (hlen : names.length = qs.length) (rows : List (List (Val D)))
    (h : denoteRows QC (.select (.selectMany .ds "e" (chainQ "e" c)) x (.dict names qs)) = .ok rows) :
    ∃ ws, denote QC [("e", evtVal)] (chainQ "e" c) = .ok (.vec ws) ∧ rowsQ QC x qs ws = .ok rows := by
  simp only [denoteRows] at h
  rw [denote_select, denote_selectMany_ds] at h
  cases hc : denote QC [("e", evtVal)] (chainQ "e" c) with
  | error e => rw [hc] at h; simp at h
  | ok cv =>
    rw [hc] at h
    cases cv with
    | vec ws =>
      simp only [List.append_nil] at h
      refine ⟨ws, rfl, ?_⟩
      cases hm : mapE (fun v => denote QC [(x, v)] (.dict names qs)) ws with
      | error e => rw [hm] at h; simp at h
      | ok r =>
        rw [hm] at h
        simp only [Except.ok.injEq] at h; subst h
        exact mapE_rowsQ QC x names qs hlen ws r hm
    | _ => simp at h

theorem foldG_rowsQ (QC : QCtx D) (x : String) (qs : List Query) : ∀ (ws : List (Val D)) (acc rows : List (List (Val D))),
    rowsQ QC x qs ws = .ok rows →
    foldG (fun (a : List (List (Val D))) w => match denotes QC [(x, w)] qs with
      | .ok row => .ok (a ++ [row])
      | .error e => .error e) ws acc = .ok (acc ++ rows)
  | [], acc, rows, h => by simp only [rowsQ, Except.ok.injEq] at h; subst h; simp [foldG]
  | w :: ws, acc, rows, h => by
    simp only [rowsQ] at h
    cases h1 : denotes QC [(x, w)] qs with
    | error e => rw [h1] at h; simp at h
    | ok row =>
      rw [h1] at h; simp only [] at h
      cases h2 : rowsQ QC x qs ws with
      | error e => rw [h2] at h; simp at h
      | ok rs =>
        rw [h2] at h; simp only [Except.ok.injEq] at h; subst h
        simp only [foldG, h1]
        rw [foldG_rowsQ QC x qs ws (acc ++ [row]) rs h2]
        simp

/-! ## the outer chain -/

theorem condNext_ge (nm : Nat → String) (ptr : Bool) (it : CExpr) (steps : List Step) (n : Nat) :
    n ≤ condNext nm ptr it steps n := chainBody_next_ge nm ptr it steps n _

theorem chainBody_next_indep (nm : Nat → String) (ptr : Bool) (it : CExpr) (steps : List Step) (n : Nat)
    (K K' : CExpr → Option Ty → List Stmt) : (chainBody nm ptr it steps n K).2 = (chainBody nm ptr it steps n K').2 :=
  chainBodyT_next_indep nm ptr it none steps n K K'

theorem compChain_next_eq (B : Backend) (nm : Nat → String) (c : Chain) (n : Nat) (K : CExpr → Option Ty → List Stmt) :
    (compChain B nm c n K).next = outerNext B nm c n := by
  simp only [compChain, outerNext, condNext, outerIt]
  exact chainBody_next_indep nm B.elemPtr _ c.steps (n + 3) K _

theorem outerNext_ge (B : Backend) (nm : Nat → String) (c : Chain) (n : Nat) : n + 3 ≤ outerNext B nm c n :=
  condNext_ge nm B.elemPtr _ c.steps (n + 3)

/-- the value the outer chain hands to its continuation is the loop variable itself, an object -/
theorem wtOuter_ty {c : Chain} (h : wtOuter c = true) (ptr : Bool) (cur : CExpr) :
    (stepConds ptr cur none c.steps).2.2 = none := by
  simp only [wtOuter, Bool.and_eq_true, Option.isNone_iff_eq_none] at h
  rw [stepConds_ty]; exact h.2

theorem wtOuter_steps {c : Chain} (h : wtOuter c = true) : wtSteps none c.steps = true := by
  simp only [wtOuter, Bool.and_eq_true] at h; exact h.1

theorem outerCur_vars (B : Backend) (nm : Nat → String) (c : Chain) (n : Nat) :
    ∀ x ∈ vars (stepConds B.elemPtr (outerIt nm n) none c.steps).2.1, x = nm (n + 1) := by
  intro x hx
  have := (stepConds_vars B.elemPtr c.steps (outerIt nm n) none).2 x hx
  simpa [outerIt, vars] using this

/-- a token table that consists of the entry of the chain compiled at `n` binds its token -/
theorem tokChain_of_tokens (B : Backend) (nm : Nat → String) (c : Chain) (n : Nat) (K : CExpr → Option Ty → List Stmt)
    (C : Ctx D) (hK : C.tokens = banksOf B (compChain B nm c n K).stmts [c.bank]) : TokChain B nm C c n := by
  intro ht
  have h := banksOf_chain B ht nm c n K [] []
  rw [List.append_nil] at h
  have htoks : C.tokens = chainToks B nm c n := by rw [hK, h]; simp [banksOf]
  exact tokenBank_of_mem C (by rw [htoks]; simp [chainToks])
    (nm (n + 2), (B.collType c.coll).getD "?", c.bank) (by rw [htoks]; simp [chainToks])

theorem colVarsN_names (cn : Nat → String) : ∀ (es : List NE) (idx : Nat),
    (colVarsN cn es idx).map (·.2) = colNames cn es.length idx
  | [], _ => rfl
  | e :: rest, idx => by simp [colVarsN, colNames, colVarsN_names cn rest (idx + 1)]

/-! ## end to end -/

/-- per-event side conditions of shape (c): the outer chain keeps objects and is well typed, the column
expressions are well typed; every object of the bank returns values of the declared kinds — for the outer
conditions, the pure parts of the columns, and (through `InnerTyped`) the elements of the collections its
methods return; floating inner sums are non-empty -/
def NElemHyp (QC : QCtx D) (c : Chain) (cols : List (String × NE)) : Prop :=
  wtOuter c = true ∧ (∀ p ∈ cols, wtNE p.2 = true) ∧
  (∀ cty l, QC.ev.find c.bank = some (cty, .vec l) →
    ∀ v ∈ l, MethTyped v (methsSteps c.steps) ∧ ∀ p ∈ cols, NEHyp QC v p.2)

/-- **C01 (element-level rows of inner aggregates)** — if the query denotes `rows` on the event, the package
the translator model emits writes exactly `rows`, and the class state it leaves behind again has the column
variables declared (the precondition of the next event). -/
theorem nestedElemRows_correct_post (B : Backend) (hB : BackendBase B) (nm cn : Nat → String)
    (hinj : ∀ i j, nm i = nm j → i = j) (hcinj : ∀ i j, cn i = cn j → i = j)
    (hres : ∀ j, nm j ≠ "result") (hcres : ∀ k, cn k ≠ "result") (hdisj : ∀ j k, nm j ≠ cn k)
    (QC : QCtx D) (hcollT : ∀ name, B.collType name = QC.collType name)
    (c : Chain) (cols : List (String × NE)) (hhyp : NElemHyp QC c cols)
    (σc : Env D) (hσ : ∀ k, k < cols.length → (σc (cn k)).isSome = true)
    (rows : List (List (Val D)))
    (hden : denoteRows QC (NQ.toQuery (.elemRows c cols)) = .ok rows) :
    ∃ σ', runEvent (compileN B nm cn (.elemRows c cols)) QC.N σc QC.ev = .ok (rows, σ') ∧
      ∀ k, k < cols.length → (σ' (cn k)).isSome = true := by
  obtain ⟨hwo, hwtc, hmt⟩ := hhyp
  let es := cols.map (·.2)
  let qs := es.map (neQ "r")
  have hqs : (cols.map fun p => neQ "r" p.2) = qs := by simp [qs, es, List.map_map]
  have hden' : denoteRows QC (.select (.selectMany .ds "e" (chainQ "e" c)) "r" (.dict (cols.map (·.1)) qs)) = .ok rows := by
    rw [← hqs]; exact hden
  obtain ⟨ws, hchain, hrows⟩ := selectManyRows_denote QC c "r" (cols.map (·.1)) qs (by simp [qs, es]) rows hden'
  obtain ⟨cty, l, hct, hfind, hel⟩ := chainQ_ok QC _ "e" c ws hchain
  have hcoll : B.collType c.coll = some cty := by rw [hcollT]; exact hct
  let mlen := cols.length
  let m := outerNext B nm c 0
  let K : CExpr → Option Ty → List Stmt := fun cur ty => (rowKN B nm cn es cur ty m).1
  let P := compileN B nm cn (.elemRows c cols)
  let C := P.ctx QC.N QC.ev
  have heslen : es.length = mlen := by simp [es, mlen]
  have hCcols : C.cols = colNames cn es.length 0 := by
    simp only [C, Package.ctx, P, compileN]
    rw [zip_map_snd _ _ (by simp [colVarsN_names, colNames_length])]
    rw [colVarsN_names]
  have hbody : P.body = .block ((compChain B nm c 0 K).decls ++ (compChain B nm c 0 K).stmts) := rfl
  let s1 : St D := ⟨σc.declare (nm 0), []⟩
  have hdecl : execs C (compChain B nm c 0 K).decls ⟨σc, []⟩ = .ok s1 := by
    simp [compChain, execs, exec, hB.handleNotVec, s1]
  let Pinv : St D → List (List (Val D)) → Prop := fun s acc => s.rows = acc ∧ ∀ k, k < mlen → (s.env (cn k)).isSome = true
  let g : List (List (Val D)) → Val D → Except Fault (List (List (Val D))) := fun a w =>
    match denotes QC [("r", w)] qs with
    | .ok row => .ok (a ++ [row])
    | .error e => .error e
  have hmt' := hmt cty l hfind
  have htok : TokChain B nm C c 0 := tokChain_of_tokens B nm c 0 K C rfl
  have hm3 : 0 + 3 ≤ m := outerNext_ge B nm c 0
  have htynone := wtOuter_ty hwo B.elemPtr (.var (nm (0 + 1)))
  obtain ⟨s', hex, hP'⟩ := compChain_correct_tok (β := List (List (Val D))) C QC rfl B hB nm hinj hres c 0 htok K cty l ws hcoll hfind
    (wtOuter_steps hwo) (fun v hv => (hmt' v hv).1) Pinv g (fun v => ∀ p ∈ cols, NEHyp QC v p.2) (fun v hv => (hmt' v hv).2)
    (by
      intro s t acc hPs hr hfr
      refine ⟨by rw [hr]; exact hPs.1, fun k hk => ?_⟩
      rw [hfr (cn k) (by
        rintro (⟨j, _, _, hj⟩ | hj)
        · exact hdisj j k hj.symm
        · exact hcres k hj)]
      exact hPs.2 k hk)
    (by
      intro s acc acc' w v hPs hg hev _ hobj
      obtain ⟨rfl, hq⟩ := hobj htynone
      simp only [g] at hg
      cases hrow : denotes QC [("r", w)] qs with
      | error e => rw [hrow] at hg; simp at hg
      | ok row =>
        rw [hrow] at hg; simp only [Except.ok.injEq] at hg; subst hg
        obtain ⟨s2, hex2, hrows2, hdecl2⟩ := rowKN_correct C QC rfl B nm cn hinj hcinj hdisj es
          (stepConds B.elemPtr (.var (nm (0 + 1))) none c.steps).2.1
          (stepConds B.elemPtr (.var (nm (0 + 1))) none c.steps).2.2 w "r" [] m hCcols
          (by
            intro y hy
            have := outerCur_vars B nm c 0 y hy
            rw [this]
            exact ⟨fun j hj e => by have := hinj _ _ e; omega, fun k => hdisj _ k⟩)
          (by
            intro e he
            simp only [es, List.mem_map] at he
            obtain ⟨p, hp, rfl⟩ := he
            exact hwtc p hp)
          (by
            intro e he
            simp only [es, List.mem_map] at he
            obtain ⟨p, hp, rfl⟩ := he
            exact hq p hp)
          row hrow s hev (by intro k hk; exact hPs.2 k (by rw [← heslen]; exact hk))
        refine ⟨s2, hex2, by rw [hrows2, hPs.1], fun k hk => hdecl2 k (by rw [heslen]; exact hk)⟩)
    s1 [] ([] ++ rows) (by simp [s1, Env.declare]) hel (foldG_rowsQ QC "r" qs ws [] rows hrows)
    ⟨rfl, fun k hk => by
      have : cn k ≠ nm 0 := fun e => hdisj 0 k e.symm
      simp only [s1, Env.declare, this, if_false]; exact hσ k hk⟩
  refine ⟨keepClass P.classVars s'.env, ?_, ?_⟩
  · simp only [runEvent]
    rw [show P.body = .block ((compChain B nm c 0 K).decls ++ (compChain B nm c 0 K).stmts) from hbody]
    simp only [exec]
    rw [execs_append, hdecl]
    simp only []
    rw [hex]
    simp only [hP'.1, List.nil_append]
    rfl
  · intro k hk
    have hmem : cn k ∈ P.classVars.map (·.2) := by
      have h1 : cn k ∈ (colVarsN cn es 0).map (·.2) := by
        rw [colVarsN_names]; exact mem_colNames cn _ 0 k (Nat.zero_le _) (by rw [heslen]; simpa using hk)
      simp only [P, compileN, List.map_append, List.mem_append]
      exact Or.inr h1
    have hany : P.classVars.any (fun p => decide (p.2 = cn k)) = true := by
      obtain ⟨p, hp, hpe⟩ := List.mem_map.1 hmem
      simp only [List.any_eq_true, decide_eq_true_eq]
      exact ⟨p, hp, hpe⟩
    simp only [keepClass, hany, if_true]
    exact hP'.2 k hk

end FaxVerif.Gen
