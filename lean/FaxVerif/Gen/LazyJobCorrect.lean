/-
Gen — JOB-level correctness of the translator model on the LAZY fragment (`Gen/Lazy.lean`: element-level rows
whose filters and columns use Python's lazy operators `and` / `or` / `x if c else y`, lowered by the translator
to statements with result variables `bool_opN` / `if_else_resultN`).

`elemRowsL_correct_post` (Gen/LazyElemRowsCorrect.lean) says what ONE call of the per-event method does: from a
class state in which the column variables are declared it writes the rows the query denotes on that event and
leaves such a class state again. Here this is iterated over a job (`Cpp.runJob`):

  * `lfragPre_classInit`        the initial class state satisfies the precondition;
  * `lfragEvent_correct_post`   one event, stated over `FQL`;
  * `lazy_jobFrom_correct`      a job from ANY admissible class state;
  * `lazy_job_correct`          a job over ANY list of events writes the concatenation of what the query denotes
                                on each event;
  * `lazy_job_blocks`           ... block by block;
  * `lazy_job_split`, `lazy_job_prefix_independent`, `lazy_job_perm`   the consequences C05 talks about.

The result variables of the lowered operators are block-local declarations (`Gen.compLE`): they are re-declared
every time their block is entered, so no `bool_opN` / `if_else_resultN` of one element — let alone of one event —
is visible to the next. That is what the single-event theorem establishes from ANY admissible class state; the
job theorems only iterate it.
-/
import FaxVerif.Gen.LazyElemRowsCorrect
import FaxVerif.Gen.JobCorrect
namespace FaxVerif.Gen
open FaxVerif.Cpp FaxVerif.Linq
variable {D : Type}

/-- per-event side conditions of the single-event theorem: static well-typedness of the steps and the columns
(independent of the event) and accessors returning the declared kinds on the elements of THIS event -/
def LFragHyp (QC : QCtx D) : FQL → Prop
  | .elemRows c cols =>
      wtStepsL none c.steps = true ∧
      (∀ p ∈ cols, wtLE (chainTyL none c.steps) p.2 = true) ∧
      (∀ cty l, QC.ev.find c.bank = some (cty, .vec l) →
        ∀ v ∈ l, MethTyped v (methsStepsL c.steps) ∧ ∀ p ∈ cols, MethTyped v (methsLE p.2))

/-- what the class state must satisfy when the per-event method is entered: the column variables are declared -/
def LFragPre (cn : Nat → String) : FQL → Env D → Prop
  | .elemRows _ cols, σ => ∀ k, k < cols.length → (σ (cn k)).isSome = true

/-- **the initial class state satisfies the precondition** of the single-event theorem (the miniAOD token
member, declared before the column variables, does not interfere: `classInit` declares every class variable). -/
theorem lfragPre_classInit (B : Backend) (nm cn : Nat → String) (fq : FQL) :
    LFragPre cn fq (classInit (compileL B nm cn fq).classVars : Env D) := by
  cases fq with
  | elemRows c cols =>
    intro k hk
    apply classInit_isSome
    have h1 : cn k ∈ (colVarsL cn (chainTyL none c.steps) (cols.map (·.2)) 0).map (·.2) := by
      rw [colVarsL_names]; exact mem_colNames cn _ 0 k (Nat.zero_le _) (by simpa using hk)
    simp only [compileL, List.map_append, List.mem_append]
    exact Or.inr h1

/-- **one event, with the state it leaves** — for every query of the lazy fragment: from a class state
satisfying `LFragPre`, on an event where the query denotes `rows`, the emitted package writes exactly `rows`
and leaves a class state satisfying `LFragPre` again. -/
theorem lfragEvent_correct_post (B : Backend) (hB : BackendBase B) (nm cn : Nat → String)
    (hinj : ∀ i j, nm i = nm j → i = j) (hcinj : ∀ i j, cn i = cn j → i = j)
    (hres : ∀ j, nm j ≠ "result") (hcres : ∀ k, cn k ≠ "result") (hdisj : ∀ j k, nm j ≠ cn k)
    (QC : QCtx D) (hcollT : ∀ name, B.collType name = QC.collType name)
    (fq : FQL) (hhyp : LFragHyp QC fq) (σc : Env D) (hσ : LFragPre cn fq σc)
    (rows : List (List (Val D))) (hden : denoteRows QC fq.toQuery = .ok rows) :
    ∃ σ', runEvent (compileL B nm cn fq) QC.N σc QC.ev = .ok (rows, σ') ∧ LFragPre cn fq σ' := by
  cases fq with
  | elemRows c cols =>
    obtain ⟨h1, h2, h3⟩ := hhyp
    exact elemRowsL_correct_post B hB nm cn hinj hcinj hres hcres hdisj QC hcollT c cols h1 h2 h3 σc hσ rows hden

/-- the job from any admissible class state -/
theorem lazy_jobFrom_correct (B : Backend) (hB : BackendBase B) (nm cn : Nat → String)
    (hinj : ∀ i j, nm i = nm j → i = j) (hcinj : ∀ i j, cn i = cn j → i = j)
    (hres : ∀ j, nm j ≠ "result") (hcres : ∀ k, cn k ≠ "result") (hdisj : ∀ j k, nm j ≠ cn k)
    (QC : QCtx D) (hcollT : ∀ name, B.collType name = QC.collType name)
    (fq : FQL) (evs : List (Event D)) (hhyp : ∀ ev ∈ evs, LFragHyp (QC.withEvent ev) fq)
    (σc : Env D) (hσ : LFragPre cn fq σc)
    (rows : List (List (Val D))) (hden : denoteJob QC fq.toQuery evs = .ok rows) :
    runJobFrom (compileL B nm cn fq) QC.N σc evs = .ok rows := by
  obtain ⟨hall, rfl⟩ := denoteJob_ok QC fq.toQuery evs rows hden
  apply runJobFrom_inv (compileL B nm cn fq) QC.N (LFragPre cn fq) (rowsOf QC fq.toQuery) evs σc hσ
  intro ev hm σ hσ'
  exact lfragEvent_correct_post B hB nm cn hinj hcinj hres hcres hdisj (QC.withEvent ev) hcollT fq (hhyp ev hm) σ hσ'
    _ (hall ev hm)

/-- **job correctness (lazy fragment)** — for every query of the lazy fragment, every backend satisfying
`BackendBase`, every number model and EVERY list of events: if the query is defined on each event of the job
(with the per-event side conditions), the emitted package, run as one job from the initial class state, writes
exactly the rows the query denotes on the first event, then those of the second, … — nothing is lost,
duplicated, reordered or carried over between events (no `bool_opN`, `if_else_resultN` or column variable
survives into the next event in a way that matters). -/
theorem lazy_job_correct (B : Backend) (hB : BackendBase B) (nm cn : Nat → String)
    (hinj : ∀ i j, nm i = nm j → i = j) (hcinj : ∀ i j, cn i = cn j → i = j)
    (hres : ∀ j, nm j ≠ "result") (hcres : ∀ k, cn k ≠ "result") (hdisj : ∀ j k, nm j ≠ cn k)
    (QC : QCtx D) (hcollT : ∀ name, B.collType name = QC.collType name)
    (fq : FQL) (evs : List (Event D)) (hhyp : ∀ ev ∈ evs, LFragHyp (QC.withEvent ev) fq)
    (rows : List (List (Val D))) (hden : denoteJob QC fq.toQuery evs = .ok rows) :
    runJob (compileL B nm cn fq) QC.N evs = .ok rows :=
  lazy_jobFrom_correct B hB nm cn hinj hcinj hres hcres hdisj QC hcollT fq evs hhyp _
    (lfragPre_classInit B nm cn fq) rows hden

/-- **block form** — if the query denotes the row blocks `rs` event by event, the job writes their concatenation. -/
theorem lazy_job_blocks (B : Backend) (hB : BackendBase B) (nm cn : Nat → String)
    (hinj : ∀ i j, nm i = nm j → i = j) (hcinj : ∀ i j, cn i = cn j → i = j)
    (hres : ∀ j, nm j ≠ "result") (hcres : ∀ k, cn k ≠ "result") (hdisj : ∀ j k, nm j ≠ cn k)
    (QC : QCtx D) (hcollT : ∀ name, B.collType name = QC.collType name)
    (fq : FQL) (evs : List (Event D)) (hhyp : ∀ ev ∈ evs, LFragHyp (QC.withEvent ev) fq)
    (rs : List (List (List (Val D)))) (hblk : DenoteBlocks QC fq.toQuery evs rs) :
    runJob (compileL B nm cn fq) QC.N evs = .ok rs.flatten :=
  lazy_job_correct B hB nm cn hinj hcinj hres hcres hdisj QC hcollT fq evs hhyp _
    (denoteJob_blocks QC fq.toQuery evs rs hblk)

/-- **split** — one job over `xs ++ ys` writes what a job over `xs` followed by a SEPARATE job over `ys`
(fresh class state) write. -/
theorem lazy_job_split (B : Backend) (hB : BackendBase B) (nm cn : Nat → String)
    (hinj : ∀ i j, nm i = nm j → i = j) (hcinj : ∀ i j, cn i = cn j → i = j)
    (hres : ∀ j, nm j ≠ "result") (hcres : ∀ k, cn k ≠ "result") (hdisj : ∀ j k, nm j ≠ cn k)
    (QC : QCtx D) (hcollT : ∀ name, B.collType name = QC.collType name)
    (fq : FQL) (xs ys : List (Event D)) (hhyp : ∀ ev ∈ xs ++ ys, LFragHyp (QC.withEvent ev) fq)
    (r₁ r₂ : List (List (Val D)))
    (h₁ : denoteJob QC fq.toQuery xs = .ok r₁) (h₂ : denoteJob QC fq.toQuery ys = .ok r₂) :
    runJob (compileL B nm cn fq) QC.N xs = .ok r₁ ∧ runJob (compileL B nm cn fq) QC.N ys = .ok r₂ ∧
    runJob (compileL B nm cn fq) QC.N (xs ++ ys) = .ok (r₁ ++ r₂) :=
  ⟨lazy_job_correct B hB nm cn hinj hcinj hres hcres hdisj QC hcollT fq xs (fun ev hm => hhyp ev (by simp [hm])) r₁ h₁,
   lazy_job_correct B hB nm cn hinj hcinj hres hcres hdisj QC hcollT fq ys (fun ev hm => hhyp ev (by simp [hm])) r₂ h₂,
   lazy_job_correct B hB nm cn hinj hcinj hres hcres hdisj QC hcollT fq (xs ++ ys) hhyp _ (denoteJob_append QC _ xs ys r₁ r₂ h₁ h₂)⟩

/-- **prefix independence** — in a job `pre ++ ev :: post` the rows written for `ev` are exactly those of
running `ev` ALONE from the initial class state (= what the query denotes on `ev`), whatever events preceded it. -/
theorem lazy_job_prefix_independent (B : Backend) (hB : BackendBase B) (nm cn : Nat → String)
    (hinj : ∀ i j, nm i = nm j → i = j) (hcinj : ∀ i j, cn i = cn j → i = j)
    (hres : ∀ j, nm j ≠ "result") (hcres : ∀ k, cn k ≠ "result") (hdisj : ∀ j k, nm j ≠ cn k)
    (QC : QCtx D) (hcollT : ∀ name, B.collType name = QC.collType name)
    (fq : FQL) (pre : List (Event D)) (ev : Event D) (post : List (Event D))
    (hhyp : ∀ e ∈ pre ++ ev :: post, LFragHyp (QC.withEvent e) fq)
    (r : List (List (Val D))) (hden : denoteJob QC fq.toQuery (pre ++ ev :: post) = .ok r) :
    ∃ rp re rq σ',
      runJob (compileL B nm cn fq) QC.N pre = .ok rp ∧
      runEvent (compileL B nm cn fq) QC.N (classInit (compileL B nm cn fq).classVars) ev = .ok (re, σ') ∧
      denoteRows (QC.withEvent ev) fq.toQuery = .ok re ∧
      runJob (compileL B nm cn fq) QC.N post = .ok rq ∧
      runJob (compileL B nm cn fq) QC.N (pre ++ ev :: post) = .ok (rp ++ re ++ rq) := by
  obtain ⟨hall, hr⟩ := denoteJob_ok QC fq.toQuery _ r hden
  have hpre := denoteJob_of_all QC fq.toQuery pre (fun e hm => hall e (by simp [hm]))
  have hpost := denoteJob_of_all QC fq.toQuery post (fun e hm => hall e (by simp [hm]))
  have hev := hall ev (by simp)
  obtain ⟨σ', hrun, _⟩ := lfragEvent_correct_post B hB nm cn hinj hcinj hres hcres hdisj (QC.withEvent ev) hcollT fq
    (hhyp ev (by simp)) _ (lfragPre_classInit B nm cn fq) _ hev
  refine ⟨_, _, _, σ', lazy_job_correct B hB nm cn hinj hcinj hres hcres hdisj QC hcollT fq pre
      (fun e hm => hhyp e (by simp [hm])) _ hpre, hrun, hev,
    lazy_job_correct B hB nm cn hinj hcinj hres hcres hdisj QC hcollT fq post (fun e hm => hhyp e (by simp [hm])) _ hpost, ?_⟩
  have := lazy_job_correct B hB nm cn hinj hcinj hres hcres hdisj QC hcollT fq _ hhyp r hden
  rw [this, hr]
  simp

/-- **any clean start** — the rows an event writes do not depend on the class state it is entered with, as long
as that state has the column variables declared: from ANY two such states (the initial one, the one left by any
earlier events, one holding arbitrary values in the columns) the event writes the same rows. -/
theorem lazy_event_history_free (B : Backend) (hB : BackendBase B) (nm cn : Nat → String)
    (hinj : ∀ i j, nm i = nm j → i = j) (hcinj : ∀ i j, cn i = cn j → i = j)
    (hres : ∀ j, nm j ≠ "result") (hcres : ∀ k, cn k ≠ "result") (hdisj : ∀ j k, nm j ≠ cn k)
    (QC : QCtx D) (hcollT : ∀ name, B.collType name = QC.collType name)
    (fq : FQL) (hhyp : LFragHyp QC fq) (σ₁ σ₂ : Env D) (h₁ : LFragPre cn fq σ₁) (h₂ : LFragPre cn fq σ₂)
    (rows : List (List (Val D))) (hden : denoteRows QC fq.toQuery = .ok rows) :
    ∃ σ₁' σ₂', runEvent (compileL B nm cn fq) QC.N σ₁ QC.ev = .ok (rows, σ₁') ∧
      runEvent (compileL B nm cn fq) QC.N σ₂ QC.ev = .ok (rows, σ₂') := by
  obtain ⟨σ₁', hr1, _⟩ := lfragEvent_correct_post B hB nm cn hinj hcinj hres hcres hdisj QC hcollT fq hhyp σ₁ h₁ rows hden
  obtain ⟨σ₂', hr2, _⟩ := lfragEvent_correct_post B hB nm cn hinj hcinj hres hcres hdisj QC hcollT fq hhyp σ₂ h₂ rows hden
  exact ⟨σ₁', σ₂', hr1, hr2⟩

/-- **order independence** — processing the events in any other order gives the same per-event row blocks in
that order: the two outputs are permutations of each other (and the permuted job completes too). -/
theorem lazy_job_perm (B : Backend) (hB : BackendBase B) (nm cn : Nat → String)
    (hinj : ∀ i j, nm i = nm j → i = j) (hcinj : ∀ i j, cn i = cn j → i = j)
    (hres : ∀ j, nm j ≠ "result") (hcres : ∀ k, cn k ≠ "result") (hdisj : ∀ j k, nm j ≠ cn k)
    (QC : QCtx D) (hcollT : ∀ name, B.collType name = QC.collType name)
    (fq : FQL) (evs evs' : List (Event D)) (hp : evs.Perm evs')
    (hhyp : ∀ ev ∈ evs, LFragHyp (QC.withEvent ev) fq)
    (r : List (List (Val D))) (hden : denoteJob QC fq.toQuery evs = .ok r) :
    ∃ r', runJob (compileL B nm cn fq) QC.N evs = .ok r ∧ runJob (compileL B nm cn fq) QC.N evs' = .ok r' ∧
      denoteJob QC fq.toQuery evs' = .ok r' ∧ r.Perm r' := by
  obtain ⟨hall, hr⟩ := denoteJob_ok QC fq.toQuery evs r hden
  have hden' := denoteJob_of_all QC fq.toQuery evs' (fun e hm => hall e (hp.symm.subset hm))
  refine ⟨_, lazy_job_correct B hB nm cn hinj hcinj hres hcres hdisj QC hcollT fq evs hhyp r hden,
    lazy_job_correct B hB nm cn hinj hcinj hres hcres hdisj QC hcollT fq evs' (fun e hm => hhyp e (hp.symm.subset hm)) _ hden',
    hden', ?_⟩
  rw [hr]
  exact (hp.map _).flatten

end FaxVerif.Gen
