/-
Gen — the token table of a package (CMS miniAOD: collections are retrieved through
`edm::EDGetTokenT` members initialised in the constructor with the bank's input tag).

`compile` emits the table itself (`Package.tokens = banksOf B stmts (colBanks cols)`): the token of
every retrieval block, paired with the bank of the chain it belongs to. This file proves that the
table binds, for every chain of an event-level row, the token its retrieval uses to that chain's
own container type and bank (`tokCols_eventRows`) — the hypothesis `TokChain` / `TokEE` / `TokCols`
the chain-, expression- and column-level correctness theorems carry. It follows from the name
supply being injective (every retrieval has its own token).
-/
import FaxVerif.Gen.DeclsCorrect
namespace FaxVerif.Gen
open FaxVerif.Cpp FaxVerif.Linq
variable {D : Type}

/-! ## the hypothesis, per column and per column list -/

def TokCol (B : Backend) (nm : Nat → String) (C : Ctx D) : Col → Nat → Prop
  | .scalar e, n => TokEE B nm C e n
  | .seq c, n => TokChain B nm C c n
  | .first c, n => TokChain B nm C c (n + 1)

def TokCols (B : Backend) (nm cn : Nat → String) (C : Ctx D) : List Col → Nat → Nat → Prop
  | [], _, _ => True
  | c :: cs, idx, n => TokCol B nm C c n ∧ TokCols B nm cn C cs (idx + 1) (compCol B nm cn idx c n).next

theorem tokCol_of_notToken {B : Backend} (h : B.how ≠ "token") (nm : Nat → String) (C : Ctx D) (col : Col) (n : Nat) :
    TokCol B nm C col n := by
  cases col with
  | scalar e => exact tokEE_of_notToken h nm C e n
  | seq c => exact tokChain_of_notToken h nm C c n
  | first c => exact tokChain_of_notToken h nm C c (n + 1)

theorem tokCols_of_notToken {B : Backend} (h : B.how ≠ "token") (nm cn : Nat → String) (C : Ctx D) :
    ∀ (cols : List Col) (idx n : Nat), TokCols B nm cn C cols idx n
  | [], _, _ => trivial
  | c :: cs, idx, n => ⟨tokCol_of_notToken h nm C c n, tokCols_of_notToken h nm cn C cs _ _⟩

/-! ## the entries the fragments contribute -/

def eeToks (B : Backend) (nm : Nat → String) : EE → Nat → List (String × String × String)
  | .count c, n => chainToks B nm c (n + 1)
  | .sum c, n => chainToks B nm c (n + 1)
  | .bin _ a b, n => eeToks B nm a n ++ eeToks B nm b (compEE B nm a n).next
  | .cmp _ a b, n => eeToks B nm a n ++ eeToks B nm b (compEE B nm a n).next
  | .neg a, n => eeToks B nm a n
  | .not a, n => eeToks B nm a n
  | .int _, _ => []
  | .dbl _ _, _ => []
  | .bool _, _ => []

def colToks (B : Backend) (nm : Nat → String) : Col → Nat → List (String × String × String)
  | .scalar e, n => eeToks B nm e n
  | .seq c, n => chainToks B nm c n
  | .first c, n => chainToks B nm c (n + 1)

def colsToks (B : Backend) (nm cn : Nat → String) : List Col → Nat → Nat → List (String × String × String)
  | [], _, _ => []
  | c :: cs, idx, n => colToks B nm c n ++ colsToks B nm cn cs (idx + 1) (compCol B nm cn idx c n).next

/-! ## `banksOf` computes exactly these entries (token backend) -/

theorem banksOf_ee (B : Backend) (ht : B.how = "token") (nm : Nat → String) :
    ∀ (e : EE) (n : Nat) (rest : List Stmt) (bs : List String),
      banksOf B ((compEE B nm e n).stmts ++ rest) (colBanks.eeBanks e ++ bs) = eeToks B nm e n ++ banksOf B rest bs
  | .int _, n, rest, bs => by simp [compEE, colBanks.eeBanks, eeToks]
  | .dbl _ _, n, rest, bs => by simp [compEE, colBanks.eeBanks, eeToks]
  | .bool _, n, rest, bs => by simp [compEE, colBanks.eeBanks, eeToks]
  | .count c, n, rest, bs => by
    simp only [compEE, colBanks.eeBanks, eeToks, List.singleton_append]
    exact banksOf_chain B ht nm c (n + 1) _ rest bs
  | .sum c, n, rest, bs => by
    simp only [compEE, colBanks.eeBanks, eeToks, List.singleton_append]
    exact banksOf_chain B ht nm c (n + 1) _ rest bs
  | .bin _ a b, n, rest, bs => by
    simp only [compEE, colBanks.eeBanks, eeToks, List.append_assoc]
    rw [banksOf_ee B ht nm a n, banksOf_ee B ht nm b]
  | .cmp _ a b, n, rest, bs => by
    simp only [compEE, colBanks.eeBanks, eeToks, List.append_assoc]
    rw [banksOf_ee B ht nm a n, banksOf_ee B ht nm b]
  | .neg a, n, rest, bs => by
    simp only [compEE, colBanks.eeBanks, eeToks]
    exact banksOf_ee B ht nm a n rest bs
  | .not a, n, rest, bs => by
    simp only [compEE, colBanks.eeBanks, eeToks]
    exact banksOf_ee B ht nm a n rest bs

theorem banksOf_cols (B : Backend) (ht : B.how = "token") (nm cn : Nat → String) :
    ∀ (cols : List Col) (idx n : Nat) (rest : List Stmt) (bs : List String),
      banksOf B ((compCols B nm cn cols idx n).flatMap (·.stmts) ++ rest) (colBanks cols ++ bs) =
        colsToks B nm cn cols idx n ++ banksOf B rest bs
  | [], idx, n, rest, bs => by simp [compCols, colBanks, colsToks]
  | .scalar e :: cs, idx, n, rest, bs => by
    simp only [compCols, List.flatMap_cons, colBanks, colsToks, colToks, List.append_assoc]
    have h1 : (compCol B nm cn idx (.scalar e) n).stmts = (compEE B nm e n).stmts := rfl
    rw [h1, banksOf_ee B ht nm e n, banksOf_cols B ht nm cn cs]
  | .seq c :: cs, idx, n, rest, bs => by
    simp only [compCols, List.flatMap_cons, colBanks, colsToks, colToks, List.append_assoc, List.cons_append]
    have h1 : (compCol B nm cn idx (.seq c) n).stmts = (compChain B nm c n (fun cur _ => [.push (cn idx) cur])).stmts := rfl
    rw [h1, banksOf_chain B ht nm c n, banksOf_cols B ht nm cn cs]
  | .first c :: cs, idx, n, rest, bs => by
    simp only [compCols, List.flatMap_cons, colBanks, colsToks, colToks, List.append_assoc, List.cons_append]
    have h1 : (compCol B nm cn idx (.first c) n).stmts =
        (compChain B nm c (n + 1) (fun cur _ => [.ite (.var (nm n)) [.set (nm n) (.bool false), .set (cn idx) cur] []])).stmts ++
          [.ite (.var (nm n)) [.throw "First() called on an empty sequence"] []] := rfl
    rw [h1, List.append_assoc, banksOf_chain B ht nm c (n + 1), List.singleton_append, banksOf_ite,
      banksOf_cols B ht nm cn cs]

/-! ## token names are pairwise distinct -/

theorem chainToks_names (B : Backend) (nm : Nat → String) (c : Chain) (n : Nat) (K : CExpr → Option Ty → List Stmt) :
    ∀ y ∈ (chainToks B nm c n).map (·.1), InRange nm n (compChain B nm c n K).next y := by
  intro y hy
  have := compChain_next B nm c n K
  simp only [chainToks, List.map_cons, List.map_nil, List.mem_singleton] at hy
  exact ⟨n + 2, by omega, by omega, hy⟩

theorem eeToks_names (B : Backend) (nm : Nat → String) : ∀ (e : EE) (n : Nat),
    ∀ y ∈ (eeToks B nm e n).map (·.1), InRange nm n (compEE B nm e n).next y
  | .int _, n, y, h => by simp [eeToks] at h
  | .dbl _ _, n, y, h => by simp [eeToks] at h
  | .bool _, n, y, h => by simp [eeToks] at h
  | .count c, n, y, h => by
    simp only [eeToks] at h
    simp only [compEE]
    exact (chainToks_names B nm c (n + 1) _ y h).mono (by omega) (Nat.le_refl _)
  | .sum c, n, y, h => by
    simp only [eeToks] at h
    simp only [compEE]
    exact (chainToks_names B nm c (n + 1) _ y h).mono (by omega) (Nat.le_refl _)
  | .bin _ a b, n, y, h => by
    have h1 := compEE_next_ge B nm a n
    have h2 := compEE_next_ge B nm b (compEE B nm a n).next
    simp only [eeToks, List.map_append, List.mem_append] at h
    simp only [compEE]
    rcases h with h | h
    · exact (eeToks_names B nm a n y h).mono (Nat.le_refl _) h2
    · exact (eeToks_names B nm b _ y h).mono h1 (Nat.le_refl _)
  | .cmp _ a b, n, y, h => by
    have h1 := compEE_next_ge B nm a n
    have h2 := compEE_next_ge B nm b (compEE B nm a n).next
    simp only [eeToks, List.map_append, List.mem_append] at h
    simp only [compEE]
    rcases h with h | h
    · exact (eeToks_names B nm a n y h).mono (Nat.le_refl _) h2
    · exact (eeToks_names B nm b _ y h).mono h1 (Nat.le_refl _)
  | .neg a, n, y, h => by simp only [eeToks] at h; simp only [compEE]; exact eeToks_names B nm a n y h
  | .not a, n, y, h => by simp only [eeToks] at h; simp only [compEE]; exact eeToks_names B nm a n y h

theorem eeToks_nodup (B : Backend) (nm : Nat → String) (hinj : ∀ i j, nm i = nm j → i = j) : ∀ (e : EE) (n : Nat),
    ((eeToks B nm e n).map (·.1)).Nodup
  | .int _, n => by simp [eeToks]
  | .dbl _ _, n => by simp [eeToks]
  | .bool _, n => by simp [eeToks]
  | .count c, n => by simp [eeToks, chainToks]
  | .sum c, n => by simp [eeToks, chainToks]
  | .bin _ a b, n => by
    simp only [eeToks, List.map_append]
    exact nodup_append_ranges hinj (eeToks_nodup B nm hinj a n) (eeToks_nodup B nm hinj b _)
      (eeToks_names B nm a n) (eeToks_names B nm b _)
  | .cmp _ a b, n => by
    simp only [eeToks, List.map_append]
    exact nodup_append_ranges hinj (eeToks_nodup B nm hinj a n) (eeToks_nodup B nm hinj b _)
      (eeToks_names B nm a n) (eeToks_names B nm b _)
  | .neg a, n => by simpa [eeToks] using eeToks_nodup B nm hinj a n
  | .not a, n => by simpa [eeToks] using eeToks_nodup B nm hinj a n

theorem colToks_names (B : Backend) (nm cn : Nat → String) (idx : Nat) (col : Col) (n : Nat) :
    ∀ y ∈ (colToks B nm col n).map (·.1), InRange nm n (compCol B nm cn idx col n).next y := by
  cases col with
  | scalar e => simpa [colToks, compCol] using eeToks_names B nm e n
  | seq c => intro y hy; simp only [colToks] at hy; simp only [compCol]; exact chainToks_names B nm c n _ y hy
  | first c =>
    intro y hy
    simp only [colToks] at hy
    simp only [compCol]
    exact (chainToks_names B nm c (n + 1) _ y hy).mono (by omega) (Nat.le_refl _)

theorem colToks_nodup (B : Backend) (nm : Nat → String) (hinj : ∀ i j, nm i = nm j → i = j) (col : Col) (n : Nat) :
    ((colToks B nm col n).map (·.1)).Nodup := by
  cases col with
  | scalar e => simpa [colToks] using eeToks_nodup B nm hinj e n
  | seq c => simp [colToks, chainToks]
  | first c => simp [colToks, chainToks]

theorem colsToks_names (B : Backend) (nm cn : Nat → String) : ∀ (cols : List Col) (idx n : Nat),
    ∀ y ∈ (colsToks B nm cn cols idx n).map (·.1), InRange nm n (colsNext B nm cn cols idx n) y
  | [], _, _, y, h => by simp [colsToks] at h
  | c :: cs, idx, n, y, h => by
    have h1 := compCol_next_ge B nm cn idx c n
    have h2 := colsNext_ge B nm cn cs (idx + 1) (compCol B nm cn idx c n).next
    simp only [colsToks, List.map_append, List.mem_append] at h
    simp only [colsNext]
    rcases h with h | h
    · exact (colToks_names B nm cn idx c n y h).mono (Nat.le_refl _) h2
    · exact (colsToks_names B nm cn cs _ _ y h).mono h1 (Nat.le_refl _)

theorem colsToks_nodup (B : Backend) (nm cn : Nat → String) (hinj : ∀ i j, nm i = nm j → i = j) :
    ∀ (cols : List Col) (idx n : Nat), ((colsToks B nm cn cols idx n).map (·.1)).Nodup
  | [], _, _ => by simp [colsToks]
  | c :: cs, idx, n => by
    simp only [colsToks, List.map_append]
    exact nodup_append_ranges hinj (colToks_nodup B nm hinj c n) (colsToks_nodup B nm cn hinj cs _ _)
      (colToks_names B nm cn idx c n) (colsToks_names B nm cn cs _ _)

/-! ## a table that binds the entries gives the hypotheses -/

theorem tokEE_of_lookup (B : Backend) (nm : Nat → String) (C : Ctx D) : ∀ (e : EE) (n : Nat),
    (∀ t ∈ eeToks B nm e n, C.tokenBank t.1 = some t.2) → TokEE B nm C e n
  | .int _, _, _ => trivial
  | .dbl _ _, _, _ => trivial
  | .bool _, _, _ => trivial
  | .count c, n, h => fun _ => h (nm (n + 1 + 2), (B.collType c.coll).getD "?", c.bank) (by simp [eeToks, chainToks])
  | .sum c, n, h => fun _ => h (nm (n + 1 + 2), (B.collType c.coll).getD "?", c.bank) (by simp [eeToks, chainToks])
  | .bin _ a b, n, h => ⟨tokEE_of_lookup B nm C a n (fun t ht => h t (by simp [eeToks, ht])),
      tokEE_of_lookup B nm C b _ (fun t ht => h t (by simp [eeToks, ht]))⟩
  | .cmp _ a b, n, h => ⟨tokEE_of_lookup B nm C a n (fun t ht => h t (by simp [eeToks, ht])),
      tokEE_of_lookup B nm C b _ (fun t ht => h t (by simp [eeToks, ht]))⟩
  | .neg a, n, h => tokEE_of_lookup B nm C a n (fun t ht => h t (by simpa [eeToks] using ht))
  | .not a, n, h => tokEE_of_lookup B nm C a n (fun t ht => h t (by simpa [eeToks] using ht))

theorem tokCol_of_lookup (B : Backend) (nm : Nat → String) (C : Ctx D) (col : Col) (n : Nat)
    (h : ∀ t ∈ colToks B nm col n, C.tokenBank t.1 = some t.2) : TokCol B nm C col n := by
  cases col with
  | scalar e => exact tokEE_of_lookup B nm C e n h
  | seq c => exact fun _ => h (nm (n + 2), (B.collType c.coll).getD "?", c.bank) (by simp [colToks, chainToks])
  | first c => exact fun _ => h (nm (n + 1 + 2), (B.collType c.coll).getD "?", c.bank) (by simp [colToks, chainToks])

theorem tokCols_of_lookup (B : Backend) (nm cn : Nat → String) (C : Ctx D) : ∀ (cols : List Col) (idx n : Nat),
    (∀ t ∈ colsToks B nm cn cols idx n, C.tokenBank t.1 = some t.2) → TokCols B nm cn C cols idx n
  | [], _, _, _ => trivial
  | c :: cs, idx, n, h => ⟨tokCol_of_lookup B nm C c n (fun t ht => h t (by simp [colsToks, ht])),
      tokCols_of_lookup B nm cn C cs _ _ (fun t ht => h t (by simp [colsToks, ht]))⟩

/-- **the token table `compile` emits for event-level rows binds every chain's token** to that
chain's own container type and bank — on every backend (vacuously on those that retrieve by bank
name). -/
theorem tokCols_eventRows (B : Backend) (nm cn : Nat → String) (hinj : ∀ i j, nm i = nm j → i = j)
    (cols : List (String × Col)) (N : Num D) (ev : Event D) :
    TokCols B nm cn ((compile B nm cn (.eventRows cols)).ctx N ev) (cols.map (·.2)) 0 0 := by
  by_cases ht : B.how = "token"
  · have h := banksOf_cols B ht nm cn (cols.map (·.2)) 0 0 [] []
    simp only [List.append_nil] at h
    have htoks : ((compile B nm cn (.eventRows cols)).ctx N ev).tokens = colsToks B nm cn (cols.map (·.2)) 0 0 := by
      simp only [Package.ctx, compile]
      rw [h]; simp [banksOf]
    apply tokCols_of_lookup
    intro t hm
    exact tokenBank_of_mem _ (by rw [htoks]; exact colsToks_nodup B nm cn hinj _ 0 0) t (by rw [htoks]; exact hm)
  · exact tokCols_of_notToken ht nm cn _ _ 0 0

/-! ## backends that retrieve by bank name have an empty table -/

theorem banksOf_chain_notToken (B : Backend) (ht : B.how ≠ "token") (nm : Nat → String) (c : Chain) (n : Nat)
    (K : CExpr → Option Ty → List Stmt) (rest : List Stmt) (bs : List String) :
    banksOf B ((compChain B nm c n K).stmts ++ rest) bs = banksOf B rest bs := by
  simp [compChain, ht, banksOf]

theorem banksOf_ee_notToken (B : Backend) (ht : B.how ≠ "token") (nm : Nat → String) :
    ∀ (e : EE) (n : Nat) (rest : List Stmt) (bs : List String),
      banksOf B ((compEE B nm e n).stmts ++ rest) bs = banksOf B rest bs
  | .int _, n, rest, bs => by simp [compEE]
  | .dbl _ _, n, rest, bs => by simp [compEE]
  | .bool _, n, rest, bs => by simp [compEE]
  | .count c, n, rest, bs => by simp only [compEE]; exact banksOf_chain_notToken B ht nm c (n + 1) _ rest bs
  | .sum c, n, rest, bs => by simp only [compEE]; exact banksOf_chain_notToken B ht nm c (n + 1) _ rest bs
  | .bin _ a b, n, rest, bs => by
    simp only [compEE, List.append_assoc]
    rw [banksOf_ee_notToken B ht nm a n, banksOf_ee_notToken B ht nm b]
  | .cmp _ a b, n, rest, bs => by
    simp only [compEE, List.append_assoc]
    rw [banksOf_ee_notToken B ht nm a n, banksOf_ee_notToken B ht nm b]
  | .neg a, n, rest, bs => by simp only [compEE]; exact banksOf_ee_notToken B ht nm a n rest bs
  | .not a, n, rest, bs => by simp only [compEE]; exact banksOf_ee_notToken B ht nm a n rest bs

theorem banksOf_cols_notToken (B : Backend) (ht : B.how ≠ "token") (nm cn : Nat → String) :
    ∀ (cols : List Col) (idx n : Nat) (rest : List Stmt) (bs : List String),
      banksOf B ((compCols B nm cn cols idx n).flatMap (·.stmts) ++ rest) bs = banksOf B rest bs
  | [], idx, n, rest, bs => by simp [compCols]
  | .scalar e :: cs, idx, n, rest, bs => by
    simp only [compCols, List.flatMap_cons, List.append_assoc]
    have h1 : (compCol B nm cn idx (.scalar e) n).stmts = (compEE B nm e n).stmts := rfl
    rw [h1, banksOf_ee_notToken B ht nm e n, banksOf_cols_notToken B ht nm cn cs]
  | .seq c :: cs, idx, n, rest, bs => by
    simp only [compCols, List.flatMap_cons, List.append_assoc]
    have h1 : (compCol B nm cn idx (.seq c) n).stmts = (compChain B nm c n (fun cur _ => [.push (cn idx) cur])).stmts := rfl
    rw [h1, banksOf_chain_notToken B ht nm c n, banksOf_cols_notToken B ht nm cn cs]
  | .first c :: cs, idx, n, rest, bs => by
    simp only [compCols, List.flatMap_cons, List.append_assoc]
    have h1 : (compCol B nm cn idx (.first c) n).stmts =
        (compChain B nm c (n + 1) (fun cur _ => [.ite (.var (nm n)) [.set (nm n) (.bool false), .set (cn idx) cur] []])).stmts ++
          [.ite (.var (nm n)) [.throw "First() called on an empty sequence"] []] := rfl
    rw [h1, List.append_assoc, banksOf_chain_notToken B ht nm c (n + 1), List.singleton_append, banksOf_ite,
      banksOf_cols_notToken B ht nm cn cs]

/-- every token name of the table `compile` emits is a generated local name (never a column variable) -/
theorem tokens_names_eventRows (B : Backend) (nm cn : Nat → String) (cols : List (String × Col)) :
    ∀ t ∈ (compile B nm cn (.eventRows cols)).tokens, ∃ j, t.1 = nm j := by
  intro t hm
  by_cases ht : B.how = "token"
  · have h := banksOf_cols B ht nm cn (cols.map (·.2)) 0 0 [] []
    simp only [List.append_nil] at h
    have htoks : (compile B nm cn (.eventRows cols)).tokens = colsToks B nm cn (cols.map (·.2)) 0 0 := by
      simp only [compile]; rw [h]; simp [banksOf]
    rw [htoks] at hm
    obtain ⟨j, _, _, hj⟩ := colsToks_names B nm cn _ 0 0 t.1 (List.mem_map.2 ⟨t, hm, rfl⟩)
    exact ⟨j, hj⟩
  · have h := banksOf_cols_notToken B ht nm cn (cols.map (·.2)) 0 0 [] (colBanks (cols.map (·.2)))
    simp only [List.append_nil] at h
    have htoks : (compile B nm cn (.eventRows cols)).tokens = [] := by
      simp only [compile]; rw [h]; simp [banksOf]
    rw [htoks] at hm; simp at hm

theorem tokens_names_elemRows (B : Backend) (nm cn : Nat → String) (c : Chain) (cols : List (String × PE)) :
    ∀ t ∈ (compile B nm cn (.elemRows c cols)).tokens, ∃ j, t.1 = nm j := by
  intro t hm
  by_cases ht : B.how = "token"
  · have h := banksOf_chain B ht nm c 0
      (fun cur ty => setCols cn B.elemPtr cur ty (cols.map (·.2)) 0 ++ [.fill (B.fillTree B.treeName)]) [] []
    simp only [List.append_nil] at h
    have htoks : (compile B nm cn (.elemRows c cols)).tokens = chainToks B nm c 0 := by
      simp only [compile]; rw [h]; simp [banksOf]
    rw [htoks] at hm
    simp only [chainToks, List.mem_singleton] at hm
    exact ⟨0 + 2, by rw [hm]⟩
  · have h := banksOf_chain_notToken B ht nm c 0
      (fun cur ty => setCols cn B.elemPtr cur ty (cols.map (·.2)) 0 ++ [.fill (B.fillTree B.treeName)]) [] [c.bank]
    simp only [List.append_nil] at h
    have htoks : (compile B nm cn (.elemRows c cols)).tokens = [] := by
      simp only [compile]; rw [h]; simp [banksOf]
    rw [htoks] at hm; simp at hm

end FaxVerif.Gen
