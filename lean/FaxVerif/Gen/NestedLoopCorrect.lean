/-
Gen — the INNER loop of the nested fragment: a loop over the collection a method of the current (outer)
element returns, `for (auto &&i : cur.m()) { …conditions… K(value) }`.

  * `chainBodyT_correct` / `loopT_correct`: `chainBody_correct` / `loop_correct` of Gen/LoopCorrect.lean
    generalised to elements of an arbitrary declared kind (numbers as well as objects);
  * `innerLoop_correct`: executing the emitted loop from a state in which the outer element expression
    evaluates to `v` performs the fold of the continuation's step function over the elements of `v.m()` the
    inner chain keeps, in order — the collection is an arbitrary collection-valued EXPRESSION of the
    current element, not a retrieved bank;
  * `ichainQ_ok`: what the embedded inner chain denotes, element-at-a-time.
-/
import FaxVerif.Gen.Nested
import FaxVerif.Gen.DeclsCorrect
namespace FaxVerif.Gen
open FaxVerif.Cpp FaxVerif.Linq
variable {D : Type}

theorem chainBodyT_none (nm : Nat → String) (ptr : Bool) (it : CExpr) (steps : List Step) (n : Nat)
    (K : CExpr → Option Ty → List Stmt) : chainBodyT nm ptr it none steps n K = chainBody nm ptr it steps n K := rfl

theorem chainBodyT_next_ge (nm : Nat → String) (ptr : Bool) (it : CExpr) (curTy : Option Ty) (steps : List Step) (n : Nat)
    (K : CExpr → Option Ty → List Stmt) : n ≤ (chainBodyT nm ptr it curTy steps n K).2 := by
  unfold chainBodyT
  cases h : (stepConds ptr it curTy steps).1 with
  | nil => simp [h]
  | cons c cs => simp only [h]; exact andLower_next_ge nm _ n

/-- the next fresh index does not depend on the continuation -/
theorem chainBodyT_next_indep (nm : Nat → String) (ptr : Bool) (it : CExpr) (curTy : Option Ty) (steps : List Step) (n : Nat)
    (K K' : CExpr → Option Ty → List Stmt) :
    (chainBodyT nm ptr it curTy steps n K).2 = (chainBodyT nm ptr it curTy steps n K').2 := by
  unfold chainBodyT
  cases h : (stepConds ptr it curTy steps).1 <;> simp [h]

/-- **loop body for one element of declared kind `curTy`** -/
theorem chainBodyT_correct (C : Ctx D) (QC : QCtx D) (hN : QC.N = C.N) (nm : Nat → String)
    (hinj : ∀ i j, nm i = nm j → i = j) (ptr : Bool) (i : String) (curTy : Option Ty) (steps : List Step) (n : Nat)
    (hi : ∀ j, n ≤ j → i ≠ nm j) (K : CExpr → Option Ty → List Stmt)
    (s : St D) (v : Val D) (o : Option (Val D))
    (hiv : s.env i = some (.val v)) (hty : ∀ t, curTy = some t → HasTy v t) (hwt : wtSteps curTy steps = true)
    (hm : MethTyped v (methsSteps steps)) (hs : elemSem QC steps v = .ok o) :
    let r := stepConds ptr (.var i) curTy steps
    ∃ s1 : St D, s1.rows = s.rows ∧
      (∀ y, ¬ InRange nm n (chainBodyT nm ptr (.var i) curTy steps n K).2 y → s1.env y = s.env y) ∧
      (o = none → execs C (chainBodyT nm ptr (.var i) curTy steps n K).1 s = .ok s1) ∧
      (∀ w, o = some w → execs C (chainBodyT nm ptr (.var i) curTy steps n K).1 s = execs C (K r.2.1 r.2.2) s1 ∧
          evalE C.N s1.env r.2.1 = .ok w ∧ (∀ t, r.2.2 = some t → HasTy w t) ∧ (r.2.2 = none → w = v)) := by
  intro r
  have hcur : evalE QC.N s.env (.var i) = .ok v := by simp [evalE, hiv]
  have hel := elem_correct QC s.env ptr steps (.var i) curTy v o hcur hty hwt hm hs
  have hvars := stepConds_vars ptr steps (.var i) curTy
  have hsame : ∀ σ' : Env D, σ' i = s.env i → evalE C.N σ' r.2.1 = evalE C.N s.env r.2.1 := by
    intro σ' h
    apply evalE_congr
    intro x hx
    have := hvars.2 x hx
    simp only [vars, List.mem_singleton] at this
    rw [this, h]
  cases hc : r.1 with
  | nil =>
    have hbody : chainBodyT nm ptr (.var i) curTy steps n K = (K r.2.1 r.2.2, n) := by
      simp only [chainBodyT]; rw [show (stepConds ptr (.var i) curTy steps).1 = [] from hc]
    rw [hbody]
    refine ⟨s, rfl, fun _ _ => rfl, ?_, ?_⟩
    · intro ho
      have := hel.1 ho
      rw [show (stepConds ptr (.var i) curTy steps).1 = [] from hc] at this
      simp [condsF] at this
    · intro w hw
      obtain ⟨_, h2, h3, h4⟩ := hel.2 w hw
      exact ⟨rfl, by rw [← hN]; exact h2, h3, fun h => (h4 h).1⟩
  | cons c0 cs =>
    have hne : r.1 = c0 :: cs := hc
    have hbody : chainBodyT nm ptr (.var i) curTy steps n K =
        ((andLower nm (c0 :: cs).reverse n).decls ++ (andLower nm (c0 :: cs).reverse n).stmts ++
          [.ite (andLower nm (c0 :: cs).reverse n).val (K r.2.1 r.2.2) []], (andLower nm (c0 :: cs).reverse n).next) := by
      simp only [chainBodyT]; rw [show (stepConds ptr (.var i) curTy steps).1 = c0 :: cs from hc]
    rw [hbody]
    have hfresh : ∀ c ∈ (c0 :: cs).reverse, ∀ x ∈ vars c, ∀ j, n ≤ j → x ≠ nm j := by
      intro c hcm x hx j hj
      have hcm' : c ∈ r.1 := by rw [hne]; simpa [or_comm] using hcm
      have := hvars.1 c hcm' x hx
      simp only [vars, List.mem_singleton] at this
      rw [this]; exact hi j hj
    have hcond : ∀ b, condsF QC.N s.env r.1 = .ok b → ∃ s1 : St D, s1.rows = s.rows ∧
        (∀ y, ¬ InRange nm n (andLower nm (c0 :: cs).reverse n).next y → s1.env y = s.env y) ∧
        execs C ((andLower nm (c0 :: cs).reverse n).decls ++ (andLower nm (c0 :: cs).reverse n).stmts) s = .ok s1 ∧
        evalB C.N s1.env (andLower nm (c0 :: cs).reverse n).val = .ok b := by
      intro b hb
      rw [hN, condsF_eq_condsR, hne] at hb
      obtain ⟨σ', hex, hval, hfr⟩ := andLower_correct C nm hinj (c0 :: cs).reverse n s.env s.rows b hfresh hb
      exact ⟨⟨σ', s.rows⟩, rfl, hfr, hex, hval⟩
    cases o with
    | none =>
      obtain ⟨s1, hr1, hfr1, hex1, hval1⟩ := hcond false (hel.1 rfl)
      obtain ⟨vb, hvb, hbb⟩ := evalB_ok _ _ _ _ hval1
      refine ⟨s1, hr1, hfr1, ?_, by simp⟩
      intro _
      rw [execs_append, hex1]
      simp only [execs, exec, hvb, hbb]
    | some w =>
      obtain ⟨h1, h2, h3, h4⟩ := hel.2 w rfl
      obtain ⟨s1, hr1, hfr1, hex1, hval1⟩ := hcond true h1
      obtain ⟨vb, hvb, hbb⟩ := evalB_ok _ _ _ _ hval1
      refine ⟨s1, hr1, hfr1, by simp, ?_⟩
      intro w' hw'
      simp only [Option.some.injEq] at hw'; subst hw'
      refine ⟨?_, ?_, h3, fun h => (h4 h).1⟩
      · rw [execs_append, hex1]
        simp only [execs, exec, hvb, hbb]
        cases execs C (K r.2.1 r.2.2) s1 <;> rfl
      · rw [hsame s1.env (hfr1 i (by rintro ⟨j, hj1, _, hj3⟩; exact hi j hj1 hj3)), ← hN]
        exact h2

/-- **the loop over elements of declared kind `curTy`** — iterating the emitted body over a list performs
the fold of the continuation's step function over the elements the chain keeps, in order. -/
theorem loopT_correct {β : Type} (C : Ctx D) (QC : QCtx D) (hN : QC.N = C.N) (nm : Nat → String)
    (hinj : ∀ i j, nm i = nm j → i = j) (ptr : Bool) (i : String) (curTy : Option Ty) (steps : List Step) (n : Nat)
    (hi : ∀ j, n ≤ j → i ≠ nm j) (K : CExpr → Option Ty → List Stmt)
    (hwt : wtSteps curTy steps = true)
    (P : St D → β → Prop) (g : β → Val D → Except Fault β)
    (hstable : ∀ (s s' : St D) b, P s b → s'.rows = s.rows →
        (∀ y, y ≠ i → ¬ InRange nm n (chainBodyT nm ptr (.var i) curTy steps n K).2 y → s'.env y = s.env y) → P s' b)
    (hK : ∀ (s : St D) b b' w, P s b → g b w = .ok b' →
        evalE C.N s.env (stepConds ptr (.var i) curTy steps).2.1 = .ok w →
        (∀ t, (stepConds ptr (.var i) curTy steps).2.2 = some t → HasTy w t) →
        ∃ s', execs C (K (stepConds ptr (.var i) curTy steps).2.1 (stepConds ptr (.var i) curTy steps).2.2) s = .ok s' ∧ P s' b') :
    ∀ (l ws : List (Val D)) (s : St D) (b b' : β),
      (∀ v ∈ l, MethTyped v (methsSteps steps)) → (∀ v ∈ l, ∀ t, curTy = some t → HasTy v t) →
      elemsSem QC steps l = .ok ws → foldG g ws b = .ok b' → P s b →
      ∃ s', iter (fun s v => execs C (chainBodyT nm ptr (.var i) curTy steps n K).1 { s with env := s.env.set i v }) l s = .ok s' ∧ P s' b'
  | [], ws, s, b, b', _, _, he, hf, hP => by
    simp only [elemsSem, Except.ok.injEq] at he; subst he
    simp only [foldG, Except.ok.injEq] at hf; subst hf
    exact ⟨s, rfl, hP⟩
  | v :: vs, ws, s, b, b', hmt, hty, he, hf, hP => by
    simp only [elemsSem] at he
    cases ho : elemSem QC steps v with
    | error e => rw [ho] at he; simp at he
    | ok o =>
      rw [ho] at he
      simp only [] at he
      cases hr : elemsSem QC steps vs with
      | error e => rw [hr] at he; simp at he
      | ok rs =>
        rw [hr] at he
        simp only [Except.ok.injEq] at he; subst he
        let s0 : St D := { s with env := s.env.set i v }
        have hP0 : P s0 b := hstable s s0 b hP rfl (fun y hy _ => by simp [s0, Env.set, hy])
        obtain ⟨s1, hr1, hfr1, hnone, hsome⟩ := chainBodyT_correct C QC hN nm hinj ptr i curTy steps n hi K s0 v o
          (by simp [s0, Env.set]) (hty v (by simp)) hwt (hmt v (by simp)) ho
        have hP1 : P s1 b := hstable s0 s1 b hP0 hr1 (fun y _ hy => hfr1 y hy)
        rw [foldG_append] at hf
        cases o with
        | none =>
          simp only [Option.toList, foldG] at hf
          obtain ⟨s', hit, hP'⟩ := loopT_correct C QC hN nm hinj ptr i curTy steps n hi K hwt P g hstable hK vs rs s1 b b'
            (fun u hu => hmt u (by simp [hu])) (fun u hu => hty u (by simp [hu])) hr hf hP1
          refine ⟨s', ?_, hP'⟩
          simp only [iter]
          rw [show ({ s with env := s.env.set i v } : St D) = s0 from rfl, hnone rfl]
          exact hit
        | some w =>
          simp only [Option.toList, foldG] at hf
          cases hg : g b w with
          | error e => rw [hg] at hf; simp at hf
          | ok b1 =>
            rw [hg] at hf
            simp only [] at hf
            obtain ⟨hex, hev, hty', _⟩ := hsome w rfl
            obtain ⟨s2, hK2, hP2⟩ := hK s1 b b1 w hP1 hg hev hty'
            obtain ⟨s', hit, hP'⟩ := loopT_correct C QC hN nm hinj ptr i curTy steps n hi K hwt P g hstable hK vs rs s2 b1 b'
              (fun u hu => hmt u (by simp [hu])) (fun u hu => hty u (by simp [hu])) hr hf hP2
            refine ⟨s', ?_, hP'⟩
            simp only [iter]
            rw [show ({ s with env := s.env.set i v } : St D) = s0 from rfl, hex, hK2]
            exact hit

/-! ## the inner loop -/

/-- the method `ic.meth` of the outer element `v` returns a list whose elements are of the declared
element kind and return, for every accessor the inner chain calls, values of the declared kinds -/
def InnerTyped (v : Val D) (ic : IChain) : Prop :=
  ∀ l, member v ic.meth [] = .ok (.vec l) →
    ∀ u ∈ l, (∀ t, ic.elem = some t → HasTy u t) ∧ MethTyped u (methsSteps ic.steps)

theorem innerLoop_next_ge (nm : Nat → String) (cur : CExpr) (ptr : Bool) (ic : IChain) (n : Nat)
    (K : CExpr → Option Ty → List Stmt) : n + 1 ≤ (innerLoop nm cur ptr ic n K).2 := by
  simp only [innerLoop]
  exact chainBodyT_next_ge nm false _ ic.elem ic.steps (n + 1) K

theorem innerLoop_next_indep (nm : Nat → String) (cur : CExpr) (ptr : Bool) (ic : IChain) (n : Nat)
    (K K' : CExpr → Option Ty → List Stmt) : (innerLoop nm cur ptr ic n K).2 = (innerLoop nm cur ptr ic n K').2 := by
  simp only [innerLoop]
  exact chainBodyT_next_indep nm false _ ic.elem ic.steps (n + 1) K K'

/-- the final value expression / type of the inner chain compiled at `n` -/
def innerCur (nm : Nat → String) (ic : IChain) (n : Nat) : CExpr := (stepConds false (innerVar nm n) ic.elem ic.steps).2.1
def innerTy (nm : Nat → String) (ic : IChain) (n : Nat) : Option Ty := (stepConds false (innerVar nm n) ic.elem ic.steps).2.2

theorem innerTy_eq (nm : Nat → String) (ic : IChain) (n : Nat) : innerTy nm ic n = ichainTy ic := by
  simp only [innerTy, ichainTy]; exact stepConds_ty false ic.steps _ _

theorem innerCur_vars (nm : Nat → String) (ic : IChain) (n : Nat) : ∀ x ∈ vars (innerCur nm ic n), x = nm n := by
  intro x hx
  have := (stepConds_vars false ic.steps (innerVar nm n) ic.elem).2 x hx
  simpa [innerVar, vars] using this

/-- **the inner loop is the fold over the kept inner elements** — from any state in which the outer element
expression evaluates to `v` and `v.m()` is the list `l`: if the inner chain keeps `ws` of `l` and the fold of
the continuation's step function `g` over `ws` from `b` is `b'`, the emitted loop terminates in a state
satisfying the continuation's invariant at `b'`. The invariant must survive changes of the loop's own names
(`nm n … nm (next-1)`: the loop variable and the conditions' result variables) only. -/
theorem innerLoop_correct {β : Type} (C : Ctx D) (QC : QCtx D) (hN : QC.N = C.N) (nm : Nat → String)
    (hinj : ∀ i j, nm i = nm j → i = j) (cur : CExpr) (ptr : Bool) (ic : IChain) (n : Nat)
    (K : CExpr → Option Ty → List Stmt) (hwt : wtSteps ic.elem ic.steps = true)
    (v : Val D) (l ws : List (Val D)) (hmem : member v ic.meth [] = .ok (.vec l)) (hit : InnerTyped v ic)
    (P : St D → β → Prop) (g : β → Val D → Except Fault β)
    (hstable : ∀ (s s' : St D) b, P s b → s'.rows = s.rows →
        (∀ y, ¬ InRange nm n (innerLoop nm cur ptr ic n K).2 y → s'.env y = s.env y) → P s' b)
    (hK : ∀ (s : St D) b b' w, P s b → g b w = .ok b' →
        evalE C.N s.env (innerCur nm ic n) = .ok w → (∀ t, innerTy nm ic n = some t → HasTy w t) →
        ∃ s', execs C (K (innerCur nm ic n) (innerTy nm ic n)) s = .ok s' ∧ P s' b')
    (s : St D) (b b' : β) (hcur : evalE C.N s.env cur = .ok v)
    (hel : elemsSem QC ic.steps l = .ok ws) (hfold : foldG g ws b = .ok b') (hP : P s b) :
    ∃ s', execs C (innerLoop nm cur ptr ic n K).1 s = .ok s' ∧ P s' b' := by
  have hi : ∀ j, n + 1 ≤ j → nm n ≠ nm j := fun j hj e => by have := hinj _ _ e; omega
  have hnext : (innerLoop nm cur ptr ic n K).2 = (chainBodyT nm false (.var (nm n)) ic.elem ic.steps (n + 1) K).2 := rfl
  have hge := chainBodyT_next_ge nm false (.var (nm n)) ic.elem ic.steps (n + 1) K
  obtain ⟨s', hiter, hP'⟩ := loopT_correct C QC hN nm hinj false (nm n) ic.elem ic.steps (n + 1) hi K hwt P g
    (fun t t' b0 hPt hr hfr => hstable t t' b0 hPt hr (fun y hy => by
      apply hfr y
      · intro e; exact hy ⟨n, Nat.le_refl n, by rw [hnext]; omega, e⟩
      · rintro ⟨j, hj1, hj2, hj3⟩; exact hy ⟨j, by omega, by rw [hnext]; exact hj2, hj3⟩))
    hK l ws s b b' (fun u hu => (hit l hmem u hu).2) (fun u hu => (hit l hmem u hu).1) hel hfold hP
  refine ⟨s', ?_, hP'⟩
  simp only [innerLoop, icoll, innerVar, execs, exec, evalE, hcur, evalEs, hmem]
  rw [hiter]

/-! ## the query side of an inner chain -/

/-- If the embedded inner chain denotes a list, the method returns a list and the value is what the kept
elements become. -/
theorem ichainQ_ok (QC : QCtx D) (x : String) (v : Val D) (ρ : LEnv D) (ic : IChain) (ws : List (Val D))
    (h : denote QC ((x, v) :: ρ) (ichainQ x ic) = .ok (.vec ws)) :
    ∃ l, member v ic.meth [] = .ok (.vec l) ∧ elemsSem QC ic.steps l = .ok ws := by
  unfold ichainQ at h
  have hsrc0 : denote QC ((x, v) :: ρ) (.meth (.var x) ic.meth) = member v ic.meth [] := by
    simp [denote, LEnv.get]
  cases hs : member v ic.meth [] with
  | error e =>
    rw [stepsQ_error QC _ e ic.steps _ 0 (by rw [hsrc0, hs])] at h; simp at h
  | ok content =>
    have hsrc : denote QC ((x, v) :: ρ) (.meth (.var x) ic.meth) = .ok content := by rw [hsrc0, hs]
    cases content with
    | vec l =>
      rw [stepsQ_denote QC _ ic.steps _ 0 l hsrc] at h
      cases hcl : chainList QC ic.steps l with
      | error e => rw [hcl] at h; simp at h
      | ok r =>
        rw [hcl] at h
        simp only [Except.ok.injEq, Val.vec.injEq] at h
        subst h
        exact ⟨l, rfl, chainList_elems QC ic.steps l r hcl⟩
    | _ =>
      exfalso
      have := stepsQ_nonvec QC _ _ (by intro l; simp) ic.steps _ 0 hsrc _ h
      simp at this

/-- typing of what an element of declared kind `curTy` becomes -/
theorem elemSemT_typed (QC : QCtx D) (curTy : Option Ty) (steps : List Step) (v w : Val D) (t : Ty)
    (hty : ∀ t, curTy = some t → HasTy v t)
    (hwt : wtSteps curTy steps = true) (hm : MethTyped v (methsSteps steps))
    (hs : elemSem QC steps v = .ok (some w)) (ht : chainTy curTy steps = some t) : HasTy w t := by
  let σ : Env D := fun _ => some (.val v)
  have := (elem_correct QC σ false steps (.var "z") curTy v (some w) (by simp [evalE, σ]) hty hwt hm hs).2 w rfl
  exact this.2.2.1 t (by rw [stepConds_ty]; exact ht)

theorem elemsSemT_typed (QC : QCtx D) (curTy : Option Ty) (steps : List Step) (t : Ty) (hwt : wtSteps curTy steps = true)
    (ht : chainTy curTy steps = some t) : ∀ (l ws : List (Val D)),
    (∀ v ∈ l, (∀ t, curTy = some t → HasTy v t) ∧ MethTyped v (methsSteps steps)) →
    elemsSem QC steps l = .ok ws → ∀ w ∈ ws, HasTy w t
  | [], ws, _, h, w, hw => by simp only [elemsSem, Except.ok.injEq] at h; subst h; simp at hw
  | v :: vs, ws, hm, h, w, hw => by
    simp only [elemsSem] at h
    cases ho : elemSem QC steps v with
    | error e => rw [ho] at h; simp at h
    | ok o =>
      rw [ho] at h; simp only [] at h
      cases hr : elemsSem QC steps vs with
      | error e => rw [hr] at h; simp at h
      | ok rs =>
        rw [hr] at h; simp only [Except.ok.injEq] at h; subst h
        rcases List.mem_append.1 hw with h1 | h1
        · cases o with
          | none => simp at h1
          | some w' =>
            simp only [Option.toList, List.mem_singleton] at h1; subst h1
            exact elemSemT_typed QC curTy steps v w t (hm v (by simp)).1 hwt (hm v (by simp)).2 ho ht
        · exact elemsSemT_typed QC curTy steps t hwt ht vs rs (fun u hu => hm u (by simp [hu])) hr w h1

end FaxVerif.Gen
