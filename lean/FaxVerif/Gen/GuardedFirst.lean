/-
Gen — the guard idiom users write around `First()`:

      c.First()  if  c.Count() != 0  else  d          (written  `d if c.Count() == 0 else c.First()`)

lowered (as the translator does) to

      <decls of the Count>  double r;
      <Count loop>
      if (acc == 0) { r = d; } else { <decls of the First idiom>  <First idiom> }

is SAFE: it never throws, and `r` ends up holding the first kept element of the chain if there is
one and the default otherwise — for every chain, every event, every number model, from ANY state
(all the variables it uses are declared by the code itself).
-/
import FaxVerif.Gen.EventRowsCorrect
namespace FaxVerif.Gen
open FaxVerif.Cpp FaxVerif.Linq
variable {D : Type}

/-- the statements of `d if c.Count() == 0 else c.First()` with result variable `r` -/
def guardedFirst (B : Backend) (nm : Nat → String) (c : Chain) (d : CExpr) (r : String) (n : Nat) : List Stmt :=
  let fc := compEE B nm (.count c) n
  let ff := compCol B nm (fun _ => r) 0 (.first c) fc.next
  ([.decl "double" r none] ++ fc.decls) ++ fc.stmts ++
    [.ite (.bin "==" fc.val (.int 0)) [.set r d] (ff.decls ++ ff.stmts)]

/-- the whole package for `ds.Select(e -> {name: d if c.Count() == 0 else c.First()})` -/
def compileGuarded (B : Backend) (nm cn : Nat → String) (name : String) (c : Chain) (d : CExpr) : Package :=
  { body := .block (guardedFirst B nm c d (cn 1) 0 ++ [.set (cn 0) (.var (cn 1)), .fill (B.fillTree B.treeName)]),
    classVars := [("double", cn 0)],
    branches := [(name, cn 0)],
    tree := B.treeName,
    tokens := [] }

/-- the query it is the translation of -/
def guardedQ (name : String) (c : Chain) (dq : Query) : Query :=
  .select .ds "e" (.dict [name] [.ite (.cmp "==" (.count (chainQ "e" c)) (.int 0)) dq (.first (chainQ "e" c))])

theorem guardedFirst_safe (C : Ctx D) (QC : QCtx D) (hN : QC.N = C.N) (hev : QC.ev = C.ev)
    (B : Backend) (hB : BackendOK B) (nm : Nat → String)
    (hinj : ∀ i j, nm i = nm j → i = j) (hres : ∀ j, nm j ≠ "result")
    (hcollT : ∀ name, B.collType name = QC.collType name)
    (c : Chain) (d : CExpr) (vd : Val D) (hd : ∀ σ : Env D, evalE C.N σ d = .ok vd)
    (r : String) (hr : ∀ j, nm j ≠ r) (hrr : r ≠ "result") (n : Nat)
    (hwt : wtSteps none c.steps = true) (hct : ChainTyped QC c) (hbv : BankIsVec QC c)
    (ws : List (Val D)) (hchain : denote QC [("e", evtVal)] (chainQ "e" c) = .ok (.vec ws))
    (s0 : St D) :
    ∃ s', execs C (guardedFirst B nm c d r n) s0 = .ok s' ∧ s'.rows = s0.rows ∧
      (ws = [] → s'.env r = some (.val vd)) ∧
      (∀ w rest, ws = w :: rest → s'.env r = some (.val w)) ∧
      (∀ y, y ≠ r → (∀ j, y ≠ nm j) → y ≠ "result" → s'.env y = s0.env y) := by
  -- names
  let fc := compEE B nm (.count c) n
  let ff := compCol B nm (fun _ => r) 0 (.first c) fc.next
  have hrT : ∀ lo hi, ¬ Touch nm lo hi r := by
    intro lo hi
    rintro (⟨j, _, _, h⟩ | h)
    · exact hr j h.symm
    · exact hrr h
  -- 1. the declarations at the top
  obtain ⟨hsimple, hnodup⟩ := compEE_declsOK C B hB nm hinj (.count c) n
  have hrnot : r ∉ fc.decls.map declName := by
    intro hm
    obtain ⟨j, _, _, hj⟩ := declsIn_names (compEE_decls B nm (.count c) n) _ hm
    exact hr j hj.symm
  obtain ⟨sD, hexD, hrD, hdoneD, hfrD⟩ := exec_decls C ([.decl "double" r none] ++ fc.decls) s0
    (by
      intro dd hdd
      rcases List.mem_append.1 hdd with h | h
      · simp only [List.mem_singleton] at h; subst h; simp [SimpleDecl, isVecType]; decide
      · exact hsimple dd h)
    (by
      simp only [List.singleton_append, List.map_cons, List.nodup_cons, declName]
      exact ⟨hrnot, hnodup⟩)
  have hrD_some : (sD.env r).isSome = true := by
    have := hdoneD (.decl "double" r none) (by simp)
    simpa [DeclOK] using this
  -- 2. the Count
  have hcount : denote QC [("e", evtVal)] (eeQ "e" (.count c)) = .ok (.int ws.length) := by
    simp only [eeQ, denote, hchain]
  obtain ⟨s1, hex1, hr1, hval1, _, hfr1⟩ := count_correct C QC hN hev B hB nm hinj hres hcollT c n sD (.int ws.length)
    (fun dd hdd => hdoneD dd (List.mem_append.2 (Or.inr hdd))) hwt hct hcount
  have hr1_some : (s1.env r).isSome = true := by rw [hfr1 r (hrT _ _)]; exact hrD_some
  -- what lies outside the generated names is untouched so far
  have hout : ∀ y, y ≠ r → (∀ j, y ≠ nm j) → y ≠ "result" → ¬ Touch nm n fc.next y ∧ s1.env y = s0.env y := by
    intro y hy1 hy2 hy3
    have hnt : ∀ lo hi, ¬ Touch nm lo hi y := by
      intro lo hi
      rintro (⟨j, _, _, h⟩ | h)
      · exact hy2 j h
      · exact hy3 h
    refine ⟨hnt _ _, ?_⟩
    rw [hfr1 y (hnt _ _)]
    apply hfrD
    simp only [List.singleton_append, List.map_cons, List.mem_cons, declName]
    rintro (h | h)
    · exact hy1 h
    · obtain ⟨j, _, _, hj⟩ := declsIn_names (compEE_decls B nm (.count c) n) _ h
      exact hy2 j hj
  -- 3. the test
  have htest : evalE C.N s1.env (.bin "==" fc.val (.int 0)) = .ok (.bool (decide ((ws.length : Int) = 0))) := by
    have : ("==" : String) ≠ "&&" ∧ ("==" : String) ≠ "||" := by decide
    have hval1' : evalE C.N s1.env fc.val = .ok (.int ws.length) := hval1
    simp only [evalE, hval1', this.1, this.2, if_false]
    simp [arith, asInt]
  -- the whole program
  have hprog : guardedFirst B nm c d r n =
      ([.decl "double" r none] ++ fc.decls) ++ fc.stmts ++ [.ite (.bin "==" fc.val (.int 0)) [.set r d] (ff.decls ++ ff.stmts)] := rfl
  rw [hprog, execs_append, execs_append, hexD]
  simp only []
  rw [hex1]
  simp only [execs]
  cases ws with
  | nil =>
    -- the default arm
    rw [exec_ite_of C s1 _ _ _ (.bool true) true (by simpa using htest) (by simp [asBool])]
    simp only [if_true, execs]
    rw [exec_set_ok C s1 r d vd hr1_some (hd s1.env)]
    refine ⟨_, rfl, by simp [hr1, hrD], fun _ => by simp [Env.set], fun w rest h => by simp at h, ?_⟩
    intro y hy1 hy2 hy3
    simp only [Env.set, hy1, if_false]
    exact (hout y hy1 hy2 hy3).2
  | cons w rest =>
    -- the First arm: its declarations, then the idiom
    have hf : decide (((w :: rest).length : Int) = 0) = false := by
      simp only [List.length_cons]; exact decide_eq_false (by omega)
    rw [hf] at htest
    rw [exec_ite_of C s1 _ _ _ (.bool false) false htest (by simp [asBool])]
    simp only [Bool.false_eq_true, if_false]
    obtain ⟨hsF, hndF⟩ := compCol_declsOK C B hB nm (fun _ => r) hinj 0 (.first c) fc.next
    obtain ⟨s2, hex2, hr2, hdone2, hfr2⟩ := exec_decls C ff.decls s1 hsF hndF
    have hr2_some : (s2.env r).isSome = true := by
      rw [hfr2 r]
      · exact hr1_some
      · intro hm
        have hin : DeclsIn nm fc.next ff.next ff.decls := by
          have := compCols_declsIn B nm (fun _ => r) [.first c] 0 fc.next
          simpa [compCols, colsNext] using this
        obtain ⟨j, _, _, hj⟩ := declsIn_names hin _ hm
        exact hr j hj.symm
    have hfirst : denote QC [("e", evtVal)] (colQ "e" (.first c)) = .ok w := by
      simp only [colQ, denote, hchain]
    obtain ⟨s3, hex3, hr3, hready, hfr3⟩ := compCol_correct C QC hN hev B hB nm (fun _ => r) hinj hres
      (fun _ => hrr) (fun j _ => hr j) hcollT (.first c) 0 fc.next s2 w hdone2 hr2_some ⟨hwt, hct, hbv⟩ hfirst
    rw [execs_append, hex2]
    simp only []
    refine ⟨s3, ?_, by rw [hr3, hr2, hr1, hrD], fun h => by simp at h, ?_, ?_⟩
    · have : execs C ff.stmts s2 = .ok s3 := hex3
      rw [this]
    · intro w' rest' h
      simp only [List.cons.injEq] at h
      obtain ⟨rfl, _⟩ := h
      simpa [ColReady, compCol] using hready
    · intro y hy1 hy2 hy3
      have hnt : ∀ lo hi, ¬ Touch nm lo hi y := by
        intro lo hi
        rintro (⟨j, _, _, h⟩ | h)
        · exact hy2 j h
        · exact hy3 h
      rw [hfr3 y hy1 (hnt _ _), hfr2 y, (hout y hy1 hy2 hy3).2]
      intro hm
      have hin : DeclsIn nm fc.next ff.next ff.decls := by
        have := compCols_declsIn B nm (fun _ => r) [.first c] 0 fc.next
        simpa [compCols, colsNext] using this
      obtain ⟨j, _, _, hj⟩ := declsIn_names hin _ hm
      exact hy2 j hj

/-- **the package** for `ds.Select(e -> {name: d if c.Count() == 0 else c.First()})`: on every event it writes
exactly one row, holding the first kept element of the chain if there is one and the default otherwise — it
never fails on an empty sequence — from any class state in which the column variable is declared. -/
theorem compileGuarded_correct (B : Backend) (hB : BackendOK B) (nm cn : Nat → String)
    (hinj : ∀ i j, nm i = nm j → i = j) (hcinj : ∀ i j, cn i = cn j → i = j)
    (hres : ∀ j, nm j ≠ "result") (hcres : ∀ k, cn k ≠ "result") (hdisj : ∀ j k, nm j ≠ cn k)
    (QC : QCtx D) (hcollT : ∀ name, B.collType name = QC.collType name)
    (name : String) (c : Chain) (d : CExpr) (vd : Val D) (hd : ∀ σ : Env D, evalE QC.N σ d = .ok vd)
    (hwt : wtSteps none c.steps = true) (hct : ChainTyped QC c) (hbv : BankIsVec QC c)
    (ws : List (Val D)) (hchain : denote QC [("e", evtVal)] (chainQ "e" c) = .ok (.vec ws))
    (σc : Env D) (hσ : (σc (cn 0)).isSome = true) :
    ∃ σ', runEvent (compileGuarded B nm cn name c d) QC.N σc QC.ev = .ok ([[ws.head?.getD vd]], σ') := by
  let P := compileGuarded B nm cn name c d
  let C := P.ctx QC.N QC.ev
  have h01 : cn 0 ≠ cn 1 := fun e => by have := hcinj _ _ e; omega
  obtain ⟨s1, hex1, hr1, hnil, hcons, hfr⟩ := guardedFirst_safe C QC rfl rfl B hB nm hinj hres hcollT c d vd hd
    (cn 1) (fun j => hdisj j 1) (hcres 1) 0 hwt hct hbv ws hchain ⟨σc, []⟩
  have hval : s1.env (cn 1) = some (.val (ws.head?.getD vd)) := by
    cases ws with
    | nil => simpa using hnil rfl
    | cons w rest => simpa using hcons w rest rfl
  have hc0 : (s1.env (cn 0)).isSome = true := by
    rw [hfr (cn 0) h01 (fun j e => hdisj j 0 e.symm) (hcres 0)]; exact hσ
  have hbody : P.body = .block (guardedFirst B nm c d (cn 1) 0 ++ [.set (cn 0) (.var (cn 1)), .fill (B.fillTree B.treeName)]) := rfl
  have hcols : C.cols = [cn 0] := rfl
  refine ⟨keepClass P.classVars ((s1.env.set (cn 0) (ws.head?.getD vd))), ?_⟩
  show runEvent P QC.N σc QC.ev = _
  simp only [runEvent]
  rw [hbody]
  have : exec (P.ctx QC.N QC.ev) (.block (guardedFirst B nm c d (cn 1) 0 ++ [.set (cn 0) (.var (cn 1)), .fill (B.fillTree B.treeName)])) ⟨σc, []⟩ =
      .ok ⟨s1.env.set (cn 0) (ws.head?.getD vd), [[ws.head?.getD vd]]⟩ := by
    simp only [exec]
    rw [execs_append]
    have : execs C (guardedFirst B nm c d (cn 1) 0) ⟨σc, []⟩ = .ok s1 := hex1
    rw [show P.ctx QC.N QC.ev = C from rfl, this]
    simp only [execs]
    rw [exec_set_ok C s1 (cn 0) (.var (cn 1)) (ws.head?.getD vd) hc0 (by simp [evalE, hval])]
    simp only [exec, hcols, readCols, Env.set, if_true]
    simp [hr1]
  rw [this]

end FaxVerif.Gen
