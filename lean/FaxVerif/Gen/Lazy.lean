/-
Gen — the translator model for element-level expressions with Python's LAZY operators
(`visit_BoolOp`, `visit_IfExp` of ast_to_cpp_translator.py), built beside the pure fragment of
`Gen/Lite.lean` (whose definitions are unchanged):

  * `LE` = the constructors of `PE` + `bop and|or a [b, c, …]` (ONE n-ary node, exactly Python's
    `BoolOp(op, values=[a, b, c, …])`: `a and b and c` is one node with three values, `(a and b) and c`
    is a node whose first value is a node) + `ite c x y` (`x if c else y`);
  * a lazy operator is lowered to STATEMENTS: `bool bool_opN; bool_opN = a; if (bool_opN) { bool_opN = b; } …`
    (`or`: `if (!bool_opN)`), `double if_else_resultN; if (c) { r = x; } else { r = y; }` (the result type
    is always `double`); the result variable is declared at the cursor (the enclosing block's declaration
    list), before the operands are visited; the statements a non-first operand / an arm needs go INSIDE the
    guarding block, declarations included; `set_var` casts with `static_cast<T>` iff the types differ;
  * chains `coll(bank).{Select(pure) | Where(LE)}*` — func_adl fuses consecutive `Where`s into nested binary
    `and`s `((c₁ and c₂) and c₃)`, each condition seeing the value current at its position;
  * element-level rows `ds.SelectMany(e -> chain).Select(x -> {name: LE, …})`.

`Select` lambdas stay pure (`PE`): a lazy `Select` body is shared between its uses through the
translator's per-node cache and where its statements land depends on the cursor at the first use.

No Mathlib; computable. Tied to the implementation by tools/gentie_lazy.py (text modulo renaming).
-/
import FaxVerif.Gen.LiteSpec
namespace FaxVerif.Gen
open FaxVerif.Cpp FaxVerif.Linq

inductive LOp where | and | or
deriving Repr, DecidableEq, Inhabited

/-- element-level expressions with lazy operators over the current element `it` -/
inductive LE where
  | int (n : Nat)
  | dbl (m : Nat) (e : Int)
  | bool (b : Bool)
  | it
  | meth (name : String) (ty : Ty)
  | bin (op : AOp) (a b : LE)
  | cmp (op : COp) (a b : LE)
  | neg (a : LE)
  | not (a : LE)
  | bop (op : LOp) (a : LE) (rest : List LE)      -- BoolOp(op, values = a :: rest)
  | ite (c x y : LE)                              -- x if c else y
deriving Inhabited

/-- the two-operand forms -/
abbrev LE.and (a b : LE) : LE := .bop .and a [b]
abbrev LE.or (a b : LE) : LE := .bop .or a [b]

def LE.ofPE : PE → LE
  | .int n => .int n
  | .dbl m e => .dbl m e
  | .bool b => .bool b
  | .it => .it
  | .meth n t => .meth n t
  | .bin op a b => .bin op (ofPE a) (ofPE b)
  | .cmp op a b => .cmp op (ofPE a) (ofPE b)
  | .neg a => .neg (ofPE a)
  | .not a => .not (ofPE a)

inductive StepL where
  | sel (f : PE)
  | whr (c : LE)
deriving Inhabited

structure ChainL where
  coll : String
  bank : String
  steps : List StepL
deriving Inhabited

inductive FQL where
  | elemRows (c : ChainL) (cols : List (String × LE))   -- ds.SelectMany(e -> chain).Select(x -> {name: le, …})
deriving Inhabited

/-! ## typing -/

/-- the C++ type the translator gives the value: a `BoolOp` result is `bool`, an `IfExp` result `double` -/
def tyLE (cur : Ty) : LE → Ty
  | .int _ => .int
  | .dbl _ _ => .double
  | .bool _ => .bool
  | .it => cur
  | .meth _ ty => ty
  | .bin .div _ _ => .double
  | .bin _ a b => (tyLE cur a).join (tyLE cur b)
  | .cmp _ _ _ => .bool
  | .neg a => tyLE cur a
  | .not _ => .bool                 -- `not x` is a bool whatever the type of x (visit_UnaryOp, fix ea7911a)
  | .bop _ _ _ => .bool
  | .ite _ _ _ => .double

def Ty.isFl : Ty → Bool
  | .float => true
  | .double => true
  | _ => false

mutual
  /-- static well-typedness (`cur = none`: the current value is an object). The arms of a conditional
  must be floating: the emitted result variable is a `double`, so an `int` arm comes back as a
  double where Python keeps the integer — equal numbers, different values of the model. -/
  def wtLE (cur : Option Ty) : LE → Bool
    | .int _ => true
    | .dbl _ _ => true
    | .bool _ => true
    | .it => cur.isSome
    | .meth _ _ => cur.isNone
    | .bin _ a b => wtLE cur a && wtLE cur b && (tyLE (curT cur) a).isNum && (tyLE (curT cur) b).isNum
    | .cmp _ a b => wtLE cur a && wtLE cur b && (tyLE (curT cur) a).isNum && (tyLE (curT cur) b).isNum
    | .neg a => wtLE cur a && (tyLE (curT cur) a).isNum
    | .not a => wtLE cur a && (tyLE (curT cur) a == .bool)
    | .bop _ a rest => wtLE cur a && wtLEs cur rest && (!rest.isEmpty || tyLE (curT cur) a == .bool)
    | .ite c x y => wtLE cur c && wtLE cur x && wtLE cur y && (tyLE (curT cur) x).isFl && (tyLE (curT cur) y).isFl
  def wtLEs (cur : Option Ty) : List LE → Bool
    | [] => true
    | b :: bs => wtLE cur b && wtLEs cur bs
end

mutual
  def methsLE : LE → List (String × Ty)
    | .meth n t => [(n, t)]
    | .bin _ a b => methsLE a ++ methsLE b
    | .cmp _ a b => methsLE a ++ methsLE b
    | .neg a => methsLE a
    | .not a => methsLE a
    | .bop _ a rest => methsLE a ++ methsLEs rest
    | .ite c x y => methsLE c ++ (methsLE x ++ methsLE y)
    | _ => []
  def methsLEs : List LE → List (String × Ty)
    | [] => []
    | b :: bs => methsLE b ++ methsLEs bs
end

def wtStepsL : Option Ty → List StepL → Bool
  | _, [] => true
  | t, .sel f :: rest => wtPE t f && wtStepsL (some (tyPE (curT t) f)) rest
  | t, .whr c :: rest => wtLE t c && wtStepsL t rest

def methsStepsL : List StepL → List (String × Ty)
  | [] => []
  | .sel f :: rest => methsPE f ++ methsStepsL rest
  | .whr c :: rest => methsLE c ++ methsStepsL rest

/-! ## embedding into user-level queries -/

def LOp.q : LOp → Query → Query → Query
  | .and, a, b => .and a b
  | .or, a, b => .or a b

mutual
  def leQ (x : String) : LE → Query
    | .int n => .int n
    | .dbl m e => .dbl m e
    | .bool b => .bool b
    | .it => .var x
    | .meth name _ => .meth (.var x) name
    | .bin op a b => .bin op.str (leQ x a) (leQ x b)
    | .cmp op a b => .cmp op.str (leQ x a) (leQ x b)
    | .neg a => .neg (leQ x a)
    | .not a => .not (leQ x a)
    | .bop op a rest => bopQ x op (leQ x a) rest
    | .ite c a b => .ite (leQ x c) (leQ x a) (leQ x b)
  /-- `a op b op c` associates to the left, as Python evaluates it -/
  def bopQ (x : String) (op : LOp) (acc : Query) : List LE → Query
    | [] => acc
    | b :: bs => bopQ x op (op.q acc (leQ x b)) bs
end

def stepsQL (src : Query) : List StepL → Nat → Query
  | [], _ => src
  | .sel f :: rest, k => stepsQL (.select src (lamVar k) (peQ (lamVar k) f)) rest (k + 1)
  | .whr c :: rest, k => stepsQL (.where_ src (lamVar k) (leQ (lamVar k) c)) rest (k + 1)

def chainQL (ev : String) (c : ChainL) : Query :=
  stepsQL (.coll (.var ev) c.coll c.bank) c.steps 0

def FQL.toQuery : FQL → Query
  | .elemRows c cols => .select (.selectMany .ds "e" (chainQL "e" c)) "r"
      (.dict (cols.map (·.1)) (cols.map fun p => leQ "r" p.2))

/-! ## compilation -/

/-- `statement.set_var` casts iff the two C++ types differ -/
def castIf (need : Bool) (ty : String) (e : CExpr) : CExpr := if need then .cast ty e else e

/-- the guard of a non-first operand: `if (r)` for `and`, `if (!r)` for `or` -/
def LOp.check : LOp → String → CExpr
  | .and, r => .var r
  | .or, r => .un "!" (.var r)

mutual
  /-- declarations (of the enclosing block), statements (at the cursor), value expression, next fresh index -/
  def compLE (nm : Nat → String) (ptr : Bool) (cur : CExpr) (curTy : Ty) : LE → Nat → CondFrag
    | .int n, k => ⟨[], [], .int n, k⟩
    | .dbl m e, k => ⟨[], [], .dbl (decText m e) m e, k⟩
    | .bool b, k => ⟨[], [], .bool b, k⟩
    | .it, k => ⟨[], [], cur, k⟩
    | .meth name _, k => ⟨[], [], .mem cur ptr name [], k⟩
    | .bin op a b, k =>
      let fa := compLE nm ptr cur curTy a k
      let fb := compLE nm ptr cur curTy b fa.next
      let v := if op = .div ∧ (tyLE curTy a).join (tyLE curTy b) = .int then CExpr.bin "/" (.cast "double" fa.val) fb.val
               else .bin op.str fa.val fb.val
      ⟨fa.decls ++ fb.decls, fa.stmts ++ fb.stmts, v, fb.next⟩
    | .cmp op a b, k =>
      let fa := compLE nm ptr cur curTy a k
      let fb := compLE nm ptr cur curTy b fa.next
      ⟨fa.decls ++ fb.decls, fa.stmts ++ fb.stmts, .bin op.str fa.val fb.val, fb.next⟩
    | .neg a, k => let fa := compLE nm ptr cur curTy a k; ⟨fa.decls, fa.stmts, .un "-" fa.val, fa.next⟩
    | .not a, k => let fa := compLE nm ptr cur curTy a k; ⟨fa.decls, fa.stmts, .un "!" fa.val, fa.next⟩
    | .bop op a rest, k =>
      let r := nm k
      let fa := compLE nm ptr cur curTy a (k + 1)
      let rs := compRest nm ptr cur curTy r op rest fa.next
      ⟨.decl "bool" r none :: fa.decls,
       fa.stmts ++ (.set r (castIf (tyLE curTy a != .bool) "bool" fa.val) :: rs.1),
       .var r, rs.2⟩
    | .ite c x y, k =>
      let r := nm k
      let fc := compLE nm ptr cur curTy c (k + 1)
      let fx := compLE nm ptr cur curTy x fc.next
      let fy := compLE nm ptr cur curTy y fx.next
      ⟨.decl "double" r none :: fc.decls,
       fc.stmts ++ [.ite fc.val
         (fx.decls ++ fx.stmts ++ [.set r (castIf (tyLE curTy x != .double) "double" fx.val)])
         (fy.decls ++ fy.stmts ++ [.set r (castIf (tyLE curTy y != .double) "double" fy.val)])],
       .var r, fy.next⟩
  /-- the guarded steps of the operands after the first: `if (check) { decls; stmts; r = value; }` each -/
  def compRest (nm : Nat → String) (ptr : Bool) (cur : CExpr) (curTy : Ty) (r : String) (op : LOp) :
      List LE → Nat → List Stmt × Nat
    | [], k => ([], k)
    | b :: bs, k =>
      let fb := compLE nm ptr cur curTy b k
      let rs := compRest nm ptr cur curTy r op bs fb.next
      (.ite (op.check r) (fb.decls ++ fb.stmts ++ [.set r (castIf (tyLE curTy b != .bool) "bool" fb.val)]) [] :: rs.1, rs.2)
end

/-- a `Where` condition together with the value current at its position -/
structure CondL where
  ptr : Bool
  cur : CExpr
  ty : Ty
  c : LE
deriving Inhabited

def CondL.resTy (c : CondL) : Ty := tyLE c.ty c.c
def compCond (nm : Nat → String) (c : CondL) (n : Nat) : CondFrag := compLE nm c.ptr c.cur c.ty c.c n

/-- thread the current value through the steps (pure `Select`s substitute textually) -/
def stepCondsL (ptr : Bool) (cur : CExpr) (curTy : Option Ty) : List StepL → List CondL × CExpr × Option Ty
  | [] => ([], cur, curTy)
  | .sel f :: rest =>
    let t := curTy.getD .double
    stepCondsL ptr (compPE (ptr && curTy.isNone) cur t f) (some (tyPE t f)) rest
  | .whr c :: rest =>
    let r := stepCondsL ptr cur curTy rest
    (⟨ptr && curTy.isNone, cur, curTy.getD .double, c⟩ :: r.1, r.2)

def chainTyL : Option Ty → List StepL → Option Ty
  | t, [] => t
  | t, .sel f :: rest => chainTyL (some (tyPE (t.getD .double) f)) rest
  | t, .whr _ :: rest => chainTyL t rest

/-- fused `Where`s: `((c₁ and c₂) and c₃)`, the outer result declared first; `rc` is the list of
conditions in REVERSE order. Returns the fragment and the C++ type of its value. -/
def andLowerL (nm : Nat → String) : List CondL → Nat → CondFrag × Ty
  | [], n => (⟨[], [], .bool true, n⟩, .bool)
  | [c], n => (compCond nm c n, c.resTy)
  | c :: c2 :: rest, n =>
    let b := nm n
    let inner := andLowerL nm (c2 :: rest) (n + 1)
    let fc := compCond nm c inner.1.next
    (⟨.decl "bool" b none :: inner.1.decls,
      inner.1.stmts ++ [.set b (castIf (inner.2 != .bool) "bool" inner.1.val),
        .ite (.var b) (fc.decls ++ fc.stmts ++ [.set b (castIf (c.resTy != .bool) "bool" fc.val)]) []],
      .var b, fc.next⟩, .bool)

/-- the loop body of a chain: the lowered condition, then the continuation inside one `if` -/
def bodyL (nm : Nat → String) (ptr : Bool) (it : CExpr) (steps : List StepL) (n : Nat)
    (k : CExpr → Option Ty → Nat → List Stmt × Nat) : List Stmt × Nat :=
  let r := stepCondsL ptr it none steps
  match r.1 with
  | [] => k r.2.1 r.2.2 n
  | conds =>
    let cf := (andLowerL nm conds.reverse n).1
    let kb := k r.2.1 r.2.2 cf.next
    (cf.decls ++ cf.stmts ++ [.ite cf.val kb.1 []], kb.2)

structure ColsFrag where
  decls : List Stmt
  stmts : List Stmt
  vals : List CExpr
  next : Nat
deriving Inhabited

/-- the columns of a row: every column's declarations and statements (in column order) and value expression -/
def compColsL (nm : Nat → String) (ptr : Bool) (cur : CExpr) (curTy : Ty) : List LE → Nat → ColsFrag
  | [], n => ⟨[], [], [], n⟩
  | le :: rest, n =>
    let f := compLE nm ptr cur curTy le n
    let r := compColsL nm ptr cur curTy rest f.next
    ⟨f.decls ++ r.decls, f.stmts ++ r.stmts, f.val :: r.vals, r.next⟩

/-- the assignments of the branch variables, after all columns have been computed -/
def setsOf (cn : Nat → String) : List CExpr → Nat → List Stmt
  | [], _ => []
  | e :: es, idx => .set (cn idx) e :: setsOf cn es (idx + 1)

def colVarsL (cn : Nat → String) (curTy : Option Ty) : List LE → Nat → List (String × String)
  | [], _ => []
  | le :: rest, idx => ((tyLE (curTy.getD .double) le).cpp, cn idx) :: colVarsL cn curTy rest (idx + 1)

/-- what is done with a kept element: compute the columns, assign the branch variables, fill -/
def rowK (B : Backend) (nm cn : Nat → String) (les : List LE) (cur : CExpr) (ty : Option Ty) (n : Nat) : List Stmt × Nat :=
  let cf := compColsL nm (B.elemPtr && ty.isNone) cur (ty.getD .double) les n
  (cf.decls ++ cf.stmts ++ setsOf cn cf.vals 0 ++ [.fill (B.fillTree B.treeName)], cf.next)

/-- the per-element loop body of a chain, for the loop variable `nm (n + 1)` -/
def chainBodyL (B : Backend) (nm : Nat → String) (c : ChainL) (n : Nat)
    (k : CExpr → Option Ty → Nat → List Stmt × Nat) : List Stmt × Nat :=
  bodyL nm B.elemPtr (.var (nm (n + 1))) c.steps (n + 3) k

/-- retrieval + one loop (the retrieval and loop header are those of `compChain`) -/
def compChainL (B : Backend) (nm : Nat → String) (c : ChainL) (n : Nat)
    (k : CExpr → Option Ty → Nat → List Stmt × Nat) : Frag :=
  let body := chainBodyL B nm c n k
  let f := compChain B nm ⟨c.coll, c.bank, []⟩ n (fun _ _ => body.1)
  { decls := f.decls, stmts := f.stmts, next := body.2 }

def compileL (B : Backend) (nm cn : Nat → String) : FQL → Package
  | .elemRows c cols =>
    let les := cols.map (·.2)
    let f := compChainL B nm c 0 (rowK B nm cn les)
    let toks := banksOf B f.stmts [c.bank]
    let cvs := colVarsL cn (chainTyL none c.steps) les 0
    { body := .block (f.decls ++ f.stmts),
      classVars := toks.map (fun t => ("edm::EDGetTokenT<" ++ t.2.1 ++ ">", t.1)) ++ cvs,
      branches := (cols.map (·.1)).zip (cvs.map (·.2)),
      tree := B.treeName,
      tokens := toks }

end FaxVerif.Gen
