/-
Gen — printing of the statement language in the translator's own layout, JSON decoding of the
F0-lite fragment and of backends. Driver-only.
-/
import Lean.Data.Json
import FaxVerif.Gen.Lite
import FaxVerif.Cpp.Json
open Lean
namespace FaxVerif.Gen
open FaxVerif.Cpp

partial def renderE : CExpr → String
  | .var n => n
  | .int v => toString v
  | .dbl t _ _ => t
  | .bool b => if b then "true" else "false"
  | .str s => "\"" ++ s ++ "\""
  | .un op a => s!"({op}({renderE a}))"
  | .bin op a b => s!"({renderE a}{op}{renderE b})"
  | .deref a => s!"*{renderE a}"
  | .mem o arrow n args => s!"{renderE o}{if arrow then "->" else "."}{n}({", ".intercalate (args.map renderE)})"
  | .call f args => s!"{f}({", ".intercalate (args.map renderE)})"
  | .cast t a => s!"static_cast<{t}>({renderE a})"
  | .opaque t => t

partial def renderS : Stmt → List String
  | .block body => ["{"] ++ body.flatMap renderS ++ ["}"]
  | .loop x c body => [s!"for (auto &&{x} : {renderE c})", "{"] ++ body.flatMap renderS ++ ["}"]
  | .ite c t e => [s!"if ({renderE c})", "{"] ++ t.flatMap renderS ++ ["}"] ++
      (if e.isEmpty then [] else ["else", "{"] ++ e.flatMap renderS ++ ["}"])
  | .decl ty n none => [s!"{ty} {n};"]
  | .decl ty n (some e) => [s!"{ty} {n} ({renderE e});"]
  | .set x e => [s!"{x} = {renderE e};"]
  | .push x e => [s!"{x}.push_back({renderE e});"]
  | .clear x => [s!"{x}.clear();"]
  | .fill t => [if t.isEmpty then "myTree->Fill();" else s!"tree(\"{t}\")->Fill();"]
  | .throw m => [s!"throw std::runtime_error(\"{m}\");"]
  | .retrieve how _ v bank tok =>
    if how = "atlas" then [s!"ANA_CHECK (evtStore()->retrieve({v}, {renderE bank}));"]
    else if how = "label" then [s!"iEvent.getByLabel({renderE bank}, {v});"]
    else [s!"iEvent.getByToken({tok}, {v});"]
  | .line t => [t]

def decTy (s : String) : Ty := if s = "int" then .int else if s = "float" then .float else if s = "bool" then .bool else .double

def decAOp (s : String) : Except String AOp :=
  if s = "+" then pure .add else if s = "-" then pure .sub else if s = "*" then pure .mul else if s = "/" then pure .div else throw s!"aop {s}"
def decCOp (s : String) : Except String COp :=
  if s = "<" then pure .lt else if s = "<=" then pure .le else if s = ">" then pure .gt else if s = ">=" then pure .ge
  else if s = "==" then pure .eq else if s = "!=" then pure .ne else throw s!"cop {s}"

def decDbl (j : Json) : Except String (Nat × Int) := do
  match parseDec (← jstr j "v") with
  | some (m, e) => if m < 0 then throw "negative literal" else pure (m.toNat, e)
  | none => throw "bad double"

partial def decPE (j : Json) : Except String PE := do
  let k ← jstr j "k"
  match k with
  | "int" => pure (.int (← jint j "v").toNat)
  | "dbl" => let (m, e) ← decDbl j; pure (.dbl m e)
  | "bool" => pure (.bool (← (← j.getObjVal? "v").getBool?))
  | "it" => pure .it
  | "meth" => pure (.meth (← jstr j "n") (decTy (← jstr j "ty")))
  | "bin" => pure (.bin (← decAOp (← jstr j "op")) (← decPE (← j.getObjVal? "a")) (← decPE (← j.getObjVal? "b")))
  | "cmp" => pure (.cmp (← decCOp (← jstr j "op")) (← decPE (← j.getObjVal? "a")) (← decPE (← j.getObjVal? "b")))
  | "neg" => pure (.neg (← decPE (← j.getObjVal? "a")))
  | "not" => pure (.not (← decPE (← j.getObjVal? "a")))
  | o => throw s!"PE {o}"

def decChain (j : Json) : Except String Chain := do
  let steps ← (← jarr j "steps").mapM fun s => do
    let k ← jstr s "k"
    let e ← decPE (← s.getObjVal? "e")
    if k = "sel" then pure (Step.sel e) else pure (Step.whr e)
  pure { coll := (← jstr j "coll"), bank := (← jstr j "bank"), steps := steps }

partial def decEE (j : Json) : Except String EE := do
  let k ← jstr j "k"
  match k with
  | "int" => pure (.int (← jint j "v").toNat)
  | "dbl" => let (m, e) ← decDbl j; pure (.dbl m e)
  | "bool" => pure (.bool (← (← j.getObjVal? "v").getBool?))
  | "count" => pure (.count (← decChain (← j.getObjVal? "c")))
  | "sum" => pure (.sum (← decChain (← j.getObjVal? "c")))
  | "bin" => pure (.bin (← decAOp (← jstr j "op")) (← decEE (← j.getObjVal? "a")) (← decEE (← j.getObjVal? "b")))
  | "cmp" => pure (.cmp (← decCOp (← jstr j "op")) (← decEE (← j.getObjVal? "a")) (← decEE (← j.getObjVal? "b")))
  | "neg" => pure (.neg (← decEE (← j.getObjVal? "a")))
  | "not" => pure (.not (← decEE (← j.getObjVal? "a")))
  | o => throw s!"EE {o}"

def decFQ (j : Json) : Except String FQ := do
  let k ← jstr j "k"
  if k = "eventRows" then
    let cols ← (← jarr j "cols").mapM fun c => do
      let name ← jstr c "name"
      let ck ← jstr c "k"
      if ck = "scalar" then pure (name, Col.scalar (← decEE (← c.getObjVal? "e")))
      else if ck = "first" then pure (name, Col.first (← decChain (← c.getObjVal? "c")))
      else pure (name, Col.seq (← decChain (← c.getObjVal? "c")))
    pure (.eventRows cols)
  else
    let cols ← (← jarr j "cols").mapM fun c => do pure ((← jstr c "name"), (← decPE (← c.getObjVal? "e")))
    pure (.elemRows (← decChain (← j.getObjVal? "c")) cols)

def lookupS (l : List (String × String)) (k : String) : Option String :=
  match l with
  | [] => none
  | (a, b) :: r => if a = k then some b else lookupS r k

def mkBackend (name : String) (colls : List (String × String × String)) : Backend :=
  let ct := colls.map fun c => (c.1, c.2.1)
  let et := colls.map fun c => (c.1, c.2.2)
  if name = "atlas" then
    { name := name, elemPtr := true, handleTy := fun t => s!"const {t}*", how := "atlas", resultInit := some (.int 0),
      fillTree := id, treeName := "atlas_xaod_tree", collType := lookupS ct, elemType := lookupS et }
  else if name = "cms_aod" then
    { name := name, elemPtr := false, handleTy := fun t => s!"edm::Handle<{t}>", how := "label", resultInit := none,
      fillTree := fun _ => "", treeName := "cms_aod_tree", collType := lookupS ct, elemType := lookupS et }
  else
    { name := name, elemPtr := false, handleTy := fun t => s!"Handle<{t}>", how := "token", resultInit := none,
      fillTree := fun _ => "", treeName := "cms_miniaod_tree", collType := lookupS ct, elemType := lookupS et }

def nmLocal (k : Nat) : String := "v" ++ toString k
def nmCol (k : Nat) : String := "_c" ++ toString k

end FaxVerif.Gen
