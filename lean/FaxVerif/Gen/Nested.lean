/-
Gen — the translator model for NESTED iteration: a lambda whose body iterates a collection returned by
a method of the element. Built beside the one-loop fragment of `Gen/Lite.lean` (unchanged).

  * inner chains `IChain` = `it.m()` (m a collection-returning method with a declared element kind:
    numbers — `vs()` — or objects — `kids()`) followed by pure `Select` / `Where` steps (`Step` / `PE` of
    `Gen/Lite.lean`);
  * element-level expressions `NE` over an OBJECT element: pure expressions, `icount c` / `isum c`
    (`it.m().….Count()` / `.Sum()`), arithmetic and comparisons over them. An aggregate is lowered to an
    accumulator `T aggResultN (0);` declared in the block that CONTAINS THE INNER LOOP — the body of the
    outer loop (or of the outer `if`) — so it restarts for every outer element; then the inner loop
    `for (auto &&i : cur.m()) { …conditions… acc = acc + … }`;
  * columns / rows:
      (a) `NCol.agg c e`   event-level vector column  e.Coll(bank).Where*.Select(y → NE)       std::vector<T>
      (b) `NCol.twoD c ic` event-level 2-D column     e.Coll(bank).Where*.Select(y → y.m().{Select|Where}*)
                           std::vector<std::vector<T>>: the storage vector `std::vector<T> ntupleN;` is declared
                           in the outer loop body, the inner values are pushed into it, then it is pushed into
                           the column
      (c) `NQ.elemRows c cols`  ds.SelectMany(e → chain).Select(r → {name: NE, …})   one row per outer element.

The method-returned collection is iterated as it is (`std::vector<…>`, no dereference); its elements are
values (`.` access) on every backend; the receiver is accessed with the backend's element idiom.
`toQuery` embeds the fragment into `Linq.Query`; `compileN` produces the `Package` the real translator emits
(tied by tools/gentie_nested.py: text modulo renaming, all three backends). No Mathlib; computable.
-/
import FaxVerif.Gen.EventSpec
import FaxVerif.Gen.Lazy
namespace FaxVerif.Gen
open FaxVerif.Cpp FaxVerif.Linq

/-- `it.meth()` followed by pure steps; `elem = none`: the elements are objects, `some t`: numbers of type `t` -/
structure IChain where
  meth : String
  elem : Option Ty
  steps : List Step
deriving Repr, Inhabited

/-- element-level expressions over an object element, with aggregates of inner chains -/
inductive NE where
  | pure (p : PE)
  | icount (c : IChain)
  | isum (c : IChain)
  | bin (op : AOp) (a b : NE)
  | cmp (op : COp) (a b : NE)
  | neg (a : NE)
  | not (a : NE)
deriving Repr, Inhabited

inductive NCol where
  | agg (c : Chain) (e : NE)          -- e.Coll(bank).Where*.Select(y → e)
  | twoD (c : Chain) (ic : IChain)    -- e.Coll(bank).Where*.Select(y → y.m().steps)
deriving Repr, Inhabited

inductive NQ where
  | eventRows (cols : List (String × NCol))               -- ds.Select(e → {name: col, …})
  | elemRows (c : Chain) (cols : List (String × NE))      -- ds.SelectMany(e → chain).Select(r → {name: ne, …})
deriving Repr, Inhabited

/-! ## typing -/

/-- element type of an inner chain's value (`none`: objects) -/
def ichainTy (ic : IChain) : Option Ty := chainTy ic.elem ic.steps

def tyNE : NE → Ty
  | .pure p => tyPE .double p
  | .icount _ => .int
  | .isum ic => Ty.join .int ((ichainTy ic).getD .double)
  | .bin .div _ _ => .double
  | .bin _ a b => (tyNE a).join (tyNE b)
  | .cmp _ _ _ => .bool
  | .neg a => tyNE a
  | .not _ => .bool

/-- an inner chain that ends in numbers -/
def ichainNumTy (ic : IChain) : Option Ty :=
  match ichainTy ic with
  | some t => if t.isNum then some t else none
  | none => none

/-- static well-typedness of an inner chain: a numeric element kind is a number type -/
def wtIChain (ic : IChain) : Bool :=
  wtSteps ic.elem ic.steps && (match ic.elem with | some t => t.isNum | none => true)

def wtNE : NE → Bool
  | .pure p => wtPE none p
  | .icount ic => wtIChain ic
  | .isum ic => wtIChain ic && (ichainNumTy ic).isSome
  | .bin _ a b => wtNE a && wtNE b && (tyNE a).isNum && (tyNE b).isNum
  | .cmp _ a b => wtNE a && wtNE b && (tyNE a).isNum && (tyNE b).isNum
  | .neg a => wtNE a && (tyNE a).isNum
  | .not a => wtNE a && (tyNE a == .bool)

/-- the outer chain keeps objects: only `Where` steps change nothing about the element -/
def wtOuter (c : Chain) : Bool := wtSteps none c.steps && (chainTy none c.steps).isNone

def wtNCol : NCol → Bool
  | .agg c e => wtOuter c && wtNE e
  | .twoD c ic => wtOuter c && wtIChain ic && (ichainNumTy ic).isSome

def ichainsNE : NE → List IChain
  | .icount c => [c]
  | .isum c => [c]
  | .bin _ a b => ichainsNE a ++ ichainsNE b
  | .cmp _ a b => ichainsNE a ++ ichainsNE b
  | .neg a => ichainsNE a
  | .not a => ichainsNE a
  | .pure _ => []

def isumsNE : NE → List IChain
  | .isum c => [c]
  | .bin _ a b => isumsNE a ++ isumsNE b
  | .cmp _ a b => isumsNE a ++ isumsNE b
  | .neg a => isumsNE a
  | .not a => isumsNE a
  | _ => []

def puresNE : NE → List PE
  | .pure p => [p]
  | .bin _ a b => puresNE a ++ puresNE b
  | .cmp _ a b => puresNE a ++ puresNE b
  | .neg a => puresNE a
  | .not a => puresNE a
  | _ => []

/-! ## embedding into user-level queries -/

/-- the parameter of the lambda whose body iterates the inner collection -/
def outerVar : String := "y"

def ichainQ (x : String) (ic : IChain) : Query := stepsQ (.meth (.var x) ic.meth) ic.steps 0

def neQ (x : String) : NE → Query
  | .pure p => peQ x p
  | .icount c => .count (ichainQ x c)
  | .isum c => .sum (ichainQ x c)
  | .bin op a b => .bin op.str (neQ x a) (neQ x b)
  | .cmp op a b => .cmp op.str (neQ x a) (neQ x b)
  | .neg a => .neg (neQ x a)
  | .not a => .not (neQ x a)

def ncolQ (ev : String) : NCol → Query
  | .agg c e => .select (chainQ ev c) outerVar (neQ outerVar e)
  | .twoD c ic => .select (chainQ ev c) outerVar (ichainQ outerVar ic)

def NQ.toQuery : NQ → Query
  | .eventRows cols => .select .ds "e" (.dict (cols.map (·.1)) (cols.map fun p => ncolQ "e" p.2))
  | .elemRows c cols => .select (.selectMany .ds "e" (chainQ "e" c)) "r"
      (.dict (cols.map (·.1)) (cols.map fun p => neQ "r" p.2))

/-! ## compilation -/

/-- the loop body for a chain whose elements have kind `curTy` (`chainBody` is the case `none`) -/
def chainBodyT (nm : Nat → String) (ptr : Bool) (it : CExpr) (curTy : Option Ty) (steps : List Step) (n : Nat)
    (k : CExpr → Option Ty → List Stmt) : List Stmt × Nat :=
  let r := stepConds ptr it curTy steps
  match r.1 with
  | [] => (k r.2.1 r.2.2, n)
  | conds =>
    let cf := andLower nm conds.reverse n
    (cf.decls ++ cf.stmts ++ [.ite cf.val (k r.2.1 r.2.2) []], cf.next)

/-- the collection a method of the current element returns: `cur.m()` / `cur->m()` -/
def icoll (cur : CExpr) (ptr : Bool) (ic : IChain) : CExpr := .mem cur ptr ic.meth []

/-- the loop variable of the inner loop compiled at supply position `n` -/
def innerVar (nm : Nat → String) (n : Nat) : CExpr := .var (nm n)

/-- one loop over `cur.m()`: loop variable `nm n`, the conditions' names from `n + 1`; the elements of a
method-returned collection are values (`.` access) -/
def innerLoop (nm : Nat → String) (cur : CExpr) (ptr : Bool) (ic : IChain) (n : Nat)
    (k : CExpr → Option Ty → List Stmt) : List Stmt × Nat :=
  let body := chainBodyT nm false (innerVar nm n) ic.elem ic.steps (n + 1) k
  ([.loop (nm n) (icoll cur ptr ic) body.1], body.2)

def countK (acc : String) : CExpr → Option Ty → List Stmt := fun _ _ => [.set acc (.bin "+" (.var acc) (.int 1))]
def sumK (acc : String) : CExpr → Option Ty → List Stmt := fun w _ => [.set acc (.bin "+" (.var acc) w)]
def pushK (v : String) : CExpr → Option Ty → List Stmt := fun w _ => [.push v w]

/-- declarations (of the block that contains the inner loops), statements, value, next fresh index -/
def compNE (nm : Nat → String) (ptr : Bool) (cur : CExpr) : NE → Nat → EFrag
  | .pure p, n => ⟨[], [], compPE ptr cur .double p, n⟩
  | .icount c, n =>
    let acc := nm n
    let l := innerLoop nm cur ptr c (n + 1) (countK acc)
    ⟨[.decl "int" acc (some (.int 0))], l.1, .var acc, l.2⟩
  | .isum c, n =>
    let acc := nm n
    let ty := Ty.join .int ((ichainTy c).getD .double)
    let l := innerLoop nm cur ptr c (n + 1) (sumK acc)
    ⟨[.decl ty.cpp acc (some (.int 0))], l.1, .var acc, l.2⟩
  | .bin op a b, n =>
    let fa := compNE nm ptr cur a n
    let fb := compNE nm ptr cur b fa.next
    let v := if op = .div ∧ (tyNE a).join (tyNE b) = .int then CExpr.bin "/" (.cast "double" fa.val) fb.val
             else .bin op.str fa.val fb.val
    ⟨fa.decls ++ fb.decls, fa.stmts ++ fb.stmts, v, fb.next⟩
  | .cmp op a b, n =>
    let fa := compNE nm ptr cur a n
    let fb := compNE nm ptr cur b fa.next
    ⟨fa.decls ++ fb.decls, fa.stmts ++ fb.stmts, .bin op.str fa.val fb.val, fb.next⟩
  | .neg a, n => let fa := compNE nm ptr cur a n; ⟨fa.decls, fa.stmts, .un "-" fa.val, fa.next⟩
  | .not a, n => let fa := compNE nm ptr cur a n; ⟨fa.decls, fa.stmts, .un "!" fa.val, fa.next⟩

/-- the columns of a row: every column's declarations and statements (in column order) and value expression -/
def compNEs (nm : Nat → String) (ptr : Bool) (cur : CExpr) : List NE → Nat → ColsFrag
  | [], n => ⟨[], [], [], n⟩
  | e :: rest, n =>
    let f := compNE nm ptr cur e n
    let r := compNEs nm ptr cur rest f.next
    ⟨f.decls ++ r.decls, f.stmts ++ r.stmts, f.val :: r.vals, r.next⟩

/-- first fresh index after the names of the outer chain's lowered conditions -/
def condNext (nm : Nat → String) (ptr : Bool) (it : CExpr) (steps : List Step) (n : Nat) : Nat :=
  (chainBody nm ptr it steps n (fun _ _ => [])).2

/-- a continuation that draws fresh names: current value, its type, first fresh index ↦ statements, next index -/
abbrev KN := CExpr → Option Ty → Nat → List Stmt × Nat

/-- the loop variable of the outer chain compiled at supply position `n` -/
def outerIt (nm : Nat → String) (n : Nat) : CExpr := .var (nm (n + 1))

/-- where the continuation of the outer chain compiled at `n` starts drawing names -/
def outerNext (B : Backend) (nm : Nat → String) (c : Chain) (n : Nat) : Nat :=
  condNext nm B.elemPtr (outerIt nm n) c.steps (n + 3)

/-- retrieval + the outer loop (those of `compChain`), the continuation drawing its names after the conditions' -/
def compChainN (B : Backend) (nm : Nat → String) (c : Chain) (n : Nat) (k : KN) : Frag :=
  let m := outerNext B nm c n
  let f := compChain B nm c n (fun cur ty => (k cur ty m).1)
  let r := stepConds B.elemPtr (outerIt nm n) none c.steps
  { decls := f.decls, stmts := f.stmts, next := (k r.2.1 r.2.2 m).2 }

/-- (a): the accumulators' declarations, the inner loops, then `col.push_back(value)` -/
def aggK (B : Backend) (nm : Nat → String) (v : String) (e : NE) : KN := fun cur ty m =>
  let f := compNE nm (B.elemPtr && ty.isNone) cur e m
  (f.decls ++ f.stmts ++ [.push v f.val], f.next)

def vecTy (t : String) : String := "std::vector<" ++ t ++ ">"

/-- (b): `std::vector<T> ntupleN;` declared in the outer loop body, the inner loop pushing into it,
then `col.push_back(ntupleN)`; a bare `y.m()` (no steps) is pushed as it is: `col.push_back(cur.m())` -/
def twoDK (B : Backend) (nm : Nat → String) (v : String) (ic : IChain) : KN := fun cur ty m =>
  match ic.steps with
  | [] => ([.push v (icoll cur (B.elemPtr && ty.isNone) ic)], m)      -- the returned vector itself is the inner row
  | _ :: _ =>
    let nt := nm m
    let l := innerLoop nm cur (B.elemPtr && ty.isNone) ic (m + 1) (pushK nt)
    (.decl (vecTy ((ichainTy ic).getD .double).cpp) nt none :: (l.1 ++ [.push v (.var nt)]), l.2)

def compNCol (B : Backend) (nm cn : Nat → String) (idx : Nat) (col : NCol) (n : Nat) : ColFrag :=
  let v := cn idx
  match col with
  | .agg c e =>
    let f := compChainN B nm c n (aggK B nm v e)
    ⟨f.decls, f.stmts, [], [.clear v], (vecTy (tyNE e).cpp, v), f.next⟩
  | .twoD c ic =>
    let f := compChainN B nm c n (twoDK B nm v ic)
    ⟨f.decls, f.stmts, [], [.clear v], (vecTy (vecTy ((ichainTy ic).getD .double).cpp), v), f.next⟩

def compNCols (B : Backend) (nm cn : Nat → String) : List NCol → Nat → Nat → List ColFrag
  | [], _, _ => []
  | c :: cs, idx, n =>
    let f := compNCol B nm cn idx c n
    f :: compNCols B nm cn cs (idx + 1) f.next

def NCol.chain : NCol → Chain
  | .agg c _ => c
  | .twoD c _ => c

def colVarsN (cn : Nat → String) : List NE → Nat → List (String × String)
  | [], _ => []
  | e :: rest, idx => ((tyNE e).cpp, cn idx) :: colVarsN cn rest (idx + 1)

/-- (c): what is done with a kept outer element: the columns' declarations and loops, the branch
assignments, the fill -/
def rowKN (B : Backend) (nm cn : Nat → String) (es : List NE) : KN := fun cur ty m =>
  let cf := compNEs nm (B.elemPtr && ty.isNone) cur es m
  (cf.decls ++ cf.stmts ++ setsOf cn cf.vals 0 ++ [.fill (B.fillTree B.treeName)], cf.next)

def compileN (B : Backend) (nm cn : Nat → String) : NQ → Package
  | .eventRows cols =>
    let fs := compNCols B nm cn (cols.map (·.2)) 0 0
    let stmts := fs.flatMap (·.stmts)
    let toks := banksOf B stmts (cols.map (·.2.chain.bank))
    { body := .block (fs.flatMap (·.decls) ++ stmts ++ [.fill (B.fillTree B.treeName)] ++ fs.flatMap (·.clears)),
      classVars := toks.map (fun t => ("edm::EDGetTokenT<" ++ t.2.1 ++ ">", t.1)) ++ fs.map (·.classVar),
      branches := (cols.map (·.1)).zip (fs.map (·.classVar.2)),
      tree := B.treeName,
      tokens := toks }
  | .elemRows c cols =>
    let es := cols.map (·.2)
    let f := compChainN B nm c 0 (rowKN B nm cn es)
    let toks := banksOf B f.stmts [c.bank]
    let cvs := colVarsN cn es 0
    { body := .block (f.decls ++ f.stmts),
      classVars := toks.map (fun t => ("edm::EDGetTokenT<" ++ t.2.1 ++ ">", t.1)) ++ cvs,
      branches := (cols.map (·.1)).zip (cvs.map (·.2)),
      tree := B.treeName,
      tokens := toks }

end FaxVerif.Gen
