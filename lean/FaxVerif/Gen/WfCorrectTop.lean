/-
Gen/WfCorrectTop — the per-event body of `Gen.compile` is accepted by `da` from the class-level analysis
state: hoisted declarations (`decls_da`), loop code (`cols_da`, Gen/WfCorrectCols), scalar assignments
(`sets_da`), the fill, the clears (`clears_da`); element-level rows through `chain_plain`.
Then `WellFormed` and `EventLocal` of the whole package (`compile_wellFormed`, `compile_eventLocal`).
No Mathlib.
-/
import FaxVerif.Gen.WfCorrectCols
import FaxVerif.Cpp.EventLocal
import FaxVerif.Gen.EventRowsCorrect
import FaxVerif.Gen.Render
namespace FaxVerif.Gen.Wf
open FaxVerif.Cpp FaxVerif.Gen

/-! ## hoisted declarations -/

/-- a declaration the model hoists: uninitialised non-vector, or initialised by a closed clean expression -/
def SD : Stmt → Prop
  | .decl ty _ none => isVecType ty = false
  | .decl _ _ (some e) => clean e = true ∧ vars e = []
  | _ => False

theorem isTrueLit_eq {e : CExpr} (h : isTrueLit e = true) : e = .bool true := by
  cases e with
  | bool b => cases b <;> simp [isTrueLit] at h ⊢
  | _ => simp [isTrueLit] at h

theorem decls_da (C : DACtx) : ∀ (ds : List Stmt) (s : DA), (∀ d ∈ ds, SD d) → (ds.map declName).Nodup →
    (∀ d ∈ ds, declName d ∉ s.D) → AsubD s →
    ∃ t, das C ds s = some t ∧ AsubD t ∧ (∀ y, y ∈ t.D ↔ y ∈ ds.map declName ∨ y ∈ s.D) ∧ (∀ y ∈ s.A, y ∈ t.A) ∧
      (∀ ty x e, Stmt.decl ty x (some e) ∈ ds → x ∈ t.A) ∧
      (∀ f ∈ t.T, f ∈ s.T ∨ Stmt.decl "bool" f (some (.bool true)) ∈ ds) ∧ (∀ p ∈ t.G, p ∈ s.G) ∧
      (∀ f ∈ s.T, f ∉ ds.map declName → f ∈ t.T) ∧
      (∀ x, Stmt.decl "bool" x (some (.bool true)) ∈ ds → x ∈ t.T)
  | [], s, _, _, _, hs => ⟨s, rfl, hs, by simp, fun _ h => h, by simp, fun _ h => Or.inl h, fun _ h => h,
      fun _ h _ => h, by simp⟩
  | d :: ds, s, hsd, hnd, hfr, hs => by
    simp only [List.map_cons, List.nodup_cons] at hnd
    have hd := hsd d (by simp)
    have hx0 := hfr d (by simp)
    -- the head declaration
    have hhead : ∃ ty x init s1, d = .decl ty x init ∧ da C d s = some s1 ∧ AsubD s1 ∧ s1.D = x :: s.D ∧
        (∀ y ∈ s.A, y ∈ s1.A) ∧ (∀ e, init = some e → x ∈ s1.A) ∧
        (∀ f ∈ s1.T, f ∈ s.T ∨ (f = x ∧ ty = "bool" ∧ init = some (.bool true))) ∧ (∀ p ∈ s1.G, p ∈ s.G) ∧
        (∀ f ∈ s.T, f ≠ x → f ∈ s1.T) ∧ (ty = "bool" → init = some (.bool true) → x ∈ s1.T) := by
      cases d with
      | decl ty x init =>
        simp only [declName] at hx0
        cases init with
        | none =>
          simp only [SD] at hd
          refine ⟨ty, x, none, _, rfl, da_decl_none hx0 hd, fun y hy => List.mem_cons_of_mem _ (hs y hy), rfl,
            fun _ h => h, by simp, fun f hf => Or.inl ((mem_fresh_T _ _ _).1 hf).1,
            fun p hp => ((mem_fresh_G _ _ _).1 hp).1, fun f hf hne => (mem_fresh_T _ _ _).2 ⟨hf, hne⟩, by simp⟩
        | some e =>
          simp only [SD] at hd
          have hok : okE s e = true := okE_of hd.1 (by simp [hd.2])
          refine ⟨ty, x, some e, ({ D := x :: s.D, A := x :: s.A, T := if ty = "bool" ∧ isTrueLit e = true then x :: (s.fresh x).T else (s.fresh x).T, G := (s.fresh x).G } : DA),
            rfl, by simp [da, hx0, hok], ?_, rfl, fun y hy => List.mem_cons_of_mem _ hy,
            fun _ _ => List.mem_cons_self .., ?_, fun p hp => ((mem_fresh_G _ _ _).1 hp).1, ?_, ?_⟩
          · intro y hy
            rcases List.mem_cons.1 hy with e' | hy
            · rw [e']; exact List.mem_cons_self ..
            · exact List.mem_cons_of_mem _ (hs y hy)
          · intro f hf
            simp only at hf
            split at hf
            · rename_i hb
              rcases List.mem_cons.1 hf with e' | hf
              · exact Or.inr ⟨e', hb.1, by rw [isTrueLit_eq hb.2]⟩
              · exact Or.inl ((mem_fresh_T _ _ _).1 hf).1
            · exact Or.inl ((mem_fresh_T _ _ _).1 hf).1
          · intro f hf hne
            simp only
            split
            · exact List.mem_cons_of_mem _ ((mem_fresh_T _ _ _).2 ⟨hf, hne⟩)
            · exact (mem_fresh_T _ _ _).2 ⟨hf, hne⟩
          · intro hty he
            simp only [Option.some.injEq] at he
            subst he; subst hty
            simp [isTrueLit]
      | _ => simp [SD] at hd
    obtain ⟨ty, x, init, s1, rfl, e1, hs1, hD1, hA1, hI1, hT1, hG1, hF1, hFl1⟩ := hhead
    simp only [declName] at hnd hx0
    obtain ⟨t, et, hst, hDt, hAt, hIt, hTt, hGt, hFt, hFlt⟩ := decls_da C ds s1
      (fun d' hd' => hsd d' (List.mem_cons_of_mem _ hd')) hnd.2
      (by
        intro d' hd' hm
        rw [hD1] at hm
        rcases List.mem_cons.1 hm with e | hm
        · exact hnd.1 (List.mem_map.2 ⟨d', hd', e⟩)
        · exact hfr d' (List.mem_cons_of_mem _ hd') hm)
      hs1
    refine ⟨t, das_cons e1 et, hst, ?_, fun y hy => hAt y (hA1 y hy), ?_, ?_, fun p hp => hG1 p (hGt p hp), ?_, ?_⟩
    · intro y
      rw [hDt y, hD1]
      simp only [List.map_cons, List.mem_cons, declName]
      constructor
      · rintro (h | h | h)
        · exact Or.inl (Or.inr h)
        · exact Or.inl (Or.inl h)
        · exact Or.inr h
      · rintro ((h | h) | h)
        · exact Or.inr (Or.inl h)
        · exact Or.inl h
        · exact Or.inr (Or.inr h)
    · intro ty' x' e' hm
      rcases List.mem_cons.1 hm with e | hm
      · simp only [Stmt.decl.injEq] at e
        obtain ⟨_, rfl, rfl⟩ := e
        exact hAt _ (hI1 e' rfl)
      · exact hIt ty' x' e' hm
    · intro f hf
      rcases hTt f hf with h | h
      · rcases hT1 f h with h | ⟨rfl, rfl, rfl⟩
        · exact Or.inl h
        · exact Or.inr (List.mem_cons_self ..)
      · exact Or.inr (List.mem_cons_of_mem _ h)
    · intro f hf hn
      simp only [List.map_cons, List.mem_cons, declName, not_or] at hn
      exact hFt f (hF1 f hf hn.1) hn.2
    · intro x' hm
      rcases List.mem_cons.1 hm with e | hm
      · simp only [Stmt.decl.injEq] at e
        obtain ⟨rfl, rfl, rfl⟩ := e
        exact hFt _ (hFl1 rfl rfl) hnd.1
      · exact hFlt x' hm

/-- a number model, only to instantiate the existing shape lemmas about the model's declarations -/
def unitNum : Num Unit :=
  { ofInt := fun _ => (), ofDec := fun _ _ => (), add := fun _ _ => (), sub := fun _ _ => (), mul := fun _ _ => (),
    div := fun _ _ => (), neg := fun _ => (), lt := fun _ _ => false, le := fun _ _ => false, eq := fun _ _ => false,
    toInt := fun _ => 0, fn := fun _ _ => none }

def unitCtx : Ctx Unit := { N := unitNum, ev := { banks := [] }, cols := [], tokens := [] }

theorem sd_of_simple {D : Type} (N : Num D) (d : Stmt) (h : SimpleDecl N d) : SD d := by
  cases d with
  | decl ty x init =>
    cases init with
    | none => exact h
    | some e =>
      obtain ⟨v, _, hl, _⟩ := h
      cases e <;> simp [litOf] at hl <;> simp [SD, clean, vars]
  | _ => simp [SimpleDecl] at h

theorem compCols_sd (B : Backend) (hB : BackendBase B) (nm cn : Nat → String) (hinj : ∀ i j, nm i = nm j → i = j)
    (cols : List Col) (idx n : Nat) :
    (∀ d ∈ (compCols B nm cn cols idx n).flatMap (·.decls), SD d) ∧
    (((compCols B nm cn cols idx n).flatMap (·.decls)).map declName).Nodup := by
  obtain ⟨h1, h2⟩ := compCols_declsOK_base unitCtx B hB nm cn hinj cols idx n
  exact ⟨fun d hd => sd_of_simple _ d (h1 d hd), h2⟩

/-! ## declared names and token names are different names -/

theorem ee_disj (B : Backend) (nm : Nat → String) (hinj : ∀ i j, nm i = nm j → i = j) : ∀ (e : EE) (n : Nat),
    ∀ y ∈ (compEE B nm e n).decls.map declName, y ∉ (eeToks B nm e n).map (·.1)
  | .int _, n, y, h => by simp [compEE] at h
  | .dbl _ _, n, y, h => by simp [compEE] at h
  | .bool _, n, y, h => by simp [compEE] at h
  | .count c, n, y, h => by
    simp only [compEE, compChain, eeToks, chainToks, List.map_cons, List.map_nil, declName,
      List.cons_append, List.nil_append, List.mem_cons, List.not_mem_nil, or_false] at h ⊢
    rcases h with h | h <;> (rw [h]; intro e; have := hinj _ _ e; omega)
  | .sum c, n, y, h => by
    simp only [compEE, compChain, eeToks, chainToks, List.map_cons, List.map_nil, declName,
      List.cons_append, List.nil_append, List.mem_cons, List.not_mem_nil, or_false] at h ⊢
    rcases h with h | h <;> (rw [h]; intro e; have := hinj _ _ e; omega)
  | .bin _ a b, n, y, h => by
    have h1 := compEE_next_ge B nm a n
    have h2 := compEE_next_ge B nm b (compEE B nm a n).next
    simp only [compEE, eeToks, List.map_append, List.mem_append, not_or] at h ⊢
    rcases h with h | h
    · exact ⟨ee_disj B nm hinj a n y h,
        fun ht => inRange_disjoint hinj (eeToks_names B nm b _ y ht) (declsIn_names (compEE_decls B nm a n) y h)⟩
    · exact ⟨fun ht => inRange_disjoint hinj (declsIn_names (compEE_decls B nm b _) y h) (eeToks_names B nm a n y ht),
        ee_disj B nm hinj b _ y h⟩
  | .cmp _ a b, n, y, h => by
    have h1 := compEE_next_ge B nm a n
    have h2 := compEE_next_ge B nm b (compEE B nm a n).next
    simp only [compEE, eeToks, List.map_append, List.mem_append, not_or] at h ⊢
    rcases h with h | h
    · exact ⟨ee_disj B nm hinj a n y h,
        fun ht => inRange_disjoint hinj (eeToks_names B nm b _ y ht) (declsIn_names (compEE_decls B nm a n) y h)⟩
    · exact ⟨fun ht => inRange_disjoint hinj (declsIn_names (compEE_decls B nm b _) y h) (eeToks_names B nm a n y ht),
        ee_disj B nm hinj b _ y h⟩
  | .neg a, n, y, h => by simp only [compEE, eeToks] at h ⊢; exact ee_disj B nm hinj a n y h
  | .not a, n, y, h => by simp only [compEE, eeToks] at h ⊢; exact ee_disj B nm hinj a n y h

theorem col_disj (B : Backend) (nm cn : Nat → String) (hinj : ∀ i j, nm i = nm j → i = j) (idx : Nat) (col : Col) (n : Nat) :
    ∀ y ∈ (compCol B nm cn idx col n).decls.map declName, y ∉ (colToks B nm col n).map (·.1) := by
  cases col with
  | scalar e => exact ee_disj B nm hinj e n
  | seq c =>
    intro y h
    simp only [compCol, compChain, colToks, chainToks, List.map_cons, List.map_nil, declName, List.mem_singleton] at h ⊢
    rw [h]; intro e; have := hinj _ _ e; omega
  | first c =>
    intro y h
    simp only [compCol, compChain, colToks, chainToks, List.map_cons, List.map_nil, declName,
      List.cons_append, List.nil_append, List.mem_cons, List.not_mem_nil, or_false] at h ⊢
    rcases h with h | h <;> (rw [h]; intro e; have := hinj _ _ e; omega)

theorem cols_disj (B : Backend) (nm cn : Nat → String) (hinj : ∀ i j, nm i = nm j → i = j) : ∀ (cols : List Col) (idx n : Nat),
    ∀ y ∈ ((compCols B nm cn cols idx n).flatMap (·.decls)).map declName, y ∉ (colsToks B nm cn cols idx n).map (·.1)
  | [], _, _, y, h => by simp [compCols] at h
  | c :: cs, idx, n, y, h => by
    have h1 := compCol_next_ge B nm cn idx c n
    simp only [compCols, colsToks, List.flatMap_cons, List.map_append, List.mem_append, not_or] at h ⊢
    rcases h with h | h
    · exact ⟨col_disj B nm cn hinj idx c n y h,
        fun ht => inRange_disjoint hinj (colsToks_names B nm cn cs _ _ y ht) (declsIn_names (compCol_decls B nm cn idx c n) y h)⟩
    · exact ⟨fun ht => inRange_disjoint hinj (declsIn_names (compCols_declsIn B nm cn cs _ _) y h) (colToks_names B nm cn idx c n y ht),
        cols_disj B nm cn hinj cs _ _ y h⟩

/-! ## scalar assignments -/

theorem okE_cast {s : DA} {ty : String} {a : CExpr} (h : okE s a = true) : okE s (.cast ty a) = true := by
  simpa [okE, clean, vars] using h

theorem okE_un {s : DA} {op : String} {a : CExpr} (h : okE s a = true) : okE s (.un op a) = true := by
  simpa [okE, clean, vars] using h

theorem compEE_val_ok (B : Backend) (nm : Nat → String) : ∀ (e : EE) (n : Nat) (s : DA),
    (∀ ty x e0, Stmt.decl ty x (some e0) ∈ (compEE B nm e n).decls → x ∈ s.A) → okE s (compEE B nm e n).val = true
  | .int _, n, s, _ => by simp [compEE, okE, clean, vars, subset]
  | .dbl _ _, n, s, _ => by simp [compEE, okE, clean, vars, subset]
  | .bool _, n, s, _ => by simp [compEE, okE, clean, vars, subset]
  | .count c, n, s, h => by
    have := h "int" (nm n) (.int 0) (by simp [compEE])
    exact okE_of rfl (by simpa [compEE, vars] using this)
  | .sum c, n, s, h => by
    have := h (Ty.join .int ((chainTy none c.steps).getD .double)).cpp (nm n) (.int 0) (by simp [compEE])
    exact okE_of rfl (by simpa [compEE, vars] using this)
  | .bin op a b, n, s, h => by
    have ha := compEE_val_ok B nm a n s (fun ty x e0 hm => h ty x e0 (by simp [compEE, hm]))
    have hb := compEE_val_ok B nm b (compEE B nm a n).next s (fun ty x e0 hm => h ty x e0 (by simp [compEE, hm]))
    simp only [compEE]
    split
    · exact okE_bin (okE_cast ha) hb
    · exact okE_bin ha hb
  | .cmp op a b, n, s, h => by
    have ha := compEE_val_ok B nm a n s (fun ty x e0 hm => h ty x e0 (by simp [compEE, hm]))
    have hb := compEE_val_ok B nm b (compEE B nm a n).next s (fun ty x e0 hm => h ty x e0 (by simp [compEE, hm]))
    simp only [compEE]
    exact okE_bin ha hb
  | .neg a, n, s, h => by
    simp only [compEE]; exact okE_un (compEE_val_ok B nm a n s (by simpa [compEE] using h))
  | .not a, n, s, h => by
    simp only [compEE]; exact okE_un (compEE_val_ok B nm a n s (by simpa [compEE] using h))

theorem sets_da (C : DACtx) (B : Backend) (nm cn : Nat → String) : ∀ (cols : List Col) (idx n : Nat) (s : DA), AsubD s →
    (∀ ty x e0, Stmt.decl ty x (some e0) ∈ (compCols B nm cn cols idx n).flatMap (·.decls) → x ∈ s.A) →
    (∀ j, idx ≤ j → j < idx + cols.length → cn j ∈ s.D) →
    ∃ t, das C ((compCols B nm cn cols idx n).flatMap (·.sets)) s = some t ∧ t.D = s.D ∧ AsubD t ∧ (∀ y ∈ s.A, y ∈ t.A) ∧
      ColsA cn IsScalar cols idx t
  | [], idx, n, s, hs, _, _ => ⟨s, by simp [compCols, das], rfl, hs, fun _ h => h, trivial⟩
  | c :: cs, idx, n, s, hs, hinit, hv => by
    cases c with
    | scalar e =>
      have hsets : (compCol B nm cn idx (.scalar e) n).sets = [.set (cn idx) (compEE B nm e n).val] := rfl
      have hdecls : (compCol B nm cn idx (.scalar e) n).decls = (compEE B nm e n).decls := rfl
      have hvD : cn idx ∈ s.D := hv idx (Nat.le_refl _) (by simp)
      have e1 : da C (.set (cn idx) (compEE B nm e n).val) s = some (s.assign (cn idx)) :=
        da_set hvD (compEE_val_ok B nm e n s (fun ty x e0 hm => hinit ty x e0 (by simp [compCols, hdecls, hm])))
      obtain ⟨t, et, hDt, hst, hAt, hCt⟩ := sets_da C B nm cn cs (idx + 1) (compCol B nm cn idx (.scalar e) n).next
        (s.assign (cn idx)) (hs.assign _ hvD)
        (fun ty x e0 hm => List.mem_cons_of_mem _ (hinit ty x e0 (by simp [compCols, hm])))
        (fun j j1 j2 => hv j (by omega) (by simp only [List.length_cons]; omega))
      refine ⟨t, ?_, hDt, hst, fun y hy => hAt y (List.mem_cons_of_mem _ hy), ⟨fun _ => hAt _ (List.mem_cons_self ..), hCt⟩⟩
      simp only [compCols, List.flatMap_cons, hsets]
      exact das_cons e1 et
    | seq ch =>
      have hsets : (compCol B nm cn idx (.seq ch) n).sets = [] := rfl
      obtain ⟨t, et, hDt, hst, hAt, hCt⟩ := sets_da C B nm cn cs (idx + 1) (compCol B nm cn idx (.seq ch) n).next s hs
        (fun ty x e0 hm => hinit ty x e0 (by simp [compCols, hm]))
        (fun j j1 j2 => hv j (by omega) (by simp only [List.length_cons]; omega))
      refine ⟨t, ?_, hDt, hst, hAt, ⟨fun ⟨e, he⟩ => (by cases he), hCt⟩⟩
      simp only [compCols, List.flatMap_cons, hsets, List.nil_append]
      exact et
    | first ch =>
      have hsets : (compCol B nm cn idx (.first ch) n).sets = [] := rfl
      obtain ⟨t, et, hDt, hst, hAt, hCt⟩ := sets_da C B nm cn cs (idx + 1) (compCol B nm cn idx (.first ch) n).next s hs
        (fun ty x e0 hm => hinit ty x e0 (by simp [compCols, hm]))
        (fun j j1 j2 => hv j (by omega) (by simp only [List.length_cons]; omega))
      refine ⟨t, ?_, hDt, hst, hAt, ⟨fun ⟨e, he⟩ => (by cases he), hCt⟩⟩
      simp only [compCols, List.flatMap_cons, hsets, List.nil_append]
      exact et

/-! ## clears -/

theorem clears_da (C : DACtx) : ∀ (l : List Stmt) (s : DA), (∀ st ∈ l, ∃ v, st = .clear v ∧ v ∈ s.A) →
    ∃ t, das C l s = some t
  | [], s, _ => ⟨s, rfl⟩
  | st :: l, s, h => by
    obtain ⟨v, rfl, hv⟩ := h st (by simp)
    obtain ⟨t, et⟩ := clears_da C l (s.assign v) (fun st' hst' => by
      obtain ⟨v', e, hv'⟩ := h st' (List.mem_cons_of_mem _ hst')
      exact ⟨v', e, List.mem_cons_of_mem _ hv'⟩)
    exact ⟨t, das_cons (da_clear hv) et⟩

theorem clears_mem (B : Backend) (nm cn : Nat → String) : ∀ (cols : List Col) (idx n : Nat) (s : DA),
    ColsA cn IsSeq cols idx s → ∀ st ∈ (compCols B nm cn cols idx n).flatMap (·.clears), ∃ v, st = .clear v ∧ v ∈ s.A
  | [], _, _, _, _, st, h => by simp [compCols] at h
  | c :: cs, idx, n, s, hc, st, h => by
    simp only [compCols, List.flatMap_cons, List.mem_append] at h
    rcases h with h | h
    · cases c with
      | scalar e => simp [compCol] at h
      | seq ch =>
        have : st = .clear (cn idx) := by simpa [compCol] using h
        exact ⟨cn idx, this, hc.1 ⟨ch, rfl⟩⟩
      | first ch => simp [compCol] at h
    · exact clears_mem B nm cn cs (idx + 1) _ s hc.2 st h

/-! ## column variables -/

theorem colNames_mem (cn : Nat → String) : ∀ (m idx : Nat) (y : String), y ∈ colNames cn m idx →
    ∃ j, idx ≤ j ∧ j < idx + m ∧ y = cn j
  | 0, _, y, h => by simp [colNames] at h
  | m + 1, idx, y, h => by
    simp only [colNames, List.mem_cons] at h
    rcases h with h | h
    · exact ⟨idx, Nat.le_refl _, by omega, h⟩
    · obtain ⟨j, a, b, e⟩ := colNames_mem cn m (idx + 1) y h
      exact ⟨j, by omega, by omega, e⟩

theorem colNames_nodup (cn : Nat → String) (hcinj : ∀ i j, cn i = cn j → i = j) : ∀ (m idx : Nat), (colNames cn m idx).Nodup
  | 0, _ => by simp [colNames]
  | m + 1, idx => by
    simp only [colNames, List.nodup_cons]
    refine ⟨fun h => ?_, colNames_nodup cn hcinj m (idx + 1)⟩
    obtain ⟨j, a, _, e⟩ := colNames_mem cn m (idx + 1) _ h
    have := hcinj _ _ e; omega

theorem ColsA.all3 {cn : Nat → String} {s : DA} : ∀ (cols : List Col) (idx : Nat),
    ColsA cn IsSeq cols idx s → ColsA cn IsFirst cols idx s → ColsA cn IsScalar cols idx s →
    ∀ y ∈ colNames cn cols.length idx, y ∈ s.A
  | [], _, _, _, _, y, h => by simp [colNames] at h
  | c :: cs, idx, h1, h2, h3, y, h => by
    simp only [List.length_cons, colNames, List.mem_cons] at h
    rcases h with h | h
    · rw [h]
      cases c with
      | scalar e => exact h3.1 ⟨e, rfl⟩
      | seq ch => exact h1.1 ⟨ch, rfl⟩
      | first ch => exact h2.1 ⟨ch, rfl⟩
    · exact ColsA.all3 cs (idx + 1) h1.2 h2.2 h3.2 y h

theorem isVec_vector (x : String) : isVecType ("std::vector<" ++ x ++ ">") = true := by
  simp [isVecType, String.toList_append, List.isPrefixOf]

theorem isVec_token (x : String) : isVecType ("edm::EDGetTokenT<" ++ x ++ ">") = false := by
  simp [isVecType, String.toList_append, List.isPrefixOf]

theorem isVec_cpp (t : Ty) : isVecType t.cpp = false := by cases t <;> decide

theorem colsA_seq_of_vec (B : Backend) (nm cn : Nat → String) : ∀ (cols : List Col) (idx n : Nat) (s : DA),
    (∀ f ∈ compCols B nm cn cols idx n, isVecType f.classVar.1 = true → f.classVar.2 ∈ s.A) → ColsA cn IsSeq cols idx s
  | [], _, _, _, _ => trivial
  | c :: cs, idx, n, s, h => by
    refine ⟨fun ⟨ch, hc⟩ => ?_, colsA_seq_of_vec B nm cn cs (idx + 1) (compCol B nm cn idx c n).next s
      (fun f hf => h f (by simp [compCols, hf]))⟩
    subst hc
    have := h (compCol B nm cn idx (.seq ch) n) (by simp [compCols])
    exact this (by simp only [compCol]; exact isVec_vector _)

theorem pendAll_init (B : Backend) (nm cn : Nat → String) : ∀ (cols : List Col) (idx n : Nat) (s : DA),
    (∀ x, Stmt.decl "bool" x (some (.bool true)) ∈ (compCols B nm cn cols idx n).flatMap (·.decls) → x ∈ s.T ∧ x ∈ s.D) →
    (∀ j, idx ≤ j → j < idx + cols.length → cn j ∈ s.D) → PendAll B nm cn cols idx n s
  | [], _, _, _, _, _ => trivial
  | c :: cs, idx, n, s, h, hv => by
    refine ⟨fun ch hc => ?_, pendAll_init B nm cn cs (idx + 1) (compCol B nm cn idx c n).next s (fun x hx => h x (by simp [compCols, hx]))
      (fun j j1 j2 => hv j (by omega) (by simp only [List.length_cons]; omega))⟩
    subst hc
    obtain ⟨hT, hD⟩ := h (nm n) (by simp [compCols, compCol])
    exact ⟨hD, hv idx (Nat.le_refl _) (by simp), Or.inl hT⟩

/-! ## the per-event body of event-level rows -/

theorem eventRows_body_da (C : DACtx) (B : Backend) (hB : BackendBase B) (nm cn : Nat → String)
    (hinj : ∀ i j, nm i = nm j → i = j) (hdisj : ∀ j k, nm j ≠ cn k)
    (hnres : ∀ j, nm j ≠ "result") (hcres : ∀ k, cn k ≠ "result")
    (cl : List Col) (x : String) (s0 : DA) (hs0 : AsubD s0) (hT0 : s0.T = []) (hG0 : s0.G = [])
    (hD0 : ∀ y ∈ s0.D, y ∈ (colsToks B nm cn cl 0 0).map (·.1) ∨ ∃ j, y = cn j)
    (hcols : ∀ j, j < cl.length → cn j ∈ s0.D)
    (hseq0 : ColsA cn IsSeq cl 0 s0)
    (htok : B.how = "token" → ∀ t ∈ colsToks B nm cn cl 0 0, t.1 ∈ C.tokens)
    (hfill : ∀ y ∈ C.cols, y ∈ colNames cn cl.length 0) :
    ∃ t, das C ((compCols B nm cn cl 0 0).flatMap (·.decls) ++ (compCols B nm cn cl 0 0).flatMap (·.stmts) ++
      (compCols B nm cn cl 0 0).flatMap (·.sets) ++ [.fill x] ++ (compCols B nm cn cl 0 0).flatMap (·.clears)) s0 = some t := by
  obtain ⟨hsd, hnd⟩ := compCols_sd B hB nm cn hinj cl 0 0
  have hrange := declsIn_names (compCols_declsIn B nm cn cl 0 0)
  -- declarations
  obtain ⟨s1, e1, hs1, hD1, hA1, hI1, hT1, hG1, _, hFl1⟩ := decls_da C _ s0 hsd hnd (by
    intro d hd hm
    have hdn : declName d ∈ ((compCols B nm cn cl 0 0).flatMap (·.decls)).map declName := List.mem_map.2 ⟨d, hd, rfl⟩
    rcases hD0 _ hm with h | ⟨j, h⟩
    · exact cols_disj B nm cn hinj cl 0 0 _ hdn h
    · obtain ⟨k, _, _, e⟩ := hrange _ hdn
      exact hdisj k j (e ▸ h)) hs0
  have hres : "result" ∉ s1.D := by
    intro hm
    rcases (hD1 _).1 hm with h | h
    · obtain ⟨k, _, _, e⟩ := hrange _ h; exact hnres k e.symm
    · rcases hD0 _ h with h | ⟨j, h⟩
      · obtain ⟨k, _, _, e⟩ := colsToks_names B nm cn cl 0 0 _ h; exact hnres k e.symm
      · exact hcres j h.symm
  have hg : Glob nm ((compCols B nm cn cl 0 0).flatMap (·.decls)) s1.D :=
    ⟨hnd, fun d hd => (hD1 _).2 (Or.inl (List.mem_map.2 ⟨d, hd, rfl⟩)),
      fun d hd => by obtain ⟨k, _, _, e⟩ := hrange _ (List.mem_map.2 ⟨d, hd, rfl⟩); exact ⟨k, e⟩, hres⟩
  have hinv : SInv ((compCols B nm cn cl 0 0).flatMap (·.decls)) s1.D s1 := by
    refine ⟨rfl, hs1, hI1, ?_⟩
    intro f hf
    rcases hf with hf | ⟨y, hy⟩
    · rcases hT1 f hf with h | h
      · rw [hT0] at h; simp at h
      · exact h
    · have := hG1 _ hy; rw [hG0] at this; simp at this
  have hv1 : ∀ j, 0 ≤ j → j < 0 + cl.length → cn j ∈ s1.D :=
    fun j _ j2 => (hD1 _).2 (Or.inr (hcols j (by omega)))
  -- loops
  obtain ⟨s2, e2, hs2, hA2, hF2⟩ := cols_da C B hB nm cn hinj hdisj hnres _ s1.D hg cl 0 0 s1 hinv (fun _ h => h)
    (by
      intro k _ _ hm
      rcases (hD1 _).1 hm with h | h
      · exact List.mem_append.2 (Or.inl h)
      · rcases hD0 _ h with h | ⟨j, h⟩
        · exact List.mem_append.2 (Or.inr h)
        · exact absurd h (hdisj k j))
    htok hv1 (ColsA.mono hA1 cl 0 hseq0)
    (pendAll_init B nm cn cl 0 0 s1
      (fun x' hx' => ⟨hFl1 x' hx', (hD1 _).2 (Or.inl (List.mem_map.2 ⟨_, hx', rfl⟩))⟩) hv1)
  -- scalar assignments
  obtain ⟨s3, e3, hD3, hs3, hA3, hS3⟩ := sets_da C B nm cn cl 0 0 s2 hs2.sub hs2.init
    (fun j j1 j2 => by rw [hs2.hD]; exact hv1 j j1 j2)
  -- fill
  have hseq3 : ColsA cn IsSeq cl 0 s3 := ColsA.mono (fun y hy => hA3 y (hA2 y (hA1 y hy))) cl 0 hseq0
  have e4 : da C (.fill x) s3 = some s3 := by
    have : subset C.cols s3.A = true := by
      rw [subset_iff]
      exact fun y hy => ColsA.all3 cl 0 hseq3 (ColsA.mono hA3 cl 0 hF2) hS3 y (hfill y hy)
    simp [da, this]
  -- clears
  obtain ⟨s5, e5⟩ := clears_da C _ s3 (clears_mem B nm cn cl 0 0 s3 hseq3)
  exact ⟨s5, das_append_some C (das_append_some C (das_append_some C (das_append_some C e1 e2) e3)
    (by rw [das_single]; exact e4)) e5⟩

/-! ## the token table of a package -/

theorem toks_eventRows (B : Backend) (nm cn : Nat → String) (cl : List Col) :
    (B.how = "token" ∧ banksOf B ((compCols B nm cn cl 0 0).flatMap (·.stmts)) (colBanks cl) = colsToks B nm cn cl 0 0) ∨
    (B.how ≠ "token" ∧ banksOf B ((compCols B nm cn cl 0 0).flatMap (·.stmts)) (colBanks cl) = []) := by
  by_cases ht : B.how = "token"
  · have h := banksOf_cols B ht nm cn cl 0 0 [] []
    simp only [List.append_nil] at h
    exact Or.inl ⟨ht, by rw [h]; simp [banksOf]⟩
  · have h := banksOf_cols_notToken B ht nm cn cl 0 0 [] (colBanks cl)
    simp only [List.append_nil] at h
    exact Or.inr ⟨ht, by rw [h]; simp [banksOf]⟩

theorem toks_elemRows (B : Backend) (nm : Nat → String) (c : Chain) (K : CExpr → Option Ty → List Stmt) :
    (B.how = "token" ∧ banksOf B (compChain B nm c 0 K).stmts [c.bank] = chainToks B nm c 0) ∨
    (B.how ≠ "token" ∧ banksOf B (compChain B nm c 0 K).stmts [c.bank] = []) := by
  by_cases ht : B.how = "token"
  · have h := banksOf_chain B ht nm c 0 K [] []
    simp only [List.append_nil] at h
    exact Or.inl ⟨ht, by rw [h]; simp [banksOf]⟩
  · have h := banksOf_chain_notToken B ht nm c 0 K [] [c.bank]
    simp only [List.append_nil] at h
    exact Or.inr ⟨ht, by rw [h]; simp [banksOf]⟩

/-! ## event-level rows: the package -/

section
variable (B : Backend) (hB : BackendBase B) (nm cn : Nat → String)
  (hinj : ∀ i j, nm i = nm j → i = j) (hcinj : ∀ i j, cn i = cn j → i = j) (hdisj : ∀ j k, nm j ≠ cn k)
  (hnres : ∀ j, nm j ≠ "result") (hcres : ∀ k, cn k ≠ "result")

theorem eventRows_classNames (cols : List (String × Col)) :
    (compile B nm cn (.eventRows cols)).classVars.map (·.2) =
      (compile B nm cn (.eventRows cols)).tokens.map (·.1) ++ colNames cn cols.length 0 := by
  have h := compCols_vars' B nm cn (cols.map (·.2)) 0 0
  simp only [List.length_map] at h
  simp only [compile, List.map_append, List.map_map, ← h]
  rfl

theorem eventRows_cols (cols : List (String × Col)) :
    (compile B nm cn (.eventRows cols)).branches.map (·.2) = colNames cn cols.length 0 := by
  have h := compCols_vars' B nm cn (cols.map (·.2)) 0 0
  have hl := compCols_length' B nm cn (cols.map (·.2)) 0 0
  simp only [List.length_map] at h hl
  simp only [compile]
  rw [zip_map_snd _ _ (by simp [hl]), h]

include hB hinj hdisj hnres hcres in
theorem eventRows_da (cols : List (String × Col)) :
    ∃ t, da (compile B nm cn (.eventRows cols)).daCtx (compile B nm cn (.eventRows cols)).body
      (classDA (compile B nm cn (.eventRows cols)).classVars) = some t := by
  have hbody : (compile B nm cn (.eventRows cols)).body = .block
      ((compCols B nm cn (cols.map (·.2)) 0 0).flatMap (·.decls) ++ (compCols B nm cn (cols.map (·.2)) 0 0).flatMap (·.stmts) ++
        (compCols B nm cn (cols.map (·.2)) 0 0).flatMap (·.sets) ++ [.fill (B.fillTree B.treeName)] ++
        (compCols B nm cn (cols.map (·.2)) 0 0).flatMap (·.clears)) := rfl
  have htoks : (compile B nm cn (.eventRows cols)).tokens =
      banksOf B ((compCols B nm cn (cols.map (·.2)) 0 0).flatMap (·.stmts)) (colBanks (cols.map (·.2))) := rfl
  have hnames := eventRows_classNames B nm cn cols
  have hsub : ∀ y ∈ (compile B nm cn (.eventRows cols)).tokens.map (·.1),
      y ∈ (colsToks B nm cn (cols.map (·.2)) 0 0).map (·.1) := by
    rw [htoks]
    rcases toks_eventRows B nm cn (cols.map (·.2)) with ⟨_, h⟩ | ⟨_, h⟩ <;> rw [h]
    · exact fun _ h => h
    · simp
  obtain ⟨t, et⟩ := eventRows_body_da (compile B nm cn (.eventRows cols)).daCtx B hB nm cn hinj hdisj hnres hcres
    (cols.map (·.2)) (B.fillTree B.treeName) (classDA (compile B nm cn (.eventRows cols)).classVars)
    (classDA_AsubD _) rfl rfl
    (by
      intro y hy
      have hy' : y ∈ (compile B nm cn (.eventRows cols)).classVars.map (·.2) := hy
      rw [hnames, List.mem_append] at hy'
      rcases hy' with h | h
      · exact Or.inl (hsub y h)
      · obtain ⟨j, _, _, e⟩ := colNames_mem cn _ _ _ h; exact Or.inr ⟨j, e⟩)
    (by
      intro j hj
      show cn j ∈ (compile B nm cn (.eventRows cols)).classVars.map (·.2)
      rw [hnames]
      exact List.mem_append.2 (Or.inr (mem_colNames cn _ 0 j (Nat.zero_le _) (by simpa using hj))))
    (colsA_seq_of_vec B nm cn _ 0 0 _ (by
      intro f hf hv
      simp only [classDA, List.mem_map, List.mem_filter]
      exact ⟨f.classVar, ⟨by simp only [compile]; exact List.mem_append.2 (Or.inr (List.mem_map.2 ⟨f, hf, rfl⟩)), hv⟩, rfl⟩))
    (by
      intro ht tk hm
      show tk.1 ∈ (compile B nm cn (.eventRows cols)).tokens.map (·.1)
      rw [htoks]
      rcases toks_eventRows B nm cn (cols.map (·.2)) with ⟨_, h⟩ | ⟨hn, _⟩
      · rw [h]; exact List.mem_map.2 ⟨tk, hm, rfl⟩
      · exact absurd ht hn)
    (by
      intro y hy
      have : y ∈ (compile B nm cn (.eventRows cols)).branches.map (·.2) := hy
      rw [eventRows_cols] at this
      simpa using this)
  rw [hbody]
  exact ⟨_, da_block et⟩

include hinj hcinj hdisj in
theorem eventRows_nodup (cols : List (String × Col)) :
    ((compile B nm cn (.eventRows cols)).classVars.map (·.2)).Nodup := by
  rw [eventRows_classNames, List.nodup_append]
  refine ⟨?_, colNames_nodup cn hcinj _ _, ?_⟩
  · have htoks : (compile B nm cn (.eventRows cols)).tokens =
        banksOf B ((compCols B nm cn (cols.map (·.2)) 0 0).flatMap (·.stmts)) (colBanks (cols.map (·.2))) := rfl
    rw [htoks]
    rcases toks_eventRows B nm cn (cols.map (·.2)) with ⟨_, h⟩ | ⟨_, h⟩ <;> rw [h]
    · exact colsToks_nodup B nm cn hinj _ 0 0
    · simp
  · intro a ha b hb hab
    obtain ⟨t, ht, rfl⟩ := List.mem_map.1 ha
    obtain ⟨j, ej⟩ := tokens_names_eventRows B nm cn cols t ht
    obtain ⟨k, _, _, ek⟩ := colNames_mem cn _ _ _ hb
    exact hdisj j k (by rw [← ej, hab, ek])

theorem eventRows_branches (cols : List (String × Col)) :
    ((compile B nm cn (.eventRows cols)).branches.all fun b =>
      ((compile B nm cn (.eventRows cols)).classVars.map (·.2)).contains b.2) = true := by
  rw [List.all_eq_true]
  intro b hb
  have h1 : b.2 ∈ (compile B nm cn (.eventRows cols)).branches.map (·.2) := List.mem_map.2 ⟨b, hb, rfl⟩
  rw [eventRows_cols] at h1
  rw [eventRows_classNames]
  simp only [List.contains_iff_mem, List.mem_append]
  exact Or.inr h1

end

/-! ## element-level rows: the package -/

theorem setCols_da (C : DACtx) (cn : Nat → String) (ptr : Bool) (cur : CExpr) (ty : Option Ty) (hc : clean cur = true) :
    ∀ (pes : List PE) (idx : Nat) (sp : DA), (∀ x ∈ vars cur, x ∈ sp.A) →
      (∀ j, idx ≤ j → j < idx + pes.length → cn j ∈ sp.D) →
      ∃ t, das C (setCols cn ptr cur ty pes idx) sp = some t ∧ t.D = sp.D ∧ (∀ y ∈ sp.A, y ∈ t.A) ∧
        (∀ j, idx ≤ j → j < idx + pes.length → cn j ∈ t.A)
  | [], idx, sp, _, _ => ⟨sp, by simp [setCols, das], rfl, fun _ h => h, fun j j1 j2 => by simp at j2; omega⟩
  | pe :: rest, idx, sp, hv, hD => by
    have e1 : da C (.set (cn idx) (compPE (ptr && ty.isNone) cur (ty.getD .double) pe)) sp = some (sp.assign (cn idx)) :=
      da_set (hD idx (Nat.le_refl _) (by simp))
        (okE_of (clean_compPE _ _ _ hc pe) (fun x hx => hv x (vars_compPE _ _ _ pe x hx)))
    obtain ⟨t, et, hDt, hAt, hCt⟩ := setCols_da C cn ptr cur ty hc rest (idx + 1) (sp.assign (cn idx))
      (fun x hx => List.mem_cons_of_mem _ (hv x hx))
      (fun j j1 j2 => hD j (by omega) (by simp only [List.length_cons]; omega))
    refine ⟨t, by simp only [setCols]; exact das_cons e1 et, hDt, fun y hy => hAt y (List.mem_cons_of_mem _ hy), ?_⟩
    intro j j1 j2
    by_cases hj : j = idx
    · subst hj; exact hAt _ (List.mem_cons_self ..)
    · exact hCt j (by omega) (by simp only [List.length_cons] at j2; omega)

section
variable (B : Backend) (hB : BackendBase B) (nm cn : Nat → String)
  (hinj : ∀ i j, nm i = nm j → i = j) (hcinj : ∀ i j, cn i = cn j → i = j) (hdisj : ∀ j k, nm j ≠ cn k)
  (hnres : ∀ j, nm j ≠ "result") (hcres : ∀ k, cn k ≠ "result")

theorem elemRows_classNames (c : Chain) (cols : List (String × PE)) :
    (compile B nm cn (.elemRows c cols)).classVars.map (·.2) =
      (compile B nm cn (.elemRows c cols)).tokens.map (·.1) ++ colNames cn cols.length 0 := by
  have h := colVars_names cn (chainTy none c.steps) (cols.map (·.2)) 0
  simp only [List.length_map] at h
  simp only [compile, List.map_append, List.map_map, h]
  rfl

theorem elemRows_cols (c : Chain) (cols : List (String × PE)) :
    (compile B nm cn (.elemRows c cols)).branches.map (·.2) = colNames cn cols.length 0 := by
  have h := colVars_names cn (chainTy none c.steps) (cols.map (·.2)) 0
  simp only [List.length_map] at h
  simp only [compile]
  rw [zip_map_snd _ _ (by simp [h, colNames_length]), h]

theorem elemRows_tokens (c : Chain) (cols : List (String × PE)) :
    (B.how = "token" ∧ (compile B nm cn (.elemRows c cols)).tokens = chainToks B nm c 0) ∨
    (B.how ≠ "token" ∧ (compile B nm cn (.elemRows c cols)).tokens = []) :=
  toks_elemRows B nm c _

include hB hinj hdisj hnres hcres in
theorem elemRows_da (c : Chain) (cols : List (String × PE)) :
    ∃ t, da (compile B nm cn (.elemRows c cols)).daCtx (compile B nm cn (.elemRows c cols)).body
      (classDA (compile B nm cn (.elemRows c cols)).classVars) = some t := by
  have hbody : (compile B nm cn (.elemRows c cols)).body = .block
      (.decl (B.handleTy ((B.collType c.coll).getD "?")) (nm 0) none ::
        (compChain B nm c 0 (fun cur ty => setCols cn B.elemPtr cur ty (cols.map (·.2)) 0 ++ [.fill (B.fillTree B.treeName)])).stmts) := rfl
  have hnames := elemRows_classNames B nm cn c cols
  have hD0 : ∀ y ∈ (classDA (compile B nm cn (.elemRows c cols)).classVars).D, y = nm 2 ∨ ∃ j, y = cn j := by
    intro y hy
    have hy' : y ∈ (compile B nm cn (.elemRows c cols)).classVars.map (·.2) := hy
    rw [hnames, List.mem_append] at hy'
    rcases hy' with h | h
    · rcases elemRows_tokens B nm cn c cols with ⟨_, e⟩ | ⟨_, e⟩ <;> rw [e] at h
      · exact Or.inl (by simpa [chainToks] using h)
      · simp at h
    · obtain ⟨j, _, _, e⟩ := colNames_mem cn _ _ _ h; exact Or.inr ⟨j, e⟩
  have hcn : ∀ j, j < cols.length → cn j ∈ (classDA (compile B nm cn (.elemRows c cols)).classVars).D := by
    intro j hj
    show cn j ∈ (compile B nm cn (.elemRows c cols)).classVars.map (·.2)
    rw [hnames]
    exact List.mem_append.2 (Or.inr (mem_colNames cn _ 0 j (Nat.zero_le _) (by omega)))
  have hfr : ∀ k, k ≠ 2 → nm k ∉ (classDA (compile B nm cn (.elemRows c cols)).classVars).D := by
    intro k hk hm
    rcases hD0 _ hm with h | ⟨j, h⟩
    · exact hk (hinj _ _ h)
    · exact hdisj k j h
  have hres0 : "result" ∉ (classDA (compile B nm cn (.elemRows c cols)).classVars).D := by
    intro hm
    rcases hD0 _ hm with h | ⟨j, h⟩
    · exact hnres 2 h.symm
    · exact hcres j h.symm
  have h1 : ∃ s1 : DA, da (compile B nm cn (.elemRows c cols)).daCtx
      (.decl (B.handleTy ((B.collType c.coll).getD "?")) (nm 0) none) (classDA (compile B nm cn (.elemRows c cols)).classVars) = some s1 ∧
      AsubD s1 ∧ s1.D = nm 0 :: (classDA (compile B nm cn (.elemRows c cols)).classVars).D ∧ s1.T = [] ∧ s1.G = [] :=
    ⟨_, da_decl_none (hfr 0 (by omega)) (hB.handleNotVec ((B.collType c.coll).getD "?")),
      fun y hy => List.mem_cons_of_mem _ (classDA_AsubD _ y hy), rfl, rfl, rfl⟩
  obtain ⟨s1, e1, hs1, hD1, hT1, hG1⟩ := h1
  obtain ⟨t, et, _⟩ := chain_plain (compile B nm cn (.elemRows c cols)).daCtx B hB nm hinj c 0
    (fun cur ty => setCols cn B.elemPtr cur ty (cols.map (·.2)) 0 ++ [.fill (B.fillTree B.treeName)]) s1 hs1
    (by rw [hD1]; exact List.mem_cons_self ..)
    (by
      rw [hD1]
      intro hm
      rcases List.mem_cons.1 hm with h | h
      · exact hnres 0 h.symm
      · exact hres0 h)
    (by
      rw [hD1]
      intro hm
      rcases List.mem_cons.1 hm with h | h
      · have := hinj _ _ h; omega
      · exact hfr 1 (by omega) h)
    (by
      intro k k1 _ hm
      rw [hD1] at hm
      rcases List.mem_cons.1 hm with h | h
      · have := hinj _ _ h; omega
      · exact hfr k (by omega) h)
    (by
      intro ht
      show nm (0 + 2) ∈ (compile B nm cn (.elemRows c cols)).tokens.map (·.1)
      rcases elemRows_tokens B nm cn c cols with ⟨_, e⟩ | ⟨hn, _⟩
      · rw [e]; simp [chainToks]
      · exact absurd ht hn)
    (by
      intro sp _ hDp _ hip
      obtain ⟨t1, et1, _, _, hC1⟩ := setCols_da (compile B nm cn (.elemRows c cols)).daCtx cn B.elemPtr
        (cbVal B.elemPtr (.var (nm (0 + 1))) c.steps) (cbTy B.elemPtr (.var (nm (0 + 1))) c.steps)
        (stepConds_clean B.elemPtr c.steps _ none rfl).2 (cols.map (·.2)) 0 sp
        (by
          intro x hx
          have := (stepConds_vars B.elemPtr c.steps (.var (nm (0 + 1))) none).2 x hx
          simp only [vars, List.mem_singleton] at this; subst this; exact hip)
        (fun j _ j2 => hDp _ (by rw [hD1]; exact List.mem_cons_of_mem _ (hcn j (by simpa using j2))))
      have e4 : da (compile B nm cn (.elemRows c cols)).daCtx (.fill (B.fillTree B.treeName)) t1 = some t1 := by
        have : subset (compile B nm cn (.elemRows c cols)).daCtx.cols t1.A = true := by
          rw [subset_iff]
          intro y hy
          have hy' : y ∈ (compile B nm cn (.elemRows c cols)).branches.map (·.2) := hy
          rw [elemRows_cols] at hy'
          obtain ⟨j, j1, j2, e⟩ := colNames_mem cn _ _ _ hy'
          rw [e]; exact hC1 j j1 (by simpa using j2)
        simp [da, this]
      exact ⟨t1, das_append_some _ et1 (by rw [das_single]; exact e4)⟩)
    (by cases cols <;> rfl)
    (by
      intro f hf
      rcases hf with hf | ⟨y, hy⟩
      · rw [hT1] at hf; simp at hf
      · rw [hG1] at hy; simp at hy)
  rw [hbody]
  exact ⟨_, da_block (das_cons e1 et)⟩

include hcinj hdisj in
theorem elemRows_nodup (c : Chain) (cols : List (String × PE)) :
    ((compile B nm cn (.elemRows c cols)).classVars.map (·.2)).Nodup := by
  rw [elemRows_classNames, List.nodup_append]
  refine ⟨?_, colNames_nodup cn hcinj _ _, ?_⟩
  · rcases elemRows_tokens B nm cn c cols with ⟨_, h⟩ | ⟨_, h⟩ <;> rw [h] <;> simp [chainToks]
  · intro a ha b hb hab
    obtain ⟨t, ht, rfl⟩ := List.mem_map.1 ha
    obtain ⟨j, ej⟩ := tokens_names_elemRows B nm cn c cols t ht
    obtain ⟨k, _, _, ek⟩ := colNames_mem cn _ _ _ hb
    exact hdisj j k (by rw [← ej, hab, ek])

theorem elemRows_branches (c : Chain) (cols : List (String × PE)) :
    ((compile B nm cn (.elemRows c cols)).branches.all fun b =>
      ((compile B nm cn (.elemRows c cols)).classVars.map (·.2)).contains b.2) = true := by
  rw [List.all_eq_true]
  intro b hb
  have h1 : b.2 ∈ (compile B nm cn (.elemRows c cols)).branches.map (·.2) := List.mem_map.2 ⟨b, hb, rfl⟩
  rw [elemRows_cols] at h1
  rw [elemRows_classNames]
  simp only [List.contains_iff_mem, List.mem_append]
  exact Or.inr h1

/-! ## `WellFormed` -/

include hB hinj hcinj hdisj hnres hcres in
/-- **the checker `WellFormed` accepts every package the translator model produces** -/
theorem compile_wf (fq : FQ) : WellFormed (compile B nm cn fq) = true := by
  cases fq with
  | eventRows cols =>
    obtain ⟨t, ht⟩ := eventRows_da B hB nm cn hinj hdisj hnres hcres cols
    simp only [WellFormed, ht, Option.isSome_some, Bool.true_and, Bool.and_eq_true, decide_eq_true_eq]
    exact ⟨eventRows_nodup B nm cn hinj hcinj hdisj cols, eventRows_branches B nm cn cols⟩
  | elemRows c cols =>
    obtain ⟨t, ht⟩ := elemRows_da B hB nm cn hinj hdisj hnres hcres c cols
    simp only [WellFormed, ht, Option.isSome_some, Bool.true_and, Bool.and_eq_true, decide_eq_true_eq]
    exact ⟨elemRows_nodup B nm cn hcinj hdisj c cols, elemRows_branches B nm cn c cols⟩

end

/-! ## `EventLocal` -/

/-- what `da` accepts, `emp` does not reject; so `EventLocal` only needs the vector columns known empty at the end -/
theorem eventLocal_of (P : Package) (hwf : WellFormed P = true)
    (hE : ∀ E, emp P.body (vecCols P) = some E → subset (vecCols P) E = true) : EventLocal P = true := by
  have hda : ∃ t, da P.daCtx P.body (classDA P.classVars) = some t := by
    have h := hwf
    unfold WellFormed at h
    simp only [Bool.and_eq_true] at h
    cases hd : da P.daCtx P.body (classDA P.classVars) with
    | none => rw [hd] at h; simp at h
    | some t => exact ⟨t, rfl⟩
  obtain ⟨t, ht⟩ := hda
  obtain ⟨E, hEe⟩ := emp_total P.body (da_noLine _ _ _ _ ht) (vecCols P)
  simp only [EventLocal, hwf, hEe, Bool.true_and]
  exact hE E hEe

theorem emps_clears : ∀ (l : List Stmt) (E : List String), (∀ st ∈ l, ∃ v, st = .clear v) →
    ∃ E', emps l E = some E' ∧ (∀ y ∈ E, y ∈ E') ∧ ∀ v, Stmt.clear v ∈ l → v ∈ E'
  | [], E, _ => ⟨E, rfl, fun _ h => h, by simp⟩
  | st :: l, E, h => by
    obtain ⟨v, rfl⟩ := h st (by simp)
    obtain ⟨E', e, hm, hc⟩ := emps_clears l (v :: E) (fun st' hst' => h st' (List.mem_cons_of_mem _ hst'))
    refine ⟨E', by simp only [emps, emp]; exact e, fun y hy => hm y (List.mem_cons_of_mem _ hy), ?_⟩
    intro v' hv'
    rcases List.mem_cons.1 hv' with e' | hv'
    · simp only [Stmt.clear.injEq] at e'; subst e'; exact hm _ (List.mem_cons_self ..)
    · exact hc v' hv'

theorem clears_shape (B : Backend) (nm cn : Nat → String) : ∀ (cols : List Col) (idx n : Nat),
    ∀ st ∈ (compCols B nm cn cols idx n).flatMap (·.clears), ∃ v, st = .clear v
  | [], _, _, st, h => by simp [compCols] at h
  | c :: cs, idx, n, st, h => by
    simp only [compCols, List.flatMap_cons, List.mem_append] at h
    rcases h with h | h
    · cases c with
      | scalar e => simp [compCol] at h
      | seq ch => exact ⟨cn idx, by simpa [compCol] using h⟩
      | first ch => simp [compCol] at h
    · exact clears_shape B nm cn cs (idx + 1) _ st h

theorem vec_has_clear (B : Backend) (nm cn : Nat → String) : ∀ (cols : List Col) (idx n : Nat),
    ∀ f ∈ compCols B nm cn cols idx n, isVecType f.classVar.1 = true →
      Stmt.clear f.classVar.2 ∈ (compCols B nm cn cols idx n).flatMap (·.clears)
  | [], _, _, f, h, _ => by simp [compCols] at h
  | c :: cs, idx, n, f, h, hv => by
    simp only [compCols, List.mem_cons] at h
    simp only [compCols, List.flatMap_cons, List.mem_append]
    rcases h with h | h
    · subst h
      cases c with
      | scalar e => simp [compCol, isVec_cpp] at hv
      | seq ch => exact Or.inl (by simp [compCol])
      | first ch => simp [compCol, isVec_cpp] at hv
    · exact Or.inr (vec_has_clear B nm cn cs (idx + 1) _ f h hv)

theorem colVars_notVec (cn : Nat → String) (t : Option Ty) : ∀ (pes : List PE) (idx : Nat),
    ∀ p ∈ colVars cn t pes idx, isVecType p.1 = false
  | [], _, p, h => by simp [colVars] at h
  | pe :: rest, idx, p, h => by
    simp only [colVars, List.mem_cons] at h
    rcases h with h | h
    · subst h; exact isVec_cpp _
    · exact colVars_notVec cn t rest (idx + 1) p h

section
variable (B : Backend) (hB : BackendBase B) (nm cn : Nat → String)
  (hinj : ∀ i j, nm i = nm j → i = j) (hcinj : ∀ i j, cn i = cn j → i = j) (hdisj : ∀ j k, nm j ≠ cn k)
  (hnres : ∀ j, nm j ≠ "result") (hcres : ∀ k, cn k ≠ "result")
include hB hinj hcinj hdisj hnres hcres

/-- **the checker `EventLocal` accepts every package the translator model produces** -/
theorem compile_el (fq : FQ) : EventLocal (compile B nm cn fq) = true := by
  refine eventLocal_of _ (compile_wf B hB nm cn hinj hcinj hdisj hnres hcres fq) ?_
  cases fq with
  | eventRows cols =>
    intro E hE
    have hbody : (compile B nm cn (.eventRows cols)).body = .block
        (((compCols B nm cn (cols.map (·.2)) 0 0).flatMap (·.decls) ++ (compCols B nm cn (cols.map (·.2)) 0 0).flatMap (·.stmts) ++
          (compCols B nm cn (cols.map (·.2)) 0 0).flatMap (·.sets) ++ [.fill (B.fillTree B.treeName)]) ++
          (compCols B nm cn (cols.map (·.2)) 0 0).flatMap (·.clears)) := rfl
    rw [hbody] at hE
    simp only [emp] at hE
    rw [emps_append] at hE
    split at hE
    · rename_i E1 _
      obtain ⟨E', e, _, hc⟩ := emps_clears _ E1 (clears_shape B nm cn (cols.map (·.2)) 0 0)
      rw [e] at hE
      simp only [Option.some.injEq] at hE; subst hE
      rw [subset_iff]
      intro y hy
      simp only [vecCols, List.mem_map, List.mem_filter] at hy
      obtain ⟨p, ⟨hp, hv⟩, rfl⟩ := hy
      simp only [compile, List.mem_append, List.mem_map] at hp
      rcases hp with ⟨t, _, rfl⟩ | ⟨f, hf, rfl⟩
      · simp [isVec_token] at hv
      · exact hc _ (vec_has_clear B nm cn _ 0 0 f hf hv)
    · simp at hE
  | elemRows c cols =>
    intro E _
    have : vecCols (compile B nm cn (.elemRows c cols)) = [] := by
      simp only [vecCols, List.map_eq_nil_iff, List.filter_eq_nil_iff]
      intro p hp
      simp only [compile, List.mem_append, List.mem_map] at hp
      rcases hp with ⟨t, _, rfl⟩ | hp
      · simp [isVec_token]
      · simp [colVars_notVec cn _ _ 0 p hp]
    rw [this]; rfl

end

/-! ## the backend records the text tie uses satisfy the hypothesis -/

theorem ne_of_head' (a b : String) (h : a.toList.head? ≠ b.toList.head?) : a ≠ b := fun e => h (by rw [e])

/-- all three records `mkBackend` builds (ATLAS, CMS AOD, CMS miniAOD; any collection table) are `BackendBase` -/
theorem backendBase_mkBackend (name : String) (colls : List (String × String × String)) :
    BackendBase (mkBackend name colls) := by
  unfold mkBackend
  split
  · refine ⟨?_, ?_, Or.inr rfl⟩
    · intro t; simp [isVecType, String.toList_append, List.isPrefixOf, toString]
    · intro t
      have h : (s!"const {t}*").toList.head? = some 'c' := by simp [String.toList_append, toString]
      refine ⟨ne_of_head' _ _ ?_, ne_of_head' _ _ ?_, ne_of_head' _ _ ?_, ne_of_head' _ _ ?_⟩ <;> (rw [h]; decide)
  · split
    · refine ⟨?_, ?_, Or.inl rfl⟩
      · intro t; simp [isVecType, String.toList_append, List.isPrefixOf, toString]
      · intro t
        have h : (s!"edm::Handle<{t}>").toList.head? = some 'e' := by simp [String.toList_append, toString]
        refine ⟨ne_of_head' _ _ ?_, ne_of_head' _ _ ?_, ne_of_head' _ _ ?_, ne_of_head' _ _ ?_⟩ <;> (rw [h]; decide)
    · refine ⟨?_, ?_, Or.inl rfl⟩
      · intro t; simp [isVecType, String.toList_append, List.isPrefixOf, toString]
      · intro t
        have h : (s!"Handle<{t}>").toList.head? = some 'H' := by simp [String.toList_append, toString]
        refine ⟨ne_of_head' _ _ ?_, ne_of_head' _ _ ?_, ne_of_head' _ _ ?_, ne_of_head' _ _ ?_⟩ <;> (rw [h]; decide)

end FaxVerif.Gen.Wf
