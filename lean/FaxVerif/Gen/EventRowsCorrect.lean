/-
Gen — end-to-end correctness of event-level rows:
    ds.Select(e -> {name: col, …})     col = scalar (Count/Sum/arithmetic) | chain (vector) | First(chain)
-/
import FaxVerif.Gen.DeclsCorrect
import FaxVerif.Gen.TokenTable
import FaxVerif.Gen.FirstCorrect
namespace FaxVerif.Gen
open FaxVerif.Cpp FaxVerif.Linq
variable {D : Type}

/-- the bank a chain ranges over holds a collection -/
def BankIsVec (QC : QCtx D) (c : Chain) : Prop :=
  ∀ cty content, QC.ev.find c.bank = some (cty, content) → ∃ l, content = .vec l

def ColHyp (QC : QCtx D) : Col → Prop
  | .scalar e => wtEE e = true ∧ (∀ c ∈ chainsEE e, ChainTyped QC c) ∧ (∀ c ∈ sumChainsEE e, SumNonEmpty QC c)
  | .seq c => wtSteps none c.steps = true ∧ ChainTyped QC c ∧ BankIsVec QC c
  | .first c => wtSteps none c.steps = true ∧ ChainTyped QC c ∧ BankIsVec QC c

/-- what the class-level column variable must be when the event starts -/
def ColPre (col : Col) (v : String) (σ : Env D) : Prop :=
  match col with
  | .seq _ => σ v = some (.val (.vec []))
  | _ => (σ v).isSome = true

/-- after a column's loops: its value is available — as the expression the later assignment
evaluates (scalar) or already in the column variable (vector, First) -/
def ColReady (N : Num D) (f : ColFrag) (v : Val D) (σ : Env D) : Prop :=
  match f.sets with
  | [.set x e] => evalE N σ e = .ok v ∧ (σ x).isSome = true
  | _ => σ f.classVar.2 = some (.val v)

theorem chainQ_vec (QC : QCtx D) (ρ : LEnv D) (ev : String) (c : Chain) (v : Val D)
    (hb : BankIsVec QC c) (h : denote QC ρ (chainQ ev c) = .ok v) : ∃ ws, v = .vec ws := by
  unfold chainQ at h
  cases hs : denote QC ρ (.coll (.var ev) c.coll c.bank) with
  | error e => rw [stepsQ_error QC ρ e c.steps _ 0 hs] at h; simp at h
  | ok src =>
    have hsrc := hs
    simp only [denote] at hs
    cases hev : ρ.get ev with
    | none => rw [hev] at hs; simp at hs
    | some evv =>
      rw [hev] at hs; simp only [] at hs
      cases hf : QC.ev.find c.bank with
      | none => rw [hf] at hs; simp at hs
      | some p =>
        obtain ⟨have_, content⟩ := p
        obtain ⟨l, rfl⟩ := hb have_ content hf
        rw [hf] at hs; simp only [] at hs
        cases hct : QC.collType c.coll with
        | none => rw [hct] at hs; simp at hs
        | some want =>
          rw [hct] at hs; simp only [] at hs
          by_cases hw : want = have_
          · simp only [hw, if_true, Except.ok.injEq] at hs; subst hs
            rw [stepsQ_denote QC ρ c.steps _ 0 l hsrc] at h
            cases hcl : chainList QC c.steps l with
            | error e => rw [hcl] at h; simp at h
            | ok r => rw [hcl] at h; simp only [Except.ok.injEq] at h; exact ⟨r, h.symm⟩
          · simp [hw] at hs

theorem foldG_push : ∀ (ws l0 : List (Val D)),
    foldG (fun (a : List (Val D)) w => (.ok (a ++ [w]) : Except Fault _)) ws l0 = .ok (l0 ++ ws)
  | [], l0 => by simp [foldG]
  | w :: ws, l0 => by simp [foldG, foldG_push ws (l0 ++ [w])]

/-- **one column** -/
theorem compCol_correct_tok (C : Ctx D) (QC : QCtx D) (hN : QC.N = C.N) (hev : QC.ev = C.ev)
    (B : Backend) (hB : BackendBase B) (nm cn : Nat → String)
    (hinj : ∀ i j, nm i = nm j → i = j) (hres : ∀ j, nm j ≠ "result")
    (hcres : ∀ k, cn k ≠ "result") (hdisj : ∀ j k, nm j ≠ cn k)
    (hcollT : ∀ name, B.collType name = QC.collType name)
    (col : Col) (idx n : Nat) (htok : TokCol B nm C col n) (s : St D) (v : Val D)
    (hdone : DeclsDone C.N (compCol B nm cn idx col n).decls s.env)
    (hpre : ColPre col (cn idx) s.env) (hhyp : ColHyp QC col)
    (hden : denote QC [("e", evtVal)] (colQ "e" col) = .ok v) :
    ∃ s', execs C (compCol B nm cn idx col n).stmts s = .ok s' ∧ s'.rows = s.rows ∧
      ColReady C.N (compCol B nm cn idx col n) v s'.env ∧
      (∀ y, y ≠ cn idx → ¬ Touch nm n (compCol B nm cn idx col n).next y → s'.env y = s.env y) := by
  have hcolT : ∀ lo hi, ¬ Touch nm lo hi (cn idx) := by
    intro lo hi
    rintro (⟨j, _, _, h⟩ | h)
    · exact hdisj j idx h.symm
    · exact hcres idx h
  cases col with
  | scalar e =>
    obtain ⟨hwt, hct, hsn⟩ := hhyp
    obtain ⟨s', h1, h2, h3, _, h5⟩ := compEE_correct_tok C QC hN hev B hB nm hinj hres hcollT e n s v htok
      (by simpa [compCol] using hdone) hwt hct hsn (by simpa [colQ] using hden)
    refine ⟨s', by simpa [compCol] using h1, h2, ?_, fun y _ hy => h5 y (by simpa [compCol] using hy)⟩
    simp only [ColReady, compCol]
    refine ⟨h3, ?_⟩
    rw [h5 (cn idx) (hcolT _ _)]
    exact hpre
  | seq c =>
    obtain ⟨hwt, hct, hbv⟩ := hhyp
    simp only [colQ] at hden
    obtain ⟨ws, rfl⟩ := chainQ_vec QC _ "e" c v hbv hden
    obtain ⟨cty, l, hcty, hfind, hel⟩ := chainQ_ok QC _ "e" c ws hden
    let K : CExpr → Option Ty → List Stmt := fun cur _ => [.push (cn idx) cur]
    have hnext := compChain_next B nm c n K
    let Pinv : St D → List (Val D) → Prop := fun t l0 => t.env (cn idx) = some (.val (.vec l0)) ∧ t.rows = s.rows ∧
      ∀ y, y ≠ cn idx → ¬ Touch nm n (compChain B nm c n K).next y → t.env y = s.env y
    have hx : (s.env (nm n)).isSome = true := by
      have := hdone (.decl (B.handleTy ((B.collType c.coll).getD "?")) (nm n) none) (by simp [compCol, compChain])
      simpa [DeclOK] using this
    obtain ⟨s', hex, hP'⟩ := compChain_correct_tok (β := List (Val D)) C QC hN B hB nm hinj hres c n htok K cty l ws
      (by rw [hcollT]; exact hcty) (by rw [← hev]; exact hfind) hwt (hct cty l hfind) Pinv
      (fun a w => .ok (a ++ [w])) (fun _ => True) (fun _ _ => trivial)
      (by
        intro t t' b hPt hr hfr
        refine ⟨by rw [hfr _ (hcolT _ _)]; exact hPt.1, by rw [hr]; exact hPt.2.1, fun y hy1 hy2 => ?_⟩
        rw [hfr y hy2]; exact hPt.2.2 y hy1 hy2)
      (by
        intro t b b' w v0 hPt hg hevw _ _
        simp only [Except.ok.injEq] at hg; subst hg
        refine ⟨{ t with env := t.env.set (cn idx) (.vec (b ++ [w])) }, ?_, by simp [Env.set], hPt.2.1, ?_⟩
        · simp only [K, execs, exec, hPt.1, hevw]
        · intro y hy1 hy2
          simp only [Env.set, hy1, if_false]; exact hPt.2.2 y hy1 hy2)
      s [] ([] ++ ws) hx hel (foldG_push ws []) ⟨hpre, rfl, fun _ _ _ => rfl⟩
    refine ⟨s', by simpa [compCol] using hex, hP'.2.1, ?_, by simpa [compCol] using hP'.2.2⟩
    simpa [ColReady, compCol] using hP'.1
  | first c =>
    obtain ⟨hwt, hct, hbv⟩ := hhyp
    simp only [colQ, denote] at hden
    cases hc : denote QC [("e", evtVal)] (chainQ "e" c) with
    | error e => rw [hc] at hden; simp at hden
    | ok cv =>
      rw [hc] at hden
      obtain ⟨ws, rfl⟩ := chainQ_vec QC _ "e" c cv hbv hc
      obtain ⟨cty, l, hcty, hfind, hel⟩ := chainQ_ok QC _ "e" c ws hc
      cases ws with
      | nil => simp at hden
      | cons w rest =>
        simp only [Except.ok.injEq] at hden; subst hden
        have hx : (s.env (nm (n + 1))).isSome = true := by
          have := hdone (.decl (B.handleTy ((B.collType c.coll).getD "?")) (nm (n + 1)) none) (by simp [compCol, compChain])
          simpa [DeclOK] using this
        have hfl : s.env (nm n) = some (.val (.bool true)) := by
          have := hdone (.decl "bool" (nm n) (some (.bool true))) (by simp [compCol])
          simpa [DeclOK, initValOf, litOf, castTo, asBool] using this
        obtain ⟨_, hok⟩ := first_idiom_tok C QC hN B hB nm hinj hres c n htok (cn idx) (fun j h => hdisj j idx h.symm) (hcres idx)
          "First() called on an empty sequence" cty l (w :: rest)
          (by rw [hcollT]; exact hcty) (by rw [← hev]; exact hfind) hwt (hct cty l hfind) hel s hx hfl hpre
        obtain ⟨s', hex, hcv, hr, hfr⟩ := hok w rest rfl
        refine ⟨s', by simpa [compCol] using hex, hr, ?_, by simpa [compCol] using hfr⟩
        simpa [ColReady, compCol] using hcv

/-- **one column** (retrieval by bank name) -/
theorem compCol_correct (C : Ctx D) (QC : QCtx D) (hN : QC.N = C.N) (hev : QC.ev = C.ev)
    (B : Backend) (hB : BackendOK B) (nm cn : Nat → String)
    (hinj : ∀ i j, nm i = nm j → i = j) (hres : ∀ j, nm j ≠ "result")
    (hcres : ∀ k, cn k ≠ "result") (hdisj : ∀ j k, nm j ≠ cn k)
    (hcollT : ∀ name, B.collType name = QC.collType name)
    (col : Col) (idx n : Nat) (s : St D) (v : Val D)
    (hdone : DeclsDone C.N (compCol B nm cn idx col n).decls s.env)
    (hpre : ColPre col (cn idx) s.env) (hhyp : ColHyp QC col)
    (hden : denote QC [("e", evtVal)] (colQ "e" col) = .ok v) :
    ∃ s', execs C (compCol B nm cn idx col n).stmts s = .ok s' ∧ s'.rows = s.rows ∧
      ColReady C.N (compCol B nm cn idx col n) v s'.env ∧
      (∀ y, y ≠ cn idx → ¬ Touch nm n (compCol B nm cn idx col n).next y → s'.env y = s.env y) :=
  compCol_correct_tok C QC hN hev B hB.base nm cn hinj hres hcres hdisj hcollT col idx n
    (tokCol_of_notToken hB.notToken nm C col n) s v hdone hpre hhyp hden

end FaxVerif.Gen

namespace FaxVerif.Gen
open FaxVerif.Cpp FaxVerif.Linq
variable {D : Type}

/-! ## all columns -/

def AllReady (N : Num D) : List ColFrag → List (Val D) → Env D → Prop
  | [], [], _ => True
  | f :: fs, v :: vs, σ => ColReady N f v σ ∧ AllReady N fs vs σ
  | _, _, _ => False

def ColVecOk : Col → Val D → Prop
  | .seq _, v => ∃ l, v = .vec l
  | _, _ => True

def AllVecOk : List Col → List (Val D) → Prop
  | [], [] => True
  | c :: cs, v :: vs => ColVecOk c v ∧ AllVecOk cs vs
  | _, _ => False

/-- `ColReady` only looks at the fragment's own generated names and its column variable -/
theorem colReady_stable (C : Ctx D) (B : Backend) (nm cn : Nat → String) (idx : Nat) (col : Col) (n : Nat)
    (v : Val D) (σ σ' : Env D)
    (hag : ∀ y, (InRange nm n (compCol B nm cn idx col n).next y ∨ y = cn idx) → σ' y = σ y)
    (h : ColReady C.N (compCol B nm cn idx col n) v σ) : ColReady C.N (compCol B nm cn idx col n) v σ' := by
  cases col with
  | scalar e =>
    simp only [ColReady, compCol] at h ⊢
    refine ⟨?_, by rw [hag _ (Or.inr rfl)]; exact h.2⟩
    rw [← h.1]
    apply evalE_congr
    intro x hx
    exact hag x (Or.inl (by simpa [compCol] using compEE_val_vars B nm e n x hx))
  | seq c => simp only [ColReady, compCol] at h ⊢; rw [hag _ (Or.inr rfl)]; exact h
  | first c => simp only [ColReady, compCol] at h ⊢; rw [hag _ (Or.inr rfl)]; exact h

theorem allReady_stable (C : Ctx D) (B : Backend) (nm cn : Nat → String) : ∀ (cols : List Col) (idx n : Nat)
    (vs : List (Val D)) (σ σ' : Env D),
    (∀ y, (InRange nm n (colsNext B nm cn cols idx n) y ∨ ∃ k, idx ≤ k ∧ y = cn k) → σ' y = σ y) →
    AllReady C.N (compCols B nm cn cols idx n) vs σ → AllReady C.N (compCols B nm cn cols idx n) vs σ'
  | [], _, _, vs, _, _, _, h => by cases vs <;> simpa [compCols, AllReady] using h
  | c :: cs, idx, n, vs, σ, σ', hag, h => by
    cases vs with
    | nil => simp [compCols, AllReady] at h
    | cons v vs =>
      simp only [compCols, AllReady] at h ⊢
      have h1 := compCol_next_ge B nm cn idx c n
      have h2 := colsNext_ge B nm cn cs (idx + 1) (compCol B nm cn idx c n).next
      refine ⟨colReady_stable C B nm cn idx c n v σ σ' (fun y hy => hag y ?_) h.1,
        allReady_stable C B nm cn cs (idx + 1) _ vs σ σ' (fun y hy => hag y ?_) h.2⟩
      · rcases hy with hy | hy
        · exact Or.inl (by simp only [colsNext]; exact hy.mono (Nat.le_refl _) h2)
        · exact Or.inr ⟨idx, Nat.le_refl _, hy⟩
      · rcases hy with hy | ⟨k, hk, hy⟩
        · exact Or.inl (by simp only [colsNext]; exact hy.mono h1 (Nat.le_refl _))
        · exact Or.inr ⟨k, by omega, hy⟩

def ColsPre (cn : Nat → String) : List Col → Nat → Env D → Prop
  | [], _, _ => True
  | c :: cs, idx, σ => ColPre c (cn idx) σ ∧ ColsPre cn cs (idx + 1) σ

theorem colsPre_stable (cn : Nat → String) : ∀ (cols : List Col) (idx : Nat) (σ σ' : Env D),
    (∀ k, idx ≤ k → σ' (cn k) = σ (cn k)) → ColsPre cn cols idx σ → ColsPre cn cols idx σ'
  | [], _, _, _, _, _ => trivial
  | c :: cs, idx, σ, σ', hag, h => by
    simp only [ColsPre] at h ⊢
    refine ⟨?_, colsPre_stable cn cs (idx + 1) σ σ' (fun k hk => hag k (by omega)) h.2⟩
    cases c <;> simp only [ColPre] at h ⊢ <;> rw [hag idx (Nat.le_refl _)] <;> exact h.1

/-- running the loops of all columns, in order -/
theorem compCols_correct_tok (C : Ctx D) (QC : QCtx D) (hN : QC.N = C.N) (hev : QC.ev = C.ev)
    (B : Backend) (hB : BackendBase B) (nm cn : Nat → String)
    (hinj : ∀ i j, nm i = nm j → i = j) (hcinj : ∀ i j, cn i = cn j → i = j) (hres : ∀ j, nm j ≠ "result")
    (hcres : ∀ k, cn k ≠ "result") (hdisj : ∀ j k, nm j ≠ cn k)
    (hcollT : ∀ name, B.collType name = QC.collType name) :
    ∀ (cols : List Col) (idx n : Nat) (s : St D) (vs : List (Val D)), TokCols B nm cn C cols idx n →
      DeclsDone C.N ((compCols B nm cn cols idx n).flatMap (·.decls)) s.env →
      ColsPre cn cols idx s.env → (∀ col ∈ cols, ColHyp QC col) →
      denotes QC [("e", evtVal)] (cols.map (colQ "e")) = .ok vs →
      ∃ s', execs C ((compCols B nm cn cols idx n).flatMap (·.stmts)) s = .ok s' ∧ s'.rows = s.rows ∧
        AllReady C.N (compCols B nm cn cols idx n) vs s'.env ∧ AllVecOk cols vs ∧
        (∀ y, (∀ k, idx ≤ k → y ≠ cn k) → ¬ Touch nm n (colsNext B nm cn cols idx n) y → s'.env y = s.env y)
  | [], idx, n, s, vs, _, _, _, _, hden => by
    simp only [List.map_nil, denotes, Except.ok.injEq] at hden; subst hden
    exact ⟨s, by simp [compCols, execs], rfl, by simp [compCols, AllReady], by simp [AllVecOk], fun _ _ _ => rfl⟩
  | c :: cs, idx, n, s, vs, htk, hdone, hpre, hhyp, hden => by
    simp only [List.map_cons, denotes] at hden
    cases hd1 : denote QC [("e", evtVal)] (colQ "e" c) with
    | error e => rw [hd1] at hden; simp at hden
    | ok v =>
      rw [hd1] at hden; simp only [] at hden
      cases hd2 : denotes QC [("e", evtVal)] (cs.map (colQ "e")) with
      | error e => rw [hd2] at hden; simp at hden
      | ok vs' =>
        rw [hd2] at hden; simp only [Except.ok.injEq] at hden; subst hden
        simp only [compCols, List.flatMap_cons] at hdone ⊢
        simp only [ColsPre] at hpre
        have h1 := compCol_next_ge B nm cn idx c n
        have h2 := colsNext_ge B nm cn cs (idx + 1) (compCol B nm cn idx c n).next
        obtain ⟨s1, hex1, hr1, hready1, hfr1⟩ := compCol_correct_tok C QC hN hev B hB nm cn hinj hres hcres hdisj hcollT c idx n htk.1 s v
          (fun d hd => hdone d (by simp [hd])) hpre.1 (hhyp c (by simp)) hd1
        -- the rest sees its declarations and class variables untouched
        have hrest_names : ∀ y, InRange nm (compCol B nm cn idx c n).next (colsNext B nm cn cs (idx + 1) (compCol B nm cn idx c n).next) y →
            s1.env y = s.env y := by
          intro y hy
          apply hfr1 y
          · obtain ⟨j, _, _, hj⟩ := hy; rw [hj]; exact hdisj j idx
          · rintro (h | h)
            · exact inRange_disjoint hinj hy h
            · obtain ⟨j, _, _, hj⟩ := hy; exact hres j (hj ▸ h)
        have hcn_rest : ∀ k, idx + 1 ≤ k → s1.env (cn k) = s.env (cn k) := by
          intro k hk
          apply hfr1
          · intro e; have := hcinj _ _ e; omega
          · rintro (⟨j, _, _, hj⟩ | h)
            · exact hdisj j k hj.symm
            · exact hcres k h
        have hdone2 : DeclsDone C.N ((compCols B nm cn cs (idx + 1) (compCol B nm cn idx c n).next).flatMap (·.decls)) s1.env :=
          DeclsDone.transport (fun d hd => hdone d (by simp [hd])) (compCols_declsIn B nm cn cs (idx + 1) _) hrest_names
        obtain ⟨s', hex2, hr2, hready2, hvec2, hfr2⟩ := compCols_correct_tok C QC hN hev B hB nm cn hinj hcinj hres hcres hdisj hcollT
          cs (idx + 1) _ s1 vs' htk.2 hdone2 (colsPre_stable cn cs (idx + 1) s.env s1.env hcn_rest hpre.2)
          (fun col hc => hhyp col (by simp [hc])) hd2
        refine ⟨s', by rw [execs_append, hex1]; exact hex2, by rw [hr2, hr1], ⟨?_, hready2⟩, ⟨?_, hvec2⟩, ?_⟩
        · -- the first column's readiness survives the later columns
          apply colReady_stable C B nm cn idx c n v s1.env s'.env _ hready1
          intro y hy
          apply hfr2 y
          · intro k hk
            rcases hy with ⟨j, _, _, hj⟩ | hy
            · rw [hj]; exact hdisj j k
            · rw [hy]; intro e; have := hcinj _ _ e; omega
          · rintro (h | h)
            · rcases hy with hy | hy
              · exact inRange_disjoint hinj h hy
              · obtain ⟨j, _, _, hj⟩ := h; exact hdisj j idx (hj.symm.trans hy)
            · rcases hy with ⟨j, _, _, hj⟩ | hy
              · exact hres j (hj ▸ h)
              · exact hcres idx (hy ▸ h)
        · cases c with
          | seq ch =>
            obtain ⟨_, _, hbv⟩ := hhyp (.seq ch) (by simp)
            exact chainQ_vec QC _ "e" ch v hbv (by simpa [colQ] using hd1)
          | _ => trivial
        · intro y hy1 hy2
          simp only [colsNext] at hy2
          rw [hfr2 y (fun k hk => hy1 k (by omega)) (not_touch_sub hy2 h1 (Nat.le_refl _)),
              hfr1 y (hy1 idx (Nat.le_refl _)) (not_touch_sub hy2 (Nat.le_refl _) h2)]

/-- running the loops of all columns, in order (retrieval by bank name) -/
theorem compCols_correct (C : Ctx D) (QC : QCtx D) (hN : QC.N = C.N) (hev : QC.ev = C.ev)
    (B : Backend) (hB : BackendOK B) (nm cn : Nat → String)
    (hinj : ∀ i j, nm i = nm j → i = j) (hcinj : ∀ i j, cn i = cn j → i = j) (hres : ∀ j, nm j ≠ "result")
    (hcres : ∀ k, cn k ≠ "result") (hdisj : ∀ j k, nm j ≠ cn k)
    (hcollT : ∀ name, B.collType name = QC.collType name)
    (cols : List Col) (idx n : Nat) (s : St D) (vs : List (Val D))
    (hdone : DeclsDone C.N ((compCols B nm cn cols idx n).flatMap (·.decls)) s.env)
    (hpre : ColsPre cn cols idx s.env) (hhyp : ∀ col ∈ cols, ColHyp QC col)
    (hden : denotes QC [("e", evtVal)] (cols.map (colQ "e")) = .ok vs) :
    ∃ s', execs C ((compCols B nm cn cols idx n).flatMap (·.stmts)) s = .ok s' ∧ s'.rows = s.rows ∧
      AllReady C.N (compCols B nm cn cols idx n) vs s'.env ∧ AllVecOk cols vs ∧
      (∀ y, (∀ k, idx ≤ k → y ≠ cn k) → ¬ Touch nm n (colsNext B nm cn cols idx n) y → s'.env y = s.env y) :=
  compCols_correct_tok C QC hN hev B hB.base nm cn hinj hcinj hres hcres hdisj hcollT cols idx n s vs
    (tokCols_of_notToken hB.notToken nm cn C cols idx n) hdone hpre hhyp hden

/-! ## assignments, fill, clears -/

def VarsHold (cn : Nat → String) : Nat → List (Val D) → Env D → Prop
  | _, [], _ => True
  | idx, v :: vs, σ => σ (cn idx) = some (.val v) ∧ VarsHold cn (idx + 1) vs σ

theorem readCols_of_varsHold (cn : Nat → String) : ∀ (vs : List (Val D)) (idx : Nat) (σ : Env D),
    VarsHold cn idx vs σ → readCols σ (colNames cn vs.length idx) = .ok vs
  | [], _, _, _ => rfl
  | v :: vs, idx, σ, h => by
    simp only [List.length_cons, colNames, readCols, h.1, readCols_of_varsHold cn vs (idx + 1) σ h.2]

theorem varsHold_stable (cn : Nat → String) : ∀ (vs : List (Val D)) (idx : Nat) (σ σ' : Env D),
    (∀ k, idx ≤ k → σ' (cn k) = σ (cn k)) → VarsHold cn idx vs σ → VarsHold cn idx vs σ'
  | [], _, _, _, _, _ => trivial
  | v :: vs, idx, σ, σ', hag, h => ⟨by rw [hag idx (Nat.le_refl _)]; exact h.1,
      varsHold_stable cn vs (idx + 1) σ σ' (fun k hk => hag k (by omega)) h.2⟩

theorem allReady_length (N : Num D) : ∀ (fs : List ColFrag) (vs : List (Val D)) (σ : Env D), AllReady N fs vs σ → vs.length = fs.length
  | [], [], _, _ => rfl
  | [], _ :: _, _, h => by simp [AllReady] at h
  | _ :: _, [], _, h => by simp [AllReady] at h
  | f :: fs, v :: vs, σ, h => by simp [allReady_length N fs vs σ h.2]

/-- the scalar assignments after all loops -/
theorem sets_correct (C : Ctx D) (B : Backend) (nm cn : Nat → String)
    (hcinj : ∀ i j, cn i = cn j → i = j) (hdisj : ∀ j k, nm j ≠ cn k) :
    ∀ (cols : List Col) (idx n : Nat) (s : St D) (vs : List (Val D)),
      AllReady C.N (compCols B nm cn cols idx n) vs s.env →
      ∃ s', execs C ((compCols B nm cn cols idx n).flatMap (·.sets)) s = .ok s' ∧ s'.rows = s.rows ∧
        VarsHold cn idx vs s'.env ∧ (∀ y, (∀ k, idx ≤ k → y ≠ cn k) → s'.env y = s.env y)
  | [], idx, n, s, vs, h => by
    cases vs with
    | nil => exact ⟨s, by simp [compCols, execs], rfl, trivial, fun _ _ => rfl⟩
    | cons v vs => simp [compCols, AllReady] at h
  | c :: cs, idx, n, s, vs, h => by
    cases vs with
    | nil => simp [compCols, AllReady] at h
    | cons v vs =>
      simp only [compCols, AllReady] at h
      simp only [compCols, List.flatMap_cons]
      cases c with
      | scalar e =>
        have hr := h.1
        simp only [ColReady, compCol] at hr
        let s1 : St D := { s with env := s.env.set (cn idx) v }
        have hrest : AllReady C.N (compCols B nm cn cs (idx + 1) (compCol B nm cn idx (.scalar e) n).next) vs s1.env := by
          apply allReady_stable C B nm cn cs (idx + 1) _ vs s.env s1.env _ h.2
          intro y hy
          have hne : y ≠ cn idx := by
            rcases hy with ⟨j, _, _, hj⟩ | ⟨k, hk, hy⟩
            · rw [hj]; exact hdisj j idx
            · rw [hy]; intro e'; have := hcinj _ _ e'; omega
          simp [s1, Env.set, hne]
        obtain ⟨s', hex, hrows, hvars, hfr⟩ := sets_correct C B nm cn hcinj hdisj cs (idx + 1) _ s1 vs hrest
        refine ⟨s', ?_, by rw [hrows], ⟨?_, hvars⟩, ?_⟩
        · simp only [compCol, List.cons_append, List.nil_append, execs]
          rw [exec_set_ok C s (cn idx) _ v hr.2 hr.1]
          exact hex
        · rw [hfr (cn idx) (fun k hk e' => by have := hcinj _ _ e'; omega)]; simp [s1, Env.set]
        · intro y hy
          rw [hfr y (fun k hk => hy k (by omega))]
          simp [s1, Env.set, hy idx (Nat.le_refl _)]
      | seq ch =>
        obtain ⟨s', hex, hrows, hvars, hfr⟩ := sets_correct C B nm cn hcinj hdisj cs (idx + 1) _ s vs h.2
        have hr := h.1
        simp only [ColReady, compCol] at hr
        refine ⟨s', by simpa [compCol] using hex, hrows, ⟨?_, hvars⟩, fun y hy => hfr y (fun k hk => hy k (by omega))⟩
        rw [hfr (cn idx) (fun k hk e' => by have := hcinj _ _ e'; omega)]; exact hr
      | first ch =>
        obtain ⟨s', hex, hrows, hvars, hfr⟩ := sets_correct C B nm cn hcinj hdisj cs (idx + 1) _ s vs h.2
        have hr := h.1
        simp only [ColReady, compCol] at hr
        refine ⟨s', by simpa [compCol] using hex, hrows, ⟨?_, hvars⟩, fun y hy => hfr y (fun k hk => hy k (by omega))⟩
        rw [hfr (cn idx) (fun k hk e' => by have := hcinj _ _ e'; omega)]; exact hr

theorem colsPre_congr (cn : Nat → String) : ∀ (cols : List Col) (idx : Nat) (σ σ' : Env D),
    (∀ k, idx ≤ k → k < idx + cols.length → σ' (cn k) = σ (cn k)) → ColsPre cn cols idx σ → ColsPre cn cols idx σ'
  | [], _, _, _, _, _ => trivial
  | c :: cs, idx, σ, σ', hag, h => by
    simp only [ColsPre] at h ⊢
    refine ⟨?_, colsPre_congr cn cs (idx + 1) σ σ' (fun k hk1 hk2 => hag k (by omega) (by simp only [List.length_cons]; omega)) h.2⟩
    cases c <;> simp only [ColPre] at h ⊢ <;> rw [hag idx (Nat.le_refl _) (by simp only [List.length_cons]; omega)] <;> exact h.1

/-- the clears after the fill, and what they leave: every vector column empty again, every other
column variable still declared — the precondition `ColsPre` of the NEXT event -/
theorem clears_correct_post (C : Ctx D) (B : Backend) (nm cn : Nat → String) (hcinj : ∀ i j, cn i = cn j → i = j) :
    ∀ (cols : List Col) (idx n : Nat) (s : St D) (vs : List (Val D)),
      VarsHold cn idx vs s.env → AllVecOk cols vs →
      ∃ s', execs C ((compCols B nm cn cols idx n).flatMap (·.clears)) s = .ok s' ∧ s'.rows = s.rows ∧
        ColsPre cn cols idx s'.env ∧ (∀ y, (∀ k, idx ≤ k → y ≠ cn k) → s'.env y = s.env y)
  | [], _, _, s, _, _, _ => ⟨s, by simp [compCols, execs], rfl, trivial, fun _ _ => rfl⟩
  | c :: cs, idx, n, s, vs, hv, hok => by
    cases vs with
    | nil => simp [AllVecOk] at hok
    | cons v vs =>
      simp only [AllVecOk] at hok
      simp only [VarsHold] at hv
      simp only [compCols, List.flatMap_cons]
      have hself : ∀ k, idx + 1 ≤ k → cn idx ≠ cn k := fun k hk e => by have := hcinj _ _ e; omega
      cases c with
      | seq ch =>
        obtain ⟨l, rfl⟩ := hok.1
        let s1 : St D := { s with env := s.env.set (cn idx) (.vec []) }
        have hv1 : VarsHold cn (idx + 1) vs s1.env :=
          varsHold_stable cn vs (idx + 1) s.env s1.env (fun k hk => by
            have : cn k ≠ cn idx := fun e => by have := hcinj _ _ e; omega
            simp [s1, Env.set, this]) hv.2
        obtain ⟨s', hex, hr, hpre, hfr⟩ := clears_correct_post C B nm cn hcinj cs (idx + 1) _ s1 vs hv1 hok.2
        refine ⟨s', ?_, by rw [hr], ⟨?_, hpre⟩, ?_⟩
        · simp only [compCol, List.cons_append, List.nil_append, execs, exec, hv.1]
          exact hex
        · simp only [ColPre]
          rw [hfr (cn idx) hself]; simp [s1, Env.set]
        · intro y hy
          rw [hfr y (fun k hk => hy k (by omega))]
          simp [s1, Env.set, hy idx (Nat.le_refl _)]
      | scalar e =>
        obtain ⟨s', hex, hr, hpre, hfr⟩ := clears_correct_post C B nm cn hcinj cs (idx + 1) _ s vs hv.2 hok.2
        refine ⟨s', by simpa [compCol] using hex, hr, ⟨?_, hpre⟩, fun y hy => hfr y (fun k hk => hy k (by omega))⟩
        simp only [ColPre]
        rw [hfr (cn idx) hself, hv.1]; rfl
      | first ch =>
        obtain ⟨s', hex, hr, hpre, hfr⟩ := clears_correct_post C B nm cn hcinj cs (idx + 1) _ s vs hv.2 hok.2
        refine ⟨s', by simpa [compCol] using hex, hr, ⟨?_, hpre⟩, fun y hy => hfr y (fun k hk => hy k (by omega))⟩
        simp only [ColPre]
        rw [hfr (cn idx) hself, hv.1]; rfl

/-- the clears after the fill -/
theorem clears_correct (C : Ctx D) (B : Backend) (nm cn : Nat → String) (hcinj : ∀ i j, cn i = cn j → i = j) :
    ∀ (cols : List Col) (idx n : Nat) (s : St D) (vs : List (Val D)),
      VarsHold cn idx vs s.env → AllVecOk cols vs →
      ∃ s', execs C ((compCols B nm cn cols idx n).flatMap (·.clears)) s = .ok s' ∧ s'.rows = s.rows
  | [], _, _, s, _, _, _ => ⟨s, by simp [compCols, execs], rfl⟩
  | c :: cs, idx, n, s, vs, hv, hok => by
    cases vs with
    | nil => simp [AllVecOk] at hok
    | cons v vs =>
      simp only [AllVecOk] at hok
      simp only [VarsHold] at hv
      simp only [compCols, List.flatMap_cons]
      cases c with
      | seq ch =>
        obtain ⟨l, rfl⟩ := hok.1
        let s1 : St D := { s with env := s.env.set (cn idx) (.vec []) }
        have hv1 : VarsHold cn (idx + 1) vs s1.env :=
          varsHold_stable cn vs (idx + 1) s.env s1.env (fun k hk => by
            have : cn k ≠ cn idx := fun e => by have := hcinj _ _ e; omega
            simp [s1, Env.set, this]) hv.2
        obtain ⟨s', hex, hr⟩ := clears_correct C B nm cn hcinj cs (idx + 1) _ s1 vs hv1 hok.2
        refine ⟨s', ?_, by rw [hr]⟩
        simp only [compCol, List.cons_append, List.nil_append, execs, exec, hv.1]
        exact hex
      | scalar e =>
        obtain ⟨s', hex, hr⟩ := clears_correct C B nm cn hcinj cs (idx + 1) _ s vs hv.2 hok.2
        exact ⟨s', by simpa [compCol] using hex, hr⟩
      | first ch =>
        obtain ⟨s', hex, hr⟩ := clears_correct C B nm cn hcinj cs (idx + 1) _ s vs hv.2 hok.2
        exact ⟨s', by simpa [compCol] using hex, hr⟩

end FaxVerif.Gen

namespace FaxVerif.Gen
open FaxVerif.Cpp FaxVerif.Linq
variable {D : Type}

theorem denotes_length (C : QCtx D) (ρ : LEnv D) : ∀ (qs : List Query) (vs : List (Val D)),
    denotes C ρ qs = .ok vs → vs.length = qs.length
  | [], vs, h => by simp only [denotes, Except.ok.injEq] at h; subst h; rfl
  | q :: qs, vs, h => by
    simp only [denotes] at h
    cases h1 : denote C ρ q with
    | error e => rw [h1] at h; simp at h
    | ok v =>
      rw [h1] at h; simp only [] at h
      cases h2 : denotes C ρ qs with
      | error e => rw [h2] at h; simp at h
      | ok vs' =>
        rw [h2] at h; simp only [Except.ok.injEq] at h; subst h
        simp [denotes_length C ρ qs vs' h2]

theorem compCols_vars' (B : Backend) (nm cn : Nat → String) : ∀ (cols : List Col) (idx n : Nat),
    (compCols B nm cn cols idx n).map (·.classVar.2) = colNames cn cols.length idx
  | [], _, _ => rfl
  | c :: cs, idx, n => by
    have : (compCol B nm cn idx c n).classVar.2 = cn idx := by cases c <;> simp [compCol]
    simp only [compCols, List.map_cons, List.length_cons, colNames, this]
    rw [compCols_vars' B nm cn cs (idx + 1) _]

theorem compCols_length' (B : Backend) (nm cn : Nat → String) : ∀ (cols : List Col) (idx n : Nat),
    (compCols B nm cn cols idx n).length = cols.length
  | [], _, _ => rfl
  | c :: cs, idx, n => by simp [compCols, compCols_length' B nm cn cs]

/-- what the query `eventRows` denotes: one row, the values of the columns -/
theorem eventRows_denote (QC : QCtx D) (cols : List (String × Col)) (rows : List (List (Val D)))
    (h : denoteRows QC (FQ.toQuery (.eventRows cols)) = .ok rows) :
    ∃ vs, denotes QC [("e", evtVal)] ((cols.map (·.2)).map (colQ "e")) = .ok vs ∧ rows = [vs] := by
  simp only [denoteRows, FQ.toQuery] at h
  rw [denote_select] at h
  simp only [denote, mapE] at h
  have hmap : cols.map (fun p => colQ "e" p.2) = (cols.map (·.2)).map (colQ "e") := by simp [List.map_map]
  rw [hmap] at h
  cases hd : denotes QC [("e", Val.obj "__event__" [])] ((cols.map (·.2)).map (colQ "e")) with
  | error e => rw [hd] at h; simp at h
  | ok vs =>
    rw [hd] at h
    simp only [Except.ok.injEq] at h
    refine ⟨vs, by simpa [evtVal] using hd, ?_⟩
    have hl := denotes_length QC _ _ vs hd
    rw [← h]
    simp only [List.map_cons, List.map_nil, rowOf, tupleVal]
    rw [List.map_snd_zip (by simp at hl ⊢; omega)]

theorem exec_block5 (C : Ctx D) (Ds Ss Ts Cl : List Stmt) (t : String) (s0 sD sS sT sF : St D) (vs : List (Val D))
    (h1 : execs C Ds s0 = .ok sD) (h2 : execs C Ss sD = .ok sS) (h3 : execs C Ts sS = .ok sT)
    (h4 : readCols sT.env C.cols = .ok vs) (h5 : execs C Cl ⟨sT.env, sT.rows ++ [vs]⟩ = .ok sF) :
    exec C (.block (Ds ++ Ss ++ Ts ++ [.fill t] ++ Cl)) s0 = .ok sF := by
  simp only [exec]
  rw [execs_append, execs_append, execs_append, execs_append, h1]
  simp only []
  rw [h2]
  simp only []
  rw [h3]
  simp only [execs, exec, h4]
  rw [h5]

/-- **C01 (event-level rows)** — for every list of columns (scalars built from Count / Sum /
arithmetic, vector columns from chains, First of a chain), every event and every class state in
which the column variables are declared and the vector columns empty: if the query denotes `rows`
(necessarily one row) on the event, the package the translator model emits writes exactly `rows`,
and the class state it leaves behind satisfies the same precondition again (the emitted `clear`s
have emptied the vector columns; the scalar columns stay declared). All three backends: on the
token idiom the table `compile` emits binds every chain's token (`tokCols_eventRows`). -/
theorem eventRows_correct_post (B : Backend) (hB : BackendBase B) (nm cn : Nat → String)
    (hinj : ∀ i j, nm i = nm j → i = j) (hcinj : ∀ i j, cn i = cn j → i = j)
    (hres : ∀ j, nm j ≠ "result") (hcres : ∀ k, cn k ≠ "result") (hdisj : ∀ j k, nm j ≠ cn k)
    (QC : QCtx D) (hcollT : ∀ name, B.collType name = QC.collType name)
    (cols : List (String × Col)) (hhyp : ∀ p ∈ cols, ColHyp QC p.2)
    (σc : Env D) (hσ : ColsPre cn (cols.map (·.2)) 0 σc)
    (rows : List (List (Val D)))
    (hden : denoteRows QC (FQ.toQuery (.eventRows cols)) = .ok rows) :
    ∃ σ', runEvent (compile B nm cn (.eventRows cols)) QC.N σc QC.ev = .ok (rows, σ') ∧
      ColsPre cn (cols.map (·.2)) 0 σ' := by
  obtain ⟨vs, hvs, rfl⟩ := eventRows_denote QC cols rows hden
  let cs := cols.map (·.2)
  let fs := compCols B nm cn cs 0 0
  let P := compile B nm cn (.eventRows cols)
  let C := P.ctx QC.N QC.ev
  have hCcols : C.cols = colNames cn cs.length 0 := by
    simp only [C, Package.ctx, P, compile]
    rw [zip_map_snd _ _ (by simp [compCols_length']), compCols_vars']
  have hvlen : vs.length = cs.length := by
    have := denotes_length QC _ _ vs hvs; simpa [cs] using this
  -- 1. declarations
  obtain ⟨hsimple, hnodup⟩ := compCols_declsOK_base C B hB nm cn hinj cs 0 0
  obtain ⟨sD, hexD, hrD, hdone, hfrD⟩ := exec_decls C (fs.flatMap (·.decls)) ⟨σc, []⟩ hsimple hnodup
  have hcnD : ∀ k, sD.env (cn k) = σc (cn k) := by
    intro k
    apply hfrD
    intro hm
    obtain ⟨j, _, _, hj⟩ := declsIn_names (compCols_declsIn B nm cn cs 0 0) _ hm
    exact hdisj j k hj.symm
  -- 2. the loops of all columns
  obtain ⟨sS, hexS, hrS, hready, hvec, _⟩ := compCols_correct_tok C QC rfl rfl B hB nm cn hinj hcinj hres hcres hdisj hcollT
    cs 0 0 sD vs (tokCols_eventRows B nm cn hinj cols QC.N QC.ev) hdone (colsPre_stable cn cs 0 σc sD.env (fun k _ => hcnD k) hσ)
    (fun col hc => by
      obtain ⟨p, hp, rfl⟩ := List.mem_map.1 hc
      exact hhyp p hp) hvs
  -- 3. assignments
  obtain ⟨sT, hexT, hrT, hvars, _⟩ := sets_correct C B nm cn hcinj hdisj cs 0 0 sS vs hready
  -- 4. fill
  have hread : readCols sT.env C.cols = .ok vs := by
    rw [hCcols, ← hvlen]; exact readCols_of_varsHold cn vs 0 sT.env hvars
  -- 5. clears
  obtain ⟨sF, hexF, hrF, hpreF, _⟩ := clears_correct_post C B nm cn hcinj cs 0 0 ⟨sT.env, sT.rows ++ [vs]⟩ vs hvars hvec
  refine ⟨keepClass P.classVars sF.env, ?_, ?_⟩
  rotate_left
  · -- the class state left behind
    apply colsPre_congr cn cs 0 sF.env _ _ hpreF
    intro k _ hk
    have hmem : cn k ∈ P.classVars.map (·.2) := by
      have h1 : cn k ∈ (fs.map (·.classVar)).map (·.2) := by
        rw [List.map_map]
        have := compCols_vars' B nm cn cs 0 0
        simp only [fs]
        rw [show ((fun x : String × String => x.2) ∘ fun x : ColFrag => x.classVar) = (fun x : ColFrag => x.classVar.2) from rfl, this]
        exact mem_colNames cn _ 0 k (Nat.zero_le _) (by simpa using hk)
      simp only [P, compile, List.map_append, List.mem_append]
      exact Or.inr h1
    have hany : P.classVars.any (fun p => decide (p.2 = cn k)) = true := by
      obtain ⟨p, hp, hpe⟩ := List.mem_map.1 hmem
      simp only [List.any_eq_true, decide_eq_true_eq]
      exact ⟨p, hp, hpe⟩
    simp only [keepClass, hany, if_true]
  have hblock := exec_block5 C (fs.flatMap (·.decls)) (fs.flatMap (·.stmts)) (fs.flatMap (·.sets)) (fs.flatMap (·.clears))
    (B.fillTree B.treeName) ⟨σc, []⟩ sD sS sT sF vs hexD hexS hexT hread hexF
  have hbody : P.body = .block (fs.flatMap (·.decls) ++ fs.flatMap (·.stmts) ++ fs.flatMap (·.sets) ++
      [.fill (B.fillTree B.treeName)] ++ fs.flatMap (·.clears)) := rfl
  have hrun : runEvent P QC.N σc QC.ev = .ok (sF.rows, keepClass P.classVars sF.env) := by
    simp only [runEvent]
    rw [hbody]
    have : exec (P.ctx QC.N QC.ev) (.block (fs.flatMap (·.decls) ++ fs.flatMap (·.stmts) ++ fs.flatMap (·.sets) ++
      [.fill (B.fillTree B.treeName)] ++ fs.flatMap (·.clears))) ⟨σc, []⟩ = .ok sF := hblock
    rw [this]
  rw [show compile B nm cn (.eventRows cols) = P from rfl, hrun]
  have : sF.rows = [vs] := by
    rw [hrF]; simp only
    rw [hrT, hrS, hrD]; rfl
  rw [this]

/-- `eventRows_correct_post` without the post-state (the statement `C01.eventRows_correct_partial` wraps). -/
theorem eventRows_correct (B : Backend) (hB : BackendOK B) (nm cn : Nat → String)
    (hinj : ∀ i j, nm i = nm j → i = j) (hcinj : ∀ i j, cn i = cn j → i = j)
    (hres : ∀ j, nm j ≠ "result") (hcres : ∀ k, cn k ≠ "result") (hdisj : ∀ j k, nm j ≠ cn k)
    (QC : QCtx D) (hcollT : ∀ name, B.collType name = QC.collType name)
    (cols : List (String × Col)) (hhyp : ∀ p ∈ cols, ColHyp QC p.2)
    (σc : Env D) (hσ : ColsPre cn (cols.map (·.2)) 0 σc)
    (rows : List (List (Val D)))
    (hden : denoteRows QC (FQ.toQuery (.eventRows cols)) = .ok rows) :
    ∃ σ', runEvent (compile B nm cn (.eventRows cols)) QC.N σc QC.ev = .ok (rows, σ') := by
  obtain ⟨σ', h, _⟩ := eventRows_correct_post B hB.base nm cn hinj hcinj hres hcres hdisj QC hcollT cols hhyp σc hσ rows hden
  exact ⟨σ', h⟩

end FaxVerif.Gen
