/-
Gen — correctness of element-level expressions with inner aggregates nested to ARBITRARY DEPTH (`compDE`), by
mutual structural induction over `DE` / `DChain` / `DConds` / `DOpt`:
  * `compDE_correct`      every expression: the statements (the loops, with everything nested in them) leave the
                          denotation's value in the value expression; only the fragment's own names change;
  * `compLoopD_correct`   the loop of a chain is the fold of the continuation over the values of the kept elements;
  * `compCondsD_correct`  the lowered conjunction of `Where` conditions (each with loops of its own);
  * `compSelD_correct`    the `Select` of a chain;
  * `compDE_block_correct` the same at BLOCK level — declarations executed first — from ANY state: at every level
                          the accumulators restart for every enclosing element.
Side conditions (`DEHyp`, recursive over the expression and the data): accessors and the elements of
method-returned collections are of the declared kinds, at every level; a FLOATING inner `Sum` ranges over at
least one kept element (an empty one is 0.0 in C++ and the integer 0 in Python).
-/
import FaxVerif.Gen.DeepLoopCorrect
namespace FaxVerif.Gen
open FaxVerif.Cpp FaxVerif.Linq
variable {D : Type}

/-! ## side conditions -/

mutual
  /-- what is assumed of the element `v` (bound to `x`, outer environment `ρ`, nesting level `d`) for `e` -/
  def DEHyp (QC : QCtx D) : DE → Nat → String → LEnv D → Val D → Prop
    | .pure p, _, _, _, v => MethTyped v (methsPE p)
    | .count c, d, x, ρ, v => ChainHypD QC c d x ρ v
    | .sum c, d, x, ρ, v => ChainHypD QC c d x ρ v ∧
        ((tyChainD c).isFloating = true → ∀ ws, denote QC ((x, v) :: ρ) (dchainQ d x c) = .ok (.vec ws) → ws ≠ [])
    | .bin _ a b, d, x, ρ, v => DEHyp QC a d x ρ v ∧ DEHyp QC b d x ρ v
    | .cmp _ a b, d, x, ρ, v => DEHyp QC a d x ρ v ∧ DEHyp QC b d x ρ v
    | .neg a, d, x, ρ, v => DEHyp QC a d x ρ v
    | .not a, d, x, ρ, v => DEHyp QC a d x ρ v
  /-- every element of the collection the method returns is of the declared kind and satisfies the lambdas' conditions -/
  def ChainHypD (QC : QCtx D) : DChain → Nat → String → LEnv D → Val D → Prop
    | .mk m elem whrs sel, d, x, ρ, v => ∀ l, member v m [] = .ok (.vec l) → ∀ u ∈ l,
        (∀ t, elem = some t → HasTy u t) ∧ CondsHypD QC whrs (d + 1) (deepVar d) ((x, v) :: ρ) u ∧
          SelHypD QC sel (d + 1) (deepVar d) ((x, v) :: ρ) u
  def CondsHypD (QC : QCtx D) : DConds → Nat → String → LEnv D → Val D → Prop
    | .nil, _, _, _, _ => True
    | .snoc init c, d, x, ρ, u => CondsHypD QC init d x ρ u ∧ DEHyp QC c d x ρ u
  def SelHypD (QC : QCtx D) : DOpt → Nat → String → LEnv D → Val D → Prop
    | .none, _, _, _, _ => True
    | .some f, d, x, ρ, u => DEHyp QC f d x ρ u
end

/-- the chain ends in numbers (in terms of its parts) -/
def selEndsNum (elem : Option Ty) : DOpt → Bool
  | .none => elem.isSome
  | .some _ => true

/-- the value expression of a kept element of the chain compiled at `n` -/
def loopValD (nm : Nat → String) : DChain → Nat → CExpr
  | .mk _ elem whrs sel, n => (compSelD nm elem (.var (nm n)) sel (compCondsD nm elem (.var (nm n)) whrs (n + 1)).next).val

theorem foldG_collect : ∀ (ws b0 : List (Val D)),
    foldG (fun (b : List (Val D)) (w : Val D) => (.ok (b ++ [w]) : Except Fault (List (Val D)))) ws b0 = .ok (b0 ++ ws)
  | [], b0 => by simp [foldG]
  | w :: ws, b0 => by simp [foldG, foldG_collect ws (b0 ++ [w])]

theorem predB_ok (N : Num D) (r : Except Fault (Val D)) (b : Bool) (h : predB N r = .ok b) :
    ∃ w, r = .ok w ∧ asBool N w = some b := by
  cases r with
  | error e => simp [predB] at h
  | ok w =>
    simp only [predB] at h
    cases hb : asBool N w with
    | none => rw [hb] at h; simp at h
    | some b' => rw [hb] at h; simp only [Except.ok.injEq] at h; subst h; exact ⟨w, rfl, hb⟩

theorem fresh_var (nm : Nat → String) (hinj : ∀ i j, nm i = nm j → i = j) (n : Nat) :
    ∀ y ∈ vars (.var (nm n)), ∀ j, n + 1 ≤ j → y ≠ nm j := by
  intro y hy j hj e
  simp only [vars, List.mem_singleton] at hy
  subst hy
  have := hinj _ _ e; omega

/-! ## the mutual induction -/

mutual
  /-- **element-level expressions, any depth** -/
  theorem compDE_correct (C : Ctx D) (QC : QCtx D) (hN : QC.N = C.N) (nm : Nat → String) (hinj : ∀ i j, nm i = nm j → i = j) :
      ∀ (e : DE) (ptr : Bool) (k : Option Ty) (cur : CExpr) (v : Val D) (d : Nat) (x : String) (ρ : LEnv D) (n : Nat) (w : Val D),
        (∀ y ∈ vars cur, ∀ j, n ≤ j → y ≠ nm j) → (∀ t, k = some t → HasTy v t) →
        wtDE k e = true → DEHyp QC e d x ρ v → denote QC ((x, v) :: ρ) (deQ d x e) = .ok w →
        StmtSpec C nm (compDE nm ptr k cur e n) n cur v (fun w' => w' = w ∧ HasTy w (tyDE k e))
    | .pure p, ptr, k, cur, v, d, x, ρ, n, w, _, hty, hwt, hhyp, hden => by
      intro s hcur _
      simp only [wtDE] at hwt
      simp only [deQ] at hden
      simp only [DEHyp] at hhyp
      have hpe := pe_correct QC s.env cur k (ptr && k.isNone) v x ρ (by rw [hN]; exact hcur) hty p hwt hhyp
      refine ⟨s, by simp [compDE, execs], rfl, ⟨w, ?_, rfl, ?_⟩, fun _ _ => rfl⟩
      · simp only [compDE]
        rw [← hN, show k.getD Ty.double = curT k from rfl, hpe.1]; exact hden
      · simpa [tyDE, curT] using hpe.2 w hden
    | .count c, ptr, k, cur, v, d, x, ρ, n, w, hfr, _, hwt, hhyp, hden => by
      intro s hcur hdone
      simp only [wtDE, Bool.and_eq_true] at hwt
      simp only [DEHyp] at hhyp
      simp only [deQ, denote] at hden
      cases hc : denote QC ((x, v) :: ρ) (dchainQ d x c) with
      | error e => rw [hc] at hden; simp at hden
      | ok cv =>
        rw [hc] at hden
        cases cv with
        | vec ws =>
          simp only [Except.ok.injEq] at hden; subst hden
          have hnext := compLoopD_ge C.N nm hinj c ptr cur (n + 1) (countKD (nm n))
          have hacc : s.env (nm n) = some (.val (.int 0)) := by
            have := hdone (.decl "int" (nm n) (some (.int 0))) (by simp [compDE])
            have h0 := initVal_int C.N
            simp only [initVal] at h0
            simpa [DeclOK, h0] using this
          have haccR : ¬ InRange nm (n + 1) (compLoopD nm ptr cur c (n + 1) (countKD (nm n))).2 (nm n) := by
            rintro ⟨j, h1, _, h3⟩
            have := hinj _ _ h3; omega
          obtain ⟨s', hex, hP'⟩ := compLoopD_correct C QC hN nm hinj c ptr cur v d x ρ (n + 1) (countKD (nm n)) Int
            (fun t b => t.env (nm n) = some (.val (.int b)) ∧ t.rows = s.rows ∧
              ∀ y, ¬ InRange nm n (compLoopD nm ptr cur c (n + 1) (countKD (nm n))).2 y → t.env y = s.env y)
            (fun a _ => .ok (a + 1)) hwt.2 hhyp
            (by
              intro t t' b hPt hr hfr'
              refine ⟨by rw [hfr' _ haccR]; exact hPt.1, by rw [hr]; exact hPt.2.1, fun y hy => ?_⟩
              rw [hfr' y (fun h => hy (h.mono (by omega) (Nat.le_refl _)))]; exact hPt.2.2 y hy)
            (by
              intro t b b' u hPt hg _ _
              simp only [Except.ok.injEq] at hg; subst hg
              refine ⟨{ t with env := t.env.set (nm n) (.int (b + 1)) }, ?_, ?_, hPt.2.1, ?_⟩
              · simp only [countKD, execs, exec, hPt.1]
                rw [evalE_bin_arith _ _ _ (by simp) (by simp)]
                simp [evalE, hPt.1, arith, asInt]
              · simp [Env.set]
              · intro y hy
                have : y ≠ nm n := fun e => hy ⟨n, Nat.le_refl n, by omega, e⟩
                simp only [Env.set, this, if_false]; exact hPt.2.2 y hy)
            s 0 (0 + ws.length) ws hcur hc (foldG_count ws 0) ⟨hacc, rfl, fun _ _ => rfl⟩
          refine ⟨s', by simpa [compDE] using hex, hP'.2.1, ⟨.int ws.length, ?_, rfl, by simp [tyDE, HasTy]⟩, ?_⟩
          · simp [compDE, evalE, hP'.1]
          · simpa [compDE] using hP'.2.2
        | _ => simp at hden
    | .sum c, ptr, k, cur, v, d, x, ρ, n, w, hfr, _, hwt, hhyp, hden => by
      intro s hcur hdone
      simp only [wtDE, Bool.and_eq_true] at hwt
      obtain ⟨⟨⟨_, hwc⟩, hends⟩, htn⟩ := hwt
      simp only [DEHyp] at hhyp
      obtain ⟨hch, hsne⟩ := hhyp
      simp only [deQ, denote] at hden
      cases hc : denote QC ((x, v) :: ρ) (dchainQ d x c) with
      | error e => rw [hc] at hden; simp at hden
      | ok cv =>
        rw [hc] at hden
        cases cv with
        | vec ws =>
          simp only [] at hden
          rw [foldE_eq_foldG, hN] at hden
          -- typing of the kept values: an auxiliary run of the loop with an empty continuation
          have hwsty : ∀ w' ∈ ws, HasTy w' (tyChainD c) := by
            obtain ⟨_, _, hP⟩ := compLoopD_correct C QC hN nm hinj c ptr cur v d x ρ (n + 1) (fun _ => []) (List (Val D))
              (fun _ b => ∀ w' ∈ b, HasTy w' (tyChainD c)) (fun b w' => .ok (b ++ [w'])) hwc hch
              (fun _ _ _ h _ _ => h)
              (by
                intro t b b' w' hb hg _ hR
                simp only [Except.ok.injEq] at hg; subst hg
                refine ⟨t, by simp [execs], ?_⟩
                intro w'' hw''
                rcases List.mem_append.1 hw'' with h | h
                · exact hb w'' h
                · simp only [List.mem_singleton] at h; subst h; exact hR hends)
              s [] ([] ++ ws) ws hcur hc (foldG_collect ws []) (by simp)
            simpa using hP
          have hfold := sum_fold_agree C.N (tyChainD c) htn ws w hwsty (fun hf => hsne hf ws hc) hden
          have hnext := compLoopD_ge C.N nm hinj c ptr cur (n + 1) (sumKD (nm n))
          have hacc : s.env (nm n) = some (.val (initVal C.N (Ty.join .int (tyChainD c)).cpp)) := by
            have := hdone (.decl (Ty.join .int (tyChainD c)).cpp (nm n) (some (.int 0))) (by simp [compDE])
            simpa [DeclOK, initVal] using this
          have haccR : ¬ InRange nm (n + 1) (compLoopD nm ptr cur c (n + 1) (sumKD (nm n))).2 (nm n) := by
            rintro ⟨j, h1, _, h3⟩
            have := hinj _ _ h3; omega
          obtain ⟨s', hex, hP'⟩ := compLoopD_correct C QC hN nm hinj c ptr cur v d x ρ (n + 1) (sumKD (nm n)) (Val D)
            (fun u a => u.env (nm n) = some (.val a) ∧ u.rows = s.rows ∧
              ∀ y, ¬ InRange nm n (compLoopD nm ptr cur c (n + 1) (sumKD (nm n))).2 y → u.env y = s.env y)
            (fun a u => arith C.N "+" a u) hwc hch
            (by
              intro u u' b hPu hr hfr'
              refine ⟨by rw [hfr' _ haccR]; exact hPu.1, by rw [hr]; exact hPu.2.1, fun y hy => ?_⟩
              rw [hfr' y (fun h => hy (h.mono (by omega) (Nat.le_refl _)))]; exact hPu.2.2 y hy)
            (by
              intro u a a' z hPu hg hevz _
              refine ⟨{ u with env := u.env.set (nm n) a' }, ?_, ?_, hPu.2.1, ?_⟩
              · simp only [sumKD, execs, exec, hPu.1]
                rw [evalE_bin_arith _ _ _ (by simp) (by simp)]
                simp [evalE, hPu.1, hevz, hg]
              · simp [Env.set]
              · intro y hy
                have : y ≠ nm n := fun e => hy ⟨n, Nat.le_refl n, by omega, e⟩
                simp only [Env.set, this, if_false]; exact hPu.2.2 y hy)
            s _ w ws hcur hc hfold ⟨hacc, rfl, fun _ _ => rfl⟩
          refine ⟨s', by simpa [compDE] using hex, hP'.2.1, ⟨w, ?_, rfl, ?_⟩, ?_⟩
          · simp [compDE, evalE, hP'.1]
          · simp only [tyDE]
            refine foldG_sum_typed C.N (tyChainD c) htn ws (.int 0) w hwsty (Or.inl (by simp [HasTy])) ?_ hden
            by_cases hf : (tyChainD c).isFloating = true
            · exact Or.inl (hsne hf ws hc)
            · right
              generalize tyChainD c = t at hf htn
              cases t <;> simp [Ty.isFloating, Ty.isNum, Ty.join, HasTy] at hf htn ⊢
          · simpa [compDE] using hP'.2.2
        | _ => simp at hden
    | .bin op a b, ptr, k, cur, v, d, x, ρ, n, w, hfr, hty, hwt, hhyp, hden => by
      intro s hcur hdone
      simp only [wtDE, Bool.and_eq_true] at hwt
      obtain ⟨⟨⟨hwa, hwb⟩, hna⟩, hnb⟩ := hwt
      simp only [DEHyp] at hhyp
      simp only [deQ, denote] at hden
      have hsa := compDE_shape C.N nm hinj a ptr k cur n
      have hsb := compDE_shape C.N nm hinj b ptr k cur (compDE nm ptr k cur a n).next
      have h1 := hsa.ge
      have hfrb : ∀ y ∈ vars cur, ∀ j, (compDE nm ptr k cur a n).next ≤ j → y ≠ nm j := fun y hy j hj => hfr y hy j (by omega)
      cases hda : denote QC ((x, v) :: ρ) (deQ d x a) with
      | error e => rw [hda] at hden; simp at hden
      | ok va =>
        rw [hda] at hden
        cases hdb : denote QC ((x, v) :: ρ) (deQ d x b) with
        | error e => rw [hdb] at hden; simp at hden
        | ok vb =>
          rw [hdb] at hden
          simp only [] at hden
          have hdone' : DeclsDone C.N ((compDE nm ptr k cur a n).decls ++ (compDE nm ptr k cur b (compDE nm ptr k cur a n).next).decls) s.env := by
            simpa [compDE] using hdone
          have iha := compDE_correct C QC hN nm hinj a ptr k cur v d x ρ n va hfr hty hwa hhyp.1 hda
          have ihb := compDE_correct C QC hN nm hinj b ptr k cur v d x ρ (compDE nm ptr k cur a n).next vb hfrb hty hwb hhyp.2 hdb
          have hta : HasTy va (tyDE k a) := by
            obtain ⟨_, _, _, ⟨_, _, _, h⟩, _⟩ := iha s hcur (fun d hd => hdone' d (by simp [hd])); exact h
          have htb : HasTy vb (tyDE k b) := by
            obtain ⟨_, _, _, ⟨_, _, _, h⟩, _⟩ := ihb s hcur (fun d hd => hdone' d (by simp [hd])); exact h
          obtain ⟨s2, hex, hrows, hva, hvb, hfr2⟩ := efrag_seq C nm hinj cur v _ _ n s va vb hsa hsb hfr hcur hdone'
            (iha.mono (fun _ h => h.1)) (ihb.mono (fun _ h => h.1))
          refine ⟨s2, by simpa [compDE] using hex, hrows, ⟨w, ?_, rfl, ?_⟩, by simpa [compDE] using hfr2⟩
          · by_cases hdiv : op = .div
            · subst hdiv
              have hd := div_num C.N va vb _ _ hta htb hna hnb
              rw [hN] at hden
              simp only [AOp.str] at hden
              rw [← hden, ← hd.1]
              simp only [compDE]
              by_cases hj : (tyDE k a).join (tyDE k b) = .int
              · simp only [hj, and_self, if_true]
                rw [evalE_bin_arith _ _ _ (by simp) (by simp)]
                simp only [evalE, hva, hvb]
                cases castTo C.N "double" va <;> rfl
              · simp only [hj, and_false, if_false]
                rw [evalE_bin_arith _ _ _ (by simp [AOp.str]) (by simp [AOp.str])]
                simp [hva, hvb, AOp.str]
            · have hne : ¬ (op = .div ∧ (tyDE k a).join (tyDE k b) = .int) := fun h => hdiv h.1
              have := arith_num C.N op hdiv va vb _ _ hta htb hna hnb
              rw [hN] at hden
              simp only [compDE, hne, if_false]
              rw [evalE_bin_arith _ _ _ (aop_not_logic op).1 (aop_not_logic op).2]
              simp only [hva, hvb]
              rw [this.1]; exact hden
          · by_cases hdiv : op = .div
            · subst hdiv
              rw [hN] at hden
              simpa [tyDE] using (div_num C.N va vb _ _ hta htb hna hnb).2 w (by simpa [AOp.str] using hden)
            · simp only [tyDE, hdiv, if_false]
              have := arith_num C.N op hdiv va vb _ _ hta htb hna hnb
              rw [hN] at hden
              exact this.2 w (by rw [this.1]; exact hden)
    | .cmp op a b, ptr, k, cur, v, d, x, ρ, n, w, hfr, hty, hwt, hhyp, hden => by
      intro s hcur hdone
      simp only [wtDE, Bool.and_eq_true] at hwt
      obtain ⟨⟨⟨hwa, hwb⟩, hna⟩, hnb⟩ := hwt
      simp only [DEHyp] at hhyp
      simp only [deQ, denote] at hden
      have hsa := compDE_shape C.N nm hinj a ptr k cur n
      have hsb := compDE_shape C.N nm hinj b ptr k cur (compDE nm ptr k cur a n).next
      have h1 := hsa.ge
      have hfrb : ∀ y ∈ vars cur, ∀ j, (compDE nm ptr k cur a n).next ≤ j → y ≠ nm j := fun y hy j hj => hfr y hy j (by omega)
      cases hda : denote QC ((x, v) :: ρ) (deQ d x a) with
      | error e => rw [hda] at hden; simp at hden
      | ok va =>
        rw [hda] at hden
        cases hdb : denote QC ((x, v) :: ρ) (deQ d x b) with
        | error e => rw [hdb] at hden; simp at hden
        | ok vb =>
          rw [hdb] at hden
          simp only [] at hden
          have hdone' : DeclsDone C.N ((compDE nm ptr k cur a n).decls ++ (compDE nm ptr k cur b (compDE nm ptr k cur a n).next).decls) s.env := by
            simpa [compDE] using hdone
          have iha := compDE_correct C QC hN nm hinj a ptr k cur v d x ρ n va hfr hty hwa hhyp.1 hda
          have ihb := compDE_correct C QC hN nm hinj b ptr k cur v d x ρ (compDE nm ptr k cur a n).next vb hfrb hty hwb hhyp.2 hdb
          have hta : HasTy va (tyDE k a) := by
            obtain ⟨_, _, _, ⟨_, _, _, h⟩, _⟩ := iha s hcur (fun d hd => hdone' d (by simp [hd])); exact h
          have htb : HasTy vb (tyDE k b) := by
            obtain ⟨_, _, _, ⟨_, _, _, h⟩, _⟩ := ihb s hcur (fun d hd => hdone' d (by simp [hd])); exact h
          obtain ⟨s2, hex, hrows, hva, hvb, hfr2⟩ := efrag_seq C nm hinj cur v _ _ n s va vb hsa hsb hfr hcur hdone'
            (iha.mono (fun _ h => h.1)) (ihb.mono (fun _ h => h.1))
          rw [hN] at hden
          refine ⟨s2, by simpa [compDE] using hex, hrows, ⟨w, ?_, rfl, ?_⟩, by simpa [compDE] using hfr2⟩
          · simp only [compDE]
            rw [evalE_bin_arith _ _ _ (cop_not_logic op).1 (cop_not_logic op).2]
            simp only [hva, hvb]; exact hden
          · simpa [tyDE] using cmp_num C.N op va vb _ _ hta htb hna hnb w hden
    | .neg a, ptr, k, cur, v, d, x, ρ, n, w, hfr, hty, hwt, hhyp, hden => by
      intro s hcur hdone
      simp only [wtDE, Bool.and_eq_true] at hwt
      simp only [DEHyp] at hhyp
      simp only [deQ, denote] at hden
      cases hda : denote QC ((x, v) :: ρ) (deQ d x a) with
      | error e => rw [hda] at hden; simp at hden
      | ok va =>
        rw [hda, hN] at hden
        simp only [] at hden
        obtain ⟨s1, h1, h2, ⟨w1, h3, hw1, h4⟩, h5⟩ := compDE_correct C QC hN nm hinj a ptr k cur v d x ρ n va hfr hty hwt.1 hhyp hda s hcur
          (by simpa [compDE] using hdone)
        subst hw1
        refine ⟨s1, by simpa [compDE] using h1, h2, ⟨w, by simp [compDE, evalE, h3, hden], rfl, ?_⟩, by simpa [compDE] using h5⟩
        simp only [tyDE]
        rcases hasTy_num h4 hwt.2 with ⟨i, rfl, ht⟩ | ⟨y, rfl, ht⟩
        · simp [unop] at hden; subst hden; simp [ht, HasTy]
        · simp [unop] at hden; subst hden; rcases ht with h | h <;> simp [h, HasTy]
    | .not a, ptr, k, cur, v, d, x, ρ, n, w, hfr, hty, hwt, hhyp, hden => by
      intro s hcur hdone
      simp only [wtDE, Bool.and_eq_true, beq_iff_eq] at hwt
      simp only [DEHyp] at hhyp
      simp only [deQ, denote] at hden
      cases hda : denote QC ((x, v) :: ρ) (deQ d x a) with
      | error e => rw [hda] at hden; simp at hden
      | ok va =>
        rw [hda, hN] at hden
        simp only [] at hden
        obtain ⟨s1, h1, h2, ⟨w1, h3, hw1, h4⟩, h5⟩ := compDE_correct C QC hN nm hinj a ptr k cur v d x ρ n va hfr hty hwt.1 hhyp hda s hcur
          (by simpa [compDE] using hdone)
        subst hw1
        refine ⟨s1, by simpa [compDE] using h1, h2, ⟨w, by simp [compDE, evalE, h3, hden], rfl, ?_⟩, by simpa [compDE] using h5⟩
        simp only [tyDE]
        rw [hwt.2] at h4
        obtain ⟨b, rfl⟩ := hasTy_bool h4
        simp [unop, asBool] at hden; subst hden; simp [HasTy]
  /-- **the loop of a chain is the fold over the values of the kept elements** -/
  theorem compLoopD_correct (C : Ctx D) (QC : QCtx D) (hN : QC.N = C.N) (nm : Nat → String) (hinj : ∀ i j, nm i = nm j → i = j) :
      ∀ (c : DChain) (ptr : Bool) (cur : CExpr) (v : Val D) (d : Nat) (x : String) (ρ : LEnv D) (n : Nat) (K : CExpr → List Stmt)
        (β : Type) (P : St D → β → Prop) (g : β → Val D → Except Fault β),
        wtChainD c = true → ChainHypD QC c d x ρ v →
        (∀ (s s' : St D) b, P s b → s'.rows = s.rows →
          (∀ y, ¬ InRange nm n (compLoopD nm ptr cur c n K).2 y → s'.env y = s.env y) → P s' b) →
        (∀ (s : St D) b b' w, P s b → g b w = .ok b' → evalE C.N s.env (loopValD nm c n) = .ok w →
          (c.endsNum = true → HasTy w (tyChainD c)) → ∃ s', execs C (K (loopValD nm c n)) s = .ok s' ∧ P s' b') →
        ∀ (s : St D) (b b' : β) (ws : List (Val D)), evalE C.N s.env cur = .ok v →
          denote QC ((x, v) :: ρ) (dchainQ d x c) = .ok (.vec ws) → foldG g ws b = .ok b' → P s b →
          ∃ s', execs C (compLoopD nm ptr cur c n K).1 s = .ok s' ∧ P s' b'
    | .mk m elem whrs sel, ptr, cur, v, d, x, ρ, n, K, β, P, g, hwt, hhyp, hstable, hK, s, b, b', ws, hcur, hden, hfold, hP => by
      simp only [wtChainD, Bool.and_eq_true] at hwt
      obtain ⟨⟨helem, hwc⟩, hws⟩ := hwt
      simp only [ChainHypD] at hhyp
      obtain ⟨l, r, hmem, hkeep, hmap⟩ := dchainQ_ok QC d x v ρ m elem whrs sel ws hden
      have hshc := compCondsD_shape C.N nm hinj whrs elem (.var (nm n)) (n + 1)
      have hshs := compSelD_shape C.N nm hinj sel elem (.var (nm n)) (compCondsD nm elem (.var (nm n)) whrs (n + 1)).next
      have hfresh := fresh_var nm hinj n
      have hres := loopD_correct C nm hinj ptr cur m n K (compCondsD nm elem (.var (nm n)) whrs (n + 1))
        (compSelD nm elem (.var (nm n)) sel (compCondsD nm elem (.var (nm n)) whrs (n + 1)).next) whrs.isNil v l hmem
        (condsSemD QC (d + 1) (deepVar d) ((x, v) :: ρ) whrs) (selSemD QC (d + 1) (deepVar d) ((x, v) :: ρ) sel)
        (fun w => (DChain.mk m elem whrs sel).endsNum = true → HasTy w (tyChainD (.mk m elem whrs sel)))
        hshc.ge hshs.ge
        (by intro hnil u; cases whrs <;> simp [DConds.isNil] at hnil; simp [condsSemD])
        (by
          intro _ u hu bv hbv
          obtain ⟨hut, hch, _⟩ := hhyp l hmem u hu
          exact BlockSpec.of_stmt hshc hfresh
            (compCondsD_correct C QC hN nm hinj whrs elem (.var (nm n)) u (d + 1) (deepVar d) ((x, v) :: ρ) (n + 1) bv hfresh hut hwc hch hbv))
        (by
          intro u hu w hw
          obtain ⟨hut, _, hsh⟩ := hhyp l hmem u hu
          refine BlockSpec.of_stmt hshs (fun y hy j hj => hfresh y hy j (by have := hshc.ge; omega))
            ((compSelD_correct C QC hN nm hinj sel elem (.var (nm n)) u (d + 1) (deepVar d) ((x, v) :: ρ) _ w
              (fun y hy j hj => hfresh y hy j (by have := hshc.ge; omega)) hut hws hsh hw).mono ?_)
          intro w' hw'
          refine ⟨hw'.1, fun he => ?_⟩
          have : selEndsNum elem sel = true := by cases sel <;> simpa [DChain.endsNum, selEndsNum] using he
          simpa [tyChainD] using hw'.2 this)
        P g
        (by intro t t' b0 hPt hr hfr'; exact hstable t t' b0 hPt hr (by simpa [compLoopD] using hfr'))
        (by intro t b0 b1 w hPt hg hev hR; exact hK t b0 b1 w hPt hg (by simpa [loopValD] using hev) hR)
        s b b' r ws hcur hkeep hmap hfold hP
      simpa [compLoopD] using hres
  /-- **the lowered conjunction of the `Where` conditions** -/
  theorem compCondsD_correct (C : Ctx D) (QC : QCtx D) (hN : QC.N = C.N) (nm : Nat → String) (hinj : ∀ i j, nm i = nm j → i = j) :
      ∀ (whrs : DConds) (elem : Option Ty) (it : CExpr) (u : Val D) (d : Nat) (x : String) (ρ : LEnv D) (n : Nat) (bv : Bool),
        (∀ y ∈ vars it, ∀ j, n ≤ j → y ≠ nm j) → (∀ t, elem = some t → HasTy u t) →
        wtCondsD elem whrs = true → CondsHypD QC whrs d x ρ u → condsSemD QC d x ρ whrs u = .ok bv →
        StmtSpec C nm (compCondsD nm elem it whrs n) n it u (fun w => asBool C.N w = some bv)
    | .nil, elem, it, u, d, x, ρ, n, bv, _, _, _, _, hsem => by
      intro s _ _
      simp only [condsSemD, Except.ok.injEq] at hsem; subst hsem
      exact ⟨s, by simp [compCondsD, execs], rfl, ⟨.bool true, by simp [compCondsD, evalE], by simp [asBool]⟩, fun _ _ => rfl⟩
    | .snoc .nil c, elem, it, u, d, x, ρ, n, bv, hfr, hty, hwt, hhyp, hsem => by
      rw [compCondsD_snoc1]
      simp only [wtCondsD, Bool.and_eq_true, beq_iff_eq] at hwt
      simp only [CondsHypD] at hhyp
      simp only [condsSemD, andThenB] at hsem
      obtain ⟨w, hw, hb⟩ := predB_ok QC.N _ bv hsem
      refine (compDE_correct C QC hN nm hinj c false elem it u d x ρ n w hfr hty hwt.1.2 hhyp.2 hw).mono ?_
      intro w' hw'
      rw [hw'.1, ← hN]; exact hb
    | .snoc (.snoc i0 c0) c, elem, it, u, d, x, ρ, n, bv, hfr, hty, hwt, hhyp, hsem => by
      rw [compCondsD_snoc2]
      simp only [wtCondsD, Bool.and_eq_true, beq_iff_eq] at hwt
      have hwi : wtCondsD elem (.snoc i0 c0) = true := by simp only [wtCondsD, Bool.and_eq_true, beq_iff_eq]; exact hwt.1.1
      rw [CondsHypD] at hhyp
      rw [condsSemD] at hsem
      simp only [andThenB] at hsem
      have hshi := compCondsD_shape C.N nm hinj (.snoc i0 c0) elem it (n + 1)
      have hshc := compDE_shape C.N nm hinj c false elem it (compCondsD nm elem it (.snoc i0 c0) (n + 1)).next
      cases hi : condsSemD QC d x ρ (.snoc i0 c0) u with
      | error e => rw [hi] at hsem; simp at hsem
      | ok bi =>
        rw [hi] at hsem
        have hinner := compCondsD_correct C QC hN nm hinj (.snoc i0 c0) elem it u d x ρ (n + 1) bi
          (fun y hy j hj => hfr y hy j (by omega)) hty hwi hhyp.1 hi
        refine condsD_snoc_correct C nm hinj it u n _ _ bi _ hfr hshi hshc hinner ?_ ?_
        · intro hbi
          subst hbi
          simp only [] at hsem
          obtain ⟨w, hw, hb⟩ := predB_ok QC.N _ bv hsem
          refine BlockSpec.of_stmt hshc (fun y hy j hj => hfr y hy j (by have := hshi.ge; omega)) ?_
          refine (compDE_correct C QC hN nm hinj c false elem it u d x ρ _ w
            (fun y hy j hj => hfr y hy j (by have := hshi.ge; omega)) hty hwt.1.2 hhyp.2 hw).mono ?_
          intro w' hw'
          rw [hw'.1, ← hN]; exact hb
        · intro hbi w hw
          subst hbi
          simp only [Except.ok.injEq] at hsem
          subst hsem; exact hw
  /-- **the `Select` of a chain** -/
  theorem compSelD_correct (C : Ctx D) (QC : QCtx D) (hN : QC.N = C.N) (nm : Nat → String) (hinj : ∀ i j, nm i = nm j → i = j) :
      ∀ (sel : DOpt) (elem : Option Ty) (it : CExpr) (u : Val D) (d : Nat) (x : String) (ρ : LEnv D) (n : Nat) (w : Val D),
        (∀ y ∈ vars it, ∀ j, n ≤ j → y ≠ nm j) → (∀ t, elem = some t → HasTy u t) →
        wtSelD elem sel = true → SelHypD QC sel d x ρ u → selSemD QC d x ρ sel u = .ok w →
        StmtSpec C nm (compSelD nm elem it sel n) n it u (fun w' => w' = w ∧ (selEndsNum elem sel = true → HasTy w (tySelD elem sel)))
    | .none, elem, it, u, d, x, ρ, n, w, _, hty, _, _, hsem => by
      intro s hcur _
      simp only [selSemD, Except.ok.injEq] at hsem; subst hsem
      refine ⟨s, by simp [compSelD, execs], rfl, ⟨u, by simpa [compSelD] using hcur, rfl, ?_⟩, fun _ _ => rfl⟩
      intro he
      simp only [selEndsNum, Option.isSome_iff_exists] at he
      obtain ⟨t, rfl⟩ := he
      simpa [tySelD] using hty t rfl
    | .some f, elem, it, u, d, x, ρ, n, w, hfr, hty, hwt, hhyp, hsem => by
      simp only [compSelD]
      simp only [wtSelD, Bool.and_eq_true] at hwt
      simp only [SelHypD] at hhyp
      simp only [selSemD] at hsem
      refine (compDE_correct C QC hN nm hinj f false elem it u d x ρ n w hfr hty hwt.1 hhyp hsem).mono ?_
      intro w' hw'
      exact ⟨hw'.1, fun _ => by simpa [tySelD] using hw'.2⟩
end

/-! ## block level: the declarations are executed, the accumulators restart — at every level -/

/-- **the block of an expression of any depth** — from ANY state in which the current-value expression evaluates
to the element `v` (whatever the accumulators of any level hold): the block's text, declarations first, then the
loops, computes the query's value; only the block's own names change. -/
theorem compDE_block_correct (C : Ctx D) (QC : QCtx D) (hN : QC.N = C.N) (nm : Nat → String)
    (hinj : ∀ i j, nm i = nm j → i = j) (ptr : Bool) (k : Option Ty) (cur : CExpr) (v : Val D) (d : Nat) (x : String) (ρ : LEnv D)
    (e : DE) (n : Nat) (s : St D) (w : Val D)
    (hfr : ∀ y ∈ vars cur, ∀ j, n ≤ j → y ≠ nm j) (hcur : evalE C.N s.env cur = .ok v)
    (hty : ∀ t, k = some t → HasTy v t) (hwt : wtDE k e = true) (hhyp : DEHyp QC e d x ρ v)
    (hden : denote QC ((x, v) :: ρ) (deQ d x e) = .ok w) :
    ∃ s', execs C ((compDE nm ptr k cur e n).decls ++ (compDE nm ptr k cur e n).stmts) s = .ok s' ∧ s'.rows = s.rows ∧
      evalE C.N s'.env (compDE nm ptr k cur e n).val = .ok w ∧ HasTy w (tyDE k e) ∧
      (∀ y, ¬ InRange nm n (compDE nm ptr k cur e n).next y → s'.env y = s.env y) := by
  obtain ⟨s', h1, h2, ⟨w', h3, hw', h4⟩, h5⟩ := BlockSpec.of_stmt (compDE_shape C.N nm hinj e ptr k cur n) hfr
    (compDE_correct C QC hN nm hinj e ptr k cur v d x ρ n w hfr hty hwt hhyp hden) s hcur
  subst hw'
  exact ⟨s', h1, h2, h3, h4, h5⟩

end FaxVerif.Gen
