/-
Gen — end-to-end correctness of per-element rows:
    ds.SelectMany(e -> coll(bank).{Select|Where}*).Select(x -> {name: pe, …})
-/
import FaxVerif.Gen.LoopCorrect
import FaxVerif.Gen.QueryLemmas
namespace FaxVerif.Gen
open FaxVerif.Cpp FaxVerif.Linq
variable {D : Type}

/-! ## query side -/

def pesSem (QC : QCtx D) (w : Val D) : List PE → Except Fault (List (Val D))
  | [] => .ok []
  | pe :: rest => match peSem QC w pe with
    | .error e => .error e
    | .ok v => match pesSem QC w rest with
      | .error e => .error e
      | .ok vs => .ok (v :: vs)

def rowsSem (QC : QCtx D) (pes : List PE) : List (Val D) → Except Fault (List (List (Val D)))
  | [] => .ok []
  | w :: ws => match pesSem QC w pes with
    | .error e => .error e
    | .ok row => match rowsSem QC pes ws with
      | .error e => .error e
      | .ok rs => .ok (row :: rs)

theorem pesSem_length (QC : QCtx D) (w : Val D) : ∀ (pes : List PE) (vs : List (Val D)),
    pesSem QC w pes = .ok vs → vs.length = pes.length
  | [], vs, h => by simp only [pesSem, Except.ok.injEq] at h; subst h; rfl
  | pe :: rest, vs, h => by
    simp only [pesSem] at h
    cases h1 : peSem QC w pe with
    | error e => rw [h1] at h; simp at h
    | ok v =>
      rw [h1] at h; simp only [] at h
      cases h2 : pesSem QC w rest with
      | error e => rw [h2] at h; simp at h
      | ok vs' =>
        rw [h2] at h; simp only [Except.ok.injEq] at h; subst h
        simp [pesSem_length QC w rest vs' h2]

theorem denotes_pes (QC : QCtx D) (w : Val D) (ρ : LEnv D) : ∀ pes : List PE,
    denotes QC (("r", w) :: ρ) (pes.map (peQ "r")) = pesSem QC w pes
  | [] => by simp [denotes, pesSem]
  | pe :: rest => by
    simp only [List.map_cons, denotes, pesSem, peSem, denotes_pes QC w ρ rest,
      peQ_indep QC w "r" "x" ρ [] pe]
    cases denote QC [("x", w)] (peQ "x" pe) with
    | error e => rfl
    | ok v => cases pesSem QC w rest <;> rfl

def evtVal : Val D := .obj "__event__" []

theorem dict_denote (QC : QCtx D) (names : List String) (pes : List PE) (v : Val D) :
    denote QC [("r", v)] (.dict names (pes.map (peQ "r"))) = (match pesSem QC v pes with
      | .error e => .error e
      | .ok vs => .ok (tupleVal (names.zip vs))) := by
  simp only [denote, denotes_pes]
  cases pesSem QC v pes <;> rfl

theorem mapE_rows (QC : QCtx D) (names : List String) (pes : List PE) (hlen : names.length = pes.length) :
    ∀ (ws r : List (Val D)),
      mapE (fun v => denote QC [("r", v)] (.dict names (pes.map (peQ "r")))) ws = .ok r →
      rowsSem QC pes ws = .ok (r.map rowOf)
  | [], r, h => by simp only [mapE, Except.ok.injEq] at h; subst h; rfl
  | w :: ws, r, h => by
    rw [mapE, dict_denote] at h
    cases h1 : pesSem QC w pes with
    | error e => rw [h1] at h; simp at h
    | ok vs =>
      rw [h1] at h; simp only [] at h
      cases h2 : mapE (fun v => denote QC [("r", v)] (.dict names (pes.map (peQ "r")))) ws with
      | error e => rw [h2] at h; simp at h
      | ok r' =>
        rw [h2] at h; simp only [Except.ok.injEq] at h; subst h
        have ih := mapE_rows QC names pes hlen ws r' h2
        have hl := pesSem_length QC w pes vs h1
        simp only [rowsSem, h1, ih, List.map_cons, rowOf, tupleVal]
        rw [List.map_snd_zip (by omega)]

theorem denote_select (C : QCtx D) (ρ : LEnv D) (s : Query) (x : String) (f : Query) :
    denote C ρ (.select s x f) = (match denote C ρ s with
      | .error e => .error e
      | .ok (.vec l) => (match mapE (fun v => denote C ((x, v) :: ρ) f) l with
        | .ok r => .ok (.vec r)
        | .error e => .error e)
      | .ok _ => .error (.typeErr "Select source is not a sequence")) := by
  simp only [denote]
  cases denote C ρ s with
  | error e => rfl
  | ok v =>
    cases v with
    | vec l => simp only []; cases mapE (fun v => denote C ((x, v) :: ρ) f) l <;> rfl
    | _ => rfl

theorem denote_selectMany_ds (C : QCtx D) (x : String) (f : Query) :
    denote C [] (.selectMany .ds x f) = (match denote C [(x, evtVal)] f with
      | .error e => .error e
      | .ok (.vec l) => .ok (.vec (l ++ []))
      | .ok _ => .error (.typeErr "SelectMany body is not a sequence")) := by
  simp only [denote, flatMapE, evtVal]
  cases denote C [(x, Val.obj "__event__" [])] f with
  | error e => rfl
  | ok v => cases v <;> rfl

/-- what the query `elemRows` denotes -/
theorem elemRows_denote (QC : QCtx D) (c : Chain) (cols : List (String × PE)) (rows : List (List (Val D)))
    (h : denoteRows QC (FQ.toQuery (.elemRows c cols)) = .ok rows) :
    ∃ ws, denote QC [("e", evtVal)] (chainQ "e" c) = .ok (.vec ws) ∧ rowsSem QC (cols.map (·.2)) ws = .ok rows := by
  simp only [denoteRows, FQ.toQuery] at h
  have hmap : cols.map (fun p => peQ "r" p.2) = (cols.map (·.2)).map (peQ "r") := by simp [List.map_map]
  rw [hmap, denote_select, denote_selectMany_ds] at h
  cases hc : denote QC [("e", evtVal)] (chainQ "e" c) with
  | error e => rw [hc] at h; simp at h
  | ok cv =>
    rw [hc] at h
    cases cv with
    | vec ws =>
      simp only [List.append_nil] at h
      refine ⟨ws, rfl, ?_⟩
      cases hm : mapE (fun v => denote QC [("r", v)] (.dict (cols.map (·.1)) ((cols.map (·.2)).map (peQ "r")))) ws with
      | error e => rw [hm] at h; simp at h
      | ok r =>
        rw [hm] at h
        simp only [Except.ok.injEq] at h; subst h
        exact mapE_rows QC _ _ (by simp) ws r hm
    | _ => simp at h

/-! ## C++ side: the per-row statements -/

theorem stepConds_ty (ptr : Bool) : ∀ (steps : List Step) (cur : CExpr) (t : Option Ty),
    (stepConds ptr cur t steps).2.2 = chainTy t steps
  | [], _, _ => rfl
  | .sel f :: rest, cur, t => by simp only [stepConds, chainTy]; exact stepConds_ty ptr rest _ _
  | .whr c :: rest, cur, t => by simp only [stepConds, chainTy]; exact stepConds_ty ptr rest _ _

def colNames (cn : Nat → String) : Nat → Nat → List String
  | 0, _ => []
  | m + 1, idx => cn idx :: colNames cn m (idx + 1)

theorem colVars_names (cn : Nat → String) (t : Option Ty) : ∀ (pes : List PE) (idx : Nat),
    (colVars cn t pes idx).map (·.2) = colNames cn pes.length idx
  | [], _ => rfl
  | pe :: rest, idx => by simp [colVars, colNames, colVars_names cn t rest (idx + 1)]

/-- the assignments of a row's columns, then reading them back in order -/
theorem setCols_correct (C : Ctx D) (QC : QCtx D) (hN : QC.N = C.N) (cn : Nat → String)
    (hcinj : ∀ i j, cn i = cn j → i = j) (ptr : Bool) (cur : CExpr) (ty : Option Ty) (w : Val D)
    (hcv : ∀ x ∈ vars cur, ∀ k, x ≠ cn k)
    (hty : ∀ t, ty = some t → HasTy w t) :
    ∀ (pes : List PE) (idx : Nat) (s : St D) (row : List (Val D)),
      evalE C.N s.env cur = .ok w →
      (∀ pe ∈ pes, wtPE ty pe = true) → (∀ pe ∈ pes, MethTyped w (methsPE pe)) →
      (∀ k, idx ≤ k → k < idx + pes.length → (s.env (cn k)).isSome = true) →
      pesSem QC w pes = .ok row →
      ∃ s', execs C (setCols cn ptr cur ty pes idx) s = .ok s' ∧ s'.rows = s.rows ∧
        readCols s'.env (colNames cn pes.length idx) = .ok row ∧
        (∀ y, (∀ k, idx ≤ k → y ≠ cn k) → s'.env y = s.env y) ∧
        (∀ y, (s.env y).isSome = true → (s'.env y).isSome = true)
  | [], idx, s, row, _, _, _, _, hr => by
    simp only [pesSem, Except.ok.injEq] at hr; subst hr
    exact ⟨s, by simp [setCols, execs], rfl, by simp [colNames, readCols], fun _ _ => rfl, fun _ h => h⟩
  | pe :: rest, idx, s, row, hcur, hwt, hmt, hdecl, hr => by
    simp only [pesSem] at hr
    cases h1 : peSem QC w pe with
    | error e => rw [h1] at hr; simp at hr
    | ok v =>
      rw [h1] at hr; simp only [] at hr
      cases h2 : pesSem QC w rest with
      | error e => rw [h2] at hr; simp at hr
      | ok vs =>
        rw [h2] at hr; simp only [Except.ok.injEq] at hr; subst hr
        have hpe := pe_correct QC s.env cur ty (ptr && ty.isNone) w "x" [] (by rw [hN]; exact hcur) hty pe
          (hwt pe (by simp)) (hmt pe (by simp))
        have hev : evalE C.N s.env (compPE (ptr && ty.isNone) cur (ty.getD .double) pe) = .ok v := by
          rw [← hN]; rw [show ty.getD .double = curT ty from rfl, hpe.1]; exact h1
        have hd := hdecl idx (Nat.le_refl _) (by simp)
        let s1 : St D := { s with env := s.env.set (cn idx) v }
        have hcur1 : evalE C.N s1.env cur = .ok w := by
          rw [← hcur]
          apply evalE_congr
          intro x hx
          simp [s1, Env.set, hcv x hx idx]
        obtain ⟨s', hex, hrows, hread, hfr, hmono⟩ := setCols_correct C QC hN cn hcinj ptr cur ty w hcv hty rest (idx + 1) s1 vs hcur1
          (fun p hp => hwt p (by simp [hp])) (fun p hp => hmt p (by simp [hp]))
          (fun k hk1 hk2 => by
            have hne : cn k ≠ cn idx := fun e => by have := hcinj _ _ e; omega
            simp only [s1, Env.set, hne, if_false]
            exact hdecl k (by omega) (by simp only [List.length_cons]; omega))
          h2
        refine ⟨s', ?_, by rw [hrows], ?_, ?_, ?_⟩
        rotate_left 3
        · intro y hy
          apply hmono
          by_cases e : y = cn idx
          · simp [s1, Env.set, e]
          · simpa [s1, Env.set, e] using hy
        · simp only [setCols, execs, exec]
          cases hs : s.env (cn idx) with
          | none => rw [hs] at hd; simp at hd
          | some sl => simp only [hev]; exact hex
        · simp only [colNames, List.length_cons, readCols]
          have : s'.env (cn idx) = some (.val v) := by
            rw [hfr (cn idx) (fun k hk e => by have := hcinj _ _ e; omega)]
            simp [s1, Env.set]
          rw [this, hread]
        · intro y hy
          rw [hfr y (fun k hk => hy k (by omega))]
          simp [s1, Env.set, hy idx (Nat.le_refl _)]

theorem foldG_rows (QC : QCtx D) (pes : List PE) : ∀ (ws : List (Val D)) (acc rows : List (List (Val D))),
    rowsSem QC pes ws = .ok rows →
    foldG (fun (a : List (List (Val D))) w => match pesSem QC w pes with
      | .ok row => .ok (a ++ [row])
      | .error e => .error e) ws acc = .ok (acc ++ rows)
  | [], acc, rows, h => by simp only [rowsSem, Except.ok.injEq] at h; subst h; simp [foldG]
  | w :: ws, acc, rows, h => by
    simp only [rowsSem] at h
    cases h1 : pesSem QC w pes with
    | error e => rw [h1] at h; simp at h
    | ok row =>
      rw [h1] at h; simp only [] at h
      cases h2 : rowsSem QC pes ws with
      | error e => rw [h2] at h; simp at h
      | ok rs =>
        rw [h2] at h; simp only [Except.ok.injEq] at h; subst h
        simp only [foldG, h1]
        rw [foldG_rows QC pes ws (acc ++ [row]) rs h2]
        simp


theorem zip_map_snd (a : List String) (b : List String) (h : a.length = b.length) : (a.zip b).map (·.2) = b := by
  rw [List.map_snd_zip (by omega)]

theorem colNames_length (cn : Nat → String) : ∀ (m idx : Nat), (colNames cn m idx).length = m
  | 0, _ => rfl
  | m + 1, idx => by simp [colNames, colNames_length cn m (idx + 1)]

theorem mem_colNames (cn : Nat → String) : ∀ (m idx k : Nat), idx ≤ k → k < idx + m → cn k ∈ colNames cn m idx
  | 0, idx, k, h1, h2 => by omega
  | m + 1, idx, k, h1, h2 => by
    simp only [colNames, List.mem_cons]
    by_cases e : k = idx
    · exact Or.inl (by rw [e])
    · exact Or.inr (mem_colNames cn m (idx + 1) k (by omega) (by omega))

/-- the token table `compile` emits for element-level rows binds the chain's token -/
theorem tokChain_elemRows (B : Backend) (nm cn : Nat → String) (c : Chain) (cols : List (String × PE))
    (N : Num D) (ev : Event D) (K : CExpr → Option Ty → List Stmt)
    (hK : (compile B nm cn (.elemRows c cols)).tokens = banksOf B (compChain B nm c 0 K).stmts [c.bank]) :
    TokChain B nm ((compile B nm cn (.elemRows c cols)).ctx N ev) c 0 := by
  intro ht
  have h := banksOf_chain B ht nm c 0 K [] []
  rw [List.append_nil] at h
  have htoks : ((compile B nm cn (.elemRows c cols)).ctx N ev).tokens = chainToks B nm c 0 := by
    simp only [Package.ctx]; rw [hK, h]; simp [banksOf]
  have := tokenBank_of_mem ((compile B nm cn (.elemRows c cols)).ctx N ev) (by rw [htoks]; simp [chainToks])
    (nm (0 + 2), (B.collType c.coll).getD "?", c.bank) (by rw [htoks]; simp [chainToks])
  exact this

/-- **C01 (element-level rows)** — for every chain, every list of pure column expressions, every
event and every class state in which the column variables are declared: if the query denotes
`rows` on the event, the package the translator model emits writes exactly `rows`, and the class
state it leaves behind again has the column variables declared (the precondition of the next
event). All three backends: on the token idiom the table `compile` emits binds the chain's token. -/
theorem elemRows_correct_post (B : Backend) (hB : BackendBase B) (nm cn : Nat → String)
    (hinj : ∀ i j, nm i = nm j → i = j) (hcinj : ∀ i j, cn i = cn j → i = j)
    (hres : ∀ j, nm j ≠ "result") (hcres : ∀ k, cn k ≠ "result") (hdisj : ∀ j k, nm j ≠ cn k)
    (QC : QCtx D) (hcollT : ∀ name, B.collType name = QC.collType name)
    (c : Chain) (cols : List (String × PE))
    (hwt : wtSteps none c.steps = true)
    (hwtc : ∀ p ∈ cols, wtPE (chainTy none c.steps) p.2 = true)
    (hmt : ∀ cty l, QC.ev.find c.bank = some (cty, .vec l) →
        ∀ v ∈ l, MethTyped v (methsSteps c.steps) ∧ ∀ p ∈ cols, MethTyped v (methsPE p.2))
    (σc : Env D) (hσ : ∀ k, k < cols.length → (σc (cn k)).isSome = true)
    (rows : List (List (Val D)))
    (hden : denoteRows QC (FQ.toQuery (.elemRows c cols)) = .ok rows) :
    ∃ σ', runEvent (compile B nm cn (.elemRows c cols)) QC.N σc QC.ev = .ok (rows, σ') ∧
      ∀ k, k < cols.length → (σ' (cn k)).isSome = true := by
  obtain ⟨ws, hchain, hrows⟩ := elemRows_denote QC c cols rows hden
  obtain ⟨cty, l, hct, hfind, hel⟩ := chainQ_ok QC _ "e" c ws hchain
  have hcoll : B.collType c.coll = some cty := by rw [hcollT]; exact hct
  let pes := cols.map (·.2)
  let m := cols.length
  let K : CExpr → Option Ty → List Stmt := fun cur ty => setCols cn B.elemPtr cur ty pes 0 ++ [.fill (B.fillTree B.treeName)]
  let P := compile B nm cn (.elemRows c cols)
  let C := P.ctx QC.N QC.ev
  have hCcols : C.cols = colNames cn m 0 := by
    simp only [C, Package.ctx, P, compile]
    rw [zip_map_snd _ _ (by simp [colVars_names, colNames_length])]
    rw [colVars_names]; simp [m]
  have hbody : P.body = .block ((compChain B nm c 0 K).decls ++ (compChain B nm c 0 K).stmts) := rfl
  -- state after the declaration of the collection variable
  let s1 : St D := ⟨σc.declare (nm 0), []⟩
  have hdecl : execs C (compChain B nm c 0 K).decls ⟨σc, []⟩ = .ok s1 := by
    simp [compChain, execs, exec, hB.handleNotVec, s1]
  -- the invariant carried through the loop
  let Pinv : St D → List (List (Val D)) → Prop := fun s acc => s.rows = acc ∧ ∀ k, k < m → (s.env (cn k)).isSome = true
  let g : List (List (Val D)) → Val D → Except Fault (List (List (Val D))) := fun a w =>
    match pesSem QC w pes with
    | .ok row => .ok (a ++ [row])
    | .error e => .error e
  have hmt' := hmt cty l hfind
  have htok : TokChain B nm C c 0 := tokChain_elemRows B nm cn c cols QC.N QC.ev K rfl
  obtain ⟨s', hex, hP'⟩ := compChain_correct_tok (β := List (List (Val D))) C QC rfl B hB nm hinj hres c 0 htok K cty l ws hcoll hfind hwt
    (fun v hv => (hmt' v hv).1) Pinv g (fun v => ∀ p ∈ cols, MethTyped v (methsPE p.2)) (fun v hv => (hmt' v hv).2)
    (by
      intro s t acc hPs hr hfr
      refine ⟨by rw [hr]; exact hPs.1, fun k hk => ?_⟩
      rw [hfr (cn k) (by
        rintro (⟨j, _, _, hj⟩ | hj)
        · exact hdisj j k hj.symm
        · exact hcres k hj)]
      exact hPs.2 k hk)
    (by
      intro s acc acc' w v hPs hg hev hty hobj
      simp only [g] at hg
      cases hrow : pesSem QC w pes with
      | error e => rw [hrow] at hg; simp at hg
      | ok row =>
        rw [hrow] at hg; simp only [Except.ok.injEq] at hg; subst hg
        have htyeq := stepConds_ty B.elemPtr c.steps (.var (nm 1)) none
        obtain ⟨s2, hex2, hrows2, hread2, _, hmono2⟩ := setCols_correct C QC rfl cn hcinj B.elemPtr
          (stepConds B.elemPtr (.var (nm (0 + 1))) none c.steps).2.1 (stepConds B.elemPtr (.var (nm (0 + 1))) none c.steps).2.2 w
          (by
            intro x hx k
            have := (stepConds_vars B.elemPtr c.steps (.var (nm (0 + 1))) none).2 x hx
            simp only [vars, List.mem_singleton] at this
            rw [this]; exact hdisj _ k)
          hty pes 0 s row hev
          (by
            intro pe hpe
            simp only [pes, List.mem_map] at hpe
            obtain ⟨p, hp, rfl⟩ := hpe
            rw [show (0 + 1) = 1 from rfl, htyeq]; exact hwtc p hp)
          (by
            intro pe hpe
            simp only [pes, List.mem_map] at hpe
            obtain ⟨p, hp, rfl⟩ := hpe
            cases hty' : (stepConds B.elemPtr (.var (nm (0 + 1))) none c.steps).2.2 with
            | some t => exact methTyped_of_hasTy (hty t hty') _
            | none => obtain ⟨rfl, hq⟩ := hobj hty'; exact hq p hp)
          (by intro k _ hk; exact hPs.2 k (by simpa [pes, m] using hk))
          hrow
        refine ⟨⟨s2.env, s2.rows ++ [row]⟩, ?_, ?_, ?_⟩
        · simp only [K]
          rw [execs_append, hex2]
          simp only [execs, exec, hCcols]
          have : readCols s2.env (colNames cn m 0) = .ok row := by simpa [pes, m] using hread2
          rw [this]
        · simp [hrows2, hPs.1]
        · intro k hk; exact hmono2 _ (hPs.2 k hk))
    s1 [] ([] ++ rows) (by simp [s1, Env.declare]) hel (foldG_rows QC pes ws [] rows hrows)
    ⟨rfl, fun k hk => by
      have : cn k ≠ nm 0 := fun e => hdisj 0 k e.symm
      simp only [s1, Env.declare, this, if_false]; exact hσ k hk⟩
  refine ⟨keepClass P.classVars s'.env, ?_, ?_⟩
  · simp only [runEvent]
    rw [show P.body = .block ((compChain B nm c 0 K).decls ++ (compChain B nm c 0 K).stmts) from hbody]
    simp only [exec]
    rw [execs_append, hdecl]
    simp only []
    rw [hex]
    simp only [hP'.1, List.nil_append]
    rfl
  · intro k hk
    have hmem : cn k ∈ P.classVars.map (·.2) := by
      have h1 : cn k ∈ (colVars cn (chainTy none c.steps) pes 0).map (·.2) := by
        rw [colVars_names]; exact mem_colNames cn _ 0 k (Nat.zero_le _) (by simpa [pes] using hk)
      simp only [P, compile, List.map_append, List.mem_append]
      exact Or.inr h1
    have hany : P.classVars.any (fun p => decide (p.2 = cn k)) = true := by
      obtain ⟨p, hp, hpe⟩ := List.mem_map.1 hmem
      simp only [List.any_eq_true, decide_eq_true_eq]
      exact ⟨p, hp, hpe⟩
    simp only [keepClass, hany, if_true]
    exact hP'.2 k hk

/-- `elemRows_correct_post` without the post-state (the statement `C01.elemRows_correct_partial` wraps). -/
theorem elemRows_correct (B : Backend) (hB : BackendOK B) (nm cn : Nat → String)
    (hinj : ∀ i j, nm i = nm j → i = j) (hcinj : ∀ i j, cn i = cn j → i = j)
    (hres : ∀ j, nm j ≠ "result") (hcres : ∀ k, cn k ≠ "result") (hdisj : ∀ j k, nm j ≠ cn k)
    (QC : QCtx D) (hcollT : ∀ name, B.collType name = QC.collType name)
    (c : Chain) (cols : List (String × PE))
    (hwt : wtSteps none c.steps = true)
    (hwtc : ∀ p ∈ cols, wtPE (chainTy none c.steps) p.2 = true)
    (hmt : ∀ cty l, QC.ev.find c.bank = some (cty, .vec l) →
        ∀ v ∈ l, MethTyped v (methsSteps c.steps) ∧ ∀ p ∈ cols, MethTyped v (methsPE p.2))
    (σc : Env D) (hσ : ∀ k, k < cols.length → (σc (cn k)).isSome = true)
    (rows : List (List (Val D)))
    (hden : denoteRows QC (FQ.toQuery (.elemRows c cols)) = .ok rows) :
    ∃ σ', runEvent (compile B nm cn (.elemRows c cols)) QC.N σc QC.ev = .ok (rows, σ') := by
  obtain ⟨σ', h, _⟩ := elemRows_correct_post B hB.base nm cn hinj hcinj hres hcres hdisj QC hcollT c cols hwt hwtc hmt σc hσ rows hden
  exact ⟨σ', h⟩

end FaxVerif.Gen
