/-
Gen — correctness of event-level scalar expressions over general aggregates (`compGE`):
constants, `Aggregate` over chains, arithmetic and comparisons over them.
-/
import FaxVerif.Gen.AggWidenCorrect
namespace FaxVerif.Gen
open FaxVerif.Cpp FaxVerif.Linq
variable {D : Type}

/-! ## shape of the fragments -/

theorem compGE_next_ge (B : Backend) (nm : Nat → String) : ∀ (e : GE) (n : Nat), n ≤ (compGE B nm e n).next
  | .int _, n => by simp [compGE]
  | .dbl _ _, n => by simp [compGE]
  | .bool _, n => by simp [compGE]
  | .agg g, n => by have := compAgg_next B nm g n; simp only [compGE]; omega
  | .bin _ a b, n => by
    have h1 := compGE_next_ge B nm a n
    have h2 := compGE_next_ge B nm b (compGE B nm a n).next
    simp only [compGE]; omega
  | .cmp _ a b, n => by
    have h1 := compGE_next_ge B nm a n
    have h2 := compGE_next_ge B nm b (compGE B nm a n).next
    simp only [compGE]; omega
  | .neg a, n => by simpa [compGE] using compGE_next_ge B nm a n
  | .not a, n => by simpa [compGE] using compGE_next_ge B nm a n

theorem compGE_val_vars (B : Backend) (nm : Nat → String) : ∀ (e : GE) (n : Nat),
    ∀ x ∈ vars (compGE B nm e n).val, InRange nm n (compGE B nm e n).next x
  | .int _, n, x, h => by simp [compGE, vars] at h
  | .dbl _ _, n, x, h => by simp [compGE, vars] at h
  | .bool _, n, x, h => by simp [compGE, vars] at h
  | .agg g, n, x, h => by
    have := compAgg_next B nm g n
    simp only [compGE] at h ⊢
    simp only [compAgg, vars, List.mem_singleton] at h
    exact ⟨n, Nat.le_refl n, by omega, h⟩
  | .bin op a b, n, x, h => by
    have ha := compGE_val_vars B nm a n
    have hb := compGE_val_vars B nm b (compGE B nm a n).next
    have h1 := compGE_next_ge B nm a n
    have h2 := compGE_next_ge B nm b (compGE B nm a n).next
    simp only [compGE] at h ⊢
    split at h <;> simp only [vars, List.mem_append] at h <;> rcases h with h | h
    all_goals first | exact (ha x h).mono (Nat.le_refl _) h2 | exact (hb x h).mono h1 (Nat.le_refl _)
  | .cmp op a b, n, x, h => by
    have ha := compGE_val_vars B nm a n
    have hb := compGE_val_vars B nm b (compGE B nm a n).next
    have h1 := compGE_next_ge B nm a n
    have h2 := compGE_next_ge B nm b (compGE B nm a n).next
    simp only [compGE, vars, List.mem_append] at h ⊢
    rcases h with h | h
    · exact (ha x h).mono (Nat.le_refl _) h2
    · exact (hb x h).mono h1 (Nat.le_refl _)
  | .neg a, n, x, h => by simp only [compGE, vars] at h ⊢; exact compGE_val_vars B nm a n x h
  | .not a, n, x, h => by simp only [compGE, vars] at h ⊢; exact compGE_val_vars B nm a n x h

theorem compAgg_decls (B : Backend) (nm : Nat → String) (g : Agg) (n : Nat) :
    DeclsIn nm n (compAgg B nm g n).next (compAgg B nm g n).decls := by
  have hn := compAgg_next B nm g n
  simp only [compAgg] at hn ⊢
  apply DeclsIn.append
  · exact (compChain_decls B nm g.c (n + 1) _).mono (by omega) (Nat.le_refl _)
  · intro d hd
    simp only [List.mem_singleton] at hd
    exact ⟨_, _, _, hd, n, Nat.le_refl n, by omega, rfl⟩

theorem compGE_decls (B : Backend) (nm : Nat → String) : ∀ (e : GE) (n : Nat),
    DeclsIn nm n (compGE B nm e n).next (compGE B nm e n).decls
  | .int _, n => by intro d hd; simp [compGE] at hd
  | .dbl _ _, n => by intro d hd; simp [compGE] at hd
  | .bool _, n => by intro d hd; simp [compGE] at hd
  | .agg g, n => by simpa [compGE] using compAgg_decls B nm g n
  | .bin _ a b, n => by
    have h1 := compGE_next_ge B nm a n
    have h2 := compGE_next_ge B nm b (compGE B nm a n).next
    simp only [compGE]
    exact ((compGE_decls B nm a n).mono (Nat.le_refl _) h2).append ((compGE_decls B nm b _).mono h1 (Nat.le_refl _))
  | .cmp _ a b, n => by
    have h1 := compGE_next_ge B nm a n
    have h2 := compGE_next_ge B nm b (compGE B nm a n).next
    simp only [compGE]
    exact ((compGE_decls B nm a n).mono (Nat.le_refl _) h2).append ((compGE_decls B nm b _).mono h1 (Nat.le_refl _))
  | .neg a, n => by simpa [compGE] using compGE_decls B nm a n
  | .not a, n => by simpa [compGE] using compGE_decls B nm a n

theorem castTo_cpp_seed (N : Num D) (t : Ty) (sd : Seed) :
    ∃ v v', litOfA N sd.cexpr = some v ∧ castTo N t.cpp v = .ok v' := by
  cases sd <;> cases t <;> simp [Seed.cexpr, litOfA, castTo, Ty.cpp, asD, asBool]

theorem compAgg_declsOK (C : Ctx D) (B : Backend) (hB : BackendBase B) (nm : Nat → String)
    (hinj : ∀ i j, nm i = nm j → i = j) (g : Agg) (n : Nat) :
    (∀ d ∈ (compAgg B nm g n).decls, SimpleDeclA C.N d) ∧ ((compAgg B nm g n).decls.map declName).Nodup := by
  constructor
  · intro d hd
    simp only [compAgg, compChain, List.mem_append, List.mem_singleton] at hd
    rcases hd with rfl | rfl
    · simp [SimpleDeclA, hB.handleNotVec]
    · exact castTo_cpp_seed C.N g.accTy g.seed
  · simp only [compAgg, compChain, List.map_append, List.map_cons, List.map_nil, declName, List.cons_append, List.nil_append,
      List.nodup_cons, List.mem_singleton, List.not_mem_nil, not_false_eq_true, List.nodup_nil, and_true]
    intro h; have := hinj _ _ h; omega

theorem compGE_declsOK (C : Ctx D) (B : Backend) (hB : BackendBase B) (nm : Nat → String)
    (hinj : ∀ i j, nm i = nm j → i = j) : ∀ (e : GE) (n : Nat),
    (∀ d ∈ (compGE B nm e n).decls, SimpleDeclA C.N d) ∧ ((compGE B nm e n).decls.map declName).Nodup
  | .int _, n => by simp [compGE]
  | .dbl _ _, n => by simp [compGE]
  | .bool _, n => by simp [compGE]
  | .agg g, n => by simpa [compGE] using compAgg_declsOK C B hB nm hinj g n
  | .bin _ a b, n => by
    have ha := compGE_declsOK C B hB nm hinj a n
    have hb := compGE_declsOK C B hB nm hinj b (compGE B nm a n).next
    simp only [compGE]
    refine ⟨fun d hd => ?_, ?_⟩
    · rcases List.mem_append.1 hd with h | h
      · exact ha.1 d h
      · exact hb.1 d h
    · rw [List.map_append]
      exact nodup_append_ranges hinj ha.2 hb.2 (declsIn_names (compGE_decls B nm a n)) (declsIn_names (compGE_decls B nm b _))
  | .cmp _ a b, n => by
    have ha := compGE_declsOK C B hB nm hinj a n
    have hb := compGE_declsOK C B hB nm hinj b (compGE B nm a n).next
    simp only [compGE]
    refine ⟨fun d hd => ?_, ?_⟩
    · rcases List.mem_append.1 hd with h | h
      · exact ha.1 d h
      · exact hb.1 d h
    · rw [List.map_append]
      exact nodup_append_ranges hinj ha.2 hb.2 (declsIn_names (compGE_decls B nm a n)) (declsIn_names (compGE_decls B nm b _))
  | .neg a, n => by simpa [compGE] using compGE_declsOK C B hB nm hinj a n
  | .not a, n => by simpa [compGE] using compGE_declsOK C B hB nm hinj a n

/-! ## sequencing of two fragments -/

theorem compGE_seq (C : Ctx D) (B : Backend) (nm : Nat → String)
    (hinj : ∀ i j, nm i = nm j → i = j) (hres : ∀ j, nm j ≠ "result")
    (a b : GE) (n : Nat) (s : St D) (va vb : Val D)
    (hdone : DeclsDoneA C.N ((compGE B nm a n).decls ++ (compGE B nm b (compGE B nm a n).next).decls) s.env)
    (speca : DeclsDoneA C.N (compGE B nm a n).decls s.env →
      ∃ s1, execs C (compGE B nm a n).stmts s = .ok s1 ∧ s1.rows = s.rows ∧
        evalE C.N s1.env (compGE B nm a n).val = .ok va ∧
        (∀ y, ¬ Touch nm n (compGE B nm a n).next y → s1.env y = s.env y))
    (specb : ∀ s1 : St D, DeclsDoneA C.N (compGE B nm b (compGE B nm a n).next).decls s1.env →
      ∃ s2, execs C (compGE B nm b (compGE B nm a n).next).stmts s1 = .ok s2 ∧ s2.rows = s1.rows ∧
        evalE C.N s2.env (compGE B nm b (compGE B nm a n).next).val = .ok vb ∧
        (∀ y, ¬ Touch nm (compGE B nm a n).next (compGE B nm b (compGE B nm a n).next).next y → s2.env y = s1.env y)) :
    ∃ s2, execs C ((compGE B nm a n).stmts ++ (compGE B nm b (compGE B nm a n).next).stmts) s = .ok s2 ∧
      s2.rows = s.rows ∧ evalE C.N s2.env (compGE B nm a n).val = .ok va ∧
      evalE C.N s2.env (compGE B nm b (compGE B nm a n).next).val = .ok vb ∧
      (∀ y, ¬ Touch nm n (compGE B nm b (compGE B nm a n).next).next y → s2.env y = s.env y) := by
  have h1 := compGE_next_ge B nm a n
  have h2 := compGE_next_ge B nm b (compGE B nm a n).next
  have hda : DeclsDoneA C.N (compGE B nm a n).decls s.env := fun d hd => hdone d (by simp [hd])
  have hdb : DeclsDoneA C.N (compGE B nm b (compGE B nm a n).next).decls s.env := fun d hd => hdone d (by simp [hd])
  obtain ⟨s1, hex1, hr1, hv1, hf1⟩ := speca hda
  have hdb1 : DeclsDoneA C.N (compGE B nm b (compGE B nm a n).next).decls s1.env :=
    hdb.transport (compGE_decls B nm b _) (fun y hy => hf1 y (by
      rintro (h | h)
      · exact inRange_disjoint hinj hy h
      · obtain ⟨j, _, _, hj⟩ := hy; exact hres j (hj ▸ h)))
  obtain ⟨s2, hex2, hr2, hv2, hf2⟩ := specb s1 hdb1
  refine ⟨s2, ?_, by rw [hr2, hr1], ?_, hv2, ?_⟩
  · rw [execs_append, hex1]; exact hex2
  · rw [← hv1]
    apply evalE_congr
    intro x hx
    have hxr := compGE_val_vars B nm a n x hx
    apply hf2
    rintro (h | h)
    · exact inRange_disjoint hinj h hxr
    · obtain ⟨j, _, _, hj⟩ := hxr; exact hres j (hj ▸ h)
  · intro y hy
    rw [hf2 y (not_touch_sub hy h1 (Nat.le_refl _)), hf1 y (not_touch_sub hy (Nat.le_refl _) h2)]

/-! ## event-level scalars over aggregates -/

/-- every aggregate of the expression, compiled from supply position `n` on, finds its token bound
to its own container type and bank in the run's token table (vacuous unless the backend retrieves
by token) -/
def TokGE (B : Backend) (nm : Nat → String) (C : Ctx D) : GE → Nat → Prop
  | .agg g, n => TokChain B nm C g.c (n + 1)
  | .bin _ a b, n => TokGE B nm C a n ∧ TokGE B nm C b (compGE B nm a n).next
  | .cmp _ a b, n => TokGE B nm C a n ∧ TokGE B nm C b (compGE B nm a n).next
  | .neg a, n => TokGE B nm C a n
  | .not a, n => TokGE B nm C a n
  | .int _, _ => True
  | .dbl _ _, _ => True
  | .bool _, _ => True

theorem tokGE_of_notToken {B : Backend} (h : B.how ≠ "token") (nm : Nat → String) (C : Ctx D) :
    ∀ (e : GE) (n : Nat), TokGE B nm C e n
  | .agg g, n => tokChain_of_notToken h nm C g.c _
  | .bin _ a b, n => ⟨tokGE_of_notToken h nm C a n, tokGE_of_notToken h nm C b _⟩
  | .cmp _ a b, n => ⟨tokGE_of_notToken h nm C a n, tokGE_of_notToken h nm C b _⟩
  | .neg a, n => tokGE_of_notToken h nm C a n
  | .not a, n => tokGE_of_notToken h nm C a n
  | .int _, _ => trivial
  | .dbl _ _, _ => trivial
  | .bool _, _ => trivial

/-- **event-level scalar expressions over general aggregates** -/
theorem compGE_correct_tok (C : Ctx D) (QC : QCtx D) (hN : QC.N = C.N) (hev : QC.ev = C.ev)
    (B : Backend) (hB : BackendBase B) (nm : Nat → String)
    (hinj : ∀ i j, nm i = nm j → i = j) (hres : ∀ j, nm j ≠ "result")
    (hcollT : ∀ name, B.collType name = QC.collType name) :
    ∀ (e : GE) (n : Nat) (s : St D) (v : Val D), TokGE B nm C e n →
      DeclsDoneA C.N (compGE B nm e n).decls s.env →
      wtGE e = true → (∀ g ∈ aggsGE e, AggHyp QC g) →
      denote QC [("e", evtVal)] (geQ "e" e) = .ok v →
      ∃ s', execs C (compGE B nm e n).stmts s = .ok s' ∧ s'.rows = s.rows ∧
        evalE C.N s'.env (compGE B nm e n).val = .ok v ∧ HasTy v (tyGE e) ∧
        (∀ y, ¬ Touch nm n (compGE B nm e n).next y → s'.env y = s.env y)
  | .int k, n, s, v, _, _, _, _, hden => by
    simp only [geQ, denote, Except.ok.injEq] at hden; subst hden
    exact ⟨s, by simp [compGE, execs], rfl, by simp [compGE, evalE], by simp [tyGE, HasTy], fun _ _ => rfl⟩
  | .dbl m e, n, s, v, _, _, _, _, hden => by
    simp only [geQ, denote, Except.ok.injEq] at hden; subst hden
    exact ⟨s, by simp [compGE, execs], rfl, by simp [compGE, evalE, hN], by simp [tyGE, HasTy], fun _ _ => rfl⟩
  | .bool b, n, s, v, _, _, _, _, hden => by
    simp only [geQ, denote, Except.ok.injEq] at hden; subst hden
    exact ⟨s, by simp [compGE, execs], rfl, by simp [compGE, evalE], by simp [tyGE, HasTy], fun _ _ => rfl⟩
  | .agg g, n, s, v, htk, hdone, hwt, hct, hden => by
    simp only [wtGE, wtAggW, Bool.and_eq_true, Bool.or_eq_true] at hwt
    obtain ⟨hbase, hcase⟩ := hwt
    obtain ⟨hmt, hne⟩ := hct g (by simp [aggsGE])
    have hdone' : DeclsDoneA C.N (compAgg B nm g n).decls s.env := by simpa [compGE] using hdone
    have hden' : denote QC [("e", evtVal)] (aggQ "e" g) = .ok v := by simpa [geQ] using hden
    by_cases hex : aggExact g.seed.ty g.bodyTy = true
    · simpa [compGE, tyGE] using agg_correct C QC hN hev B hB nm hinj hres hcollT g n htk s v hdone'
        (by simp [wtAgg, hbase, hex]) hmt hden'
    · have hwd : aggWiden g = true := by
        rcases hcase with h | h
        · exact absurd h hex
        · exact h
      obtain ⟨ws, hchain, hfold⟩ := aggQ_denote QC g v hden'
      obtain ⟨cty, l, _, hfind, hel⟩ := chainQ_ok QC _ "e" g.c ws hchain
      have hwsne : ws ≠ [] := hne (by simpa using hex) cty l ws hfind hel
      simpa [compGE, tyGE] using agg_widen_fold_correct C QC hN hev B hB nm hinj hres hcollT g n htk s ws v hdone'
        hbase hwd hmt hchain hwsne hfold
  | .bin op a b, n, s, v, htk, hdone, hwt, hct, hden => by
    simp only [wtGE, Bool.and_eq_true] at hwt
    obtain ⟨⟨⟨hwa, hwb⟩, hna⟩, hnb⟩ := hwt
    simp only [geQ, denote] at hden
    cases hda : denote QC [("e", evtVal)] (geQ "e" a) with
    | error e => rw [hda] at hden; simp at hden
    | ok va =>
      rw [hda] at hden
      cases hdb : denote QC [("e", evtVal)] (geQ "e" b) with
      | error e => rw [hdb] at hden; simp at hden
      | ok vb =>
        rw [hdb] at hden
        simp only [] at hden
        have hcta : ∀ g ∈ aggsGE a, AggHyp QC g := fun g hg => hct g (by simp [aggsGE, hg])
        have hctb : ∀ g ∈ aggsGE b, AggHyp QC g := fun g hg => hct g (by simp [aggsGE, hg])
        have hdone' : DeclsDoneA C.N ((compGE B nm a n).decls ++ (compGE B nm b (compGE B nm a n).next).decls) s.env := by
          simpa [compGE] using hdone
        have hta : HasTy va (tyGE a) := by
          obtain ⟨_, _, _, _, h, _⟩ := compGE_correct_tok C QC hN hev B hB nm hinj hres hcollT a n s va htk.1
            (fun d hd => hdone' d (by simp [hd])) hwa hcta hda
          exact h
        have htb : HasTy vb (tyGE b) := by
          obtain ⟨_, _, _, _, h, _⟩ := compGE_correct_tok C QC hN hev B hB nm hinj hres hcollT b (compGE B nm a n).next s vb htk.2
            (fun d hd => hdone' d (by simp [hd])) hwb hctb hdb
          exact h
        obtain ⟨s2, hex, hrows, hva, hvb, hfr⟩ := compGE_seq C B nm hinj hres a b n s va vb hdone'
          (fun hd => by
            obtain ⟨s1, h1, h2, h3, _, h5⟩ := compGE_correct_tok C QC hN hev B hB nm hinj hres hcollT a n s va htk.1 hd hwa hcta hda
            exact ⟨s1, h1, h2, h3, h5⟩)
          (fun s1 hd => by
            obtain ⟨s2, h1, h2, h3, _, h5⟩ := compGE_correct_tok C QC hN hev B hB nm hinj hres hcollT b _ s1 vb htk.2 hd hwb hctb hdb
            exact ⟨s2, h1, h2, h3, h5⟩)
        refine ⟨s2, by simpa [compGE] using hex, hrows, ?_, ?_, by simpa [compGE] using hfr⟩
        · by_cases hdiv : op = .div
          · subst hdiv
            have hd := div_num C.N va vb _ _ hta htb hna hnb
            rw [hN] at hden
            simp only [AOp.str] at hden
            rw [← hden, ← hd.1]
            simp only [compGE]
            by_cases hj : (tyGE a).join (tyGE b) = .int
            · simp only [hj, and_self, if_true]
              rw [evalE_bin_arith _ _ _ (by simp) (by simp)]
              simp only [evalE, hva, hvb]
              cases castTo C.N "double" va <;> rfl
            · simp only [hj, and_false, if_false]
              rw [evalE_bin_arith _ _ _ (by simp [AOp.str]) (by simp [AOp.str])]
              simp [hva, hvb, AOp.str]
          · have hne : ¬ (op = .div ∧ (tyGE a).join (tyGE b) = .int) := fun h => hdiv h.1
            have := arith_num C.N op hdiv va vb _ _ hta htb hna hnb
            rw [hN] at hden
            simp only [compGE, hne, if_false]
            rw [evalE_bin_arith _ _ _ (aop_not_logic op).1 (aop_not_logic op).2]
            simp only [hva, hvb]
            rw [this.1]; exact hden
        · by_cases hdiv : op = .div
          · subst hdiv
            rw [hN] at hden
            simpa [tyGE] using (div_num C.N va vb _ _ hta htb hna hnb).2 v (by simpa [AOp.str] using hden)
          · have hty' : tyGE (.bin op a b) = (tyGE a).join (tyGE b) := by cases op <;> simp [tyGE] at hdiv ⊢
            rw [hty']
            have := arith_num C.N op hdiv va vb _ _ hta htb hna hnb
            rw [hN] at hden
            exact this.2 v (by rw [this.1]; exact hden)
  | .cmp op a b, n, s, v, htk, hdone, hwt, hct, hden => by
    simp only [wtGE, Bool.and_eq_true] at hwt
    obtain ⟨⟨⟨hwa, hwb⟩, hna⟩, hnb⟩ := hwt
    simp only [geQ, denote] at hden
    cases hda : denote QC [("e", evtVal)] (geQ "e" a) with
    | error e => rw [hda] at hden; simp at hden
    | ok va =>
      rw [hda] at hden
      cases hdb : denote QC [("e", evtVal)] (geQ "e" b) with
      | error e => rw [hdb] at hden; simp at hden
      | ok vb =>
        rw [hdb] at hden
        simp only [] at hden
        have hcta : ∀ g ∈ aggsGE a, AggHyp QC g := fun g hg => hct g (by simp [aggsGE, hg])
        have hctb : ∀ g ∈ aggsGE b, AggHyp QC g := fun g hg => hct g (by simp [aggsGE, hg])
        have hdone' : DeclsDoneA C.N ((compGE B nm a n).decls ++ (compGE B nm b (compGE B nm a n).next).decls) s.env := by
          simpa [compGE] using hdone
        have hta : HasTy va (tyGE a) := by
          obtain ⟨_, _, _, _, h, _⟩ := compGE_correct_tok C QC hN hev B hB nm hinj hres hcollT a n s va htk.1
            (fun d hd => hdone' d (by simp [hd])) hwa hcta hda
          exact h
        have htb : HasTy vb (tyGE b) := by
          obtain ⟨_, _, _, _, h, _⟩ := compGE_correct_tok C QC hN hev B hB nm hinj hres hcollT b (compGE B nm a n).next s vb htk.2
            (fun d hd => hdone' d (by simp [hd])) hwb hctb hdb
          exact h
        obtain ⟨s2, hex, hrows, hva, hvb, hfr⟩ := compGE_seq C B nm hinj hres a b n s va vb hdone'
          (fun hd => by
            obtain ⟨s1, h1, h2, h3, _, h5⟩ := compGE_correct_tok C QC hN hev B hB nm hinj hres hcollT a n s va htk.1 hd hwa hcta hda
            exact ⟨s1, h1, h2, h3, h5⟩)
          (fun s1 hd => by
            obtain ⟨s2, h1, h2, h3, _, h5⟩ := compGE_correct_tok C QC hN hev B hB nm hinj hres hcollT b _ s1 vb htk.2 hd hwb hctb hdb
            exact ⟨s2, h1, h2, h3, h5⟩)
        rw [hN] at hden
        refine ⟨s2, by simpa [compGE] using hex, hrows, ?_, ?_, by simpa [compGE] using hfr⟩
        · simp only [compGE]
          rw [evalE_bin_arith _ _ _ (cop_not_logic op).1 (cop_not_logic op).2]
          simp only [hva, hvb]; exact hden
        · simpa [tyGE] using cmp_num C.N op va vb _ _ hta htb hna hnb v hden
  | .neg a, n, s, v, htk, hdone, hwt, hct, hden => by
    simp only [wtGE, Bool.and_eq_true] at hwt
    simp only [geQ, denote] at hden
    cases hda : denote QC [("e", evtVal)] (geQ "e" a) with
    | error e => rw [hda] at hden; simp at hden
    | ok va =>
      rw [hda, hN] at hden
      simp only [] at hden
      obtain ⟨s1, h1, h2, h3, h4, h5⟩ := compGE_correct_tok C QC hN hev B hB nm hinj hres hcollT a n s va htk
        (by simpa [compGE] using hdone) hwt.1 (fun g hg => hct g (by simpa [aggsGE] using hg)) hda
      refine ⟨s1, by simpa [compGE] using h1, h2, by simp [compGE, evalE, h3, hden], ?_, by simpa [compGE] using h5⟩
      simp only [tyGE]
      rcases hasTy_num h4 hwt.2 with ⟨k, rfl, ht⟩ | ⟨y, rfl, ht⟩
      · simp [unop] at hden; subst hden; simp [ht, HasTy]
      · simp [unop] at hden; subst hden; rcases ht with h | h <;> simp [h, HasTy]
  | .not a, n, s, v, htk, hdone, hwt, hct, hden => by
    simp only [wtGE, Bool.and_eq_true, beq_iff_eq] at hwt
    simp only [geQ, denote] at hden
    cases hda : denote QC [("e", evtVal)] (geQ "e" a) with
    | error e => rw [hda] at hden; simp at hden
    | ok va =>
      rw [hda, hN] at hden
      simp only [] at hden
      obtain ⟨s1, h1, h2, h3, h4, h5⟩ := compGE_correct_tok C QC hN hev B hB nm hinj hres hcollT a n s va htk
        (by simpa [compGE] using hdone) hwt.1 (fun g hg => hct g (by simpa [aggsGE] using hg)) hda
      refine ⟨s1, by simpa [compGE] using h1, h2, by simp [compGE, evalE, h3, hden], ?_, by simpa [compGE] using h5⟩
      simp only [tyGE]
      rw [hwt.2] at h4
      obtain ⟨b, rfl⟩ := hasTy_bool h4
      simp [unop, asBool] at hden; subst hden; simp [HasTy]

/-- **event-level scalar expressions over general aggregates** (retrieval by bank name) -/
theorem compGE_correct (C : Ctx D) (QC : QCtx D) (hN : QC.N = C.N) (hev : QC.ev = C.ev)
    (B : Backend) (hB : BackendOK B) (nm : Nat → String)
    (hinj : ∀ i j, nm i = nm j → i = j) (hres : ∀ j, nm j ≠ "result")
    (hcollT : ∀ name, B.collType name = QC.collType name)
    (e : GE) (n : Nat) (s : St D) (v : Val D)
    (hdone : DeclsDoneA C.N (compGE B nm e n).decls s.env)
    (hwt : wtGE e = true) (hct : ∀ g ∈ aggsGE e, AggHyp QC g)
    (hden : denote QC [("e", evtVal)] (geQ "e" e) = .ok v) :
    ∃ s', execs C (compGE B nm e n).stmts s = .ok s' ∧ s'.rows = s.rows ∧
      evalE C.N s'.env (compGE B nm e n).val = .ok v ∧ HasTy v (tyGE e) ∧
      (∀ y, ¬ Touch nm n (compGE B nm e n).next y → s'.env y = s.env y) :=
  compGE_correct_tok C QC hN hev B hB.base nm hinj hres hcollT e n s v (tokGE_of_notToken hB.notToken nm C e n) hdone hwt hct hden

end FaxVerif.Gen
