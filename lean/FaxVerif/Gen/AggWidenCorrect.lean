/-
Gen — correctness of one WIDENED aggregate (int seed, floating body, `accOK`, ≥ 1 kept element):
the emitted loop leaves the very value the query denotes. See Gen/AggWiden.lean.
-/
import FaxVerif.Gen.AggWiden
namespace FaxVerif.Gen
open FaxVerif.Cpp FaxVerif.Linq
variable {D : Type}

/-- the emitted loop against a fold over an arbitrary state `β`, the C++ accumulator related to the
fold's state by `R` (generalises `agg_loop`, where `R b c` is `b = c ∧ I b`) -/
theorem agg_loopG {β : Type} (C : Ctx D) (QC : QCtx D) (hN : QC.N = C.N) (hev : QC.ev = C.ev)
    (B : Backend) (hB : BackendBase B) (nm : Nat → String)
    (hinj : ∀ i j, nm i = nm j → i = j) (hres : ∀ j, nm j ≠ "result")
    (hcollT : ∀ name, B.collType name = QC.collType name)
    (g : Agg) (n : Nat) (htok : TokChain B nm C g.c (n + 1)) (s : St D) (ws : List (Val D)) (c0 : Val D) (b0 bf : β)
    (hx : (s.env (nm (n + 1))).isSome = true)
    (hacc : s.env (nm n) = some (.val c0))
    (hwtS : wtSteps none g.c.steps = true) (hmt : AggTyped QC g)
    (hchain : denote QC [("e", evtVal)] (chainQ "e" g.c) = .ok (.vec ws))
    (g2 : β → Val D → Except Fault β) (R : β → Val D → Prop) (hR0 : R b0 c0)
    (hstep : ∀ (σ : Env D) (b b' : β) (c w v0 : Val D), R b c → σ (nm n) = some (.val c) → g2 b w = .ok b' →
        evalE C.N σ (stepConds B.elemPtr (.var (nm (n + 1 + 1))) none g.c.steps).2.1 = .ok w →
        (∀ t, chainTy none g.c.steps = some t → HasTy w t) →
        (chainTy none g.c.steps = none → w = v0 ∧ MethTyped v0 (methsAE g.body)) →
        ∃ e c', aggUpdate B.elemPtr g (nm n) (stepConds B.elemPtr (.var (nm (n + 1 + 1))) none g.c.steps).2.1
                (stepConds B.elemPtr (.var (nm (n + 1 + 1))) none g.c.steps).2.2 = .set (nm n) e ∧
              evalE C.N σ e = .ok c' ∧ R b' c')
    (hfold : foldG g2 ws b0 = .ok bf) :
    ∃ s' cf, execs C (compAgg B nm g n).stmts s = .ok s' ∧ s'.rows = s.rows ∧
      evalE C.N s'.env (compAgg B nm g n).val = .ok cf ∧ R bf cf ∧
      (∀ y, ¬ Touch nm n (compAgg B nm g n).next y → s'.env y = s.env y) := by
  obtain ⟨cty, l, hct, hfind, hel⟩ := chainQ_ok QC _ "e" g.c ws hchain
  let K : CExpr → Option Ty → List Stmt := fun cur ty => [aggUpdate B.elemPtr g (nm n) cur ty]
  have hnext := compChain_next B nm g.c (n + 1) K
  let Pinv : St D → β → Prop := fun u b => (∃ c, u.env (nm n) = some (.val c) ∧ R b c) ∧ u.rows = s.rows ∧
    ∀ y, ¬ Touch nm n (compChain B nm g.c (n + 1) K).next y → u.env y = s.env y
  have haccT : ¬ Touch nm (n + 1) (compChain B nm g.c (n + 1) K).next (nm n) := by
    rintro (⟨j, h1, _, h3⟩ | h)
    · have := hinj _ _ h3; omega
    · exact hres n h
  obtain ⟨s', hex, hP'⟩ := compChain_correct_tok (β := β) C QC hN B hB nm hinj hres g.c (n + 1) htok K cty l ws
    (by rw [hcollT]; exact hct) (by rw [← hev]; exact hfind) hwtS (fun v hv => (hmt cty l hfind v hv).1) Pinv
    g2 (fun v => MethTyped v (methsAE g.body)) (fun v hv => (hmt cty l hfind v hv).2)
    (by
      intro u u' b hPu hr hfr
      obtain ⟨⟨c, hc, hRc⟩, hrows, hfrm⟩ := hPu
      refine ⟨⟨c, by rw [hfr _ haccT]; exact hc, hRc⟩, by rw [hr]; exact hrows, fun y hy => ?_⟩
      rw [hfr y (not_touch_sub hy (by omega) (Nat.le_refl _))]; exact hfrm y hy)
    (by
      intro u b b' w v0 hPu hg hevw htyw hobj
      obtain ⟨⟨c, hc, hRc⟩, hrows, hfrm⟩ := hPu
      obtain ⟨e, c', he, hee, hR'⟩ := hstep u.env b b' c w v0 hRc hc hg hevw
        (fun t ht => htyw t (by rw [stepConds_ty]; exact ht)) (fun hn => hobj (by rw [stepConds_ty]; exact hn))
      refine ⟨{ u with env := u.env.set (nm n) c' }, ?_, ⟨c', by simp [Env.set], hR'⟩, hrows, ?_⟩
      · simp only [K, he, execs, exec, hc, hee]
      · intro y hy
        have : y ≠ nm n := fun e => hy (Or.inl ⟨n, Nat.le_refl n, by omega, e⟩)
        simp only [Env.set, this, if_false]; exact hfrm y hy)
    s b0 bf hx hel hfold ⟨⟨c0, hacc, hR0⟩, rfl, fun _ _ => rfl⟩
  obtain ⟨⟨cf, hcf, hRf⟩, hrows, hfrm⟩ := hP'
  refine ⟨s', cf, by simpa [compAgg] using hex, hrows, ?_, hRf, ?_⟩
  · simp [compAgg, evalE, hcf]
  · simpa [compAgg] using hfrm

/-- Python's accumulator (with the flag "at least one element seen") against the C++ one -/
def WidenR (N : Num D) (k : Int) : Val D × Bool → Val D → Prop
  | (a, false), c => a = .int k ∧ c = .dbl (N.ofInt k)
  | (a, true), c => a = c ∧ ∃ y, a = .dbl y

/-- the user-level step, remembering that an element was seen -/
def stepFlag (QC : QCtx D) (g : Agg) (ab : Val D × Bool) (w : Val D) : Except Fault (Val D × Bool) :=
  match aggStep QC g ab.1 w with
  | .ok a' => .ok (a', true)
  | .error e => .error e

theorem foldG_flag (QC : QCtx D) (g : Agg) : ∀ (ws : List (Val D)) (a : Val D) (b : Bool) (v : Val D),
    foldG (aggStep QC g) ws a = .ok v → foldG (stepFlag QC g) ws (a, b) = .ok (v, b || !ws.isEmpty)
  | [], a, b, v, h => by
    simp only [foldG, Except.ok.injEq] at h; subst h; simp [foldG]
  | w :: ws, a, b, v, h => by
    simp only [foldG] at h ⊢
    cases hs : aggStep QC g a w with
    | error e => rw [hs] at h; simp at h
    | ok a' =>
      rw [hs] at h
      simp only [stepFlag, hs]
      rw [foldG_flag QC g ws a' true v h]
      simp

theorem join_int_fl (t : Ty) (h : t.isFloating = true) : Ty.join .int t = t := by
  cases t <;> simp [Ty.isFloating] at h <;> rfl

/-- one execution of the emitted update statement performs one step of the fold, whichever side of
the widening the accumulators are on -/
theorem aggUpdate_step_widen (C : Ctx D) (QC : QCtx D) (hN : QC.N = C.N) (ptr : Bool)
    (ch : Chain) (k : Nat) (f : AE) (accV : String)
    (hwtB : wtAE .int (chainTy none ch.steps) f = true)
    (hfl : (Agg.mk ch (.int k) f).bodyTy.isFloating = true)
    (hok : accOK (curT (chainTy none ch.steps)) f = true)
    (σ : Env D) (cur : CExpr) (cty : Option Ty) (hcty : cty = chainTy none ch.steps)
    (ab ab' : Val D × Bool) (c w v0 : Val D) (hR : WidenR C.N k ab c) (hσ : σ accV = some (.val c))
    (hg : stepFlag QC (Agg.mk ch (.int k) f) ab w = .ok ab') (hevw : evalE C.N σ cur = .ok w)
    (htyw : ∀ t, chainTy none ch.steps = some t → HasTy w t)
    (hobj : chainTy none ch.steps = none → w = v0 ∧ MethTyped v0 (methsAE f)) :
    ∃ e c', aggUpdate ptr (Agg.mk ch (.int k) f) accV cur cty = .set accV e ∧ evalE C.N σ e = .ok c' ∧
      WidenR C.N k ab' c' := by
  subst hcty
  have hmw : MethTyped w (methsAE f) := by
    cases hc : chainTy none ch.steps with
    | none => obtain ⟨rfl, h⟩ := hobj hc; exact h
    | some t => exact methTyped_of_hasTy (htyw t hc) _
  have hbT : (tyAE .int ((chainTy none ch.steps).getD .double) f).isFloating = true := hfl
  have hupd : aggUpdate ptr (Agg.mk ch (.int k) f) accV cur (chainTy none ch.steps) =
      .set accV (compAE (ptr && (chainTy none ch.steps).isNone) (.var accV) cur .int ((chainTy none ch.steps).getD .double) f) := by
    have hj := join_int_fl _ hbT
    simp only [aggUpdate, Seed.ty, hj, if_true]
  obtain ⟨a, b⟩ := ab
  simp only [stepFlag] at hg
  cases hs : aggStep QC (Agg.mk ch (.int k) f) a w with
  | error e => rw [hs] at hg; simp at hg
  | ok a' =>
    rw [hs] at hg
    simp only [Except.ok.injEq] at hg
    subst hg
    have hs' : denote QC [(elemName, w), (accName, a), ("e", evtVal)] (aeQ accName elemName f) = .ok a' := hs
    refine ⟨_, a', hupd, ?_, ?_⟩
    · cases b with
      | false =>
        obtain ⟨rfl, rfl⟩ := hR
        have hwide := ae_correct_wide QC σ (.var accV) cur (chainTy none ch.steps) (ptr && (chainTy none ch.steps).isNone)
          (QC.N.ofInt k) w accName elemName (by decide) [("e", evtVal)] (by rw [hN]; simp [evalE, hσ]) (by rw [hN]; exact hevw) htyw f hwtB hmw
        have hins := accStep_insensitive QC (chainTy none ch.steps) k w accName elemName (by decide) [("e", evtVal)] htyw f hwtB hok hmw
        rw [← hN]
        have := hwide.1
        simp only [curT] at this
        rw [this, ← hins]; exact hs'
      | true =>
        obtain ⟨rfl, y, rfl⟩ := hR
        have hwide := ae_correct_wide QC σ (.var accV) cur (chainTy none ch.steps) (ptr && (chainTy none ch.steps).isNone)
          y w accName elemName (by decide) [("e", evtVal)] (by rw [hN]; simp [evalE, hσ]) (by rw [hN]; exact hevw) htyw f hwtB hmw
        rw [← hN]
        have := hwide.1
        simp only [curT] at this
        rw [this]; exact hs'
    · refine ⟨rfl, ?_⟩
      cases b with
      | false =>
        obtain ⟨rfl, rfl⟩ := hR
        have := ae_typed_int QC (chainTy none ch.steps) k w accName elemName (by decide) [("e", evtVal)] htyw f hwtB hmw a' hs'
        exact hasTy_fl this hbT
      | true =>
        obtain ⟨rfl, y, rfl⟩ := hR
        have hwide := ae_correct_wide QC σ (.var accV) cur (chainTy none ch.steps) (ptr && (chainTy none ch.steps).isNone)
          y w accName elemName (by decide) [("e", evtVal)] (by rw [hN]; simp [evalE, hσ]) (by rw [hN]; exact hevw) htyw f hwtB hmw
        exact hasTyW_fl (hwide.2 a' hs') hbT

/-- **one widened aggregate: the loop is the fold**, over at least one kept element -/
theorem agg_widen_fold_correct (C : Ctx D) (QC : QCtx D) (hN : QC.N = C.N) (hev : QC.ev = C.ev)
    (B : Backend) (hB : BackendBase B) (nm : Nat → String)
    (hinj : ∀ i j, nm i = nm j → i = j) (hres : ∀ j, nm j ≠ "result")
    (hcollT : ∀ name, B.collType name = QC.collType name)
    (g : Agg) (n : Nat) (htok : TokChain B nm C g.c (n + 1)) (s : St D) (ws : List (Val D)) (v : Val D)
    (hdone : DeclsDoneA C.N (compAgg B nm g n).decls s.env)
    (hwt : wtAggBase g = true) (hwd : aggWiden g = true) (hmt : AggTyped QC g)
    (hchain : denote QC [("e", evtVal)] (chainQ "e" g.c) = .ok (.vec ws)) (hne : ws ≠ [])
    (hfold : foldG (aggStep QC g) ws (g.seed.val QC.N) = .ok v) :
    ∃ s', execs C (compAgg B nm g n).stmts s = .ok s' ∧ s'.rows = s.rows ∧
      evalE C.N s'.env (compAgg B nm g n).val = .ok v ∧ HasTy v g.accTy ∧
      (∀ y, ¬ Touch nm n (compAgg B nm g n).next y → s'.env y = s.env y) := by
  obtain ⟨ch, sd, f⟩ := g
  simp only [aggWiden, Bool.and_eq_true] at hwd
  obtain ⟨⟨hsd, hfl⟩, hok⟩ := hwd
  cases sd with
  | dbl m e => simp [Seed.isNatLit] at hsd
  | nint k => simp [Seed.isNatLit] at hsd
  | ndbl m e => simp [Seed.isNatLit] at hsd
  | int k =>
    simp only [wtAggBase, Bool.and_eq_true] at hwt
    obtain ⟨⟨hwtS, hwtB⟩, _⟩ := hwt
    have haT : (Agg.mk ch (.int k) f).accTy = (Agg.mk ch (.int k) f).bodyTy := join_int_fl _ hfl
    have hacc : s.env (nm n) = some (.val (.dbl (C.N.ofInt k))) := by
      have := hdone (.decl (Agg.mk ch (.int k) f).accTy.cpp (nm n) (some (Seed.int k).cexpr)) (by simp [compAgg])
      rw [haT] at this
      have hi : initValA C.N (Agg.mk ch (.int k) f).bodyTy.cpp (Seed.int k).cexpr = .dbl (C.N.ofInt k) := by
        revert hfl
        cases (Agg.mk ch (.int k) f).bodyTy <;> simp [Ty.isFloating, initValA, litOfA, Seed.cexpr, Ty.cpp, castTo, asD]
      simpa [DeclOKA, hi] using this
    have hx : (s.env (nm (n + 1))).isSome = true := by
      have := hdone (.decl (B.handleTy ((B.collType ch.coll).getD "?")) (nm (n + 1)) none) (by simp [compAgg, compChain])
      simpa [DeclOKA] using this
    have hfold2 := foldG_flag QC (Agg.mk ch (.int k) f) ws (.int k) false v hfold
    have hwsne : (false || !ws.isEmpty) = true := by cases ws <;> simp at hne ⊢
    rw [hwsne] at hfold2
    obtain ⟨s', cf, h1, h2, h3, hR, h5⟩ := agg_loopG (β := Val D × Bool) C QC hN hev B hB nm hinj hres hcollT (Agg.mk ch (.int k) f) n htok s ws
      (.dbl (C.N.ofInt k)) (.int k, false) (v, true) hx hacc hwtS hmt hchain
      (stepFlag QC (Agg.mk ch (.int k) f)) (WidenR C.N k) ⟨rfl, rfl⟩
      (fun σ b b' c w v0 hRb hσ hg hevw htyw hobj =>
        aggUpdate_step_widen C QC hN B.elemPtr ch k f (nm n) hwtB hfl hok σ _ _ (stepConds_ty _ _ _ _) b b' c w v0 hRb hσ hg hevw htyw hobj)
      hfold2
    obtain ⟨rfl, y, rfl⟩ := hR
    refine ⟨s', h1, h2, h3, ?_, h5⟩
    rw [haT]
    revert hfl
    cases (Agg.mk ch (.int k) f).bodyTy <;> simp [Ty.isFloating, HasTy]

end FaxVerif.Gen
