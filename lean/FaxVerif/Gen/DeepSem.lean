/-
Gen — the QUERY side of the arbitrary-depth fragment (`Gen/Deep.lean`): what the embedded inner chain
`x.m().Where(c₁)…Where(cₙ)[.Select(f)]` denotes, element-at-a-time:
  * `condsSemD`   an element is kept iff the conditions hold, evaluated in order, stopping at the first false one;
  * `selSemD`     what a kept element becomes;
  * `dchainQ_ok`  the list-at-a-time denotation (nested `filterE`s, then `mapE`) of the embedded chain is the
                  element-at-a-time one: `keepE` of the conjunction, then `mapE` of the `Select`.
The lambdas are arbitrary `DE` (they are only `denote`d here): nothing in this file depends on the depth.
-/
import FaxVerif.Gen.Deep
import FaxVerif.Gen.NestedExprCorrect
namespace FaxVerif.Gen
open FaxVerif.Cpp FaxVerif.Linq
variable {D : Type}

/-- filter by a Boolean-valued partial predicate -/
def keepE (f : Val D → Except Fault Bool) : List (Val D) → Except Fault (List (Val D))
  | [] => .ok []
  | v :: vs => match f v with
    | .error e => .error e
    | .ok b => match keepE f vs with
      | .error e => .error e
      | .ok rs => .ok (if b then v :: rs else rs)

/-- the Boolean a `Where` predicate's value stands for -/
def predB (N : Num D) (r : Except Fault (Val D)) : Except Fault Bool :=
  match r with
  | .error e => .error e
  | .ok w => match asBool N w with
    | none => .error (.typeErr "Where predicate")
    | some b => .ok b

theorem filterE_eq_keepE (N : Num D) (f : Val D → Except Fault (Val D)) :
    ∀ l, filterE N f l = keepE (fun v => predB N (f v)) l
  | [] => rfl
  | v :: vs => by
    rw [filterE, keepE, filterE_eq_keepE N f vs]
    cases hfv : f v with
    | error e => simp only [predB]
    | ok r =>
      simp only [predB]
      cases asBool N r <;> rfl

/-- filtering by `f`, then by `g`, is filtering by "`f` and then `g`" -/
def andThenB (f g : Val D → Except Fault Bool) : Val D → Except Fault Bool := fun v =>
  match f v with
  | .error e => .error e
  | .ok false => .ok false
  | .ok true => g v

theorem keepE_comp (f g : Val D → Except Fault Bool) : ∀ (l r1 r2 : List (Val D)),
    keepE f l = .ok r1 → keepE g r1 = .ok r2 → keepE (andThenB f g) l = .ok r2
  | [], r1, r2, h1, h2 => by
    simp only [keepE, Except.ok.injEq] at h1; subst h1
    simpa [keepE] using h2
  | v :: vs, r1, r2, h1, h2 => by
    simp only [keepE] at h1
    cases hf : f v with
    | error e => rw [hf] at h1; simp at h1
    | ok b =>
      rw [hf] at h1; simp only [] at h1
      cases hr : keepE f vs with
      | error e => rw [hr] at h1; simp at h1
      | ok rs =>
        rw [hr] at h1; simp only [Except.ok.injEq] at h1; subst h1
        cases b with
        | false =>
          simp only [Bool.false_eq_true, if_false] at h2
          have ih := keepE_comp f g vs rs r2 hr h2
          simp only [keepE, andThenB, hf]
          rw [ih]; rfl
        | true =>
          simp only [if_true, keepE] at h2
          cases hg : g v with
          | error e => rw [hg] at h2; simp at h2
          | ok b2 =>
            rw [hg] at h2; simp only [] at h2
            cases hr2 : keepE g rs with
            | error e => rw [hr2] at h2; simp at h2
            | ok rs2 =>
              rw [hr2] at h2; simp only [Except.ok.injEq] at h2; subst h2
              have ih := keepE_comp f g vs rs rs2 hr hr2
              simp only [keepE, andThenB, hf, hg]
              rw [ih]

theorem keepE_true : ∀ l : List (Val D), keepE (fun _ => (.ok true : Except Fault Bool)) l = .ok l
  | [] => rfl
  | v :: vs => by simp [keepE, keepE_true vs]

theorem mapE_ok : ∀ l : List (Val D), mapE (fun u => (.ok u : Except Fault (Val D))) l = .ok l
  | [] => rfl
  | v :: vs => by simp [mapE, mapE_ok vs]

/-- the inner element `u` (bound to `x`, outer environment `ρ`) passes the conditions -/
def condsSemD (QC : QCtx D) (d : Nat) (x : String) (ρ : LEnv D) : DConds → Val D → Except Fault Bool
  | .nil => fun _ => .ok true
  | .snoc init c => andThenB (condsSemD QC d x ρ init) (fun u => predB QC.N (denote QC ((x, u) :: ρ) (deQ d x c)))

/-- what a kept inner element becomes -/
def selSemD (QC : QCtx D) (d : Nat) (x : String) (ρ : LEnv D) : DOpt → Val D → Except Fault (Val D)
  | .none => fun u => .ok u
  | .some f => fun u => denote QC ((x, u) :: ρ) (deQ d x f)

/-- a chain of `Where`s over a source denotes a list only if the source does -/
theorem dcondsQ_src (QC : QCtx D) (ρ : LEnv D) (d : Nat) (src : Query) : ∀ (whrs : DConds) (r : List (Val D)),
    denote QC ρ (dcondsQ d src whrs) = .ok (.vec r) → ∃ l, denote QC ρ src = .ok (.vec l)
  | .nil, r, h => ⟨r, by simpa [dcondsQ] using h⟩
  | .snoc init c, r, h => by
    simp only [dcondsQ, denote] at h
    cases hs : denote QC ρ (dcondsQ d src init) with
    | error e => rw [hs] at h; simp at h
    | ok sv =>
      cases sv with
      | vec l1 => exact dcondsQ_src QC ρ d src init l1 hs
      | _ => rw [hs] at h; simp at h

/-- **the `Where`s of an inner chain, element-at-a-time** -/
theorem dcondsQ_denote (QC : QCtx D) (ρ : LEnv D) (d : Nat) (src : Query) (l : List (Val D))
    (hsrc : denote QC ρ src = .ok (.vec l)) : ∀ (whrs : DConds) (r : List (Val D)),
    denote QC ρ (dcondsQ d src whrs) = .ok (.vec r) → keepE (condsSemD QC (d + 1) (deepVar d) ρ whrs) l = .ok r
  | .nil, r, h => by
    simp only [dcondsQ, hsrc, Except.ok.injEq, Val.vec.injEq] at h; subst h
    exact keepE_true l
  | .snoc init c, r, h => by
    simp only [dcondsQ, denote] at h
    cases hs : denote QC ρ (dcondsQ d src init) with
    | error e => rw [hs] at h; simp at h
    | ok sv =>
      cases sv with
      | vec l1 =>
        rw [hs] at h
        simp only [] at h
        have ih := dcondsQ_denote QC ρ d src l hsrc init l1 hs
        cases hf : filterE QC.N (fun v => denote QC ((deepVar d, v) :: ρ) (deQ (d + 1) (deepVar d) c)) l1 with
        | error e => rw [hf] at h; simp at h
        | ok r' =>
          rw [hf] at h
          simp only [Except.ok.injEq, Val.vec.injEq] at h; subst h
          rw [filterE_eq_keepE] at hf
          exact keepE_comp _ _ l l1 r' ih hf
      | _ => rw [hs] at h; simp at h

/-- **the embedded inner chain, element-at-a-time**: the method returns a list `l`; the conditions keep `r` of
it; the `Select` maps `r` to the value -/
theorem dchainQ_ok (QC : QCtx D) (d : Nat) (x : String) (v : Val D) (ρ : LEnv D) (m : String) (elem : Option Ty)
    (whrs : DConds) (sel : DOpt) (ws : List (Val D))
    (h : denote QC ((x, v) :: ρ) (dchainQ d x (.mk m elem whrs sel)) = .ok (.vec ws)) :
    ∃ l r, member v m [] = .ok (.vec l) ∧
      keepE (condsSemD QC (d + 1) (deepVar d) ((x, v) :: ρ) whrs) l = .ok r ∧
      mapE (selSemD QC (d + 1) (deepVar d) ((x, v) :: ρ) sel) r = .ok ws := by
  have hsrc0 : denote QC ((x, v) :: ρ) (.meth (.var x) m) = member v m [] := by simp [denote, LEnv.get]
  simp only [dchainQ] at h
  cases sel with
  | none =>
    simp only [dselQ] at h
    obtain ⟨l, hl⟩ := dcondsQ_src QC _ d _ whrs ws h
    refine ⟨l, ws, by rw [← hsrc0]; exact hl, dcondsQ_denote QC _ d _ l hl whrs ws h, ?_⟩
    simp only [selSemD]; exact mapE_ok ws
  | some f =>
    simp only [dselQ, denote] at h
    cases hs : denote QC ((x, v) :: ρ) (dcondsQ d (.meth (.var x) m) whrs) with
    | error e => rw [hs] at h; simp at h
    | ok sv =>
      cases sv with
      | vec r =>
        rw [hs] at h
        simp only [] at h
        obtain ⟨l, hl⟩ := dcondsQ_src QC _ d _ whrs r hs
        refine ⟨l, r, by rw [← hsrc0]; exact hl, dcondsQ_denote QC _ d _ l hl whrs r hs, ?_⟩
        simp only [selSemD]
        cases hm : mapE (fun u => denote QC ((deepVar d, u) :: (x, v) :: ρ) (deQ (d + 1) (deepVar d) f)) r with
        | error e => rw [hm] at h; simp at h
        | ok r' => rw [hm] at h; simp only [Except.ok.injEq, Val.vec.injEq] at h; subst h; rfl
      | _ => rw [hs] at h; simp at h

end FaxVerif.Gen
