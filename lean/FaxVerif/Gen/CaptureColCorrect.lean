/-
Gen — ONE event-level column of the captured-variable fragment: `e.Coll(bank).Where*.Select(y → body)` where the body
iterates ANOTHER event collection with the outer element `y` in scope:
  (a) `body` = an expression with captured aggregates → `col.push_back(value)` per kept outer element;
  (b) `body` = a captured chain (2-D column)           → handle variable and `std::vector<T> ntuple;` declared in the
      outer loop body (so the storage vector is EMPTY again for every outer element), retrieval, the inner loop pushing
      into it, `col.push_back(ntuple)`.
`PushSpecT` is `PushSpec` of Gen/NestedColCorrect.lean for continuations that also touch `result` (the inner retrieval
block) and need a token condition; `pushColT_correct` is the outer loop.
-/
import FaxVerif.Gen.CaptureXECorrect
import FaxVerif.Gen.NestedColCorrect
namespace FaxVerif.Gen
open FaxVerif.Cpp FaxVerif.Linq
variable {D : Type}

/-- the continuation `k` computes, from the current outer element `v`, the value `f v` and appends it to the vector
variable `col`; it touches `col`, `result` and its own fresh names only; `T cur m`: what it needs of the token table -/
def PushSpecT (C : Ctx D) (nm : Nat → String) (col : String) (k : KN) (f : Val D → Except Fault (Val D))
    (Q : Val D → Prop) (T : CExpr → Nat → Prop) : Prop :=
  ∀ (cur : CExpr) (m : Nat) (s : St D) (v u : Val D) (a : List (Val D)),
    (∀ y ∈ vars cur, (∀ j, m ≤ j → y ≠ nm j) ∧ y ≠ col ∧ y ≠ "result") → T cur m →
    evalE C.N s.env cur = .ok v → Q v → s.env col = some (.val (.vec a)) → f v = .ok u →
    ∃ s', execs C (k cur none m).1 s = .ok s' ∧ s'.rows = s.rows ∧ s'.env col = some (.val (.vec (a ++ [u]))) ∧
      (∀ y, y ≠ col → ¬ Touch nm m (k cur none m).2 y → s'.env y = s.env y)


/-- the bank a captured chain ranges over holds a collection whenever it exists -/
def BankIsVecC (QC : QCtx D) (c : CChain) : Prop := ∀ cty content, QC.ev.find c.bank = some (cty, content) → ∃ l, content = .vec l

/-- **one event-level column over an outer chain** — retrieval, the outer loop, and per kept outer element
the continuation appending its value: afterwards the column variable holds exactly the list the query's
`Select` denotes. -/
theorem pushColT_correct (C : Ctx D) (QC : QCtx D) (hN : QC.N = C.N) (hev : QC.ev = C.ev)
    (B : Backend) (hB : BackendBase B) (nm : Nat → String)
    (hinj : ∀ i j, nm i = nm j → i = j) (hres : ∀ j, nm j ≠ "result")
    (hcollT : ∀ name, B.collType name = QC.collType name)
    (c : Chain) (hwo : wtOuter c = true) (n : Nat) (htok : TokChain B nm C c n)
    (col : String) (hcol : ∀ j, nm j ≠ col) (hcolres : col ≠ "result")
    (k : KN) (f : Val D → Except Fault (Val D)) (Q : Val D → Prop) (T : CExpr → Nat → Prop) (hspec : PushSpecT C nm col k f Q T)
    (hT : T (stepConds B.elemPtr (.var (nm (n + 1))) none c.steps).2.1 (outerNext B nm c n))
    (hkge : ∀ cur m, m ≤ (k cur none m).2)
    (y : String) (body : Query) (hf : ∀ w, f w = denote QC [(y, w), ("e", evtVal)] body)
    (hct : ChainTyped QC c) (hQ : ∀ cty l, QC.ev.find c.bank = some (cty, .vec l) → ∀ v ∈ l, Q v)
    (s : St D) (hx : (s.env (nm n)).isSome = true) (hpre : s.env col = some (.val (.vec [])))
    (val : Val D) (hden : denote QC [("e", evtVal)] (.select (chainQ "e" c) y body) = .ok val) :
    ∃ us s', val = .vec us ∧ execs C (compChainN B nm c n k).stmts s = .ok s' ∧ s'.rows = s.rows ∧
      s'.env col = some (.val (.vec us)) ∧
      (∀ z, z ≠ col → ¬ Touch nm n (compChainN B nm c n k).next z → s'.env z = s.env z) := by
  rw [denote_select] at hden
  cases hc : denote QC [("e", evtVal)] (chainQ "e" c) with
  | error e => rw [hc] at hden; simp at hden
  | ok cv =>
    rw [hc] at hden
    cases cv with
    | vec ws =>
      simp only [] at hden
      cases hm : mapE (fun v => denote QC [(y, v), ("e", evtVal)] body) ws with
      | error e => rw [hm] at hden; simp at hden
      | ok us =>
        rw [hm] at hden
        simp only [Except.ok.injEq] at hden; subst hden
        have hm' : mapE f ws = .ok us := by rw [← hm]; exact mapE_congr _ _ hf ws
        obtain ⟨cty, l, hcty, hfind, hel⟩ := chainQ_ok QC _ "e" c ws hc
        let m := outerNext B nm c n
        let K : CExpr → Option Ty → List Stmt := fun cur ty => (k cur ty m).1
        have hm3 : n + 3 ≤ m := outerNext_ge B nm c n
        have htynone := wtOuter_ty hwo B.elemPtr (.var (nm (n + 1)))
        have hnextK : (compChain B nm c n K).next = m := compChain_next_eq B nm c n K
        have hNEXT := compChainN_next B nm c n k hwo
        have hmN : m ≤ (compChainN B nm c n k).next := by rw [hNEXT]; exact hkge _ _
        let Pinv : St D → List (Val D) → Prop := fun t a => t.env col = some (.val (.vec a)) ∧ t.rows = s.rows ∧
          ∀ z, z ≠ col → ¬ Touch nm n (compChainN B nm c n k).next z → t.env z = s.env z
        have hcolT : ∀ lo hi, ¬ Touch nm lo hi col := by
          intro lo hi
          rintro (⟨j, _, _, h⟩ | h)
          · exact hcol j h.symm
          · exact hcolres h
        obtain ⟨s', hex, hP'⟩ := compChain_correct_tok (β := List (Val D)) C QC hN B hB nm hinj hres c n htok K cty l ws
          (by rw [hcollT]; exact hcty) (by rw [← hev]; exact hfind) (wtOuter_steps hwo) (hct cty l hfind) Pinv
          (fun a w => match f w with
            | .ok u => .ok (a ++ [u])
            | .error e => .error e) Q (hQ cty l hfind)
          (by
            intro t t' b hPt hr hfr
            refine ⟨by rw [hfr _ (hcolT _ _)]; exact hPt.1, by rw [hr]; exact hPt.2.1, fun z hz1 hz2 => ?_⟩
            rw [hfr z (by rw [hnextK]; exact not_touch_sub hz2 (Nat.le_refl _) hmN)]; exact hPt.2.2 z hz1 hz2)
          (by
            intro t b b' w v0 hPt hg hevw _ hobj
            obtain ⟨rfl, hq⟩ := hobj htynone
            cases hfw : f w with
            | error e => rw [hfw] at hg; simp at hg
            | ok u =>
              rw [hfw] at hg; simp only [Except.ok.injEq] at hg; subst hg
              obtain ⟨t', hex', hr', hcol', hfr'⟩ := hspec (stepConds B.elemPtr (.var (nm (n + 1))) none c.steps).2.1 m t w u b
                (by
                  intro z hz
                  have := outerCur_vars B nm c n z hz
                  rw [this]
                  exact ⟨fun j hj e => by have := hinj _ _ e; omega, hcol _, hres _⟩)
                hT hevw hq hPt.1 hfw
              refine ⟨t', ?_, hcol', by rw [hr']; exact hPt.2.1, fun z hz1 hz2 => ?_⟩
              · simp only [K]; rw [htynone]; exact hex'
              · rw [hfr' z hz1 (fun h => hz2 (h.elim (fun h => Or.inl (by
                  rw [hNEXT]; exact h.mono (by omega) (Nat.le_refl _))) Or.inr))]
                exact hPt.2.2 z hz1 hz2)
          s [] ([] ++ us) hx hel (foldG_mapE f ws us [] hm') ⟨hpre, rfl, fun _ _ _ => rfl⟩
        refine ⟨us, s', rfl, hex, hP'.2.1, by simpa using hP'.1, hP'.2.2⟩
    | _ => simp at hden


/-! ## (a) a value with captured aggregates -/

theorem caggK_next_ge (B : Backend) (nm : Nat → String) (col : String) (e : XE) (cur : CExpr) (ty : Option Ty) (m : Nat) :
    m ≤ (caggK B nm col e cur ty m).2 := by
  simp only [caggK]; exact compXE_next_ge B nm _ cur e m

theorem caggK_pushSpec (C : Ctx D) (QC : QCtx D) (hN : QC.N = C.N) (hev : QC.ev = C.ev)
    (B : Backend) (hB : BackendBase B) (nm : Nat → String)
    (hinj : ∀ i j, nm i = nm j → i = j) (hres : ∀ j, nm j ≠ "result")
    (hcollT : ∀ name, B.collType name = QC.collType name)
    (col : String) (hcol : ∀ j, nm j ≠ col) (hcolres : col ≠ "result") (e : XE) (hwt : wtXE e = true) (ρ : LEnv D) :
    PushSpecT C nm col (caggK B nm col e) (fun v => denote QC (("y", v) :: ρ) (xeQ "e" "y" e)) (fun v => XEHyp QC v e)
      (fun cur m => TokXE B nm C (B.elemPtr && (none : Option Ty).isNone) cur e m) := by
  intro cur m s v u a hcv htk hcur hQ hcolv hf
  obtain ⟨s1, hex1, hr1, hv1, _, hf1⟩ := compXE_block_correct C QC hN hev B hB nm hinj hres hcollT
    (B.elemPtr && (none : Option Ty).isNone) cur v ρ e m s u htk
    (fun z hz => ⟨(hcv z hz).1, (hcv z hz).2.2⟩) hcur hwt hQ hf
  have hcol1 : s1.env col = some (.val (.vec a)) := by
    rw [hf1 col (by
      rintro (⟨j, _, _, hj⟩ | h)
      · exact hcol j hj.symm
      · exact hcolres h)]
    exact hcolv
  refine ⟨{ s1 with env := s1.env.set col (.vec (a ++ [u])) }, ?_, hr1, by simp [Env.set], ?_⟩
  · simp only [caggK]
    rw [execs_append, hex1]
    simp only [execs, exec_push_ok C s1 col _ a u hcol1 hv1]
  · intro z hz hzr
    simp only [Env.set, hz, if_false]
    exact hf1 z (by simpa [caggK] using hzr)

/-! ## (b) a captured chain: the 2-D column -/

theorem ctwoDK_next_ge (B : Backend) (nm : Nat → String) (col : String) (ic : CChain) (cur : CExpr) (ty : Option Ty) (m : Nat) :
    m ≤ (ctwoDK B nm col ic cur ty m).2 := by
  have := ccompChain_next B nm (B.elemPtr && ty.isNone) cur ic (m + 1) (pushK (nm m))
  simp only [ctwoDK]; omega

/-- what the embedded captured chain denotes when the bank holds a list: a list, element-at-a-time -/
theorem cchainQ_vec (QC : QCtx D) (ρ : LEnv D) (vo : Val D) (hy : ρ.get "y" = some vo) (ic : CChain) (u : Val D)
    (hvec : BankIsVecC QC ic) (h : denote QC ρ (cchainQ "e" "y" ic) = .ok u) : ∃ ws, u = .vec ws := by
  unfold cchainQ at h
  cases hs : denote QC ρ (.coll (.var "e") ic.coll ic.bank) with
  | error e => rw [cstepsQ_error QC ρ "y" e ic.steps _ hs] at h; simp at h
  | ok content =>
    have hcv : ∃ l, content = .vec l := by
      simp only [denote] at hs
      cases hev : ρ.get "e" with
      | none => rw [hev] at hs; simp at hs
      | some evv =>
        rw [hev] at hs; simp only [] at hs
        cases hf : QC.ev.find ic.bank with
        | none => rw [hf] at hs; simp at hs
        | some p =>
          obtain ⟨have_, cont⟩ := p
          rw [hf] at hs; simp only [] at hs
          cases hct : QC.collType ic.coll with
          | none => rw [hct] at hs; simp at hs
          | some want =>
            rw [hct] at hs; simp only [] at hs
            by_cases hw : want = have_
            · simp only [hw, if_true, Except.ok.injEq] at hs
              subst hs
              exact hvec _ _ hf
            · simp [hw] at hs
    obtain ⟨l, rfl⟩ := hcv
    rw [cstepsQ_denote QC ρ vo hy ic.steps _ l hs] at h
    cases hcl : cchainList QC vo ic.steps l with
    | error e => rw [hcl] at h; simp at h
    | ok r => rw [hcl] at h; simp only [Except.ok.injEq] at h; exact ⟨r, h.symm⟩

theorem ctwoDK_pushSpec (C : Ctx D) (QC : QCtx D) (hN : QC.N = C.N) (hev : QC.ev = C.ev)
    (B : Backend) (hB : BackendBase B) (nm : Nat → String)
    (hinj : ∀ i j, nm i = nm j → i = j) (hres : ∀ j, nm j ≠ "result")
    (hcollT : ∀ name, B.collType name = QC.collType name)
    (col : String) (hcol : ∀ j, nm j ≠ col) (hcolres : col ≠ "result") (ic : CChain) (hwt : wtCChain ic = true)
    (hct : CChainTyped QC ic) (hbv : BankIsVecC QC ic) (ρ : LEnv D) :
    PushSpecT C nm col (ctwoDK B nm col ic) (fun v => denote QC (("y", v) :: ρ) (cchainQ "e" "y" ic))
      (fun v => MethTyped v (omethsCSteps ic.steps))
      (fun _ m => TokCChain B nm C ic (m + 1)) := by
  intro cur m s v u a hcv htk hcur hQ hcolv hf
  obtain ⟨ws, rfl⟩ := cchainQ_vec QC _ v (by simp [LEnv.get]) ic u hbv hf
  obtain ⟨cty, l, hcty, hfind, hel⟩ := cchainQ_ok QC _ "e" v (by simp [LEnv.get]) ic ws hf
  obtain ⟨optr, hoptr⟩ : ∃ p, p = (B.elemPtr && (none : Option Ty).isNone) := ⟨_, rfl⟩
  let K := pushK (nm m)
  have hnext := ccompChain_next B nm optr cur ic (m + 1) K
  have hofr : ∀ y ∈ vars cur, (∀ j, m ≤ j → y ≠ nm j) ∧ y ≠ "result" := fun z hz => ⟨(hcv z hz).1, (hcv z hz).2.2⟩
  -- the two declarations: the handle variable, then the storage vector (empty again for this outer element)
  let hty := B.handleTy ((B.collType ic.coll).getD "?")
  let σ0 : Env D := (s.env.declare (nm (m + 1))).set (nm m) (.vec [])
  have hdecls : execs C [.decl hty (nm (m + 1)) none, .decl (vecTy ((cchainTy none ic.steps).getD .double).cpp) (nm m) none] s =
      .ok ⟨σ0, s.rows⟩ := by
    simp only [execs, exec, hty, hB.handleNotVec, isVecType_vecTy, if_true, σ0]
    simp
  have hne01 : nm m ≠ nm (m + 1) := fun e => by have := hinj _ _ e; omega
  have hfr0 : ∀ y, ¬ Touch nm m (ccompChain B nm optr cur ic (m + 1) K).next y → σ0 y = s.env y := by
    intro y hy
    have h1 : y ≠ nm m := fun e => hy (Or.inl ⟨m, Nat.le_refl m, by omega, e⟩)
    have h2 : y ≠ nm (m + 1) := fun e => hy (Or.inl ⟨m + 1, by omega, by omega, e⟩)
    simp [σ0, Env.set, Env.declare, h1, h2]
  have hcur0 : evalE C.N σ0 cur = .ok v := by
    rw [evalE_ocur_frame C.N nm cur m m _ s.env σ0 hofr (Nat.le_refl _) hfr0]; exact hcur
  have hntT : ¬ Touch nm (m + 1) (ccompChain B nm optr cur ic (m + 1) K).next (nm m) := by
    rintro (⟨j, h1, _, h3⟩ | h)
    · have := hinj _ _ h3; omega
    · exact hres m h
  let Pinv : St D → List (Val D) → Prop := fun t b => t.env (nm m) = some (.val (.vec b)) ∧ t.rows = s.rows ∧
    ∀ z, ¬ Touch nm m (ccompChain B nm optr cur ic (m + 1) K).next z → t.env z = s.env z
  obtain ⟨s1, hex1, hP1⟩ := ccompChain_correct (β := List (Val D)) C QC hN B hB nm hinj hres optr cur v (m + 1)
    (fun y hy => ⟨fun j hj => (hofr y hy).1 j (by omega), (hofr y hy).2⟩) ic htk K cty l ws
    (by rw [hcollT]; exact hcty) (by rw [← hev]; exact hfind) (wtCChain_steps hwt) (hct cty l hfind) hQ Pinv
    (fun b w => .ok (b ++ [w])) (fun _ => True) (fun _ _ => trivial)
    (by
      intro t b hPt
      rw [evalE_ocur_frame C.N nm cur m m _ s.env t.env hofr (Nat.le_refl _) hPt.2.2]; exact hcur)
    (by
      intro t t' b hPt hr hfr
      refine ⟨by rw [hfr _ hntT]; exact hPt.1, by rw [hr]; exact hPt.2.1, fun z hz => ?_⟩
      rw [hfr z (not_touch_sub hz (by omega) (Nat.le_refl _))]; exact hPt.2.2 z hz)
    (by
      intro t b b' w v0 hPt hg hevw _ _
      simp only [Except.ok.injEq] at hg; subst hg
      refine ⟨{ t with env := t.env.set (nm m) (.vec (b ++ [w])) }, ?_, by simp [Env.set], hPt.2.1, ?_⟩
      · simp only [K, pushK, execs, exec_push_ok C t (nm m) _ b w hPt.1 hevw]
      · intro z hz
        have : z ≠ nm m := fun e => hz (Or.inl ⟨m, Nat.le_refl m, by omega, e⟩)
        simp only [Env.set, this, if_false]; exact hPt.2.2 z hz)
    ⟨σ0, s.rows⟩ [] ([] ++ ws) (by simp [σ0, Env.set, Env.declare, hne01.symm]) hel (foldG_push ws [])
    ⟨by simp [σ0, Env.set], rfl, hfr0⟩
  have hcol1 : s1.env col = some (.val (.vec a)) := by
    rw [hP1.2.2 col (by
      rintro (⟨j, _, _, hj⟩ | h)
      · exact hcol j hj.symm
      · exact hcolres h)]
    exact hcolv
  have hnt1 : evalE C.N s1.env (.var (nm m)) = .ok (.vec ws) := by
    simp only [evalE, hP1.1, List.nil_append]
  refine ⟨{ s1 with env := s1.env.set col (.vec (a ++ [.vec ws])) }, ?_, hP1.2.1, by simp [Env.set], ?_⟩
  · simp only [ctwoDK, ← hoptr]
    have hsplit : (ccompChain B nm optr cur ic (m + 1) (pushK (nm m))).decls ++
        [.decl (vecTy ((cchainTy none ic.steps).getD .double).cpp) (nm m) none] =
        [.decl hty (nm (m + 1)) none, .decl (vecTy ((cchainTy none ic.steps).getD .double).cpp) (nm m) none] := by
      simp [ccompChain, hty]
    rw [hsplit, execs_append, execs_append, hdecls]
    simp only []
    rw [hex1]
    simp only [execs, exec_push_ok C s1 col _ a _ hcol1 hnt1]
  · intro z hz hzr
    simp only [Env.set, hz, if_false]
    apply hP1.2.2 z
    simp only [ctwoDK, ← hoptr] at hzr
    exact hzr

end FaxVerif.Gen
