/-
Gen — side conditions of the F0-lite correctness theorems: static well-typedness of the query
(decidable) and the assumption that the event data model returns values of the declared kinds.
-/
import FaxVerif.Gen.Lite
namespace FaxVerif.Gen
open FaxVerif.Cpp FaxVerif.Linq
variable {D : Type}

def Ty.isNum : Ty → Bool
  | .bool => false
  | _ => true

/-- a value is of the kind a declared type promises (`float` and `double` are both floating) -/
def HasTy : Val D → Ty → Prop
  | .int _, .int => True
  | .dbl _, .float => True
  | .dbl _, .double => True
  | .bool _, .bool => True
  | _, _ => False

def curT (cur : Option Ty) : Ty := cur.getD .double

/-- static well-typedness of a pure expression: `cur = none` means the current value is an object -/
def wtPE (cur : Option Ty) : PE → Bool
  | .int _ => true
  | .dbl _ _ => true
  | .bool _ => true
  | .it => cur.isSome
  | .meth _ _ => cur.isNone
  | .bin _ a b => wtPE cur a && wtPE cur b && (tyPE (curT cur) a).isNum && (tyPE (curT cur) b).isNum
  | .cmp _ a b => wtPE cur a && wtPE cur b && (tyPE (curT cur) a).isNum && (tyPE (curT cur) b).isNum
  | .neg a => wtPE cur a && (tyPE (curT cur) a).isNum
  | .not a => wtPE cur a && (tyPE (curT cur) a == .bool)

def methsPE : PE → List (String × Ty)
  | .meth n t => [(n, t)]
  | .bin _ a b => methsPE a ++ methsPE b
  | .cmp _ a b => methsPE a ++ methsPE b
  | .neg a => methsPE a
  | .not a => methsPE a
  | _ => []

/-- the element `v` returns, for every method the expression calls, a value of the declared kind -/
def MethTyped (v : Val D) (ms : List (String × Ty)) : Prop :=
  ∀ p ∈ ms, ∀ w, member v p.1 [] = .ok w → HasTy w p.2

end FaxVerif.Gen

namespace FaxVerif.Gen
open FaxVerif.Cpp FaxVerif.Linq
variable {D : Type}

def wtSteps : Option Ty → List Step → Bool
  | _, [] => true
  | t, .sel f :: rest => wtPE t f && wtSteps (some (tyPE (curT t) f)) rest
  | t, .whr c :: rest => wtPE t c && (tyPE (curT t) c == .bool) && wtSteps t rest

def methsSteps : List Step → List (String × Ty)
  | [] => []
  | .sel f :: rest => methsPE f ++ methsSteps rest
  | .whr c :: rest => methsPE c ++ methsSteps rest

/-- the meaning of a pure expression applied to a value (the lambda's parameter name is immaterial) -/
def peSem (C : QCtx D) (v : Val D) (pe : PE) : Except Fault (Val D) := denote C [("x", v)] (peQ "x" pe)

/-- what one element becomes going through the steps: dropped (`none`), a value, or a fault -/
def elemSem (C : QCtx D) : List Step → Val D → Except Fault (Option (Val D))
  | [], v => .ok (some v)
  | .sel f :: rest, v => match peSem C v f with
    | .error e => .error e
    | .ok w => elemSem C rest w
  | .whr c :: rest, v => match peSem C v c with
    | .error e => .error e
    | .ok r => match asBool C.N r with
      | none => .error (.typeErr "Where predicate")
      | some true => elemSem C rest v
      | some false => .ok none

/-- element-at-a-time meaning of a chain over a list of elements -/
def elemsSem (C : QCtx D) (steps : List Step) : List (Val D) → Except Fault (List (Val D))
  | [] => .ok []
  | v :: vs => match elemSem C steps v with
    | .error e => .error e
    | .ok o => match elemsSem C steps vs with
      | .error e => .error e
      | .ok rs => .ok (o.toList ++ rs)

end FaxVerif.Gen
