/-
Gen — the schema predicate `C03.SchemaOk` holds of what the translator model emits (lemmas; the property
theorems are in `C03/TheoremsGen.lean`).

Part 1: the general shape lemma `schemaOk_of` (a package whose class variables are the token table followed
by the column variables `cn 0, cn 1, …`, whose branches are the names zipped with those variables, whose
body writes every column variable and fills exactly the booked tree satisfies all eight conjuncts of
`SchemaOk`), and `writes` / `fills` of the code `Gen.compile` emits (one-loop fragment, both query shapes).
-/
import FaxVerif.C03.Theorems
import FaxVerif.Gen.NestedEventRowsCorrect
import FaxVerif.Gen.LazyElemRowsCorrect
namespace FaxVerif.Gen
open FaxVerif.Cpp FaxVerif.Linq FaxVerif.C03

/-! ## `writes` / `fills` of lists -/

theorem writesL_append : ∀ (a b : List Stmt), writesL (a ++ b) = writesL a ++ writesL b
  | [], b => by simp [writesL]
  | s :: a, b => by simp [writesL, writesL_append a b]

theorem fillsL_append : ∀ (a b : List Stmt), fillsL (a ++ b) = fillsL a ++ fillsL b
  | [], b => by simp [fillsL]
  | s :: a, b => by simp [fillsL, fillsL_append a b]

/-! ## the general shape lemma -/

theorem lookupTy_skip : ∀ (a b : List (String × String)) (v : String), v ∉ a.map (·.2) →
    lookupTy (a ++ b) v = lookupTy b v
  | [], _, _, _ => rfl
  | (t, n) :: a, b, v, h => by
    simp only [List.map_cons, List.mem_cons, not_or] at h
    have hne : ¬ n = v := fun e => h.1 e.symm
    simp only [List.cons_append, lookupTy, hne, if_false]
    exact lookupTy_skip a b v h.2

theorem lookupTy_self : ∀ (cvs : List (String × String)), (cvs.map (·.2)).Nodup →
    cvs.map (fun p => lookupTy cvs p.2) = cvs.map (fun p => some p.1)
  | [], _ => rfl
  | (t, n) :: rest, h => by
    simp only [List.map_cons, List.nodup_cons] at h
    simp only [List.map_cons, lookupTy, if_true]
    congr 1
    rw [← lookupTy_self rest h.2]
    apply List.map_congr_left
    intro p hp
    have hne : ¬ n = p.2 := fun e => h.1 (e ▸ List.mem_map.2 ⟨p, hp, rfl⟩)
    simp only [hne, if_false]

/-- the shape shared by every `compile*`: token table then column variables; branches = names ⋈ variables -/
theorem schemaOk_of (P : Package) (nm cn : Nat → String) (names types : List String) (fillArg : String)
    (cvs : List (String × String)) (T : String × String × String → String)
    (hcv : P.classVars = P.tokens.map (fun t => (T t, t.1)) ++ cvs)
    (hbr : P.branches = names.zip (cvs.map (·.2)))
    (hlen : names.length = cvs.length)
    (hvars : cvs.map (·.2) = colNames cn cvs.length 0)
    (htys : cvs.map (·.1) = types)
    (hinj : ∀ i j, cn i = cn j → i = j)
    (htok : ∀ t ∈ P.tokens, ∃ j, t.1 = nm j)
    (hdisj : ∀ j k, nm j ≠ cn k)
    (hw : ∀ v ∈ cvs.map (·.2), v ∈ writes P.body)
    (hf1 : fills P.body ≠ [])
    (hf2 : ∀ t ∈ fills P.body, t = fillArg) : SchemaOk P names types fillArg = true := by
  have hb1 : P.branches.map (·.1) = names := by rw [hbr]; exact List.map_fst_zip (by simp [hlen])
  have hb2 : P.branches.map (·.2) = cvs.map (·.2) := by rw [hbr]; exact List.map_snd_zip (by simp [hlen])
  have hnd : (cvs.map (·.2)).Nodup := by rw [hvars]; exact colNames_nodup cn hinj _ 0
  have hnot : ∀ v ∈ cvs.map (·.2), v ∉ (P.tokens.map (fun t => (T t, t.1))).map (·.2) := by
    intro v hv hm
    rw [hvars] at hv
    obtain ⟨k, _, _, rfl⟩ := C03.mem_colNames cn _ _ _ hv
    simp only [List.map_map, List.mem_map, Function.comp] at hm
    obtain ⟨t, ht, he⟩ := hm
    obtain ⟨j, hj⟩ := htok t ht
    exact hdisj j k (by rw [← hj, he])
  unfold SchemaOk
  simp only [Bool.and_eq_true, beq_iff_eq, decide_eq_true_eq, List.all_eq_true, Bool.or_eq_true,
    List.contains_iff_mem, Bool.not_eq_eq_eq_not, Bool.not_true, List.isEmpty_eq_false_iff]
  refine ⟨⟨⟨⟨⟨⟨⟨hb1, ?_⟩, ?_⟩, ?_⟩, ?_⟩, ?_⟩, hf1⟩, hf2⟩
  · rw [hb2]; exact hnd
  · have : P.branches.map (fun b => lookupTy P.classVars b.2) = (cvs.map (·.2)).map (lookupTy P.classVars) := by
      rw [← hb2, List.map_map]; rfl
    rw [this, hcv, ← htys, List.map_map, List.map_map]
    have h2 : cvs.map (some ∘ fun x => x.1) = cvs.map (fun p => lookupTy cvs p.2) := (lookupTy_self cvs hnd).symm
    rw [h2]
    apply List.map_congr_left
    intro p hp
    exact lookupTy_skip _ _ _ (hnot _ (List.mem_map.2 ⟨p, hp, rfl⟩))
  · rw [hb2, hcv, List.map_append, List.filter_append]
    have h0 : ((P.tokens.map (fun t => (T t, t.1))).map (·.2)).filter (fun v => (cvs.map (·.2)).contains v) = [] := by
      rw [List.filter_eq_nil_iff]
      intro a ha hc
      exact hnot a (List.contains_iff_mem.1 hc) ha
    rw [h0, List.nil_append]
    exact hnd.sublist List.filter_sublist
  · intro b hb
    apply hw
    rw [← hb2]; exact List.mem_map.2 ⟨b, hb, rfl⟩
  · intro w _
    by_cases hc : w ∈ P.classVars.map (·.2)
    · rw [hcv, List.map_append, List.mem_append] at hc
      rcases hc with hc | hc
      · right
        simpa [List.map_map, Function.comp] using hc
      · left; right; rw [hb2]; exact hc
    · left; left
      cases hcc : (P.classVars.map (·.2)).contains w
      · rfl
      · exact absurd (List.contains_iff_mem.1 hcc) hc

/-! ## `fills` / `writes` of the code of one chain -/

theorem andLower_fills (nm : Nat → String) : ∀ (cs : List CExpr) (n : Nat),
    fillsL (andLower nm cs n).decls = [] ∧ fillsL (andLower nm cs n).stmts = []
  | [], n => by simp [andLower, fillsL]
  | [c], n => by simp [andLower, fillsL]
  | c :: c2 :: rest, n => by
    have ih := andLower_fills nm (c2 :: rest) (n + 1)
    simp [andLower, fillsL, fills, fillsL_append, ih]

/-- the loop body of a chain fills exactly where its continuation fills -/
theorem chainBodyT_fills (nm : Nat → String) (ptr : Bool) (it : CExpr) (curTy : Option Ty) (steps : List Step) (n : Nat)
    (k : CExpr → Option Ty → List Stmt) :
    fillsL (chainBodyT nm ptr it curTy steps n k).1 =
      fillsL (k (stepConds ptr it curTy steps).2.1 (stepConds ptr it curTy steps).2.2) := by
  unfold chainBodyT
  cases h : (stepConds ptr it curTy steps).1 with
  | nil => simp [h]
  | cons c cs =>
    simp only [h]
    obtain ⟨h1, h2⟩ := andLower_fills nm (c :: cs).reverse n
    simp only [fillsL_append, h1, h2, fillsL, fills, List.nil_append, List.append_nil]

/-- the loop body of a chain writes whatever its continuation writes -/
theorem chainBodyT_writes (nm : Nat → String) (ptr : Bool) (it : CExpr) (curTy : Option Ty) (steps : List Step) (n : Nat)
    (k : CExpr → Option Ty → List Stmt) (v : String)
    (hv : v ∈ writesL (k (stepConds ptr it curTy steps).2.1 (stepConds ptr it curTy steps).2.2)) :
    v ∈ writesL (chainBodyT nm ptr it curTy steps n k).1 := by
  unfold chainBodyT
  cases h : (stepConds ptr it curTy steps).1 with
  | nil => simpa [h] using hv
  | cons c cs =>
    simp only [h]
    simp only [writesL_append, writesL, writes, List.mem_append, List.append_nil]
    exact .inr hv

/-- the final value and element type the continuation of `compChain … c n` receives -/
def chainVal (B : Backend) (nm : Nat → String) (c : Chain) (n : Nat) : CExpr × Option Ty :=
  (stepConds B.elemPtr (.var (nm (n + 1))) none c.steps).2

theorem compChain_fills (B : Backend) (nm : Nat → String) (c : Chain) (n : Nat) (k : CExpr → Option Ty → List Stmt) :
    fillsL (compChain B nm c n k).decls = [] ∧
    fillsL (compChain B nm c n k).stmts = fillsL (k (chainVal B nm c n).1 (chainVal B nm c n).2) := by
  have h := chainBodyT_fills nm B.elemPtr (.var (nm (n + 1))) none c.steps (n + 3) k
  rw [chainBodyT_none] at h
  simp [compChain, fillsL, fills, h, chainVal]

theorem compChain_writes (B : Backend) (nm : Nat → String) (c : Chain) (n : Nat) (k : CExpr → Option Ty → List Stmt)
    (v : String) (hv : v ∈ writesL (k (chainVal B nm c n).1 (chainVal B nm c n).2)) :
    v ∈ writesL (compChain B nm c n k).stmts := by
  have h := chainBodyT_writes nm B.elemPtr (.var (nm (n + 1))) none c.steps (n + 3) k v hv
  rw [chainBodyT_none] at h
  simp only [compChain, writesL, writes, List.mem_append, List.append_nil]
  exact .inr h

/-! ## event-level rows -/

theorem compEE_fills (B : Backend) (nm : Nat → String) : ∀ (e : EE) (n : Nat),
    fillsL (compEE B nm e n).decls = [] ∧ fillsL (compEE B nm e n).stmts = []
  | .int _, _ => by simp [compEE, fillsL]
  | .dbl _ _, _ => by simp [compEE, fillsL]
  | .bool _, _ => by simp [compEE, fillsL]
  | .count c, n => by
    have h := compChain_fills B nm c (n + 1) (fun _ _ => [.set (nm n) (.bin "+" (.var (nm n)) (.int 1))])
    simp [compEE, fillsL_append, h, fillsL, fills]
  | .sum c, n => by
    have h := compChain_fills B nm c (n + 1) (fun cur _ => [.set (nm n) (.bin "+" (.var (nm n)) cur)])
    simp [compEE, fillsL_append, h, fillsL, fills]
  | .bin op a b, n => by
    have ha := compEE_fills B nm a n
    have hb := compEE_fills B nm b (compEE B nm a n).next
    simp [compEE, fillsL_append, ha, hb]
  | .cmp op a b, n => by
    have ha := compEE_fills B nm a n
    have hb := compEE_fills B nm b (compEE B nm a n).next
    simp [compEE, fillsL_append, ha, hb]
  | .neg a, n => by simpa [compEE] using compEE_fills B nm a n
  | .not a, n => by simpa [compEE] using compEE_fills B nm a n

theorem compCol_fills (B : Backend) (nm cn : Nat → String) (idx : Nat) (col : Col) (n : Nat) :
    fillsL (compCol B nm cn idx col n).decls = [] ∧ fillsL (compCol B nm cn idx col n).stmts = [] ∧
    fillsL (compCol B nm cn idx col n).sets = [] ∧ fillsL (compCol B nm cn idx col n).clears = [] := by
  cases col with
  | scalar e =>
    have h := compEE_fills B nm e n
    simp [compCol, h, fillsL, fills]
  | seq c =>
    have h := compChain_fills B nm c n (fun cur _ => [.push (cn idx) cur])
    simp [compCol, h, fillsL, fills]
  | first c =>
    have h := compChain_fills B nm c (n + 1)
      (fun cur _ => [.ite (.var (nm n)) [.set (nm n) (.bool false), .set (cn idx) cur] []])
    simp [compCol, h, fillsL, fills, fillsL_append]

/-- every column writes its own class-level variable: the scalar assignment, the vector's clear,
the guarded capture of `First()` inside the loop -/
theorem compCol_writes (B : Backend) (nm cn : Nat → String) (idx : Nat) (col : Col) (n : Nat) :
    cn idx ∈ writesL (compCol B nm cn idx col n).stmts ++ writesL (compCol B nm cn idx col n).sets ++
      writesL (compCol B nm cn idx col n).clears := by
  cases col with
  | scalar e => simp [compCol, writesL, writes]
  | seq c => simp [compCol, writesL, writes]
  | first c =>
    have h := compChain_writes B nm c (n + 1)
      (fun cur _ => [.ite (.var (nm n)) [.set (nm n) (.bool false), .set (cn idx) cur] []]) (cn idx)
      (by simp [writesL, writes])
    simp only [compCol, writesL_append, List.mem_append]
    exact .inl (.inl (.inl h))

theorem compCols_fills (B : Backend) (nm cn : Nat → String) : ∀ (cols : List Col) (idx n : Nat),
    fillsL ((compCols B nm cn cols idx n).flatMap (·.decls)) = [] ∧ fillsL ((compCols B nm cn cols idx n).flatMap (·.stmts)) = [] ∧
    fillsL ((compCols B nm cn cols idx n).flatMap (·.sets)) = [] ∧ fillsL ((compCols B nm cn cols idx n).flatMap (·.clears)) = []
  | [], _, _ => by simp [compCols, fillsL]
  | c :: cs, idx, n => by
    have h := compCol_fills B nm cn idx c n
    have ih := compCols_fills B nm cn cs (idx + 1) (compCol B nm cn idx c n).next
    simp [compCols, fillsL_append, h, ih]

theorem compCols_writes (B : Backend) (nm cn : Nat → String) : ∀ (cols : List Col) (idx n : Nat),
    ∀ v ∈ colNames cn cols.length idx,
      v ∈ writesL ((compCols B nm cn cols idx n).flatMap (·.stmts)) ++ writesL ((compCols B nm cn cols idx n).flatMap (·.sets)) ++
        writesL ((compCols B nm cn cols idx n).flatMap (·.clears))
  | [], _, _, v, hv => by simp [colNames] at hv
  | c :: cs, idx, n, v, hv => by
    simp only [List.length_cons, colNames, List.mem_cons] at hv
    simp only [compCols, List.flatMap_cons, writesL_append, List.mem_append]
    rcases hv with rfl | hv
    · have h := compCol_writes B nm cn idx c n
      simp only [List.mem_append] at h
      rcases h with (h | h) | h
      · exact .inl (.inl (.inl h))
      · exact .inl (.inr (.inl h))
      · exact .inr (.inl h)
    · have h := compCols_writes B nm cn cs (idx + 1) (compCol B nm cn idx c n).next v hv
      simp only [List.mem_append] at h
      rcases h with (h | h) | h
      · exact .inl (.inl (.inr h))
      · exact .inl (.inr (.inr h))
      · exact .inr (.inr h)

/-! ## element-level rows -/

theorem setCols_fills (cn : Nat → String) (ptr : Bool) (cur : CExpr) (ty : Option Ty) : ∀ (pes : List PE) (idx : Nat),
    fillsL (setCols cn ptr cur ty pes idx) = []
  | [], _ => rfl
  | pe :: rest, idx => by simp [setCols, fillsL, fills, setCols_fills cn ptr cur ty rest (idx + 1)]

theorem setCols_writes (cn : Nat → String) (ptr : Bool) (cur : CExpr) (ty : Option Ty) : ∀ (pes : List PE) (idx : Nat),
    writesL (setCols cn ptr cur ty pes idx) = colNames cn pes.length idx
  | [], _ => rfl
  | pe :: rest, idx => by simp [setCols, writesL, writes, colNames, setCols_writes cn ptr cur ty rest (idx + 1)]

/-! ## the model's column types -/

/-- the C++ type `compile` declares for a column of an event-level row -/
def Col.cppTy : Col → String
  | .scalar e => (tyEE e).cpp
  | .seq c => "std::vector<" ++ ((chainTy none c.steps).getD .double).cpp ++ ">"
  | .first c => ((chainTy none c.steps).getD .double).cpp

/-- the C++ types of the columns `compile` declares, in column order -/
def FQ.types : FQ → List String
  | .eventRows cols => cols.map fun p => p.2.cppTy
  | .elemRows c cols => cols.map fun p => (tyPE ((chainTy none c.steps).getD .double) p.2).cpp

theorem compCols_types (B : Backend) (nm cn : Nat → String) : ∀ (cols : List Col) (idx n : Nat),
    (compCols B nm cn cols idx n).map (·.classVar.1) = cols.map Col.cppTy
  | [], _, _ => rfl
  | c :: cs, idx, n => by
    simp only [compCols, List.map_cons, compCols_types B nm cn cs]
    cases c <;> rfl

theorem compCols_cv_vars (B : Backend) (nm cn : Nat → String) (cols : List Col) (idx n : Nat) :
    ((compCols B nm cn cols idx n).map (·.classVar)).map (·.2) = colNames cn cols.length idx := by
  rw [List.map_map]; exact C03.compCols_vars B nm cn cols idx n

theorem compCols_cv_types (B : Backend) (nm cn : Nat → String) (cols : List Col) (idx n : Nat) :
    ((compCols B nm cn cols idx n).map (·.classVar)).map (·.1) = cols.map Col.cppTy := by
  rw [List.map_map]; exact compCols_types B nm cn cols idx n

/-! ## `SchemaOk` of `compile` -/

theorem schemaOk_compile_eventRows (B : Backend) (nm cn : Nat → String)
    (hcinj : ∀ i j, cn i = cn j → i = j) (hdisj : ∀ j k, nm j ≠ cn k) (cols : List (String × Col)) :
    SchemaOk (compile B nm cn (.eventRows cols)) (cols.map (·.1)) (FQ.types (.eventRows cols)) (B.fillTree B.treeName) = true := by
  have hl : (compCols B nm cn (cols.map (·.2)) 0 0).length = cols.length := by simp [C03.compCols_length]
  have hf := compCols_fills B nm cn (cols.map (·.2)) 0 0
  apply schemaOk_of _ nm cn _ _ _ ((compCols B nm cn (cols.map (·.2)) 0 0).map (·.classVar))
    (fun t => "edm::EDGetTokenT<" ++ t.2.1 ++ ">")
  · rfl
  · simp only [compile, List.map_map]; rfl
  · simp [hl]
  · rw [compCols_cv_vars]; simp [hl]
  · rw [compCols_cv_types]; simp [FQ.types, List.map_map]
  · exact hcinj
  · exact tokens_names_eventRows B nm cn cols
  · exact hdisj
  · intro v hv
    rw [compCols_cv_vars] at hv
    have h := compCols_writes B nm cn (cols.map (·.2)) 0 0 v hv
    simp only [List.mem_append] at h
    simp only [compile, writes, writesL_append, List.mem_append]
    rcases h with (h | h) | h
    · exact .inl (.inl (.inl (.inr h)))
    · exact .inl (.inl (.inr h))
    · exact .inr h
  · simp [compile, fills, fillsL_append, fillsL]
  · intro t ht
    simpa [compile, fills, fillsL_append, fillsL, hf] using ht

theorem schemaOk_compile_elemRows (B : Backend) (nm cn : Nat → String)
    (hcinj : ∀ i j, cn i = cn j → i = j) (hdisj : ∀ j k, nm j ≠ cn k) (c : Chain) (cols : List (String × PE)) :
    SchemaOk (compile B nm cn (.elemRows c cols)) (cols.map (·.1)) (FQ.types (.elemRows c cols)) (B.fillTree B.treeName) = true := by
  have hn := colVars_names cn (chainTy none c.steps) (cols.map (·.2)) 0
  have hl : (colVars cn (chainTy none c.steps) (cols.map (·.2)) 0).length = cols.length := by
    have := congrArg List.length hn
    simpa [colNames_length] using this
  have hf := compChain_fills B nm c 0
    (fun cur ty => setCols cn B.elemPtr cur ty (cols.map (·.2)) 0 ++ [.fill (B.fillTree B.treeName)])
  apply schemaOk_of _ nm cn _ _ _ (colVars cn (chainTy none c.steps) (cols.map (·.2)) 0)
    (fun t => "edm::EDGetTokenT<" ++ t.2.1 ++ ">")
  · rfl
  · rfl
  · simp [hl]
  · rw [hn, hl]; simp
  · rw [C03.elem_col_types]; simp [FQ.types, List.map_map]
  · exact hcinj
  · exact tokens_names_elemRows B nm cn c cols
  · exact hdisj
  · intro v hv
    rw [hn] at hv
    simp only [compile, writes, writesL_append, List.mem_append]
    refine .inr (compChain_writes B nm c 0 _ v ?_)
    simp only [writesL_append, List.mem_append, setCols_writes]
    exact .inl hv
  · simp [compile, fills, fillsL_append, hf, fillsL]
  · intro t ht
    simpa [compile, fills, fillsL_append, hf, fillsL, setCols_fills] using ht

end FaxVerif.Gen
