/-
Driver of `First()` over a projection with a lazy value (`Gen/FirstLazy.lean`): JSON lines.
  {"op":"firstL","backend":b,"colls":[{"name","type","elem"}],"name":label,"c":CHAINL,"v":LE,"events":[..]}
    -> the model's package as text (`Gen.compileFirstL`), the model's own exec / denote(firstLTopQuery) on the
       events, "wt": the query is inside the proved fragment (`wtFirstL`)
  LE / CHAINL as in Gen/LazyDriver.lean.
Run: lake env lean --run FaxVerif/Gen/FirstLazyDriver.lean
-/
import FaxVerif.Cpp.Json
import FaxVerif.Gen.Render
import FaxVerif.Gen.FirstLazy
open Lean FaxVerif.Cpp FaxVerif.Linq FaxVerif.Gen

partial def decLE (j : Json) : Except String LE := do
  let k ← jstr j "k"
  match k with
  | "int" => pure (.int (← jint j "v").toNat)
  | "dbl" => let (m, e) ← decDbl j; pure (.dbl m e)
  | "bool" => pure (.bool (← (← j.getObjVal? "v").getBool?))
  | "it" => pure .it
  | "meth" => pure (.meth (← jstr j "n") (decTy (← jstr j "ty")))
  | "bin" => pure (.bin (← decAOp (← jstr j "op")) (← decLE (← j.getObjVal? "a")) (← decLE (← j.getObjVal? "b")))
  | "cmp" => pure (.cmp (← decCOp (← jstr j "op")) (← decLE (← j.getObjVal? "a")) (← decLE (← j.getObjVal? "b")))
  | "neg" => pure (.neg (← decLE (← j.getObjVal? "a")))
  | "not" => pure (.not (← decLE (← j.getObjVal? "a")))
  | "and" | "or" =>
    let xs ← (← jarr j "xs").mapM decLE
    match xs with
    | [] => throw "empty BoolOp"
    | a :: rest => pure (.bop (if k = "and" then .and else .or) a rest)
  | "if" => pure (.ite (← decLE (← j.getObjVal? "c")) (← decLE (← j.getObjVal? "a")) (← decLE (← j.getObjVal? "b")))
  | o => throw s!"LE {o}"

def decChainL (j : Json) : Except String ChainL := do
  let steps ← (← jarr j "steps").mapM fun s => do
    let k ← jstr s "k"
    if k = "sel" then pure (StepL.sel (← decPE (← s.getObjVal? "e"))) else pure (StepL.whr (← decLE (← s.getObjVal? "e")))
  pure { coll := (← jstr j "coll"), bank := (← jstr j "bank"), steps := steps }

def rowsJsonL (rows : List (List (Val Float))) : Json :=
  Json.mkObj [
    ("rows", Json.arr (rows.map fun r => Json.arr (r.map fun v => Json.str (showVal true v)).toArray).toArray),
    ("num", Json.arr (rows.map fun r => Json.arr (r.map fun v => Json.str (showVal false v)).toArray).toArray)]

def resJsonL : Except Fault (List (List (Val Float))) → Json
  | .ok rows => rowsJsonL rows
  | .error f => Json.mkObj [("fault", Json.str (faultClass f))]

def handleFirstL (j : Json) : Except String Json := do
  let colls ← (← jarr j "colls").mapM fun c => do pure ((← jstr c "name"), (← jstr c "type"), (← jstr c "elem"))
  let B := mkBackend (← jstr j "backend") colls
  let c ← decChainL (← j.getObjVal? "c")
  let v ← decLE (← j.getObjVal? "v")
  let name ← jstr j "name"
  let P := compileFirstL B nmLocal nmCol name c v
  let evs ← (← jarr j "events").mapM decEvent
  let cts := colls.map fun c => (c.1, c.2.1)
  let jl (l : List String) := Json.arr (l.map Json.str).toArray
  let execs := evs.map fun ev => resJsonL ((runEvent P floatNum (classInit P.classVars) ev).map (·.1))
  let dens := evs.map fun ev => resJsonL (denoteRows { N := floatNum, ev := ev, collTypes := cts } (firstLTopQuery name c v))
  pure (Json.mkObj [
    ("body", jl (renderS P.body)),
    ("class_decl", jl (P.classVars.map fun p => s!"{p.1} {p.2};")),
    ("branches", Json.arr (P.branches.map fun p => Json.mkObj [("name", p.1), ("var", p.2)]).toArray),
    ("tokens", Json.arr (P.tokens.map fun t => Json.mkObj [("token", t.1), ("type", t.2.1), ("bank", t.2.2)]).toArray),
    ("tree", P.tree),
    ("exec", Json.arr execs.toArray), ("denote", Json.arr dens.toArray),
    ("wt", Json.bool (wtFirstL c v))])

def handleF (line : String) : String :=
  match Json.parse line with
  | .error e => (Json.mkObj [("bad", e)]).compress
  | .ok j =>
    let r : Except String Json := do
      let op ← jstr j "op"
      if op == "firstL" then handleFirstL j else throw s!"unknown op {op}"
    match r with
    | .ok j => j.compress
    | .error e => (Json.mkObj [("bad", e)]).compress

partial def loopIOF (h : IO.FS.Stream) (out : IO.FS.Stream) : IO Unit := do
  let line ← h.getLine
  if line.isEmpty then return ()
  let t := line.trimAscii.toString
  if !t.isEmpty then out.putStrLn (handleF t)
  loopIOF h out

def main : IO Unit := do
  let out ← IO.getStdout
  loopIOF (← IO.getStdin) out
  out.flush
