/-
Gen — correctness of the translation of pure element expressions (`compPE`): the C++ expression
evaluates, in any state where the current-value expression evaluates to `v`, to exactly what the
query expression denotes with its parameter bound to `v` — values and faults alike — and the
value has the statically computed type. Includes the int/int division cast.
-/
import FaxVerif.Gen.LiteSpec
namespace FaxVerif.Gen
open FaxVerif.Cpp FaxVerif.Linq
variable {D : Type}

theorem hasTy_int {v : Val D} (h : HasTy v .int) : ∃ n, v = .int n := by
  cases v <;> simp [HasTy] at h ⊢

theorem hasTy_bool {v : Val D} (h : HasTy v .bool) : ∃ b, v = .bool b := by
  cases v <;> simp [HasTy] at h ⊢

theorem hasTy_num {v : Val D} {t : Ty} (h : HasTy v t) (hn : t.isNum = true) :
    (∃ n, v = .int n ∧ t = .int) ∨ (∃ x, v = .dbl x ∧ (t = .float ∨ t = .double)) := by
  cases v <;> cases t <;> simp [HasTy, Ty.isNum] at h hn ⊢

theorem join_int_iff (a b : Ty) (ha : a.isNum = true) (hb : b.isNum = true) :
    a.join b = .int ↔ a = .int ∧ b = .int := by
  cases a <;> cases b <;> simp [Ty.join, Ty.isNum] at ha hb ⊢

theorem join_num (a b : Ty) (ha : a.isNum = true) (hb : b.isNum = true) : (a.join b).isNum = true := by
  cases a <;> cases b <;> simp [Ty.join, Ty.isNum] at ha hb ⊢

theorem join_fl (a b : Ty) (ha : a.isNum = true) (hb : b.isNum = true) (h : ¬ (a = .int ∧ b = .int)) :
    a.join b = .float ∨ a.join b = .double := by
  cases a <;> cases b <;> simp [Ty.join, Ty.isNum] at ha hb h ⊢

/-- `+ - *` on values of numeric kinds: C++ and Python agree, and the result has the joined type -/
theorem arith_num (N : Num D) (op : AOp) (hop : op ≠ .div) (va vb : Val D) (ta tb : Ty)
    (ha : HasTy va ta) (hb : HasTy vb tb) (hna : ta.isNum = true) (hnb : tb.isNum = true) :
    arith N op.str va vb = pyArith N op.str va vb ∧ ∀ w, arith N op.str va vb = .ok w → HasTy w (ta.join tb) := by
  have hpy : pyArith N op.str va vb = arith N op.str va vb := by
    cases op <;> simp [pyArith, AOp.str] at hop ⊢
  refine ⟨hpy.symm, ?_⟩
  rcases hasTy_num ha hna with ⟨x, rfl, rfl⟩ | ⟨x, rfl, hta⟩ <;>
  rcases hasTy_num hb hnb with ⟨y, rfl, rfl⟩ | ⟨y, rfl, htb⟩
  · cases op <;> simp [arith, asInt, AOp.str, Ty.join, HasTy] at hop ⊢
  · intro w hw
    have : (Ty.int).join tb = tb := by rcases htb with rfl | rfl <;> rfl
    rw [this]
    cases op <;> simp [arith, asInt, asD, AOp.str] at hop hw <;> (subst hw; rcases htb with rfl | rfl <;> simp [HasTy])
  · intro w hw
    have : ta.join .int = ta := by rcases hta with rfl | rfl <;> rfl
    rw [this]
    cases op <;> simp [arith, asInt, asD, AOp.str] at hop hw <;> (subst hw; rcases hta with rfl | rfl <;> simp [HasTy])
  · intro w hw
    have hj := join_fl ta tb hna hnb (by rcases hta with rfl | rfl <;> simp)
    cases op <;> simp [arith, asInt, asD, AOp.str] at hop hw <;> (subst hw; rcases hj with h | h <;> simp [h, HasTy])

/-- real division: the emitted `static_cast<double>(a)/b` (both operands of integer type) or
plain `a/b` (some operand floating) computes Python's `/` -/
theorem div_num (N : Num D) (va vb : Val D) (ta tb : Ty)
    (ha : HasTy va ta) (hb : HasTy vb tb) (hna : ta.isNum = true) (hnb : tb.isNum = true) :
    (if ta.join tb = .int then
        (match castTo N "double" va with
         | .ok c => arith N "/" c vb
         | .error f => .error f)
     else arith N "/" va vb) = pyArith N "/" va vb ∧
    ∀ w, pyArith N "/" va vb = .ok w → HasTy w .double := by
  rcases hasTy_num ha hna with ⟨x, rfl, rfl⟩ | ⟨x, rfl, hta⟩ <;>
  rcases hasTy_num hb hnb with ⟨y, rfl, rfl⟩ | ⟨y, rfl, htb⟩
  · simp [Ty.join, castTo, asD, arith, asInt, pyArith, HasTy]
  · have : (Ty.int).join tb ≠ .int := by rcases htb with rfl | rfl <;> simp [Ty.join]
    simp [this, arith, asInt, asD, pyArith, HasTy]
  · have : ta.join .int ≠ .int := by rcases hta with rfl | rfl <;> simp [Ty.join]
    simp [this, arith, asInt, asD, pyArith, HasTy]
  · have : ta.join tb ≠ .int := by
      rcases hta with rfl | rfl <;> rcases htb with rfl | rfl <;> simp [Ty.join]
    simp [this, arith, asInt, asD, pyArith, HasTy]

theorem cmp_num (N : Num D) (op : COp) (va vb : Val D) (ta tb : Ty)
    (ha : HasTy va ta) (hb : HasTy vb tb) (hna : ta.isNum = true) (hnb : tb.isNum = true) :
    ∀ w, arith N op.str va vb = .ok w → HasTy w .bool := by
  intro w hw
  rcases hasTy_num ha hna with ⟨x, rfl, rfl⟩ | ⟨x, rfl, hta⟩ <;>
  rcases hasTy_num hb hnb with ⟨y, rfl, rfl⟩ | ⟨y, rfl, htb⟩ <;>
  cases op <;> simp [arith, asInt, asD, COp.str] at hw <;> (subst hw; simp [HasTy])

theorem aop_not_logic (op : AOp) : op.str ≠ "&&" ∧ op.str ≠ "||" := by cases op <;> simp [AOp.str]
theorem cop_not_logic (op : COp) : op.str ≠ "&&" ∧ op.str ≠ "||" := by cases op <;> simp [COp.str]

theorem evalE_bin_arith (N : Num D) (σ : Env D) (op : String) (h1 : op ≠ "&&") (h2 : op ≠ "||") (a b : CExpr) :
    evalE N σ (.bin op a b) = (match evalE N σ a with
      | .error f => .error f
      | .ok va => match evalE N σ b with
        | .error f => .error f
        | .ok vb => arith N op va vb) := by
  simp only [evalE, h1, h2, if_false]
  cases evalE N σ a with
  | error f => rfl
  | ok va => cases evalE N σ b <;> rfl

/-- **pure expressions** — values, faults and types. -/
theorem pe_correct (C : QCtx D) (σ : Env D) (cur : CExpr) (curTy : Option Ty) (ptr : Bool)
    (v : Val D) (x : String) (ρ : LEnv D)
    (hcur : evalE C.N σ cur = .ok v) (hty : ∀ t, curTy = some t → HasTy v t) :
    ∀ pe : PE, wtPE curTy pe = true → MethTyped v (methsPE pe) →
      evalE C.N σ (compPE ptr cur (curT curTy) pe) = denote C ((x, v) :: ρ) (peQ x pe) ∧
      ∀ w, denote C ((x, v) :: ρ) (peQ x pe) = .ok w → HasTy w (tyPE (curT curTy) pe)
  | .int n, _, _ => by simp [compPE, peQ, evalE, denote, tyPE, HasTy]
  | .dbl m e, _, _ => by simp [compPE, peQ, evalE, denote, tyPE, HasTy]
  | .bool b, _, _ => by simp [compPE, peQ, evalE, denote, tyPE, HasTy]
  | .it, hw, _ => by
    simp only [wtPE, Option.isSome_iff_exists] at hw
    obtain ⟨t, ht⟩ := hw
    simp only [compPE, peQ, denote, LEnv.get, if_true, hcur, tyPE, true_and]
    intro w hw'
    simp only [Except.ok.injEq] at hw'; subst hw'
    simpa [curT, ht] using hty t ht
  | .meth name ty, _, hm => by
    simp only [compPE, peQ, evalE, hcur, denote, LEnv.get, if_true, evalEs, tyPE, true_and]
    intro w hw'
    exact hm (name, ty) (by simp [methsPE]) w hw'
  | .bin op a b, hw, hm => by
    simp only [wtPE, Bool.and_eq_true] at hw
    obtain ⟨⟨⟨hwa, hwb⟩, hna⟩, hnb⟩ := hw
    have iha := pe_correct C σ cur curTy ptr v x ρ hcur hty a hwa (fun p hp => hm p (by simp [methsPE, hp]))
    have ihb := pe_correct C σ cur curTy ptr v x ρ hcur hty b hwb (fun p hp => hm p (by simp [methsPE, hp]))
    by_cases hdiv : op = .div
    · subst hdiv
      simp only [compPE, peQ, denote, AOp.str, tyPE, true_and]
      rw [← iha.1, ← ihb.1]
      cases hea : evalE C.N σ (compPE ptr cur (curT curTy) a) with
      | error f => by_cases hj : (tyPE (curT curTy) a).join (tyPE (curT curTy) b) = .int <;> simp [hj, evalE, hea]
      | ok va =>
        have hta := iha.2 va (by rw [← iha.1]; exact hea)
        cases heb : evalE C.N σ (compPE ptr cur (curT curTy) b) with
        | error f =>
          by_cases hj : (tyPE (curT curTy) a).join (tyPE (curT curTy) b) = .int
          · rcases hasTy_num hta hna with ⟨n, rfl, _⟩ | ⟨y, rfl, _⟩ <;> simp [hj, evalE, hea, heb, castTo, asD]
          · simp [hj, evalE, hea, heb]
        | ok vb =>
          have htb := ihb.2 vb (by rw [← ihb.1]; exact heb)
          have hd := div_num C.N va vb _ _ hta htb hna hnb
          simp only []
          refine ⟨?_, hd.2⟩
          rw [← hd.1]
          by_cases hj : (tyPE (curT curTy) a).join (tyPE (curT curTy) b) = .int
          · simp only [hj, and_self, if_true]
            rw [evalE_bin_arith _ _ _ (by simp) (by simp)]
            simp only [evalE, hea, heb]
            cases castTo C.N "double" va <;> rfl
          · simp only [hj, and_false, if_false]
            rw [evalE_bin_arith _ _ _ (by simp [AOp.str]) (by simp [AOp.str])]
            simp [hea, heb, AOp.str]
    · have hne : ¬ (op = .div ∧ (tyPE (curT curTy) a).join (tyPE (curT curTy) b) = .int) := fun h => hdiv h.1
      have hty' : tyPE (curT curTy) (.bin op a b) = (tyPE (curT curTy) a).join (tyPE (curT curTy) b) := by
        cases op <;> simp [tyPE] at hdiv ⊢
      simp only [compPE, hne, if_false, peQ, denote, hty']
      rw [evalE_bin_arith _ _ _ (aop_not_logic op).1 (aop_not_logic op).2, ← iha.1, ← ihb.1]
      cases hea : evalE C.N σ (compPE ptr cur (curT curTy) a) with
      | error f => simp
      | ok va =>
        cases heb : evalE C.N σ (compPE ptr cur (curT curTy) b) with
        | error f => simp
        | ok vb =>
          have hta := iha.2 va (by rw [← iha.1]; exact hea)
          have htb := ihb.2 vb (by rw [← ihb.1]; exact heb)
          have := arith_num C.N op hdiv va vb _ _ hta htb hna hnb
          simp only []
          exact ⟨this.1, fun w hw => this.2 w (by rw [this.1]; exact hw)⟩
  | .cmp op a b, hw, hm => by
    simp only [wtPE, Bool.and_eq_true] at hw
    obtain ⟨⟨⟨hwa, hwb⟩, hna⟩, hnb⟩ := hw
    have iha := pe_correct C σ cur curTy ptr v x ρ hcur hty a hwa (fun p hp => hm p (by simp [methsPE, hp]))
    have ihb := pe_correct C σ cur curTy ptr v x ρ hcur hty b hwb (fun p hp => hm p (by simp [methsPE, hp]))
    simp only [compPE, peQ, denote, tyPE]
    rw [evalE_bin_arith _ _ _ (cop_not_logic op).1 (cop_not_logic op).2, ← iha.1, ← ihb.1]
    cases hea : evalE C.N σ (compPE ptr cur (curT curTy) a) with
    | error f => simp
    | ok va =>
      cases heb : evalE C.N σ (compPE ptr cur (curT curTy) b) with
      | error f => simp
      | ok vb =>
        have hta := iha.2 va (by rw [← iha.1]; exact hea)
        have htb := ihb.2 vb (by rw [← ihb.1]; exact heb)
        simp only [true_and]
        exact cmp_num C.N op va vb _ _ hta htb hna hnb
  | .neg a, hw, hm => by
    simp only [wtPE, Bool.and_eq_true] at hw
    have iha := pe_correct C σ cur curTy ptr v x ρ hcur hty a hw.1 (fun p hp => hm p (by simpa [methsPE] using hp))
    simp only [compPE, peQ, denote, evalE, tyPE, ← iha.1]
    cases hea : evalE C.N σ (compPE ptr cur (curT curTy) a) with
    | error f => simp
    | ok va =>
      have hta := iha.2 va (by rw [← iha.1]; exact hea)
      simp only [true_and]
      intro w hw'
      rcases hasTy_num hta hw.2 with ⟨n, rfl, ht⟩ | ⟨y, rfl, ht⟩
      · simp [unop] at hw'; subst hw'; simp [ht, HasTy]
      · simp [unop] at hw'; subst hw'; rcases ht with h | h <;> simp [h, HasTy]
  | .not a, hw, hm => by
    simp only [wtPE, Bool.and_eq_true, beq_iff_eq] at hw
    have iha := pe_correct C σ cur curTy ptr v x ρ hcur hty a hw.1 (fun p hp => hm p (by simpa [methsPE] using hp))
    simp only [compPE, peQ, denote, evalE, tyPE, ← iha.1]
    cases hea : evalE C.N σ (compPE ptr cur (curT curTy) a) with
    | error f => simp
    | ok va =>
      have hta := iha.2 va (by rw [← iha.1]; exact hea)
      rw [hw.2] at hta
      obtain ⟨b, rfl⟩ := hasTy_bool hta
      simp [unop, asBool, HasTy]

end FaxVerif.Gen
