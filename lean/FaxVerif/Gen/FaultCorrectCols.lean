/-
Gen — the FAULT direction of the translator model, part 3: the columns of event-level rows
(vector column, `First()`, scalar expressions), the column list, and the end-to-end statement
`eventRows_fault`: if the query is undefined on the event, the emitted package fails on it.
-/
import FaxVerif.Gen.FaultCorrectChain
import FaxVerif.Gen.FirstFault
namespace FaxVerif.Gen
open FaxVerif.Cpp FaxVerif.Linq
variable {D : Type}

/-! ## vector column -/

theorem seq_fault_tok (C : Ctx D) (QC : QCtx D) (hN : QC.N = C.N) (hev : QC.ev = C.ev)
    (B : Backend) (hB : BackendBase B) (nm cn : Nat → String)
    (hinj : ∀ i j, nm i = nm j → i = j) (hres : ∀ j, nm j ≠ "result")
    (hcres : ∀ k, cn k ≠ "result") (hdisj : ∀ j k, nm j ≠ cn k)
    (hcollT : ∀ name, B.collType name = QC.collType name)
    (c : Chain) (idx n : Nat) (htok : TokChain B nm C c n) (s : St D) (f : Fault)
    (hdone : DeclsDone C.N (compCol B nm cn idx (.seq c) n).decls s.env)
    (hpre : ColPre (.seq c) (cn idx) s.env)
    (hwt : wtSteps none c.steps = true) (hst : strictSteps true c.steps = true)
    (hmt : ChainTyped QC c) (hbt : BankTyped QC c)
    (hden : denote QC [("e", evtVal)] (chainQ "e" c) = .error f) :
    ∃ f', execs C (compCol B nm cn idx (.seq c) n).stmts s = .error f' ∧ ChainFaultRel QC c f f' := by
  let K : CExpr → Option Ty → List Stmt := fun cur _ => [.push (cn idx) cur]
  have hcolT : ∀ lo hi, ¬ Touch nm lo hi (cn idx) := by
    intro lo hi
    rintro (⟨j, _, _, h⟩ | h)
    · exact hdisj j idx h.symm
    · exact hcres idx h
  have hx : (s.env (nm n)).isSome = true := by
    have := hdone (.decl (B.handleTy ((B.collType c.coll).getD "?")) (nm n) none) (by simp [compCol, compChain])
    simpa [DeclOK] using this
  have := chain_fault_tok (β := List (Val D)) C QC hN hev B hB nm hinj hres hcollT c n htok K true hwt hst hmt hbt
    (fun t l0 => t.env (cn idx) = some (.val (.vec l0))) (fun a w => .ok (a ++ [w])) (fun _ => True)
    (fun _ _ _ _ _ => trivial)
    (by intro t t' b hPt _ hfr; rw [hfr _ (hcolT _ _)]; exact hPt)
    (by
      intro t b b' w v0 hPt hg hevw _ _
      simp only [Except.ok.injEq] at hg; subst hg
      refine ⟨{ t with env := t.env.set (cn idx) (.vec (b ++ [w])) }, ?_, by simp [Env.set]⟩
      simp only [K, execs, exec, hPt, hevw])
    (by intro t b e w v0 _ hg; simp at hg)
    (by
      intro _ _ t b e hPt hevw
      simp only [K, execs, exec, hPt, hevw])
    (methsSteps c.steps) (fun _ hp => hp)
    (by intro v w b0 e _ _ _ hg; simp at hg)
    s [] f hx hpre
    (by intro cty l ws _ _ h; exact absurd h (foldG_never_error _ (by intro b w e h; simp at h) ws [] f))
    (Or.inl hden)
  simpa [compCol] using this

/-! ## First() column -/

/-- `First()` over a chain that is itself undefined on the event (missing bank, member fault): the
loop faults before the emptiness check is reached. The consumer captures the value only for the
first kept element, so the chain must be `strictSteps false`. -/
theorem first_chain_fault_tok (C : Ctx D) (QC : QCtx D) (hN : QC.N = C.N) (hev : QC.ev = C.ev)
    (B : Backend) (hB : BackendBase B) (nm cn : Nat → String)
    (hinj : ∀ i j, nm i = nm j → i = j) (hres : ∀ j, nm j ≠ "result")
    (hcres : ∀ k, cn k ≠ "result") (hdisj : ∀ j k, nm j ≠ cn k)
    (hcollT : ∀ name, B.collType name = QC.collType name)
    (c : Chain) (idx n : Nat) (htok : TokChain B nm C c (n + 1)) (s : St D) (f : Fault)
    (hdone : DeclsDone C.N (compCol B nm cn idx (.first c) n).decls s.env)
    (hpre : ColPre (.first c) (cn idx) s.env)
    (hwt : wtSteps none c.steps = true) (hst : strictSteps false c.steps = true)
    (hmt : ChainTyped QC c) (hbt : BankTyped QC c)
    (hden : denote QC [("e", evtVal)] (chainQ "e" c) = .error f) :
    ∃ f', execs C (compCol B nm cn idx (.first c) n).stmts s = .error f' ∧ ChainFaultRel QC c f f' := by
  let col := cn idx
  let K : CExpr → Option Ty → List Stmt := fun cur _ => [.ite (.var (nm n)) [.set (nm n) (.bool false), .set col cur] []]
  have hnext := compChain_next B nm c (n + 1) K
  have hcol : ∀ j, col ≠ nm j := fun j h => hdisj j idx h.symm
  have hx : (s.env (nm (n + 1))).isSome = true := by
    have := hdone (.decl (B.handleTy ((B.collType c.coll).getD "?")) (nm (n + 1)) none) (by simp [compCol, compChain])
    simpa [DeclOK] using this
  have hfl : s.env (nm n) = some (.val (.bool true)) := by
    have := hdone (.decl "bool" (nm n) (some (.bool true))) (by simp [compCol])
    simpa [DeclOK, initValOf, litOf, castTo, asBool] using this
  have hflT : ¬ Touch nm (n + 1) (compChain B nm c (n + 1) K).next (nm n) := by
    rintro (⟨j, h1, _, h3⟩ | h)
    · have := hinj _ _ h3; omega
    · exact hres n h
  have hcolT : ¬ Touch nm (n + 1) (compChain B nm c (n + 1) K).next col := by
    rintro (⟨j, _, _, h3⟩ | h)
    · exact hcol j h3
    · exact hcres idx h
  have hcurvars : ∀ x ∈ vars (stepConds B.elemPtr (.var (nm (n + 1 + 1))) none c.steps).2.1, x = nm (n + 1 + 1) := by
    intro x hx'
    have := (stepConds_vars B.elemPtr c.steps (.var (nm (n + 1 + 1))) none).2 x hx'
    simpa [vars] using this
  let Pinv : St D → Option (Val D) → Prop := fun t b =>
    (b = none → t.env (nm n) = some (.val (.bool true))) ∧
    (∀ w, b = some w → t.env (nm n) = some (.val (.bool false))) ∧
    (t.env col).isSome = true
  have := chain_fault_tok (β := Option (Val D)) C QC hN hev B hB nm hinj hres hcollT c (n + 1) htok K false hwt hst hmt hbt
    Pinv (fun b w => .ok (match b with | none => some w | some w0 => some w0)) (fun _ => True)
    (fun _ _ _ _ _ => trivial)
    (by
      intro t t' b hPt _ hfr
      exact ⟨fun hb => by rw [hfr _ hflT]; exact hPt.1 hb, fun w hw => by rw [hfr _ hflT]; exact hPt.2.1 w hw,
        by rw [hfr _ hcolT]; exact hPt.2.2⟩)
    (by
      intro t b b' w v0 hPt hg hevw _ _
      simp only [Except.ok.injEq] at hg
      cases b with
      | none =>
        simp only [] at hg; subst hg
        have hflv := hPt.1 rfl
        have hne : col ≠ nm n := hcol n
        let t1 : St D := { t with env := t.env.set (nm n) (.bool false) }
        have hcur1 : evalE C.N t1.env (stepConds B.elemPtr (.var (nm (n + 1 + 1))) none c.steps).2.1 = .ok w := by
          rw [← hevw]
          apply evalE_congr
          intro x hx'
          have := hcurvars x hx'
          have hne' : x ≠ nm n := by rw [this]; intro e; have := hinj _ _ e; omega
          simp [t1, Env.set, hne']
        refine ⟨{ t1 with env := t1.env.set col w }, ?_, ?_⟩
        · have hc1 : (t1.env col).isSome = true := by simpa [t1, Env.set, hne] using hPt.2.2
          have hite := exec_ite_of C t (.var (nm n)) [.set (nm n) (.bool false), .set col (stepConds B.elemPtr (.var (nm (n + 1 + 1))) none c.steps).2.1] []
            (.bool true) true (by simp [evalE, hflv]) (by simp [asBool])
          have hs1 := exec_set_ok C t (nm n) (.bool false) (.bool false) (by simp [hflv]) (by simp [evalE])
          have hs2 := exec_set_ok C t1 col _ w hc1 hcur1
          simp only [K, execs]
          rw [hite]
          simp only [if_true, execs, hs1]
          rw [show ({ t with env := t.env.set (nm n) (.bool false) } : St D) = t1 from rfl, hs2]
        · refine ⟨by simp, fun w' _ => ?_, by simp [Env.set]⟩
          have : nm n ≠ col := fun e => hne e.symm
          simp [t1, Env.set, this]
      | some w0 =>
        simp only [] at hg; subst hg
        have hflv := hPt.2.1 w0 rfl
        refine ⟨t, ?_, hPt⟩
        have hite := exec_ite_of C t (.var (nm n)) [.set (nm n) (.bool false), .set col (stepConds B.elemPtr (.var (nm (n + 1 + 1))) none c.steps).2.1] []
          (.bool false) false (by simp [evalE, hflv]) (by simp [asBool])
        simp only [K, execs]
        rw [hite]
        simp [execs])
    (by intro t b e w v0 _ hg; simp at hg)
    (by intro h; simp at h)
    (methsSteps c.steps) (fun _ hp => hp)
    (by intro v w b0 e _ _ _ hg; simp at hg)
    s none f hx ⟨fun _ => hfl, fun w hw => by simp at hw, hpre⟩
    (by intro cty l ws _ _ h; exact absurd h (foldG_never_error _ (by intro b w e h; simp at h) ws none f))
    (Or.inl hden)
  obtain ⟨f', hex, hrel⟩ := this
  refine ⟨f', ?_, hrel⟩
  have hstm : (compCol B nm cn idx (.first c) n).stmts =
      (compChain B nm c (n + 1) K).stmts ++ [.ite (.var (nm n)) [.throw "First() called on an empty sequence"] []] := rfl
  rw [hstm, execs_append, hex]

/-- one `First()` column over a sequence that is empty after its filters: its statements throw
(all backends; `compCol_first_fault` generalised to `BackendBase` + the token hypothesis) -/
theorem compCol_first_fault_tok (C : Ctx D) (QC : QCtx D) (hN : QC.N = C.N) (hev : QC.ev = C.ev)
    (B : Backend) (hB : BackendBase B) (nm cn : Nat → String)
    (hinj : ∀ i j, nm i = nm j → i = j) (hres : ∀ j, nm j ≠ "result")
    (hcres : ∀ k, cn k ≠ "result") (hdisj : ∀ j k, nm j ≠ cn k)
    (hcollT : ∀ name, B.collType name = QC.collType name)
    (c : Chain) (idx n : Nat) (htok : TokChain B nm C c (n + 1)) (s : St D)
    (hdone : DeclsDone C.N (compCol B nm cn idx (.first c) n).decls s.env)
    (hpre : ColPre (.first c) (cn idx) s.env) (hhyp : ColHyp QC (.first c))
    (hden : denote QC [("e", evtVal)] (chainQ "e" c) = .ok (.vec [])) :
    execs C (compCol B nm cn idx (.first c) n).stmts s = .error (.loud firstMsg) := by
  obtain ⟨hwt, hct, _⟩ := hhyp
  obtain ⟨cty, l, hcty, hfind, hel⟩ := chainQ_ok QC _ "e" c [] hden
  have hx : (s.env (nm (n + 1))).isSome = true := by
    have := hdone (.decl (B.handleTy ((B.collType c.coll).getD "?")) (nm (n + 1)) none) (by simp [compCol, compChain])
    simpa [DeclOK] using this
  have hfl : s.env (nm n) = some (.val (.bool true)) := by
    have := hdone (.decl "bool" (nm n) (some (.bool true))) (by simp [compCol])
    simpa [DeclOK, initValOf, litOf, castTo, asBool] using this
  obtain ⟨hfail, _⟩ := first_idiom_tok C QC hN B hB nm hinj hres c n htok (cn idx) (fun j h => hdisj j idx h.symm) (hcres idx)
    firstMsg cty l []
    (by rw [hcollT]; exact hcty) (by rw [← hev]; exact hfind) hwt (hct cty l hfind) hel s hx hfl hpre
  simpa [compCol, firstMsg] using hfail rfl

/-! ## scalar expressions -/

/-- every chain under a `Count` is `strictSteps false`, every chain under a `Sum` is `strictSteps true` -/
def eeStrict : EE → Bool
  | .count c => strictSteps false c.steps
  | .sum c => strictSteps true c.steps
  | .bin _ a b => eeStrict a && eeStrict b
  | .cmp _ a b => eeStrict a && eeStrict b
  | .neg a => eeStrict a
  | .not a => eeStrict a
  | _ => true

/-- **event-level scalar expressions, fault direction** — the operands are evaluated left to right on
both sides and arithmetic on numbers is total, so the query's fault is the fault of its first
undefined chain; the loops before it run (success direction), that chain's loop faults. -/
theorem compEE_fault_tok (C : Ctx D) (QC : QCtx D) (hN : QC.N = C.N) (hev : QC.ev = C.ev)
    (B : Backend) (hB : BackendBase B) (nm : Nat → String)
    (hinj : ∀ i j, nm i = nm j → i = j) (hres : ∀ j, nm j ≠ "result")
    (hcollT : ∀ name, B.collType name = QC.collType name) :
    ∀ (e : EE) (n : Nat) (s : St D) (f : Fault), TokEE B nm C e n →
      DeclsDone C.N (compEE B nm e n).decls s.env →
      wtEE e = true → (∀ c ∈ chainsEE e, ChainTyped QC c) → (∀ c ∈ sumChainsEE e, SumNonEmpty QC c) →
      (∀ c ∈ chainsEE e, BankTyped QC c) → eeStrict e = true →
      denote QC [("e", evtVal)] (eeQ "e" e) = .error f →
      ∃ f', execs C (compEE B nm e n).stmts s = .error f' ∧ ∃ c ∈ chainsEE e, ChainFaultRel QC c f f'
  | .int k, n, s, f, _, _, _, _, _, _, _, hden => by simp [eeQ, denote] at hden
  | .dbl m e, n, s, f, _, _, _, _, _, _, _, hden => by simp [eeQ, denote] at hden
  | .bool b, n, s, f, _, _, _, _, _, _, _, hden => by simp [eeQ, denote] at hden
  | .count c, n, s, f, htk, hdone, hwt, hct, _, hbt, hst, hden => by
    simp only [wtEE] at hwt
    simp only [eeStrict] at hst
    obtain ⟨f', h1, h2⟩ := count_fault_tok C QC hN hev B hB nm hinj hres hcollT c n htk s f hdone hwt hst
      (hct c (by simp [chainsEE])) (hbt c (by simp [chainsEE])) hden
    exact ⟨f', h1, c, by simp [chainsEE], h2⟩
  | .sum c, n, s, f, htk, hdone, hwt, hct, _, hbt, hst, hden => by
    simp only [wtEE, Bool.and_eq_true, chainNumTy] at hwt
    simp only [eeStrict] at hst
    cases hty : chainTy none c.steps with
    | none => rw [hty] at hwt; simp at hwt
    | some t =>
      rw [hty] at hwt
      have htn : t.isNum = true := by
        by_cases h : t.isNum = true
        · exact h
        · simp [h] at hwt
      obtain ⟨f', h1, h2⟩ := sum_fault_tok C QC hN hev B hB nm hinj hres hcollT c n htk s f hdone hwt.1 t hty htn hst
        (hct c (by simp [chainsEE])) (hbt c (by simp [chainsEE])) hden
      exact ⟨f', h1, c, by simp [chainsEE], h2⟩
  | .bin op a b, n, s, f, htk, hdone, hwt, hct, hsn, hbt, hst, hden => by
    simp only [wtEE, Bool.and_eq_true] at hwt
    obtain ⟨⟨⟨hwa, hwb⟩, hna⟩, hnb⟩ := hwt
    simp only [eeStrict, Bool.and_eq_true] at hst
    simp only [eeQ] at hden
    rw [denote_bin] at hden
    have hcta : ∀ c ∈ chainsEE a, ChainTyped QC c := fun c hc => hct c (by simp [chainsEE, hc])
    have hctb : ∀ c ∈ chainsEE b, ChainTyped QC c := fun c hc => hct c (by simp [chainsEE, hc])
    have hsna : ∀ c ∈ sumChainsEE a, SumNonEmpty QC c := fun c hc => hsn c (by simp [sumChainsEE, hc])
    have hsnb : ∀ c ∈ sumChainsEE b, SumNonEmpty QC c := fun c hc => hsn c (by simp [sumChainsEE, hc])
    have hbta : ∀ c ∈ chainsEE a, BankTyped QC c := fun c hc => hbt c (by simp [chainsEE, hc])
    have hbtb : ∀ c ∈ chainsEE b, BankTyped QC c := fun c hc => hbt c (by simp [chainsEE, hc])
    have hdone' : DeclsDone C.N ((compEE B nm a n).decls ++ (compEE B nm b (compEE B nm a n).next).decls) s.env := by
      simpa [compEE] using hdone
    have hda' : DeclsDone C.N (compEE B nm a n).decls s.env := fun d hd => hdone' d (by simp [hd])
    have hdb' : DeclsDone C.N (compEE B nm b (compEE B nm a n).next).decls s.env := fun d hd => hdone' d (by simp [hd])
    have hstm : (compEE B nm (.bin op a b) n).stmts = (compEE B nm a n).stmts ++ (compEE B nm b (compEE B nm a n).next).stmts := by
      simp [compEE]
    cases hda : denote QC [("e", evtVal)] (eeQ "e" a) with
    | error e =>
      rw [hda] at hden; simp only [strict2, Except.error.injEq] at hden; subst hden
      obtain ⟨f', h1, c, hc, h2⟩ := compEE_fault_tok C QC hN hev B hB nm hinj hres hcollT a n s e htk.1 hda' hwa hcta hsna hbta hst.1 hda
      exact ⟨f', by rw [hstm, execs_append, h1], c, by simp [chainsEE, hc], h2⟩
    | ok va =>
      obtain ⟨s1, hex1, _, _, hta, hf1⟩ := compEE_correct_tok C QC hN hev B hB nm hinj hres hcollT a n s va htk.1 hda' hwa hcta hsna hda
      cases hdb : denote QC [("e", evtVal)] (eeQ "e" b) with
      | error e =>
        rw [hda, hdb] at hden; simp only [strict2, Except.error.injEq] at hden; subst hden
        have hdb1 : DeclsDone C.N (compEE B nm b (compEE B nm a n).next).decls s1.env :=
          hdb'.transport (compEE_decls B nm b _) (fun y hy => hf1 y (by
            rintro (h | h)
            · exact inRange_disjoint hinj hy h
            · obtain ⟨j, _, _, hj⟩ := hy; exact hres j (hj ▸ h)))
        obtain ⟨f', h1, c, hc, h2⟩ := compEE_fault_tok C QC hN hev B hB nm hinj hres hcollT b _ s1 e htk.2 hdb1 hwb hctb hsnb hbtb hst.2 hdb
        exact ⟨f', by rw [hstm, execs_append, hex1]; exact h1, c, by simp [chainsEE, hc], h2⟩
      | ok vb =>
        obtain ⟨_, _, _, _, htb, _⟩ := compEE_correct_tok C QC hN hev B hB nm hinj hres hcollT b (compEE B nm a n).next s vb htk.2 hdb' hwb hctb hsnb hdb
        obtain ⟨w, hw⟩ := pyArith_total QC.N op va vb _ _ hta htb hna hnb
        rw [hda, hdb] at hden; simp only [strict2, hw] at hden; simp at hden
  | .cmp op a b, n, s, f, htk, hdone, hwt, hct, hsn, hbt, hst, hden => by
    simp only [wtEE, Bool.and_eq_true] at hwt
    obtain ⟨⟨⟨hwa, hwb⟩, hna⟩, hnb⟩ := hwt
    simp only [eeStrict, Bool.and_eq_true] at hst
    simp only [eeQ] at hden
    rw [denote_cmp] at hden
    have hcta : ∀ c ∈ chainsEE a, ChainTyped QC c := fun c hc => hct c (by simp [chainsEE, hc])
    have hctb : ∀ c ∈ chainsEE b, ChainTyped QC c := fun c hc => hct c (by simp [chainsEE, hc])
    have hsna : ∀ c ∈ sumChainsEE a, SumNonEmpty QC c := fun c hc => hsn c (by simp [sumChainsEE, hc])
    have hsnb : ∀ c ∈ sumChainsEE b, SumNonEmpty QC c := fun c hc => hsn c (by simp [sumChainsEE, hc])
    have hbta : ∀ c ∈ chainsEE a, BankTyped QC c := fun c hc => hbt c (by simp [chainsEE, hc])
    have hbtb : ∀ c ∈ chainsEE b, BankTyped QC c := fun c hc => hbt c (by simp [chainsEE, hc])
    have hdone' : DeclsDone C.N ((compEE B nm a n).decls ++ (compEE B nm b (compEE B nm a n).next).decls) s.env := by
      simpa [compEE] using hdone
    have hda' : DeclsDone C.N (compEE B nm a n).decls s.env := fun d hd => hdone' d (by simp [hd])
    have hdb' : DeclsDone C.N (compEE B nm b (compEE B nm a n).next).decls s.env := fun d hd => hdone' d (by simp [hd])
    have hstm : (compEE B nm (.cmp op a b) n).stmts = (compEE B nm a n).stmts ++ (compEE B nm b (compEE B nm a n).next).stmts := by
      simp [compEE]
    cases hda : denote QC [("e", evtVal)] (eeQ "e" a) with
    | error e =>
      rw [hda] at hden; simp only [strict2, Except.error.injEq] at hden; subst hden
      obtain ⟨f', h1, c, hc, h2⟩ := compEE_fault_tok C QC hN hev B hB nm hinj hres hcollT a n s e htk.1 hda' hwa hcta hsna hbta hst.1 hda
      exact ⟨f', by rw [hstm, execs_append, h1], c, by simp [chainsEE, hc], h2⟩
    | ok va =>
      obtain ⟨s1, hex1, _, _, hta, hf1⟩ := compEE_correct_tok C QC hN hev B hB nm hinj hres hcollT a n s va htk.1 hda' hwa hcta hsna hda
      cases hdb : denote QC [("e", evtVal)] (eeQ "e" b) with
      | error e =>
        rw [hda, hdb] at hden; simp only [strict2, Except.error.injEq] at hden; subst hden
        have hdb1 : DeclsDone C.N (compEE B nm b (compEE B nm a n).next).decls s1.env :=
          hdb'.transport (compEE_decls B nm b _) (fun y hy => hf1 y (by
            rintro (h | h)
            · exact inRange_disjoint hinj hy h
            · obtain ⟨j, _, _, hj⟩ := hy; exact hres j (hj ▸ h)))
        obtain ⟨f', h1, c, hc, h2⟩ := compEE_fault_tok C QC hN hev B hB nm hinj hres hcollT b _ s1 e htk.2 hdb1 hwb hctb hsnb hbtb hst.2 hdb
        exact ⟨f', by rw [hstm, execs_append, hex1]; exact h1, c, by simp [chainsEE, hc], h2⟩
      | ok vb =>
        obtain ⟨_, _, _, _, htb, _⟩ := compEE_correct_tok C QC hN hev B hB nm hinj hres hcollT b (compEE B nm a n).next s vb htk.2 hdb' hwb hctb hsnb hdb
        obtain ⟨w, hw⟩ := cmp_total QC.N op va vb _ _ hta htb hna hnb
        rw [hda, hdb] at hden; simp only [strict2, hw] at hden; simp at hden
  | .neg a, n, s, f, htk, hdone, hwt, hct, hsn, hbt, hst, hden => by
    simp only [wtEE, Bool.and_eq_true] at hwt
    simp only [eeStrict] at hst
    simp only [eeQ] at hden
    rw [denote_neg] at hden
    have hcta : ∀ c ∈ chainsEE a, ChainTyped QC c := fun c hc => hct c (by simpa [chainsEE] using hc)
    have hsna : ∀ c ∈ sumChainsEE a, SumNonEmpty QC c := fun c hc => hsn c (by simpa [sumChainsEE] using hc)
    have hbta : ∀ c ∈ chainsEE a, BankTyped QC c := fun c hc => hbt c (by simpa [chainsEE] using hc)
    have hda' : DeclsDone C.N (compEE B nm a n).decls s.env := by simpa [compEE] using hdone
    cases hda : denote QC [("e", evtVal)] (eeQ "e" a) with
    | error e =>
      rw [hda] at hden; simp only [strict1, Except.error.injEq] at hden; subst hden
      obtain ⟨f', h1, c, hc, h2⟩ := compEE_fault_tok C QC hN hev B hB nm hinj hres hcollT a n s e htk hda' hwt.1 hcta hsna hbta hst hda
      exact ⟨f', by simpa [compEE] using h1, c, by simpa [chainsEE] using hc, h2⟩
    | ok va =>
      obtain ⟨_, _, _, _, hta, _⟩ := compEE_correct_tok C QC hN hev B hB nm hinj hres hcollT a n s va htk hda' hwt.1 hcta hsna hda
      obtain ⟨w, hw, _⟩ := neg_total QC.N va _ hta hwt.2
      rw [hda] at hden; simp only [strict1, hw] at hden; simp at hden
  | .not a, n, s, f, htk, hdone, hwt, hct, hsn, hbt, hst, hden => by
    simp only [wtEE, Bool.and_eq_true, beq_iff_eq] at hwt
    simp only [eeStrict] at hst
    simp only [eeQ] at hden
    rw [denote_not] at hden
    have hcta : ∀ c ∈ chainsEE a, ChainTyped QC c := fun c hc => hct c (by simpa [chainsEE] using hc)
    have hsna : ∀ c ∈ sumChainsEE a, SumNonEmpty QC c := fun c hc => hsn c (by simpa [sumChainsEE] using hc)
    have hbta : ∀ c ∈ chainsEE a, BankTyped QC c := fun c hc => hbt c (by simpa [chainsEE] using hc)
    have hda' : DeclsDone C.N (compEE B nm a n).decls s.env := by simpa [compEE] using hdone
    cases hda : denote QC [("e", evtVal)] (eeQ "e" a) with
    | error e =>
      rw [hda] at hden; simp only [strict1, Except.error.injEq] at hden; subst hden
      obtain ⟨f', h1, c, hc, h2⟩ := compEE_fault_tok C QC hN hev B hB nm hinj hres hcollT a n s e htk hda' hwt.1 hcta hsna hbta hst hda
      exact ⟨f', by simpa [compEE] using h1, c, by simpa [chainsEE] using hc, h2⟩
    | ok va =>
      obtain ⟨_, _, _, _, hta, _⟩ := compEE_correct_tok C QC hN hev B hB nm hinj hres hcollT a n s va htk hda' hwt.1 hcta hsna hda
      obtain ⟨w, hw, _⟩ := not_total QC.N va (hwt.2 ▸ hta)
      rw [hda] at hden; simp only [strict1, hw] at hden; simp at hden

end FaxVerif.Gen
