/-
Gen — `First()` over a projection whose value needs statements (`Gen/FirstLazy.lean`): the captured
value is the FIRST kept element's, for every chain, every lazy value expression (unbounded nesting
of and / or / if-else), every event, every number model, all three backends.
-/
import FaxVerif.Gen.FirstLazy
import FaxVerif.Gen.LazyElemRowsCorrect
namespace FaxVerif.Gen
open FaxVerif.Cpp FaxVerif.Linq
variable {D : Type}

/-- the projected values of the kept elements (the reference maps the projection over ALL of them) -/
def valsSemL (QC : QCtx D) (v : LE) : List (Val D) → Except Fault (List (Val D))
  | [] => .ok []
  | u :: us => match leSem QC u v with
    | .error e => .error e
    | .ok w => match valsSemL QC v us with
      | .error e => .error e
      | .ok ws => .ok (w :: ws)

def keepFirst (b : Option (Val D)) (w : Val D) : Option (Val D) :=
  match b with
  | none => some w
  | some w0 => some w0

/-- what one element of the collection does to "the first value so far" -/
def firstStep (QC : QCtx D) (steps : List StepL) (v : LE) (b : Option (Val D)) (u : Val D) :
    Except Fault (Option (Val D)) :=
  match elemSemL QC steps u with
  | .error e => .error e
  | .ok none => .ok b
  | .ok (some u') => match leSem QC u' v with
    | .error e => .error e
    | .ok w => .ok (keepFirst b w)

theorem foldG_firstL (QC : QCtx D) (steps : List StepL) (v : LE) :
    ∀ (l ws vals : List (Val D)) (b : Option (Val D)),
      elemsSemL QC steps l = .ok ws → valsSemL QC v ws = .ok vals →
      foldG (firstStep QC steps v) l b = .ok (match b with | none => vals.head? | some w0 => some w0)
  | [], ws, vals, b, he, hv => by
    simp only [elemsSemL, Except.ok.injEq] at he; subst he
    simp only [valsSemL, Except.ok.injEq] at hv; subst hv
    cases b <;> simp [foldG]
  | u :: us, ws, vals, b, he, hv => by
    simp only [elemsSemL] at he
    cases ho : elemSemL QC steps u with
    | error e => rw [ho] at he; simp at he
    | ok o =>
      rw [ho] at he; simp only [] at he
      cases hrs : elemsSemL QC steps us with
      | error e => rw [hrs] at he; simp at he
      | ok rs =>
        rw [hrs] at he; simp only [Except.ok.injEq] at he; subst he
        cases o with
        | none =>
          simp only [Option.toList, List.nil_append] at hv
          simp only [foldG, firstStep, ho]
          exact foldG_firstL QC steps v us rs vals b hrs hv
        | some u' =>
          simp only [Option.toList, List.cons_append, List.nil_append, valsSemL] at hv
          cases h1 : leSem QC u' v with
          | error e => rw [h1] at hv; simp at hv
          | ok w =>
            rw [h1] at hv; simp only [] at hv
            cases h2 : valsSemL QC v rs with
            | error e => rw [h2] at hv; simp at hv
            | ok vs =>
              rw [h2] at hv; simp only [Except.ok.injEq] at hv; subst hv
              simp only [foldG, firstStep, ho, h1]
              rw [foldG_firstL QC steps v us rs vs (keepFirst b w) hrs h2]
              cases b <;> simp [keepFirst]

theorem header_next (B : Backend) (nm : Nat → String) (c : ChainL) (n : Nat) (K : CExpr → Option Ty → List Stmt) :
    (compChain B nm c.header n K).next = n + 3 := by
  simp [compChain, ChainL.header, chainBody, stepConds]

theorem firstLK_next (nm : Nat → String) (ptr : Bool) (fl col : String) (v : LE) (cur : CExpr) (ty : Option Ty) (n : Nat) :
    (firstLK nm ptr fl col v cur ty n).2 = (compLE nm (ptr && ty.isNone) cur (ty.getD .double) v n).next := rfl

/-- the supply position after the loop does not depend on the names of the flag and of the column -/
theorem compFirstL_next (B : Backend) (nm : Nat → String) (c : ChainL) (v : LE) (fl col msg : String) (n : Nat) :
    (compFirstL B nm c v fl col msg n).next = firstLNext B nm c v n := by
  simp only [compFirstL, firstLNext, compChainL, chainBodyL]
  rw [bodyL_next, bodyL_next]
  rfl

theorem firstLNext_eq (B : Backend) (nm : Nat → String) (c : ChainL) (v : LE) (n : Nat) :
    firstLNext B nm c v n =
      (compLE nm (B.elemPtr && (stepCondsL B.elemPtr (.var (nm (n + 1))) none c.steps).2.2.isNone)
        (stepCondsL B.elemPtr (.var (nm (n + 1))) none c.steps).2.1
        ((stepCondsL B.elemPtr (.var (nm (n + 1))) none c.steps).2.2.getD .double) v
        (condsNext nm B.elemPtr (.var (nm (n + 1))) c.steps (n + 3))).next := by
  simp only [firstLNext, compChainL, chainBodyL]
  rw [bodyL_next]
  rfl

theorem firstLNext_ge (B : Backend) (nm : Nat → String) (c : ChainL) (v : LE) (n : Nat) :
    condsNext nm B.elemPtr (.var (nm (n + 1))) c.steps (n + 3) ≤ firstLNext B nm c v n := by
  rw [firstLNext_eq]
  exact compLE_next_ge nm _ _ _ v _

/-- **First() of a projection whose value needs statements** — the code emitted for
`chain.Select(x -> v).First()` (`bool fl (true);` outside the loop; in the loop body, behind the lowered
`Where` conditions, the statements of `v` and then `if (fl) { fl = false; col = value; }`;
`if (fl) throw …;` after the loop):
  * if at least one element is kept, `col` ends up holding the value of `v` on the FIRST kept element —
    never a later element's — and nothing is thrown, no row is written;
  * if no element is kept the code fails loudly. -/
theorem first_lazy_idiom_tok (C : Ctx D) (QC : QCtx D) (hN : QC.N = C.N)
    (B : Backend) (hB : BackendBase B) (nm : Nat → String)
    (hinj : ∀ i j, nm i = nm j → i = j) (hres : ∀ j, nm j ≠ "result")
    (c : ChainL) (v : LE) (n : Nat) (htok : TokChain B nm C c.header n)
    (fl col msg : String)
    (hflT : ¬ Touch nm n (firstLNext B nm c v n) fl) (hcolT : ¬ Touch nm n (firstLNext B nm c v n) col)
    (hne : col ≠ fl)
    (cty : String) (l ws vals : List (Val D))
    (hcoll : B.collType c.coll = some cty) (hfind : C.ev.find c.bank = some (cty, .vec l))
    (hwt : wtStepsL none c.steps = true) (hwtv : wtLE (chainTyL none c.steps) v = true)
    (hmt : ∀ u ∈ l, MethTyped u (methsStepsL c.steps) ∧ MethTyped u (methsLE v))
    (hel : elemsSemL QC c.steps l = .ok ws) (hvals : valsSemL QC v ws = .ok vals)
    (s : St D) (hx : (s.env (nm n)).isSome = true)
    (hfl : s.env fl = some (.val (.bool true))) (hcd : (s.env col).isSome = true) :
    (vals = [] → execs C (compFirstL B nm c v fl col msg n).stmts s = .error (.loud msg)) ∧
    (∀ w rest, vals = w :: rest →
        ∃ s', execs C (compFirstL B nm c v fl col msg n).stmts s = .ok s' ∧ s'.env col = some (.val w) ∧ s'.rows = s.rows) := by
  let body := chainBodyL B nm c n (firstLK nm B.elemPtr fl col v)
  let K : CExpr → Option Ty → List Stmt := fun _ _ => body.1
  have hstmts : (compFirstL B nm c v fl col msg n).stmts =
      (compChain B nm c.header n K).stmts ++ [.ite (.var fl) [.throw msg] []] := rfl
  have hge := firstLNext_ge B nm c v n
  have hcn := condsNext_ge nm B.elemPtr (.var (nm (n + 1))) c.steps (n + 3)
  -- the flag and the column are outside every range the loop touches
  have hfl_in : ∀ lo hi, n ≤ lo → hi ≤ firstLNext B nm c v n → ¬ InRange nm lo hi fl := by
    rintro lo hi h1 h2 ⟨j, hj1, hj2, hj3⟩
    exact hflT (Or.inl ⟨j, by omega, by omega, hj3⟩)
  have hcol_in : ∀ lo hi, n ≤ lo → hi ≤ firstLNext B nm c v n → ¬ InRange nm lo hi col := by
    rintro lo hi h1 h2 ⟨j, hj1, hj2, hj3⟩
    exact hcolT (Or.inl ⟨j, by omega, by omega, hj3⟩)
  let Pinv : St D → Option (Val D) → Prop := fun t b =>
    (b = none → t.env fl = some (.val (.bool true))) ∧
    (∀ w, b = some w → t.env fl = some (.val (.bool false)) ∧ t.env col = some (.val w)) ∧
    (t.env col).isSome = true ∧ t.rows = s.rows
  have hi1 : ∀ j, n + 3 ≤ j → nm (n + 1) ≠ nm j := fun j hj e => by have := hinj _ _ e; omega
  have htyeq := stepCondsL_ty B.elemPtr c.steps (.var (nm (n + 1))) none
  obtain ⟨s', hex, hP'⟩ := compChain_correct_tok (β := Option (Val D)) C QC hN B hB nm hinj hres c.header n htok K cty l l
    hcoll hfind rfl (fun u _ p hp => by simp [ChainL.header, methsSteps] at hp) Pinv (firstStep QC c.steps v)
    (fun u => MethTyped u (methsStepsL c.steps) ∧ MethTyped u (methsLE v)) hmt
    (by
      intro t t' b hPt hr hfr
      rw [header_next] at hfr
      have hflx : t'.env fl = t.env fl := hfr fl (by
        rintro (h | h)
        · exact hfl_in n (n + 3) (Nat.le_refl _) (by omega) h
        · exact hflT (Or.inr h))
      have hcolx : t'.env col = t.env col := hfr col (by
        rintro (h | h)
        · exact hcol_in n (n + 3) (Nat.le_refl _) (by omega) h
        · exact hcolT (Or.inr h))
      refine ⟨fun hb => by rw [hflx]; exact hPt.1 hb, fun w hw => ?_, by rw [hcolx]; exact hPt.2.2.1, by rw [hr]; exact hPt.2.2.2⟩
      rw [hflx, hcolx]; exact hPt.2.1 w hw)
    (by
      intro t b b' w u hPt hg hev _ hobj
      obtain ⟨rfl, hq⟩ := hobj rfl
      simp only [ChainL.header, stepConds] at hev
      have hiv : t.env (nm (n + 1)) = some (.val w) := by
        simp only [evalE] at hev
        cases hs : t.env (nm (n + 1)) with
        | none => rw [hs] at hev; simp at hev
        | some sl =>
          rw [hs] at hev
          cases sl with
          | uninit => simp at hev
          | val u => simp only [Except.ok.injEq] at hev; rw [hev]
      simp only [firstStep] at hg
      cases ho : elemSemL QC c.steps w with
      | error e => rw [ho] at hg; simp at hg
      | ok o =>
        rw [ho] at hg
        obtain ⟨s2, hr2, hfr2, hmo2, hnone, hsome⟩ := bodyL_correct C QC hN nm hinj B.elemPtr (nm (n + 1)) c.steps (n + 3) hi1
          (firstLK nm B.elemPtr fl col v) t w o hiv hwt hq.1 ho
        have hfl2 : s2.env fl = t.env fl := hfr2 fl (hfl_in _ _ (by omega) hge)
        have hcol2 : s2.env col = t.env col := hfr2 col (hcol_in _ _ (by omega) hge)
        cases o with
        | none =>
          simp only [Except.ok.injEq] at hg; subst hg
          refine ⟨s2, hnone rfl, fun hb => by rw [hfl2]; exact hPt.1 hb, fun w' hw' => ?_, by rw [hcol2]; exact hPt.2.2.1,
            by rw [hr2]; exact hPt.2.2.2⟩
          rw [hfl2, hcol2]; exact hPt.2.1 w' hw'
        | some u' =>
          simp only [] at hg
          cases hval : leSem QC u' v with
          | error e => rw [hval] at hg; simp at hg
          | ok w' =>
            rw [hval] at hg; simp only [Except.ok.injEq] at hg; subst hg
            obtain ⟨hex2, hev2, hvars2, hty2, hobj2⟩ := hsome u' rfl
            -- the statements of the value, from the state after the conditions
            let cur := (stepCondsL B.elemPtr (.var (nm (n + 1))) none c.steps).2.1
            let ty := (stepCondsL B.elemPtr (.var (nm (n + 1))) none c.steps).2.2
            let k := condsNext nm B.elemPtr (.var (nm (n + 1))) c.steps (n + 3)
            let f := compLE nm (B.elemPtr && ty.isNone) cur (curT ty) v k
            have hfnext : f.next = firstLNext B nm c v n := (firstLNext_eq B nm c v n).symm
            have hfrc : ∀ y ∈ vars cur, ∀ j, k ≤ j → y ≠ nm j := by
              intro y hy j hj
              rw [hvars2 y hy]
              exact fun e => by have := hinj _ _ e; omega
            obtain ⟨σ3, hex3, hv3, hfr3⟩ := le_block_correct C QC hN nm hinj (B.elemPtr && ty.isNone) cur ty u' "x" []
              hty2 v k (by rw [show ty = chainTyL none c.steps from htyeq]; exact hwtv)
              (by
                cases hty' : ty with
                | some t0 => exact methTyped_of_hasTy (hty2 t0 hty') _
                | none => rw [hobj2 hty']; exact hq.2)
              hfrc s2.env s2.rows hev2 w' hval
            have hfl3 : σ3 fl = t.env fl := by
              rw [hfr3 fl (hfl_in _ _ (by omega) (by rw [hfnext]; exact Nat.le_refl _)), hfl2]
            have hcol3 : σ3 col = t.env col := by
              rw [hfr3 col (hcol_in _ _ (by omega) (by rw [hfnext]; exact Nat.le_refl _)), hcol2]
            have hbody : execs C body.1 t =
                execs C [.ite (.var fl) [.set fl (.bool false), .set col f.val] []] ⟨σ3, s2.rows⟩ := by
              show execs C (bodyL nm B.elemPtr (.var (nm (n + 1))) c.steps (n + 3) (firstLK nm B.elemPtr fl col v)).1 t = _
              rw [hex2]
              show execs C (f.decls ++ f.stmts ++ [.ite (.var fl) [.set fl (.bool false), .set col f.val] []]) s2 = _
              rw [execs_append, show s2 = ⟨s2.env, s2.rows⟩ from rfl, hex3]
            cases b with
            | none =>
              have hflv := hPt.1 rfl
              -- the flag is still true: reset it and capture the value
              have hfval : ∀ y ∈ vars f.val, y ≠ fl := by
                intro y hy e
                rcases compLE_val_vars nm _ cur _ v k y hy with h | h
                · rw [hvars2 y h] at e
                  exact hflT (Or.inl ⟨n + 1, by omega, by omega, e.symm⟩)
                · rw [e] at h
                  exact hfl_in _ _ (by omega) (by rw [hfnext]; exact Nat.le_refl _) h
              let t3 : St D := ⟨σ3, s2.rows⟩
              let t4 : St D := { t3 with env := t3.env.set fl (.bool false) }
              have hv4 : evalE C.N t4.env f.val = .ok w' := by
                rw [← hv3]
                apply evalE_congr
                intro y hy
                simp [t4, t3, Env.set, hfval y hy]
              have hc4 : (t4.env col).isSome = true := by
                simp only [t4, t3, Env.set, hne, if_false]
                rw [hcol3]; exact hPt.2.2.1
              refine ⟨{ t4 with env := t4.env.set col w' }, ?_, ?_⟩
              · show execs C body.1 t = _
                rw [hbody, execs_single]
                rw [exec_ite_of' C t3 (.var fl) _ [] (.bool true) true (by simp [t3, evalE, hfl3, hflv]) (by simp [asBool])]
                simp only [if_true, execs]
                rw [exec_set_ok' C t3 fl (.bool false) (.bool false) (by simp [t3, hfl3, hflv]) (by simp [evalE])]
                simp only []
                rw [show ({ t3 with env := t3.env.set fl (.bool false) } : St D) = t4 from rfl]
                rw [exec_set_ok' C t4 col f.val w' hc4 hv4]
              · refine ⟨by simp [keepFirst], fun w'' hw'' => ?_, by simp [Env.set], ?_⟩
                · simp only [keepFirst, Option.some.injEq] at hw''; subst hw''
                  have : fl ≠ col := fun e => hne e.symm
                  simp [t4, Env.set, this]
                · show s2.rows = s.rows
                  rw [hr2]; exact hPt.2.2.2
            | some w0 =>
              obtain ⟨hflv, hcv⟩ := hPt.2.1 w0 rfl
              let t3 : St D := ⟨σ3, s2.rows⟩
              refine ⟨t3, ?_, ?_⟩
              · show execs C body.1 t = _
                rw [hbody, execs_single]
                rw [exec_ite_of' C t3 (.var fl) _ [] (.bool false) false (by simp [t3, evalE, hfl3, hflv]) (by simp [asBool])]
                simp [execs]
              · refine ⟨by simp [keepFirst], fun w'' hw'' => ?_, by simp only [t3]; rw [hcol3]; exact hPt.2.2.1, ?_⟩
                · simp only [keepFirst, Option.some.injEq] at hw''; subst hw''
                  simp only [t3]
                  rw [hfl3, hcol3]; exact ⟨hflv, hcv⟩
                · show s2.rows = s.rows
                  rw [hr2]; exact hPt.2.2.2)
    s none (vals.head?) hx (elemsSem_nil_steps QC l) (by simpa using foldG_firstL QC c.steps v l ws vals none hel hvals)
    ⟨fun _ => hfl, fun w hw => by simp at hw, hcd, rfl⟩
  constructor
  · intro hvs
    subst hvs
    have hflv := hP'.1 rfl
    rw [hstmts, execs_append, hex]
    simp only []
    rw [execs_single, exec_ite_of' C s' (.var fl) [.throw msg] [] (.bool true) true (by simp [evalE, hflv]) (by simp [asBool])]
    simp [execs, exec]
  · intro w rest hvs
    subst hvs
    obtain ⟨hflv, hcv⟩ := hP'.2.1 w rfl
    refine ⟨s', ?_, hcv, hP'.2.2.2⟩
    rw [hstmts, execs_append, hex]
    simp only []
    rw [execs_single, exec_ite_of' C s' (.var fl) [.throw msg] [] (.bool false) false (by simp [evalE, hflv]) (by simp [asBool])]
    simp [execs]

end FaxVerif.Gen
