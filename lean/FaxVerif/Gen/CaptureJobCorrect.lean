/-
Gen — JOB-level correctness of the translator model on the captured-variable fragment (`Gen/Capture.lean`):
`captureEventRows_correct_post` iterated over a job (`Cpp.runJob`): `cfragPre_classInit`, `capture_job_correct`,
`capture_job_split`, `capture_job_prefix_independent`, `capture_job_perm`.
-/
import FaxVerif.Gen.CaptureEventRowsCorrect
import FaxVerif.Gen.NestedJobCorrect
namespace FaxVerif.Gen
open FaxVerif.Cpp FaxVerif.Linq
variable {D : Type}

def CQ.cols : CQ → List (String × CCol)
  | .eventRows cols => cols

/-- per-event side conditions of the single-event theorem -/
def CFragHyp (QC : QCtx D) : CQ → Prop
  | .eventRows cols => ∀ p ∈ cols, CColHyp QC p.2

/-- what the class state must satisfy when the per-event method is entered: the column vectors are empty -/
def CFragPre (cn : Nat → String) : CQ → Env D → Prop
  | .eventRows cols, σ => NColsPre cn cols.length 0 σ

theorem cq_wt_wo (nq : CQ) (h : nq.wt = true) :
    ∀ p ∈ nq.cols, wtOuter p.2.chain = true := by
  cases nq with
  | eventRows cols =>
    intro p hp
    simp only [CQ.wt, List.all_eq_true] at h
    have := h p hp
    cases hc : p.2 <;> rw [hc] at this <;> simp only [wtCCol, Bool.and_eq_true] at this
    · exact this.1
    · exact this.1.1

theorem cfragHyp_wo (QC : QCtx D) (nq : CQ) (h : CFragHyp QC nq) :
    ∀ p ∈ nq.cols, wtOuter p.2.chain = true := by
  cases nq with
  | eventRows cols =>
    intro p hp
    have := h p hp
    cases hc : p.2 <;> rw [hc] at this <;> exact this.1

theorem compCCols_classVars_vec (B : Backend) (nm cn : Nat → String) : ∀ (cols : List CCol) (idx n : Nat),
    ∀ p ∈ (compCCols B nm cn cols idx n).map (·.classVar), isVecType p.1 = true
  | [], _, _, p, hp => by simp [compCCols] at hp
  | c :: cs, idx, n, p, hp => by
    simp only [compCCols, List.map_cons, List.mem_cons] at hp
    rcases hp with rfl | hp
    · cases c <;> simp only [compCCol] <;> exact isVecType_vecTy _
    · exact compCCols_classVars_vec B nm cn cs _ _ p hp

/-- **the initial class state satisfies the precondition** of the single-event theorems (the miniAOD token
members, declared before the column variables, do not interfere: their names are generated local names). -/
theorem cfragPre_classInit (B : Backend) (nm cn : Nat → String) (hdisj : ∀ j k, nm j ≠ cn k) (nq : CQ)
    (hwo : ∀ p ∈ nq.cols, wtOuter p.2.chain = true) :
    CFragPre cn nq (classInit (compileC B nm cn nq).classVars : Env D) := by
  cases nq with
  | eventRows cols =>
    have htn := tokens_names_captureEventRows B nm cn cols hwo
    intro k _ hk
    have hskip : cn k ∉ ((compileC B nm cn (.eventRows cols)).tokens.map
        (fun t => ("edm::EDGetTokenT<" ++ t.2.1 ++ ">", t.1))).map (·.2) := by
      intro hm
      simp only [List.map_map, List.mem_map, Function.comp] at hm
      obtain ⟨t, ht, he⟩ := hm
      obtain ⟨j, hj⟩ := htn t ht
      exact hdisj j k (by rw [← hj]; exact he)
    have hcv : (compileC B nm cn (.eventRows cols)).classVars =
        (compileC B nm cn (.eventRows cols)).tokens.map (fun t => ("edm::EDGetTokenT<" ++ t.2.1 ++ ">", t.1)) ++
          (compCCols B nm cn (cols.map (·.2)) 0 0).map (·.classVar) := rfl
    rw [hcv, classInit_skip _ _ (cn k) hskip]
    apply classInit_vec _ _ (compCCols_classVars_vec B nm cn _ 0 0)
    rw [List.map_map]
    have := compCCols_vars B nm cn (cols.map (·.2)) 0 0
    rw [show ((fun x : String × String => x.2) ∘ fun x : ColFrag => x.classVar) = (fun x : ColFrag => x.classVar.2) from rfl, this]
    exact mem_colNames cn _ 0 k (Nat.zero_le _) (by simpa using hk)

/-- **one event, with the state it leaves** — for every query of the captured-variable fragment: from a class state
satisfying `CFragPre`, on an event where the query denotes `rows`, the emitted package writes exactly `rows`
and leaves a class state satisfying `CFragPre` again. -/
theorem cfragEvent_correct_post (B : Backend) (hB : BackendBase B) (nm cn : Nat → String)
    (hinj : ∀ i j, nm i = nm j → i = j) (hcinj : ∀ i j, cn i = cn j → i = j)
    (hres : ∀ j, nm j ≠ "result") (hcres : ∀ k, cn k ≠ "result") (hdisj : ∀ j k, nm j ≠ cn k)
    (QC : QCtx D) (hcollT : ∀ name, B.collType name = QC.collType name)
    (nq : CQ) (hhyp : CFragHyp QC nq) (σc : Env D) (hσ : CFragPre cn nq σc)
    (rows : List (List (Val D))) (hden : denoteRows QC nq.toQuery = .ok rows) :
    ∃ σ', runEvent (compileC B nm cn nq) QC.N σc QC.ev = .ok (rows, σ') ∧ CFragPre cn nq σ' := by
  cases nq with
  | eventRows cols =>
    exact captureEventRows_correct_post B hB nm cn hinj hcinj hres hcres hdisj QC hcollT cols hhyp σc hσ rows hden

/-- the job from any admissible class state -/
theorem capture_jobFrom_correct (B : Backend) (hB : BackendBase B) (nm cn : Nat → String)
    (hinj : ∀ i j, nm i = nm j → i = j) (hcinj : ∀ i j, cn i = cn j → i = j)
    (hres : ∀ j, nm j ≠ "result") (hcres : ∀ k, cn k ≠ "result") (hdisj : ∀ j k, nm j ≠ cn k)
    (QC : QCtx D) (hcollT : ∀ name, B.collType name = QC.collType name)
    (nq : CQ) (evs : List (Event D)) (hhyp : ∀ ev ∈ evs, CFragHyp (QC.withEvent ev) nq)
    (σc : Env D) (hσ : CFragPre cn nq σc)
    (rows : List (List (Val D))) (hden : denoteJob QC nq.toQuery evs = .ok rows) :
    runJobFrom (compileC B nm cn nq) QC.N σc evs = .ok rows := by
  obtain ⟨hall, rfl⟩ := denoteJob_ok QC nq.toQuery evs rows hden
  apply runJobFrom_inv (compileC B nm cn nq) QC.N (CFragPre cn nq) (rowsOf QC nq.toQuery) evs σc hσ
  intro ev hm σ hσ'
  exact cfragEvent_correct_post B hB nm cn hinj hcinj hres hcres hdisj (QC.withEvent ev) hcollT nq (hhyp ev hm) σ hσ'
    _ (hall ev hm)

/-- **job correctness (captured-variable fragment)** — for every query of the captured-variable fragment , every
backend satisfying `BackendBase`, every number model and EVERY list of events: if the query is defined on each
event of the job (with the per-event side conditions), the emitted package, run as one job from the initial
class state, writes exactly the rows the query denotes on the first event, then those of the second, … —
nothing is lost, duplicated, reordered or carried over between events (no accumulator, storage vector or
column vector survives into the next event). -/
theorem capture_job_correct (B : Backend) (hB : BackendBase B) (nm cn : Nat → String)
    (hinj : ∀ i j, nm i = nm j → i = j) (hcinj : ∀ i j, cn i = cn j → i = j)
    (hres : ∀ j, nm j ≠ "result") (hcres : ∀ k, cn k ≠ "result") (hdisj : ∀ j k, nm j ≠ cn k)
    (QC : QCtx D) (hcollT : ∀ name, B.collType name = QC.collType name)
    (nq : CQ) (hwt : nq.wt = true) (evs : List (Event D)) (hhyp : ∀ ev ∈ evs, CFragHyp (QC.withEvent ev) nq)
    (rows : List (List (Val D))) (hden : denoteJob QC nq.toQuery evs = .ok rows) :
    runJob (compileC B nm cn nq) QC.N evs = .ok rows :=
  capture_jobFrom_correct B hB nm cn hinj hcinj hres hcres hdisj QC hcollT nq evs hhyp _
    (cfragPre_classInit B nm cn hdisj nq (cq_wt_wo nq hwt)) rows hden

/-- **split** — one job over `xs ++ ys` writes what a job over `xs` followed by a SEPARATE job over `ys`
(fresh class state) write. -/
theorem capture_job_split (B : Backend) (hB : BackendBase B) (nm cn : Nat → String)
    (hinj : ∀ i j, nm i = nm j → i = j) (hcinj : ∀ i j, cn i = cn j → i = j)
    (hres : ∀ j, nm j ≠ "result") (hcres : ∀ k, cn k ≠ "result") (hdisj : ∀ j k, nm j ≠ cn k)
    (QC : QCtx D) (hcollT : ∀ name, B.collType name = QC.collType name)
    (nq : CQ) (hwt : nq.wt = true) (xs ys : List (Event D)) (hhyp : ∀ ev ∈ xs ++ ys, CFragHyp (QC.withEvent ev) nq)
    (r₁ r₂ : List (List (Val D)))
    (h₁ : denoteJob QC nq.toQuery xs = .ok r₁) (h₂ : denoteJob QC nq.toQuery ys = .ok r₂) :
    runJob (compileC B nm cn nq) QC.N xs = .ok r₁ ∧ runJob (compileC B nm cn nq) QC.N ys = .ok r₂ ∧
    runJob (compileC B nm cn nq) QC.N (xs ++ ys) = .ok (r₁ ++ r₂) :=
  ⟨capture_job_correct B hB nm cn hinj hcinj hres hcres hdisj QC hcollT nq hwt xs (fun ev hm => hhyp ev (by simp [hm])) r₁ h₁,
   capture_job_correct B hB nm cn hinj hcinj hres hcres hdisj QC hcollT nq hwt ys (fun ev hm => hhyp ev (by simp [hm])) r₂ h₂,
   capture_job_correct B hB nm cn hinj hcinj hres hcres hdisj QC hcollT nq hwt (xs ++ ys) hhyp _ (denoteJob_append QC _ xs ys r₁ r₂ h₁ h₂)⟩

/-- **prefix independence** — in a job `pre ++ ev :: post` the rows written for `ev` are exactly those of
running `ev` ALONE from the initial class state (= what the query denotes on `ev`), whatever events preceded it. -/
theorem capture_job_prefix_independent (B : Backend) (hB : BackendBase B) (nm cn : Nat → String)
    (hinj : ∀ i j, nm i = nm j → i = j) (hcinj : ∀ i j, cn i = cn j → i = j)
    (hres : ∀ j, nm j ≠ "result") (hcres : ∀ k, cn k ≠ "result") (hdisj : ∀ j k, nm j ≠ cn k)
    (QC : QCtx D) (hcollT : ∀ name, B.collType name = QC.collType name)
    (nq : CQ) (hwt : nq.wt = true) (pre : List (Event D)) (ev : Event D) (post : List (Event D))
    (hhyp : ∀ e ∈ pre ++ ev :: post, CFragHyp (QC.withEvent e) nq)
    (r : List (List (Val D))) (hden : denoteJob QC nq.toQuery (pre ++ ev :: post) = .ok r) :
    ∃ rp re rq σ',
      runJob (compileC B nm cn nq) QC.N pre = .ok rp ∧
      runEvent (compileC B nm cn nq) QC.N (classInit (compileC B nm cn nq).classVars) ev = .ok (re, σ') ∧
      denoteRows (QC.withEvent ev) nq.toQuery = .ok re ∧
      runJob (compileC B nm cn nq) QC.N post = .ok rq ∧
      runJob (compileC B nm cn nq) QC.N (pre ++ ev :: post) = .ok (rp ++ re ++ rq) := by
  obtain ⟨hall, hr⟩ := denoteJob_ok QC nq.toQuery _ r hden
  have hpre := denoteJob_of_all QC nq.toQuery pre (fun e hm => hall e (by simp [hm]))
  have hpost := denoteJob_of_all QC nq.toQuery post (fun e hm => hall e (by simp [hm]))
  have hev := hall ev (by simp)
  obtain ⟨σ', hrun, _⟩ := cfragEvent_correct_post B hB nm cn hinj hcinj hres hcres hdisj (QC.withEvent ev) hcollT nq
    (hhyp ev (by simp)) _ (cfragPre_classInit B nm cn hdisj nq (cq_wt_wo nq hwt)) _ hev
  refine ⟨_, _, _, σ', capture_job_correct B hB nm cn hinj hcinj hres hcres hdisj QC hcollT nq hwt pre
      (fun e hm => hhyp e (by simp [hm])) _ hpre, hrun, hev,
    capture_job_correct B hB nm cn hinj hcinj hres hcres hdisj QC hcollT nq hwt post (fun e hm => hhyp e (by simp [hm])) _ hpost, ?_⟩
  have := capture_job_correct B hB nm cn hinj hcinj hres hcres hdisj QC hcollT nq hwt _ hhyp r hden
  rw [this, hr]
  simp

/-- **order independence** — processing the events in any other order gives the same per-event row blocks in
that order: the two outputs are permutations of each other (and the permuted job completes too). -/
theorem capture_job_perm (B : Backend) (hB : BackendBase B) (nm cn : Nat → String)
    (hinj : ∀ i j, nm i = nm j → i = j) (hcinj : ∀ i j, cn i = cn j → i = j)
    (hres : ∀ j, nm j ≠ "result") (hcres : ∀ k, cn k ≠ "result") (hdisj : ∀ j k, nm j ≠ cn k)
    (QC : QCtx D) (hcollT : ∀ name, B.collType name = QC.collType name)
    (nq : CQ) (hwt : nq.wt = true) (evs evs' : List (Event D)) (hp : evs.Perm evs')
    (hhyp : ∀ ev ∈ evs, CFragHyp (QC.withEvent ev) nq)
    (r : List (List (Val D))) (hden : denoteJob QC nq.toQuery evs = .ok r) :
    ∃ r', runJob (compileC B nm cn nq) QC.N evs = .ok r ∧ runJob (compileC B nm cn nq) QC.N evs' = .ok r' ∧
      denoteJob QC nq.toQuery evs' = .ok r' ∧ r.Perm r' := by
  obtain ⟨hall, hr⟩ := denoteJob_ok QC nq.toQuery evs r hden
  have hden' := denoteJob_of_all QC nq.toQuery evs' (fun e hm => hall e (hp.symm.subset hm))
  refine ⟨_, capture_job_correct B hB nm cn hinj hcinj hres hcres hdisj QC hcollT nq hwt evs hhyp r hden,
    capture_job_correct B hB nm cn hinj hcinj hres hcres hdisj QC hcollT nq hwt evs' (fun e hm => hhyp e (hp.symm.subset hm)) _ hden',
    hden', ?_⟩
  rw [hr]
  exact (hp.map _).flatten


end FaxVerif.Gen
