/-
Gen — correctness of the translation of accumulation bodies (`compAE`): in any state where the
accumulator expression evaluates to `va` and the current-value expression to `v`, the C++
expression evaluates to exactly what the lambda body denotes with `acc ↦ va`, `x ↦ v` — values and
faults alike — and the value has the statically computed type (with the int/int division cast).
-/
import FaxVerif.Gen.AggSpec
import FaxVerif.Gen.PureCorrect
namespace FaxVerif.Gen
open FaxVerif.Cpp FaxVerif.Linq
variable {D : Type}

/-- **accumulation bodies** — values, faults and types. -/
theorem ae_correct (C : QCtx D) (σ : Env D) (accE cur : CExpr) (accT : Ty) (curTy : Option Ty) (ptr : Bool)
    (va v : Val D) (a x : String) (hax : x ≠ a) (ρ : LEnv D)
    (hacc : evalE C.N σ accE = .ok va) (haty : HasTy va accT)
    (hcur : evalE C.N σ cur = .ok v) (hty : ∀ t, curTy = some t → HasTy v t) :
    ∀ f : AE, wtAE accT curTy f = true → MethTyped v (methsAE f) →
      evalE C.N σ (compAE ptr accE cur accT (curT curTy) f) = denote C ((x, v) :: (a, va) :: ρ) (aeQ a x f) ∧
      ∀ w, denote C ((x, v) :: (a, va) :: ρ) (aeQ a x f) = .ok w → HasTy w (tyAE accT (curT curTy) f)
  | .int n, _, _ => by simp [compAE, aeQ, evalE, denote, tyAE, HasTy]
  | .dbl m e, _, _ => by simp [compAE, aeQ, evalE, denote, tyAE, HasTy]
  | .acc, _, _ => by
    simp only [compAE, aeQ, denote, LEnv.get, hax, if_false, if_true, hacc, tyAE, true_and]
    intro w hw'
    simp only [Except.ok.injEq] at hw'; subst hw'
    exact haty
  | .it, hw, _ => by
    simp only [wtAE, Option.isSome_iff_exists] at hw
    obtain ⟨t, ht⟩ := hw
    simp only [compAE, aeQ, denote, LEnv.get, if_true, hcur, tyAE, true_and]
    intro w hw'
    simp only [Except.ok.injEq] at hw'; subst hw'
    simpa [curT, ht] using hty t ht
  | .meth name ty, _, hm => by
    simp only [compAE, aeQ, evalE, hcur, denote, LEnv.get, if_true, evalEs, tyAE, true_and]
    intro w hw'
    exact hm (name, ty) (by simp [methsAE]) w hw'
  | .bin op p q, hw, hm => by
    simp only [wtAE, Bool.and_eq_true] at hw
    obtain ⟨⟨⟨hwa, hwb⟩, hna⟩, hnb⟩ := hw
    have iha := ae_correct C σ accE cur accT curTy ptr va v a x hax ρ hacc haty hcur hty p hwa (fun r hr => hm r (by simp [methsAE, hr]))
    have ihb := ae_correct C σ accE cur accT curTy ptr va v a x hax ρ hacc haty hcur hty q hwb (fun r hr => hm r (by simp [methsAE, hr]))
    by_cases hdiv : op = .div
    · subst hdiv
      simp only [compAE, aeQ, denote, AOp.str, tyAE, true_and]
      rw [← iha.1, ← ihb.1]
      cases hea : evalE C.N σ (compAE ptr accE cur accT (curT curTy) p) with
      | error f => by_cases hj : (tyAE accT (curT curTy) p).join (tyAE accT (curT curTy) q) = .int <;> simp [hj, evalE, hea]
      | ok vp =>
        have hta := iha.2 vp (by rw [← iha.1]; exact hea)
        cases heb : evalE C.N σ (compAE ptr accE cur accT (curT curTy) q) with
        | error f =>
          by_cases hj : (tyAE accT (curT curTy) p).join (tyAE accT (curT curTy) q) = .int
          · rcases hasTy_num hta hna with ⟨n, rfl, _⟩ | ⟨y, rfl, _⟩ <;> simp [hj, evalE, hea, heb, castTo, asD]
          · simp [hj, evalE, hea, heb]
        | ok vq =>
          have htb := ihb.2 vq (by rw [← ihb.1]; exact heb)
          have hd := div_num C.N vp vq _ _ hta htb hna hnb
          simp only []
          refine ⟨?_, hd.2⟩
          rw [← hd.1]
          by_cases hj : (tyAE accT (curT curTy) p).join (tyAE accT (curT curTy) q) = .int
          · simp only [hj, and_self, if_true]
            rw [evalE_bin_arith _ _ _ (by simp) (by simp)]
            simp only [evalE, hea, heb]
            cases castTo C.N "double" vp <;> rfl
          · simp only [hj, and_false, if_false]
            rw [evalE_bin_arith _ _ _ (by simp [AOp.str]) (by simp [AOp.str])]
            simp [hea, heb, AOp.str]
    · have hne : ¬ (op = .div ∧ (tyAE accT (curT curTy) p).join (tyAE accT (curT curTy) q) = .int) := fun h => hdiv h.1
      have hty' : tyAE accT (curT curTy) (.bin op p q) = (tyAE accT (curT curTy) p).join (tyAE accT (curT curTy) q) := by
        cases op <;> simp [tyAE] at hdiv ⊢
      simp only [compAE, hne, if_false, aeQ, denote, hty']
      rw [evalE_bin_arith _ _ _ (aop_not_logic op).1 (aop_not_logic op).2, ← iha.1, ← ihb.1]
      cases hea : evalE C.N σ (compAE ptr accE cur accT (curT curTy) p) with
      | error f => simp
      | ok vp =>
        cases heb : evalE C.N σ (compAE ptr accE cur accT (curT curTy) q) with
        | error f => simp
        | ok vq =>
          have hta := iha.2 vp (by rw [← iha.1]; exact hea)
          have htb := ihb.2 vq (by rw [← ihb.1]; exact heb)
          have := arith_num C.N op hdiv vp vq _ _ hta htb hna hnb
          simp only []
          exact ⟨this.1, fun w hw => this.2 w (by rw [this.1]; exact hw)⟩
  | .neg p, hw, hm => by
    simp only [wtAE, Bool.and_eq_true] at hw
    have iha := ae_correct C σ accE cur accT curTy ptr va v a x hax ρ hacc haty hcur hty p hw.1 (fun r hr => hm r (by simpa [methsAE] using hr))
    simp only [compAE, aeQ, denote, evalE, tyAE, ← iha.1]
    cases hea : evalE C.N σ (compAE ptr accE cur accT (curT curTy) p) with
    | error f => simp
    | ok vp =>
      have hta := iha.2 vp (by rw [← iha.1]; exact hea)
      simp only [true_and]
      intro w hw'
      rcases hasTy_num hta hw.2 with ⟨n, rfl, ht⟩ | ⟨y, rfl, ht⟩
      · simp [unop] at hw'; subst hw'; simp [ht, HasTy]
      · simp [unop] at hw'; subst hw'; rcases ht with h | h <;> simp [h, HasTy]

/-- the type of a well-typed body is numeric as soon as the accumulator's and the element's are -/
theorem tyAE_join_seed (sT bT : Ty) (h : aggExact sT bT = true) : sT.join bT = sT := by
  cases sT <;> cases bT <;> simp [aggExact, Ty.isFloating, Ty.join] at h ⊢

theorem hasTy_exact {w : Val D} {sT bT : Ty} (h : aggExact sT bT = true) (hw : HasTy w bT) : HasTy w sT := by
  cases sT <;> cases bT <;> simp [aggExact, Ty.isFloating] at h <;> cases w <;> simp [HasTy] at hw ⊢

end FaxVerif.Gen
