/-
Gen — JOB-level correctness of the translator model on the nested-iteration fragment (`Gen/Nested.lean`).

`nestedEventRows_correct_post` / `nestedElemRows_correct_post` say what ONE call of the per-event method does:
from a class state satisfying the precondition `NFragPre` it writes the rows the query denotes on that event
and leaves a class state satisfying `NFragPre` again. Here this is iterated over a job (`Cpp.runJob`):

  * `nfragPre_classInit`       the initial class state satisfies the precondition;
  * `nfragEvent_correct_post`  both query shapes under one statement;
  * `nested_job_correct`       a job over ANY list of events writes the concatenation of what the query
                               denotes on each event;
  * `nested_job_split`, `nested_job_prefix_independent`, `nested_job_perm`   the consequences C05 talks about.
-/
import FaxVerif.Gen.NestedEventRowsCorrect
import FaxVerif.Gen.JobCorrect
namespace FaxVerif.Gen
open FaxVerif.Cpp FaxVerif.Linq
variable {D : Type}

/-- per-event side conditions of the single-event theorems, for either query shape -/
def NFragHyp (QC : QCtx D) : NQ → Prop
  | .eventRows cols => ∀ p ∈ cols, NColHyp QC p.2
  | .elemRows c cols => NElemHyp QC c cols

/-- what the class state must satisfy when the per-event method is entered:
event-level rows — the column vectors are empty; element-level rows — the column variables are declared -/
def NFragPre (cn : Nat → String) : NQ → Env D → Prop
  | .eventRows cols, σ => NColsPre cn cols.length 0 σ
  | .elemRows _ cols, σ => ∀ k, k < cols.length → (σ (cn k)).isSome = true

theorem classInit_vec : ∀ (vars : List (String × String)) (x : String),
    (∀ p ∈ vars, isVecType p.1 = true) → x ∈ vars.map (·.2) → (classInit vars : Env D) x = some (.val (.vec []))
  | [], x, _, h => by simp at h
  | (ty, n) :: rest, x, hv, h => by
    have ht : isVecType ty = true := hv (ty, n) (by simp)
    simp only [classInit, ht, if_true]
    by_cases hx : x = n
    · subst hx; simp [Env.set]
    · have : x ∈ rest.map (·.2) := by simpa [hx] using h
      simp only [Env.set, hx, if_false]
      exact classInit_vec rest x (fun p hp => hv p (by simp [hp])) this

theorem compNCols_classVars_vec (B : Backend) (nm cn : Nat → String) : ∀ (cols : List NCol) (idx n : Nat),
    ∀ p ∈ (compNCols B nm cn cols idx n).map (·.classVar), isVecType p.1 = true
  | [], _, _, p, hp => by simp [compNCols] at hp
  | c :: cs, idx, n, p, hp => by
    simp only [compNCols, List.map_cons, List.mem_cons] at hp
    rcases hp with rfl | hp
    · cases c <;> simp only [compNCol] <;> exact isVecType_vecTy _
    · exact compNCols_classVars_vec B nm cn cs _ _ p hp

/-- **the initial class state satisfies the precondition** of the single-event theorems (the miniAOD token
members, declared before the column variables, do not interfere: their names are generated local names). -/
theorem nfragPre_classInit (B : Backend) (nm cn : Nat → String) (hdisj : ∀ j k, nm j ≠ cn k) (nq : NQ) :
    NFragPre cn nq (classInit (compileN B nm cn nq).classVars : Env D) := by
  cases nq with
  | eventRows cols =>
    have htn := tokens_names_nestedEventRows B nm cn cols
    intro k _ hk
    have hskip : cn k ∉ ((compileN B nm cn (.eventRows cols)).tokens.map
        (fun t => ("edm::EDGetTokenT<" ++ t.2.1 ++ ">", t.1))).map (·.2) := by
      intro hm
      simp only [List.map_map, List.mem_map, Function.comp] at hm
      obtain ⟨t, ht, he⟩ := hm
      obtain ⟨j, hj⟩ := htn t ht
      exact hdisj j k (by rw [← hj]; exact he)
    have hcv : (compileN B nm cn (.eventRows cols)).classVars =
        (compileN B nm cn (.eventRows cols)).tokens.map (fun t => ("edm::EDGetTokenT<" ++ t.2.1 ++ ">", t.1)) ++
          (compNCols B nm cn (cols.map (·.2)) 0 0).map (·.classVar) := rfl
    rw [hcv, classInit_skip _ _ (cn k) hskip]
    apply classInit_vec _ _ (compNCols_classVars_vec B nm cn _ 0 0)
    rw [List.map_map]
    have := compNCols_vars B nm cn (cols.map (·.2)) 0 0
    rw [show ((fun x : String × String => x.2) ∘ fun x : ColFrag => x.classVar) = (fun x : ColFrag => x.classVar.2) from rfl, this]
    exact mem_colNames cn _ 0 k (Nat.zero_le _) (by simpa using hk)
  | elemRows c cols =>
    intro k hk
    apply classInit_isSome
    have h1 : cn k ∈ (colVarsN cn (cols.map (·.2)) 0).map (·.2) := by
      rw [colVarsN_names]; exact mem_colNames cn _ 0 k (Nat.zero_le _) (by simpa using hk)
    simp only [compileN, List.map_append, List.mem_append]
    exact Or.inr h1

/-- **one event, with the state it leaves** — for every query of the nested fragment: from a class state
satisfying `NFragPre`, on an event where the query denotes `rows`, the emitted package writes exactly `rows`
and leaves a class state satisfying `NFragPre` again. -/
theorem nfragEvent_correct_post (B : Backend) (hB : BackendBase B) (nm cn : Nat → String)
    (hinj : ∀ i j, nm i = nm j → i = j) (hcinj : ∀ i j, cn i = cn j → i = j)
    (hres : ∀ j, nm j ≠ "result") (hcres : ∀ k, cn k ≠ "result") (hdisj : ∀ j k, nm j ≠ cn k)
    (QC : QCtx D) (hcollT : ∀ name, B.collType name = QC.collType name)
    (nq : NQ) (hhyp : NFragHyp QC nq) (σc : Env D) (hσ : NFragPre cn nq σc)
    (rows : List (List (Val D))) (hden : denoteRows QC nq.toQuery = .ok rows) :
    ∃ σ', runEvent (compileN B nm cn nq) QC.N σc QC.ev = .ok (rows, σ') ∧ NFragPre cn nq σ' := by
  cases nq with
  | eventRows cols =>
    exact nestedEventRows_correct_post B hB nm cn hinj hcinj hres hcres hdisj QC hcollT cols hhyp σc hσ rows hden
  | elemRows c cols =>
    exact nestedElemRows_correct_post B hB nm cn hinj hcinj hres hcres hdisj QC hcollT c cols hhyp σc hσ rows hden

/-- the job from any admissible class state -/
theorem nested_jobFrom_correct (B : Backend) (hB : BackendBase B) (nm cn : Nat → String)
    (hinj : ∀ i j, nm i = nm j → i = j) (hcinj : ∀ i j, cn i = cn j → i = j)
    (hres : ∀ j, nm j ≠ "result") (hcres : ∀ k, cn k ≠ "result") (hdisj : ∀ j k, nm j ≠ cn k)
    (QC : QCtx D) (hcollT : ∀ name, B.collType name = QC.collType name)
    (nq : NQ) (evs : List (Event D)) (hhyp : ∀ ev ∈ evs, NFragHyp (QC.withEvent ev) nq)
    (σc : Env D) (hσ : NFragPre cn nq σc)
    (rows : List (List (Val D))) (hden : denoteJob QC nq.toQuery evs = .ok rows) :
    runJobFrom (compileN B nm cn nq) QC.N σc evs = .ok rows := by
  obtain ⟨hall, rfl⟩ := denoteJob_ok QC nq.toQuery evs rows hden
  apply runJobFrom_inv (compileN B nm cn nq) QC.N (NFragPre cn nq) (rowsOf QC nq.toQuery) evs σc hσ
  intro ev hm σ hσ'
  exact nfragEvent_correct_post B hB nm cn hinj hcinj hres hcres hdisj (QC.withEvent ev) hcollT nq (hhyp ev hm) σ hσ'
    _ (hall ev hm)

/-- **job correctness (nested fragment)** — for every query of the nested fragment (all three shapes), every
backend satisfying `BackendBase`, every number model and EVERY list of events: if the query is defined on each
event of the job (with the per-event side conditions), the emitted package, run as one job from the initial
class state, writes exactly the rows the query denotes on the first event, then those of the second, … —
nothing is lost, duplicated, reordered or carried over between events (no accumulator, storage vector or
column vector survives into the next event). -/
theorem nested_job_correct (B : Backend) (hB : BackendBase B) (nm cn : Nat → String)
    (hinj : ∀ i j, nm i = nm j → i = j) (hcinj : ∀ i j, cn i = cn j → i = j)
    (hres : ∀ j, nm j ≠ "result") (hcres : ∀ k, cn k ≠ "result") (hdisj : ∀ j k, nm j ≠ cn k)
    (QC : QCtx D) (hcollT : ∀ name, B.collType name = QC.collType name)
    (nq : NQ) (evs : List (Event D)) (hhyp : ∀ ev ∈ evs, NFragHyp (QC.withEvent ev) nq)
    (rows : List (List (Val D))) (hden : denoteJob QC nq.toQuery evs = .ok rows) :
    runJob (compileN B nm cn nq) QC.N evs = .ok rows :=
  nested_jobFrom_correct B hB nm cn hinj hcinj hres hcres hdisj QC hcollT nq evs hhyp _
    (nfragPre_classInit B nm cn hdisj nq) rows hden

/-- **split** — one job over `xs ++ ys` writes what a job over `xs` followed by a SEPARATE job over `ys`
(fresh class state) write. -/
theorem nested_job_split (B : Backend) (hB : BackendBase B) (nm cn : Nat → String)
    (hinj : ∀ i j, nm i = nm j → i = j) (hcinj : ∀ i j, cn i = cn j → i = j)
    (hres : ∀ j, nm j ≠ "result") (hcres : ∀ k, cn k ≠ "result") (hdisj : ∀ j k, nm j ≠ cn k)
    (QC : QCtx D) (hcollT : ∀ name, B.collType name = QC.collType name)
    (nq : NQ) (xs ys : List (Event D)) (hhyp : ∀ ev ∈ xs ++ ys, NFragHyp (QC.withEvent ev) nq)
    (r₁ r₂ : List (List (Val D)))
    (h₁ : denoteJob QC nq.toQuery xs = .ok r₁) (h₂ : denoteJob QC nq.toQuery ys = .ok r₂) :
    runJob (compileN B nm cn nq) QC.N xs = .ok r₁ ∧ runJob (compileN B nm cn nq) QC.N ys = .ok r₂ ∧
    runJob (compileN B nm cn nq) QC.N (xs ++ ys) = .ok (r₁ ++ r₂) :=
  ⟨nested_job_correct B hB nm cn hinj hcinj hres hcres hdisj QC hcollT nq xs (fun ev hm => hhyp ev (by simp [hm])) r₁ h₁,
   nested_job_correct B hB nm cn hinj hcinj hres hcres hdisj QC hcollT nq ys (fun ev hm => hhyp ev (by simp [hm])) r₂ h₂,
   nested_job_correct B hB nm cn hinj hcinj hres hcres hdisj QC hcollT nq (xs ++ ys) hhyp _ (denoteJob_append QC _ xs ys r₁ r₂ h₁ h₂)⟩

/-- **prefix independence** — in a job `pre ++ ev :: post` the rows written for `ev` are exactly those of
running `ev` ALONE from the initial class state (= what the query denotes on `ev`), whatever events preceded it. -/
theorem nested_job_prefix_independent (B : Backend) (hB : BackendBase B) (nm cn : Nat → String)
    (hinj : ∀ i j, nm i = nm j → i = j) (hcinj : ∀ i j, cn i = cn j → i = j)
    (hres : ∀ j, nm j ≠ "result") (hcres : ∀ k, cn k ≠ "result") (hdisj : ∀ j k, nm j ≠ cn k)
    (QC : QCtx D) (hcollT : ∀ name, B.collType name = QC.collType name)
    (nq : NQ) (pre : List (Event D)) (ev : Event D) (post : List (Event D))
    (hhyp : ∀ e ∈ pre ++ ev :: post, NFragHyp (QC.withEvent e) nq)
    (r : List (List (Val D))) (hden : denoteJob QC nq.toQuery (pre ++ ev :: post) = .ok r) :
    ∃ rp re rq σ',
      runJob (compileN B nm cn nq) QC.N pre = .ok rp ∧
      runEvent (compileN B nm cn nq) QC.N (classInit (compileN B nm cn nq).classVars) ev = .ok (re, σ') ∧
      denoteRows (QC.withEvent ev) nq.toQuery = .ok re ∧
      runJob (compileN B nm cn nq) QC.N post = .ok rq ∧
      runJob (compileN B nm cn nq) QC.N (pre ++ ev :: post) = .ok (rp ++ re ++ rq) := by
  obtain ⟨hall, hr⟩ := denoteJob_ok QC nq.toQuery _ r hden
  have hpre := denoteJob_of_all QC nq.toQuery pre (fun e hm => hall e (by simp [hm]))
  have hpost := denoteJob_of_all QC nq.toQuery post (fun e hm => hall e (by simp [hm]))
  have hev := hall ev (by simp)
  obtain ⟨σ', hrun, _⟩ := nfragEvent_correct_post B hB nm cn hinj hcinj hres hcres hdisj (QC.withEvent ev) hcollT nq
    (hhyp ev (by simp)) _ (nfragPre_classInit B nm cn hdisj nq) _ hev
  refine ⟨_, _, _, σ', nested_job_correct B hB nm cn hinj hcinj hres hcres hdisj QC hcollT nq pre
      (fun e hm => hhyp e (by simp [hm])) _ hpre, hrun, hev,
    nested_job_correct B hB nm cn hinj hcinj hres hcres hdisj QC hcollT nq post (fun e hm => hhyp e (by simp [hm])) _ hpost, ?_⟩
  have := nested_job_correct B hB nm cn hinj hcinj hres hcres hdisj QC hcollT nq _ hhyp r hden
  rw [this, hr]
  simp

/-- **order independence** — processing the events in any other order gives the same per-event row blocks in
that order: the two outputs are permutations of each other (and the permuted job completes too). -/
theorem nested_job_perm (B : Backend) (hB : BackendBase B) (nm cn : Nat → String)
    (hinj : ∀ i j, nm i = nm j → i = j) (hcinj : ∀ i j, cn i = cn j → i = j)
    (hres : ∀ j, nm j ≠ "result") (hcres : ∀ k, cn k ≠ "result") (hdisj : ∀ j k, nm j ≠ cn k)
    (QC : QCtx D) (hcollT : ∀ name, B.collType name = QC.collType name)
    (nq : NQ) (evs evs' : List (Event D)) (hp : evs.Perm evs')
    (hhyp : ∀ ev ∈ evs, NFragHyp (QC.withEvent ev) nq)
    (r : List (List (Val D))) (hden : denoteJob QC nq.toQuery evs = .ok r) :
    ∃ r', runJob (compileN B nm cn nq) QC.N evs = .ok r ∧ runJob (compileN B nm cn nq) QC.N evs' = .ok r' ∧
      denoteJob QC nq.toQuery evs' = .ok r' ∧ r.Perm r' := by
  obtain ⟨hall, hr⟩ := denoteJob_ok QC nq.toQuery evs r hden
  have hden' := denoteJob_of_all QC nq.toQuery evs' (fun e hm => hall e (hp.symm.subset hm))
  refine ⟨_, nested_job_correct B hB nm cn hinj hcinj hres hcres hdisj QC hcollT nq evs hhyp r hden,
    nested_job_correct B hB nm cn hinj hcinj hres hcres hdisj QC hcollT nq evs' (fun e hm => hhyp e (hp.symm.subset hm)) _ hden',
    hden', ?_⟩
  rw [hr]
  exact (hp.map _).flatten

end FaxVerif.Gen
