/-
Gen — `C03.SchemaOk` of what `compileN` emits (nested iteration: inner aggregates, 2-D columns, element-level
rows over aggregates): inner loops, accumulators and the per-element storage vectors write only generated
local names and never fill; an event-level column is cleared after the fill and pushed inside its loop.
-/
import FaxVerif.Gen.SchemaCorrectLazy
namespace FaxVerif.Gen
open FaxVerif.Cpp FaxVerif.Linq FaxVerif.C03

theorem innerLoop_fills (nm : Nat → String) (cur : CExpr) (ptr : Bool) (ic : IChain) (n : Nat)
    (k : CExpr → Option Ty → List Stmt) (hk : ∀ w t, fillsL (k w t) = []) :
    fillsL (innerLoop nm cur ptr ic n k).1 = [] := by
  have h := chainBodyT_fills nm false (innerVar nm n) ic.elem ic.steps (n + 1) k
  simp [innerLoop, fillsL, fills, h, hk]

theorem compNE_fills (nm : Nat → String) (ptr : Bool) (cur : CExpr) : ∀ (e : NE) (n : Nat),
    fillsL (compNE nm ptr cur e n).decls = [] ∧ fillsL (compNE nm ptr cur e n).stmts = []
  | .pure _, _ => by simp [compNE, fillsL]
  | .icount c, n => by
    have h := innerLoop_fills nm cur ptr c (n + 1) (countK (nm n)) (fun _ _ => by simp [countK, fillsL, fills])
    simp [compNE, fillsL, fills, h]
  | .isum c, n => by
    have h := innerLoop_fills nm cur ptr c (n + 1) (sumK (nm n)) (fun _ _ => by simp [sumK, fillsL, fills])
    simp [compNE, fillsL, fills, h]
  | .bin op a b, n => by
    have ha := compNE_fills nm ptr cur a n
    have hb := compNE_fills nm ptr cur b (compNE nm ptr cur a n).next
    simp [compNE, fillsL_append, ha, hb]
  | .cmp op a b, n => by
    have ha := compNE_fills nm ptr cur a n
    have hb := compNE_fills nm ptr cur b (compNE nm ptr cur a n).next
    simp [compNE, fillsL_append, ha, hb]
  | .neg a, n => by simpa [compNE] using compNE_fills nm ptr cur a n
  | .not a, n => by simpa [compNE] using compNE_fills nm ptr cur a n

theorem compNEs_fills (nm : Nat → String) (ptr : Bool) (cur : CExpr) : ∀ (es : List NE) (n : Nat),
    fillsL (compNEs nm ptr cur es n).decls = [] ∧ fillsL (compNEs nm ptr cur es n).stmts = []
  | [], _ => by simp [compNEs, fillsL]
  | e :: rest, n => by
    have h := compNE_fills nm ptr cur e n
    have ih := compNEs_fills nm ptr cur rest (compNE nm ptr cur e n).next
    simp [compNEs, fillsL_append, h, ih]

theorem aggK_fills (B : Backend) (nm : Nat → String) (v : String) (e : NE) (cur : CExpr) (ty : Option Ty) (m : Nat) :
    fillsL (aggK B nm v e cur ty m).1 = [] := by
  have h := compNE_fills nm (B.elemPtr && ty.isNone) cur e m
  simp [aggK, fillsL_append, h, fillsL, fills]

theorem twoDK_fills (B : Backend) (nm : Nat → String) (v : String) (ic : IChain) (cur : CExpr) (ty : Option Ty) (m : Nat) :
    fillsL (twoDK B nm v ic cur ty m).1 = [] := by
  unfold twoDK
  split
  · simp [fillsL, fills]
  · have h := innerLoop_fills nm cur (B.elemPtr && ty.isNone) ic (m + 1) (pushK (nm m)) (fun _ _ => by simp [pushK, fillsL, fills])
    simp [fillsL, fills, fillsL_append, h]

theorem NCol.kn_fills (B : Backend) (nm : Nat → String) (v : String) (col : NCol) (cur : CExpr) (ty : Option Ty) (m : Nat) :
    fillsL (col.kn B nm v cur ty m).1 = [] := by
  cases col with
  | agg c e => exact aggK_fills B nm v e cur ty m
  | twoD c ic => exact twoDK_fills B nm v ic cur ty m

theorem compNCol_fills (B : Backend) (nm cn : Nat → String) (idx : Nat) (col : NCol) (n : Nat) :
    fillsL (compNCol B nm cn idx col n).decls = [] ∧ fillsL (compNCol B nm cn idx col n).stmts = [] ∧
    fillsL (compNCol B nm cn idx col n).clears = [] := by
  have h := compChain_fills B nm col.chain n (fun cur ty => (col.kn B nm (cn idx) cur ty (outerNext B nm col.chain n)).1)
  rw [compNCol_stmts, compNCol_decls_eq, (compNCol_eq B nm cn idx col n).2.2.2.1]
  refine ⟨h.1, ?_, by simp [fillsL, fills]⟩
  rw [h.2]; exact NCol.kn_fills B nm _ col _ _ _

theorem compNCols_fills (B : Backend) (nm cn : Nat → String) : ∀ (cols : List NCol) (idx n : Nat),
    fillsL ((compNCols B nm cn cols idx n).flatMap (·.decls)) = [] ∧ fillsL ((compNCols B nm cn cols idx n).flatMap (·.stmts)) = [] ∧
    fillsL ((compNCols B nm cn cols idx n).flatMap (·.clears)) = []
  | [], _, _ => by simp [compNCols, fillsL]
  | c :: cs, idx, n => by
    have h := compNCol_fills B nm cn idx c n
    have ih := compNCols_fills B nm cn cs (idx + 1) (compNCol B nm cn idx c n).next
    simp [compNCols, fillsL_append, h, ih]

/-- every event-level vector column is cleared after the fill -/
theorem compNCols_writes (B : Backend) (nm cn : Nat → String) : ∀ (cols : List NCol) (idx n : Nat),
    ∀ v ∈ colNames cn cols.length idx, v ∈ writesL ((compNCols B nm cn cols idx n).flatMap (·.clears))
  | [], _, _, v, hv => by simp [colNames] at hv
  | c :: cs, idx, n, v, hv => by
    simp only [List.length_cons, colNames, List.mem_cons] at hv
    simp only [compNCols, List.flatMap_cons, writesL_append, List.mem_append, (compNCol_eq B nm cn idx c n).2.2.2.1]
    rcases hv with rfl | hv
    · exact .inl (by simp [writesL, writes])
    · exact .inr (compNCols_writes B nm cn cs (idx + 1) _ v hv)

/-- …and pushed to inside its loop (the statement that makes it a column of the element type) -/
theorem compNCol_pushes (B : Backend) (nm cn : Nat → String) (idx : Nat) (col : NCol) (n : Nat) :
    cn idx ∈ writesL (compNCol B nm cn idx col n).stmts := by
  rw [compNCol_stmts]
  apply compChain_writes
  cases col with
  | agg c e => simp [NCol.kn, aggK, writesL_append, writesL, writes]
  | twoD c ic =>
    simp only [NCol.kn, twoDK]
    split <;> simp [writesL_append, writesL, writes]

def NCol.cppTy : NCol → String
  | .agg _ e => vecTy (tyNE e).cpp
  | .twoD _ ic => vecTy (vecTy ((ichainTy ic).getD .double).cpp)

/-- the C++ types of the columns `compileN` declares, in column order -/
def NQ.types : NQ → List String
  | .eventRows cols => cols.map fun p => p.2.cppTy
  | .elemRows _ cols => cols.map fun p => (tyNE p.2).cpp

def NQ.names : NQ → List String
  | .eventRows cols => cols.map (·.1)
  | .elemRows _ cols => cols.map (·.1)

theorem compNCols_cv_vars (B : Backend) (nm cn : Nat → String) (cols : List NCol) (idx n : Nat) :
    ((compNCols B nm cn cols idx n).map (·.classVar)).map (·.2) = colNames cn cols.length idx := by
  rw [List.map_map]; exact compNCols_vars B nm cn cols idx n

theorem compNCols_cv_types (B : Backend) (nm cn : Nat → String) : ∀ (cols : List NCol) (idx n : Nat),
    ((compNCols B nm cn cols idx n).map (·.classVar)).map (·.1) = cols.map NCol.cppTy
  | [], _, _ => rfl
  | c :: cs, idx, n => by
    simp only [compNCols, List.map_cons, compNCols_cv_types B nm cn cs]
    cases c <;> rfl

theorem colVarsN_types (cn : Nat → String) : ∀ (es : List NE) (idx : Nat),
    (colVarsN cn es idx).map (·.1) = es.map fun e => (tyNE e).cpp
  | [], _ => rfl
  | e :: rest, idx => by simp [colVarsN, colVarsN_types cn rest (idx + 1)]

theorem rowKN_fills (B : Backend) (nm cn : Nat → String) (es : List NE) (cur : CExpr) (ty : Option Ty) (m : Nat) :
    fillsL (rowKN B nm cn es cur ty m).1 = [B.fillTree B.treeName] := by
  have h := compNEs_fills nm (B.elemPtr && ty.isNone) cur es m
  simp [rowKN, fillsL_append, h, setsOf_fills, fillsL, fills]

theorem rowKN_writes (B : Backend) (nm cn : Nat → String) (es : List NE) (cur : CExpr) (ty : Option Ty) (m : Nat)
    (v : String) (hv : v ∈ colNames cn es.length 0) : v ∈ writesL (rowKN B nm cn es cur ty m).1 := by
  simp only [rowKN, writesL_append, List.mem_append, setsOf_writes, compNEs_vals_length]
  exact .inl (.inr hv)

theorem schemaOk_compileN_eventRows (B : Backend) (nm cn : Nat → String)
    (hcinj : ∀ i j, cn i = cn j → i = j) (hdisj : ∀ j k, nm j ≠ cn k) (cols : List (String × NCol)) :
    SchemaOk (compileN B nm cn (.eventRows cols)) (cols.map (·.1)) (NQ.types (.eventRows cols)) (B.fillTree B.treeName) = true := by
  have hl : (compNCols B nm cn (cols.map (·.2)) 0 0).length = cols.length := by simp [compNCols_length]
  have hf := compNCols_fills B nm cn (cols.map (·.2)) 0 0
  apply schemaOk_of _ nm cn _ _ _ ((compNCols B nm cn (cols.map (·.2)) 0 0).map (·.classVar))
    (fun t => "edm::EDGetTokenT<" ++ t.2.1 ++ ">")
  · rfl
  · simp only [compileN, List.map_map]; rfl
  · simp [hl]
  · rw [compNCols_cv_vars]; simp [hl]
  · rw [compNCols_cv_types]; simp [NQ.types, List.map_map]
  · exact hcinj
  · exact tokens_names_nestedEventRows B nm cn cols
  · exact hdisj
  · intro v hv
    rw [compNCols_cv_vars] at hv
    have h := compNCols_writes B nm cn (cols.map (·.2)) 0 0 v hv
    simp only [compileN, writes, writesL_append, List.mem_append]
    exact .inr h
  · simp [compileN, fills, fillsL_append, fillsL]
  · intro t ht
    simpa [compileN, fills, fillsL_append, fillsL, hf] using ht

theorem schemaOk_compileN_elemRows (B : Backend) (nm cn : Nat → String)
    (hcinj : ∀ i j, cn i = cn j → i = j) (hdisj : ∀ j k, nm j ≠ cn k) (c : Chain) (cols : List (String × NE)) :
    SchemaOk (compileN B nm cn (.elemRows c cols)) (cols.map (·.1)) (NQ.types (.elemRows c cols)) (B.fillTree B.treeName) = true := by
  have hn := colVarsN_names cn (cols.map (·.2)) 0
  have hl : (colVarsN cn (cols.map (·.2)) 0).length = cols.length := by
    have := congrArg List.length hn
    simpa [colNames_length] using this
  have hf := compChain_fills B nm c 0 (fun cur ty => (rowKN B nm cn (cols.map (·.2)) cur ty (outerNext B nm c 0)).1)
  apply schemaOk_of _ nm cn _ _ _ (colVarsN cn (cols.map (·.2)) 0)
    (fun t => "edm::EDGetTokenT<" ++ t.2.1 ++ ">")
  · rfl
  · rfl
  · simp [hl]
  · rw [hn, hl]; simp
  · rw [colVarsN_types]; simp [NQ.types, List.map_map]
  · exact hcinj
  · exact tokens_names_nestedElemRows B nm cn c cols
  · exact hdisj
  · intro v hv
    rw [hn] at hv
    simp only [compileN, compChainN, writes, writesL_append, List.mem_append]
    refine .inr (compChain_writes B nm c 0 _ v ?_)
    exact rowKN_writes B nm cn _ _ _ _ v hv
  · simp [compileN, compChainN, fills, fillsL_append, hf, rowKN_fills]
  · intro t ht
    simpa [compileN, compChainN, fills, fillsL_append, hf, rowKN_fills] using ht

end FaxVerif.Gen
