/-
Gen — one event-level vector column of the arbitrary-depth fragment, `e.Coll(bank).Where*.Select(y → DE)`:
the continuation `aggKD` (the block of the expression, then `col.push_back(value)`) satisfies the `PushSpec` of
Gen/NestedColCorrect.lean, so `pushCol_correct` (retrieval, the outer loop, the lowered outer condition) applies:
afterwards the column variable holds exactly the list the query's `Select` denotes.
-/
import FaxVerif.Gen.DeepExprCorrect
import FaxVerif.Gen.NestedColCorrect
namespace FaxVerif.Gen
open FaxVerif.Cpp FaxVerif.Linq
variable {D : Type}

theorem aggKD_next_ge (B : Backend) (nm : Nat → String) (hinj : ∀ i j, nm i = nm j → i = j) (N : Num D)
    (col : String) (e : DE) (cur : CExpr) (ty : Option Ty) (m : Nat) : m ≤ (aggKD B nm col e cur ty m).2 := by
  simp only [aggKD]; exact (compDE_shape N nm hinj e _ none cur m).ge

theorem aggKD_pushSpec (C : Ctx D) (QC : QCtx D) (hN : QC.N = C.N) (B : Backend) (nm : Nat → String)
    (hinj : ∀ i j, nm i = nm j → i = j) (col : String) (hcol : ∀ j, nm j ≠ col) (e : DE) (hwt : wtDE none e = true)
    (y : String) (ρ : LEnv D) :
    PushSpec C nm col (aggKD B nm col e) (fun v => denote QC ((y, v) :: ρ) (deQ 0 y e)) (fun v => DEHyp QC e 0 y ρ v) := by
  intro cur m s v u a hcv hcur hQ hcolv hf
  obtain ⟨s1, hex1, hr1, hv1, _, hf1⟩ := compDE_block_correct C QC hN nm hinj (B.elemPtr && (none : Option Ty).isNone) none cur v 0 y ρ e m s u
    (fun z hz => (hcv z hz).1) hcur (by intro t ht; cases ht) hwt hQ hf
  have hcol1 : s1.env col = some (.val (.vec a)) := by
    rw [hf1 col (by rintro ⟨j, _, _, hj⟩; exact hcol j hj.symm)]; exact hcolv
  refine ⟨{ s1 with env := s1.env.set col (.vec (a ++ [u])) }, ?_, hr1, by simp [Env.set], ?_⟩
  · simp only [aggKD]
    rw [execs_append, hex1]
    simp only [execs, exec_push_ok C s1 col _ a u hcol1 hv1]
  · intro z hz hzr
    simp only [Env.set, hz, if_false]
    exact hf1 z (by simpa [aggKD] using hzr)

/-- **one event-level vector column whose values nest loops to any depth** -/
theorem deepCol_correct (C : Ctx D) (QC : QCtx D) (hN : QC.N = C.N) (hev : QC.ev = C.ev)
    (B : Backend) (hB : BackendBase B) (nm : Nat → String)
    (hinj : ∀ i j, nm i = nm j → i = j) (hres : ∀ j, nm j ≠ "result")
    (hcollT : ∀ name, B.collType name = QC.collType name)
    (c : Chain) (hwo : wtOuter c = true) (n : Nat) (htok : TokChain B nm C c n)
    (col : String) (hcol : ∀ j, nm j ≠ col) (hcolres : col ≠ "result")
    (e : DE) (hwt : wtDE none e = true)
    (hct : ChainTyped QC c)
    (hQ : ∀ cty l, QC.ev.find c.bank = some (cty, .vec l) → ∀ v ∈ l, DEHyp QC e 0 outerVar [("e", evtVal)] v)
    (s : St D) (hx : (s.env (nm n)).isSome = true) (hpre : s.env col = some (.val (.vec [])))
    (val : Val D) (hden : denote QC [("e", evtVal)] (dcolQ "e" ⟨c, e⟩) = .ok val) :
    ∃ us s', val = .vec us ∧ execs C (compChainN B nm c n (aggKD B nm col e)).stmts s = .ok s' ∧ s'.rows = s.rows ∧
      s'.env col = some (.val (.vec us)) ∧
      (∀ z, z ≠ col → ¬ Touch nm n (compChainN B nm c n (aggKD B nm col e)).next z → s'.env z = s.env z) :=
  pushCol_correct C QC hN hev B hB nm hinj hres hcollT c hwo n htok col hcol hcolres (aggKD B nm col e)
    (fun v => denote QC ((outerVar, v) :: [("e", evtVal)]) (deQ 0 outerVar e)) (fun v => DEHyp QC e 0 outerVar [("e", evtVal)] v)
    (aggKD_pushSpec C QC hN B nm hinj col hcol e hwt outerVar [("e", evtVal)])
    (fun cur m => aggKD_next_ge B nm hinj C.N col e cur none m)
    outerVar (deQ 0 outerVar e) (fun _ => rfl) hct hQ s hx hpre val hden

end FaxVerif.Gen
