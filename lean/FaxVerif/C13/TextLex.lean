/-
C13 — the scanner on the rendering of ANY well-formed emitted expression.

`lex_render`: the maximal-munch scanner `lex` (Text.lean), run over the characters of `e.render`, yields exactly
the token list `e.toks` the rendering is meant to consist of — for every well-formed `e`, any depth: there is no
`--`, `++`, `+-`, `<<=`, `->` … token accident at any join of two sub-texts.
-/
import FaxVerif.C13.Text
namespace FaxVerif.C13

/-! ## the characters of a rendering -/

def castPre (t : CT) : List Char := ("static_cast<" ++ t.name ++ ">(").toList
def powPre : List Char := "std::pow(".toList

/-- `CE.render` as a list of characters -/
def CE.chars : CE → List Char
  | .leaf _ s _ => s.toList
  | .ilit n =>
    if n < 0 then ['('] ++ (['-'] ++ (Nat.toDigits 10 n.natAbs ++ [')'])) else Nat.toDigits 10 n.toNat
  | .blit b => if b then "true".toList else "false".toList
  | .bin op l r => ['('] ++ (l.chars ++ (op.toList ++ (r.chars ++ [')'])))
  | .cast t e => castPre t ++ (e.chars ++ [')'])
  | .pow l r => powPre ++ (l.chars ++ ([','] ++ ([' '] ++ (r.chars ++ [')']))))
  | .un op e => ['('] ++ ((op.toList ++ ['(']) ++ (e.chars ++ ([')'] ++ [')'])))

theorem toString_int_toList (n : Int) :
    (toString n).toList = if n < 0 then '-' :: Nat.toDigits 10 n.natAbs else Nat.toDigits 10 n.toNat := by
  cases n with
  | ofNat m => simp [Int.repr, Nat.toList_repr]
  | negSucc m => simp [Int.repr, Nat.toList_repr, String.toList_append]

theorem lit_lp : "(".toList = ['('] := rfl
theorem lit_rp : ")".toList = [')'] := rfl
theorem lit_rp2 : "))".toList = [')', ')'] := rfl
theorem lit_cs : ", ".toList = [',', ' '] := rfl

theorem render_toList (e : CE) : e.render.toList = e.chars := by
  induction e with
  | leaf t s i => rfl
  | ilit n =>
    by_cases hn : n < 0
    · simp only [CE.render, CE.chars, hn, if_true, String.toList_append, toString_int_toList, lit_lp, lit_rp,
        List.cons_append, List.nil_append]
    · simp only [CE.render, CE.chars, hn, if_false, toString_int_toList]
  | blit b => cases b <;> rfl
  | bin op l r ihl ihr =>
    simp only [CE.render, CE.chars, String.toList_append, ihl, ihr, lit_lp, lit_rp,
      List.append_assoc, List.cons_append, List.nil_append]
  | cast t e ih =>
    show ("static_cast<" ++ t.name ++ ">(" ++ e.render ++ ")").toList = castPre t ++ (e.chars ++ [')'])
    rw [String.toList_append, String.toList_append, ih, List.append_assoc]
    rfl
  | pow l r ihl ihr =>
    show ("std::pow(" ++ l.render ++ ", " ++ r.render ++ ")").toList
      = powPre ++ (l.chars ++ ([','] ++ ([' '] ++ (r.chars ++ [')']))))
    rw [String.toList_append, String.toList_append, String.toList_append, String.toList_append, ihl, ihr]
    simp only [List.append_assoc]
    rfl
  | un op e ih =>
    simp only [CE.render, CE.chars, String.toList_append, ih, lit_lp, lit_rp2,
      List.append_assoc, List.cons_append, List.nil_append]

/-! ## the scanner on a concatenation -/

theorem scan_append (a b : List Char) (p : Pend) :
    scan p (a ++ b) =
      match scan p a with
      | none => none
      | some (t, q) =>
        match scan q b with
        | none => none
        | some (t2, r) => some (t ++ t2, r) := by
  induction a generalizing p with
  | nil =>
    simp only [List.nil_append, scan]
    cases scan p b with
    | none => rfl
    | some x => rfl
  | cons c cs ih =>
    simp only [List.cons_append, scan]
    cases p.extend c with
    | some p' => exact ih p'
    | none =>
      cases Pend.start c with
      | none => rfl
      | some q =>
        simp only [ih q]
        cases scan q cs with
        | none => rfl
        | some x =>
          obtain ⟨t, q'⟩ := x
          dsimp only
          cases scan q' b with
          | none => simp
          | some y => simp [List.append_assoc]

theorem scan_app {p q r : Pend} {a b : List Char} {t t2 : List Tok}
    (h1 : scan p a = some (t, q)) (h2 : scan q b = some (t2, r)) : scan p (a ++ b) = some (t ++ t2, r) := by
  rw [scan_append, h1]; simp only [h2]

theorem scan_cons_start {p q r : Pend} {c : Char} {cs : List Char} {ts : List Tok}
    (h : p.extend c = none) (hs : Pend.start c = some q) (h2 : scan q cs = some (ts, r)) :
    scan p (c :: cs) = some (p.flush ++ ts, r) := by
  simp only [scan, h, hs, h2]

/-- a character that does not continue the pending token: the pending token is closed, the rest is scanned as from
the empty state -/
theorem scan_from {p r : Pend} {c : Char} {cs : List Char} {ts : List Tok}
    (h : p.extend c = none) (h2 : scan .none (c :: cs) = some (ts, r)) :
    scan p (c :: cs) = some (p.flush ++ ts, r) := by
  simp only [scan, Pend.extend] at h2
  simp only [scan, h]
  cases hs : Pend.start c with
  | none => simp [hs] at h2
  | some q =>
    simp only [hs] at h2
    cases hq : scan q cs with
    | none => simp [hq] at h2
    | some x =>
      obtain ⟨t, q'⟩ := x
      simp only [hq, Pend.flush, List.nil_append, Option.some.injEq, Prod.mk.injEq] at h2
      obtain ⟨rfl, rfl⟩ := h2
      simp only [hq]

/-! ## characters that cannot continue an operator -/

def extChars : List Char := ['>', '-', '=', '+', '<', '&', '|', ':', '*']

theorem opExt_true {a : List Char} {c : Char} (h : opExt a c = true) : c ∈ extChars := by
  unfold opExt at h
  split at h <;> first | (simp [extChars]; done) | simp at h

/-- no punctuator is continued by `c` -/
def noExt (c : Char) : Prop := ∀ a, opExt a c = false

theorem noExt_of_not_mem {c : Char} (h : c ∉ extChars) : noExt c := by
  intro a
  cases hh : opExt a c with
  | false => rfl
  | true => exact absurd (opExt_true hh) h

theorem noExt_lparen : noExt '(' := noExt_of_not_mem (by decide)

theorem extChars_not_first : ∀ c ∈ extChars, firstOk c = false := by decide

theorem noExt_of_firstOk {c : Char} (h : firstOk c = true) : noExt c := by
  apply noExt_of_not_mem
  intro hm
  have := extChars_not_first c hm
  simp [h] at this

/-! ## the invariant -/

theorem flush_none : Pend.none.flush = [] := rfl
theorem flush_op (a : List Char) : (Pend.op a).flush = [.p a] := rfl

/-- `cs` scans, from the empty state, into the tokens `ts`, the last of them still pending and closed (nothing
written after an operand continues it); the first character of `cs` continues no punctuator -/
def Inv (cs : List Char) (ts : List Tok) : Prop :=
  ∃ c rest init q, cs = c :: rest ∧ noExt c ∧ scan .none cs = some (init, q) ∧ init ++ q.flush = ts ∧ q.closed = true

theorem Inv.from_op {cs : List Char} {ts : List Tok} (h : Inv cs ts) (a : List Char) :
    ∃ init q, scan (.op a) cs = some (.p a :: init, q) ∧ init ++ q.flush = ts ∧ q.closed = true := by
  obtain ⟨c, rest, init, q, rfl, hc, hs, ht, hq⟩ := h
  refine ⟨init, q, ?_, ht, hq⟩
  have : (Pend.op a).extend c = none := by simp [Pend.extend, hc a]
  exact scan_from this hs

theorem Inv.from_none {cs : List Char} {ts : List Tok} (h : Inv cs ts) :
    ∃ init q, scan .none cs = some (init, q) ∧ init ++ q.flush = ts ∧ q.closed = true := by
  obtain ⟨c, rest, init, q, rfl, hc, hs, ht, hq⟩ := h
  exact ⟨init, q, hs, ht, hq⟩

/-! ## what is written after a sub-expression closes its last token -/

def sepChars : List Char := ['*', '/', '%', '+', '-', '<', '>', '=', '!', '&', '^', '|', ')', ',']

theorem sepChars_facts : ∀ c ∈ sepChars,
    isIdChar c = false ∧ (c == '.') = false ∧ opExt [')'] c = false ∧ Pend.start c = some (.op [c]) := by decide

theorem closed_ext {q : Pend} {c : Char} (hq : q.closed = true) (hc : c ∈ sepChars) : q.extend c = none := by
  obtain ⟨h1, h2, h3, _⟩ := sepChars_facts c hc
  cases q with
  | none => simp [Pend.closed] at hq
  | id a => simp [Pend.extend, h1]
  | num a =>
    simp [Pend.closed] at hq
    simp [Pend.extend, h1, hq]
    simpa using h2
  | op a =>
    simp [Pend.closed] at hq
    subst hq
    simp [Pend.extend, h3]

theorem scan_sep1 {q : Pend} {c : Char} (hq : q.closed = true) (hc : c ∈ sepChars) :
    scan q [c] = some (q.flush, .op [c]) := by
  have := scan_cons_start (cs := []) (closed_ext hq hc) (sepChars_facts c hc).2.2.2 rfl
  simpa using this

theorem scan_sep2 {q : Pend} {c d : Char} (hq : q.closed = true) (hc : c ∈ sepChars) (hd : opExt [c] d = true) :
    scan q [c, d] = some (q.flush, .op [c, d]) := by
  have h1 : scan (.op [c]) [d] = some ([], .op [c, d]) := by simp [scan, Pend.extend, hd]
  have := scan_cons_start (closed_ext hq hc) (sepChars_facts c hc).2.2.2 h1
  simpa using this

theorem scan_binop {q : Pend} {op : String} (hq : q.closed = true) (hop : knownBinTexts.contains op = true) :
    scan q op.toList = some (q.flush, .op op.toList) := by
  simp [knownBinTexts] at hop
  rcases hop with rfl | rfl | rfl | rfl | rfl | rfl | rfl | rfl | rfl | rfl | rfl | rfl | rfl | rfl | rfl | rfl | rfl | rfl <;>
    first
      | exact scan_sep1 hq (by decide)
      | exact scan_sep2 hq (by decide) (by decide)

theorem scan_unop {op : String} (hop : knownUnTexts.contains op = true) :
    scan (.op ['(']) (op.toList ++ ['(']) = some ([.p ['('], .p op.toList], .op ['(']) := by
  simp [knownUnTexts] at hop
  rcases hop with rfl | rfl | rfl | rfl <;> rfl

/-! ## digits -/

theorem digit_facts {c : Char} (h : c.isDigit = true) :
    c.isAlpha = false ∧ c.isAlphanum = true ∧ (c == ' ') = false ∧ (c == '_') = false
      ∧ (c == 'e') = false ∧ (c == 'E') = false ∧ (c == 'p') = false ∧ (c == 'P') = false := by
  refine ⟨?_, ?_, ?_, ?_, ?_, ?_, ?_, ?_⟩
  · rw [Char.isDigit_iff_toNat] at h
    have : '0'.toNat = 48 := rfl
    have : '9'.toNat = 57 := rfl
    simp [Char.isAlpha, Char.isUpper, Char.isLower, UInt32.le_iff_toNat_le]
    omega
  · simp [Char.isAlphanum, h]
  all_goals
    simp only [beq_eq_false_iff_ne, ne_eq]
    rintro rfl
    exact absurd h (by decide)

theorem firstOk_digit {c : Char} (h : c.isDigit = true) : firstOk c = true := by simp [firstOk, h]

theorem start_digit {c : Char} (h : c.isDigit = true) : Pend.start c = some (.num [c]) := by
  obtain ⟨h1, _, h3, h4, _⟩ := digit_facts h
  simp [Pend.start, isIdStart, h1, h3, h4, h]

theorem scan_num_digits (ds : List Char) (hd : ∀ c ∈ ds, c.isDigit = true) (a : List Char) :
    scan (.num a) ds = some ([], .num (a ++ ds)) := by
  induction ds generalizing a with
  | nil => simp [scan]
  | cons c cs ih =>
    have hc := hd c (by simp)
    have : (Pend.num a).extend c = some (.num (a ++ [c])) := by
      simp [Pend.extend, isIdChar, (digit_facts hc).2.1]
    simp only [scan, this]
    rw [ih (fun x hx => hd x (by simp [hx]))]
    simp

theorem lastIsExp_digits : ∀ ds : List Char, (∀ c ∈ ds, c.isDigit = true) → lastIsExp ds = false
  | [], _ => rfl
  | [c], h => by
    obtain ⟨_, _, _, _, h5, h6, h7, h8⟩ := digit_facts (h c (by simp))
    simp [lastIsExp, h5, h6, h7, h8]
  | c :: d :: r, h => by
    show lastIsExp (d :: r) = false
    exact lastIsExp_digits (d :: r) (fun x hx => h x (by simp [hx]))

theorem inv_digits (ds : List Char) (hne : ds ≠ []) (hd : ∀ c ∈ ds, c.isDigit = true) : Inv ds [.num ds] := by
  cases ds with
  | nil => exact absurd rfl hne
  | cons d r =>
    have hdd := hd d (by simp)
    refine ⟨d, r, [], .num (d :: r), rfl, noExt_of_firstOk (firstOk_digit hdd), ?_, rfl, ?_⟩
    · have h1 := scan_num_digits r (fun x hx => hd x (by simp [hx])) [d]
      have := scan_cons_start (p := .none) rfl (start_digit hdd) h1
      simpa [Pend.flush] using this
    · simp [Pend.closed, lastIsExp_digits _ hd]

theorem inv_toDigits (n : Nat) : Inv (Nat.toDigits 10 n) [.num (Nat.toDigits 10 n)] :=
  inv_digits _ Nat.toDigits_ne_nil (fun _ hc => Nat.isDigit_of_mem_toDigits (by decide) (by decide) hc)

/-! ## operand texts -/

theorem inv_leaf {s : String} (h : atomOk s = true) : Inv s.toList (atomToks s) := by
  cases hs : s.toList with
  | nil => simp [atomOk, hs] at h
  | cons c rest =>
    cases hscan : scan .none s.toList with
    | none =>
      rw [hs] at hscan
      simp [atomOk, hscan, hs] at h
    | some x =>
      obtain ⟨ts, p⟩ := x
      rw [hs] at hscan
      simp [atomOk, hscan, hs] at h
      refine ⟨c, rest, ts, p, rfl, noExt_of_firstOk h.1.1, hscan, ?_, h.1.2⟩
      simp [atomToks, hs, hscan]

/-! ## concrete prefixes -/

theorem scan_castPre (t : CT) :
    scan .none (castPre t) = some ([.id staticCast, .p ['<'], .id t.name.toList, .p ['>']], .op ['(']) := by
  cases t <;> rfl

theorem castPre_head (t : CT) (x : List Char) : ∃ rest, castPre t ++ x = 's' :: rest := by
  cases t <;> exact ⟨_, rfl⟩

theorem scan_powPre :
    scan .none powPre = some ([.id "std".toList, .p [':', ':'], .id "pow".toList], .op ['(']) := by rfl

theorem noExt_s : noExt 's' := noExt_of_not_mem (by decide)

/-! ## the main invariant -/

theorem inv_main (e : CE) (h : e.wf = true) : Inv e.chars e.toks := by
  induction e with
  | leaf t s i => exact inv_leaf h
  | ilit n =>
    by_cases hn : n < 0
    · simp only [CE.chars, CE.toks, hn, if_true]
      obtain ⟨i1, q1, s1, e1, c1⟩ := (inv_toDigits n.natAbs).from_op ['-']
      have s2 := scan_sep1 (c := ')') c1 (by decide)
      have s3 := scan_app s1 s2
      have s4 := scan_cons_start (p := .op ['(']) (c := '-') rfl rfl s3
      have s5 := scan_cons_start (p := .none) (c := '(') rfl rfl s4
      refine ⟨'(', _, _, .op [')'], rfl, noExt_lparen, s5, ?_, rfl⟩
      simp only [flush_none, flush_op, List.nil_append, List.cons_append, List.cons.injEq, true_and]
      rw [e1]; rfl
    · simp only [CE.chars, CE.toks, hn, if_false]
      exact inv_toDigits _
  | blit b =>
    cases b
    · exact ⟨'f', _, [], .id "false".toList, rfl, noExt_of_not_mem (by decide), rfl, rfl, rfl⟩
    · exact ⟨'t', _, [], .id "true".toList, rfl, noExt_of_not_mem (by decide), rfl, rfl, rfl⟩
  | bin op l r ihl ihr =>
    simp [CE.wf] at h
    obtain ⟨⟨hop, hl⟩, hr⟩ := h
    obtain ⟨i1, q1, s1, e1, c1⟩ := (ihl hl).from_op ['(']
    have s2 := scan_binop c1 (by simpa using hop)
    obtain ⟨i2, q2, s3, e2, c2⟩ := (ihr hr).from_op op.toList
    have s4 := scan_sep1 (c := ')') c2 (by decide)
    have s5 := scan_app s1 (scan_app s2 (scan_app s3 s4))
    have s6 := scan_cons_start (p := .none) (c := '(') rfl rfl s5
    refine ⟨'(', _, _, .op [')'], rfl, noExt_lparen, s6, ?_, rfl⟩
    simp [CE.toks, flush_none, flush_op, ← e1, ← e2]
  | cast t e ih =>
    simp [CE.wf] at h
    obtain ⟨i1, q1, s1, e1, c1⟩ := (ih h).from_op ['(']
    have s2 := scan_sep1 (c := ')') c1 (by decide)
    have s3 := scan_app (scan_castPre t) (scan_app s1 s2)
    obtain ⟨rest, hrest⟩ := castPre_head t (e.chars ++ [')'])
    refine ⟨'s', rest, _, .op [')'], hrest, noExt_s, s3, ?_, rfl⟩
    simp [CE.toks, flush_op, ← e1]
  | pow l r ihl ihr =>
    simp [CE.wf] at h
    obtain ⟨hl, hr⟩ := h
    obtain ⟨i1, q1, s1, e1, c1⟩ := (ihl hl).from_op ['(']
    have s2 := scan_sep1 (c := ',') c1 (by decide)
    have s3 : scan (.op [',']) [' '] = some ([.p [',']], .none) := rfl
    obtain ⟨i2, q2, s4, e2, c2⟩ := (ihr hr).from_none
    have s5 := scan_sep1 (c := ')') c2 (by decide)
    have s6 := scan_app scan_powPre (scan_app s1 (scan_app s2 (scan_app s3 (scan_app s4 s5))))
    refine ⟨'s', _, _, .op [')'], rfl, noExt_s, s6, ?_, rfl⟩
    simp [CE.toks, flush_op, ← e1, ← e2]
  | un op e ih =>
    simp [CE.wf] at h
    obtain ⟨hop, he⟩ := h
    have s0 := scan_unop (by simpa using hop)
    obtain ⟨i1, q1, s1, e1, c1⟩ := (ih he).from_op ['(']
    have s2 := scan_sep1 (c := ')') c1 (by decide)
    have s3 := scan_sep1 (q := .op [')']) (c := ')') rfl (by decide)
    have s4 := scan_app s0 (scan_app s1 (scan_app s2 s3))
    have s5 := scan_cons_start (p := .none) (c := '(') rfl rfl s4
    refine ⟨'(', _, _, .op [')'], rfl, noExt_lparen, s5, ?_, rfl⟩
    simp [CE.toks, flush_none, flush_op, ← e1]

/-! ## the theorem -/

/-- the maximal-munch scanner, run over the characters of the rendering of any well-formed emitted expression,
yields exactly the intended token list -/
theorem lex_render (e : CE) (h : e.wf = true) : lex e.render.toList = some e.toks := by
  obtain ⟨init, q, hs, ht, _⟩ := (inv_main e h).from_none
  rw [render_toList]
  simp [lex, hs, ht]

theorem lex_render_no_incdec (e : CE) (h : e.wf = true)
    (hl : ∀ t ∈ e.toks, t ≠ .p ['-', '-'] ∧ t ≠ .p ['+', '+']) :
    ∃ ts, lex e.render.toList = some ts ∧ Tok.p ['-', '-'] ∉ ts ∧ Tok.p ['+', '+'] ∉ ts :=
  ⟨e.toks, lex_render e h, fun hm => (hl _ hm).1 rfl, fun hm => (hl _ hm).2 rfl⟩

example : (CE.bin "-" (.leaf .double "it0->d()" 3) (.un "-" (.leaf .double "2.5" 31))).wf = true := by decide

end FaxVerif.C13
