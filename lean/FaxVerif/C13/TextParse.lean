/-
C13 — the parser and the read-back of `Text.lean` on the INTENDED token list of a rendering.

(P) `parse_toks`: `pExpr e.toks = .ok e.toPT` for every well-formed emitted expression `e` (any depth): the
    C++-precedence parser returns exactly the intended tree — no precedence capture, the parentheses the renderer
    writes are enough.
(R) `toCE_toPT`: `e.toPT.toCE (resolver e.leaves) = .ok e.norm` when the operand table is consistent and no operand
    reads as the name `true` / `false` (`noBoolNames`; `cex` below shows that the hypothesis cannot be dropped).
    `toCE_toPT_gen` is the same with the weakest hypothesis (`CE.boolsClear`: the boolean constants that occur in `e`
    are not shadowed) and any table that contains the operands of `e`.
`read_toks` composes the two.

Only core Lean; axioms: propext, Classical.choice, Quot.sound.
-/
import FaxVerif.C13.Text
namespace FaxVerif.C13

/-! ## (P) the parser on the intended tokens -/
/-- what may follow an operand: nothing, or a punctuator that is no postfix operator and no `::` -/
def stopHead : List Tok → Bool
  | [] => true
  | .p s :: _ => s ≠ ['-', '>'] && s ≠ ['.'] && s ≠ ['('] && s ≠ [':', ':'] && !isIncDec s
  | _ => false

/-- what may follow a full expression: nothing, `)` or `,` -/
def closeHead : List Tok → Bool
  | [] => true
  | .p s :: _ => s = [')'] || s = [',']
  | _ => false

/-- the next token is not `::` -/
def noColon : List Tok → Bool
  | .p s :: _ => s ≠ [':', ':']
  | _ => true

theorem pUnary_paren (f : Nat) (r : List Tok) (e : PT) (r1 : List Tok)
    (h : pPrimary f (.p ['('] :: r) = .ok (e, r1)) :
    pUnary (f + 1) (.p ['('] :: r) = pPostLoop f e r1 := by
  rw [pUnary.eq_2, h]; simp [isPrefixOp, isIncDec]

theorem pUnary_id (f : Nat) (s : List Char) (r : List Tok) (e : PT) (r1 : List Tok)
    (h : pPrimary f (.id s :: r) = .ok (e, r1)) :
    pUnary (f + 1) (.id s :: r) = pPostLoop f e r1 := by
  rw [pUnary.eq_3, h]; simp

theorem pUnary_num (f : Nat) (s : List Char) (r : List Tok) (e : PT) (r1 : List Tok)
    (h : pPrimary f (.num s :: r) = .ok (e, r1)) :
    pUnary (f + 1) (.num s :: r) = pPostLoop f e r1 := by
  rw [pUnary.eq_3, h]; simp

theorem pUnary_prefix (f : Nat) (s : List Char) (r : List Tok) (e : PT) (r1 : List Tok)
    (hs : isPrefixOp s = true) (h : pUnary f r = .ok (e, r1)) :
    pUnary (f + 1) (.p s :: r) = .ok (.un s e, r1) := by
  rw [pUnary.eq_2, h]; simp [hs]

theorem pPrimary_paren (f : Nat) (r : List Tok) (e : PT) (r2 : List Tok)
    (h : pBin f 0 r = .ok (e, .p [')'] :: r2)) :
    pPrimary (f + 1) (.p ['('] :: r) = .ok (e, r2) := by
  rw [pPrimary.eq_6, h]; rfl

theorem pPrimary_num (f : Nat) (s : List Char) (r : List Tok) :
    pPrimary (f + 1) (.num s :: r) = .ok (.num s, r) := pPrimary.eq_2 f s r

theorem pPrimary_cast (f : Nat) (ty : List Char) (r1 : List Tok) (e : PT) (r2 : List Tok)
    (h : pBin f 0 r1 = .ok (e, .p [')'] :: r2)) :
    pPrimary (f + 1) (.id staticCast :: .p ['<'] :: .id ty :: .p ['>'] :: .p ['('] :: r1) = .ok (.cast ty e, r2) := by
  rw [pPrimary.eq_3, h]; simp

theorem pPrimary_scoped (f : Nat) (s b : List Char) (r1 : List Tok) (hs : s ≠ staticCast) :
    pPrimary (f + 1) (.id s :: .p [':', ':'] :: .id b :: r1) = .ok (.scoped s b, r1) := by
  rw [pPrimary.eq_4]; simp [hs]

theorem pPrimary_id (f : Nat) (s : List Char) (r : List Tok) (hs : s ≠ staticCast) (hr : noColon r = true) :
    pPrimary (f + 1) (.id s :: r) = .ok (.id s, r) := by
  rw [pPrimary.eq_def]
  simp only [hs, if_false]
  split
  · simp [noColon] at hr
  · rfl

theorem pPostLoop_stop (f : Nat) (e : PT) (rest : List Tok) (h : stopHead rest = true) :
    pPostLoop (f + 1) e rest = .ok (e, rest) := by
  match rest, h with
  | [], _ => exact pPostLoop.eq_9 e f
  | .p s :: r, h =>
    simp [stopHead] at h
    rw [pPostLoop.eq_6] <;> simp [h]

theorem pPostLoop_call2 (f : Nat) (e a b : PT) (r r2 r3 : List Tok)
    (hr : ∀ r', r ≠ .p [')'] :: r')
    (h1 : pBin f 0 r = .ok (a, .p [','] :: r2)) (h2 : pBin f 0 r2 = .ok (b, .p [')'] :: r3)) :
    pPostLoop (f + 1) e (.p ['('] :: r) = pPostLoop f (.call2 e a b) r3 := by
  rw [pPostLoop.eq_5 _ _ _ (fun r' h => hr r' h), h1]
  simp only []
  rw [h2]; rfl

theorem pBinLoop_stop (f minP : Nat) (x : PT) (rest : List Tok) (h : closeHead rest = true) :
    pBinLoop (f + 1) minP x rest = .ok (x, rest) := by
  match rest, h with
  | [], _ => rw [pBinLoop.eq_3]; simp
  | .p s :: r, h =>
    simp [closeHead] at h
    rw [pBinLoop.eq_2]
    rcases h with rfl | rfl <;> simp [binPrec]

theorem pBinLoop_step (f minP k : Nat) (s : List Char) (lhs rhs : PT) (r r1 : List Tok)
    (hk : binPrec s = some k) (hm : minP ≤ k) (h : pBin f (k + 1) r = .ok (rhs, r1)) :
    pBinLoop (f + 1) minP lhs (.p s :: r) = pBinLoop f minP (.bin s lhs rhs) r1 := by
  rw [pBinLoop.eq_2, hk]; simp only [hm, if_true, h]

theorem pUnary_fuel_pos {f : Nat} {ts : List Tok} {x : PT × List Tok} (h : pUnary f ts = .ok x) : ∃ f', f = f' + 1 := by
  cases f with
  | zero => rw [pUnary.eq_1] at h; cases h
  | succ n => exact ⟨n, rfl⟩

theorem pBin_of_unary (f minP : Nat) (ts : List Tok) (x : PT) (rest : List Tok)
    (h : pUnary f ts = .ok (x, rest)) (hc : closeHead rest = true) :
    pBin (f + 1) minP ts = .ok (x, rest) := by
  obtain ⟨f', rfl⟩ := pUnary_fuel_pos h
  rw [pBin.eq_2, h]
  exact pBinLoop_stop f' minP x rest hc

theorem noColon_of_stopHead {rest : List Tok} (h : stopHead rest = true) : noColon rest = true := by
  match rest, h with
  | [], _ => rfl
  | .p s :: r, h => simp [stopHead] at h; simp [noColon, h]

theorem pPostLoop_chain (chain : List Tok) : ∀ (f : Nat) (x : PT) (rest : List Tok), atomChain chain = true →
    stopHead rest = true → chain.length + 1 ≤ f → pPostLoop f x (chain ++ rest) = .ok (chainPT x chain, rest) := by
  induction chain using atomChain.induct with
  | case1 =>
    intro f x rest _ hs hf
    obtain ⟨f', rfl⟩ : ∃ f', f = f' + 1 := ⟨f - 1, by simp at hf; omega⟩
    simp only [List.nil_append]
    rw [pPostLoop_stop f' x rest hs]; simp [chainPT]
  | case2 n r ih =>
    intro f x rest hc hs hf
    obtain ⟨f', rfl⟩ : ∃ f', f = f' + 1 := ⟨f - 1, by simp at hf; omega⟩
    simp only [List.cons_append]
    rw [pPostLoop.eq_2, chainPT.eq_1]
    exact ih f' _ rest (by simpa [atomChain] using hc) hs (by simp at hf; omega)
  | case3 n r ih =>
    intro f x rest hc hs hf
    obtain ⟨f', rfl⟩ : ∃ f', f = f' + 1 := ⟨f - 1, by simp at hf; omega⟩
    simp only [List.cons_append]
    rw [pPostLoop.eq_3, chainPT.eq_2]
    exact ih f' _ rest (by simpa [atomChain] using hc) hs (by simp at hf; omega)
  | case4 r ih =>
    intro f x rest hc hs hf
    obtain ⟨f', rfl⟩ : ∃ f', f = f' + 1 := ⟨f - 1, by simp at hf; omega⟩
    simp only [List.cons_append]
    rw [pPostLoop.eq_4, chainPT.eq_3]
    exact ih f' _ rest (by simpa [atomChain] using hc) hs (by simp at hf; omega)
  | case5 t h1 h2 h3 h4 =>
    intro f x rest hc
    exfalso
    unfold atomChain at hc
    split at hc <;> simp_all

theorem noColon_chain (chain rest : List Tok) (hc : atomChain chain = true) (hs : stopHead rest = true) :
    noColon (chain ++ rest) = true := by
  unfold atomChain at hc
  split at hc
  · simpa using noColon_of_stopHead hs
  · simp [noColon]
  · simp [noColon]
  · simp [noColon]
  · cases hc

theorem leaf_key (toks : List Tok) (h : atomToksOk toks = true) (f : Nat) (hf : toks.length + 4 ≤ f)
    (rest : List Tok) (hs : stopHead rest = true) :
    pUnary f (toks ++ rest) = .ok (atomTreeOf toks, rest) := by
  obtain ⟨f', rfl⟩ : ∃ f', f = f' + 2 := ⟨f - 2, by omega⟩
  unfold atomToksOk at h
  split at h
  · next d =>
    simp only [List.cons_append, List.nil_append]
    rw [pUnary_num _ _ _ _ _ (pPrimary_num f' d rest), pPostLoop_stop f' _ rest hs]
    simp [atomTreeOf]
  · next a chain =>
    simp at h
    simp only [List.cons_append]
    rw [pUnary_id _ _ _ _ _ (pPrimary_id f' a _ h.1 (noColon_chain chain rest h.2 hs))]
    rw [pPostLoop_chain chain (f' + 1) _ rest h.2 hs (by simp at hf; omega)]
    simp [atomTreeOf]
  · cases h

theorem paren_wrap (g : Nat) (A : List Tok) (x : PT) (rest : List Tok)
    (h : pBin g 0 A = .ok (x, .p [')'] :: rest)) (hs : stopHead rest = true) :
    pUnary (g + 2) (.p ['('] :: A) = .ok (x, rest) := by
  rw [pUnary_paren _ _ _ _ (pPrimary_paren g A x rest h)]
  exact pPostLoop_stop g x rest hs

theorem paren_bin (g k : Nat) (A B : List Tok) (s : List Char) (x y : PT) (rest : List Tok)
    (hA : pUnary (g + 2) A = .ok (x, .p s :: B)) (hk : binPrec s = some k)
    (hB : pUnary g B = .ok (y, .p [')'] :: rest)) :
    pBin (g + 3) 0 A = .ok (.bin s x y, .p [')'] :: rest) := by
  rw [pBin.eq_2, hA]
  show pBinLoop (g + 1 + 1) 0 x (.p s :: B) = _
  rw [pBinLoop_step (g + 1) 0 k s x y B _ hk (Nat.zero_le _) (pBin_of_unary g (k + 1) B y _ hB rfl)]
  exact pBinLoop_stop g 0 _ _ rfl

theorem num_key (g : Nat) (d : List Char) (rest : List Tok) (hs : stopHead rest = true) :
    pUnary (g + 2) (.num d :: rest) = .ok (.num d, rest) := by
  rw [pUnary_num _ _ _ _ _ (pPrimary_num g d rest), pPostLoop_stop g _ rest hs]

theorem id_key (g : Nat) (a : List Char) (rest : List Tok) (ha : a ≠ staticCast) (hs : stopHead rest = true) :
    pUnary (g + 2) (.id a :: rest) = .ok (.id a, rest) := by
  rw [pUnary_id _ _ _ _ _ (pPrimary_id g a rest ha (noColon_of_stopHead hs)), pPostLoop_stop g _ rest hs]

theorem binPrec_known {op : String} (h : knownBinTexts.contains op = true) :
    (∃ k, binPrec op.toList = some k) ∧ ∀ r, stopHead (.p op.toList :: r) = true := by
  simp [knownBinTexts] at h
  rcases h with rfl | rfl | rfl | rfl | rfl | rfl | rfl | rfl | rfl | rfl | rfl | rfl | rfl | rfl | rfl | rfl | rfl | rfl <;>
    exact ⟨⟨_, rfl⟩, fun _ => rfl⟩

theorem prefix_known {op : String} (h : knownUnTexts.contains op = true) : isPrefixOp op.toList = true := by
  simp [knownUnTexts] at h
  rcases h with rfl | rfl | rfl | rfl <;> decide

theorem atomToksOk_of_atomOk {s : String} (h : atomOk s = true) : atomToksOk (atomToks s) = true := by
  unfold atomOk at h
  unfold atomToks
  split at h
  · next c cs ts p h1 h2 => rw [h2]; simp at h; exact h.2
  · cases h

/-- an operand starts with `(`, a name or a number -/
def startOk : List Tok → Bool
  | .p s :: _ => s = ['(']
  | .id _ :: _ => true
  | .num _ :: _ => true
  | [] => false

theorem startOk_toks (e : CE) (h : e.wf = true) : startOk e.toks = true := by
  cases e with
  | leaf t s i =>
    have := atomToksOk_of_atomOk (s := s) h
    simp only [CE.toks]
    unfold atomToksOk at this
    split at this <;> simp_all [startOk]
  | ilit n => simp only [CE.toks]; split <;> rfl
  | blit b => rfl
  | bin op l r => rfl
  | cast t e => rfl
  | pow l r => rfl
  | un op e => rfl

theorem not_close_of_startOk {ts rest : List Tok} (h : startOk ts = true) : ∀ r', ts ++ rest ≠ .p [')'] :: r' := by
  intro r' he
  match ts, h with
  | .p s :: _, h => simp [startOk] at h; subst h; simp at he
  | .id _ :: _, _ => simp at he
  | .num _ :: _, _ => simp at he

/-- fuel that is enough for `pUnary` on the tokens of `e` -/
def CE.need : CE → Nat
  | .leaf _ s _ => (atomToks s).length + 4
  | .ilit _ => 8
  | .blit _ => 4
  | .bin _ l r => max l.need r.need + 8
  | .cast _ e => e.need + 8
  | .pow l r => max l.need r.need + 8
  | .un _ e => e.need + 8

theorem key (e : CE) : e.wf = true → ∀ f, e.need ≤ f → ∀ rest, stopHead rest = true →
    pUnary f (e.toks ++ rest) = .ok (e.toPT, rest) := by
  induction e with
  | leaf t s i =>
    intro h f hf rest hs
    exact leaf_key _ (atomToksOk_of_atomOk h) f hf rest hs
  | ilit n =>
    intro _ f hf rest hs
    obtain ⟨f', rfl⟩ : ∃ f', f = f' + 8 := ⟨f - 8, by simp [CE.need] at hf; omega⟩
    by_cases hn : n < 0
    · simp only [CE.toks, CE.toPT, hn, if_true, List.cons_append, List.nil_append]
      have h1 := num_key (f' + 1) (Nat.toDigits 10 n.natAbs) (.p [')'] :: rest) rfl
      have h2 := pUnary_prefix _ ['-'] _ _ _ rfl h1
      have h3 := pBin_of_unary _ 0 _ _ _ h2 rfl
      exact paren_wrap _ _ _ _ h3 hs
    · simp only [CE.toks, CE.toPT, hn, if_false, List.cons_append, List.nil_append]
      exact num_key (f' + 6) _ rest hs
  | blit b =>
    intro _ f hf rest hs
    obtain ⟨f', rfl⟩ : ∃ f', f = f' + 2 := ⟨f - 2, by simp [CE.need] at hf; omega⟩
    simp only [CE.toks, CE.toPT, List.cons_append, List.nil_append]
    exact id_key f' _ rest (by cases b <;> decide) hs
  | bin op l r ihl ihr =>
    intro h f hf rest hs
    simp only [CE.wf, Bool.and_eq_true] at h
    obtain ⟨⟨hop, hl⟩, hr⟩ := h
    obtain ⟨⟨k, hk⟩, hst⟩ := binPrec_known hop
    simp only [CE.need] at hf
    obtain ⟨f', rfl⟩ : ∃ f', f = f' + 8 := ⟨f - 8, by omega⟩
    simp only [CE.toks, CE.toPT, List.append_assoc, List.cons_append, List.nil_append]
    have h1 := ihl hl (f' + 5) (by omega) (.p op.toList :: (r.toks ++ .p [')'] :: rest)) (hst _)
    have h2 := ihr hr (f' + 3) (by omega) (.p [')'] :: rest) rfl
    have h3 := paren_bin _ k _ _ _ _ _ _ h1 hk h2
    exact paren_wrap _ _ _ _ h3 hs
  | cast t e ih =>
    intro h f hf rest hs
    simp only [CE.wf] at h
    simp only [CE.need] at hf
    obtain ⟨f', rfl⟩ : ∃ f', f = f' + 8 := ⟨f - 8, by omega⟩
    simp only [CE.toks, CE.toPT, List.append_assoc, List.cons_append, List.nil_append]
    have h1 := ih h (f' + 5) (by omega) (.p [')'] :: rest) rfl
    have h2 := pBin_of_unary _ 0 _ _ _ h1 rfl
    have h3 := pPrimary_cast _ t.name.toList _ _ _ h2
    rw [pUnary_id _ _ _ _ _ h3]
    exact pPostLoop_stop _ _ rest hs
  | pow l r ihl ihr =>
    intro h f hf rest hs
    simp only [CE.wf, Bool.and_eq_true] at h
    obtain ⟨hl, hr⟩ := h
    simp only [CE.need] at hf
    obtain ⟨f', rfl⟩ : ∃ f', f = f' + 8 := ⟨f - 8, by omega⟩
    simp only [CE.toks, CE.toPT, List.append_assoc, List.cons_append, List.nil_append]
    have h1 := ihl hl (f' + 5) (by omega) (.p [','] :: (r.toks ++ .p [')'] :: rest)) rfl
    have h1' := pBin_of_unary _ 0 _ _ _ h1 rfl
    have h2 := ihr hr (f' + 5) (by omega) (.p [')'] :: rest) rfl
    have h2' := pBin_of_unary _ 0 _ _ _ h2 rfl
    have h3 := pPrimary_scoped (f' + 6) "std".toList "pow".toList
      (.p ['('] :: (l.toks ++ .p [','] :: (r.toks ++ .p [')'] :: rest))) (by decide)
    rw [pUnary_id _ _ _ _ _ h3]
    rw [pPostLoop_call2 (f' + 6) _ _ _ _ _ _ (not_close_of_startOk (startOk_toks l hl)) h1' h2']
    exact pPostLoop_stop _ _ rest hs
  | un op e ih =>
    intro h f hf rest hs
    simp only [CE.wf, Bool.and_eq_true] at h
    obtain ⟨hop, he⟩ := h
    simp only [CE.need] at hf
    obtain ⟨f', rfl⟩ : ∃ f', f = f' + 8 := ⟨f - 8, by omega⟩
    simp only [CE.toks, CE.toPT, List.append_assoc, List.cons_append, List.nil_append]
    have h1 := ih he (f' + 1) (by omega) (.p [')'] :: .p [')'] :: rest) rfl
    have h2 := pBin_of_unary _ 0 _ _ _ h1 rfl
    have h3 := paren_wrap _ _ _ _ h2 (rfl : stopHead (.p [')'] :: rest) = true)
    have h4 := pUnary_prefix _ op.toList _ _ _ (prefix_known hop) h3
    have h5 := pBin_of_unary _ 0 _ _ _ h4 rfl
    exact paren_wrap _ _ _ _ h5 hs

theorem need_le (e : CE) : e.need ≤ 8 * e.toks.length + 8 := by
  induction e with
  | leaf t s i => simp only [CE.need, CE.toks]; omega
  | ilit n => simp only [CE.need, CE.toks]; split <;> simp
  | blit b => simp [CE.need, CE.toks]
  | bin op l r ihl ihr => simp only [CE.need, CE.toks, List.length_append, List.length_cons, List.length_nil]; omega
  | cast t e ih => simp only [CE.need, CE.toks, List.length_append, List.length_cons, List.length_nil]; omega
  | pow l r ihl ihr => simp only [CE.need, CE.toks, List.length_append, List.length_cons, List.length_nil]; omega
  | un op e ih => simp only [CE.need, CE.toks, List.length_append, List.length_cons, List.length_nil]; omega

/-- (P): the parser returns the intended tree on the intended tokens -/
theorem parse_toks (e : CE) (h : e.wf = true) : pExpr e.toks = .ok e.toPT := by
  have hk := key e h (8 * e.toks.length + 15) (by have := need_le e; omega) [] rfl
  rw [List.append_nil] at hk
  have hb := pBin_of_unary _ 0 _ _ _ hk rfl
  unfold pExpr fuelFor
  rw [hb]


/-- `((it0->pt()+(-5))*(-(std::pow(static_cast<double>(cnt0), true))))` -/
def exP : CE :=
  .bin "*" (.bin "+" (.leaf .double "it0->pt()" 1) (.ilit (-5)))
    (.un "-" (.pow (.cast .double (.leaf .int "cnt0" 2)) (.blit true)))

example : pExpr exP.toks = .ok exP.toPT := parse_toks exP (by decide)
example : lex exP.render.toList = some exP.toks := by decide
example : exP.toPT =
    .bin ['*'] (.bin ['+'] (.call0 (.member (.id "it0".toList) true "pt".toList)) (.un ['-'] (.num ['5'])))
      (.un ['-'] (.call2 (.scoped "std".toList "pow".toList) (.cast "double".toList (.id "cnt0".toList))
        (.id "true".toList))) := by decide

/-! ## (R) reading the intended tree back through the operand table -/

theorem isAtom_chainPT (chain : List Tok) : ∀ x : PT, x.isAtom = true → (chainPT x chain).isAtom = true := by
  induction chain using atomChain.induct with
  | case1 => intro x hx; simpa [chainPT] using hx
  | case2 n r ih => intro x hx; rw [chainPT.eq_1]; exact ih _ (by simpa [PT.isAtom] using hx)
  | case3 n r ih => intro x hx; rw [chainPT.eq_2]; exact ih _ (by simpa [PT.isAtom] using hx)
  | case4 r ih => intro x hx; rw [chainPT.eq_3]; exact ih _ (by simpa [PT.isAtom] using hx)
  | case5 t h1 h2 h3 h4 =>
    intro x hx
    rw [chainPT.eq_4]
    · exact hx
    · exact h2
    · exact h3
    · exact h4

theorem isAtom_atomTreeOf {toks : List Tok} (h : atomToksOk toks = true) : (atomTreeOf toks).isAtom = true := by
  unfold atomToksOk at h
  split at h
  · simpa [atomTreeOf, PT.isAtom] using h
  · next a chain => simp only [atomTreeOf]; exact isAtom_chainPT chain _ rfl
  · cases h

theorem isAtom_of_atomTree {s : String} {pt : PT} (h : atomTree s = some pt) : pt.isAtom = true := by
  unfold atomTree at h
  split at h
  · next hok => cases h; exact isAtom_atomTreeOf (atomToksOk_of_atomOk hok)
  · cases h

theorem resolver_none_of_not_atom (ls : List (CT × String × Nat)) (pt : PT) (h : pt.isAtom = false) :
    resolver ls pt = none := by
  unfold resolver
  rw [List.find?_eq_none]
  intro l _ hl
  have := isAtom_of_atomTree (beq_iff_eq.mp hl)
  rw [h] at this; cases this

theorem resolver_mem (ls : List (CT × String × Nat)) (hc : leavesConsistent ls = true) (l : CT × String × Nat)
    (hl : l ∈ ls) (pt : PT) (ht : atomTree l.2.1 = some pt) : resolver ls pt = some l := by
  unfold resolver
  cases hf : ls.find? (fun l => atomTree l.2.1 == some pt) with
  | none =>
    rw [List.find?_eq_none] at hf
    exact absurd (by simpa using ht) (hf l hl)
  | some x =>
    have hx := List.find?_some hf
    have hm := List.mem_of_find?_eq_some hf
    simp only [leavesConsistent, List.all_eq_true] at hc
    have := hc x hm l hl
    simp at hx
    simp [hx, ht] at this
    rw [this]

theorem toCE_atom (res : PT → Option (CT × String × Nat)) (pt : PT) (h : pt.isAtom = true) (l : CT × String × Nat)
    (hr : res pt = some l) : pt.toCE res = .ok (.leaf l.1 l.2.1 l.2.2) := by
  cases pt <;> simp [PT.isAtom] at h <;> simp [PT.toCE, hr]

theorem digitsVal_toDigits (k : Nat) : digitsVal (Nat.toDigits 10 k) = k :=
  Nat.ofDigitChars_ten_toDigits

theorem allDigits_toDigits (k : Nat) : (Nat.toDigits 10 k).all Char.isDigit = true := by
  rw [List.all_eq_true]
  intro c hc
  exact Nat.isDigit_of_mem_toDigits (by decide) (by decide) hc

theorem toCE_num (ls : List (CT × String × Nat)) (k : Nat) :
    (PT.num (Nat.toDigits 10 k)).toCE (resolver ls) = .ok (.ilit k) := by
  rw [PT.toCE, resolver_none_of_not_atom ls _ (by simp [PT.isAtom, allDigits_toDigits])]
  simp [allDigits_toDigits, digitsVal_toDigits]

/-- no operand of the list reads as the name `true` / `false` -/
def noBoolNames (ls : List (CT × String × Nat)) : Bool :=
  ls.all fun l => atomTree l.2.1 != some (.id "true".toList) && atomTree l.2.1 != some (.id "false".toList)

/-- the boolean constants of `e` are not shadowed by an operand of the table `ls` -/
def CE.boolsClear (ls : List (CT × String × Nat)) : CE → Bool
  | .leaf _ _ _ => true
  | .ilit _ => true
  | .blit b => (resolver ls (.id (if b then "true" else "false").toList)).isNone
  | .bin _ l r => l.boolsClear ls && r.boolsClear ls
  | .cast _ e => e.boolsClear ls
  | .pow l r => l.boolsClear ls && r.boolsClear ls
  | .un _ e => e.boolsClear ls

theorem minus_iff (op : String) : op.toList = ['-'] ↔ op = "-" := by
  constructor
  · intro h; rw [← String.ofList_toList (s := op), h]
  · intro h; subst h; rfl

theorem ctOfChars_name (t : CT) : ctOfChars t.name.toList = some t := by
  cases t <;> rfl

theorem atomTree_of_atomOk {s : String} (h : atomOk s = true) : atomTree s = some (atomTreeOf (atomToks s)) := by
  simp [atomTree, h]

theorem toCE_toPT_gen (ls : List (CT × String × Nat)) (hc : leavesConsistent ls = true) (e : CE) :
    e.wf = true → (∀ l ∈ e.leaves, l ∈ ls) → e.boolsClear ls = true →
    e.toPT.toCE (resolver ls) = .ok e.norm := by
  induction e with
  | leaf t s i =>
    intro h hm _
    have ht := atomTree_of_atomOk (s := s) h
    have hr := resolver_mem ls hc (t, s, i) (hm _ (by simp [CE.leaves])) _ ht
    exact toCE_atom _ _ (isAtom_of_atomTree ht) _ hr
  | ilit n =>
    intro _ _ _
    by_cases hn : n < 0
    · simp only [CE.toPT, hn, if_true, CE.norm]
      rw [PT.toCE, toCE_num]
      have : -(n.natAbs : Int) = n := by omega
      simp [this]
    · simp only [CE.toPT, hn, if_false, CE.norm]
      rw [toCE_num]
      have : (n.toNat : Int) = n := by omega
      rw [this]
  | blit b =>
    intro _ _ hb
    simp only [CE.boolsClear, Option.isNone_iff_eq_none] at hb
    simp only [CE.toPT, CE.norm]
    rw [PT.toCE, hb]
    cases b <;> simp
  | bin op l r ihl ihr =>
    intro h hm hb
    simp only [CE.wf, Bool.and_eq_true] at h
    simp only [CE.boolsClear, Bool.and_eq_true] at hb
    simp only [CE.leaves, List.mem_append] at hm
    simp only [CE.toPT, CE.norm]
    rw [PT.toCE, ihl h.1.2 (fun x hx => hm x (Or.inl hx)) hb.1, ihr h.2 (fun x hx => hm x (Or.inr hx)) hb.2]
    simp [String.ofList_toList]
  | cast t e ih =>
    intro h hm hb
    simp only [CE.toPT, CE.norm]
    rw [PT.toCE, ctOfChars_name, ih h hm hb]
  | pow l r ihl ihr =>
    intro h hm hb
    simp only [CE.wf, Bool.and_eq_true] at h
    simp only [CE.boolsClear, Bool.and_eq_true] at hb
    simp only [CE.leaves, List.mem_append] at hm
    simp only [CE.toPT, CE.norm]
    rw [PT.toCE, ihl h.1 (fun x hx => hm x (Or.inl hx)) hb.1, ihr h.2 (fun x hx => hm x (Or.inr hx)) hb.2]
    simp
  | un op e ih =>
    intro h hm hb
    simp only [CE.wf, Bool.and_eq_true] at h
    simp only [CE.toPT, CE.norm]
    rw [PT.toCE, ih h.2 hm hb]
    cases hn : e.norm <;> simp [String.ofList_toList, minus_iff]
    split <;> rfl

theorem resolver_bool_none (ls : List (CT × String × Nat)) (h : noBoolNames ls = true) (b : Bool) :
    resolver ls (.id (if b then "true" else "false").toList) = none := by
  unfold resolver
  rw [List.find?_eq_none]
  intro l hl
  simp only [noBoolNames, List.all_eq_true, Bool.and_eq_true, bne_iff_ne, ne_eq] at h
  have := h l hl
  cases b
  · simpa using this.2
  · simpa using this.1

theorem boolsClear_of_noBoolNames (ls : List (CT × String × Nat)) (h : noBoolNames ls = true) (e : CE) :
    e.boolsClear ls = true := by
  induction e with
  | blit b => simp [CE.boolsClear, resolver_bool_none ls h b]
  | bin op l r ihl ihr => simp [CE.boolsClear, ihl, ihr]
  | pow l r ihl ihr => simp [CE.boolsClear, ihl, ihr]
  | cast t e ih => simpa [CE.boolsClear] using ih
  | un op e ih => simpa [CE.boolsClear] using ih
  | _ => rfl

theorem toCE_toPT (e : CE) (h : e.wf = true) (hc : leavesConsistent e.leaves = true)
    (hb : noBoolNames e.leaves = true) : e.toPT.toCE (resolver e.leaves) = .ok e.norm :=
  toCE_toPT_gen e.leaves hc e h (fun _ hl => hl) (boolsClear_of_noBoolNames _ hb e)


example : exP.toPT.toCE (resolver exP.leaves) = .ok exP.norm :=
  toCE_toPT exP (by decide) (by decide) (by decide)
/-- `(-(5))` and `(-5)`: different tokens, the same tree, the same constant -/
example : (CE.un "-" (.ilit 5)).norm = .ilit (-5) ∧ (CE.un "-" (.ilit 5)).toks ≠ (CE.ilit (-5)).toks ∧
    (CE.un "-" (.ilit 5)).toPT = (CE.ilit (-5)).toPT := by decide

/-- parser and read-back composed, on the intended tokens -/
theorem read_toks (e : CE) (h : e.wf = true) (hc : leavesConsistent e.leaves = true)
    (hb : noBoolNames e.leaves = true) :
    (match pExpr e.toks with
     | .ok pt => pt.toCE (resolver e.leaves)
     | .ill w => .ill w
     | .unk w => .unk w) = .ok e.norm := by
  rw [parse_toks e h]
  exact toCE_toPT e h hc hb

/-- without `noBoolNames`: an operand whose text is `true` shadows the constant -/
def cex : CE := .bin "+" (.leaf .bool "true" 0) (.blit true)
example : cex.wf = true ∧ leavesConsistent cex.leaves = true ∧
    (match cex.toPT.toCE (resolver cex.leaves) with | .ok x => x == cex.norm | _ => false) = false := by
  decide

end FaxVerif.C13
